(* C12 model: EVM call frames over the journalled account state, and AccountDB.Prepare.

   Sources followed (go-rangers):
     src/storage/account/accountdb.go     Snapshot, RevertToSnapshot, Prepare, SetNonce, SetState, SetCode,
                                          AddBalance/SubBalance (token-contract slot), Suicide, AddRefund,
                                          AddLog, SetTransientState, AddAddressToAccessList
     src/storage/account/transition.go    undo of every journal entry kind
     src/vm/evm.go                        Call, CallCode, DelegateCall, StaticCall, create
     src/vm/interpreter.go                Run: sticky readOnly, the write-protection test, halts/reverts
     src/vm/instructions.go, eips.go      opSstore, makeLog, opSuicide (+gasSelfdestruct refund), opTstore,
                                          opCall/opCallCode/opDelegateCall/opStaticCall/opCreate/opCreate2
                                          (second log channel: callContext.logs)

   Abstractions (each is held against the real code by the correspondence run):
   * words, addresses, keys and code are numbers; code is a program id in a table (0 = no code);
   * the native balance of an address (a storage slot of the bound token contract) is the map [bal];
     the token contract itself exists throughout and is not part of the universe;
   * gas is not computed: WHERE a frame runs out of gas is taken from the list [oracle] (one entry per frame
     that runs code: 0 = it does not, 1+k = it dies after k actions, 1000 = a creation whose code deposit
     cannot be paid; one entry per precompile run: non-zero = it fails). The theorems hold for every such
     list, i.e. for out-of-gas striking at any action boundary of any frame;
   * the address of a created contract (keccak of sender/nonce or sender/salt/code) is taken from the
     same list, in execution order;
   * two precompiled contracts are in the universe: 21 (identity, succeeds) and 22 (blake2F, fails on empty input);
   * the miner registry and the refund escrow touched by STAKE/UNSTAKE/UNSTAKEALL are the storage of the
     reserved accounts 900 and 901 (as in the code: SetData on ValidatorDBAddress / the refund address). *)
From Coq Require Import List NArith Bool.
Import ListNotations.
Local Open Scope N_scope.

Definition addr := N.
Definition key := N.

(* ---------- account state ---------- *)
Record acct := mkAcct { a_nonce : N; a_code : N; a_suicided : bool }.

Record log := mkLog { l_addr : addr; l_topic : N; l_tx : N; l_txindex : N; l_index : N }.

Record data := mkData {
  objs : addr -> option acct;      (* account objects: existence, nonce, code, suicided flag *)
  stor : addr -> key -> N;         (* contract storage as seen by GetState (0 = absent) *)
  bal : addr -> N;                 (* native balance *)
  tstor : addr -> key -> N;        (* transient storage *)
  acl : addr -> bool;              (* access list (addresses) *)
  refund : N;
  logs : N -> list log;            (* logs per transaction hash *)
  logsize : N }.

Definition upd {A} (f : N -> A) (a : N) (v : A) : N -> A := fun x => if x =? a then v else f x.
Definition upd2 {A} (f : N -> N -> A) (a k : N) (v : A) : N -> N -> A :=
  fun x y => if (x =? a) && (y =? k) then v else f x y.

Definition set_objs d f := mkData f (stor d) (bal d) (tstor d) (acl d) (refund d) (logs d) (logsize d).
Definition set_stor d f := mkData (objs d) f (bal d) (tstor d) (acl d) (refund d) (logs d) (logsize d).
Definition set_bal d f := mkData (objs d) (stor d) f (tstor d) (acl d) (refund d) (logs d) (logsize d).
Definition set_tstor d f := mkData (objs d) (stor d) (bal d) f (acl d) (refund d) (logs d) (logsize d).
Definition set_acl d f := mkData (objs d) (stor d) (bal d) (tstor d) f (refund d) (logs d) (logsize d).
Definition set_refund d r := mkData (objs d) (stor d) (bal d) (tstor d) (acl d) r (logs d) (logsize d).
Definition set_logs d f n := mkData (objs d) (stor d) (bal d) (tstor d) (acl d) (refund d) f n.

(* transition.go: one constructor per entry kind that the EVM can produce *)
Inductive entry :=
| ECreateObject (a : addr)
| ESuicide (a : addr) (prev : bool) (prevbal : N)
| ENonce (a : addr) (prev : N)
| EStorage (a : addr) (k : key) (prev : N)
| ECode (a : addr) (prev : N)
| EBalance (a : addr) (prev : N)            (* storageChange on the token contract's slot of [a] *)
| ERefund (prev : N)
| EAddLog (h : N)
| EAccessAddr (a : addr)
| ETransient (a : addr) (k : key) (prev : N).

Definition on_obj (d : data) (a : addr) (f : acct -> acct) : data :=
  match objs d a with
  | Some o => set_objs d (upd (objs d) a (Some (f o)))
  | None => d
  end.

(* transition.go: undo *)
Definition undo (e : entry) (d : data) : data :=
  match e with
  | ECreateObject a => set_objs d (upd (objs d) a None)
  | ESuicide a prev pb =>
      match objs d a with
      | Some o => set_bal (set_objs d (upd (objs d) a (Some (mkAcct (a_nonce o) (a_code o) prev)))) (upd (bal d) a pb)
      | None => d
      end
  | ENonce a p => on_obj d a (fun o => mkAcct p (a_code o) (a_suicided o))
  | EStorage a k p => set_stor d (upd2 (stor d) a k p)
  | ECode a p => on_obj d a (fun o => mkAcct (a_nonce o) p (a_suicided o))
  | EBalance a p => set_bal d (upd (bal d) a p)
  | ERefund p => set_refund d p
  | EAddLog h => set_logs d (upd (logs d) h (removelast (logs d h))) (logsize d - 1)
  | EAccessAddr a => set_acl d (upd (acl d) a false)
  | ETransient a k p => set_tstor d (upd2 (tstor d) a k p)
  end.

(* entries newest first *)
Fixpoint undo_list (es : list entry) (d : data) : data :=
  match es with
  | [] => d
  | e :: r => undo_list r (undo e d)
  end.

(* A primitive mutator returns the journal entries it appended (newest first) and the new data. *)
Definition prim := data -> list entry * data.

Definition new_acct := mkAcct 0 0 false.

(* getOrNewAccountObject -> createObject (the account is neither cached nor in the trie) *)
Definition get_or_new (a : addr) : prim := fun d =>
  match objs d a with
  | Some _ => ([], d)
  | None => ([ECreateObject a], set_objs d (upd (objs d) a (Some new_acct)))
  end.

Definition nonce_of (d : data) (a : addr) : N := match objs d a with Some o => a_nonce o | None => 0 end.
Definition code_of (d : data) (a : addr) : N := match objs d a with Some o => a_code o | None => 0 end.
Definition suicided_of (d : data) (a : addr) : bool := match objs d a with Some o => a_suicided o | None => false end.
Definition exists_of (d : data) (a : addr) : bool := match objs d a with Some _ => true | None => false end.
Definition state_of (d : data) (a : addr) (k : key) : N := match objs d a with Some _ => stor d a k | None => 0 end.

Definition set_nonce (a : addr) (n : N) : prim := fun d =>
  let '(es, d1) := get_or_new a d in
  (ENonce a (nonce_of d1 a) :: es, on_obj d1 a (fun o => mkAcct n (a_code o) (a_suicided o))).

Definition set_code (a : addr) (c : N) : prim := fun d =>
  let '(es, d1) := get_or_new a d in
  (ECode a (code_of d1 a) :: es, on_obj d1 a (fun o => mkAcct (a_nonce o) c (a_suicided o))).

(* SetState -> accountObject.SetData: nothing happens when the value is unchanged *)
Definition set_state (a : addr) (k : key) (v : N) : prim := fun d =>
  let '(es, d1) := get_or_new a d in
  let prev := stor d1 a k in
  if prev =? v then (es, d1) else (EStorage a k prev :: es, set_stor d1 (upd2 (stor d1) a k v)).

(* SubFT on the bound token: refuses (no change) when the balance is short; SetData of an equal value is a no-op *)
Definition sub_balance (a : addr) (v : N) : prim := fun d =>
  if bal d a <? v then ([], d)
  else if v =? 0 then ([], d)
  else ([EBalance a (bal d a)], set_bal d (upd (bal d) a (bal d a - v))).

Definition add_balance (a : addr) (v : N) : prim := fun d =>
  if v =? 0 then ([], d)
  else ([EBalance a (bal d a)], set_bal d (upd (bal d) a (bal d a + v))).

(* AccountDB.Suicide: journal entry with the previous flag and balance, then markSuicided and the unjournalled setBalance(0) *)
Definition suicide (a : addr) : prim := fun d =>
  match objs d a with
  | None => ([], d)
  | Some o => ([ESuicide a (a_suicided o) (bal d a)],
               set_bal (set_objs d (upd (objs d) a (Some (mkAcct (a_nonce o) (a_code o) true)))) (upd (bal d) a 0))
  end.

Definition add_refund (g : N) : prim := fun d => ([ERefund (refund d)], set_refund d (refund d + g)).

Definition add_log (h : N) (l : log) : prim := fun d =>
  ([EAddLog h], set_logs d (upd (logs d) h (logs d h ++ [l])) (logsize d + 1)).

Definition acl_add (a : addr) : prim := fun d =>
  if acl d a then ([], d) else ([EAccessAddr a], set_acl d (upd (acl d) a true)).

Definition set_transient (a : addr) (k : key) (v : N) : prim := fun d =>
  let prev := tstor d a k in
  if prev =? v then ([], d) else ([ETransient a k prev], set_tstor d (upd2 (tstor d) a k v)).

(* sequencing of primitives: entries of the later one are newer *)
Definition seqp (p q : prim) : prim := fun d =>
  let '(e1, d1) := p d in let '(e2, d2) := q d1 in (e2 ++ e1, d2).

(* vm.Transfer: SubBalance then AddBalance *)
Definition transfer (from to : addr) (v : N) : prim := seqp (sub_balance from v) (add_balance to v).

(* ---------- journalled state ---------- *)
Record state := mkStateG {
  dat : data;
  journal : list entry;            (* newest first *)
  revs : list (N * nat);           (* validRevisions, newest first: (id, journal length) *)
  next_rev : N;
  thash : N;
  txindex : N;
  oracle : list addr;              (* addresses of the contracts created next (and forced out-of-gas marks) *)
  gas : N }.                       (* gas left in the frame that is running *)

(* a state whose gas never runs out (the gas-free reading of the model) *)
Definition big_gas : N := 2 ^ 200.
Definition mkState d j r n th ti o := mkStateG d j r n th ti o big_gas.

Definition with_dat s d j := mkStateG d j (revs s) (next_rev s) (thash s) (txindex s) (oracle s) (gas s).

Definition push (p : prim) (s : state) : state :=
  let '(es, d) := p (dat s) in with_dat s d (es ++ journal s).

Definition snapshot (s : state) : N * state :=
  (next_rev s,
   mkStateG (dat s) (journal s) ((next_rev s, length (journal s)) :: revs s) (next_rev s + 1)
           (thash s) (txindex s) (oracle s) (gas s)).

Fixpoint find_rev (id : N) (r : list (N * nat)) : option (nat * list (N * nat)) :=
  match r with
  | [] => None
  | (i, n) :: r' => if i =? id then Some (n, r') else find_rev id r'
  end.

(* RevertToSnapshot; None = the panic "revision id cannot be reverted" *)
Definition revert (id : N) (s : state) : option state :=
  match find_rev id (revs s) with
  | None => None
  | Some (n, r) =>
      let k := (length (journal s) - n)%nat in
      Some (mkStateG (undo_list (firstn k (journal s)) (dat s)) (skipn k (journal s)) r
                    (next_rev s) (thash s) (txindex s) (oracle s) (gas s))
  end.

(* AccountDB.Prepare after the repair (fix commit): the transient storage is reset with the access list.
   [prepare_old] is the code as it was. *)
Definition prepare_old (th ti : N) (s : state) : state :=
  mkStateG (set_acl (dat s) (fun _ => false)) (journal s) (revs s) (next_rev s) th ti (oracle s) (gas s).

Definition prepare (th ti : N) (s : state) : state :=
  mkStateG (set_tstor (set_acl (dat s) (fun _ => false)) (fun _ _ => 0)) (journal s) (revs s) (next_rev s) th ti (oracle s) (gas s).

(* ---------- programs ---------- *)
Inductive callkind := KCall | KCallCode | KDelegate | KStatic.

Inductive action :=
| ASstore (k : key) (v : N)
| ALog (topic : N)
| ALogT (k : key)                            (* LOG1 whose topic is TLOAD(k): what the frame finds in its transient storage *)
| ATstore (k : key) (v : N)
| ACall (kind : callkind) (target : addr) (value : N)
| ACreate (value : N) (init : N)             (* CREATE and CREATE2: the address comes from the oracle *)
| ACallCreated (kind : callkind) (value : N) (* call the contract this frame created last (address 0 if none / failed) *)
| AStake (t : N)                             (* custom opcodes; amounts in whole tokens *)
| AUnstake (t : N)
| AUnstakeAll
| AAuth (inv authority : addr)               (* AUTH with a signature of [authority] valid for invoker [inv] *)
| AAuthCall (n : N) (target : addr) (value : N).

Inductive endmode :=
| EStop
| EReturn (c : N)                            (* in creation code: deploy program c *)
| EReturnBig                                 (* RETURN of more than MaxCodeSize bytes *)
| ERevert
| EInvalid
| ESelfdestruct (beneficiary : addr).

(* Static gas of the byte code an action compiles to (measured on the real interpreter by the harness): [pre] up to and
   including the constant gas of the effecting opcode, [post] for the opcodes after it; [req] = the gas operand of a
   call. fcost: the same for the terminator. plen: length of the byte code when deployed (code deposit). An empty
   cost list means free actions: with big_gas that is the gas-free reading of the model. *)
Definition acost : Type := N * N * N.
Record prog := mkProgG { acts : list action; fin : endmode; pcost : list acost; fcost : N * N; plen : N }.
Definition mkProg (a : list action) (f : endmode) : prog := mkProgG a f [] (0, 0) 0.
Definition free_cost : acost := (0, 0, big_gas).

Definition lookup (progs : list prog) (c : N) : option prog :=
  match c with 0 => None | _ => nth_error progs (N.to_nat (c - 1)) end.

Inductive outcome :=
| OOk
| ORevert                                    (* ErrExecutionReverted *)
| OErr (code : N)                            (* any other EVM error: the frame is undone and its gas is gone *)
| OCodeStore                                 (* ErrCodeStoreOutOfGas: evm.create does NOT revert on it *)
| OFuel                                      (* the model ran out of fuel (excluded by the theorems) *)
| OPanic.                                    (* RevertToSnapshot would panic / no address left in the oracle *)

Definition err_depth := 1.
Definition err_balance := 2.
Definition err_write_protection := 3.
Definition err_invalid := 4.
Definition err_collision := 5.
Definition err_oog := 6.
Definition err_codesize := 7.
Definition err_precompile := 8.
Definition err_custom := 9.

Record ctx := mkCtx { self : addr; static : bool; depth : N; origin : addr }.

(* per-frame interpreter state that is not in the StateDB *)
Record loc := mkLoc { l_created : addr; l_auth : option addr; l_fate : option nat }.

Definition rres : Type := outcome * list log * state.

(* jump_table.go / eips.go: the writes flag of the opcode an action compiles to *)
Definition writes_flag (a : action) : bool :=
  match a with
  | ASstore _ _ | ALog _ | ALogT _ | ACreate _ _ => true
  | _ => false
  end.
Definition fin_writes (f : endmode) : bool := match f with ESelfdestruct _ => true | _ => false end.

(* interpreter.go:205-214 *)
Definition refused_static (a : action) : bool :=
  writes_flag a || match a with
                   | ACall KCall _ v | ACallCreated KCall v => negb (v =? 0)
                   | _ => false
                   end.

(* the opcodes registered by doProposal014 without the writes flag that change the state *)
Definition is_custom (a : action) : bool :=
  match a with AStake _ | AUnstake _ | AUnstakeAll | AAuthCall _ _ _ => true | _ => false end.

Definition ret_code (p : option prog) : N :=
  match p with Some q => match fin q with EReturn c => c | _ => 0 end | None => 0 end.
Definition ret_big (p : option prog) : bool :=
  match p with Some q => match fin q with EReturnBig => true | _ => false end | None => false end.

Definition max_depth := 1024.
Definition wrap64 (n : N) : N := n mod 18446744073709551616.

Definition precompile (a : addr) : option bool :=
  if a =? 21 then Some true else if a =? 22 then Some false else None.

Definition with_oracle (s : state) (o : list addr) : state :=
  mkStateG (dat s) (journal s) (revs s) (next_rev s) (thash s) (txindex s) o (gas s).

Definition pop_oracle (s : state) : N * state :=
  match oracle s with
  | [] => (0, s)
  | x :: r => (x, with_oracle s r)
  end.

Definition fate_of (x : N) : option nat :=
  if (x =? 0) || (x =? 1000) then None else Some (N.to_nat (x - 1)).

(* miner registry (ValidatorDBAddress) and refund escrow as storage of reserved accounts *)
Definition REG := 900.
Definition ESC := 901.
Definition unit18 := 1000000000000000000.
Definition min_stake := 400.
Definition reg_stake (d : data) (a : addr) : N := state_of d REG (2 * a).
Definition reg_status (d : data) (a : addr) : N := state_of d REG (2 * a + 1).   (* 0 none, 1 normal, 2 abort *)

(* ---------- gas ---------- *)
Definition with_gas (s : state) (g : N) : state :=
  mkStateG (dat s) (journal s) (revs s) (next_rev s) (thash s) (txindex s) (oracle s) g.

(* state-dependent gas of the fork under test (dev configuration: every proposal active; Proposal026 multiplies the
   constant gas of every opcode and the memory / log / code-deposit fees by 30, but not the surcharges below) *)
Definition c_value := 9000.          (* CallValueTransferGas *)
Definition c_newacct := 25000.       (* CallNewAccountGas / CreateBySelfdestructGas *)
Definition c_stipend := 2300.        (* CallStipend *)
Definition c_authvalue := 6700.      (* AuthCallValueTransferGas *)
Definition c_cold := 2500.           (* ColdAccountAccessCostEIP2929 - WarmStorageReadCostEIP2929 (gasAuthCall) *)
Definition c_deposit := 6000.        (* CreateDataGas * GasMagnification, per byte of deployed code *)
Definition pc_gas (a : addr) : N := if a =? 21 then 15 else 0.   (* RequiredGas on empty input: identity 15, blake2F 0 *)

(* AccountDB.Empty for the accounts of the universe (see Harness.v for the caveat about storage-only accounts) *)
Definition empty_of (d : data) (a : addr) : bool :=
  match objs d a with
  | None => true
  | Some o => (a_nonce o =? 0) && (a_code o =? 0)
  end.

Definition charge (c : N) (s : state) : option state :=
  if gas s <? c then None else Some (with_gas s (gas s - c)).

(* gasCall / gasCallCode: what is charged on top of the forwarded gas *)
Definition call_base (kind : callkind) (target : addr) (value : N) (d : data) : N :=
  match kind with
  | KCall => if value =? 0 then 0 else c_value + (if empty_of d target then c_newacct else 0)
  | KCallCode => if value =? 0 then 0 else c_value
  | _ => 0
  end.
Definition call_stipend (kind : callkind) (value : N) : N :=
  match kind with
  | KCall | KCallCode => if value =? 0 then 0 else c_stipend
  | _ => 0
  end.
(* callGas: all but one 64th of what is left, or the requested amount if smaller *)
Definition forward (req avail : N) : N := N.min req (avail - avail / 64).

Section Exec.
  Variable progs : list prog.
  (* the interpreter on the callee's code, with less fuel *)
  Variable rec : ctx -> N -> state -> rres.

  (* epilogue shared by all call kinds: revert on any error *)
  Definition finish_call (id : N) (keep_logs : bool) (r : rres) : rres :=
    let '(o, l, s) := r in
    let l' := if keep_logs then l else [] in
    match o with
    | OOk => (OOk, l', s)
    | OFuel => (OFuel, [], s)
    | OPanic => (OPanic, [], s)
    | _ => match revert id s with
           | Some s' => (o, l', match o with ORevert => s' | _ => with_gas s' 0 end)   (* "if err != ErrExecutionReverted { gas = 0 }" *)
           | None => (OPanic, [], s)
           end
    end.

  (* run(evm, contract, ...): a precompile (its failure comes from the table or from the oracle: out of gas)
     or the interpreter on the code of [codeaddr] *)
  Definition run_target (cx' : ctx) (codeaddr : addr) (s : state) : rres :=
    match precompile codeaddr with
    | Some ok => let '(f, s') := pop_oracle s in
                 if gas s' <? pc_gas codeaddr then (OErr err_oog, [], with_gas s' 0)
                 else ((if ok && (f =? 0) then OOk else OErr err_precompile), [], with_gas s' (gas s' - pc_gas codeaddr))
    | None => rec cx' (code_of (dat s) codeaddr) s
    end.

  (* evm.Call / evm.AuthCall after the Snapshot: existence, CreateAccount, Transfer from [payer], run *)
  Definition call_body (cx : ctx) (id : N) (payer target : addr) (value : N) (s1 : state) : rres :=
    let go (s2 : state) : rres :=
      let s3 := push (transfer payer target value) s2 in
      match precompile target with
      | Some _ => finish_call id true (run_target (mkCtx target (static cx) (depth cx + 1) (origin cx)) target s3)
      | None =>
          if code_of (dat s3) target =? 0 then (OOk, [], s3)
          else finish_call id true (run_target (mkCtx target (static cx) (depth cx + 1) (origin cx)) target s3)
      end in
    if exists_of (dat s1) target then go s1
    else match precompile target with
         | None => if value =? 0 then (OOk, [], s1) else go (push (get_or_new target) s1)
         | Some _ => go (push (get_or_new target) s1)
         end.

  (* evm.Call / CallCode / DelegateCall / StaticCall as invoked by the opcode (or by the transaction, depth 0) *)
  Definition do_call (cx : ctx) (kind : callkind) (target : addr) (value : N) (s : state) : rres :=
    if max_depth <? depth cx then (OErr err_depth, [], s)
    else match kind with
    | KCall =>
        if negb (value =? 0) && (bal (dat s) (self cx) <? value) then (OErr err_balance, [], s)
        else call_body cx (fst (snapshot s)) (self cx) target value (snd (snapshot s))
    | KCallCode =>
        if bal (dat s) (self cx) <? value then (OErr err_balance, [], s)
        else
          let id := fst (snapshot s) in
          let s1 := snd (snapshot s) in
          finish_call id false (run_target (mkCtx (self cx) (static cx) (depth cx + 1) (origin cx)) target s1)
    | KDelegate =>
        let id := fst (snapshot s) in
        let s1 := snd (snapshot s) in
        finish_call id true (run_target (mkCtx (self cx) (static cx) (depth cx + 1) (origin cx)) target s1)
    | KStatic =>
        let id := fst (snapshot s) in
        let s1 := snd (snapshot s) in
        let s2 := push (add_balance target 0) s1 in
        finish_call id true (run_target (mkCtx target true (depth cx + 1) (origin cx)) target s2)
    end.

  (* evm.AuthCall: value and gas are paid by the transaction origin, the authority's nonce is bumped before the Snapshot *)
  Definition do_authcall (cx : ctx) (authority target : addr) (value : N) (s : state) : rres :=
    if max_depth <? depth cx then (OErr err_depth, [], s)
    else if negb (value =? 0) && (bal (dat s) (origin cx) <? value) then (OErr err_balance, [], s)
    else
      let s0 := push (set_nonce authority (wrap64 (nonce_of (dat s) authority + 1))) s in
      call_body cx (fst (snapshot s0)) (origin cx) target value (snd (snapshot s0)).

  (* evm.create *)
  Definition do_create (cx : ctx) (value : N) (init : N) (s : state) : rres :=
    if max_depth <? depth cx then (OErr err_depth, [], s)
    else if bal (dat s) (self cx) <? value then (OErr err_balance, [], s)
    else match oracle s with
    | [] => (OPanic, [], s)
    | address :: orc =>
        let s0 := with_oracle s orc in
        let s1 := push (set_nonce (self cx) (wrap64 (nonce_of (dat s0) (self cx) + 1))) s0 in
        let s2 := push (acl_add address) s1 in
        if negb (nonce_of (dat s2) address =? 0) || negb (code_of (dat s2) address =? 0)
        then (OErr err_collision, [], with_gas s2 0)
        else
          let id := fst (snapshot s2) in
          let s3 := snd (snapshot s2) in
          let s4 := push (get_or_new address) s3 in
          let s5 := push (set_nonce address 1) s4 in
          let s6 := push (transfer (self cx) address value) s5 in
          let forced := hd 0 (oracle s6) =? 1000 in
          let '(o, l, s7) := rec (mkCtx address (static cx) (depth cx + 1) (origin cx)) init s6 in
          match o with
          | OOk =>
              let deposit := match lookup progs (ret_code (lookup progs init)) with Some q => plen q * c_deposit | None => 0 end in
              if ret_big (lookup progs init) then finish_call id true (OErr err_codesize, l, s7)
              else if forced || (gas s7 <? deposit) then (OCodeStore, l, s7)   (* no RevertToSnapshot, the gas left is handed back *)
              else (OOk, l, push (set_code address (ret_code (lookup progs init))) (with_gas s7 (gas s7 - deposit)))
          | _ => finish_call id true (o, l, s7)
          end
    end.

  (* opSuicide preceded by gasSelfdestruct *)
  Definition do_selfdestruct (cx : ctx) (b : addr) (s : state) : state :=
    let s1 := if suicided_of (dat s) (self cx) then s else push (add_refund 24000) s in
    let s2 := push (add_balance b (bal (dat s1) (self cx))) s1 in
    push (suicide (self cx)) s2.

  (* opStake -> MinerManagerImpl.AddStake *)
  Definition do_stake (cx : ctx) (t : N) (s : state) : state :=
    let a := self cx in
    if reg_status (dat s) a =? 0 then s
    else if t =? 0 then s
    else if bal (dat s) a <? t * unit18 then s
    else
      let st := reg_stake (dat s) a + t in
      let status := if min_stake <? st then 1 else reg_status (dat s) a in
      let s1 := push (sub_balance a (t * unit18)) s in
      let s2 := push (set_state REG (2 * a) st) s1 in
      push (set_state REG (2 * a + 1) status) s2.

  (* GetRefundStake for a contract account: the miner entry stays, with status abort below the minimum *)
  Definition take_stake (a : addr) (money : N) (s : state) : state :=
    let left := reg_stake (dat s) a - money in
    let s1 := push (set_state REG (2 * a) left) s in
    if left <? min_stake then push (set_state REG (2 * a + 1) 2) s1 else s1.

  Definition escrow_add (who : addr) (v : N) (s : state) : state :=
    push (set_state ESC (1000 + who) (state_of (dat s) ESC (1000 + who) + v)) s.

  (* opUnStake: the refund goes to the transaction origin *)
  Definition do_unstake (cx : ctx) (t : N) (s : state) : state :=
    let a := self cx in
    if reg_status (dat s) a =? 0 then s
    else if reg_stake (dat s) a <? t then s
    else escrow_add (origin cx) (t * unit18) (take_stake a t s).

  (* opUnStakeAll: an error (the frame fails) without a miner; the refund goes to the miner's account *)
  Definition do_unstakeall (cx : ctx) (s : state) : option state :=
    let a := self cx in
    if reg_status (dat s) a =? 0 then None
    else let m := reg_stake (dat s) a in Some (escrow_add a (m * unit18) (take_stake a m s)).

  Definition oog (s : state) : rres := (OErr err_oog, [], s).

  (* the terminator: its byte code before the last step (memory work), the write-protection test, the opcode *)
  Definition finish (cx : ctx) (f : endmode) (fc : N * N) (clogs : list log) (s : state) : rres :=
    match charge (fst fc) s with
    | None => oog s
    | Some s =>
      if static cx && fin_writes f then (OErr err_write_protection, [], s)
      else match f with
      | EStop | EReturn _ | EReturnBig =>
          match charge (snd fc) s with Some s' => (OOk, clogs, s') | None => oog s end
      | ERevert =>
          match charge (snd fc) s with Some s' => (ORevert, clogs, s') | None => oog s end
      | EInvalid => (OErr err_invalid, [], s)
      | ESelfdestruct b =>
          (* gasSelfdestruct: 5000 (in the static part) + 25000 when the beneficiary is empty and value moves *)
          let dyn := if empty_of (dat s) b && negb (bal (dat s) (self cx) =? 0) then c_newacct else 0 in
          match charge (snd fc + dyn) s with
          | Some s' => (OOk, clogs, do_selfdestruct cx b s')
          | None => oog s
          end
      end
    end.

  Definition tick (lc : loc) : loc :=
    mkLoc (l_created lc) (l_auth lc) (match l_fate lc with Some (S k) => Some k | x => x end).

  (* the result of a sub-frame seen by the frame that issued it: the gas that comes back is added to what the frame
     kept, then the rest of the action's byte code is paid *)
  Definition after_sub (r : rres) (keep post : N) (k : list log -> state -> rres) (clogs : list log) : rres :=
    let '(o, lg, s') := r in
    match o with
    | OFuel => (OFuel, [], s')
    | OPanic => (OPanic, [], s')
    | _ => match charge post (with_gas s' (keep + gas s')) with
           | Some s'' => k (clogs ++ lg) s''
           | None => oog s'
           end
    end.

  (* an action without a sub-frame: effect, then the rest of its byte code *)
  Definition after_eff (post : N) (k : state -> rres) (s1 : state) : rres :=
    match charge post s1 with
    | Some s2 => k s2
    | None => oog s1
    end.

  (* the interpreter loop over the straight-line program; cs = the static costs of the actions, in step *)
  Fixpoint run_acts (cx : ctx) (lc : loc) (l : list action) (cs : list acost) (f : endmode) (fc : N * N)
           (clogs : list log) (s : state) : rres :=
    match l_fate lc with
    | Some O => oog s                                  (* forced out of gas (oracle) *)
    | _ =>
    match l with
    | [] => finish cx f fc clogs s
    | a :: rest =>
        let lc := tick lc in
        let '(pre, post, req) := hd free_cost cs in
        let cs' := tl cs in
        match charge pre s with
        | None => oog s
        | Some s =>
        if static cx && refused_static a then (OErr err_write_protection, [], s)
        else match a with
        | ASstore k v =>
            after_eff post (run_acts cx lc rest cs' f fc clogs) (push (set_state (self cx) k v) s)
        | ALog t =>
            let lg := mkLog (self cx) t (thash s) (txindex s) (logsize (dat s)) in
            after_eff post (run_acts cx lc rest cs' f fc (clogs ++ [lg])) (push (add_log (thash s) lg) s)
        | ALogT k =>
            let lg := mkLog (self cx) (tstor (dat s) (self cx) k) (thash s) (txindex s) (logsize (dat s)) in
            after_eff post (run_acts cx lc rest cs' f fc (clogs ++ [lg])) (push (add_log (thash s) lg) s)
        | ATstore k v =>
            if static cx then (OErr err_write_protection, [], s)       (* opTstore guards itself *)
            else after_eff post (run_acts cx lc rest cs' f fc clogs) (push (set_transient (self cx) k v) s)
        | ACall kind target value =>
            let base := call_base kind target value (dat s) in
            if gas s <? base then oog s
            else
              let avail := gas s - base in
              let fwd := forward req avail in
              after_sub (do_call cx kind target value (with_gas s (fwd + call_stipend kind value)))
                        (avail - fwd) post (run_acts cx lc rest cs' f fc) clogs
        | ACallCreated kind value =>
            let target := l_created lc in
            let base := call_base kind target value (dat s) in
            if gas s <? base then oog s
            else
              let avail := gas s - base in
              let fwd := forward req avail in
              after_sub (do_call cx kind target value (with_gas s (fwd + call_stipend kind value)))
                        (avail - fwd) post (run_acts cx lc rest cs' f fc) clogs
        | ACreate value init =>
            let fwd := gas s - gas s / 64 in
            let '(o, lg, s') := do_create cx value init (with_gas s fwd) in
            let created := match o with
                           | OOk => match oracle s with x :: _ => x | [] => 0 end
                           | _ => 0
                           end in
            after_sub (o, lg, s') (gas s / 64) post (run_acts cx (mkLoc created (l_auth lc) (l_fate lc)) rest cs' f fc) clogs
        | AStake t => after_eff post (run_acts cx lc rest cs' f fc clogs) (do_stake cx t s)
        | AUnstake t => after_eff post (run_acts cx lc rest cs' f fc clogs) (do_unstake cx t s)
        | AUnstakeAll =>
            match do_unstakeall cx s with
            | Some s' => after_eff post (run_acts cx lc rest cs' f fc clogs) s'
            | None => (OErr err_custom, [], s)
            end
        | AAuth inv authority =>
            after_eff post (run_acts cx (mkLoc (l_created lc) (if self cx =? inv then Some authority else None) (l_fate lc)) rest cs' f fc clogs) s
        | AAuthCall n target value =>
            (* gasAuthCall: cold-account surcharge (and the access-list entry), value and new-account surcharges, then
               the forwarded gas - charged whether or not the call is made: opAuthCall's early exits do not hand it back *)
            let base := (if acl (dat s) target then 0 else c_cold)
                        + (if value =? 0 then 0 else c_authvalue + (if empty_of (dat s) target then c_newacct else 0)) in
            let s0 := push (acl_add target) s in
            if gas s0 <? base then oog s0
            else
              let avail := gas s0 - base in
              let fwd := forward req avail in
              let burnt := with_gas s0 (avail - fwd) in
              match l_auth lc with
              | None => after_eff post (run_acts cx lc rest cs' f fc clogs) burnt
              | Some authority =>
                  if nonce_of (dat s0) authority =? n
                  then after_sub (do_authcall cx authority target value (with_gas s0 fwd))
                                 (avail - fwd) post (run_acts cx lc rest cs' f fc) clogs
                  else after_eff post (run_acts cx lc rest cs' f fc clogs) burnt
              end
        end
        end
    end
    end.

  (* Interpreter.Run on code id c: empty code returns at once; otherwise the frame's fate comes from the oracle *)
  Definition run_code (cx : ctx) (c : N) (s : state) : rres :=
    match lookup progs c with
    | None => (OOk, [], s)
    | Some p => let '(x, s') := pop_oracle s in
                run_acts cx (mkLoc 0 None (fate_of x)) (acts p) (pcost p) (fin p) (fcost p) [] s'
    end.
End Exec.

Fixpoint run (progs : list prog) (fuel : nat) (cx : ctx) (c : N) (s : state) : rres :=
  match fuel with
  | O => (OFuel, [], s)
  | S f => run_code progs (run progs f) cx c s
  end.

(* ---------- transactions: Prepare, then one top-level Call or Create by the origin ---------- *)
(* TNone: a transaction kind that does not run the EVM (the block loop still calls Prepare for it) *)
Inductive txkind := TCall (target : addr) (value : N) | TCreate (value : N) (init : N) | TNone.

Record tx := mkTxG { t_hash : N; t_index : N; t_origin : addr; t_kind : txkind; t_oracle : list addr; t_gas : N }.
Definition mkTx h i o k orc := mkTxG h i o k orc big_gas.

Definition exec_top (progs : list prog) (fuel : nat) (t : tx) (s : state) : rres :=
  let cx := mkCtx (t_origin t) false 0 (t_origin t) in
  match t_kind t with
  | TCall target value => do_call (run progs fuel) cx KCall target value s
  | TCreate value init => do_create progs (run progs fuel) cx value init s
  | TNone => (OOk, [], s)
  end.

Definition exec_tx (progs : list prog) (fuel : nat) (t : tx) (s : state) : rres :=
  exec_top progs fuel t (with_gas (with_oracle (prepare (t_hash t) (t_index t) s) (t_oracle t)) (t_gas t)).
