(* Evaluation of the C12 model on harness-written cases (correspondence check). *)
From Coq Require Import List NArith Bool.
From V.C12 Require Import Model Table.
Import ListNotations.
Local Open Scope N_scope.

(* initial account as the harness dumps it: (address, exists, nonce, code id, balance, [(key, value)]) *)
Definition iacct : Type := N * bool * N * N * N * list (N * N).

Definition ia (a : N) (e : bool) (n c b : N) (st : list (N * N)) : iacct := (a, e, n, c, b, st).

Fixpoint find_acct (l : list iacct) (a : N) : option iacct :=
  match l with
  | [] => None
  | ((a', e, n, c, b, st) as x) :: r => if a' =? a then Some x else find_acct r a
  end.

Fixpoint find_kv (l : list (N * N)) (k : N) : N :=
  match l with
  | [] => 0
  | (k', v) :: r => if k' =? k then v else find_kv r k
  end.

Definition init_data (l : list iacct) : data :=
  mkData
    (fun a => match find_acct l a with Some (_, true, n, c, _, _) => Some (mkAcct n c false) | _ => None end)
    (fun a k => match find_acct l a with Some (_, _, _, _, _, st) => find_kv st k | None => 0 end)
    (fun a => match find_acct l a with Some (_, _, _, _, b, _) => b | None => 0 end)
    (fun _ _ => 0) (fun _ => false) 0 (fun _ => []) 0.

Definition init_state (l : list iacct) : state := mkState (init_data l) [] [] 0 0 0 [].

Definition b2n (b : bool) : N := if b then 1 else 0.

(* AccountDB.Empty. The real answer also depends on the storage caches of the object (C04 findings); it is
   compared for the accounts where that cannot matter: accounts that do not exist, accounts with a nonce or
   code, and nonce-0 code-less accounts that never had a storage slot (every such account of the universe:
   value-transfer targets, precompiles, the zero address). The storage-only system accounts 900/901 are excluded. *)
Definition slot_view (d : data) (p : N * N) : N :=
  let v := state_of d (fst p) (snd p) in if fst p =? ESC then v / unit18 else v.

(* every query of the property over the finite universe, flattened *)
Definition obs (addrs keys hashes : list N) (slots : list (N * N)) (d : data) : list N :=
  flat_map (fun a =>
      [b2n (exists_of d a); nonce_of d a; code_of d a; b2n (suicided_of d a); bal d a; b2n (acl d a);
       if a <? 900 then b2n (empty_of d a) else 0]
      ++ map (fun k => state_of d a k) keys ++ map (fun k => tstor d a k) keys) addrs
  ++ map (slot_view d) slots
  ++ [refund d]
  ++ flat_map (fun h => N.of_nat (length (logs d h))
                        :: flat_map (fun l => [l_addr l; l_topic l; l_tx l; l_txindex l; l_index l]) (logs d h)) hashes.

Definition outcome_code (o : outcome) : N :=
  match o with OOk => 0 | ORevert => 1 | OErr c => 10 + c | OCodeStore => 30 | OFuel => 98 | OPanic => 99 end.

(* observed by the harness on the real code: (obs right after Prepare, outcome, returned logs, obs after the call) *)
Definition tobs : Type := list N * N * list (N * N) * list N.

Record tcase := Case {
  c_progs : list prog;
  c_init : list iacct;
  c_addrs : list N;
  c_keys : list N;
  c_hashes : list N;
  c_slots : list (N * N);
  c_gasleft : list N;              (* gas left after each top-level call as the real EVM reports it; [] = not compared *)
  c_txs : list (tx * tobs) }.

Fixpoint list_eqb (l1 l2 : list N) : bool :=
  match l1, l2 with
  | [], [] => true
  | a :: r1, b :: r2 => (a =? b) && list_eqb r1 r2
  | _, _ => false
  end.

Definition fuel0 : nat := 1100.

Definition flat_logs (l : list log) : list N := flat_map (fun x => [l_addr x; l_topic x]) l.
Definition flat_pairs (l : list (N * N)) : list N := flat_map (fun x => [fst x; snd x]) l.

Fixpoint run_txs (c : tcase) (l : list (tx * tobs)) (gl : list N) (s : state) : bool :=
  match l with
  | [] => true
  | (t, (o_prep, o_out, o_logs, o_post)) :: r =>
      let s1 := with_gas (with_oracle (prepare (t_hash t) (t_index t) s) (t_oracle t)) (t_gas t) in
      let '(o, lg, s2) := exec_top (c_progs c) fuel0 t s1 in
      list_eqb (obs (c_addrs c) (c_keys c) (c_hashes c) (c_slots c) (dat s1)) o_prep
      && (outcome_code o =? o_out)
      && list_eqb (flat_logs lg) (flat_pairs o_logs)
      && list_eqb (obs (c_addrs c) (c_keys c) (c_hashes c) (c_slots c) (dat s2)) o_post
      && match gl with g :: _ => gas s2 =? g | [] => true end
      && run_txs c r (tl gl) s2
  end.

Definition check (c : tcase) : bool := run_txs c (c_txs c) (c_gasleft c) (init_state (c_init c)).

(* diagnostics (used interactively on a failing case) *)
Fixpoint show_txs (c : tcase) (l : list (tx * tobs)) (s : state) : list (list N * N * list N * list N) :=
  match l with
  | [] => []
  | (t, _) :: r =>
      let s1 := with_gas (with_oracle (prepare (t_hash t) (t_index t) s) (t_oracle t)) (t_gas t) in
      let '(o, lg, s2) := exec_top (c_progs c) fuel0 t s1 in
      (obs (c_addrs c) (c_keys c) (c_hashes c) (c_slots c) (dat s1), outcome_code o, flat_logs lg,
       obs (c_addrs c) (c_keys c) (c_hashes c) (c_slots c) (dat s2)) :: show_txs c r s2
  end.
Definition show (c : tcase) := show_txs c (c_txs c) (init_state (c_init c)).

(* ---------- opcode table obligation (rows are generated from the Go sources by the harness) ----------
   row = (opcode name, writes flag in the jump table, execute function starts with a readOnly guard,
          execute function reaches a state mutator, refused by the interpreter's explicit test) *)
Definition oprow : Type := N * bool * bool * bool.

Definition row_ok (r : oprow) : bool :=
  let '(_, writes, guarded, mutates) := r in negb mutates || writes || guarded.

Definition table_bad (t : list oprow) : list N :=
  map (fun r => fst (fst (fst r))) (filter (fun r => negb (row_ok r)) t).

(* the case records the opcodes expected to violate the obligation today; any other set is a mismatch *)
Definition row_eqb (r1 r2 : oprow) : bool :=
  let '(o1, w1, g1, m1) := r1 in let '(o2, w2, g2, m2) := r2 in
  (o1 =? o2) && Bool.eqb w1 w2 && Bool.eqb g1 g2 && Bool.eqb m1 m2.

Fixpoint rows_eqb (l1 l2 : list oprow) : bool :=
  match l1, l2 with
  | [], [] => true
  | a :: r1, b :: r2 => row_eqb a b && rows_eqb r1 r2
  | _, _ => false
  end.

(* the rows extracted from the current sources must be the rows of Table.v (about which the table theorems
   speak), and the opcodes the harness reported must be exactly the rows failing the obligation *)
Definition check_table (c : list oprow * list N) : bool :=
  list_eqb (table_bad (fst c)) (snd c) && rows_eqb (fst c) today_table.

(* first differing position between two flat observations *)
Fixpoint first_diff (i : N) (l1 l2 : list N) : option (N * N * N) :=
  match l1, l2 with
  | [], [] => None
  | a :: r1, b :: r2 => if a =? b then first_diff (i + 1) r1 r2 else Some (i, a, b)
  | a :: _, [] => Some (i, a, 77777)
  | [], b :: _ => Some (i, 77777, b)
  end.

Fixpoint diag_txs (c : tcase) (l : list (tx * tobs)) (s : state) : list (option (N * N * N) * (N * N) * option (N * N * N) * option (N * N * N)) :=
  match l with
  | [] => []
  | (t, (o_prep, o_out, o_logs, o_post)) :: r =>
      let s1 := with_gas (with_oracle (prepare (t_hash t) (t_index t) s) (t_oracle t)) (t_gas t) in
      let '(o, lg, s2) := exec_top (c_progs c) fuel0 t s1 in
      (first_diff 0 (obs (c_addrs c) (c_keys c) (c_hashes c) (c_slots c) (dat s1)) o_prep, (outcome_code o, o_out),
       first_diff 0 (flat_logs lg) (flat_pairs o_logs),
       first_diff 0 (obs (c_addrs c) (c_keys c) (c_hashes c) (c_slots c) (dat s2) ++ [gas s2]) o_post) :: diag_txs c r s2
  end.
Definition diag (c : tcase) := diag_txs c (c_txs c) (init_state (c_init c)).

(* ---------- block level: the real per-block loop (VMExecutor.Execute) against exec_tx per transaction ----------
   The loop adds ledger effects the frame model does not have (fees, gas charge, nonces, miner record), so only the
   scratch state and the logs are compared: access list, storage and transient storage of the listed accounts, and
   the log list of every transaction hash, after each transaction (observed as the end state of the block prefix). *)
Definition bobs (addrs keys hashes : list N) (d : data) : list N :=
  flat_map (fun a => b2n (acl d a) :: map (fun k => state_of d a k) keys ++ map (fun k => tstor d a k) keys) addrs
  ++ flat_map (fun h => N.of_nat (length (logs d h))
                        :: flat_map (fun l => [l_addr l; l_topic l; l_tx l; l_txindex l; l_index l]) (logs d h)) hashes.

Record bcase := BCase {
  b_progs : list prog;
  b_init : list iacct;
  b_addrs : list N;
  b_keys : list N;
  b_hashes : list N;
  b_txs : list (tx * list N) }.

Fixpoint run_block (c : bcase) (l : list (tx * list N)) (s : state) : bool :=
  match l with
  | [] => true
  | (t, o_post) :: r =>
      let '(_, _, s') := exec_tx (b_progs c) fuel0 t s in
      list_eqb (bobs (b_addrs c) (b_keys c) (b_hashes c) (dat s')) o_post && run_block c r s'
  end.

Definition check_block (c : bcase) : bool := run_block c (b_txs c) (init_state (b_init c)).

Fixpoint diag_block (c : bcase) (l : list (tx * list N)) (s : state) : list (option (N * N * N)) :=
  match l with
  | [] => []
  | (t, o_post) :: r =>
      let '(_, _, s') := exec_tx (b_progs c) fuel0 t s in
      first_diff 0 (bobs (b_addrs c) (b_keys c) (b_hashes c) (dat s')) o_post :: diag_block c r s'
  end.
