(* C12 proofs, part 2: call frames. A frame that fails is a no-op on the data, the journal and the revision
   stack; a static frame does not touch data or journal at all; only the logs of the current transaction
   hash can change. By induction on the fuel of the interpreter, for every program table. *)
From Coq Require Import List NArith Arith Bool Lia.
From V.C12 Require Import Model Proofs.
Import ListNotations.
Local Open Scope N_scope.

Definition is_fail (o : outcome) : bool := match o with ORevert | OErr _ => true | _ => false end.

Record good (s s' : state) : Prop := mkGood { g_ext : ext s s'; g_lo : lo s s'; g_wf : wf s' }.

Definition same (s s' : state) : Prop := dat s' = dat s /\ journal s' = journal s.

Lemma good_refl s : wf s -> good s s.
Proof. intros; constructor; auto using ext_refl, lo_refl. Qed.

Lemma good_trans s1 s2 s3 : good s1 s2 -> good s2 s3 -> good s1 s3.
Proof.
  intros [E1 L1 W1] [E2 L2 W2]. constructor; auto.
  - eapply ext_trans; eauto.
  - apply (lo_trans s1 s2 s3); auto. apply ext_thash; auto.
Qed.

Lemma good_push p s : prim_ok p -> keeps_logs (thash s) p -> wf s -> good s (push p s).
Proof. intros; constructor; auto using push_ext, push_lo, push_wf. Qed.

Lemma good_snapshot s : wf s -> good s (snd (snapshot s)).
Proof. intros; constructor; auto using snapshot_ext, snapshot_wf. intros h _; reflexivity. Qed.

Lemma good_noop s s' : noop s s' -> wf s -> good s s'.
Proof. intros; constructor; eauto using noop_ext, noop_lo, noop_wf. Qed.

Lemma same_refl s : same s s.
Proof. split; auto. Qed.

Lemma same_trans s1 s2 s3 : same s1 s2 -> same s2 s3 -> same s1 s3.
Proof. intros [] []; split; congruence. Qed.

Lemma same_snapshot s : same s (snd (snapshot s)).
Proof. split; auto. Qed.

(* a primitive that appends nothing and returns its argument *)
Lemma push_id p s : p (dat s) = ([], dat s) -> same s (push p s).
Proof. intros H. unfold push. rewrite H. split; auto. Qed.

Lemma transfer_zero a b d : transfer a b 0 d = ([], d).
Proof.
  unfold transfer, seqp, sub_balance, add_balance. cbn.
  destruct (bal d a <? 0); reflexivity.
Qed.

Lemma add_balance_zero a d : add_balance a 0 d = ([], d).
Proof. reflexivity. Qed.

(* revert from a state whose journal is the one of the snapshot: data untouched *)
Lemma revert_same s s4 s5 :
  ext (snd (snapshot s)) s4 -> same s s4 -> revert (fst (snapshot s)) s4 = Some s5 -> same s s5.
Proof.
  intros (es & rs & J & R & F & N & D & T & I) [HD HJ]. cbn in *.
  unfold revert. rewrite R.
  rewrite find_rev_skip by (eapply Forall_impl; [|exact F]; cbn; intros; lia).
  intros H; inversion H; subst; clear H. cbn.
  rewrite HJ, Nat.sub_diag. cbn. split; auto.
Qed.

Section Frames.
  Variable progs : list prog.
  Variable rec : ctx -> N -> state -> rres.

  Definition rec_ok : Prop :=
    forall cx c s o l s', wf s -> rec cx c s = (o, l, s') ->
      good s s' /\ (static cx = true -> same s s').

  Hypothesis Hrec : rec_ok.

  (* the epilogue of every call kind *)
  Lemma finish_call_ok s keep r o l s' :
    wf s ->
    (let '(_, _, s4) := r in good (snd (snapshot s)) s4) ->
    finish_call (fst (snapshot s)) keep r = (o, l, s') ->
    good s s' /\ (is_fail o = true -> noop s s') /\
    ((let '(_, _, s4) := r in same s s4) -> same s s').
  Proof.
    intros W G H. destruct r as [[o4 l4] s4].
    pose proof (good_trans _ _ _ (good_snapshot s W) G) as G04.
    unfold finish_call in H.
    destruct o4.
    - inversion H; subst. splits; auto. cbn; discriminate.
    - destruct (revert_restores s s4 (g_ext _ _ G)) as (s5 & R5 & N5 & _).
      rewrite R5 in H. inversion H; subst. splits; auto using good_noop.
      intros S. eapply revert_same; eauto. apply G.
    - destruct (revert_restores s s4 (g_ext _ _ G)) as (s5 & R5 & N5 & _).
      rewrite R5 in H. inversion H; subst. splits; auto using good_noop.
      intros S. eapply revert_same; eauto. apply G.
    - inversion H; subst. splits; auto. cbn; discriminate.
    - inversion H; subst. splits; auto. cbn; discriminate.
  Qed.

  Lemma do_call_ok cx kind target value s o l s' :
    wf s -> do_call rec cx kind target value s = (o, l, s') ->
    good s s' /\ (is_fail o = true -> noop s s') /\
    (static cx = true -> (kind = KCall -> value = 0) -> same s s').
  Proof.
    intros W H. unfold do_call in H.
    destruct (max_depth <? depth cx).
    { inversion H; subst. splits; auto using good_refl, noop_refl, same_refl. }
    destruct kind.
    - (* CALL *)
      destruct (negb (value =? 0) && (bal (dat s) (self cx) <? value)) eqn:EB.
      { inversion H; subst. splits; auto using good_refl, noop_refl, same_refl. }
      cbv zeta in H.
      set (s1 := snd (snapshot s)) in *.
      assert (G1 : good s s1) by (apply good_snapshot; auto).
      (* the common continuation *)
      assert (GO : forall s2, good s1 s2 -> (value = 0 -> same s s2) ->
                forall o l s',
                (let s3 := push (transfer (self cx) target value) s2 in
                 let c := code_of (dat s3) target in
                 if c =? 0 then (OOk, [], s3)
                 else finish_call (fst (snapshot s)) true (rec (mkCtx target (static cx) (depth cx + 1)) c s3)) = (o, l, s') ->
                good s s' /\ (is_fail o = true -> noop s s') /\
                (static cx = true -> (KCall = KCall -> value = 0) -> same s s')).
      { intros s2 G2 S2 o0 l0 s0 H0. cbv zeta in H0.
        set (s3 := push (transfer (self cx) target value) s2) in *.
        assert (G3 : good s1 s3).
        { eapply good_trans; [exact G2|]. apply good_push; auto using transfer_ok, kl_transfer. apply G2. }
        assert (S3 : value = 0 -> same s s3).
        { intros V. eapply same_trans; [apply S2; auto|]. subst value. apply push_id. apply transfer_zero. }
        destruct (code_of (dat s3) target =? 0).
        - inversion H0; subst. splits.
          + eapply good_trans; eauto.
          + cbn; discriminate.
          + intros _ V. apply S3; auto.
        - destruct (rec (mkCtx target (static cx) (depth cx + 1)) (code_of (dat s3) target) s3) as [[o4 l4] s4] eqn:R.
          destruct (Hrec _ _ _ _ _ _ (g_wf _ _ G3) R) as [G4 S4].
          destruct (finish_call_ok s true (o4, l4, s4) o0 l0 s0 W (good_trans _ _ _ G3 G4) H0) as (A & B & C).
          splits; auto; try (intros St V; apply C; eapply same_trans; [apply S3; auto | apply S4; auto]). }
      destruct (exists_of (dat s1) target).
      + eapply GO; eauto. apply good_refl. apply G1. intros; apply same_snapshot.
      + destruct (value =? 0) eqn:V0.
        * inversion H; subst. splits; auto. cbn; discriminate. intros; apply same_snapshot.
        * eapply GO; [| |exact H].
          -- apply good_push; auto using get_or_new_ok, kl_get_or_new. apply G1.
          -- intros V; subst; discriminate.
    - (* CALLCODE *)
      destruct (bal (dat s) (self cx) <? value).
      { inversion H; subst. splits; auto using good_refl, noop_refl, same_refl. }
      cbv zeta in H. set (s1 := snd (snapshot s)) in *.
      assert (G1 : good s s1) by (apply good_snapshot; auto).
      destruct (rec (mkCtx (self cx) (static cx) (depth cx + 1)) (code_of (dat s1) target) s1) as [[o4 l4] s4] eqn:R.
      destruct (Hrec _ _ _ _ _ _ (g_wf _ _ G1) R) as [G4 S4].
      destruct (finish_call_ok s false (o4, l4, s4) o l s' W G4 H) as (A & B & C).
      splits; auto; try (intros St _; apply C; eapply same_trans; [apply same_snapshot | apply S4; auto]).
    - (* DELEGATECALL *)
      cbv zeta in H. set (s1 := snd (snapshot s)) in *.
      assert (G1 : good s s1) by (apply good_snapshot; auto).
      destruct (rec (mkCtx (self cx) (static cx) (depth cx + 1)) (code_of (dat s1) target) s1) as [[o4 l4] s4] eqn:R.
      destruct (Hrec _ _ _ _ _ _ (g_wf _ _ G1) R) as [G4 S4].
      destruct (finish_call_ok s true (o4, l4, s4) o l s' W G4 H) as (A & B & C).
      splits; auto; try (intros St _; apply C; eapply same_trans; [apply same_snapshot | apply S4; auto]).
    - (* STATICCALL *)
      cbv zeta in H. set (s1 := snd (snapshot s)) in *.
      assert (G1 : good s s1) by (apply good_snapshot; auto).
      set (s2 := push (add_balance target 0) s1) in *.
      assert (S2 : same s s2).
      { eapply same_trans; [apply same_snapshot|]. apply push_id. apply add_balance_zero. }
      assert (G2 : good s1 s2).
      { apply good_push; auto using add_balance_ok, kl_add_balance. apply G1. }
      destruct (rec (mkCtx target true (depth cx + 1)) (code_of (dat s2) target) s2) as [[o4 l4] s4] eqn:R.
      destruct (Hrec _ _ _ _ _ _ (g_wf _ _ G2) R) as [G4 S4].
      destruct (finish_call_ok s true (o4, l4, s4) o l s' W (good_trans _ _ _ G2 G4) H) as (A & B & C).
      splits; auto; try (intros _ _; apply C; eapply same_trans; [exact S2 | apply S4; auto]).
  Qed.

  (* a STATICCALL leaves data and journal untouched whatever the callee does and however it ends *)
  Lemma static_call_same cx target value s o l s' :
    wf s -> do_call rec cx KStatic target value s = (o, l, s') -> same s s'.
  Proof.
    intros W H. unfold do_call in H.
    destruct (max_depth <? depth cx). { inversion H; subst; apply same_refl. }
    cbv zeta in H. set (s1 := snd (snapshot s)) in *.
    assert (G1 : good s s1) by (apply good_snapshot; auto).
    set (s2 := push (add_balance target 0) s1) in *.
    assert (S2 : same s s2).
    { eapply same_trans; [apply same_snapshot|]. apply push_id. apply add_balance_zero. }
    assert (G2 : good s1 s2).
    { apply good_push; auto using add_balance_ok, kl_add_balance. apply G1. }
    destruct (rec (mkCtx target true (depth cx + 1)) (code_of (dat s2) target) s2) as [[o4 l4] s4] eqn:R.
    destruct (Hrec _ _ _ _ _ _ (g_wf _ _ G2) R) as [G4 S4].
    destruct (finish_call_ok s true (o4, l4, s4) o l s' W (good_trans _ _ _ G2 G4) H) as (A & B & C).
    apply C. eapply same_trans; [exact S2 | apply S4; auto].
  Qed.

  (* the state a failed creation is compared with: the effects evm.create performs before its Snapshot *)
  Definition create_pre (cx : ctx) (address : addr) (orc : list addr) (s : state) : state :=
    let s0 := mkState (dat s) (journal s) (revs s) (next_rev s) (thash s) (txindex s) orc in
    push (acl_add address) (push (set_nonce (self cx) (nonce_of (dat s0) (self cx) + 1)) s0).

  Lemma with_oracle_good s orc : wf s ->
    good s (mkState (dat s) (journal s) (revs s) (next_rev s) (thash s) (txindex s) orc).
  Proof.
    intros W. apply good_noop; auto. unfold noop; cbn. splits; auto; try lia. apply deq_refl.
  Qed.

  Lemma do_create_ok cx value init s o l s' :
    wf s -> do_create progs rec cx value init s = (o, l, s') ->
    good s s' /\
    (is_fail o = true ->
       noop s s' \/ exists address orc, oracle s = address :: orc /\ noop (create_pre cx address orc s) s').
  Proof.
    intros W H. unfold do_create in H.
    destruct (max_depth <? depth cx). { inversion H; subst. split; auto using good_refl, noop_refl. }
    destruct (bal (dat s) (self cx) <? value). { inversion H; subst. split; auto using good_refl, noop_refl. }
    destruct (oracle s) as [|address orc] eqn:O. { inversion H; subst. split; auto using good_refl. cbn; discriminate. }
    cbv zeta in H.
    set (s0 := mkState (dat s) (journal s) (revs s) (next_rev s) (thash s) (txindex s) orc) in *.
    set (s1 := push (set_nonce (self cx) (nonce_of (dat s0) (self cx) + 1)) s0) in *.
    set (s2 := push (acl_add address) s1) in *.
    assert (G0 : good s s0) by (apply with_oracle_good; auto).
    assert (G1 : good s0 s1) by (apply good_push; auto using set_nonce_ok, kl_set_nonce; apply G0).
    assert (G2 : good s1 s2) by (apply good_push; auto using acl_add_ok, kl_acl_add; apply G1).
    assert (G02 : good s s2) by (eauto using good_trans).
    assert (P2 : s2 = create_pre cx address orc s) by reflexivity.
    destruct (negb (nonce_of (dat s2) address =? 0) || negb (code_of (dat s2) address =? 0)).
    { inversion H; subst. split; auto. intros _. right. exists address, orc. split; auto. rewrite <- P2. apply noop_refl. }
    set (s3 := snd (snapshot s2)) in *.
    set (s4 := push (get_or_new address) s3) in *.
    set (s5 := push (set_nonce address 1) s4) in *.
    set (s6 := push (transfer (self cx) address value) s5) in *.
    assert (G3 : good s2 s3) by (apply good_snapshot; apply G02).
    assert (G4 : good s3 s4) by (apply good_push; auto using get_or_new_ok, kl_get_or_new; apply G3).
    assert (G5 : good s4 s5) by (apply good_push; auto using set_nonce_ok, kl_set_nonce; apply G4).
    assert (G6 : good s5 s6) by (apply good_push; auto using transfer_ok, kl_transfer; apply G5).
    assert (G36 : good s3 s6) by (eauto using good_trans).
    destruct (rec (mkCtx address (static cx) (depth cx + 1)) init s6) as [[o7 l7] s7] eqn:R.
    destruct (Hrec _ _ _ _ _ _ (g_wf _ _ G6) R) as [G7 _].
    assert (G37 : good s3 s7) by (eauto using good_trans).
    destruct o7.
    - inversion H; subst. split; [|cbn; discriminate].
      eapply good_trans; [exact G02|]. eapply good_trans; [exact G3|]. eapply good_trans; [exact G37|].
      apply good_push; auto using set_code_ok, kl_set_code. apply G37.
    - destruct (finish_call_ok s2 true (ORevert, l7, s7) o l s' (g_wf _ _ G02) G37 H) as (A & B & _).
      split; [eapply good_trans; eauto|]. intros F. right. exists address, orc. split; auto.
    - destruct (finish_call_ok s2 true (OErr code, l7, s7) o l s' (g_wf _ _ G02) G37 H) as (A & B & _).
      split; [eapply good_trans; eauto|]. intros F. right. exists address, orc. split; auto.
    - destruct (finish_call_ok s2 true (OFuel, l7, s7) o l s' (g_wf _ _ G02) G37 H) as (A & B & _).
      split; [eapply good_trans; eauto|]. intros F. right. exists address, orc. split; auto.
    - destruct (finish_call_ok s2 true (OPanic, l7, s7) o l s' (g_wf _ _ G02) G37 H) as (A & B & _).
      split; [eapply good_trans; eauto|]. intros F. right. exists address, orc. split; auto.
  Qed.

  Lemma do_selfdestruct_good cx b s : wf s -> good s (do_selfdestruct cx b s).
  Proof.
    intros W. unfold do_selfdestruct.
    set (s1 := if suicided_of (dat s) (self cx) then s else push (add_refund 24000) s).
    assert (G1 : good s s1).
    { unfold s1. destruct (suicided_of (dat s) (self cx)); [apply good_refl; auto|].
      apply good_push; auto using add_refund_ok, kl_add_refund. }
    set (s2 := push (add_balance b (bal (dat s1) (self cx))) s1).
    assert (G2 : good s1 s2) by (apply good_push; auto using add_balance_ok, kl_add_balance; apply G1).
    eapply good_trans; [exact G1|]. eapply good_trans; [exact G2|].
    apply good_push; auto using suicide_ok, kl_suicide. apply G2.
  Qed.

  Lemma finish_ok cx f clogs s o l s' :
    wf s -> finish cx f clogs s = (o, l, s') -> good s s' /\ (static cx = true -> same s s').
  Proof.
    intros W H. unfold finish in H.
    destruct (static cx && fin_writes f) eqn:E.
    { inversion H; subst. split; auto using good_refl, same_refl. }
    destruct f; inversion H; subst; try (split; auto using good_refl, same_refl).
    - apply do_selfdestruct_good; auto.
    - intros St. rewrite St in E. cbn in E. discriminate.
  Qed.

  Lemma run_acts_ok cx f : forall l clogs s o lg s',
    wf s -> run_acts progs rec cx l f clogs s = (o, lg, s') -> good s s' /\ (static cx = true -> same s s').
  Proof.
    induction l as [|a rest IH]; intros clogs s o lg s' W H; cbn [run_acts] in H.
    { eapply finish_ok; eauto. }
    destruct (static cx && refused_static a) eqn:E.
    { inversion H; subst. split; auto using good_refl, same_refl. }
    destruct a.
    - (* SSTORE *)
      assert (St : static cx = false) by (destruct (static cx); auto; cbn in E; discriminate).
      set (s1 := push (set_state (self cx) k v) s) in *.
      assert (G1 : good s s1) by (apply good_push; auto using set_state_ok, kl_set_state).
      destruct (IH _ _ _ _ _ (g_wf _ _ G1) H) as [G S].
      split; [eapply good_trans; eauto|]. intros X; congruence.
    - (* LOG *)
      assert (St : static cx = false) by (destruct (static cx); auto; cbn in E; discriminate).
      cbv zeta in H.
      set (lg0 := mkLog (self cx) topic (thash s) (txindex s) (logsize (dat s))) in *.
      set (s1 := push (add_log (thash s) lg0) s) in *.
      assert (G1 : good s s1) by (apply good_push; auto using add_log_ok, kl_add_log).
      destruct (IH _ _ _ _ _ (g_wf _ _ G1) H) as [G S].
      split; [eapply good_trans; eauto|]. intros X; congruence.
    - (* TSTORE *)
      destruct (static cx) eqn:St.
      { inversion H; subst. split; auto using good_refl, same_refl. }
      set (s1 := push (set_transient (self cx) k v) s) in *.
      assert (G1 : good s s1) by (apply good_push; auto using set_transient_ok, kl_set_transient).
      destruct (IH _ _ _ _ _ (g_wf _ _ G1) H) as [G S].
      split; [eapply good_trans; eauto|]. intros X; congruence.
    - (* CALL family *)
      destruct (do_call rec cx kind target value s) as [[o1 l1] s1] eqn:C.
      destruct (do_call_ok _ _ _ _ _ _ _ _ W C) as (G1 & _ & S1).
      assert (S1' : static cx = true -> same s s1).
      { intros St. apply S1; auto. intros K; subst kind. rewrite St in E. cbn in E.
        destruct (value =? 0) eqn:V; [apply N.eqb_eq in V; auto | cbn in E; discriminate]. }
      destruct o1;
        try (destruct (IH _ _ _ _ _ (g_wf _ _ G1) H) as [G S];
             split; [eapply good_trans; eauto | intros St; eapply same_trans; eauto]);
        inversion H; subst; split; auto.
    - (* CREATE *)
      assert (St : static cx = false) by (destruct (static cx); auto; cbn in E; discriminate).
      destruct (do_create progs rec cx value init s) as [[o1 l1] s1] eqn:C.
      destruct (do_create_ok _ _ _ _ _ _ _ W C) as (G1 & _).
      destruct o1;
        try (destruct (IH _ _ _ _ _ (g_wf _ _ G1) H) as [G S];
             split; [eapply good_trans; eauto | intros X; congruence]);
        inversion H; subst; split; auto; intros X; congruence.
  Qed.

  Lemma run_code_ok cx c s o l s' :
    wf s -> run_code progs rec cx c s = (o, l, s') -> good s s' /\ (static cx = true -> same s s').
  Proof.
    unfold run_code. destruct (lookup progs c).
    - apply run_acts_ok.
    - intros W H; inversion H; subst; split; auto using good_refl, same_refl.
  Qed.
End Frames.

Lemma run_ok progs fuel : rec_ok (run progs fuel).
Proof.
  induction fuel as [|f IH]; intros cx c s o l s' W H; cbn [run] in H.
  - inversion H; subst; split; auto using good_refl, same_refl.
  - eapply run_code_ok; eauto.
Qed.
