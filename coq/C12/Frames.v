(* C12 proofs, part 2: call frames. A frame that fails is a no-op on the data, the journal and the revision
   stack; a static frame does not touch data or journal at all; only the logs of the current transaction
   hash can change. By induction on the fuel of the interpreter, for every program table. *)
From Coq Require Import List NArith Arith Bool Lia.
From V.C12 Require Import Model Proofs.
Import ListNotations.
Local Open Scope N_scope.

Definition is_fail (o : outcome) : bool := match o with ORevert | OErr _ => true | _ => false end.

Record good (s s' : state) : Prop := mkGood { g_ext : ext s s'; g_lo : lo s s'; g_wf : wf s' }.

Definition same (s s' : state) : Prop := dat s' = dat s /\ journal s' = journal s.

Lemma good_refl s : wf s -> good s s.
Proof. intros; constructor; auto using ext_refl, lo_refl. Qed.

Lemma good_trans s1 s2 s3 : good s1 s2 -> good s2 s3 -> good s1 s3.
Proof.
  intros [E1 L1 W1] [E2 L2 W2]. constructor; auto.
  - eapply ext_trans; eauto.
  - apply (lo_trans s1 s2 s3); auto. apply ext_thash; auto.
Qed.

Lemma good_push p s : prim_ok p -> keeps_logs (thash s) p -> wf s -> good s (push p s).
Proof. intros; constructor; auto using push_ext, push_lo, push_wf. Qed.

Lemma good_snapshot s : wf s -> good s (snd (snapshot s)).
Proof. intros; constructor; auto using snapshot_ext, snapshot_wf. intros h _; reflexivity. Qed.

Lemma good_noop s s' : noop s s' -> wf s -> good s s'.
Proof. intros; constructor; eauto using noop_ext, noop_lo, noop_wf. Qed.

Lemma same_refl s : same s s.
Proof. split; auto. Qed.

Lemma same_trans s1 s2 s3 : same s1 s2 -> same s2 s3 -> same s1 s3.
Proof. intros [] []; split; congruence. Qed.

Lemma same_snapshot s : same s (snd (snapshot s)).
Proof. split; auto. Qed.

(* a primitive that appends nothing and returns its argument *)
Lemma push_id p s : p (dat s) = ([], dat s) -> same s (push p s).
Proof. intros H. unfold push. rewrite H. split; auto. Qed.

Lemma transfer_zero a b d : transfer a b 0 d = ([], d).
Proof.
  unfold transfer, seqp, sub_balance, add_balance. cbn.
  destruct (bal d a <? 0); reflexivity.
Qed.

Lemma add_balance_zero a d : add_balance a 0 d = ([], d).
Proof. reflexivity. Qed.

(* revert from a state whose journal is the one of the snapshot: data untouched *)
Lemma revert_same s s4 s5 :
  ext (snd (snapshot s)) s4 -> same s s4 -> revert (fst (snapshot s)) s4 = Some s5 -> same s s5.
Proof.
  intros (es & rs & J & R & F & N & D & T & I) [HD HJ]. cbn in *.
  unfold revert. rewrite R.
  rewrite find_rev_skip by (eapply Forall_impl; [|exact F]; cbn; intros; lia).
  intros H; inversion H; subst; clear H. cbn.
  rewrite HJ, Nat.sub_diag. cbn. split; auto.
Qed.

Lemma with_oracle_good s orc : wf s -> good s (with_oracle s orc).
Proof.
  intros W. apply good_noop; auto. unfold noop; cbn. splits; auto; try lia. apply deq_refl.
Qed.

Lemma with_oracle_same s orc : same s (with_oracle s orc).
Proof. split; auto. Qed.

Lemma pop_oracle_good s x s' : wf s -> pop_oracle s = (x, s') -> good s s' /\ same s s'.
Proof.
  unfold pop_oracle. intros W H. destruct (oracle s); inversion H; subst.
  - split; auto using good_refl, same_refl.
  - split; auto using with_oracle_good, with_oracle_same.
Qed.

(* no program of the table uses STAKE / UNSTAKE / UNSTAKEALL / AUTHCALL *)
Definition custom_free (progs : list prog) : Prop :=
  forall c p, lookup progs c = Some p -> forallb (fun a => negb (is_custom a)) (acts p) = true.

(* the precompiled contracts' accounts exist (evm.Call creates the account of an absent precompile, also in a static frame) *)
Definition pc_exist (d : data) : Prop := forall a ok, precompile a = Some ok -> exists_of d a = true.

(* what a static frame guarantees, under the two guards *)
Definition static_same (progs : list prog) (st : bool) (s s' : state) : Prop :=
  st = true -> custom_free progs -> pc_exist (dat s) -> same s s'.

Lemma pc_exist_same s s' : same s s' -> pc_exist (dat s) -> pc_exist (dat s').
Proof. intros [D _] H. rewrite D. exact H. Qed.

Lemma with_gas_noop s g : noop s (with_gas s g).
Proof. unfold noop; cbn. splits; auto; try lia. apply deq_refl. Qed.

Lemma with_gas_good s g : wf s -> good s (with_gas s g).
Proof. intros W. apply good_noop; auto. apply with_gas_noop. Qed.

Lemma with_gas_same s g : same s (with_gas s g).
Proof. split; auto. Qed.

Lemma charge_ok c s s' : charge c s = Some s' -> wf s -> good s s' /\ same s s' /\ gas s' <= gas s /\ noop s s'.
Proof.
  unfold charge. destruct (N.ltb_spec (gas s) c) as [Hlt|Hge]; intros H W; inversion H; subst.
  splits; auto using with_gas_good, with_gas_same, with_gas_noop. cbn. lia.
Qed.

Lemma revert_gas id s s' : revert id s = Some s' -> gas s' = gas s.
Proof. unfold revert. destruct (find_rev id (revs s)) as [[n r]|]; intros H; inversion H; subst; auto. Qed.

Lemma pop_oracle_gas s x s' : pop_oracle s = (x, s') -> gas s' = gas s.
Proof. unfold pop_oracle. destruct (oracle s); intros H; inversion H; subst; auto. Qed.

Lemma push_gas p s : gas (push p s) = gas s.
Proof. unfold push. destruct (p (dat s)); auto. Qed.

Lemma noop_trans_good s1 s2 s3 : noop s1 s2 -> noop s2 s3 -> noop s1 s3.
Proof. apply noop_trans. Qed.

Lemma forward_le req avail : forward req avail <= avail.
Proof.
  unfold forward. pose proof (N.le_sub_l avail (avail / 64)). pose proof (N.le_min_r req (avail - avail / 64)). lia.
Qed.

Lemma stipend_le_base kind target value d : call_stipend kind value <= call_base kind target value d.
Proof.
  unfold call_stipend, call_base, c_stipend, c_value, c_newacct.
  destruct kind; destruct (value =? 0); try destruct (empty_of d target); lia.
Qed.

(* the gas of a frame after a call: what it kept plus what came back is no more than it had *)
Lemma call_gas_le g base req stip r :
  base <= g -> stip <= base -> r <= forward req (g - base) + stip ->
  (g - base - forward req (g - base)) + r <= g.
Proof. intros B S R. pose proof (forward_le req (g - base)). lia. Qed.

Lemma create_gas_le g r : r <= g - g / 64 -> g / 64 + r <= g.
Proof.
  intros R. assert (g / 64 <= g) by (apply N.div_le_upper_bound; lia). lia.
Qed.

Section Frames.
  Variable progs : list prog.
  Variable rec : ctx -> N -> state -> rres.

  (* what every piece of execution guarantees: journal discipline, own-hash logs, static purity under the guards, and
     no more gas afterwards than before *)
  Definition rec_ok : Prop :=
    forall cx c s o l s', wf s -> rec cx c s = (o, l, s') ->
      good s s' /\ static_same progs (static cx) s s' /\ gas s' <= gas s.

  Hypothesis Hrec : rec_ok.

  (* the epilogue of every call kind *)
  Lemma finish_call_ok s keep r o l s' :
    wf s ->
    (let '(_, _, s4) := r in good (snd (snapshot s)) s4) ->
    finish_call (fst (snapshot s)) keep r = (o, l, s') ->
    good s s' /\ (is_fail o = true -> noop s s') /\
    ((let '(_, _, s4) := r in same s s4) -> same s s') /\
    (let '(_, _, s4) := r in gas s' <= gas s4) /\
    (forall c, o = OErr c -> gas s' = 0).
  Proof.
    intros W G H. destruct r as [[o4 l4] s4].
    pose proof (good_trans _ _ _ (good_snapshot s W) G) as G04.
    unfold finish_call in H.
    destruct o4;
      try (inversion H; subst; splits; auto; try lia; try (cbn; discriminate); intros; discriminate);
      destruct (revert_restores s s4 (g_ext _ _ G)) as (s5 & R5 & N5 & _);
      pose proof (revert_gas _ _ _ R5) as RG;
      rewrite R5 in H; inversion H; subst; splits;
      try (apply good_noop; auto; eapply noop_trans; [exact N5 | apply with_gas_noop]);
      try (intros _; eapply noop_trans; [exact N5 | apply with_gas_noop]);
      try (intros S; eapply same_trans; [eapply revert_same; eauto; apply G | apply with_gas_same]);
      auto using good_noop; try (cbn; lia); try (intros; discriminate);
      try (intros S; eapply revert_same; eauto; apply G); try (intros; reflexivity).
  Qed.

  Lemma run_target_ok cx' a s o l s' :
    wf s -> run_target rec cx' a s = (o, l, s') ->
    good s s' /\ static_same progs (static cx') s s' /\ gas s' <= gas s.
  Proof.
    intros W H. unfold run_target in H. destruct (precompile a).
    - destruct (pop_oracle s) as [f s1] eqn:P.
      destruct (pop_oracle_good _ _ _ W P) as [G1 S1]. pose proof (pop_oracle_gas _ _ _ P) as PG.
      destruct (N.ltb_spec (gas s1) (pc_gas a)); inversion H; subst; splits;
        try (eapply good_trans; [exact G1 | apply with_gas_good; apply G1]);
        try (intros _ _ _; eapply same_trans; [exact S1 | apply with_gas_same]); cbn; lia.
    - eapply Hrec; eauto.
  Qed.

  (* run the target after the Snapshot taken at s, then the epilogue *)
  Lemma enter_ok s s3 keep cx' a o l s' :
    wf s -> good (snd (snapshot s)) s3 ->
    finish_call (fst (snapshot s)) keep (run_target rec cx' a s3) = (o, l, s') ->
    good s s' /\ (is_fail o = true -> noop s s') /\
    (static cx' = true -> custom_free progs -> pc_exist (dat s) -> same s s3 -> same s s') /\
    gas s' <= gas s3 /\ (forall c, o = OErr c -> gas s' = 0).
  Proof.
    intros W G3 H.
    destruct (run_target rec cx' a s3) as [[o4 l4] s4] eqn:R.
    destruct (run_target_ok _ _ _ _ _ _ (g_wf _ _ G3) R) as (G4 & S4 & L4).
    destruct (finish_call_ok s keep (o4, l4, s4) o l s' W (good_trans _ _ _ G3 G4) H) as (A & B & C & D & E).
    splits; auto; try lia. intros St CF PE S3. apply C. eapply same_trans; [exact S3|].
    apply S4; auto. eapply pc_exist_same; eauto.
  Qed.

  (* evm.Call / evm.AuthCall from the Snapshot on; s is the state before the Snapshot *)
  Lemma call_body_ok cx payer target value s o l s' :
    wf s -> call_body rec cx (fst (snapshot s)) payer target value (snd (snapshot s)) = (o, l, s') ->
    good s s' /\ (is_fail o = true -> noop s s') /\
    (static cx = true -> custom_free progs -> pc_exist (dat s) -> value = 0 -> same s s') /\
    gas s' <= gas s /\ (forall c, o = OErr c -> gas s' = 0).
  Proof.
    intros W H. unfold call_body in H. cbv zeta in H.
    set (s1 := snd (snapshot s)) in *.
    assert (G1 : good s s1) by (apply good_snapshot; auto).
    assert (GO : forall s2, good s1 s2 -> gas s2 = gas s ->
              forall o l s',
              (match precompile target with
               | Some _ => finish_call (fst (snapshot s)) true
                             (run_target rec (mkCtx target (static cx) (depth cx + 1) (origin cx)) target (push (transfer payer target value) s2))
               | None =>
                   if code_of (dat (push (transfer payer target value) s2)) target =? 0
                   then (OOk, [], push (transfer payer target value) s2)
                   else finish_call (fst (snapshot s)) true
                          (run_target rec (mkCtx target (static cx) (depth cx + 1) (origin cx)) target (push (transfer payer target value) s2))
               end) = (o, l, s') ->
              good s s' /\ (is_fail o = true -> noop s s') /\
              (static cx = true -> custom_free progs -> pc_exist (dat s) -> value = 0 -> same s s2 -> same s s') /\
              gas s' <= gas s /\ (forall c, o = OErr c -> gas s' = 0)).
    { intros s2 G2 E2 o0 l0 s0 H0.
      set (s3 := push (transfer payer target value) s2) in *.
      assert (G3 : good s1 s3).
      { eapply good_trans; [exact G2|]. apply good_push; auto using transfer_ok, kl_transfer. apply G2. }
      assert (E3 : gas s3 = gas s) by (unfold s3; rewrite push_gas; auto).
      assert (S3 : value = 0 -> same s s2 -> same s s3).
      { intros V X. eapply same_trans; [exact X|]. subst value. apply push_id. apply transfer_zero. }
      destruct (precompile target).
      - destruct (enter_ok _ _ _ _ _ _ _ _ W G3 H0) as (A & B & C & D & E). splits; auto. lia.
      - destruct (code_of (dat s3) target =? 0).
        + inversion H0; subst. splits.
          * eapply good_trans; eauto.
          * cbn; discriminate.
          * intros _ _ _ V X. apply S3; auto.
          * lia.
          * intros; discriminate.
        + destruct (enter_ok _ _ _ _ _ _ _ _ W G3 H0) as (A & B & C & D & E). splits; auto. lia. }
    destruct (exists_of (dat s1) target) eqn:EX.
    - destruct (GO s1 (good_refl _ (g_wf _ _ G1)) eq_refl _ _ _ H) as (A & B & C & D & E). splits; auto.
      intros St CF PE V. apply C; auto. apply same_snapshot.
    - destruct (precompile target) eqn:PC.
      + assert (G2 : good s1 (push (get_or_new target) s1))
          by (apply good_push; auto using get_or_new_ok, kl_get_or_new; apply G1).
        pose proof (GO _ G2 (push_gas _ _) o l s') as X. destruct (X H) as (A & B & C & D & E). splits; auto.
        intros St CF PE V. specialize (PE _ _ PC). change (dat s1) with (dat s) in EX. congruence.
      + destruct (value =? 0) eqn:V0.
        * inversion H; subst. splits; auto; try (cbn; discriminate); try (intros; discriminate). intros; apply same_snapshot. cbn; lia.
        * assert (G2 : good s1 (push (get_or_new target) s1))
            by (apply good_push; auto using get_or_new_ok, kl_get_or_new; apply G1).
          pose proof (GO _ G2 (push_gas _ _) o l s') as X. destruct (X H) as (A & B & C & D & E). splits; auto.
          intros St CF PE V. subst value. discriminate.
  Qed.

  Lemma do_call_ok cx kind target value s o l s' :
    wf s -> do_call rec cx kind target value s = (o, l, s') ->
    good s s' /\ (is_fail o = true -> noop s s') /\
    (static cx = true -> custom_free progs -> pc_exist (dat s) -> (kind = KCall -> value = 0) -> same s s') /\
    gas s' <= gas s.
  Proof.
    intros W H. unfold do_call in H.
    destruct (max_depth <? depth cx).
    { inversion H; subst. splits; auto using good_refl, noop_refl, same_refl. lia. }
    destruct kind.
    - destruct (negb (value =? 0) && (bal (dat s) (self cx) <? value)).
      { inversion H; subst. splits; auto using good_refl, noop_refl, same_refl. lia. }
      destruct (call_body_ok _ _ _ _ _ _ _ _ W H) as (A & B & C & D & _). splits; auto.
    - destruct (bal (dat s) (self cx) <? value).
      { inversion H; subst. splits; auto using good_refl, noop_refl, same_refl. lia. }
      cbv zeta in H.
      destruct (enter_ok _ _ _ _ _ _ _ _ W (good_refl _ (snapshot_wf _ W)) H) as (A & B & C & D & _).
      splits; auto. intros St CF PE _. apply C; auto. apply same_snapshot.
    - cbv zeta in H.
      destruct (enter_ok _ _ _ _ _ _ _ _ W (good_refl _ (snapshot_wf _ W)) H) as (A & B & C & D & _).
      splits; auto. intros St CF PE _. apply C; auto. apply same_snapshot.
    - cbv zeta in H.
      set (s1 := snd (snapshot s)) in *.
      assert (G2 : good s1 (push (add_balance target 0) s1))
        by (apply good_push; auto using add_balance_ok, kl_add_balance; apply snapshot_wf; auto).
      destruct (enter_ok _ _ _ _ _ _ _ _ W G2 H) as (A & B & C & D & _).
      splits; auto.
      intros _ CF PE _. apply C; auto.
      eapply same_trans; [apply same_snapshot|]. apply push_id. apply add_balance_zero.
  Qed.

  (* a frame that was entered and ended with an error other than REVERT hands back no gas *)
  Lemma call_body_error_no_gas cx payer target value s c l s' :
    wf s -> call_body rec cx (fst (snapshot s)) payer target value (snd (snapshot s)) = (OErr c, l, s') -> gas s' = 0.
  Proof. intros W H. destruct (call_body_ok _ _ _ _ _ _ _ _ W H) as (_ & _ & _ & _ & E). eapply E; eauto. Qed.

  (* a STATICCALL leaves data and journal untouched whatever the callee does and however it ends *)
  Lemma static_call_same cx target value s o l s' :
    wf s -> custom_free progs -> pc_exist (dat s) ->
    do_call rec cx KStatic target value s = (o, l, s') -> same s s'.
  Proof.
    intros W CF PE H. unfold do_call in H.
    destruct (max_depth <? depth cx). { inversion H; subst; apply same_refl. }
    cbv zeta in H. set (s1 := snd (snapshot s)) in *.
    assert (G2 : good s1 (push (add_balance target 0) s1))
      by (apply good_push; auto using add_balance_ok, kl_add_balance; apply snapshot_wf; auto).
    destruct (enter_ok _ _ _ _ _ _ _ _ W G2 H) as (A & B & C & _).
    apply C; auto.
    eapply same_trans; [apply same_snapshot|]. apply push_id. apply add_balance_zero.
  Qed.

  (* evm.AuthCall: a failed frame leaves exactly the authority's nonce bump *)
  Definition authcall_pre (authority : addr) (s : state) : state :=
    push (set_nonce authority (wrap64 (nonce_of (dat s) authority + 1))) s.

  Lemma do_authcall_ok cx authority target value s o l s' :
    wf s -> do_authcall rec cx authority target value s = (o, l, s') ->
    good s s' /\ (is_fail o = true -> noop s s' \/ noop (authcall_pre authority s) s') /\ gas s' <= gas s.
  Proof.
    intros W H. unfold do_authcall in H.
    destruct (max_depth <? depth cx). { inversion H; subst. splits; auto using good_refl, noop_refl. lia. }
    destruct (negb (value =? 0) && (bal (dat s) (origin cx) <? value)).
    { inversion H; subst. splits; auto using good_refl, noop_refl. lia. }
    cbv zeta in H. fold (authcall_pre authority s) in H.
    assert (G0 : good s (authcall_pre authority s)) by (apply good_push; auto using set_nonce_ok, kl_set_nonce).
    destruct (call_body_ok _ _ _ _ _ _ _ _ (g_wf _ _ G0) H) as (A & B & _ & D & _).
    splits; [eapply good_trans; eauto | auto |]. unfold authcall_pre in D. rewrite push_gas in D. exact D.
  Qed.

  (* the state a failed creation is compared with: the effects evm.create performs before its Snapshot *)
  Definition create_pre (cx : ctx) (address : addr) (orc : list addr) (s : state) : state :=
    let s0 := with_oracle s orc in
    push (acl_add address) (push (set_nonce (self cx) (wrap64 (nonce_of (dat s0) (self cx) + 1))) s0).

  Lemma do_create_ok cx value init s o l s' :
    wf s -> do_create progs rec cx value init s = (o, l, s') ->
    good s s' /\
    (is_fail o = true ->
       noop s s' \/ exists address orc, oracle s = address :: orc /\ noop (create_pre cx address orc s) s') /\
    gas s' <= gas s.
  Proof.
    intros W H. unfold do_create in H.
    destruct (max_depth <? depth cx). { inversion H; subst. splits; auto using good_refl, noop_refl. lia. }
    destruct (bal (dat s) (self cx) <? value). { inversion H; subst. splits; auto using good_refl, noop_refl. lia. }
    destruct (oracle s) as [|address orc] eqn:O. { inversion H; subst. splits; auto using good_refl. cbn; discriminate. lia. }
    cbv zeta in H.
    set (s0 := with_oracle s orc) in *.
    set (s1 := push (set_nonce (self cx) (wrap64 (nonce_of (dat s0) (self cx) + 1))) s0) in *.
    set (s2 := push (acl_add address) s1) in *.
    assert (G0 : good s s0) by (apply with_oracle_good; auto).
    assert (G1 : good s0 s1) by (apply good_push; auto using set_nonce_ok, kl_set_nonce; apply G0).
    assert (G2 : good s1 s2) by (apply good_push; auto using acl_add_ok, kl_acl_add; apply G1).
    assert (G02 : good s s2) by (eauto using good_trans).
    assert (E2 : gas s2 = gas s) by (unfold s2, s1; rewrite !push_gas; reflexivity).
    assert (P2 : s2 = create_pre cx address orc s) by reflexivity.
    destruct (negb (nonce_of (dat s2) address =? 0) || negb (code_of (dat s2) address =? 0)).
    { inversion H; subst. splits.
      - eapply good_trans; [exact G02 | apply with_gas_good; apply G02].
      - intros _. right. exists address, orc. split; auto. rewrite <- P2. apply with_gas_noop.
      - cbn; lia. }
    set (s3 := snd (snapshot s2)) in *.
    set (s4 := push (get_or_new address) s3) in *.
    set (s5 := push (set_nonce address 1) s4) in *.
    set (s6 := push (transfer (self cx) address value) s5) in *.
    assert (G3 : good s2 s3) by (apply good_snapshot; apply G02).
    assert (G4 : good s3 s4) by (apply good_push; auto using get_or_new_ok, kl_get_or_new; apply G3).
    assert (G5 : good s4 s5) by (apply good_push; auto using set_nonce_ok, kl_set_nonce; apply G4).
    assert (G6 : good s5 s6) by (apply good_push; auto using transfer_ok, kl_transfer; apply G5).
    assert (G36 : good s3 s6) by (eauto using good_trans).
    assert (E6 : gas s6 = gas s) by (unfold s6, s5, s4; rewrite !push_gas; exact E2).
    destruct (rec (mkCtx address (static cx) (depth cx + 1) (origin cx)) init s6) as [[o7 l7] s7] eqn:R.
    destruct (Hrec _ _ _ _ _ _ (g_wf _ _ G6) R) as (G7 & _ & L7).
    assert (G37 : good s3 s7) by (eauto using good_trans).
    assert (FC : forall o7', finish_call (fst (snapshot s2)) true (o7', l7, s7) = (o, l, s') ->
                 good s s' /\ (is_fail o = true -> noop s s' \/
                   exists address0 orc0, address :: orc = address0 :: orc0 /\ noop (create_pre cx address0 orc0 s) s') /\
                 gas s' <= gas s).
    { intros o7' HF.
      destruct (finish_call_ok s2 true (o7', l7, s7) o l s' (g_wf _ _ G02) G37 HF) as (A & B & _ & D & _).
      splits; [eapply good_trans; eauto | | lia]. intros F. right. exists address, orc. split; auto. }
    destruct o7; try (apply FC in H; exact H).
    destruct (ret_big (lookup progs init)); [apply FC in H; exact H|].
    match type of H with (if ?c then _ else _) = _ => destruct c end.
    - inversion H; subst. splits; [|cbn; discriminate | lia].
      eapply good_trans; [exact G02|]. eapply good_trans; [exact G3|]. exact G37.
    - inversion H; subst. splits; [|cbn; discriminate | rewrite push_gas; cbn; lia].
      eapply good_trans; [exact G02|]. eapply good_trans; [exact G3|]. eapply good_trans; [exact G37|].
      eapply good_trans; [apply with_gas_good; apply G37|].
      apply good_push; auto using set_code_ok, kl_set_code. apply with_gas_good; apply G37.
  Qed.

  Lemma do_selfdestruct_good cx b s : wf s -> good s (do_selfdestruct cx b s) /\ gas (do_selfdestruct cx b s) = gas s.
  Proof.
    intros W. unfold do_selfdestruct.
    set (s1 := if suicided_of (dat s) (self cx) then s else push (add_refund 24000) s).
    assert (G1 : good s s1).
    { unfold s1. destruct (suicided_of (dat s) (self cx)); [apply good_refl; auto|].
      apply good_push; auto using add_refund_ok, kl_add_refund. }
    assert (E1 : gas s1 = gas s) by (unfold s1; destruct (suicided_of (dat s) (self cx)); auto using push_gas).
    set (s2 := push (add_balance b (bal (dat s1) (self cx))) s1).
    assert (G2 : good s1 s2) by (apply good_push; auto using add_balance_ok, kl_add_balance; apply G1).
    split.
    - eapply good_trans; [exact G1|]. eapply good_trans; [exact G2|].
      apply good_push; auto using suicide_ok, kl_suicide. apply G2.
    - rewrite push_gas. unfold s2. rewrite push_gas. exact E1.
  Qed.

  (* the custom opcodes change the state through journalled primitives only *)
  Lemma good_set_state a k v s : wf s -> good s (push (set_state a k v) s).
  Proof. intros; apply good_push; auto using set_state_ok, kl_set_state. Qed.

  Lemma do_stake_good cx t s : wf s -> good s (do_stake cx t s) /\ gas (do_stake cx t s) = gas s.
  Proof.
    intros W. unfold do_stake.
    destruct (reg_status (dat s) (self cx) =? 0); [split; auto using good_refl|].
    destruct (t =? 0); [split; auto using good_refl|].
    destruct (bal (dat s) (self cx) <? t * unit18); [split; auto using good_refl|].
    cbv zeta.
    set (s1 := push (sub_balance (self cx) (t * unit18)) s).
    assert (G1 : good s s1) by (apply good_push; auto using sub_balance_ok, kl_sub_balance).
    split.
    - eapply good_trans; [exact G1|].
      eapply good_trans; [apply good_set_state; apply G1|].
      apply good_set_state. apply good_set_state. apply G1.
    - unfold s1; rewrite !push_gas; reflexivity.
  Qed.

  Lemma take_stake_good a m s : wf s -> good s (take_stake a m s) /\ gas (take_stake a m s) = gas s.
  Proof.
    intros W. unfold take_stake. cbv zeta.
    destruct (reg_stake (dat s) a - m <? min_stake).
    - split; [|rewrite !push_gas; auto].
      eapply good_trans; [apply good_set_state; auto|]. apply good_set_state. apply good_set_state; auto.
    - split; [apply good_set_state; auto | rewrite push_gas; auto].
  Qed.

  Lemma escrow_add_good who v s : wf s -> good s (escrow_add who v s) /\ gas (escrow_add who v s) = gas s.
  Proof. intros; split; [apply good_set_state; auto | unfold escrow_add; rewrite push_gas; auto]. Qed.

  Lemma do_unstake_good cx t s : wf s -> good s (do_unstake cx t s) /\ gas (do_unstake cx t s) = gas s.
  Proof.
    intros W. unfold do_unstake.
    destruct (reg_status (dat s) (self cx) =? 0); [split; auto using good_refl|].
    destruct (reg_stake (dat s) (self cx) <? t); [split; auto using good_refl|].
    destruct (take_stake_good (self cx) t s W) as [GT ET].
    destruct (escrow_add_good (origin cx) (t * unit18) _ (g_wf _ _ GT)) as [GE EE].
    split; [eapply good_trans; eauto | congruence].
  Qed.

  Lemma do_unstakeall_good cx s s' : wf s -> do_unstakeall cx s = Some s' -> good s s' /\ gas s' = gas s.
  Proof.
    intros W. unfold do_unstakeall.
    destruct (reg_status (dat s) (self cx) =? 0); [discriminate|].
    intros H; inversion H; subst.
    destruct (take_stake_good (self cx) (reg_stake (dat s) (self cx)) s W) as [GT ET].
    destruct (escrow_add_good (self cx) (reg_stake (dat s) (self cx) * unit18) _ (g_wf _ _ GT)) as [GE EE].
    split; [eapply good_trans; eauto | congruence].
  Qed.

  Lemma finish_ok cx f fc clogs s o l s' :
    wf s -> finish cx f fc clogs s = (o, l, s') -> good s s' /\ (static cx = true -> same s s') /\ gas s' <= gas s.
  Proof.
    intros W H. unfold finish, oog in H.
    destruct (charge (fst fc) s) as [s0|] eqn:C0.
    2:{ inversion H; subst. splits; auto using good_refl, same_refl. lia. }
    destruct (charge_ok _ _ _ C0 W) as (G0 & S0 & L0 & _).
    assert (FIN : forall o1 l1 s1, good s0 s1 -> (static cx = true -> same s0 s1) -> gas s1 <= gas s0 ->
              (o1, l1, s1) = (o, l, s') -> good s s' /\ (static cx = true -> same s s') /\ gas s' <= gas s).
    { intros o1 l1 s1 G1 S1 L1 E. inversion E; subst. splits; [eapply good_trans; eauto | intros St; eapply same_trans; eauto | lia]. }
    destruct (static cx && fin_writes f) eqn:E.
    { eapply FIN; [apply good_refl; apply G0 | intros; apply same_refl | lia | exact H]. }
    assert (CH : forall c o1, (match charge c s0 with Some s1 => (o1, clogs, s1) | None => (OErr err_oog, [], s0) end) = (o, l, s') ->
              good s s' /\ (static cx = true -> same s s') /\ gas s' <= gas s).
    { intros c o1 HC. destruct (charge c s0) as [s1|] eqn:C1.
      - destruct (charge_ok _ _ _ C1 (g_wf _ _ G0)) as (G1 & S1 & L1 & _). eapply FIN; eauto.
      - eapply FIN; [apply good_refl; apply G0 | intros; apply same_refl | lia | exact HC]. }
    destruct f; try (eapply CH; exact H).
    - eapply FIN; [apply good_refl; apply G0 | intros; apply same_refl | lia | exact H].
    - cbv zeta in H.
      match type of H with (match charge ?c s0 with _ => _ end) = _ => destruct (charge c s0) as [s1|] eqn:C1 end.
      + destruct (charge_ok _ _ _ C1 (g_wf _ _ G0)) as (G1 & S1 & L1 & _).
        destruct (do_selfdestruct_good cx beneficiary s1 (g_wf _ _ G1)) as [GS ES].
        eapply FIN; [eapply good_trans; eauto | | | exact H].
        * intros St. rewrite St in E. cbn in E. discriminate.
        * lia.
      + eapply FIN; [apply good_refl; apply G0 | intros; apply same_refl | lia | exact H].
  Qed.

  Definition nocustom (l : list action) : Prop := forallb (fun a => negb (is_custom a)) l = true.

  (* static clause of a run over the action list l *)
  Definition sclause (cx : ctx) (l : list action) (s s' : state) : Prop :=
    static cx = true -> custom_free progs -> pc_exist (dat s) -> nocustom l -> same s s'.

  Definition concl (cx : ctx) (l : list action) (s : state) (r : rres) : Prop :=
    let '(_, _, s') := r in good s s' /\ sclause cx l s s' /\ gas s' <= gas s.

  Lemma sclause_die cx l s : sclause cx l s s.
  Proof. intros _ _ _ _; apply same_refl. Qed.

  Lemma concl_die cx l s o lg : wf s -> concl cx l s (o, lg, s).
  Proof. intros W. cbn. splits; auto using good_refl, sclause_die. lia. Qed.

  Lemma nocustom_cons a rest : nocustom (a :: rest) -> is_custom a = false /\ nocustom rest.
  Proof. unfold nocustom. cbn. intros H. apply andb_true_iff in H. destruct H as [A B]. split; auto. destruct (is_custom a); auto; discriminate. Qed.

  (* one step: from s to s1 by the action a, then the rest from s1 *)
  Lemma concl_step cx a rest s s1 r :
    good s s1 ->
    (static cx = true -> custom_free progs -> pc_exist (dat s) -> is_custom a = false -> same s s1) ->
    gas s1 <= gas s ->
    concl cx rest s1 r -> concl cx (a :: rest) s r.
  Proof.
    intros G1 S1 L1 C. destruct r as [[o lg] s']. destruct C as (G & S & L).
    cbn. splits; [eapply good_trans; eauto | | lia].
    intros St CF PE NC. destruct (nocustom_cons _ _ NC) as [NA NR].
    eapply same_trans; [apply S1; auto|]. apply S; auto. eapply pc_exist_same; eauto.
  Qed.

  Lemma after_eff_ok cx a rest post (k : state -> rres) s s1 :
    good s s1 ->
    (static cx = true -> custom_free progs -> pc_exist (dat s) -> is_custom a = false -> same s s1) ->
    gas s1 <= gas s ->
    (forall s2, wf s2 -> concl cx rest s2 (k s2)) ->
    concl cx (a :: rest) s (after_eff post k s1).
  Proof.
    intros G1 S1 L1 K. unfold after_eff.
    destruct (charge post s1) as [s2|] eqn:C.
    - destruct (charge_ok _ _ _ C (g_wf _ _ G1)) as (G2 & S2 & L2 & _).
      eapply concl_step; [eapply good_trans; eauto | | lia | apply K; apply G2].
      intros St CF PE NA. eapply same_trans; [apply S1; auto | exact S2].
    - unfold oog. eapply concl_step; eauto. apply concl_die. apply G1.
  Qed.

  Lemma after_sub_ok cx a rest keep post (k : list log -> state -> rres) clogs s r :
    (let '(_, _, s1) := r in
       good s s1 /\ (static cx = true -> custom_free progs -> pc_exist (dat s) -> is_custom a = false -> same s s1) /\
       keep + gas s1 <= gas s) ->
    (forall cl s2, wf s2 -> concl cx rest s2 (k cl s2)) ->
    concl cx (a :: rest) s (after_sub r keep post k clogs).
  Proof.
    intros R K. destruct r as [[o1 l1] s1]. destruct R as (G1 & S1 & L1). unfold after_sub.
    assert (X : concl cx (a :: rest) s
                 (match charge post (with_gas s1 (keep + gas s1)) with
                  | Some s'' => k (clogs ++ l1) s''
                  | None => oog s1 end)).
    { set (s1g := with_gas s1 (keep + gas s1)) in *.
      assert (G1g : good s s1g) by (eapply good_trans; [exact G1 | apply with_gas_good; apply G1]).
      assert (S1g : static cx = true -> custom_free progs -> pc_exist (dat s) -> is_custom a = false -> same s s1g)
        by (intros St CF PE NA; eapply same_trans; [apply S1; auto | apply with_gas_same]).
      destruct (charge post s1g) as [s2|] eqn:C.
      - destruct (charge_ok _ _ _ C (g_wf _ _ G1g)) as (G2 & S2 & L2 & _).
        eapply concl_step; [eapply good_trans; eauto | | | apply K; apply G2].
        + intros St CF PE NA. eapply same_trans; [apply S1g; auto | exact S2].
        + cbn in L2. lia.
      - unfold oog. eapply concl_step; [exact G1 | exact S1 | lia | apply concl_die; apply G1]. }
    destruct o1; auto; eapply concl_step; eauto; try lia; apply concl_die; apply G1.
  Qed.

  Lemma run_acts_ok cx f fc : forall l lc cs clogs s,
    wf s -> concl cx l s (run_acts progs rec cx lc l cs f fc clogs s).
  Proof.
    induction l as [|a rest IH]; intros lc cs clogs s W; cbn [run_acts].
    { destruct (l_fate lc) as [[|k]|]; [apply concl_die; auto | |];
        (destruct (finish cx f fc clogs s) as [[o lg] s'] eqn:F;
         destruct (finish_ok _ _ _ _ _ _ _ _ W F) as (G & S & L); cbn; splits; auto; intros St _ _ _; auto). }
    destruct (l_fate lc) as [[|k0]|] eqn:FATE; [apply concl_die; auto | |];
    (destruct (hd free_cost cs) as [[pre post] req]; cbv zeta;
     destruct (charge pre s) as [s0|] eqn:C0; [|apply concl_die; auto];
     destruct (charge_ok _ _ _ C0 W) as (G0 & S0 & L0 & _);
     assert (W0 : wf s0) by apply G0;
     assert (LIFT : forall r, concl cx (a :: rest) s0 r -> concl cx (a :: rest) s r)
       by (intros [[o lg] s'] (G & S & L); cbn; splits; [eapply good_trans; eauto | | lia];
           intros St CF PE NC; eapply same_trans; [exact S0 | apply S; auto; eapply pc_exist_same; eauto]);
     apply LIFT;
     destruct (static cx && refused_static a) eqn:E; [apply concl_die; auto |];
     assert (NST : writes_flag a = true -> static cx = false)
       by (intros Wf; destruct (static cx); auto; cbn in E; unfold refused_static in E; rewrite Wf in E; discriminate);
     assert (KK : forall lc' cl s2, wf s2 -> concl cx rest s2 (run_acts progs rec cx lc' rest (tl cs) f fc cl s2))
       by (intros; apply IH; auto);
     destruct a;
     [ (* SSTORE *)
       apply after_eff_ok; [apply good_set_state; auto | intros St; rewrite NST in St by reflexivity; discriminate | rewrite push_gas; lia | intros; apply KK; auto]
     | (* LOG *)
       apply after_eff_ok; [apply good_push; auto using add_log_ok, kl_add_log | intros St; rewrite NST in St by reflexivity; discriminate | rewrite push_gas; lia | intros; apply KK; auto]
     | (* LOG of TLOAD *)
       apply after_eff_ok; [apply good_push; auto using add_log_ok, kl_add_log | intros St; rewrite NST in St by reflexivity; discriminate | rewrite push_gas; lia | intros; apply KK; auto]
     | (* TSTORE *)
       destruct (static cx) eqn:St;
       [ apply concl_die; auto
       | apply after_eff_ok; [apply good_push; auto using set_transient_ok, kl_set_transient | intros X; congruence | rewrite push_gas; lia | intros; apply KK; auto] ]
     | (* CALL *)
       destruct (N.ltb_spec (gas s0) (call_base kind target value (dat s0))); [apply concl_die; auto |];
       apply after_sub_ok; [ | intros; apply KK; auto];
       destruct (do_call rec cx kind target value (with_gas s0 (forward req (gas s0 - call_base kind target value (dat s0)) + call_stipend kind value))) as [[o1 l1] s1] eqn:CC;
       destruct (do_call_ok _ _ _ _ _ _ _ _ (g_wf _ _ (with_gas_good s0 _ W0)) CC) as (G1 & _ & S1 & L1);
       splits;
       [ eapply good_trans; [apply with_gas_good; auto | exact G1]
       | intros St CF PE _; eapply same_trans; [apply with_gas_same | apply S1; auto];
         intros K; subst kind; rewrite St in E; cbn in E;
         destruct (value =? 0) eqn:V; [apply N.eqb_eq in V; auto | cbn in E; discriminate]
       | cbn [gas with_gas] in L1; eapply call_gas_le; [lia | apply stipend_le_base | exact L1] ]
     | (* CREATE *)
       destruct (do_create progs rec cx value init (with_gas s0 (gas s0 - gas s0 / 64))) as [[o1 l1] s1] eqn:CC;
       destruct (do_create_ok _ _ _ _ _ _ _ (g_wf _ _ (with_gas_good s0 _ W0)) CC) as (G1 & _ & L1);
       apply (after_sub_ok cx _ rest _ _ _ _ s0 (o1, l1, s1)); [ | intros; apply KK; auto];
       splits;
       [ eapply good_trans; [apply with_gas_good; auto | exact G1]
       | intros St; rewrite NST in St by reflexivity; discriminate
       | cbn [gas with_gas] in L1; apply create_gas_le; exact L1 ]
     | (* CALL the created contract *)
       destruct (N.ltb_spec (gas s0) (call_base kind (l_created (tick lc)) value (dat s0))); [apply concl_die; auto |];
       apply after_sub_ok; [ | intros; apply KK; auto];
       destruct (do_call rec cx kind (l_created (tick lc)) value (with_gas s0 (forward req (gas s0 - call_base kind (l_created (tick lc)) value (dat s0)) + call_stipend kind value))) as [[o1 l1] s1] eqn:CC;
       destruct (do_call_ok _ _ _ _ _ _ _ _ (g_wf _ _ (with_gas_good s0 _ W0)) CC) as (G1 & _ & S1 & L1);
       splits;
       [ eapply good_trans; [apply with_gas_good; auto | exact G1]
       | intros St CF PE _; eapply same_trans; [apply with_gas_same | apply S1; auto];
         intros K; subst kind; rewrite St in E; cbn in E;
         destruct (value =? 0) eqn:V; [apply N.eqb_eq in V; auto | cbn in E; discriminate]
       | cbn [gas with_gas] in L1; eapply call_gas_le; [lia | apply stipend_le_base | exact L1] ]
     | (* STAKE *)
       destruct (do_stake_good cx t s0 W0) as [GS ES];
       apply after_eff_ok; [exact GS | intros _ _ _ X; discriminate | lia | intros; apply KK; auto]
     | (* UNSTAKE *)
       destruct (do_unstake_good cx t s0 W0) as [GS ES];
       apply after_eff_ok; [exact GS | intros _ _ _ X; discriminate | lia | intros; apply KK; auto]
     | (* UNSTAKEALL *)
       destruct (do_unstakeall cx s0) as [s1|] eqn:U;
       [ destruct (do_unstakeall_good _ _ _ W0 U) as [GS ES];
         apply after_eff_ok; [exact GS | intros _ _ _ X; discriminate | lia | intros; apply KK; auto]
       | apply concl_die; auto ]
     | (* AUTH *)
       apply after_eff_ok; [apply good_refl; auto | intros; apply same_refl | lia | intros; apply KK; auto]
     | (* AUTHCALL *)
       cbv zeta;
       assert (GA : good s0 (push (acl_add target) s0)) by (apply good_push; auto using acl_add_ok, kl_acl_add);
       pose proof (push_gas (acl_add target) s0) as EA;
       match goal with |- context [if gas ?sa <? ?b then _ else _] => set (base := b) in * end;
       destruct (N.ltb_spec (gas (push (acl_add target) s0)) base);
       [ eapply concl_step; [exact GA | intros _ _ _ X; discriminate | lia | apply concl_die; apply GA] |];
       set (sA := push (acl_add target) s0) in *;
       assert (WA : wf sA) by apply GA;
       assert (FW : forward req (gas sA - base) <= gas sA - base)
         by apply forward_le;
       assert (BURNT : forall g, g <= gas s0 -> good s0 (with_gas sA g) /\ gas (with_gas sA g) <= gas s0)
         by (intros g Hg; split; [eapply good_trans; [exact GA | apply with_gas_good; auto] | cbn; lia]);
       destruct (l_auth (tick lc)) as [authority|];
       [ destruct (nonce_of (dat sA) authority =? n);
         [ destruct (do_authcall rec cx authority target value (with_gas sA (forward req (gas sA - base)))) as [[o1 l1] s1] eqn:CC;
           destruct (do_authcall_ok _ _ _ _ _ _ _ _ (g_wf _ _ (with_gas_good sA _ WA)) CC) as (G1 & _ & L1);
           apply (after_sub_ok cx _ rest _ _ _ _ s0 (o1, l1, s1)); [ | intros; apply KK; auto];
           splits;
           [ eapply good_trans; [exact GA |]; eapply good_trans; [apply with_gas_good; auto | exact G1]
           | intros _ _ _ X; discriminate
           | cbn [gas with_gas] in L1; lia ]
         | destruct (BURNT (gas sA - base - forward req (gas sA - base))) as [GB LB]; [lia|];
           apply after_eff_ok; [exact GB | intros _ _ _ X; discriminate | exact LB | intros; apply KK; auto] ]
       | destruct (BURNT (gas sA - base - forward req (gas sA - base))) as [GB LB]; [lia|];
         apply after_eff_ok; [exact GB | intros _ _ _ X; discriminate | exact LB | intros; apply KK; auto] ]
     ]).
  Qed.

  Lemma run_code_ok cx c s o l s' :
    wf s -> run_code progs rec cx c s = (o, l, s') ->
    good s s' /\ static_same progs (static cx) s s' /\ gas s' <= gas s.
  Proof.
    unfold run_code. intros W H. destruct (lookup progs c) as [p|] eqn:L.
    - destruct (pop_oracle s) as [x s1] eqn:P.
      destruct (pop_oracle_good _ _ _ W P) as [G1 S1]. pose proof (pop_oracle_gas _ _ _ P) as PG.
      pose proof (run_acts_ok cx (fin p) (fcost p) (acts p) (mkLoc 0 None (fate_of x)) (pcost p) [] s1 (g_wf _ _ G1)) as C.
      rewrite H in C. destruct C as (G & S & LG).
      splits; [eapply good_trans; eauto | | lia]. intros St CF PE. eapply same_trans; [exact S1|]. apply S; auto.
      + eapply pc_exist_same; eauto.
      + exact (CF _ _ L).
    - inversion H; subst; splits; auto using good_refl; [intros _ _ _; apply same_refl | lia].
  Qed.
End Frames.

Lemma run_ok progs fuel : rec_ok progs (run progs fuel).
Proof.
  induction fuel as [|f IH]; intros cx c s o l s' W H; cbn [run] in H.
  - inversion H; subst; splits; auto using good_refl; [intros _ _ _; apply same_refl | lia].
  - eapply run_code_ok; eauto.
Qed.
