(* C12 proofs, part 2: call frames. A frame that fails is a no-op on the data, the journal and the revision
   stack; a static frame does not touch data or journal at all; only the logs of the current transaction
   hash can change. By induction on the fuel of the interpreter, for every program table. *)
From Coq Require Import List NArith Arith Bool Lia.
From V.C12 Require Import Model Proofs.
Import ListNotations.
Local Open Scope N_scope.

Definition is_fail (o : outcome) : bool := match o with ORevert | OErr _ => true | _ => false end.

Record good (s s' : state) : Prop := mkGood { g_ext : ext s s'; g_lo : lo s s'; g_wf : wf s' }.

Definition same (s s' : state) : Prop := dat s' = dat s /\ journal s' = journal s.

Lemma good_refl s : wf s -> good s s.
Proof. intros; constructor; auto using ext_refl, lo_refl. Qed.

Lemma good_trans s1 s2 s3 : good s1 s2 -> good s2 s3 -> good s1 s3.
Proof.
  intros [E1 L1 W1] [E2 L2 W2]. constructor; auto.
  - eapply ext_trans; eauto.
  - apply (lo_trans s1 s2 s3); auto. apply ext_thash; auto.
Qed.

Lemma good_push p s : prim_ok p -> keeps_logs (thash s) p -> wf s -> good s (push p s).
Proof. intros; constructor; auto using push_ext, push_lo, push_wf. Qed.

Lemma good_snapshot s : wf s -> good s (snd (snapshot s)).
Proof. intros; constructor; auto using snapshot_ext, snapshot_wf. intros h _; reflexivity. Qed.

Lemma good_noop s s' : noop s s' -> wf s -> good s s'.
Proof. intros; constructor; eauto using noop_ext, noop_lo, noop_wf. Qed.

Lemma same_refl s : same s s.
Proof. split; auto. Qed.

Lemma same_trans s1 s2 s3 : same s1 s2 -> same s2 s3 -> same s1 s3.
Proof. intros [] []; split; congruence. Qed.

Lemma same_snapshot s : same s (snd (snapshot s)).
Proof. split; auto. Qed.

(* a primitive that appends nothing and returns its argument *)
Lemma push_id p s : p (dat s) = ([], dat s) -> same s (push p s).
Proof. intros H. unfold push. rewrite H. split; auto. Qed.

Lemma transfer_zero a b d : transfer a b 0 d = ([], d).
Proof.
  unfold transfer, seqp, sub_balance, add_balance. cbn.
  destruct (bal d a <? 0); reflexivity.
Qed.

Lemma add_balance_zero a d : add_balance a 0 d = ([], d).
Proof. reflexivity. Qed.

(* revert from a state whose journal is the one of the snapshot: data untouched *)
Lemma revert_same s s4 s5 :
  ext (snd (snapshot s)) s4 -> same s s4 -> revert (fst (snapshot s)) s4 = Some s5 -> same s s5.
Proof.
  intros (es & rs & J & R & F & N & D & T & I) [HD HJ]. cbn in *.
  unfold revert. rewrite R.
  rewrite find_rev_skip by (eapply Forall_impl; [|exact F]; cbn; intros; lia).
  intros H; inversion H; subst; clear H. cbn.
  rewrite HJ, Nat.sub_diag. cbn. split; auto.
Qed.

Lemma with_oracle_good s orc : wf s -> good s (with_oracle s orc).
Proof.
  intros W. apply good_noop; auto. unfold noop; cbn. splits; auto; try lia. apply deq_refl.
Qed.

Lemma with_oracle_same s orc : same s (with_oracle s orc).
Proof. split; auto. Qed.

Lemma pop_oracle_good s x s' : wf s -> pop_oracle s = (x, s') -> good s s' /\ same s s'.
Proof.
  unfold pop_oracle. intros W H. destruct (oracle s); inversion H; subst.
  - split; auto using good_refl, same_refl.
  - split; auto using with_oracle_good, with_oracle_same.
Qed.

(* no program of the table uses STAKE / UNSTAKE / UNSTAKEALL / AUTHCALL *)
Definition custom_free (progs : list prog) : Prop :=
  forall c p, lookup progs c = Some p -> forallb (fun a => negb (is_custom a)) (acts p) = true.

(* the precompiled contracts' accounts exist (evm.Call creates the account of an absent precompile, also in a static frame) *)
Definition pc_exist (d : data) : Prop := forall a ok, precompile a = Some ok -> exists_of d a = true.

(* what a static frame guarantees, under the two guards *)
Definition static_same (progs : list prog) (st : bool) (s s' : state) : Prop :=
  st = true -> custom_free progs -> pc_exist (dat s) -> same s s'.

Lemma pc_exist_same s s' : same s s' -> pc_exist (dat s) -> pc_exist (dat s').
Proof. intros [D _] H. rewrite D. exact H. Qed.

Section Frames.
  Variable progs : list prog.
  Variable rec : ctx -> N -> state -> rres.

  Definition rec_ok : Prop :=
    forall cx c s o l s', wf s -> rec cx c s = (o, l, s') ->
      good s s' /\ static_same progs (static cx) s s'.

  Hypothesis Hrec : rec_ok.

  (* the epilogue of every call kind *)
  Lemma finish_call_ok s keep r o l s' :
    wf s ->
    (let '(_, _, s4) := r in good (snd (snapshot s)) s4) ->
    finish_call (fst (snapshot s)) keep r = (o, l, s') ->
    good s s' /\ (is_fail o = true -> noop s s') /\
    ((let '(_, _, s4) := r in same s s4) -> same s s').
  Proof.
    intros W G H. destruct r as [[o4 l4] s4].
    pose proof (good_trans _ _ _ (good_snapshot s W) G) as G04.
    unfold finish_call in H.
    destruct o4;
      try (inversion H; subst; splits; auto; cbn; discriminate);
      destruct (revert_restores s s4 (g_ext _ _ G)) as (s5 & R5 & N5 & _);
      rewrite R5 in H; inversion H; subst; splits; auto using good_noop;
      intros S; eapply revert_same; eauto; apply G.
  Qed.

  Lemma run_target_ok cx' a s o l s' :
    wf s -> run_target rec cx' a s = (o, l, s') ->
    good s s' /\ static_same progs (static cx') s s'.
  Proof.
    intros W H. unfold run_target in H. destruct (precompile a).
    - destruct (pop_oracle s) as [f s1] eqn:P. inversion H; subst.
      destruct (pop_oracle_good _ _ _ W P); split; auto. intros _ _ _; auto.
    - eapply Hrec; eauto.
  Qed.

  (* run the target after the Snapshot taken at s, then the epilogue *)
  Lemma enter_ok s s3 keep cx' a o l s' :
    wf s -> good (snd (snapshot s)) s3 ->
    finish_call (fst (snapshot s)) keep (run_target rec cx' a s3) = (o, l, s') ->
    good s s' /\ (is_fail o = true -> noop s s') /\
    (static cx' = true -> custom_free progs -> pc_exist (dat s) -> same s s3 -> same s s').
  Proof.
    intros W G3 H.
    destruct (run_target rec cx' a s3) as [[o4 l4] s4] eqn:R.
    destruct (run_target_ok _ _ _ _ _ _ (g_wf _ _ G3) R) as [G4 S4].
    destruct (finish_call_ok s keep (o4, l4, s4) o l s' W (good_trans _ _ _ G3 G4) H) as (A & B & C).
    splits; auto. intros St CF PE S3. apply C. eapply same_trans; [exact S3|].
    apply S4; auto. eapply pc_exist_same; eauto.
  Qed.

  (* evm.Call / evm.AuthCall from the Snapshot on; s is the state before the Snapshot *)
  Lemma call_body_ok cx payer target value s o l s' :
    wf s -> call_body rec cx (fst (snapshot s)) payer target value (snd (snapshot s)) = (o, l, s') ->
    good s s' /\ (is_fail o = true -> noop s s') /\
    (static cx = true -> custom_free progs -> pc_exist (dat s) -> value = 0 -> same s s').
  Proof.
    intros W H. unfold call_body in H. cbv zeta in H.
    set (s1 := snd (snapshot s)) in *.
    assert (G1 : good s s1) by (apply good_snapshot; auto).
    assert (GO : forall s2, good s1 s2 ->
              forall o l s',
              (match precompile target with
               | Some _ => finish_call (fst (snapshot s)) true
                             (run_target rec (mkCtx target (static cx) (depth cx + 1) (origin cx)) target (push (transfer payer target value) s2))
               | None =>
                   if code_of (dat (push (transfer payer target value) s2)) target =? 0
                   then (OOk, [], push (transfer payer target value) s2)
                   else finish_call (fst (snapshot s)) true
                          (run_target rec (mkCtx target (static cx) (depth cx + 1) (origin cx)) target (push (transfer payer target value) s2))
               end) = (o, l, s') ->
              good s s' /\ (is_fail o = true -> noop s s') /\
              (static cx = true -> custom_free progs -> pc_exist (dat s) -> value = 0 -> same s s2 -> same s s')).
    { intros s2 G2 o0 l0 s0 H0.
      set (s3 := push (transfer payer target value) s2) in *.
      assert (G3 : good s1 s3).
      { eapply good_trans; [exact G2|]. apply good_push; auto using transfer_ok, kl_transfer. apply G2. }
      assert (S3 : value = 0 -> same s s2 -> same s s3).
      { intros V X. eapply same_trans; [exact X|]. subst value. apply push_id. apply transfer_zero. }
      destruct (precompile target).
      - destruct (enter_ok _ _ _ _ _ _ _ _ W G3 H0) as (A & B & C). splits; auto.
      - destruct (code_of (dat s3) target =? 0).
        + inversion H0; subst. splits.
          * eapply good_trans; eauto.
          * cbn; discriminate.
          * intros _ _ _ V X. apply S3; auto.
        + destruct (enter_ok _ _ _ _ _ _ _ _ W G3 H0) as (A & B & C). splits; auto. }
    destruct (exists_of (dat s1) target) eqn:EX.
    - destruct (GO s1 (good_refl _ (g_wf _ _ G1)) _ _ _ H) as (A & B & C). splits; auto.
      intros St CF PE V. apply C; auto. apply same_snapshot.
    - destruct (precompile target) eqn:PC.
      + assert (G2 : good s1 (push (get_or_new target) s1))
          by (apply good_push; auto using get_or_new_ok, kl_get_or_new; apply G1).
        pose proof (GO _ G2 o l s') as X. destruct (X H) as (A & B & C). splits; auto.
        intros St CF PE V. specialize (PE _ _ PC). change (dat s1) with (dat s) in EX. congruence.
      + destruct (value =? 0) eqn:V0.
        * inversion H; subst. splits; auto. cbn; discriminate. intros; apply same_snapshot.
        * assert (G2 : good s1 (push (get_or_new target) s1))
            by (apply good_push; auto using get_or_new_ok, kl_get_or_new; apply G1).
          pose proof (GO _ G2 o l s') as X. destruct (X H) as (A & B & C). splits; auto.
          intros St CF PE V. subst value. discriminate.
  Qed.

  Lemma do_call_ok cx kind target value s o l s' :
    wf s -> do_call rec cx kind target value s = (o, l, s') ->
    good s s' /\ (is_fail o = true -> noop s s') /\
    (static cx = true -> custom_free progs -> pc_exist (dat s) -> (kind = KCall -> value = 0) -> same s s').
  Proof.
    intros W H. unfold do_call in H.
    destruct (max_depth <? depth cx).
    { inversion H; subst. splits; auto using good_refl, noop_refl, same_refl. }
    destruct kind.
    - destruct (negb (value =? 0) && (bal (dat s) (self cx) <? value)).
      { inversion H; subst. splits; auto using good_refl, noop_refl, same_refl. }
      destruct (call_body_ok _ _ _ _ _ _ _ _ W H) as (A & B & C). splits; auto.
    - destruct (bal (dat s) (self cx) <? value).
      { inversion H; subst. splits; auto using good_refl, noop_refl, same_refl. }
      cbv zeta in H.
      destruct (enter_ok _ _ _ _ _ _ _ _ W (good_refl _ (snapshot_wf _ W)) H) as (A & B & C).
      splits; auto. intros St CF PE _. apply C; auto. apply same_snapshot.
    - cbv zeta in H.
      destruct (enter_ok _ _ _ _ _ _ _ _ W (good_refl _ (snapshot_wf _ W)) H) as (A & B & C).
      splits; auto. intros St CF PE _. apply C; auto. apply same_snapshot.
    - cbv zeta in H.
      set (s1 := snd (snapshot s)) in *.
      assert (G2 : good s1 (push (add_balance target 0) s1))
        by (apply good_push; auto using add_balance_ok, kl_add_balance; apply snapshot_wf; auto).
      destruct (enter_ok _ _ _ _ _ _ _ _ W G2 H) as (A & B & C).
      splits; auto. intros _ CF PE _. apply C; auto.
      eapply same_trans; [apply same_snapshot|]. apply push_id. apply add_balance_zero.
  Qed.

  (* a STATICCALL leaves data and journal untouched whatever the callee does and however it ends *)
  Lemma static_call_same cx target value s o l s' :
    wf s -> custom_free progs -> pc_exist (dat s) ->
    do_call rec cx KStatic target value s = (o, l, s') -> same s s'.
  Proof.
    intros W CF PE H. unfold do_call in H.
    destruct (max_depth <? depth cx). { inversion H; subst; apply same_refl. }
    cbv zeta in H. set (s1 := snd (snapshot s)) in *.
    assert (G2 : good s1 (push (add_balance target 0) s1))
      by (apply good_push; auto using add_balance_ok, kl_add_balance; apply snapshot_wf; auto).
    destruct (enter_ok _ _ _ _ _ _ _ _ W G2 H) as (A & B & C).
    apply C; auto.
    eapply same_trans; [apply same_snapshot|]. apply push_id. apply add_balance_zero.
  Qed.

  (* evm.AuthCall: a failed frame leaves exactly the authority's nonce bump *)
  Definition authcall_pre (authority : addr) (s : state) : state :=
    push (set_nonce authority (wrap64 (nonce_of (dat s) authority + 1))) s.

  Lemma do_authcall_ok cx authority target value s o l s' :
    wf s -> do_authcall rec cx authority target value s = (o, l, s') ->
    good s s' /\ (is_fail o = true -> noop s s' \/ noop (authcall_pre authority s) s').
  Proof.
    intros W H. unfold do_authcall in H.
    destruct (max_depth <? depth cx). { inversion H; subst. split; auto using good_refl, noop_refl. }
    destruct (negb (value =? 0) && (bal (dat s) (origin cx) <? value)).
    { inversion H; subst. split; auto using good_refl, noop_refl. }
    cbv zeta in H. fold (authcall_pre authority s) in H.
    assert (G0 : good s (authcall_pre authority s)) by (apply good_push; auto using set_nonce_ok, kl_set_nonce).
    destruct (call_body_ok _ _ _ _ _ _ _ _ (g_wf _ _ G0) H) as (A & B & _).
    split; [eapply good_trans; eauto | auto].
  Qed.

  (* the state a failed creation is compared with: the effects evm.create performs before its Snapshot *)
  Definition create_pre (cx : ctx) (address : addr) (orc : list addr) (s : state) : state :=
    let s0 := with_oracle s orc in
    push (acl_add address) (push (set_nonce (self cx) (wrap64 (nonce_of (dat s0) (self cx) + 1))) s0).

  (* the state after a creation whose code deposit could not be paid: NOT the state before it *)
  Lemma do_create_ok cx value init s o l s' :
    wf s -> do_create progs rec cx value init s = (o, l, s') ->
    good s s' /\
    (is_fail o = true ->
       noop s s' \/ exists address orc, oracle s = address :: orc /\ noop (create_pre cx address orc s) s').
  Proof.
    intros W H. unfold do_create in H.
    destruct (max_depth <? depth cx). { inversion H; subst. split; auto using good_refl, noop_refl. }
    destruct (bal (dat s) (self cx) <? value). { inversion H; subst. split; auto using good_refl, noop_refl. }
    destruct (oracle s) as [|address orc] eqn:O. { inversion H; subst. split; auto using good_refl. cbn; discriminate. }
    cbv zeta in H.
    set (s0 := with_oracle s orc) in *.
    set (s1 := push (set_nonce (self cx) (wrap64 (nonce_of (dat s0) (self cx) + 1))) s0) in *.
    set (s2 := push (acl_add address) s1) in *.
    assert (G0 : good s s0) by (apply with_oracle_good; auto).
    assert (G1 : good s0 s1) by (apply good_push; auto using set_nonce_ok, kl_set_nonce; apply G0).
    assert (G2 : good s1 s2) by (apply good_push; auto using acl_add_ok, kl_acl_add; apply G1).
    assert (G02 : good s s2) by (eauto using good_trans).
    assert (P2 : s2 = create_pre cx address orc s) by reflexivity.
    destruct (negb (nonce_of (dat s2) address =? 0) || negb (code_of (dat s2) address =? 0)).
    { inversion H; subst. split; auto. intros _. right. exists address, orc. split; auto. rewrite <- P2. apply noop_refl. }
    set (s3 := snd (snapshot s2)) in *.
    set (s4 := push (get_or_new address) s3) in *.
    set (s5 := push (set_nonce address 1) s4) in *.
    set (s6 := push (transfer (self cx) address value) s5) in *.
    assert (G3 : good s2 s3) by (apply good_snapshot; apply G02).
    assert (G4 : good s3 s4) by (apply good_push; auto using get_or_new_ok, kl_get_or_new; apply G3).
    assert (G5 : good s4 s5) by (apply good_push; auto using set_nonce_ok, kl_set_nonce; apply G4).
    assert (G6 : good s5 s6) by (apply good_push; auto using transfer_ok, kl_transfer; apply G5).
    assert (G36 : good s3 s6) by (eauto using good_trans).
    destruct (rec (mkCtx address (static cx) (depth cx + 1) (origin cx)) init s6) as [[o7 l7] s7] eqn:R.
    destruct (Hrec _ _ _ _ _ _ (g_wf _ _ G6) R) as [G7 _].
    assert (G37 : good s3 s7) by (eauto using good_trans).
    assert (FC : forall o7', finish_call (fst (snapshot s2)) true (o7', l7, s7) = (o, l, s') ->
                 good s s' /\ (is_fail o = true -> noop s s' \/
                   exists address0 orc0, address :: orc = address0 :: orc0 /\ noop (create_pre cx address0 orc0 s) s')).
    { intros o7' HF.
      destruct (finish_call_ok s2 true (o7', l7, s7) o l s' (g_wf _ _ G02) G37 HF) as (A & B & _).
      split; [eapply good_trans; eauto|]. intros F. right. exists address, orc. split; auto. }
    destruct o7; try (apply FC in H; exact H).
    destruct (ret_big (lookup progs init)); [apply FC in H; exact H|].
    destruct (hd 0 (oracle s6) =? 1000).
    - inversion H; subst. split; [|cbn; discriminate].
      eapply good_trans; [exact G02|]. eapply good_trans; [exact G3|]. exact G37.
    - inversion H; subst. split; [|cbn; discriminate].
      eapply good_trans; [exact G02|]. eapply good_trans; [exact G3|]. eapply good_trans; [exact G37|].
      apply good_push; auto using set_code_ok, kl_set_code. apply G37.
  Qed.

  Lemma do_selfdestruct_good cx b s : wf s -> good s (do_selfdestruct cx b s).
  Proof.
    intros W. unfold do_selfdestruct.
    set (s1 := if suicided_of (dat s) (self cx) then s else push (add_refund 24000) s).
    assert (G1 : good s s1).
    { unfold s1. destruct (suicided_of (dat s) (self cx)); [apply good_refl; auto|].
      apply good_push; auto using add_refund_ok, kl_add_refund. }
    set (s2 := push (add_balance b (bal (dat s1) (self cx))) s1).
    assert (G2 : good s1 s2) by (apply good_push; auto using add_balance_ok, kl_add_balance; apply G1).
    eapply good_trans; [exact G1|]. eapply good_trans; [exact G2|].
    apply good_push; auto using suicide_ok, kl_suicide. apply G2.
  Qed.

  (* the custom opcodes change the state through journalled primitives only *)
  Lemma good_set_state a k v s : wf s -> good s (push (set_state a k v) s).
  Proof. intros; apply good_push; auto using set_state_ok, kl_set_state. Qed.

  Lemma do_stake_good cx t s : wf s -> good s (do_stake cx t s).
  Proof.
    intros W. unfold do_stake.
    destruct (reg_status (dat s) (self cx) =? 0); [apply good_refl; auto|].
    destruct (t =? 0); [apply good_refl; auto|].
    destruct (bal (dat s) (self cx) <? t * unit18); [apply good_refl; auto|].
    cbv zeta.
    set (s1 := push (sub_balance (self cx) (t * unit18)) s).
    assert (G1 : good s s1) by (apply good_push; auto using sub_balance_ok, kl_sub_balance).
    eapply good_trans; [exact G1|].
    eapply good_trans; [apply good_set_state; apply G1|].
    apply good_set_state. apply good_set_state. apply G1.
  Qed.

  Lemma take_stake_good a m s : wf s -> good s (take_stake a m s).
  Proof.
    intros W. unfold take_stake. cbv zeta.
    destruct (reg_stake (dat s) a - m <? min_stake).
    - eapply good_trans; [apply good_set_state; auto|]. apply good_set_state. apply good_set_state; auto.
    - apply good_set_state; auto.
  Qed.

  Lemma escrow_add_good who v s : wf s -> good s (escrow_add who v s).
  Proof. intros; apply good_set_state; auto. Qed.

  Lemma do_unstake_good cx t s : wf s -> good s (do_unstake cx t s).
  Proof.
    intros W. unfold do_unstake.
    destruct (reg_status (dat s) (self cx) =? 0); [apply good_refl; auto|].
    destruct (reg_stake (dat s) (self cx) <? t); [apply good_refl; auto|].
    eapply good_trans; [apply take_stake_good; auto|]. apply escrow_add_good. apply take_stake_good; auto.
  Qed.

  Lemma do_unstakeall_good cx s s' : wf s -> do_unstakeall cx s = Some s' -> good s s'.
  Proof.
    intros W. unfold do_unstakeall.
    destruct (reg_status (dat s) (self cx) =? 0); [discriminate|].
    intros H; inversion H; subst.
    eapply good_trans; [apply take_stake_good; auto|]. apply escrow_add_good. apply take_stake_good; auto.
  Qed.

  Lemma finish_ok cx f clogs s o l s' :
    wf s -> finish cx f clogs s = (o, l, s') -> good s s' /\ (static cx = true -> same s s').
  Proof.
    intros W H. unfold finish in H.
    destruct (static cx && fin_writes f) eqn:E.
    { inversion H; subst. split; auto using good_refl, same_refl. }
    destruct f; inversion H; subst; try (split; auto using good_refl, same_refl).
    - apply do_selfdestruct_good; auto.
    - intros St. rewrite St in E. cbn in E. discriminate.
  Qed.

  Definition nocustom (l : list action) : Prop := forallb (fun a => negb (is_custom a)) l = true.

  (* static clause of a run over the action list l *)
  Definition sclause (cx : ctx) (l : list action) (s s' : state) : Prop :=
    static cx = true -> custom_free progs -> pc_exist (dat s) -> nocustom l -> same s s'.

  Lemma sclause_die cx l s : sclause cx l s s.
  Proof. intros _ _ _ _; apply same_refl. Qed.

  Lemma after_sub_ok cx rest r (k : list log -> state -> rres) clogs s o lg s' :
    (let '(_, _, s1) := r in good s s1 /\ (static cx = true -> custom_free progs -> pc_exist (dat s) -> same s s1)) ->
    (forall cl s1 o lg s', wf s1 -> k cl s1 = (o, lg, s') -> good s1 s' /\ sclause cx rest s1 s') ->
    after_sub r k clogs = (o, lg, s') ->
    good s s' /\ (static cx = true -> custom_free progs -> pc_exist (dat s) -> nocustom rest -> same s s').
  Proof.
    intros R K H. destruct r as [[o1 l1] s1]. destruct R as [G1 S1]. unfold after_sub in H.
    assert (X : k (clogs ++ l1) s1 = (o, lg, s') ->
                good s s' /\ (static cx = true -> custom_free progs -> pc_exist (dat s) -> nocustom rest -> same s s')).
    { intros HK. destruct (K _ _ _ _ _ (g_wf _ _ G1) HK) as [G S].
      split; [eapply good_trans; eauto|]. intros St CF PE NC.
      eapply same_trans; [apply S1; auto|]. apply S; auto. eapply pc_exist_same; eauto. }
    destruct o1; auto; inversion H; subst; split; auto; intros St CF PE NC; apply S1; auto.
  Qed.

  Lemma nocustom_cons a rest : nocustom (a :: rest) -> is_custom a = false /\ nocustom rest.
  Proof. unfold nocustom. cbn. intros H. apply andb_true_iff in H. destruct H as [A B]. split; auto. destruct (is_custom a); auto; discriminate. Qed.

  Lemma run_acts_ok cx f : forall l lc clogs s o lg s',
    wf s -> run_acts progs rec cx lc l f clogs s = (o, lg, s') ->
    good s s' /\ sclause cx l s s'.
  Proof.
    induction l as [|a rest IH]; intros lc clogs s o lg s' W H; cbn [run_acts] in H.
    { destruct (l_fate lc) as [[|k]|].
      - inversion H; subst. split; auto using good_refl, sclause_die.
      - destruct (finish_ok _ _ _ _ _ _ _ W H); split; auto. intros St _ _ _; auto.
      - destruct (finish_ok _ _ _ _ _ _ _ W H); split; auto. intros St _ _ _; auto. }
    assert (MAIN : forall lc0,
      (if static cx && refused_static a
       then (OErr err_write_protection, [], s)
       else match a with
        | ASstore k v => run_acts progs rec cx lc0 rest f clogs (push (set_state (self cx) k v) s)
        | ALog t =>
            run_acts progs rec cx lc0 rest f (clogs ++ [mkLog (self cx) t (thash s) (txindex s) (logsize (dat s))])
              (push (add_log (thash s) (mkLog (self cx) t (thash s) (txindex s) (logsize (dat s)))) s)
        | ALogT k =>
            run_acts progs rec cx lc0 rest f (clogs ++ [mkLog (self cx) (tstor (dat s) (self cx) k) (thash s) (txindex s) (logsize (dat s))])
              (push (add_log (thash s) (mkLog (self cx) (tstor (dat s) (self cx) k) (thash s) (txindex s) (logsize (dat s)))) s)
        | ATstore k v =>
            if static cx then (OErr err_write_protection, [], s)
            else run_acts progs rec cx lc0 rest f clogs (push (set_transient (self cx) k v) s)
        | ACall kind target value =>
            after_sub (do_call rec cx kind target value s) (run_acts progs rec cx lc0 rest f) clogs
        | ACallCreated kind value =>
            after_sub (do_call rec cx kind (l_created lc0) value s) (run_acts progs rec cx lc0 rest f) clogs
        | ACreate value init =>
            let '(o, lg, s') := do_create progs rec cx value init s in
            let created := match o with
                           | OOk => match oracle s with x :: _ => x | [] => 0 end
                           | _ => 0
                           end in
            after_sub (o, lg, s') (run_acts progs rec cx (mkLoc created (l_auth lc0) (l_fate lc0)) rest f) clogs
        | AStake t => run_acts progs rec cx lc0 rest f clogs (do_stake cx t s)
        | AUnstake t => run_acts progs rec cx lc0 rest f clogs (do_unstake cx t s)
        | AUnstakeAll =>
            match do_unstakeall cx s with
            | Some s' => run_acts progs rec cx lc0 rest f clogs s'
            | None => (OErr err_custom, [], s)
            end
        | AAuth inv authority =>
            run_acts progs rec cx (mkLoc (l_created lc0) (if self cx =? inv then Some authority else None) (l_fate lc0)) rest f clogs s
        | AAuthCall n target value =>
            match l_auth lc0 with
            | None => run_acts progs rec cx lc0 rest f clogs (push (acl_add target) s)
            | Some authority =>
                if nonce_of (dat (push (acl_add target) s)) authority =? n
                then after_sub (do_authcall rec cx authority target value (push (acl_add target) s)) (run_acts progs rec cx lc0 rest f) clogs
                else run_acts progs rec cx lc0 rest f clogs (push (acl_add target) s)
            end
        end) = (o, lg, s') -> good s s' /\ sclause cx (a :: rest) s s').
    { intros lc0 H0.
      destruct (static cx && refused_static a) eqn:E.
      { inversion H0; subst. split; auto using good_refl, sclause_die. }
      assert (STEP : forall lc' cl s1, good s s1 ->
                (static cx = true -> custom_free progs -> pc_exist (dat s) -> is_custom a = false -> same s s1) ->
                run_acts progs rec cx lc' rest f cl s1 = (o, lg, s') ->
                good s s' /\ sclause cx (a :: rest) s s').
      { intros lc' cl s1 G1 S1 HR.
        destruct (IH _ _ _ _ _ _ (g_wf _ _ G1) HR) as [G S].
        split; [eapply good_trans; eauto|].
        intros St CF PE NC. destruct (nocustom_cons _ _ NC) as [NA NR].
        eapply same_trans; [apply S1; auto|]. apply S; auto. eapply pc_exist_same; eauto. }
      assert (SUB : forall lc' r, (let '(_, _, s1) := r in good s s1 /\ (static cx = true -> custom_free progs -> pc_exist (dat s) -> is_custom a = false -> same s s1)) ->
                after_sub r (run_acts progs rec cx lc' rest f) clogs = (o, lg, s') ->
                good s s' /\ sclause cx (a :: rest) s s').
      { intros lc' r R HA. destruct r as [[o1 l1] s1]. destruct R as [G1 S1].
        unfold after_sub in HA.
        assert (X : forall cl, run_acts progs rec cx lc' rest f cl s1 = (o, lg, s') -> good s s' /\ sclause cx (a :: rest) s s')
          by (intros cl HR; eapply STEP; eauto).
        destruct o1; eauto; inversion HA; subst; split; auto; intros St CF PE NC;
          destruct (nocustom_cons _ _ NC) as [NA NR]; apply S1; auto. }
      assert (NST : writes_flag a = true -> static cx = false).
      { intros Wf. destruct (static cx); auto. cbn in E. unfold refused_static in E. rewrite Wf in E. discriminate. }
      destruct a.
      - eapply STEP; [apply good_set_state; auto | intros St; rewrite NST in St by reflexivity; discriminate | exact H0].
      - eapply STEP; [apply good_push; auto using add_log_ok, kl_add_log | intros St; rewrite NST in St by reflexivity; discriminate | exact H0].
      - eapply STEP; [apply good_push; auto using add_log_ok, kl_add_log | intros St; rewrite NST in St by reflexivity; discriminate | exact H0].
      - destruct (static cx) eqn:St.
        + inversion H0; subst; split; auto using good_refl, sclause_die.
        + eapply STEP; [apply good_push; auto using set_transient_ok, kl_set_transient | intros X; discriminate | exact H0].
      - destruct (do_call rec cx kind target value s) as [[o1 l1] s1] eqn:C.
        destruct (do_call_ok _ _ _ _ _ _ _ _ W C) as (G1 & _ & S1).
        eapply SUB; [|exact H0]. split; auto. intros St CF PE _. apply S1; auto.
        intros K; subst kind. rewrite St in E. cbn in E.
        destruct (value =? 0) eqn:V; [apply N.eqb_eq in V; auto | cbn in E; discriminate].
      - destruct (do_create progs rec cx value init s) as [[o1 l1] s1] eqn:C.
        destruct (do_create_ok _ _ _ _ _ _ _ W C) as (G1 & _).
        eapply SUB; [|exact H0]. split; auto. intros St; rewrite NST in St by reflexivity; discriminate.
      - destruct (do_call rec cx kind (l_created lc0) value s) as [[o1 l1] s1] eqn:C.
        destruct (do_call_ok _ _ _ _ _ _ _ _ W C) as (G1 & _ & S1).
        eapply SUB; [|exact H0]. split; auto. intros St CF PE _. apply S1; auto.
        intros K; subst kind. rewrite St in E. cbn in E.
        destruct (value =? 0) eqn:V; [apply N.eqb_eq in V; auto | cbn in E; discriminate].
      - eapply STEP; [apply do_stake_good; auto | intros _ _ _ X; discriminate | exact H0].
      - eapply STEP; [apply do_unstake_good; auto | intros _ _ _ X; discriminate | exact H0].
      - destruct (do_unstakeall cx s) as [s1|] eqn:U.
        + eapply STEP; [eapply do_unstakeall_good; eauto | intros _ _ _ X; discriminate | exact H0].
        + inversion H0; subst; split; auto using good_refl, sclause_die.
      - eapply STEP; [apply good_refl; auto | intros; apply same_refl | exact H0].
      - assert (G0 : good s (push (acl_add target) s)) by (apply good_push; auto using acl_add_ok, kl_acl_add).
        destruct (l_auth lc0) as [authority|].
        + destruct (nonce_of (dat (push (acl_add target) s)) authority =? n).
          * destruct (do_authcall rec cx authority target value (push (acl_add target) s)) as [[o1 l1] s1] eqn:C.
            destruct (do_authcall_ok _ _ _ _ _ _ _ _ (g_wf _ _ G0) C) as (G1 & _).
            eapply SUB; [|exact H0]. split; [eapply good_trans; eauto | intros _ _ _ X; discriminate].
          * eapply STEP; [exact G0 | intros _ _ _ X; discriminate | exact H0].
        + eapply STEP; [exact G0 | intros _ _ _ X; discriminate | exact H0]. }
    destruct (l_fate lc) as [[|k0]|] eqn:FATE.
    - inversion H; subst. split; auto using good_refl, sclause_die.
    - cbv zeta in H. eapply MAIN; exact H.
    - cbv zeta in H. eapply MAIN; exact H.
  Qed.

  Lemma run_code_ok cx c s o l s' :
    wf s -> run_code progs rec cx c s = (o, l, s') -> good s s' /\ static_same progs (static cx) s s'.
  Proof.
    unfold run_code. intros W H. destruct (lookup progs c) as [p|] eqn:L.
    - destruct (pop_oracle s) as [x s1] eqn:P.
      destruct (pop_oracle_good _ _ _ W P) as [G1 S1].
      destruct (run_acts_ok cx (fin p) _ _ _ _ _ _ _ (g_wf _ _ G1) H) as [G S].
      split; [eapply good_trans; eauto|]. intros St CF PE. eapply same_trans; [exact S1|]. apply S; auto.
      + eapply pc_exist_same; eauto.
      + exact (CF _ _ L).
    - inversion H; subst; split; auto using good_refl. intros _ _ _; apply same_refl.
  Qed.
End Frames.

Lemma run_ok progs fuel : rec_ok progs (run progs fuel).
Proof.
  induction fuel as [|f IH]; intros cx c s o l s' W H; cbn [run] in H.
  - inversion H; subst; split; auto using good_refl. intros _ _ _; apply same_refl.
  - eapply run_code_ok; eauto.
Qed.
