(* C12 — property theorems only (statements + [exact]); proofs in Proofs.v (journal), Frames.v (frames), Top.v. *)
From Coq Require Import List NArith Bool.
From V.C12 Require Import Model Proofs Frames Top Table Harness.
Import ListNotations.
Local Open Scope N_scope.

(* A CALL / CALLCODE / DELEGATECALL / STATICCALL frame that fails (REVERT, INVALID, write protection, out of gas
   after any number of its actions - the oracle list in the state is arbitrary -, depth limit, insufficient
   balance, a failing precompile, an error of a custom opcode; at any depth, with any program table, whatever its
   own sub-frames and the custom opcodes STAKE / UNSTAKE / UNSTAKEALL / AUTHCALL in it did) leaves every query - existence, nonce, code, suicided
   flag, balance, storage, transient storage, access list, refund, the log list of every hash - and the
   journal and revision stack exactly as they were when the frame was entered. *)
Theorem C12_failed_call_noop : forall progs fuel cx kind target value s o l s',
  wf s -> do_call (run progs fuel) cx kind target value s = (o, l, s') -> is_fail o = true -> untouched s s'.
Proof. exact failed_call_noop. Qed.
Print Assumptions C12_failed_call_noop.

(* A failed CREATE / CREATE2 leaves exactly what evm.create does before its Snapshot: the creator's nonce
   bump and the new address in the access list (or nothing, when the depth / balance test refused it). *)
Theorem C12_failed_create_noop : forall progs fuel cx value init s o l s',
  wf s -> do_create progs (run progs fuel) cx value init s = (o, l, s') -> is_fail o = true ->
  untouched s s' \/
  exists address orc, oracle s = address :: orc /\ untouched (create_pre cx address orc s) s'.
Proof. exact failed_create_noop. Qed.
Print Assumptions C12_failed_create_noop.

(* Nothing executed inside a STATICCALL, at any nesting depth and however it ends (out of gas anywhere included),
   changes the data or appends a journal entry - under the two guards that exclude the listed defects: no program
   of the table uses STAKE / UNSTAKE / UNSTAKEALL / AUTHCALL (custom_free), and the accounts of the precompiled
   contracts exist (pc_exist: evm.Call creates the account of an absent precompile even in a static frame).
   Without the guards the statement is false for the code as it is: C12_static_*_refuted below. *)
Theorem C12_static_call_pure : forall progs fuel cx target value s o l s',
  wf s -> custom_free progs -> pc_exist (dat s) ->
  do_call (run progs fuel) cx KStatic target value s = (o, l, s') ->
  dat s' = dat s /\ journal s' = journal s.
Proof. exact static_call_pure. Qed.
Print Assumptions C12_static_call_pure.

Theorem C12_static_frame_pure : forall progs fuel cx c s o l s',
  wf s -> custom_free progs -> pc_exist (dat s) -> static cx = true ->
  run progs fuel cx c s = (o, l, s') -> dat s' = dat s /\ journal s' = journal s.
Proof. exact static_frame_pure. Qed.
Print Assumptions C12_static_frame_pure.

Theorem C12_static_stake_refuted :
  let '(o, l, s1) := exec_tx progsS 5 (mkTx 1 0 1 (TCall 11 0) []) s0 in
  o = OOk /\ reg_stake (dat s1) 12 = 802 /\ bal (dat s1) 12 = 5 * unit18.
Proof. exact static_stake_modifies. Qed.

Theorem C12_static_authcall_refuted :
  let '(o, l, s1) := exec_tx progsA 5 (mkTx 1 0 1 (TCall 11 0) []) s0 in
  o = OOk /\ nonce_of (dat s1) 50 = 1 /\ bal (dat s1) 1 = 991 /\ bal (dat s1) 13 = 9.
Proof. exact static_authcall_modifies. Qed.

Theorem C12_static_precompile_touch_refuted :
  let '(o, l, s1) := exec_tx progsP 5 (mkTx 1 0 1 (TCall 11 0) []) s0 in
  o = OOk /\ exists_of d0 21 = false /\ exists_of (dat s1) 21 = true.
Proof. exact static_precompile_touch. Qed.

(* A failed AUTHCALL frame (evm.AuthCall) leaves exactly the authority's nonce bump, or nothing. *)
Theorem C12_failed_authcall_noop : forall progs fuel cx authority target value s o l s',
  wf s -> do_authcall (run progs fuel) cx authority target value s = (o, l, s') -> is_fail o = true ->
  untouched s s' \/ untouched (authcall_pre authority s) s'.
Proof. exact failed_authcall_noop. Qed.
Print Assumptions C12_failed_authcall_noop.

(* Creation whose code deposit cannot be paid (ErrCodeStoreOutOfGas): CREATE reports failure but evm.create does
   not revert - the account (nonce 1), the constructor's storage and the endowment stay (listed finding).
   C12_failed_create_noop covers every other failure of a creation (is_fail excludes this outcome). *)
Theorem C12_failed_create_codestore_refuted :
  let '(o, l, s1) := do_create progsD (run progsD 5) (mkCtx 11 false 1 1) 3 2 (with_oracle s0 [100; 1000]) in
  o = OCodeStore /\ exists_of (dat s1) 100 = true /\ nonce_of (dat s1) 100 = 1 /\ state_of (dat s1) 100 1 = 6 /\
  bal (dat s1) 100 = 3 /\ code_of (dat s1) 100 = 0.
Proof. exact codestore_not_reverted. Qed.

(* STAKE / UNSTAKE inside a frame that then fails: registry, escrow and balance are restored. *)
Theorem C12_reverted_stake_undone :
  let '(o, l, s1) := exec_tx progsU 5 (mkTx 1 0 1 (TCall 11 0) []) s0 in
  o = OOk /\ reg_stake (dat s1) 12 = 800 /\ reg_status (dat s1) 12 = 1 /\ bal (dat s1) 12 = 7 * unit18 /\
  state_of (dat s1) 901 1001 = 0 /\ exists_of (dat s1) 901 = false.
Proof. exact reverted_stake_undone. Qed.

(* Right after Prepare the access list and the transient storage are empty, the log list of a fresh hash is
   empty, and accounts, storage and balances are unchanged. *)
Theorem C12_tx_scratch_fresh : forall th ti s,
  (forall a, acl (dat (prepare th ti s)) a = false) /\
  (forall a k, tstor (dat (prepare th ti s)) a k = 0) /\
  (logs (dat s) th = [] -> logs (dat (prepare th ti s)) (thash (prepare th ti s)) = []) /\
  thash (prepare th ti s) = th /\ txindex (prepare th ti s) = ti /\
  (forall a, objs (dat (prepare th ti s)) a = objs (dat s) a) /\
  (forall a k, stor (dat (prepare th ti s)) a k = stor (dat s) a k) /\
  (forall a, bal (dat (prepare th ti s)) a = bal (dat s) a).
Proof. exact prepare_fresh. Qed.
Print Assumptions C12_tx_scratch_fresh.

(* A transaction changes the log list of its own hash only; a failed transaction changes none. *)
Theorem C12_receipt_logs_own : forall progs fuel t s o l s',
  wf s -> exec_tx progs fuel t s = (o, l, s') -> forall h, h <> t_hash t -> logs (dat s') h = logs (dat s) h.
Proof. exact tx_logs_own. Qed.
Print Assumptions C12_receipt_logs_own.

Theorem C12_failed_tx_keeps_no_logs : forall progs fuel target value th ti orig orc s o l s',
  wf s -> exec_tx progs fuel (mkTx th ti orig (TCall target value) orc) s = (o, l, s') -> is_fail o = true ->
  forall h, logs (dat s') h = logs (dat s) h.
Proof. exact failed_tx_logs. Qed.
Print Assumptions C12_failed_tx_keeps_no_logs.

(* Gas (the frame has an explicit budget; the cost of an action's byte code is a table entry measured on the real
   interpreter, call forwarding = min(requested, all but 1/64) + stipend, surcharges, code deposit and precompile fees
   as in the fork under test; out of gas is computed). No call tree, creation or transaction hands back more gas
   than it was given, across nested frames with real forwarding; and a frame that was entered and ended with an
   error other than REVERT hands back none. *)
Theorem C12_gas_bounded_call : forall progs fuel cx kind target value s o l s',
  wf s -> do_call (run progs fuel) cx kind target value s = (o, l, s') -> gas s' <= gas s.
Proof. exact gas_bounded_call. Qed.
Print Assumptions C12_gas_bounded_call.

Theorem C12_gas_bounded_create : forall progs fuel cx value init s o l s',
  wf s -> do_create progs (run progs fuel) cx value init s = (o, l, s') -> gas s' <= gas s.
Proof. exact gas_bounded_create. Qed.

Theorem C12_gas_bounded_tx : forall progs fuel t s o l s',
  wf s -> exec_tx progs fuel t s = (o, l, s') -> gas s' <= t_gas t.
Proof. exact gas_bounded_tx. Qed.

Theorem C12_failed_frame_consumes_gas : forall progs fuel cx payer target value s c l s',
  wf s -> call_body (run progs fuel) cx (fst (snapshot s)) payer target value (snd (snapshot s)) = (OErr c, l, s') ->
  gas s' = 0.
Proof. exact failed_frame_no_gas. Qed.
Print Assumptions C12_failed_frame_consumes_gas.

(* Block level: the log list a receipt reads (GetLogs of its hash right after its transaction) is not changed by
   any later transaction with a different hash executed on the same state object; and well-formedness of the
   revision stack (hypothesis of the theorems above) holds for a fresh state and is kept by every transaction. *)
Theorem C12_later_txs_keep_logs : forall progs fuel ts s h,
  wf s -> (forall t, In t ts -> t_hash t <> h) -> logs (dat (exec_txs progs fuel ts s)) h = logs (dat s) h.
Proof. exact later_txs_keep_logs. Qed.
Print Assumptions C12_later_txs_keep_logs.

Theorem C12_wf_reachable :
  (forall d th ti orc, wf (mkState d [] [] 0 th ti orc)) /\
  (forall progs fuel t s o l s', wf s -> exec_tx progs fuel t s = (o, l, s') -> wf s').
Proof. exact (conj wf_fresh exec_tx_wf). Qed.

(* Prepare as it was before the repair (fix 4ddf729): the next transaction reads the previous one's TSTORE. *)
Theorem C12_transient_leak_old_refuted :
  let '(_, _, s1) := exec_tx progsT 5 (mkTx 1 0 1 (TCall 11 0) []) s0 in
  tstor (dat (prepare_old 2 1 s1)) 11 1 = 7 /\ tstor (dat (prepare 2 1 s1)) 11 1 = 0.
Proof. exact transient_leak_old. Qed.

(* The returned-logs channel (executeResultData.Logs) is not the list of surviving logs: listed findings. *)
Theorem C12_returned_logs_refuted :
  (let '(o, l, s1) := exec_tx progsL 5 (mkTx 1 0 1 (TCall 11 0) []) s0 in
   o = OOk /\ length l = 1%nat /\ logs (dat s1) 1 = []) /\
  (let '(o, l, s1) := exec_tx progsC 5 (mkTx 1 0 1 (TCall 11 0) []) s0 in
   o = OOk /\ l = [] /\ length (logs (dat s1) 1) = 1%nat).
Proof. split; [exact returned_logs_leak | exact returned_logs_drop]. Qed.

(* Opcode table of the current sources (Table.v, regenerated from src/vm and compared with the live table on every
   run): the obligation "an opcode that reaches a state mutator is flagged writes or guards itself" FAILS for
   exactly UNSTAKEALL (0xeb), STAKE (0xee), UNSTAKE (0xef), AUTHCALL (0xf7) - they run inside a STATICCALL
   (listed findings, confirmed by execution) - and holds for each of the other 152 defined opcodes
   (finite table, the bound is the table itself). *)
Theorem C12_static_table_refuted : table_bad today_table = [235; 238; 239; 247].
Proof. exact table_bad_today. Qed.

Theorem C12_static_table_partial : forall r, In r today_table ->
  existsb (N.eqb (fst (fst (fst r)))) [235; 238; 239; 247] = false -> row_ok r = true.
Proof. exact table_rest_ok. Qed.
Print Assumptions C12_static_table_partial.

(* Non-vacuity: a concrete nested history meets the hypotheses. Contract 11 stores, calls 12 with value 7;
   12 stores, writes transient storage, logs, creates a contract with value 2 and then REVERTs; 11 goes on
   and logs. The inner frame failed and left nothing: only 11's own effects are visible. *)
Example C12_example :
  wf s0 /\
  let '(o, l, s1) := exec_tx progs0 6 tx0 s0 in
  o = OOk /\
  state_of (dat s1) 11 1 = 4 /\ state_of (dat s1) 12 1 = 9 /\ tstor (dat s1) 12 1 = 0 /\
  bal (dat s1) 11 = 100 /\ bal (dat s1) 12 = 7 * unit18 /\ exists_of (dat s1) 100 = false /\ nonce_of (dat s1) 12 = 1 /\
  map l_topic (logs (dat s1) 1) = [3] /\ map l_index (logs (dat s1) 1) = [0].
Proof. split; [exact wf_s0 | vm_compute; repeat split; reflexivity]. Qed.
