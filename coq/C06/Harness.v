(* Evaluation of the C06 model on harness-written cases (correspondence check).
   One case = one block executed by the real VMExecutor loop on an in-memory AccountDB:
   universe = addresses 0..n-1 (0 = FeeAccount), balances before, escrow before, the block as model
   operations (EVM ledger traces as recorded at the StateDB interface), and what was observed after. *)
From Coq Require Import List ZArith NArith Bool.
From V.C06 Require Import Model.
Import ListNotations.
Local Open Scope Z_scope.

Definition bal_of (l : list Z) : bals := fun a => nth (N.to_nat a) l 0.
Definition universe_of (l : list Z) : list addr := map N.of_nat (seq 0 (length l)).

Record obs := { o_bal : list Z;       (* balances after, same order *)
                o_locked : Z;         (* change of the total stake (x 10^18) held by the registry *)
                o_sched : Z }.        (* escrow total after, over the tracked heights *)

Fixpoint list_eqb (a b : list Z) : bool :=
  match a, b with
  | [], [] => true
  | x :: a', y :: b' => (x =? y) && list_eqb a' b'
  | _, _ => false
  end.

Definition check (c : list Z * list (N * addr * Z) * list op * obs) : bool :=
  let '(init, sched0, ops, o) := c in
  let U := universe_of init in
  let l0 := {| bal := bal_of init; locked := 0; sched := sched0; burned := 0 |} in
  let l := run repaired ops l0 in
  list_eqb (map (bal l) U) (o_bal o)
  && (locked l =? o_locked o)
  && (sched_total (sched l) =? o_sched o)
  (* the model's own property on this instance *)
  && (wealth U l + burned l =? wealth U l0 + fold_right (fun o acc => minted o + acc) 0 ops)
  && forallb (fun a => 0 <=? bal l a) U.

(* short constructors for the case files *)
Definition V := EValue. Definition K := ESuicide. Definition S := ESnap. Definition R := ERevert.
Definition L := ELock. Definition Un := EUnstake. Definition TC := contract_tx.
Definition Ob (b : list Z) (lk sc : Z) : obs := {| o_bal := b; o_locked := lk; o_sched := sc |}.
