(* Evaluation of the C06 model on harness-written cases (correspondence check).
   One case = one block executed by the real VMExecutor loop on an in-memory AccountDB:
   universe = addresses 0..n-1 (0 = FeeAccount), balances before, escrow before, the block as model
   operations, and what was observed after. A contract transaction carries the opcode-level event list recorded
   while the real EVM ran it (StateDB recorder + the jump-table wrappers of src/vm/verif_c06.go); the model lowers
   it to ledger primitives (Model.lower) and must reproduce (a) every per-address balance, the stake change and the
   escrow total after the block and (b) the value every STAKE / UNSTAKE / UNSTAKEALL pushed, in order. *)
From Coq Require Import List ZArith NArith Bool.
From V.C06 Require Import Model.
Import ListNotations.
Local Open Scope Z_scope.

Definition bal_of (l : list Z) : bals := fun a => nth (N.to_nat a) l 0.
Definition universe_of (l : list Z) : list addr := map N.of_nat (seq 0 (length l)).

Record obs := { o_bal : list Z;       (* balances after, same order *)
                o_locked : Z;         (* change of the total stake (x 10^18) held by the registry *)
                o_sched : Z;          (* escrow total after, over the tracked heights *)
                o_results : list Z }. (* values pushed by the stake opcodes, in execution order over the block *)

Fixpoint list_eqb (a b : list Z) : bool :=
  match a, b with
  | [], [] => true
  | x :: a', y :: b' => (x =? y) && list_eqb a' b'
  | _, _ => false
  end.

(* a block item: a contract transaction with its observed opcode-level run, or any other model operation *)
Inductive hop :=
| HC (src : addr) (json_ok : bool) (gas : gas_field) (value : option Z) (creation : bool) (nz z : Z)
     (otr : list oev) (evm_ok : bool) (gas_used : Z) (stale : option Z)
| HO (o : op).

Definition tx_of (h : hop) : op :=
  match h with
  | HC src jok gas value creation nz z otr eok gu stale =>
    OTx (contract_tx src jok gas value creation nz z (lower_trace otr) eok gu stale)
  | HO o => o
  end.

Definition results_of (h : hop) (l : led) : list Z :=
  match h with
  | HC src jok gas value creation nz z otr eok gu stale =>
    match evm_start (contract_tx src jok gas value creation nz z (lower_trace otr) eok gu stale) l with
    | Some l1 => oev_results repaired otr (l1, [])
    | None => []
    end
  | HO _ => []
  end.

Fixpoint run_h (hs : list hop) (l : led) (acc : list Z) : led * list Z :=
  match hs with
  | [] => (l, acc)
  | h :: r => run_h r (exec_op repaired (tx_of h) l) (acc ++ results_of h l)
  end.

(* ---- the block reward against its specification (Model.reward_weights): every scheduled amount must be the exact
   rational share within the float64 error of the code: relative 2^-40 plus 16 wei (the code rounds each factor to
   float64 - a few units of 2^-53 - and truncates every added term to a wei) ---- *)
Definition rinfo := (Z * Z * addr * list (addr * Z) * list (addr * Z))%type.   (* height, blocks per epoch, castor account,
                                                                               active proposers, group members (account, stake) *)
Fixpoint lookup (m : list (addr * Z)) (a : addr) : Z :=
  match m with [] => 0 | (x, v) :: r => if N.eqb x a then v else lookup r a end.

Definition close (obs num den : Z) : bool :=
  Z.abs (obs * den - num) * 1099511627776 <=? num + 16 * den * 1099511627776.

Definition reward_ok (ri : rinfo) (rs : list (addr * Z)) : bool :=
  let '(height, bpe, castor, ps, vs) := ri in
  let epoch := height / bpe in
  let num := reward_num epoch in
  let den := reward_den epoch bpe * reward_weight_total ps vs in
  let ws := reward_weights castor ps vs in
  forallb (fun p => close (lookup rs (fst p)) (num * snd p) den) ws
  && forallb (fun p => close (snd p) (num * lookup ws (fst p)) den) rs
  && (sum_snd ws <=? reward_weight_total ps vs).

Fixpoint rewards_of (hs : list hop) : list (addr * Z) :=
  match hs with
  | [] => []
  | HO (OReward _ rs) :: _ => rs
  | _ :: r => rewards_of r
  end.

Definition check (c : list Z * list (N * addr * Z) * list hop * obs * option rinfo) : bool :=
  let '(init, sched0, hs, o, ri) := c in
  let U := universe_of init in
  let l0 := {| bal := bal_of init; locked := 0; sched := sched0; burned := 0 |} in
  let '(l, res) := run_h hs l0 [] in
  list_eqb (map (bal l) U) (o_bal o)
  && (locked l =? o_locked o)
  && (sched_total (sched l) =? o_sched o)
  && list_eqb res (o_results o)
  && match ri with None => true | Some r => reward_ok r (rewards_of hs) end
  (* the model's own property on this instance *)
  && (wealth U l + burned l =? wealth U l0 + fold_right (fun h acc => minted (tx_of h) + acc) 0 hs)
  && forallb (fun a => 0 <=? bal l a) U.

(* short constructors for the case files *)
Definition V (f t : addr) (v : Z) := OPrim (EValue f t v).
Definition K (a b : addr) := OPrim (ESuicide a b).
Definition S (id : N) := OPrim (ESnap id).
Definition R (id : N) := OPrim (ERevert id).
Definition St := OStake. Definition Us := OUnstake. Definition Ua := OUnstakeAll. Definition A := OAuthCall.
Definition Ob (b : list Z) (lk sc : Z) (res : list Z) : obs := {| o_bal := b; o_locked := lk; o_sched := sc; o_results := res |}.
