(* C06 — property theorems only (statements + [exact]); see Proofs.v for the proofs.
   [repaired] is the model of the current source, [original] of the source before the three fix: commits
   (gas charge 02027fe, CanTransfer sign fcbc04d, UNSTAKE grant 82270fb). *)
From Coq Require Import List ZArith NArith Lia.
From V.C06 Require Import Model Proofs.
Import ListNotations.
Local Open Scope Z_scope.

(* No balance ever becomes negative: after any history of transactions, reward schedulings and refund credits,
   whichever code variant, whatever the amounts, traces and addresses. *)
Theorem C06_nonneg : forall var ops l, nonneg l -> nonneg (run var ops l).
Proof. exact run_nonneg. Qed.
Print Assumptions C06_nonneg.

(* ... and inside a transaction: after every prefix of every EVM ledger trace (a prefix of a trace is a trace),
   reverted frames included. *)
Theorem C06_trace_nonneg : forall var tr l, nonneg l -> nonneg (exec_trace var tr l).
Proof. exact exec_trace_nonneg. Qed.
Print Assumptions C06_trace_nonneg.

(* Every transaction kind, successful or failed: balances + locked stake + scheduled refunds + destroyed tokens
   is unchanged, i.e.  total' = total - Δlocked - Δscheduled - Δburned,  over any closed address universe. *)
Theorem C06_tx_conserves : forall U t l, universe U -> tx_closed U t -> tx_wf t -> nonneg l -> sched_ok U (sched l) ->
  let l' := exec_tx repaired t l in
  wealth U l' + burned l' = wealth U l + burned l /\ nonneg l' /\ sched_ok U (sched l').
Proof. exact tx_conserves. Qed.
Print Assumptions C06_tx_conserves.

(* The sum of the balances is never increased by a transaction, successful or failed: it decreases by exactly what
   moved into [held] = locked stake + refund escrow + destroyed (self-destruct onto itself / operator-node charge),
   and [held] never shrinks inside a transaction (nested reverts included). *)
Theorem C06_tx_balances_never_increase : forall U t l, universe U -> tx_closed U t -> tx_wf t -> nonneg l -> sched_ok U (sched l) ->
  let l' := exec_tx repaired t l in
  sumU U (bal l') = sumU U (bal l) - (held l' - held l) /\ held l <= held l' /\ sumU U (bal l') <= sumU U (bal l).
Proof. exact tx_balances_never_increase. Qed.
Print Assumptions C06_tx_balances_never_increase.

(* A failed contract transaction (fee refused, bad data, precheck, intrinsic gas, EVM error / out of gas after value
   transfers, whatever the trace): stake, escrow and burn are untouched and no balance other than the source's and the
   fee account's changes - the frame's movements are reverted, then only fees are charged. Any code variant. *)
Theorem C06_failed_contract_only_fees : forall var src dok lf val iok tr g stale l,
  same_except src l (exec_tx var (TContract src dok lf val iok tr false g stale) l).
Proof. exact failed_contract_only_fees. Qed.
Print Assumptions C06_failed_contract_only_fees.

(* A transfer that fails at any target keeps none of the credits made before the failure: only the fee is charged. *)
Theorem C06_failed_transfer_only_fee : forall var src tgts l,
  change_assets (bal (fst (fee_step l src))) src tgts = None ->
  exec_tx var (TTransfer src tgts) l = fst (fee_step l src).
Proof. exact failed_transfer_only_fee. Qed.
Print Assumptions C06_failed_transfer_only_fee.

(* The same at the level of a contract transaction as it arrives (JSON ok?, gasLimit field, transferValue field, calldata
   byte counts, whatever the EVM then does): decodeContractData / preCheckContractFee / IntrinsicGas are inside the model. *)
Theorem C06_contract_tx_conserves : forall U src jok gas value creation nz z tr eok gu stale l,
  universe U -> In src U -> Forall (ev_closed U) tr -> Forall ev_wf tr -> 0 <= gu ->
  match stale with Some s => 0 <= s | None => True end -> nonneg l -> sched_ok U (sched l) ->
  let l' := exec_tx repaired (contract_tx src jok gas value creation nz z tr eok gu stale) l in
  wealth U l' + burned l' = wealth U l + burned l /\ nonneg l' /\ sched_ok U (sched l') /\ sumU U (bal l') <= sumU U (bal l).
Proof. exact contract_tx_conserves. Qed.
Print Assumptions C06_contract_tx_conserves.

(* STAKE / UNSTAKE / UNSTAKEALL / AUTHCALL as the opcodes are observed (operands, registry facts): their ledger semantics
   is Model.lower. One opcode on any ledger with any stack of open snapshots keeps the invariant (non-negative balances,
   balances + stake + escrow + destroyed = W) for the current ledger and every open snapshot ... *)
Theorem C06_opcode_conserves : forall U W e c, universe U -> oev_closed U e -> oev_wf e -> goodst U W c ->
  goodst U W (exec_trace_st repaired (lower e) c).
Proof. exact opcode_conserves. Qed.
Print Assumptions C06_opcode_conserves.

(* ... so a contract transaction whose EVM run is observed as ANY list of opcode-level events conserves, never increases
   the sum of balances and keeps them non-negative. *)
Theorem C06_observed_contract_tx_conserves : forall U src jok gas value creation nz z otr eok gu stale l,
  universe U -> In src U -> Forall (oev_closed U) otr -> Forall oev_wf otr -> 0 <= gu ->
  match stale with Some s => 0 <= s | None => True end -> nonneg l -> sched_ok U (sched l) ->
  let l' := exec_tx repaired (contract_tx src jok gas value creation nz z (lower_trace otr) eok gu stale) l in
  wealth U l' + burned l' = wealth U l + burned l /\ nonneg l' /\ sched_ok U (sched l') /\ sumU U (bal l') <= sumU U (bal l).
Proof. exact observed_contract_tx_conserves. Qed.
Print Assumptions C06_observed_contract_tx_conserves.

(* STAKE: only the running contract's balance moves, by exactly what enters the stake; a pushed 1 with a non-zero
   whole-token operand means exactly that many whole tokens were locked. *)
Theorem C06_stake_op_exact : forall a amount hm l st,
  let c' := exec_trace_st repaired (lower (OStake a amount hm)) (l, st) in
  snd c' = st /\ sched (fst c') = sched l /\ burned (fst c') = burned l /\
  (forall x, x <> a -> bal (fst c') x = bal l x) /\
  bal l a - bal (fst c') a = locked (fst c') - locked l /\
  (op_result (OStake a amount hm) l = Some 1 -> 0 < whole_of amount -> locked (fst c') - locked l = whole_of amount * e18).
Proof. exact stake_op_exact. Qed.
Print Assumptions C06_stake_op_exact.

(* UNSTAKE (repaired): no balance moves; what leaves the stake is exactly what enters the escrow; a pushed 1 means exactly
   the whole tokens of the operand (or the whole stake for an operand >= 2^64 - 1 tokens) were released. *)
Theorem C06_unstake_op_exact : forall o a amount stake hm now l st, 0 <= amount -> 0 <= stake ->
  let c' := exec_trace_st repaired (lower (OUnstake o a amount stake hm now)) (l, st) in
  snd c' = st /\ bal (fst c') = bal l /\ burned (fst c') = burned l /\
  locked l - locked (fst c') = sched_total (sched (fst c')) - sched_total (sched l) /\
  (op_result (OUnstake o a amount stake hm now) l = Some 1 ->
   locked l - locked (fst c') = unstake_whole amount stake * e18).
Proof. exact unstake_op_exact. Qed.
Print Assumptions C06_unstake_op_exact.

(* AUTHCALL: whoever the authorised account is and whatever it holds, the value is the sponsor's (the tx origin): it moves
   iff 0 <= v <= the SPONSOR's balance, and then exactly v leaves the sponsor and reaches the target. *)
Theorem C06_authcall_sponsor_pays : forall s au t v l st, nonneg l -> s <> t ->
  let c' := exec_trace_st repaired (lower (OAuthCall s au t v)) (l, st) in
  snd c' = st /\
  (bal l s < v \/ v < 0 -> fst c' = l) /\
  (0 <= v <= bal l s ->
   bal (fst c') s = bal l s - v /\ bal (fst c') t = bal l t + v /\ forall x, x <> s -> x <> t -> bal (fst c') x = bal l x).
Proof. exact authcall_sponsor_pays. Qed.
Print Assumptions C06_authcall_sponsor_pays.

(* [burned] grows only by a contract naming itself as beneficiary of SELFDESTRUCT (and the operator-node charge,
   by definition of exec_tx): a trace without self-suicide destroys nothing. *)
Theorem C06_burn_only_self_suicide : forall var tr l, Forall no_self_suicide tr -> burned (exec_trace var tr l) = burned l.
Proof. exact trace_no_burn. Qed.
Print Assumptions C06_burn_only_self_suicide.

(* CheckAndMove(h) raises the balances by exactly the escrow due at h and lowers the escrow by the same. *)
Theorem C06_credit_exact : forall U h l, universe U -> nonneg l -> sched_ok U (sched l) ->
  sumU U (bal (exec_op repaired (OCheckAndMove h) l)) = sumU U (bal l) + due_total h (sched l) /\
  sched_total (sched (exec_op repaired (OCheckAndMove h) l)) = sched_total (sched l) - due_total h (sched l) /\
  locked (exec_op repaired (OCheckAndMove h) l) = locked l.
Proof. exact credit_exact. Qed.
Print Assumptions C06_credit_exact.

(* Scheduling a block reward adds exactly the reward to the escrow and touches nothing else. *)
Theorem C06_reward_exact : forall U h rs l,
  let l' := exec_op repaired (OReward h rs) l in
  sumU U (bal l') = sumU U (bal l) /\ locked l' = locked l /\ burned l' = burned l /\
  sched_total (sched l') = sched_total (sched l) + minted (OReward h rs).
Proof. exact reward_exact. Qed.
Print Assumptions C06_reward_exact.

(* The reward specification (exact shares of the per-block reward T, Model.reward_weights) never hands out more than T,
   whoever proposes, whatever the proposer and group stakes and however accounts overlap; the check compares every
   scheduled amount of every reward block with this specification (float64 error bound stated in Harness.close). *)
Theorem C06_reward_spec_bounded : forall castor proposers validators,
  stakes_nonneg proposers -> stakes_nonneg validators ->
  sum_snd (reward_weights castor proposers validators) <= reward_weight_total proposers validators.
Proof. exact reward_weights_bounded. Qed.
Print Assumptions C06_reward_spec_bounded.

(* ... and exactly T - every credit accounted - whenever both stake totals are positive and no group member is paid to an
   account that also gathers a proposer share (the code ASSIGNS validator shares, so only that overlap loses part of T).
   [proposers] and [validators] list one (account, stake) entry per MINER: arbitrary, not necessarily injective,
   miner -> account maps (several validators paid to one account add up per account AND in the denominator). *)
Theorem C06_reward_spec_exact : forall castor proposers validators,
  stakes_nonneg proposers -> stakes_nonneg validators -> 0 < sum_snd proposers -> 0 < sum_snd validators ->
  (forall a, In a (map fst validators) -> a <> castor /\ ~ In a (map fst proposers)) ->
  sum_snd (reward_weights castor proposers validators) = reward_weight_total proposers validators.
Proof. exact reward_weights_exact. Qed.
Print Assumptions C06_reward_spec_exact.

(* History version: the only source of new tokens over any sequence of operations is the scheduled rewards. *)
Theorem C06_history : forall U ops l, universe U -> Forall (op_closed U) ops -> Forall op_wf ops ->
  nonneg l -> sched_ok U (sched l) ->
  let l' := run repaired ops l in
  wealth U l' + burned l' = wealth U l + burned l + minted_all ops /\ nonneg l' /\ sched_ok U (sched l').
Proof. exact history_conserves. Qed.
Print Assumptions C06_history.

(* The source before the fix: the contract executor's unchecked SubBalance(source, gasUsed*price) followed by
   AddBalance(FeeAccount, ..) creates the gas fee when the frame has drained the origin. *)
Theorem C06_gas_mint_refuted : exists U l t, universe U /\ nonneg l /\ sched_ok U (sched l) /\ tx_closed U t /\ tx_wf t /\
  wealth U (exec_tx original t l) + burned (exec_tx original t l) > wealth U l + burned l.
Proof. exact gas_mint_refuted. Qed.
Print Assumptions C06_gas_mint_refuted.

(* The source before the fix: vm.CanTransfer without a sign check lets a negative transferValue credit both sides. *)
Theorem C06_negative_value_mint_refuted : exists U l t, universe U /\ nonneg l /\ sched_ok U (sched l) /\ tx_closed U t /\ tx_wf t /\
  wealth U (exec_tx original t l) > wealth U l.
Proof. exact negative_value_mint_refuted. Qed.
Print Assumptions C06_negative_value_mint_refuted.

(* The source before the fix: opUnStake scheduled the requested amount for the origin while only the whole tokens of it
   left the stake. *)
Theorem C06_unstake_mint_refuted : exists U l t, universe U /\ nonneg l /\ sched_ok U (sched l) /\ tx_closed U t /\ tx_wf t /\
  wealth U (exec_tx original t l) + burned (exec_tx original t l) > wealth U l + burned l.
Proof. exact unstake_mint_refuted. Qed.
Print Assumptions C06_unstake_mint_refuted.

(* ... and the original source conserves exactly under the guard that excludes the three: EVM values non-negative,
   UNSTAKE requests not above what is released and, on success, gas fee <= the source's balance after the frame. *)
Theorem C06_original_conserves_under_guard : forall U t l, universe U -> tx_closed U t -> tx_wf t -> nonneg l ->
  sched_ok U (sched l) -> gas_guard t l ->
  let l' := exec_tx original t l in
  wealth U l' + burned l' = wealth U l + burned l /\ nonneg l' /\ sched_ok U (sched l').
Proof. exact original_conserves_under_guard. Qed.
Print Assumptions C06_original_conserves_under_guard.

(* Non-vacuity: a concrete universe, ledger and mixed history satisfy every hypothesis (the first contract tx drains
   its origin and self-destructs a contract onto itself, the second runs STAKE and a fractional UNSTAKE). *)
Example C06_example :
  let U := [0%N; 1%N; 2%N; 3%N] in
  let l := {| bal := fun a => if N.eqb a 1 then 5000000000000000000000 else if N.eqb a 3 then 7 else 0;
              locked := 0; sched := []; burned := 0 |} in
  let ops := [OTx (TTransfer 1%N [(2%N, Some 1500000000000000000)]);
              OTx (TContract 1%N true 3000000000000000 0 true
                     [ESnap 1; EValue 1%N 2%N 4000000000000000000000; ESnap 2; ESuicide 3%N 3%N; EValue 2%N 3%N 5; ERevert 2;
                      ESuicide 3%N 3%N] true 900000000000000 None);
              OTx (TLock 2%N 400000000000000000000 true);
              OTx (TContract 1%N true 3000000000000000 0 true
                     [ELock 2%N 1000000000000000000; EUnstake 1%N 2%N 1500000000000000000 1000000000000000000 36010%N] true
                     1244000000000000 None);
              OTx (TRefundReq 2%N 100000000000000000000 36010%N 2%N true);
              OReward 36010%N [(1%N, 3)]; OCheckAndMove 36010%N] in
  universe U /\ Forall (op_closed U) ops /\ Forall op_wf ops /\ nonneg l /\ sched_ok U (sched l) /\
  wealth U (run repaired ops l) + burned (run repaired ops l) = wealth U l + 3 /\ burned (run repaired ops l) = 7.
Proof.
  cbv zeta.
  split; [split; [repeat constructor; cbn; intuition discriminate|inU]|].
  split; [repeat first [apply Forall_nil | apply Forall_cons | split | exact I
                       | progress cbn [op_closed tx_closed ev_closed fst snd In] | (left; reflexivity) | right]|].
  split; [repeat first [apply Forall_nil | apply Forall_cons | exact I | lia
                       | progress cbn [op_wf tx_wf ev_wf fst snd] | split]|].
  split; [intro a; cbn; destruct (N.eqb a 1); [lia|destruct (N.eqb a 3); lia]|].
  split; [constructor|]. vm_compute. split; reflexivity.
Qed.
