(* C06 model: the native-token ledger as the node's executors drive it.

   Balances live in 18-decimal slots of the bound token contract; every read/write goes through
   AccountDB.GetBalance / AddBalance (AddFT) / SubBalance (SubFT)   [src/storage/account/accountdb_tuntun.go]
   - SubFT: no-op returning (remain,false) when remain < value, else remain-value
   - AddFT: unconditional; the slot stores big.Int.Bytes(), i.e. the MAGNITUDE of remain+value
   Movements modelled branch by branch:
     service.transferBalance / ChangeAssets        [src/service/game.go]
     TxPool.ProcessFee                             [src/service/transaction_pool.go]
     contractExecutor.BeforeExecute / Execute      [src/executor/contract_executor.go]   (gas charge: variant)
     VMExecutor loop: snapshot / revert / deductGasFee [src/core/vmexecutor.go]
     vm.CanTransfer / vm.Transfer, evm.Call/create/AuthCall value movement [src/vm/init.go, evm.go]  (sign guard: variant)
     opSuicide                                     [src/vm/instructions.go]
     MinerManager.AddMiner/AddStake ledger part    [src/service/miner_manager.go]
     minerRefundExecutor + RefundManager.Add/CheckAndMove, reward scheduling [src/service/refund_manager.go]
     minerNodeExecutor's 10-token charge           [src/executor/miner_node_executor.go]
   The EVM itself is not modelled: its effect on the ledger enters as an arbitrary flat trace of
   ledger events with snapshot/revert markers (exactly what the StateDB interface sees). *)
From Coq Require Import List ZArith NArith Lia Bool.
Import ListNotations.
Local Open Scope Z_scope.

Definition addr := N.
Definition bals := addr -> Z.

Definition upd (f : bals) (a : addr) (v : Z) : bals := fun x => if N.eqb x a then v else f x.

(* ---- code variants: [repaired] is the current source, [original] the source before the fix: commits ---- *)
Record variant := { gas_clamped : bool;        (* contractExecutor.Execute charges min(balance, fee) *)
                    cantransfer_signed : bool; (* vm.CanTransfer refuses a negative amount *)
                    unstake_clamped : bool     (* opUnStake schedules min(requested, released) for the origin *) }.
Definition repaired : variant := {| gas_clamped := true; cantransfer_signed := true; unstake_clamped := true |}.
Definition original : variant := {| gas_clamped := false; cantransfer_signed := false; unstake_clamped := false |}.

(* ---- ledger ---- *)
Record led := { bal : bals;
                locked : Z;                       (* tokens locked as miner stake (registry side: C20) *)
                sched : list (N * addr * Z);      (* refund/reward escrow: height, beneficiary, amount *)
                burned : Z }.                     (* ghost: destroyed by self-suicide / operator-node charge *)

Definition set_bal (l : led) (b : bals) : led :=
  {| bal := b; locked := locked l; sched := sched l; burned := burned l |}.

Definition fee_account : addr := 0%N.

(* AddFT *)
Definition add_bal (b : bals) (a : addr) (v : Z) : bals := upd b a (Z.abs (b a + v)).
(* SubFT *)
Definition sub_bal (b : bals) (a : addr) (v : Z) : bals * bool :=
  if b a <? v then (b, false) else (upd b a (b a - v), true).

(* ---- EVM ledger events (flat, with snapshot ids as AccountDB hands them out) ---- *)
Inductive ev :=
| EValue (from to : addr) (v : Z)   (* Call / CallCode / create / AuthCall: CanTransfer check, then vm.Transfer *)
| ESuicide (a b : addr)             (* opSuicide: AddBalance(b, balance a); Suicide(a) zeroes a *)
| ELock (a : addr) (v : Z)          (* STAKE opcode -> MinerManager.AddStake(this, ..): checked debit, stake grows *)
| EUnstake (origin acct : addr) (req rel : Z) (h : N)
    (* UNSTAKE / UNSTAKEALL opcode that passed GetRefundStake: [rel] (whole tokens) leaves the stake of the miner whose
       account [acct] is the running contract; RefundManager.Add schedules for height h: rel - req for acct when
       rel > req, and for the tx origin the requested amount req (original) / min(req, rel) (repaired).
       UNSTAKEALL is req = 0. *)
| ESnap (id : N)                    (* StateDB.Snapshot() = id *)
| ERevert (id : N).                 (* StateDB.RevertToSnapshot(id) *)

Definition can_transfer (var : variant) (b : bals) (a : addr) (v : Z) : bool :=
  (if cantransfer_signed var then 0 <=? v else true) && (v <=? b a).

(* vm.Transfer: SubBalance result ignored, then AddBalance *)
Definition transfer (b : bals) (from to : addr) (v : Z) : bals :=
  add_bal (fst (sub_bal b from v)) to v.

Fixpoint revert_to (id : N) (st : list (N * led)) (cur : led) : led * list (N * led) :=
  match st with
  | [] => (cur, [])          (* the code panics on an unknown id; never produced by the EVM *)
  | (i, l) :: r => if N.eqb i id then (l, r) else revert_to id r cur
  end.

Definition exec_ev (var : variant) (e : ev) (c : led * list (N * led)) : led * list (N * led) :=
  let '(l, st) := c in
  match e with
  | EValue from to v =>
    if can_transfer var (bal l) from v then (set_bal l (transfer (bal l) from to v), st) else (l, st)
  | ESuicide a b =>
    let x := bal l a in
    ({| bal := upd (add_bal (bal l) b x) a 0; locked := locked l; sched := sched l;
        burned := burned l + (if N.eqb a b then x else 0) |}, st)
  | ELock a v =>
    match sub_bal (bal l) a v with
    | (b', true) => ({| bal := b'; locked := locked l + v; sched := sched l; burned := burned l |}, st)
    | (_, false) => (l, st)
    end
  | EUnstake o a req rel h =>
    let granted := if unstake_clamped var then Z.min req rel else req in
    let s1 := if req <? rel then (h, a, rel - req) :: sched l else sched l in
    ({| bal := bal l; locked := locked l - rel; sched := (h, o, granted) :: s1; burned := burned l |}, st)
  | ESnap id => (l, (id, l) :: st)
  | ERevert id => revert_to id st l
  end.

Definition exec_trace_st (var : variant) (tr : list ev) (c : led * list (N * led)) : led * list (N * led) :=
  fold_left (fun c e => exec_ev var e c) tr c.

Definition exec_trace (var : variant) (tr : list ev) (l : led) : led := fst (exec_trace_st var tr (l, [])).

(* ---- opcode-level events: what the EVM's value-moving opcodes are observed to be given (operands on the stack,
        registry facts), with their ledger semantics defined HERE by lowering to the primitive events above.
        Observed on the real code by the per-instance jump-table wrappers of src/vm/verif_c06.go (STAKE, UNSTAKE,
        UNSTAKEALL, AUTHCALL) and by the StateDB recorder (everything else). ---- *)
Definition e18 : Z := 1000000000000000000.
Definition two64 : Z := 18446744073709551616.
Definition refund_after : N := 36000.      (* getRefundHeight under Proposal012: now + 36000 *)

Inductive oev :=
| OPrim (e : ev)
| OStake (a : addr) (amount : Z) (has_miner : bool)
    (* opStake run by contract a with stack operand amount (wei); has_miner: GetMinerIdByAccount(a) found a miner *)
| OUnstake (origin a : addr) (amount stake : Z) (has_miner : bool) (now : N)
    (* opUnStake; stake = that miner's stake in whole tokens before the opcode; now = block height *)
| OUnstakeAll (origin a : addr) (stake : Z) (has_miner : bool) (now : N)
| OAuthCall (sponsor authority to : addr) (v : Z).
    (* an opAuthCall that reached evm.AuthCall (authorized account set, nonce right): the call is made in the name of
       [authority], but the value is the SPONSOR's (the tx origin): the guard consults the sponsor's balance -
       CanTransfer(sponsor, v) - and Transfer(sponsor, to, v) debits the sponsor. The authority's balance plays no role. *)

(* whole tokens of a wei amount, as ParseUint(BigIntToStrWithoutDot(amount), 10, 0) sees them *)
Definition whole_of (amount : Z) : Z := amount / e18.

(* opUnStake ignores the ParseUint error: a value >= 2^64 comes back as MaxUint64, which GetRefundStake reads as
   "the whole stake" (and so does exactly MaxUint64) *)
Definition unstake_whole (amount stake : Z) : Z :=
  if two64 - 1 <=? whole_of amount then stake else whole_of amount.

Definition lower (e : oev) : list ev :=
  match e with
  | OPrim p => [p]
  | OStake a amount hm =>
    (* parse error (>= 2^64 whole tokens) -> false; no miner -> false; AddStake(a, miner, whole): 0 -> nothing;
       Float64ToBigInt(float64(whole)) is whole * 10^18 below 2^53 whole tokens; checked debit (ELock) *)
    if (whole_of amount <? two64) && hm then [ELock a (whole_of amount * e18)] else []
  | OUnstake o a amount stake hm now =>
    if hm && (unstake_whole amount stake <=? stake)
    then [EUnstake o a amount (unstake_whole amount stake * e18) (now + refund_after)] else []
  | OUnstakeAll o a stake hm now =>
    if hm then [EUnstake o a 0 (stake * e18) (now + refund_after)] else []
  | OAuthCall s _ t v => [EValue s t v]
  end.

Definition lower_trace (tr : list oev) : list ev := flat_map lower tr.

(* what the opcode pushes (STAKE / UNSTAKE: 1 or 0; UNSTAKEALL: the released wei, -1 = the opcode returns an error and
   the frame aborts), given the ledger it runs on *)
Definition op_result (e : oev) (l : led) : option Z :=
  match e with
  | OStake a amount hm =>
    Some (if negb ((whole_of amount <? two64) && hm) then 0
          else if whole_of amount =? 0 then 1
          else if bal l a <? whole_of amount * e18 then 0 else 1)
  | OUnstake _ _ amount stake hm _ => Some (if hm && (unstake_whole amount stake <=? stake) then 1 else 0)
  | OUnstakeAll _ _ stake hm _ => Some (if hm then stake * e18 else -1)
  | OAuthCall s _ _ v =>
    (* did the value move? (for v = 0 the code may return before the transfer: nothing to compare) *)
    if v =? 0 then None else Some (if (0 <=? v) && (v <=? bal l s) then 1 else 0)
  | _ => None
  end.

(* ---- fees ---- *)
(* ProcessFee: check, SubBalance, AddBalance(FeeAccount).  [fee] = delta026 = 0.001 token *)
Definition tx_fee : Z := 1000000000000000.

Definition fee_step (l : led) (src : addr) : led * bool :=
  if bal l src <? tx_fee then (l, false)
  else (set_bal l (add_bal (fst (sub_bal (bal l) src tx_fee)) fee_account tx_fee), true).

(* deductGasFee (failed contract tx, after the revert): clamped to the balance *)
Definition deduct_clamped (l : led) (src : addr) (g : Z) : led :=
  let g' := if bal l src <? g then bal l src else g in
  set_bal l (add_bal (fst (sub_bal (bal l) src g')) fee_account g').

(* contractExecutor.Execute, success path *)
Definition gas_charge (var : variant) (l : led) (src : addr) (g : Z) : led :=
  if gas_clamped var then deduct_clamped l src g
  else set_bal l (add_bal (fst (sub_bal (bal l) src g)) fee_account g).

Definition fail_charge (l : led) (src : addr) (g : option Z) : led :=
  match g with None => l | Some g => deduct_clamped l src g end.

(* ---- service.transferBalance: parse, sign, balance check, AddBalance(target), SubBalance(source) ---- *)
Definition transfer_balance (b : bals) (src tgt : addr) (amount : option Z) : option bals :=
  match amount with
  | None => None                                   (* StrToBigInt error *)
  | Some v =>
    if v <? 0 then None
    else if b src <? v then None
    else Some (fst (sub_bal (add_bal b tgt v) src v))
  end.

(* ChangeAssets: the targets in iteration order; first failure aborts *)
Fixpoint change_assets (b : bals) (src : addr) (tgts : list (addr * option Z)) : option bals :=
  match tgts with
  | [] => Some b
  | (t, a) :: r => match transfer_balance b src t a with
                   | None => None
                   | Some b' => change_assets b' src r
                   end
  end.

(* ---- transactions (as the VMExecutor loop runs them: BeforeExecute; snapshot; Execute; revert on failure) ---- *)
Inductive tx :=
| TTransfer (src : addr) (tgts : list (addr * option Z))
    (* operator event carrying a transfer map *)
| TContract (src : addr) (decode_ok : bool) (limit_fee value : Z) (intrinsic_ok : bool)
            (tr : list ev) (evm_ok : bool) (gas_fee : Z) (stale : option Z)
    (* contract call/creation. limit_fee = gasLimit*price, gas_fee = gasUsed*price;
       tr / evm_ok / gas_fee are what the EVM did; stale = a gasUsed left in the executor context
       by an earlier tx of the block (charged when Execute fails before running the EVM) *)
| TLock (src : addr) (stake : Z) (reg_ok : bool)
    (* miner apply / add stake: registry-side checks summarised by reg_ok (C20 models them) *)
| TRefundReq (src : addr) (amount : Z) (h : N) (beneficiary : addr) (reg_ok : bool)
    (* miner refund: stake released and scheduled for height h *)
| TFeeOnly (src : addr)
    (* change account, or any tx whose Execute is rejected/reverted: nothing but the fee *)
| TOperatorNode (src : addr) (ok : bool).
    (* minerNodeExecutor: 10 tokens are debited and credited to nobody; kept only if the rest succeeds *)

(* ---- contractExecutor.decodeContractData / preCheckContractFee / IntrinsicGas on the parsed pieces of the tx data:
        a contract tx as it arrives (JSON ok?, gasLimit field, transferValue field, calldata byte counts) ---- *)
Inductive gas_field := GDefault | GBad | GNum (n : Z).   (* "" or "0"  |  not a uint64  |  a uint64 *)
Definition gas_price : Z := 1000000000.               (* defaultGasPrice *)
Definition default_gas_limit : Z := 30000000.         (* p017defaultGasLimit (Proposal017 active) *)
Definition gas_magnification : Z := 30.               (* common.GasMagnification (Proposal026 active) *)
Definition intrinsic_gas (creation : bool) (nz z : Z) : Z :=
  ((if creation then 53000 else 21000) + nz * 16 + z * 4) * gas_magnification.

Definition contract_tx (src : addr) (json_ok : bool) (gas : gas_field) (value : option Z) (creation : bool) (nz z : Z)
           (tr : list ev) (evm_ok : bool) (gas_used : Z) (stale : option Z) : tx :=
  let mk n v := TContract src true (n * gas_price) v (intrinsic_gas creation nz z <=? n) tr evm_ok (gas_used * gas_price) stale in
  match json_ok, gas, value with
  | true, GDefault, Some v => mk default_gas_limit v
  | true, GNum n, Some v => mk n v
  | _, _, _ => TContract src false 0 0 false [] false 0 stale      (* BeforeExecute refuses after the fee *)
  end.

Definition ten_tokens : Z := 10000000000000000000.

Definition exec_tx (var : variant) (t : tx) (l : led) : led :=
  match t with
  | TTransfer src tgts =>
    match fee_step l src with
    | (l1, false) => l1
    | (l1, true) => match change_assets (bal l1) src tgts with
                    | None => l1
                    | Some b => set_bal l1 b
                    end
    end
  | TContract src decode_ok limit_fee value intrinsic_ok tr evm_ok gas_fee stale =>
    match fee_step l src with
    | (l1, false) => l1
    | (l1, true) =>
      if negb decode_ok then l1
      else if bal l1 src <? limit_fee + value then l1          (* preCheckContractFee *)
      else if negb intrinsic_ok then fail_charge l1 src stale
      else
        let l2 := exec_trace var tr l1 in
        if evm_ok then gas_charge var l2 src gas_fee
        else fail_charge l1 src (Some gas_fee)
    end
  | TLock src stake reg_ok =>
    match fee_step l src with
    | (l1, false) => l1
    | (l1, true) =>
      if reg_ok then
        match sub_bal (bal l1) src stake with
        | (b, true) => {| bal := b; locked := locked l1 + stake; sched := sched l1; burned := burned l1 |}
        | (_, false) => l1
        end
      else l1
    end
  | TRefundReq src amount h to reg_ok =>
    match fee_step l src with
    | (l1, false) => l1
    | (l1, true) =>
      if reg_ok then {| bal := bal l1; locked := locked l1 - amount; sched := (h, to, amount) :: sched l1; burned := burned l1 |}
      else l1
    end
  | TFeeOnly src => fst (fee_step l src)
  | TOperatorNode src ok =>
    match fee_step l src with
    | (l1, false) => l1
    | (l1, true) =>
      if ok then
        match sub_bal (bal l1) src ten_tokens with
        | (b, true) => {| bal := b; locked := locked l1; sched := sched l1; burned := burned l1 + ten_tokens |}
        | (_, false) => l1
        end
      else l1
    end
  end.

(* the ledger on which the EVM starts, when the transaction gets that far (fee, decode, precheck, intrinsic gas passed) *)
Definition evm_start (t : tx) (l : led) : option led :=
  match t with
  | TContract src decode_ok limit_fee value intrinsic_ok _ _ _ _ =>
    match fee_step l src with
    | (_, false) => None
    | (l1, true) => if negb decode_ok || (bal l1 src <? limit_fee + value) || negb intrinsic_ok then None else Some l1
    end
  | _ => None
  end.

(* the values the stake opcodes push along an observed run *)
Fixpoint oev_results (var : variant) (tr : list oev) (c : led * list (N * led)) : list Z :=
  match tr with
  | [] => []
  | e :: r => (match op_result e (fst c) with Some z => [z] | None => [] end)
              ++ oev_results var r (exec_trace_st var (lower e) c)
  end.

(* ---- block-level operations ---- *)
Inductive op :=
| OTx (t : tx)
| OReward (h : N) (l : list (addr * Z))   (* RewardCalculator result handed to RefundManager.Add *)
| OCheckAndMove (h : N).                  (* RefundManager.CheckAndMove(h) *)

Fixpoint credit_due (h : N) (s : list (N * addr * Z)) (b : bals) : bals * list (N * addr * Z) :=
  match s with
  | [] => (b, [])
  | (h', a, v) :: r =>
    let '(b', r') := credit_due h r b in
    if N.eqb h' h then (add_bal b' a v, r') else (b', (h', a, v) :: r')
  end.

Definition exec_op (var : variant) (o : op) (l : led) : led :=
  match o with
  | OTx t => exec_tx var t l
  | OReward h rs =>
    {| bal := bal l; locked := locked l; sched := map (fun p => (h, fst p, snd p)) rs ++ sched l; burned := burned l |}
  | OCheckAndMove h =>
    let '(b, s) := credit_due h (sched l) (bal l) in
    {| bal := b; locked := locked l; sched := s; burned := burned l |}
  end.

Definition run (var : variant) (ops : list op) (l : led) : led := fold_left (fun l o => exec_op var o l) ops l.

(* ---- the block reward: specification of RewardCalculator.calculateRewardPerBlock in exact arithmetic ----
   per block T = TotalRPGSupply * (1 - ReleaseRate)^epoch * ReleaseRate / blocksPerEpoch tokens
               = 7350000 * (23/25)^epoch * (2/25) / blocksPerEpoch,           epoch = height / blocksPerEpoch;
   3/14 of it to the account of the block's proposer, 1/2 shared by the active proposers in proportion to their stakes
   (accumulated per account), 2/7 shared by the members of the verifying group in proportion to their stakes - and the
   code ASSIGNS the validator shares (result[addr] = ..), replacing whatever the account had gathered as a proposer.
   The code computes each share in float64 and truncates share * 10^18 (Float64ToBigInt); the specification is the exact
   rational, a share being a weight w over  W = 14 * S' * V'  times T  (S', V' = the two stake totals, 1 when zero). *)
Definition reward_num (epoch : Z) : Z := 7350000 * 23 ^ epoch * 2 * 1000000000000000000.      (* T in wei = num / den *)
Definition reward_den (epoch blocks_per_epoch : Z) : Z := 25 ^ (epoch + 1) * blocks_per_epoch.

Fixpoint sum_snd (l : list (addr * Z)) : Z := match l with [] => 0 | (_, v) :: r => v + sum_snd r end.

Fixpoint acc_add (m : list (addr * Z)) (a : addr) (v : Z) : list (addr * Z) :=
  match m with
  | [] => [(a, v)]
  | (x, y) :: r => if N.eqb x a then (x, y + v) :: r else (x, y) :: acc_add r a v
  end.

Definition nz1 (x : Z) : Z := if x =? 0 then 1 else x.

(* [proposers] / [validators]: one (account, stake) entry PER MINER - several miners may name the same account
   (GetValidatorsStake adds their stakes per account: membersDetail[addr] += stake, total += stake). *)
Definition per_account (l : list (addr * Z)) : list (addr * Z) := fold_left (fun m p => acc_add m (fst p) (snd p)) l [].

Definition reward_weights (castor : addr) (proposers validators : list (addr * Z)) : list (addr * Z) :=
  let S := sum_snd proposers in let V := sum_snd validators in
  let base := fold_left (fun m p => acc_add m (fst p) (7 * snd p * nz1 V)) proposers [(castor, 3 * nz1 S * nz1 V)] in
  let vacc := per_account validators in
  let kept := filter (fun p => negb (existsb (fun q => N.eqb (fst q) (fst p)) vacc)) base in
  kept ++ map (fun q => (fst q, 4 * snd q * nz1 S)) vacc.

Definition reward_weight_total (proposers validators : list (addr * Z)) : Z :=
  14 * nz1 (sum_snd proposers) * nz1 (sum_snd validators).

(* ---- measures over a finite universe of addresses ---- *)
Fixpoint sumU (U : list addr) (b : bals) : Z :=
  match U with [] => 0 | a :: r => b a + sumU r b end.

Fixpoint sched_total (s : list (N * addr * Z)) : Z :=
  match s with [] => 0 | (_, _, v) :: r => v + sched_total r end.

Fixpoint due_total (h : N) (s : list (N * addr * Z)) : Z :=
  match s with [] => 0 | (h', _, v) :: r => (if N.eqb h' h then v else 0) + due_total h r end.

Definition wealth (U : list addr) (l : led) : Z := sumU U (bal l) + locked l + sched_total (sched l).

Definition minted (o : op) : Z :=
  match o with OReward _ rs => fold_right (fun p acc => snd p + acc) 0 rs | _ => 0 end.

(* ---- well-formedness: amounts that come from unsigned sources in the code ---- *)
Definition nonneg (l : led) : Prop := forall a, 0 <= bal l a.
Definition sched_ok (U : list addr) (s : list (N * addr * Z)) : Prop :=
  Forall (fun e => In (snd (fst e)) U /\ 0 <= snd e) s.

Definition ev_closed (U : list addr) (e : ev) : Prop :=
  match e with
  | EValue f t _ => In f U /\ In t U
  | ESuicide a b => In a U /\ In b U
  | ELock a _ => In a U
  | EUnstake o a _ _ _ => In o U /\ In a U
  | _ => True
  end.

(* amounts the opcodes take from unsigned sources: uint256 stack words, uint64 whole tokens *)
Definition ev_wf (e : ev) : Prop :=
  match e with
  | ELock _ v => 0 <= v
  | EUnstake _ _ req rel _ => 0 <= req /\ 0 <= rel
  | _ => True
  end.

Definition oev_closed (U : list addr) (e : oev) : Prop :=
  match e with
  | OPrim p => ev_closed U p
  | OStake a _ _ => In a U
  | OUnstake o a _ _ _ _ => In o U /\ In a U
  | OUnstakeAll o a _ _ _ => In o U /\ In a U
  | OAuthCall s _ t _ => In s U /\ In t U
  end.

(* operands are uint256 stack words, stakes uint64 *)
Definition oev_wf (e : oev) : Prop :=
  match e with
  | OPrim p => ev_wf p
  | OStake _ amount _ => 0 <= amount
  | OUnstake _ _ amount stake _ _ => 0 <= amount /\ 0 <= stake
  | OUnstakeAll _ _ stake _ _ => 0 <= stake
  | OAuthCall _ _ _ _ => True
  end.


Definition tx_closed (U : list addr) (t : tx) : Prop :=
  match t with
  | TTransfer src tgts => In src U /\ Forall (fun p => In (fst p) U) tgts
  | TContract src _ _ _ _ tr _ _ _ => In src U /\ Forall (ev_closed U) tr
  | TLock src _ _ => In src U
  | TRefundReq src _ _ to _ => In src U /\ In to U
  | TFeeOnly src => In src U
  | TOperatorNode src _ => In src U
  end.

(* gas fees are uint64 * price, stakes and refund amounts uint64 * 10^18, rewards Float64ToBigInt of a positive float *)
Definition tx_wf (t : tx) : Prop :=
  match t with
  | TContract _ _ _ _ _ tr _ g stale => 0 <= g /\ match stale with Some s => 0 <= s | None => True end /\ Forall ev_wf tr
  | TLock _ stake _ => 0 <= stake
  | TRefundReq _ amount _ _ _ => 0 <= amount
  | _ => True
  end.

Definition op_closed (U : list addr) (o : op) : Prop :=
  match o with
  | OTx t => tx_closed U t
  | OReward _ rs => Forall (fun p => In (fst p) U) rs
  | OCheckAndMove _ => True
  end.

Definition op_wf (o : op) : Prop :=
  match o with
  | OTx t => tx_wf t
  | OReward _ rs => Forall (fun p => 0 <= snd p) rs
  | OCheckAndMove _ => True
  end.

Definition universe (U : list addr) : Prop := NoDup U /\ In fee_account U.
