(* C06 proofs: non-negativity and conservation for every ledger operation, trace and history. *)
From Coq Require Import List ZArith NArith Lia Bool.
From V.C06 Require Import Model.
Import ListNotations.
Local Open Scope Z_scope.

(* ---------- pointwise update and finite sums ---------- *)
Lemma upd_same : forall b a v, upd b a v a = v.
Proof. intros. unfold upd. now rewrite N.eqb_refl. Qed.

Lemma upd_other : forall b a v x, x <> a -> upd b a v x = b x.
Proof. intros. unfold upd. destruct (N.eqb_spec x a); congruence. Qed.

Lemma sumU_upd_notin : forall U b a v, ~ In a U -> sumU U (upd b a v) = sumU U b.
Proof.
  induction U as [|x U IH]; intros b a v Hn; cbn [sumU]; [reflexivity|].
  rewrite upd_other by (intro; subst; apply Hn; now left).
  rewrite IH; [reflexivity|]. intro; apply Hn; now right.
Qed.

Lemma sumU_upd_in : forall U b a v, NoDup U -> In a U -> sumU U (upd b a v) = sumU U b - b a + v.
Proof.
  induction U as [|x U IH]; intros b a v Hnd Hin; [destruct Hin|].
  inversion Hnd as [|? ? Hx Hnd']; subst. cbn [sumU].
  destruct (N.eq_dec x a) as [->|Hne].
  - rewrite upd_same, sumU_upd_notin by assumption. lia.
  - rewrite upd_other by assumption. destruct Hin as [->|Hin]; [congruence|].
    rewrite IH by assumption. lia.
Qed.

Definition bnonneg (b : bals) : Prop := forall a, 0 <= b a.

Lemma upd_nonneg : forall b a v, bnonneg b -> 0 <= v -> bnonneg (upd b a v).
Proof. intros b a v Hb Hv x. unfold upd. destruct (N.eqb x a); auto. Qed.

(* AddFT always stores a magnitude *)
Lemma add_bal_nonneg : forall b a v, bnonneg b -> bnonneg (add_bal b a v).
Proof. intros. unfold add_bal. apply upd_nonneg; [assumption|apply Z.abs_nonneg]. Qed.

Lemma sub_bal_nonneg : forall b a v, bnonneg b -> bnonneg (fst (sub_bal b a v)).
Proof.
  intros b a v Hb. unfold sub_bal. destruct (Z.ltb_spec (b a) v); cbn [fst]; [assumption|].
  apply upd_nonneg; [assumption|lia].
Qed.

Lemma add_bal_sum : forall U b a v, NoDup U -> In a U -> 0 <= b a + v ->
  sumU U (add_bal b a v) = sumU U b + v.
Proof. intros. unfold add_bal. rewrite sumU_upd_in by assumption. rewrite Z.abs_eq by assumption. lia. Qed.

Lemma sub_bal_ok : forall b a v, v <= b a -> sub_bal b a v = (upd b a (b a - v), true).
Proof. intros. unfold sub_bal. destruct (Z.ltb_spec (b a) v); [lia|reflexivity]. Qed.

Lemma sub_bal_fail : forall b a v, b a < v -> sub_bal b a v = (b, false).
Proof. intros. unfold sub_bal. destruct (Z.ltb_spec (b a) v); [reflexivity|lia]. Qed.

Lemma sub_bal_sum_ok : forall U b a v, NoDup U -> In a U -> v <= b a ->
  sumU U (fst (sub_bal b a v)) = sumU U b - v.
Proof. intros. rewrite sub_bal_ok by assumption. cbn [fst]. rewrite sumU_upd_in by assumption. lia. Qed.

(* a checked debit followed by the matching credit moves value without creating any *)
Lemma move_sum : forall U b from to v, NoDup U -> In from U -> In to U -> bnonneg b ->
  0 <= v -> v <= b from ->
  sumU U (add_bal (fst (sub_bal b from v)) to v) = sumU U b.
Proof.
  intros U b from to v Hnd Hf Ht Hb Hv Hle.
  rewrite add_bal_sum; try assumption.
  - rewrite sub_bal_sum_ok by assumption. lia.
  - pose proof (sub_bal_nonneg b from v Hb to). lia.
Qed.

Lemma move_nonneg : forall b from to v, bnonneg b -> bnonneg (add_bal (fst (sub_bal b from v)) to v).
Proof. intros. apply add_bal_nonneg, sub_bal_nonneg; assumption. Qed.

(* ---------- the invariant ---------- *)
Definition good (U : list addr) (W : Z) (l : led) : Prop :=
  nonneg l /\ sched_ok U (sched l) /\ wealth U l + burned l = W.

Lemma good_set_bal : forall U W l b, good U W l -> bnonneg b -> sumU U b = sumU U (bal l) ->
  good U W (set_bal l b).
Proof.
  intros U W l b (Hn & Hs & Hw) Hb Hsum. unfold good, nonneg, wealth in *. cbn. repeat split; try assumption. lia.
Qed.

(* ---------- fees ---------- *)
Lemma fee_step_good : forall U W l src, universe U -> In src U -> good U W l ->
  good U W (fst (fee_step l src)).
Proof.
  intros U W l src (Hnd & Hfee) Hsrc Hg. unfold fee_step.
  destruct (Z.ltb_spec (bal l src) tx_fee); cbn [fst]; [assumption|].
  destruct Hg as (Hn & Hs & Hw).
  apply good_set_bal; [repeat split; assumption| |].
  - apply move_nonneg; exact Hn.
  - apply move_sum; try assumption; try exact Hn; unfold tx_fee; lia.
Qed.

Lemma deduct_clamped_good : forall U W l src g, universe U -> In src U -> 0 <= g -> good U W l ->
  good U W (deduct_clamped l src g).
Proof.
  intros U W l src g (Hnd & Hfee) Hsrc Hg0 Hg. unfold deduct_clamped.
  destruct Hg as (Hn & Hs & Hw).
  apply good_set_bal; [repeat split; assumption| |].
  - apply move_nonneg; exact Hn.
  - apply move_sum; try assumption; try exact Hn;
      destruct (Z.ltb_spec (bal l src) g); try lia; apply Hn.
Qed.

Lemma fail_charge_good : forall U W l src g, universe U -> In src U ->
  match g with Some s => 0 <= s | None => True end -> good U W l -> good U W (fail_charge l src g).
Proof. intros U W l src [g|] HU Hs Hg Hgood; cbn [fail_charge]; [apply deduct_clamped_good|]; assumption. Qed.

(* ---------- transfers ---------- *)
Lemma transfer_balance_good : forall U b src tgt amount b', NoDup U -> In src U -> In tgt U -> bnonneg b ->
  transfer_balance b src tgt amount = Some b' -> bnonneg b' /\ sumU U b' = sumU U b.
Proof.
  intros U b src tgt [v|] b' Hnd Hs Ht Hb; cbn [transfer_balance]; [|discriminate].
  destruct (Z.ltb_spec v 0); [discriminate|]. destruct (Z.ltb_spec (b src) v); [discriminate|].
  intros [= <-]. split.
  - apply sub_bal_nonneg, add_bal_nonneg; assumption.
  - assert (Ha : sumU U (add_bal b tgt v) = sumU U b + v) by (apply add_bal_sum; try assumption; specialize (Hb tgt); lia).
    rewrite sub_bal_sum_ok; try assumption; [lia|].
    unfold add_bal. destruct (N.eq_dec src tgt) as [->|Hne].
    + rewrite upd_same. specialize (Hb tgt). rewrite Z.abs_eq; lia.
    + rewrite upd_other by assumption. assumption.
Qed.

Lemma change_assets_good : forall U src tgts b b', NoDup U -> In src U -> Forall (fun p => In (fst p) U) tgts ->
  bnonneg b -> change_assets b src tgts = Some b' -> bnonneg b' /\ sumU U b' = sumU U b.
Proof.
  intros U src tgts. induction tgts as [|[t a] r IH]; intros b b' Hnd Hs Hf Hb; cbn [change_assets].
  - intros [= <-]. split; [assumption|reflexivity].
  - inversion Hf as [|? ? Ht Hr]; subst. cbn [fst] in Ht.
    destruct (transfer_balance b src t a) as [b1|] eqn:E; [|discriminate].
    destruct (transfer_balance_good U b src t a b1 Hnd Hs Ht Hb E) as (Hb1 & Hs1).
    intros H. destruct (IH b1 b' Hnd Hs Hr Hb1 H) as (Hb' & Hs'). split; [assumption|lia].
Qed.

(* ---------- EVM traces ---------- *)
Definition goodst (U : list addr) (W : Z) (c : led * list (N * led)) : Prop :=
  good U W (fst c) /\ Forall (fun p => good U W (snd p)) (snd c).

Lemma revert_to_good : forall U W id st cur, good U W cur -> Forall (fun p => good U W (snd p)) st ->
  goodst U W (revert_to id st cur).
Proof.
  intros U W id st. induction st as [|[i l] r IH]; intros cur Hc Hst; cbn [revert_to].
  - split; [assumption|constructor].
  - inversion Hst as [|? ? Hl Hr]; subst. cbn [snd] in Hl.
    destruct (N.eqb i id); [split; assumption|]. apply IH; assumption.
Qed.

Lemma transfer_repaired_good : forall U W l from to v, universe U -> In from U -> In to U -> good U W l ->
  can_transfer repaired (bal l) from v = true -> good U W (set_bal l (transfer (bal l) from to v)).
Proof.
  intros U W l from to v (Hnd & _) Hf Ht Hg Hc. unfold can_transfer in Hc. cbn [cantransfer_signed repaired] in Hc.
  apply andb_prop in Hc. destruct Hc as (H0 & Hle). apply Z.leb_le in H0. apply Z.leb_le in Hle.
  pose proof Hg as (Hn & _ & _).
  apply good_set_bal; [assumption| |]; unfold transfer.
  - apply move_nonneg; exact Hn.
  - apply move_sum; try assumption; exact Hn.
Qed.

Lemma exec_ev_good : forall U W e c, universe U -> ev_closed U e -> ev_wf e -> goodst U W c ->
  goodst U W (exec_ev repaired e c).
Proof.
  intros U W e [l st] HU Hcl Hwf (Hg & Hst). cbn [fst snd] in Hg, Hst.
  destruct e as [from to v|a b|a v|o a req rel h|id|id]; cbn [exec_ev ev_closed ev_wf] in *.
  - destruct Hcl as (Hf & Ht). destruct (can_transfer repaired (bal l) from v) eqn:E; split; cbn [fst snd]; try assumption.
    apply transfer_repaired_good; assumption.
  - destruct Hcl as (Ha & Hb). destruct HU as (Hnd & Hfee). destruct Hg as (Hn & Hs & Hw).
    split; cbn [fst snd]; [|assumption].
    assert (Hab : bnonneg (add_bal (bal l) b (bal l a))) by (apply add_bal_nonneg; exact Hn).
    repeat split; cbn [bal locked sched burned]; try assumption.
    + apply upd_nonneg; [assumption|lia].
    + unfold wealth in *. cbn [bal locked sched].
      rewrite sumU_upd_in by assumption.
      rewrite add_bal_sum; try assumption.
      2:{ pose proof (Hn a); pose proof (Hn b); lia. }
      unfold add_bal. destruct (N.eqb_spec a b) as [->|Hne].
      * rewrite upd_same. pose proof (Hn b). rewrite Z.abs_eq by lia. lia.
      * rewrite upd_other by assumption. lia.
  - destruct (sub_bal (bal l) a v) as [b' [|]] eqn:E; split; cbn [fst snd]; try assumption.
    destruct HU as (Hnd & Hfee). destruct Hg as (Hn & Hs & Hw).
    unfold sub_bal in E. destruct (Z.ltb_spec (bal l a) v); [discriminate|]. injection E as <-.
    repeat split; cbn [bal locked sched burned]; try assumption.
    + apply upd_nonneg; [exact Hn|lia].
    + unfold wealth in *. cbn [bal locked sched]. rewrite sumU_upd_in by assumption. lia.
  - destruct Hcl as (Ho & Ha). destruct Hwf as (Hq & Hr). destruct Hg as (Hn & Hs & Hw).
    split; cbn [fst snd]; [|assumption]. cbn [unstake_clamped repaired].
    repeat split; cbn [bal locked sched burned]; try assumption.
    + constructor; [cbn [fst snd]; split; [assumption|lia]|].
      destruct (Z.ltb_spec req rel); [constructor; [cbn [fst snd]; split; [assumption|lia]|assumption]|assumption].
    + unfold wealth in *. cbn [bal locked sched sched_total].
      destruct (Z.ltb_spec req rel); cbn [sched_total]; lia.
  - split; cbn [fst snd]; [assumption|]. constructor; assumption.
  - apply revert_to_good; assumption.
Qed.

Lemma exec_trace_st_good : forall U W tr c, universe U -> Forall (ev_closed U) tr -> Forall ev_wf tr -> goodst U W c ->
  goodst U W (exec_trace_st repaired tr c).
Proof.
  intros U W tr. induction tr as [|e r IH]; intros c HU Hcl Hwf Hg; cbn [exec_trace_st fold_left]; [assumption|].
  inversion Hcl; inversion Hwf; subst. apply IH; try assumption. apply exec_ev_good; assumption.
Qed.

Lemma exec_trace_good : forall U W tr l, universe U -> Forall (ev_closed U) tr -> Forall ev_wf tr -> good U W l ->
  good U W (exec_trace repaired tr l).
Proof.
  intros. unfold exec_trace. apply (exec_trace_st_good U W tr (l, [])); try assumption.
  split; [assumption|constructor].
Qed.

(* non-negativity alone needs no hypothesis on the trace, the universe or the variant *)
Lemma revert_to_nonneg : forall id st cur, nonneg cur -> Forall (fun p => nonneg (snd p)) st ->
  nonneg (fst (revert_to id st cur)) /\ Forall (fun p => nonneg (snd p)) (snd (revert_to id st cur)).
Proof.
  intros id st. induction st as [|[i l] r IH]; intros cur Hc Hst; cbn [revert_to].
  - split; [assumption|constructor].
  - inversion Hst; subst. destruct (N.eqb i id); [split; assumption|]. apply IH; assumption.
Qed.

Lemma exec_ev_nonneg : forall var e c, nonneg (fst c) -> Forall (fun p => nonneg (snd p)) (snd c) ->
  nonneg (fst (exec_ev var e c)) /\ Forall (fun p => nonneg (snd p)) (snd (exec_ev var e c)).
Proof.
  intros var e [l st] Hn Hst. cbn [fst snd] in *.
  destruct e as [from to v|a b|a v|o a req rel h|id|id]; cbn [exec_ev].
  - destruct (can_transfer var (bal l) from v); cbn [fst snd]; split; try assumption.
    unfold nonneg, set_bal; cbn [bal]. apply move_nonneg. exact Hn.
  - cbn [fst snd]. split; [|assumption]. unfold nonneg; cbn [bal].
    apply upd_nonneg; [apply add_bal_nonneg; exact Hn|lia].
  - destruct (sub_bal (bal l) a v) as [b' [|]] eqn:E; cbn [fst snd]; split; try assumption.
    unfold nonneg; cbn [bal]. change b' with (fst (b', true)). rewrite <- E. apply sub_bal_nonneg. exact Hn.
  - cbn [fst snd]. split; assumption.
  - cbn [fst snd]. split; [assumption|constructor; assumption].
  - apply revert_to_nonneg; assumption.
Qed.

Lemma exec_trace_st_nonneg : forall var tr c, nonneg (fst c) -> Forall (fun p => nonneg (snd p)) (snd c) ->
  nonneg (fst (exec_trace_st var tr c)).
Proof.
  intros var tr. induction tr as [|e r IH]; intros c Hn Hst; cbn [exec_trace_st fold_left]; [assumption|].
  destruct (exec_ev_nonneg var e c Hn Hst). apply IH; assumption.
Qed.

Lemma exec_trace_nonneg : forall var tr l, nonneg l -> nonneg (exec_trace var tr l).
Proof. intros. unfold exec_trace. apply exec_trace_st_nonneg; cbn [fst snd]; [assumption|constructor]. Qed.

(* ---------- transactions ---------- *)
Lemma fee_step_cases : forall l src, snd (fee_step l src) = false -> fst (fee_step l src) = l.
Proof. intros l src. unfold fee_step. destruct (bal l src <? tx_fee); cbn; [reflexivity|discriminate]. Qed.

Lemma exec_tx_good : forall U W t l, universe U -> tx_closed U t -> tx_wf t -> good U W l ->
  good U W (exec_tx repaired t l).
Proof.
  intros U W t l HU Hcl Hwf Hg.
  destruct t as [src tgts|src dok lf val iok tr eok g stale|src stake rok|src amount h to rok|src|src ok];
    cbn [exec_tx tx_closed tx_wf] in *.
  - destruct Hcl as (Hs & Ht). pose proof (fee_step_good U W l src HU Hs Hg) as H1.
    destruct (fee_step l src) as [l1 [|]]; cbn [fst] in H1; [|assumption].
    destruct (change_assets (bal l1) src tgts) as [b|] eqn:E; [|assumption].
    destruct HU as (Hnd & _). pose proof H1 as (Hn1 & _ & _).
    destruct (change_assets_good U src tgts (bal l1) b Hnd Hs Ht Hn1 E) as (Hb & Hsum).
    apply good_set_bal; assumption.
  - destruct Hcl as (Hs & Ht). destruct Hwf as (Hg0 & Hst & Htr). pose proof (fee_step_good U W l src HU Hs Hg) as H1.
    destruct (fee_step l src) as [l1 [|]]; cbn [fst] in H1; [|assumption].
    destruct (negb dok); [assumption|]. destruct (bal l1 src <? lf + val); [assumption|].
    destruct (negb iok); [apply fail_charge_good; assumption|].
    destruct eok.
    + unfold gas_charge. cbn [gas_clamped repaired]. apply deduct_clamped_good; try assumption.
      apply exec_trace_good; assumption.
    + apply fail_charge_good; assumption.
  - pose proof (fee_step_good U W l src HU Hcl Hg) as H1.
    destruct (fee_step l src) as [l1 [|]]; cbn [fst] in H1; [|assumption].
    destruct rok; [|assumption].
    destruct (sub_bal (bal l1) src stake) as [b [|]] eqn:E; [|assumption].
    destruct HU as (Hnd & _). destruct H1 as (Hn & Hs & Hw).
    unfold sub_bal in E. destruct (Z.ltb_spec (bal l1 src) stake); [discriminate|]. injection E as <-.
    repeat split; cbn [bal locked sched burned]; try assumption.
    + apply upd_nonneg; [exact Hn|lia].
    + unfold wealth in *. cbn [bal locked sched]. rewrite sumU_upd_in by assumption. lia.
  - destruct Hcl as (Hs & Ht). pose proof (fee_step_good U W l src HU Hs Hg) as H1.
    destruct (fee_step l src) as [l1 [|]]; cbn [fst] in H1; [|assumption].
    destruct rok; [|assumption].
    destruct H1 as (Hn & Hsc & Hw).
    repeat split; cbn [bal locked sched burned]; try assumption.
    + constructor; [cbn; split; assumption|assumption].
    + unfold wealth in *. cbn [bal locked sched sched_total]. lia.
  - apply fee_step_good; assumption.
  - pose proof (fee_step_good U W l src HU Hcl Hg) as H1.
    destruct (fee_step l src) as [l1 [|]]; cbn [fst] in H1; [|assumption].
    destruct ok; [|assumption].
    destruct (sub_bal (bal l1) src ten_tokens) as [b [|]] eqn:E; [|assumption].
    destruct HU as (Hnd & _). destruct H1 as (Hn & Hs & Hw).
    unfold sub_bal in E. destruct (Z.ltb_spec (bal l1 src) ten_tokens); [discriminate|]. injection E as <-.
    repeat split; cbn [bal locked sched burned]; try assumption.
    + apply upd_nonneg; [exact Hn|lia].
    + unfold wealth in *. cbn [bal locked sched]. rewrite sumU_upd_in by assumption. lia.
Qed.

(* ---------- block-level operations ---------- *)
Lemma sched_total_app : forall a b, sched_total (a ++ b) = sched_total a + sched_total b.
Proof. induction a as [|[[h x] v] r IH]; intros; cbn [app sched_total]; [lia|rewrite IH; lia]. Qed.

Lemma sched_total_rewards : forall h rs,
  sched_total (map (fun p : addr * Z => (h, fst p, snd p)) rs) = fold_right (fun p acc => snd p + acc) 0 rs.
Proof. induction rs as [|[a v] r IH]; cbn; [reflexivity|rewrite IH; reflexivity]. Qed.

Lemma credit_due_good : forall U h s b, NoDup U -> sched_ok U s -> bnonneg b ->
  bnonneg (fst (credit_due h s b)) /\ sched_ok U (snd (credit_due h s b)) /\
  sumU U (fst (credit_due h s b)) = sumU U b + due_total h s /\
  sched_total (snd (credit_due h s b)) = sched_total s - due_total h s.
Proof.
  intros U h s. induction s as [|[[h' a] v] r IH]; intros b Hnd Hs Hb; cbn [credit_due due_total sched_total].
  - cbn. repeat split; try assumption; lia.
  - inversion Hs as [|? ? Hx Hr]; subst. cbn [fst snd] in Hx. destruct Hx as (Ha & Hv).
    destruct (IH b Hnd Hr Hb) as (H1 & H2 & H3 & H4).
    destruct (credit_due h r b) as [b' r']. cbn [fst snd] in *.
    destruct (N.eqb h' h); cbn [fst snd sched_total].
    + repeat split; try assumption; try lia.
      * apply add_bal_nonneg; assumption.
      * rewrite add_bal_sum; try assumption; [lia|]. specialize (H1 a). lia.
    + repeat split; try assumption; try lia. constructor; [split; assumption|assumption].
Qed.

Lemma exec_op_good : forall U W o l, universe U -> op_closed U o -> op_wf o -> good U W l ->
  good U (W + minted o) (exec_op repaired o l).
Proof.
  intros U W o l HU Hcl Hwf Hg. destruct o as [t|h rs|h]; cbn [exec_op minted op_closed op_wf] in *.
  - rewrite Z.add_0_r. apply exec_tx_good; assumption.
  - destruct Hg as (Hn & Hs & Hw). repeat split; cbn [bal locked sched burned]; try assumption.
    + unfold sched_ok. apply Forall_app. split; [|assumption].
      apply Forall_forall. intros e He. apply in_map_iff in He. destruct He as ([a v] & <- & Hin). cbn [fst snd].
      rewrite Forall_forall in Hcl, Hwf. split; [apply (Hcl (a, v) Hin)|apply (Hwf (a, v) Hin)].
    + unfold wealth in *. cbn [bal locked sched]. rewrite sched_total_app, sched_total_rewards. lia.
  - rewrite Z.add_0_r. destruct HU as (Hnd & _). destruct Hg as (Hn & Hs & Hw).
    destruct (credit_due_good U h (sched l) (bal l) Hnd Hs Hn) as (H1 & H2 & H3 & H4).
    destruct (credit_due h (sched l) (bal l)) as [b s]. cbn [fst snd] in *.
    repeat split; cbn [bal locked sched burned]; try assumption.
    unfold wealth in *. cbn [bal locked sched]. lia.
Qed.

Fixpoint minted_all (ops : list op) : Z := match ops with [] => 0 | o :: r => minted o + minted_all r end.

Lemma run_good : forall U ops W l, universe U -> Forall (op_closed U) ops -> Forall op_wf ops -> good U W l ->
  good U (W + minted_all ops) (run repaired ops l).
Proof.
  intros U ops. induction ops as [|o r IH]; intros W l HU Hc Hw Hg; cbn [run fold_left minted_all].
  - now rewrite Z.add_0_r.
  - inversion Hc; inversion Hw; subst. rewrite Z.add_assoc. apply IH; try assumption.
    apply exec_op_good; assumption.
Qed.

(* ---------- non-negativity of every operation, any variant, no side conditions ---------- *)
Lemma fee_step_nonneg : forall l src, nonneg l -> nonneg (fst (fee_step l src)).
Proof.
  intros l src Hn. unfold fee_step. destruct (bal l src <? tx_fee); cbn [fst]; [assumption|].
  unfold nonneg, set_bal; cbn [bal]. apply move_nonneg; exact Hn.
Qed.

Lemma deduct_clamped_nonneg : forall l src g, nonneg l -> nonneg (deduct_clamped l src g).
Proof. intros l src g Hn. unfold deduct_clamped, nonneg, set_bal; cbn [bal]. apply move_nonneg; exact Hn. Qed.

Lemma fail_charge_nonneg : forall l src g, nonneg l -> nonneg (fail_charge l src g).
Proof. intros l src [g|] Hn; cbn [fail_charge]; [apply deduct_clamped_nonneg|]; assumption. Qed.

Lemma gas_charge_nonneg : forall var l src g, nonneg l -> nonneg (gas_charge var l src g).
Proof.
  intros var l src g Hn. unfold gas_charge. destruct (gas_clamped var); [apply deduct_clamped_nonneg; assumption|].
  unfold nonneg, set_bal; cbn [bal]. apply move_nonneg; exact Hn.
Qed.

Lemma change_assets_nonneg : forall src tgts b b', bnonneg b -> change_assets b src tgts = Some b' -> bnonneg b'.
Proof.
  intros src tgts. induction tgts as [|[t a] r IH]; intros b b' Hb; cbn [change_assets].
  - intros [= <-]; assumption.
  - destruct (transfer_balance b src t a) as [b1|] eqn:E; [|discriminate]. apply IH.
    destruct a as [v|]; cbn [transfer_balance] in E; [|discriminate].
    destruct (v <? 0); [discriminate|]. destruct (b src <? v); [discriminate|]. injection E as <-.
    apply sub_bal_nonneg, add_bal_nonneg; assumption.
Qed.

Lemma sub_bal_snd_nonneg : forall b a v b' r, bnonneg b -> sub_bal b a v = (b', r) -> bnonneg b'.
Proof. intros b a v b' r Hb E. change b' with (fst (b', r)). rewrite <- E. apply sub_bal_nonneg; assumption. Qed.

Lemma exec_tx_nonneg : forall var t l, nonneg l -> nonneg (exec_tx var t l).
Proof.
  intros var t l Hn.
  destruct t as [src tgts|src dok lf val iok tr eok g stale|src stake rok|src amount h to rok|src|src ok]; cbn [exec_tx];
    pose proof (fee_step_nonneg l src Hn) as H1; destruct (fee_step l src) as [l1 [|]]; cbn [fst] in H1; try assumption.
  - destruct (change_assets (bal l1) src tgts) as [b|] eqn:E; [|assumption].
    unfold nonneg, set_bal; cbn [bal]. eapply change_assets_nonneg; [exact H1|exact E].
  - destruct (negb dok); [assumption|]. destruct (bal l1 src <? lf + val); [assumption|].
    destruct (negb iok); [apply fail_charge_nonneg; assumption|].
    destruct eok; [apply gas_charge_nonneg, exec_trace_nonneg; assumption|apply fail_charge_nonneg; assumption].
  - destruct rok; [|assumption]. destruct (sub_bal (bal l1) src stake) as [b [|]] eqn:E; [|assumption].
    unfold nonneg; cbn [bal]. eapply sub_bal_snd_nonneg; [exact H1|exact E].
  - destruct rok; assumption.
  - destruct ok; [|assumption]. destruct (sub_bal (bal l1) src ten_tokens) as [b [|]] eqn:E; [|assumption].
    unfold nonneg; cbn [bal]. eapply sub_bal_snd_nonneg; [exact H1|exact E].
Qed.

Lemma credit_due_nonneg : forall h s b, bnonneg b -> bnonneg (fst (credit_due h s b)).
Proof.
  intros h s. induction s as [|[[h' a] v] r IH]; intros b Hb; cbn [credit_due]; [assumption|].
  specialize (IH b Hb). destruct (credit_due h r b) as [b' r']. cbn [fst] in *.
  destruct (N.eqb h' h); cbn [fst]; [apply add_bal_nonneg|]; assumption.
Qed.

Lemma exec_op_nonneg : forall var o l, nonneg l -> nonneg (exec_op var o l).
Proof.
  intros var o l Hn. destruct o as [t|h rs|h]; cbn [exec_op].
  - apply exec_tx_nonneg; assumption.
  - exact Hn.
  - pose proof (credit_due_nonneg h (sched l) (bal l) Hn) as H. destruct (credit_due h (sched l) (bal l)) as [b s].
    exact H.
Qed.

Lemma run_nonneg : forall var ops l, nonneg l -> nonneg (run var ops l).
Proof.
  intros var ops. induction ops as [|o r IH]; intros l Hn; cbn [run fold_left]; [assumption|].
  apply IH, exec_op_nonneg; assumption.
Qed.

(* ---------- exact characterisation of the individual deltas ---------- *)
Lemma credit_exact : forall U h l, universe U -> nonneg l -> sched_ok U (sched l) ->
  sumU U (bal (exec_op repaired (OCheckAndMove h) l)) = sumU U (bal l) + due_total h (sched l) /\
  sched_total (sched (exec_op repaired (OCheckAndMove h) l)) = sched_total (sched l) - due_total h (sched l) /\
  locked (exec_op repaired (OCheckAndMove h) l) = locked l.
Proof.
  intros U h l (Hnd & _) Hn Hs. cbn [exec_op].
  destruct (credit_due_good U h (sched l) (bal l) Hnd Hs Hn) as (H1 & H2 & H3 & H4).
  destruct (credit_due h (sched l) (bal l)) as [b s]. cbn [fst snd bal locked sched] in *. repeat split; assumption.
Qed.

(* a trace without self-suicide burns nothing *)
Definition no_self_suicide (e : ev) : Prop := match e with ESuicide a b => a <> b | _ => True end.

Definition burned_le (B : Z) (c : led * list (N * led)) : Prop :=
  burned (fst c) = B /\ Forall (fun p => burned (snd p) = B) (snd c).

Lemma revert_to_burned : forall B id st cur, burned cur = B -> Forall (fun p => burned (snd p) = B) st ->
  burned_le B (revert_to id st cur).
Proof.
  intros B id st. induction st as [|[i l] r IH]; intros cur Hc Hst; cbn [revert_to].
  - split; [assumption|constructor].
  - apply Forall_cons_iff in Hst. destruct Hst as (Hl & Hr). cbn [snd] in Hl.
    destruct (N.eqb i id); [split; assumption|]. apply IH; assumption.
Qed.

Lemma exec_trace_no_burn : forall var tr c B, Forall no_self_suicide tr -> burned_le B c ->
  burned_le B (exec_trace_st var tr c).
Proof.
  intros var tr. induction tr as [|e r IH]; intros [l st] B Hns Hb; cbn [exec_trace_st fold_left]; [assumption|].
  inversion Hns as [|? ? He Hr]; subst. apply IH; [assumption|].
  destruct Hb as (Hb & Hst). cbn [fst snd] in *.
  destruct e as [from to v|a b|a v|o a req rel h|id|id]; cbn [exec_ev].
  - destruct (can_transfer var (bal l) from v); split; cbn [fst snd]; assumption.
  - cbn [no_self_suicide] in He. split; cbn [fst snd burned]; [|assumption].
    destruct (N.eqb_spec a b); [congruence|lia].
  - destruct (sub_bal (bal l) a v) as [b' [|]]; split; cbn [fst snd burned]; assumption.
  - split; cbn [fst snd burned]; assumption.
  - split; cbn [fst snd]; [assumption|constructor; assumption].
  - apply revert_to_burned; assumption.
Qed.

(* ---------- the two defects of the original source, as theorems about the original variant ---------- *)
(* origin 1 holds 100 tokens + the tx fee; the frame moves all of it to 2 (AUTHCALL value = BALANCE(ORIGIN));
   the unchecked SubBalance(source, gas fee) fails, AddBalance(FeeAccount, gas fee) still credits. *)
Definition U3 : list addr := [0%N; 1%N; 2%N].
Ltac inU := cbn; repeat (first [left; reflexivity | right]).
Definition l_mint : led :=
  {| bal := fun a => if N.eqb a 1 then 100000000000000000000 + tx_fee else 0; locked := 0; sched := []; burned := 0 |}.
Definition tx_mint : tx :=
  TContract 1%N true 3000000000000000 0 true [EValue 1%N 2%N 100000000000000000000] true 832560000000000 None.

Lemma gas_mint_original :
  universe U3 /\ nonneg l_mint /\ tx_closed U3 tx_mint /\ tx_wf tx_mint /\
  wealth U3 (exec_tx original tx_mint l_mint) = wealth U3 l_mint + 832560000000000 /\
  burned (exec_tx original tx_mint l_mint) = 0.
Proof.
  assert (HU : universe U3) by (split; [repeat constructor; cbn; intuition discriminate|cbn; auto]).
  assert (Hn : nonneg l_mint) by (intro a; cbn; destruct (N.eqb a 1); unfold tx_fee; lia).
  assert (Hc : tx_closed U3 tx_mint) by (split; [inU|repeat constructor; inU]).
  assert (Hw : tx_wf tx_mint) by (cbn; repeat split; try lia; repeat constructor).
  repeat (split; [assumption|]). vm_compute. split; reflexivity.
Qed.

(* a contract call carrying transferValue = -5 tokens from 1 to 2 *)
Definition l_neg : led :=
  {| bal := fun a => if N.eqb a 1 then 5000000000000000000000 else 0; locked := 0; sched := []; burned := 0 |}.
Definition tx_neg : tx :=
  TContract 1%N true 1000000000000000 (-5000000000000000000) true [EValue 1%N 2%N (-5000000000000000000)] true 630000000000000 None.

Lemma negative_value_original :
  universe U3 /\ nonneg l_neg /\ tx_closed U3 tx_neg /\ tx_wf tx_neg /\
  wealth U3 (exec_tx original tx_neg l_neg) = wealth U3 l_neg + 10000000000000000000.
Proof.
  assert (HU : universe U3) by (split; [repeat constructor; cbn; intuition discriminate|cbn; auto]).
  assert (Hn : nonneg l_neg) by (intro a; cbn; destruct (N.eqb a 1); lia).
  assert (Hc : tx_closed U3 tx_neg) by (split; [inU|repeat constructor; inU]).
  assert (Hw : tx_wf tx_neg) by (cbn; repeat split; try lia; repeat constructor).
  repeat (split; [assumption|]). vm_compute. reflexivity.
Qed.

(* under the guards that exclude the two defects the original source behaves like the repaired one *)
Definition ev_guard (e : ev) : Prop :=
  match e with EValue _ _ v => 0 <= v | EUnstake _ _ req rel _ => req <= rel | _ => True end.

Lemma exec_ev_original_eq : forall e c, ev_guard e -> exec_ev original e c = exec_ev repaired e c.
Proof.
  intros e [l st] H. destruct e as [from to v|a b|a v|o a req rel h|id|id]; cbn [exec_ev]; try reflexivity.
  - cbn [ev_guard] in H. unfold can_transfer. cbn [cantransfer_signed original repaired].
    destruct (Z.leb_spec 0 v); [reflexivity|lia].
  - cbn [ev_guard] in H. cbn [unstake_clamped original repaired]. rewrite Z.min_l by assumption. reflexivity.
Qed.

Lemma exec_trace_original_eq : forall tr c, Forall ev_guard tr ->
  exec_trace_st original tr c = exec_trace_st repaired tr c.
Proof.
  induction tr as [|e r IH]; intros c H; cbn [exec_trace_st fold_left]; [reflexivity|].
  inversion H; subst. rewrite exec_ev_original_eq by assumption. apply IH; assumption.
Qed.

Lemma gas_charge_original_eq : forall l src g, g <= bal l src -> gas_charge original l src g = gas_charge repaired l src g.
Proof.
  intros l src g H. unfold gas_charge, deduct_clamped. cbn [gas_clamped original repaired].
  destruct (Z.ltb_spec (bal l src) g); [lia|reflexivity].
Qed.

(* the guard: when the EVM succeeded, the source can still pay the gas fee after the frame *)
Definition gas_guard (t : tx) (l : led) : Prop :=
  match t with
  | TContract src dok lf val iok tr true g _ =>
    Forall ev_guard tr /\ g <= bal (exec_trace repaired tr (fst (fee_step l src))) src
  | TContract _ _ _ _ _ tr false _ _ => Forall ev_guard tr
  | _ => True
  end.

Lemma exec_tx_original_eq : forall t l, gas_guard t l -> exec_tx original t l = exec_tx repaired t l.
Proof.
  intros t l H. destruct t as [src tgts|src dok lf val iok tr eok g stale|src stake rok|src amount h to rok|src|src ok];
    cbn [exec_tx]; try reflexivity.
  cbn [gas_guard] in H. destruct (fee_step l src) as [l1 [|]] eqn:E; [|reflexivity].
  destruct (negb dok); [reflexivity|]. destruct (bal l1 src <? lf + val); [reflexivity|].
  destruct (negb iok); [reflexivity|].
  assert (Et : exec_trace original tr l1 = exec_trace repaired tr l1).
  { unfold exec_trace. rewrite exec_trace_original_eq; [reflexivity|]. destruct eok; [apply H|exact H]. }
  destruct eok; [|reflexivity]. rewrite Et. cbn [fst] in H. apply gas_charge_original_eq. apply H.
Qed.

(* ---------- statements in the shape of the property theorems ---------- *)
Lemma tx_conserves : forall U t l, universe U -> tx_closed U t -> tx_wf t -> nonneg l -> sched_ok U (sched l) ->
  let l' := exec_tx repaired t l in
  wealth U l' + burned l' = wealth U l + burned l /\ nonneg l' /\ sched_ok U (sched l').
Proof.
  intros U t l HU Hc Hw Hn Hs l'.
  destruct (exec_tx_good U (wealth U l + burned l) t l HU Hc Hw) as (H1 & H2 & H3); [repeat split; assumption|].
  repeat split; assumption.
Qed.

Lemma history_conserves : forall U ops l, universe U -> Forall (op_closed U) ops -> Forall op_wf ops ->
  nonneg l -> sched_ok U (sched l) ->
  let l' := run repaired ops l in
  wealth U l' + burned l' = wealth U l + burned l + minted_all ops /\ nonneg l' /\ sched_ok U (sched l').
Proof.
  intros U ops l HU Hc Hw Hn Hs l'.
  destruct (run_good U ops (wealth U l + burned l) l HU Hc Hw) as (H1 & H2 & H3); [repeat split; assumption|].
  repeat split; assumption.
Qed.

Lemma reward_exact : forall U h rs l,
  let l' := exec_op repaired (OReward h rs) l in
  sumU U (bal l') = sumU U (bal l) /\ locked l' = locked l /\ burned l' = burned l /\
  sched_total (sched l') = sched_total (sched l) + minted (OReward h rs).
Proof.
  intros U h rs l l'. subst l'. cbn [exec_op bal locked burned sched minted].
  rewrite sched_total_app, sched_total_rewards. repeat split; lia.
Qed.

Lemma trace_no_burn : forall var tr l, Forall no_self_suicide tr -> burned (exec_trace var tr l) = burned l.
Proof.
  intros var tr l H. unfold exec_trace.
  destruct (exec_trace_no_burn var tr (l, []) (burned l) H) as (Hb & _); [split; [reflexivity|constructor]|exact Hb].
Qed.

Lemma gas_mint_refuted : exists U l t, universe U /\ nonneg l /\ sched_ok U (sched l) /\ tx_closed U t /\ tx_wf t /\
  wealth U (exec_tx original t l) + burned (exec_tx original t l) > wealth U l + burned l.
Proof.
  exists U3, l_mint, tx_mint. destruct gas_mint_original as (H1 & H2 & H3 & H4 & H5 & H6).
  repeat (split; [assumption|]). split; [constructor|]. split; [assumption|]. split; [assumption|].
  rewrite H5, H6. cbn [burned l_mint]. lia.
Qed.

Lemma negative_value_mint_refuted : exists U l t, universe U /\ nonneg l /\ sched_ok U (sched l) /\ tx_closed U t /\ tx_wf t /\
  wealth U (exec_tx original t l) > wealth U l.
Proof.
  exists U3, l_neg, tx_neg. destruct negative_value_original as (H1 & H2 & H3 & H4 & H5).
  repeat (split; [assumption|]). split; [constructor|]. split; [assumption|]. split; [assumption|].
  rewrite H5. lia.
Qed.

Lemma original_conserves_under_guard : forall U t l, universe U -> tx_closed U t -> tx_wf t -> nonneg l ->
  sched_ok U (sched l) -> gas_guard t l ->
  let l' := exec_tx original t l in
  wealth U l' + burned l' = wealth U l + burned l /\ nonneg l' /\ sched_ok U (sched l').
Proof. intros U t l HU Hc Hw Hn Hs Hg. rewrite exec_tx_original_eq by assumption. apply tx_conserves; assumption. Qed.

(* ---------- the UNSTAKE defect of the original source ---------- *)
(* contract 2 is the account of a miner holding 800 tokens of stake; a call from 1 makes it run UNSTAKE(1.5 token):
   one whole token leaves the stake, 1.5 are scheduled for the origin. *)
Definition l_unstake : led :=
  {| bal := fun a => if N.eqb a 1 then 5000000000000000000 else 0; locked := 800000000000000000000; sched := []; burned := 0 |}.
Definition tx_unstake : tx :=
  TContract 1%N true 3000000000000000 0 true [EUnstake 1%N 2%N 1500000000000000000 1000000000000000000 36020%N] true
            1244000000000000 None.

Lemma unstake_original :
  universe U3 /\ nonneg l_unstake /\ tx_closed U3 tx_unstake /\ tx_wf tx_unstake /\
  wealth U3 (exec_tx original tx_unstake l_unstake) = wealth U3 l_unstake + 500000000000000000 /\
  burned (exec_tx original tx_unstake l_unstake) = 0.
Proof.
  assert (HU : universe U3) by (split; [repeat constructor; cbn; intuition discriminate|cbn; auto]).
  assert (Hn : nonneg l_unstake) by (intro a; cbn; destruct (N.eqb a 1); lia).
  assert (Hc : tx_closed U3 tx_unstake) by (split; [inU|repeat constructor; inU]).
  assert (Hw : tx_wf tx_unstake) by (cbn; repeat split; try lia; repeat constructor; cbn; lia).
  repeat (split; [assumption|]). vm_compute. split; reflexivity.
Qed.

Lemma unstake_mint_refuted : exists U l t, universe U /\ nonneg l /\ sched_ok U (sched l) /\ tx_closed U t /\ tx_wf t /\
  wealth U (exec_tx original t l) + burned (exec_tx original t l) > wealth U l + burned l.
Proof.
  exists U3, l_unstake, tx_unstake. destruct unstake_original as (H1 & H2 & H3 & H4 & H5 & H6).
  repeat (split; [assumption|]). split; [constructor|]. split; [assumption|]. split; [assumption|].
  rewrite H5, H6. cbn [burned l_unstake]. lia.
Qed.

(* ---------- what is held outside the balances (stake + escrow + destroyed) never shrinks inside a transaction ---------- *)
Definition held (l : led) : Z := locked l + sched_total (sched l) + burned l.

Lemma held_set_bal : forall l b, held (set_bal l b) = held l.
Proof. reflexivity. Qed.

Definition heldst (M : Z) (c : led * list (N * led)) : Prop :=
  M <= held (fst c) /\ Forall (fun p => M <= held (snd p)) (snd c).

Lemma revert_to_held : forall M id st cur, M <= held cur -> Forall (fun p => M <= held (snd p)) st ->
  heldst M (revert_to id st cur).
Proof.
  intros M id st. induction st as [|[i l] r IH]; intros cur Hc Hst; cbn [revert_to].
  - split; [assumption|constructor].
  - apply Forall_cons_iff in Hst. destruct Hst as (Hl & Hr). cbn [snd] in Hl.
    destruct (N.eqb i id); [split; assumption|]. apply IH; assumption.
Qed.

Lemma exec_ev_held : forall var M e c, ev_wf e -> nonneg (fst c) -> heldst M c -> heldst M (exec_ev var e c).
Proof.
  intros var M e [l st] Hwf Hn (Hh & Hst). cbn [fst snd] in *.
  destruct e as [from to v|a b|a v|o a req rel h|id|id]; cbn [exec_ev ev_wf] in *.
  - destruct (can_transfer var (bal l) from v); split; cbn [fst snd]; assumption.
  - split; cbn [fst snd]; [|assumption]. unfold held in *. cbn [locked sched burned].
    pose proof (Hn a). destruct (N.eqb a b); lia.
  - destruct (sub_bal (bal l) a v) as [b' [|]]; split; cbn [fst snd]; try assumption.
    unfold held in *. cbn [locked sched burned]. lia.
  - split; cbn [fst snd]; [|assumption]. unfold held in *. cbn [locked sched burned sched_total].
    destruct (unstake_clamped var); destruct (Z.ltb_spec req rel); cbn [sched_total]; lia.
  - split; cbn [fst snd]; [assumption|constructor; assumption].
  - apply revert_to_held; assumption.
Qed.

Lemma exec_trace_st_held : forall var M tr c, Forall ev_wf tr -> nonneg (fst c) -> Forall (fun p => nonneg (snd p)) (snd c) ->
  heldst M c -> heldst M (exec_trace_st var tr c).
Proof.
  intros var M tr. induction tr as [|e r IH]; intros c Hwf Hn Hns Hh; cbn [exec_trace_st fold_left]; [assumption|].
  inversion Hwf; subst. destruct (exec_ev_nonneg var e c Hn Hns). apply IH; try assumption.
  apply exec_ev_held; assumption.
Qed.

Lemma exec_trace_held : forall var tr l, Forall ev_wf tr -> nonneg l -> held l <= held (exec_trace var tr l).
Proof.
  intros var tr l Hwf Hn. unfold exec_trace.
  assert (Hh : heldst (held l) (l, [])) by (split; cbn [fst snd]; [lia|constructor]).
  destruct (exec_trace_st_held var (held l) tr (l, []) Hwf Hn (Forall_nil _) Hh) as (H & _). exact H.
Qed.

Lemma fee_step_held : forall l src, held (fst (fee_step l src)) = held l.
Proof. intros l src. unfold fee_step. destruct (bal l src <? tx_fee); reflexivity. Qed.

Lemma fail_charge_held : forall l src g, held (fail_charge l src g) = held l.
Proof. intros l src [g|]; reflexivity. Qed.

Lemma gas_charge_held : forall var l src g, held (gas_charge var l src g) = held l.
Proof. intros var l src g. unfold gas_charge. destruct (gas_clamped var); reflexivity. Qed.

Lemma exec_tx_held : forall var t l, tx_wf t -> nonneg l -> held l <= held (exec_tx var t l).
Proof.
  intros var t l Hwf Hn.
  destruct t as [src tgts|src dok lf val iok tr eok g stale|src stake rok|src amount h to rok|src|src ok];
    cbn [exec_tx tx_wf] in *; pose proof (fee_step_held l src) as Hf; pose proof (fee_step_nonneg l src Hn) as Hn1;
    destruct (fee_step l src) as [l1 [|]]; cbn [fst] in *; try lia.
  - destruct (change_assets (bal l1) src tgts); [rewrite held_set_bal|]; lia.
  - destruct Hwf as (_ & _ & Htr). destruct (negb dok); [lia|]. destruct (bal l1 src <? lf + val); [lia|].
    destruct (negb iok); [rewrite fail_charge_held; lia|].
    destruct eok; [rewrite gas_charge_held|rewrite fail_charge_held; lia].
    pose proof (exec_trace_held var tr l1 Htr Hn1). lia.
  - destruct rok; [|lia]. destruct (sub_bal (bal l1) src stake) as [b [|]]; [|lia].
    unfold held in *. cbn [locked sched burned]. lia.
  - destruct rok; [|lia]. unfold held in *. cbn [locked sched burned sched_total]. lia.
  - destruct ok; [|lia]. destruct (sub_bal (bal l1) src ten_tokens) as [b [|]]; [|lia].
    unfold held in *. cbn [locked sched burned]. unfold ten_tokens. lia.
Qed.

(* the sum of the balances never grows by a transaction; it shrinks by exactly what moved into stake / escrow / burn *)
Lemma tx_balances_never_increase : forall U t l, universe U -> tx_closed U t -> tx_wf t -> nonneg l -> sched_ok U (sched l) ->
  let l' := exec_tx repaired t l in
  sumU U (bal l') = sumU U (bal l) - (held l' - held l) /\ held l <= held l' /\ sumU U (bal l') <= sumU U (bal l).
Proof.
  intros U t l HU Hc Hw Hn Hs l'.
  destruct (tx_conserves U t l HU Hc Hw Hn Hs) as (H1 & _ & _). fold l' in H1.
  pose proof (exec_tx_held repaired t l Hw Hn) as H2. fold l' in H2.
  unfold wealth, held in *. repeat split; lia.
Qed.

(* ---------- a failed contract transaction leaves nothing behind but fees ---------- *)
Definition same_except (src : addr) (l l' : led) : Prop :=
  locked l' = locked l /\ sched l' = sched l /\ burned l' = burned l /\
  forall a, a <> src -> a <> fee_account -> bal l' a = bal l a.

Lemma same_except_refl : forall src l, same_except src l l.
Proof. intros; repeat split; reflexivity. Qed.

Lemma same_except_trans : forall src l1 l2 l3, same_except src l1 l2 -> same_except src l2 l3 -> same_except src l1 l3.
Proof.
  intros src l1 l2 l3 (A1 & A2 & A3 & A4) (B1 & B2 & B3 & B4). repeat split; try congruence.
  intros a H1 H2. rewrite B4, A4 by assumption. reflexivity.
Qed.

Lemma move_to_fee_except : forall l src v,
  same_except src l (set_bal l (add_bal (fst (sub_bal (bal l) src v)) fee_account v)).
Proof.
  intros l src v. repeat split. intros a H1 H2. cbn [set_bal bal]. unfold add_bal. rewrite upd_other by assumption.
  unfold sub_bal. destruct (bal l src <? v); cbn [fst]; [reflexivity|]. rewrite upd_other by assumption. reflexivity.
Qed.

Lemma fee_step_except : forall l src, same_except src l (fst (fee_step l src)).
Proof.
  intros l src. unfold fee_step. destruct (bal l src <? tx_fee); cbn [fst]; [apply same_except_refl|apply move_to_fee_except].
Qed.

Lemma fail_charge_except : forall l src g, same_except src l (fail_charge l src g).
Proof. intros l src [g|]; cbn [fail_charge]; [apply move_to_fee_except|apply same_except_refl]. Qed.

Lemma failed_contract_only_fees : forall var src dok lf val iok tr g stale l,
  same_except src l (exec_tx var (TContract src dok lf val iok tr false g stale) l).
Proof.
  intros. cbn [exec_tx]. pose proof (fee_step_except l src) as H1.
  destruct (fee_step l src) as [l1 [|]]; cbn [fst] in H1; [|assumption].
  destruct (negb dok); [assumption|]. destruct (bal l1 src <? lf + val); [assumption|].
  destruct (negb iok); (eapply same_except_trans; [exact H1|apply fail_charge_except]).
Qed.

(* ... and so does a transfer whose ChangeAssets fails at any target (insufficient balance in the middle of a
   multi-target transfer, unparsable or negative amount): the targets credited before the failure are not kept. *)
Lemma failed_transfer_only_fee : forall var src tgts l,
  change_assets (bal (fst (fee_step l src))) src tgts = None ->
  exec_tx var (TTransfer src tgts) l = fst (fee_step l src).
Proof.
  intros var src tgts l H. cbn [exec_tx]. destruct (fee_step l src) as [l1 [|]]; cbn [fst] in *; [rewrite H|]; reflexivity.
Qed.

(* ---------- the parsed-level constructor produces well-formed, closed transactions ---------- *)
Lemma contract_tx_wf : forall src jok gas value creation nz z tr eok gu stale,
  0 <= gu -> match stale with Some s => 0 <= s | None => True end -> Forall ev_wf tr ->
  tx_wf (contract_tx src jok gas value creation nz z tr eok gu stale).
Proof.
  intros. unfold contract_tx.
  destruct jok; [destruct gas; [destruct value| |destruct value]|];
    cbn [tx_wf]; repeat split; try assumption; try constructor; unfold gas_price; lia.
Qed.

Lemma contract_tx_closed : forall U src jok gas value creation nz z tr eok gu stale,
  In src U -> Forall (ev_closed U) tr -> tx_closed U (contract_tx src jok gas value creation nz z tr eok gu stale).
Proof.
  intros. unfold contract_tx.
  destruct jok; [destruct gas; [destruct value| |destruct value]|]; cbn [tx_closed]; split; try assumption; constructor.
Qed.

Lemma contract_tx_conserves : forall U src jok gas value creation nz z tr eok gu stale l,
  universe U -> In src U -> Forall (ev_closed U) tr -> Forall ev_wf tr -> 0 <= gu ->
  match stale with Some s => 0 <= s | None => True end -> nonneg l -> sched_ok U (sched l) ->
  let l' := exec_tx repaired (contract_tx src jok gas value creation nz z tr eok gu stale) l in
  wealth U l' + burned l' = wealth U l + burned l /\ nonneg l' /\ sched_ok U (sched l') /\ sumU U (bal l') <= sumU U (bal l).
Proof.
  intros U src jok gas value creation nz z tr eok gu stale l HU Hs Hc Hw Hg Hst Hn Hsc l'.
  pose proof (contract_tx_wf src jok gas value creation nz z tr eok gu stale Hg Hst Hw) as Hwf.
  pose proof (contract_tx_closed U src jok gas value creation nz z tr eok gu stale Hs Hc) as Hcl.
  destruct (tx_conserves U _ l HU Hcl Hwf Hn Hsc) as (H1 & H2 & H3).
  destruct (tx_balances_never_increase U _ l HU Hcl Hwf Hn Hsc) as (_ & _ & H4).
  repeat split; assumption.
Qed.

(* ---------- opcode-level events: lowering keeps traces closed and well formed, so every theorem over [list ev]
   covers STAKE / UNSTAKE / UNSTAKEALL / AUTHCALL as the opcodes are observed ---------- *)
Lemma e18_pos : 0 < e18. Proof. unfold e18; lia. Qed.

Lemma whole_of_nonneg : forall a, 0 <= a -> 0 <= whole_of a.
Proof. intros. unfold whole_of. apply Z.div_pos; [assumption|apply e18_pos]. Qed.

Lemma unstake_whole_nonneg : forall a s, 0 <= a -> 0 <= s -> 0 <= unstake_whole a s.
Proof. intros a s Ha Hs. unfold unstake_whole. destruct (two64 - 1 <=? whole_of a); [assumption|apply whole_of_nonneg; assumption]. Qed.

Lemma lower_closed : forall U e, oev_closed U e -> Forall (ev_closed U) (lower e).
Proof.
  intros U e H. destruct e as [p|a amount hm|o a amount stake hm now|o a stake hm now|s au t v]; cbn [lower oev_closed] in *.
  - constructor; [assumption|constructor].
  - destruct ((whole_of amount <? two64) && hm); constructor; [exact H|constructor].
  - destruct (hm && (unstake_whole amount stake <=? stake)); constructor; [exact H|constructor].
  - destruct hm; constructor; [exact H|constructor].
  - constructor; [exact H|constructor].
Qed.

Lemma lower_wf : forall e, oev_wf e -> Forall ev_wf (lower e).
Proof.
  intros e H. destruct e as [p|a amount hm|o a amount stake hm now|o a stake hm now|s au t v]; cbn [lower oev_wf] in *.
  - constructor; [assumption|constructor].
  - destruct ((whole_of amount <? two64) && hm); constructor; [|constructor].
    cbn [ev_wf]. pose proof (whole_of_nonneg amount H). pose proof e18_pos. nia.
  - destruct H as (Ha & Hs). destruct (hm && (unstake_whole amount stake <=? stake)); constructor; [|constructor].
    cbn [ev_wf]. pose proof (unstake_whole_nonneg amount stake Ha Hs). pose proof e18_pos. split; [assumption|nia].
  - destruct hm; constructor; [|constructor]. cbn [ev_wf]. pose proof e18_pos. split; [lia|nia].
  - constructor; [exact I|constructor].
Qed.

Lemma lower_trace_closed : forall U tr, Forall (oev_closed U) tr -> Forall (ev_closed U) (lower_trace tr).
Proof.
  intros U tr H. unfold lower_trace. induction H as [|e r He Hr IH]; cbn [flat_map]; [constructor|].
  apply Forall_app. split; [apply lower_closed; assumption|assumption].
Qed.

Lemma lower_trace_wf : forall tr, Forall oev_wf tr -> Forall ev_wf (lower_trace tr).
Proof.
  intros tr H. unfold lower_trace. induction H as [|e r He Hr IH]; cbn [flat_map]; [constructor|].
  apply Forall_app. split; [apply lower_wf; assumption|assumption].
Qed.

(* one opcode, on any ledger with any stack of open snapshots: the invariant (non-negative balances, escrow entries
   closed and non-negative, balances + stake + escrow + destroyed = W) is kept, here and in every open snapshot *)
Lemma opcode_conserves : forall U W e c, universe U -> oev_closed U e -> oev_wf e -> goodst U W c ->
  goodst U W (exec_trace_st repaired (lower e) c).
Proof.
  intros. apply exec_trace_st_good; try assumption; [apply lower_closed|apply lower_wf]; assumption.
Qed.

(* a contract transaction whose EVM run is observed as a list of opcode-level events *)
Lemma observed_contract_tx_conserves : forall U src jok gas value creation nz z otr eok gu stale l,
  universe U -> In src U -> Forall (oev_closed U) otr -> Forall oev_wf otr -> 0 <= gu ->
  match stale with Some s => 0 <= s | None => True end -> nonneg l -> sched_ok U (sched l) ->
  let l' := exec_tx repaired (contract_tx src jok gas value creation nz z (lower_trace otr) eok gu stale) l in
  wealth U l' + burned l' = wealth U l + burned l /\ nonneg l' /\ sched_ok U (sched l') /\ sumU U (bal l') <= sumU U (bal l).
Proof.
  intros. apply contract_tx_conserves; try assumption; [apply lower_trace_closed|apply lower_trace_wf]; assumption.
Qed.

(* exactness of the three stake opcodes (repaired source): what leaves the balance enters the stake, what leaves the
   stake enters the escrow, nothing else moves *)
Lemma stake_op_exact : forall a amount hm l st,
  let c' := exec_trace_st repaired (lower (OStake a amount hm)) (l, st) in
  snd c' = st /\ sched (fst c') = sched l /\ burned (fst c') = burned l /\
  (forall x, x <> a -> bal (fst c') x = bal l x) /\
  bal l a - bal (fst c') a = locked (fst c') - locked l /\
  (op_result (OStake a amount hm) l = Some 1 -> 0 < whole_of amount -> locked (fst c') - locked l = whole_of amount * e18).
Proof.
  intros a amount hm l st. cbn [lower op_result].
  destruct ((whole_of amount <? two64) && hm) eqn:E; cbn [negb exec_trace_st fold_left fst snd].
  - cbn [exec_ev]. unfold sub_bal. destruct (Z.ltb_spec (bal l a) (whole_of amount * e18)); cbn [fst snd bal locked sched burned].
    + repeat split; try reflexivity; try lia.
      destruct (Z.eqb_spec (whole_of amount) 0); [lia|discriminate].
    + repeat split; try reflexivity; try (rewrite upd_same; lia).
      * intros x Hx. rewrite upd_other by assumption. reflexivity.
      * intros _ _. lia.
  - repeat split; try reflexivity; try lia. discriminate.
Qed.

Lemma unstake_op_exact : forall o a amount stake hm now l st, 0 <= amount -> 0 <= stake ->
  let c' := exec_trace_st repaired (lower (OUnstake o a amount stake hm now)) (l, st) in
  snd c' = st /\ bal (fst c') = bal l /\ burned (fst c') = burned l /\
  locked l - locked (fst c') = sched_total (sched (fst c')) - sched_total (sched l) /\
  (op_result (OUnstake o a amount stake hm now) l = Some 1 ->
   locked l - locked (fst c') = unstake_whole amount stake * e18).
Proof.
  intros o a amount stake hm now l st Ha Hs. cbn [lower op_result].
  destruct (hm && (unstake_whole amount stake <=? stake)); cbn [exec_trace_st fold_left fst snd].
  - cbn [exec_ev unstake_clamped repaired fst snd bal locked sched burned sched_total].
    repeat split; try reflexivity; try lia.
    destruct (Z.ltb_spec amount (unstake_whole amount stake * e18)); cbn [sched_total]; lia.
  - repeat split; try reflexivity; try lia. discriminate.
Qed.

(* ---------- the reward specification never hands out more than the per-block reward T ---------- *)
Definition stakes_nonneg (l : list (addr * Z)) : Prop := Forall (fun p => 0 <= snd p) l.

Lemma sum_snd_app : forall a b, sum_snd (a ++ b) = sum_snd a + sum_snd b.
Proof. induction a as [|[x y] r IH]; intros; cbn [app sum_snd]; [lia|rewrite IH; lia]. Qed.

Lemma sum_snd_nonneg : forall l, stakes_nonneg l -> 0 <= sum_snd l.
Proof. induction 1 as [|[x y] r H _ IH]; cbn [sum_snd]; cbn [snd] in *; lia. Qed.

Lemma acc_add_sum : forall m a v, sum_snd (acc_add m a v) = sum_snd m + v.
Proof.
  induction m as [|[x y] r IH]; intros; cbn [acc_add sum_snd]; [lia|].
  destruct (N.eqb x a); cbn [sum_snd]; [lia|rewrite IH; lia].
Qed.

Lemma acc_add_nonneg : forall m a v, stakes_nonneg m -> 0 <= v -> stakes_nonneg (acc_add m a v).
Proof.
  induction m as [|[x y] r IH]; intros a v Hm Hv; cbn [acc_add].
  - constructor; [exact Hv|constructor].
  - inversion Hm as [|? ? Hy Hr]; subst. cbn [snd] in Hy.
    destruct (N.eqb x a); constructor; cbn [snd]; try assumption; try lia. apply IH; assumption.
Qed.

Lemma fold_acc_sum : forall (k : Z) ps m, 0 <= k -> stakes_nonneg ps -> stakes_nonneg m ->
  let m' := fold_left (fun m p => acc_add m (fst p) (7 * snd p * k)) ps m in
  sum_snd m' = sum_snd m + 7 * k * sum_snd ps /\ stakes_nonneg m'.
Proof.
  intros k ps. induction ps as [|[a s] r IH]; intros m Hk Hps Hm; cbn [fold_left sum_snd fst snd].
  - split; [lia|assumption].
  - inversion Hps as [|? ? Hs Hr]; subst. cbn [snd] in Hs.
    destruct (IH (acc_add m a (7 * s * k)) Hk Hr) as (H1 & H2); [apply acc_add_nonneg; [assumption|nia]|].
    cbn zeta in H1. rewrite acc_add_sum in H1. split; [lia|exact H2].
Qed.

Lemma filter_sum_le : forall f m, stakes_nonneg m -> sum_snd (filter f m) <= sum_snd m.
Proof.
  intros f m H. induction H as [|[x y] r Hy _ IH]; cbn [filter sum_snd]; [lia|].
  cbn [snd] in Hy. destruct (f (x, y)); cbn [sum_snd]; lia.
Qed.

Lemma map_weight_sum : forall (k : Z) vs, sum_snd (map (fun q : addr * Z => (fst q, 4 * snd q * k)) vs) = 4 * k * sum_snd vs.
Proof. induction vs as [|[a v] r IH]; cbn [map sum_snd fst snd]; [lia|rewrite IH; lia]. Qed.

Lemma nz1_ge : forall x, 0 <= x -> x <= nz1 x /\ 1 <= nz1 x.
Proof. intros x H. unfold nz1. destruct (Z.eqb_spec x 0); lia. Qed.

Lemma per_account_sum : forall l m, stakes_nonneg l -> stakes_nonneg m ->
  sum_snd (fold_left (fun m p => acc_add m (fst p) (snd p)) l m) = sum_snd m + sum_snd l /\
  stakes_nonneg (fold_left (fun m p => acc_add m (fst p) (snd p)) l m).
Proof.
  induction l as [|[a v] r IH]; intros m Hl Hm; cbn [fold_left sum_snd fst snd].
  - split; [lia|assumption].
  - inversion Hl as [|? ? Hv Hr]; subst. cbn [snd] in Hv.
    destruct (IH (acc_add m a v) Hr (acc_add_nonneg m a v Hm Hv)) as (H1 & H2). rewrite acc_add_sum in H1. split; [lia|exact H2].
Qed.

Lemma reward_weights_bounded : forall castor proposers validators,
  stakes_nonneg proposers -> stakes_nonneg validators ->
  sum_snd (reward_weights castor proposers validators) <= reward_weight_total proposers validators.
Proof.
  intros castor P Vs HP HV. unfold reward_weights, reward_weight_total.
  pose proof (sum_snd_nonneg P HP) as HS. pose proof (sum_snd_nonneg Vs HV) as HVs.
  destruct (nz1_ge (sum_snd P) HS) as (HS1 & HS2). destruct (nz1_ge (sum_snd Vs) HVs) as (HV1 & HV2).
  set (S' := nz1 (sum_snd P)) in *. set (V' := nz1 (sum_snd Vs)) in *.
  assert (Hm0 : stakes_nonneg [(castor, 3 * S' * V')]) by (constructor; [cbn [snd]; nia|constructor]).
  destruct (fold_acc_sum V' P [(castor, 3 * S' * V')]) as (H1 & H2); try assumption; try lia.
  cbn zeta in H1, H2. rewrite sum_snd_app, map_weight_sum.
  destruct (per_account_sum Vs [] HV (Forall_nil _)) as (Hpa & _). cbn [sum_snd] in Hpa.
  unfold per_account. rewrite Hpa, Z.add_0_l.
  match goal with |- sum_snd (filter ?f ?m) + _ <= _ => pose proof (filter_sum_le f m H2) as H3 end.
  rewrite H1 in H3. cbn [sum_snd] in H3.
  assert (A1 : V' * sum_snd P <= V' * S') by (apply Z.mul_le_mono_nonneg_l; lia).
  assert (A2 : S' * sum_snd Vs <= S' * V') by (apply Z.mul_le_mono_nonneg_l; lia).
  apply Z.le_trans with (3 * S' * V' + 0 + 7 * V' * sum_snd P + 4 * S' * sum_snd Vs); [apply Z.add_le_mono_r; exact H3|].
  generalize dependent (sum_snd P). generalize dependent (sum_snd Vs). intros. nia.
Qed.

(* AUTHCALL: the sponsor (tx origin) pays, and only the sponsor's balance decides whether the value moves; the
   authority in whose name the call is made is irrelevant to the ledger *)
Lemma authcall_sponsor_pays : forall s au t v l st, nonneg l -> s <> t ->
  let c' := exec_trace_st repaired (lower (OAuthCall s au t v)) (l, st) in
  snd c' = st /\
  (bal l s < v \/ v < 0 -> fst c' = l) /\
  (0 <= v <= bal l s ->
   bal (fst c') s = bal l s - v /\ bal (fst c') t = bal l t + v /\ forall x, x <> s -> x <> t -> bal (fst c') x = bal l x).
Proof.
  intros s au t v l st Hn Hst. cbn [lower exec_trace_st fold_left exec_ev].
  unfold can_transfer. cbn [cantransfer_signed repaired].
  destruct (Z.leb_spec 0 v); destruct (Z.leb_spec v (bal l s)); cbn [andb fst snd];
    (split; [reflexivity|]); (split; [intros [?|?]; try lia; reflexivity|]); intros (H1 & H2); try lia.
  cbn [set_bal bal]. unfold transfer, add_bal, sub_bal. destruct (Z.ltb_spec (bal l s) v); [lia|]. cbn [fst].
  pose proof (Hn t). repeat split.
  - rewrite upd_other by (intro; apply Hst; congruence). rewrite upd_same. reflexivity.
  - rewrite upd_same. rewrite upd_other by (intro; apply Hst; congruence). rewrite Z.abs_eq by lia. reflexivity.
  - intros x Hx1 Hx2. rewrite !upd_other by assumption. reflexivity.
Qed.

(* ---------- ... and hands out exactly T when no group member is paid to an account that also gathers a proposer share
   (the code assigns the validator shares, so only that overlap loses anything), for ANY miner -> account maps ---------- *)
Lemma acc_add_dom : forall m a v x, In x (map fst (acc_add m a v)) -> In x (map fst m) \/ x = a.
Proof.
  induction m as [|[y w] r IH]; intros a v x; cbn [acc_add map fst In].
  - simpl. intros [H|[]]. right. symmetry. exact H.
  - destruct (N.eqb_spec y a); simpl; intros [H|H]; auto.
    destruct (IH a v x H); auto.
Qed.

Lemma fold_acc_dom : forall (g : addr * Z -> Z) l m x,
  In x (map fst (fold_left (fun m p => acc_add m (fst p) (g p)) l m)) -> In x (map fst m) \/ In x (map fst l).
Proof.
  intros g. induction l as [|[a s] r IH]; intros m x; cbn [fold_left map fst In]; [auto|].
  intros H. destruct (IH _ _ H) as [H1|H1]; [|auto].
  destruct (acc_add_dom _ _ _ _ H1); subst; auto.
Qed.

Lemma filter_all : forall (f : addr * Z -> bool) m, (forall p, In p m -> f p = true) -> filter f m = m.
Proof.
  intros f. induction m as [|p r IH]; intros H; cbn [filter]; [reflexivity|].
  rewrite (H p (or_introl eq_refl)). f_equal. apply IH. intros q Hq. apply H. right; exact Hq.
Qed.

Lemma reward_weights_exact : forall castor proposers validators,
  stakes_nonneg proposers -> stakes_nonneg validators -> 0 < sum_snd proposers -> 0 < sum_snd validators ->
  (forall a, In a (map fst validators) -> a <> castor /\ ~ In a (map fst proposers)) ->
  sum_snd (reward_weights castor proposers validators) = reward_weight_total proposers validators.
Proof.
  intros castor P Vs HP HV HS HVs Hdis. unfold reward_weights, reward_weight_total.
  assert (E1 : nz1 (sum_snd P) = sum_snd P) by (unfold nz1; destruct (Z.eqb_spec (sum_snd P) 0); lia).
  assert (E2 : nz1 (sum_snd Vs) = sum_snd Vs) by (unfold nz1; destruct (Z.eqb_spec (sum_snd Vs) 0); lia).
  rewrite E1, E2.
  assert (Hm0 : stakes_nonneg [(castor, 3 * sum_snd P * sum_snd Vs)]) by (constructor; [cbn [snd]; nia|constructor]).
  destruct (fold_acc_sum (sum_snd Vs) P [(castor, 3 * sum_snd P * sum_snd Vs)]) as (H1 & H2); try assumption; try lia.
  cbn zeta in H1, H2.
  destruct (per_account_sum Vs [] HV (Forall_nil _)) as (Hpa & _). cbn [sum_snd] in Hpa.
  rewrite filter_all.
  - rewrite sum_snd_app, map_weight_sum. unfold per_account. rewrite Hpa, H1. cbn [sum_snd]. ring.
  - intros p Hp. apply Bool.negb_true_iff. apply Bool.not_true_is_false. intros Hex.
    apply existsb_exists in Hex. destruct Hex as (q & Hq & Heq). apply N.eqb_eq in Heq.
    assert (Hqd : In (fst q) (map fst Vs)).
    { destruct (fold_acc_dom (fun p => snd p) Vs [] (fst q)) as [[]|H]; [apply in_map; exact Hq|exact H]. }
    destruct (Hdis _ Hqd) as (Hc & Hnp).
    destruct (fold_acc_dom (fun p => 7 * snd p * sum_snd Vs) P [(castor, 3 * sum_snd P * sum_snd Vs)] (fst p)) as [[H|[]]|H];
      [apply in_map; exact Hp| |].
    + apply Hc. rewrite Heq. simpl in H. symmetry. exact H.
    + apply Hnp. rewrite Heq. exact H.
Qed.
