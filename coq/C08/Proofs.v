(* C08 proofs: round trip, canonicity and input-boundedness of the RLP model. *)
From Coq Require Import List NArith Lia Bool Arith.
From V.Base Require Import Hex BigEndian.
From V.C08 Require Import Model.
Import ListNotations.
Local Open Scope N_scope.

(* ---------- induction principle for the nested type ---------- *)
Section ItemInd.
  Variable P : item -> Prop.
  Variable Q : list item -> Prop.
  Hypothesis HS : forall b, P (Str b).
  Hypothesis HL : forall l, Q l -> P (Lst l).
  Hypothesis HN : Q [].
  Hypothesis HC : forall t l, P t -> Q l -> Q (t :: l).
  Fixpoint item_ind2 (t : item) : P t :=
    match t with
    | Str b => HS b
    | Lst l => HL l ((fix go (l : list item) : Q l :=
                        match l with [] => HN | x :: r => HC x r (item_ind2 x) (go r) end) l)
    end.
  Lemma items_ind2 : forall l, Q l.
  Proof. induction l as [|x r IH]; [exact HN | apply HC; [apply item_ind2 | exact IH]]. Qed.
End ItemInd.

Lemma item_ok_Lst l : item_ok (Lst l) <-> Forall item_ok l /\ len (enc_seq l) < 2 ^ 64.
Proof.
  cbn [item_ok]. unfold enc_seq.
  assert (E : forall l, (fix all (l0 : list item) : Prop :=
            match l0 with [] => True | x :: r => item_ok x /\ all r end) l <-> Forall item_ok l).
  { induction l0 as [|x r IH].
    - split; intro; [constructor | exact I].
    - split; intro H.
      + destruct H as [H1 H2]. constructor; [exact H1 | apply IH, H2].
      + inversion H; subst. split; [assumption | apply IH; assumption]. }
  rewrite E. tauto.
Qed.

(* ---------- list / N helpers ---------- *)
Lemma len_app a b : len (a ++ b) = len a + len b.
Proof. unfold len. rewrite app_length. lia. Qed.

Lemma to_nat_len (a : bytes) : N.to_nat (len a) = length a.
Proof. unfold len. lia. Qed.

Lemma firstn_len_app (a b : bytes) : firstn (N.to_nat (len a)) (a ++ b) = a.
Proof.
  rewrite to_nat_len. rewrite firstn_app, Nat.sub_diag, firstn_all. simpl. apply app_nil_r.
Qed.

Lemma skipn_len_app (a b : bytes) : skipn (N.to_nat (len a)) (a ++ b) = b.
Proof.
  rewrite to_nat_len. rewrite skipn_app, Nat.sub_diag, skipn_all. reflexivity.
Qed.

Lemma firstn_skipn_len (n : N) (r : bytes) :
  n <= len r -> len (firstn (N.to_nat n) r) = n.
Proof. unfold len. intro H. rewrite firstn_length. lia. Qed.

Lemma ltb_false a b : (a <? b) = false <-> b <= a.
Proof. rewrite N.ltb_ge. tauto. Qed.

Lemma encode_nonempty t : encode t <> [].
Proof.
  destruct t as [b|l]; cbn [encode].
  - unfold enc_str, head. destruct b as [|x [|y r]]; simpl.
    + discriminate.
    + destruct (x <? 128); discriminate.
    + destruct (len (x :: y :: r) <? 56); discriminate.
  - unfold head. destruct (len (concat (map encode l)) <? 56); discriminate.
Qed.

Lemma enc_str_not1 b : length b <> 1%nat -> enc_str b = head 128 (len b) ++ b.
Proof. destruct b as [|x [|y r]]; simpl; intro H; try reflexivity. congruence. Qed.

Lemma bytes_ok_firstn n (l : bytes) : bytes_ok l -> bytes_ok (firstn n l).
Proof.
  unfold bytes_ok. intro H. rewrite <- (firstn_skipn n l) in H. apply Forall_app in H. tauto.
Qed.
Lemma bytes_ok_skipn n (l : bytes) : bytes_ok l -> bytes_ok (skipn n l).
Proof.
  unfold bytes_ok. intro H. rewrite <- (firstn_skipn n l) in H. apply Forall_app in H. tauto.
Qed.

Lemma pow256_8 : 256 ^ N.of_nat 8 = 2 ^ 64.
Proof. reflexivity. Qed.

(* ---------- the header: what the decoder sees after [head base n] ---------- *)
(* read_kind on (head 128 n ++ c ++ rest) with len c = n, for strings that are not single small bytes *)
Lemma read_kind_head_str top (c rest : bytes) :
  len c < 2 ^ 64 ->
  read_kind top (head 128 (len c) ++ c ++ rest) = Ok (KString, len c, 0, c ++ rest).
Proof.
  intro Hlt. unfold head.
  destruct (N.ltb_spec (len c) 56) as [Hs|Hs].
  - cbn [app read_kind].
    destruct (N.ltb_spec (128 + len c) 128); [lia|].
    destruct (N.ltb_spec (128 + len c) 184); [|lia].
    replace (128 + len c - 128) with (len c) by lia.
    rewrite len_app. destruct (N.ltb_spec (len c + len rest) (len c)); [lia|]. reflexivity.
  - set (s := beb (len c)).
    assert (Hl8 : (length s <= 8)%nat) by (apply beb_length; rewrite pow256_8; exact Hlt).
    assert (Hne : s <> []) by (apply beb_nonzero; lia).
    assert (Hl1 : 1 <= len s) by (unfold len; destruct s; [congruence | simpl; lia]).
    assert (Hl8' : len s <= 8) by (unfold len; lia).
    cbn [app read_kind].
    destruct (N.ltb_spec (128 + 55 + len s) 128); [lia|].
    destruct (N.ltb_spec (128 + 55 + len s) 184); [lia|].
    destruct (N.ltb_spec (128 + 55 + len s) 192); [|lia].
    replace (128 + 55 + len s - 183) with (len s) by lia.
    unfold read_long. rewrite len_app.
    destruct (N.ltb_spec (len s + len (c ++ rest)) (len s)); [lia|].
    rewrite firstn_len_app, skipn_len_app.
    destruct (N.eqb_spec (hd 1 s) 0) as [E|_]; [exfalso; exact (beb_hd _ E)|].
    assert (Hb : bev s = len c) by apply bev_beb. rewrite !Hb.
    destruct (N.ltb_spec (len c) 56); [lia|].
    rewrite len_app. destruct (N.ltb_spec (len c + len rest) (len c)); [lia|]. reflexivity.
Qed.

Lemma read_kind_head_lst top (c rest : bytes) :
  len c < 2 ^ 64 ->
  read_kind top (head 192 (len c) ++ c ++ rest) = Ok (KList, len c, 0, c ++ rest).
Proof.
  intro Hlt. unfold head.
  destruct (N.ltb_spec (len c) 56) as [Hs|Hs].
  - cbn [app read_kind].
    destruct (N.ltb_spec (192 + len c) 128); [lia|].
    destruct (N.ltb_spec (192 + len c) 184); [lia|].
    destruct (N.ltb_spec (192 + len c) 192); [lia|].
    destruct (N.ltb_spec (192 + len c) 248); [|lia].
    replace (192 + len c - 192) with (len c) by lia.
    rewrite len_app. destruct (N.ltb_spec (len c + len rest) (len c)); [lia|]. reflexivity.
  - set (s := beb (len c)).
    assert (Hl8 : (length s <= 8)%nat) by (apply beb_length; rewrite pow256_8; exact Hlt).
    assert (Hne : s <> []) by (apply beb_nonzero; lia).
    assert (Hl1 : 1 <= len s) by (unfold len; destruct s; [congruence | simpl; lia]).
    assert (Hl8' : len s <= 8) by (unfold len; lia).
    cbn [app read_kind].
    destruct (N.ltb_spec (192 + 55 + len s) 128); [lia|].
    destruct (N.ltb_spec (192 + 55 + len s) 184); [lia|].
    destruct (N.ltb_spec (192 + 55 + len s) 192); [lia|].
    destruct (N.ltb_spec (192 + 55 + len s) 248); [lia|].
    replace (192 + 55 + len s - 247) with (len s) by lia.
    unfold read_long. rewrite len_app.
    destruct (N.ltb_spec (len s + len (c ++ rest)) (len s)); [lia|].
    rewrite firstn_len_app, skipn_len_app.
    destruct (N.eqb_spec (hd 1 s) 0) as [E|_]; [exfalso; exact (beb_hd _ E)|].
    assert (Hb : bev s = len c) by apply bev_beb. rewrite !Hb.
    destruct (N.ltb_spec (len c) 56); [lia|].
    rewrite len_app. destruct (N.ltb_spec (len c + len rest) (len c)); [lia|]. reflexivity.
Qed.

(* ---------- round trip ---------- *)
Fixpoint need (t : item) : nat :=
  match t with
  | Str _ => 1%nat
  | Lst l => S ((fix go (l : list item) : nat :=
                   match l with [] => 1%nat | x :: r => S (Nat.max (need x) (go r)) end) l)
  end.
Definition need_seq (l : list item) : nat :=
  (fix go (l : list item) : nat :=
     match l with [] => 1%nat | x :: r => S (Nat.max (need x) (go r)) end) l.

Lemma need_Lst l : need (Lst l) = S (need_seq l). Proof. reflexivity. Qed.
Lemma need_seq_cons x r : need_seq (x :: r) = S (Nat.max (need x) (need_seq r)). Proof. reflexivity. Qed.

Lemma dec_str_roundtrip f top b rest :
  bytes_ok b -> len b < 2 ^ 64 ->
  dec (S f) top (enc_str b ++ rest) = Ok (Str b, rest).
Proof.
  intros Hok Hlt.
  destruct (Nat.eq_dec (length b) 1) as [H1|H1].
  - destruct b as [|x [|y r]]; try discriminate. cbn [enc_str].
    destruct (N.ltb_spec x 128) as [Hx|Hx].
    + cbn [app dec read_kind]. destruct (N.ltb_spec x 128); [reflexivity | lia].
    + cbn [dec]. change (head 128 1) with (head 128 (len [x])).
      rewrite <- app_assoc. rewrite read_kind_head_str by exact Hlt.
      change (len [x]) with 1. change (N.to_nat 1) with 1%nat. cbn [N.eqb Pos.eqb andb app firstn hd skipn].
      destruct (N.ltb_spec x 128); [lia|]. reflexivity.
  - rewrite enc_str_not1 by exact H1. cbn [dec]. rewrite <- app_assoc.
    rewrite read_kind_head_str by exact Hlt.
    rewrite firstn_len_app, skipn_len_app.
    destruct (N.eqb_spec (len b) 1) as [E|_].
    + exfalso. apply H1. unfold len in E. lia.
    + reflexivity.
Qed.

Lemma dec_roundtrip_gen :
  forall t, item_ok t -> forall f top rest, (need t <= f)%nat -> dec f top (encode t ++ rest) = Ok (t, rest).
Proof.
  apply (item_ind2
    (fun t => item_ok t -> forall f top rest, (need t <= f)%nat -> dec f top (encode t ++ rest) = Ok (t, rest))
    (fun l => Forall item_ok l -> forall f, (need_seq l <= f)%nat -> dec_seq f (enc_seq l) = Ok l)).
  - intros b [Hok Hlt] f top rest Hf. destruct f as [|f]; [simpl in Hf; lia|].
    cbn [encode]. apply dec_str_roundtrip; assumption.
  - intros l IH Hok f top rest Hf. apply item_ok_Lst in Hok as [Hall Hlt].
    rewrite need_Lst in Hf. destruct f as [|f]; [lia|].
    cbn [encode dec]. fold (enc_seq l). rewrite <- app_assoc.
    rewrite read_kind_head_lst by exact Hlt.
    rewrite firstn_len_app, skipn_len_app.
    rewrite IH by (auto; lia). reflexivity.
  - intros _ f Hf. destruct f as [|f]; [simpl in Hf; lia|]. reflexivity.
  - intros t l IHt IHl Hall f Hf. inversion Hall as [|? ? Ht Hl]; subst.
    rewrite need_seq_cons in Hf. destruct f as [|f]; [lia|].
    cbn [dec_seq]. unfold enc_seq. cbn [map concat]. fold (enc_seq l).
    destruct (encode t ++ enc_seq l) eqn:E.
    + exfalso. apply app_eq_nil in E as [E _]. exact (encode_nonempty _ E).
    + rewrite <- E. rewrite IHt by (auto; lia). rewrite IHl by (auto; lia). reflexivity.
Qed.

Lemma encode_length_pos t : (1 <= length (encode t))%nat.
Proof. pose proof (encode_nonempty t). destruct (encode t); [congruence | simpl; lia]. Qed.

Lemma head_length base n : (1 <= length (head base n))%nat.
Proof. unfold head. destruct (n <? 56); simpl; lia. Qed.

Lemma need_bound :
  forall t, (need t <= 2 * length (encode t))%nat.
Proof.
  apply (item_ind2 (fun t => (need t <= 2 * length (encode t))%nat)
                   (fun l => (need_seq l <= 2 * length (enc_seq l) + 1)%nat)).
  - intro b. pose proof (encode_length_pos (Str b)). simpl need. lia.
  - intros l IH. rewrite need_Lst. cbn [encode]. fold (enc_seq l). rewrite app_length.
    pose proof (head_length 192 (len (enc_seq l))). lia.
  - simpl. lia.
  - intros t l IHt IHl. rewrite need_seq_cons. unfold enc_seq. cbn [map concat]. fold (enc_seq l).
    rewrite app_length. pose proof (encode_length_pos t). lia.
Qed.

Theorem decode_encode t rest :
  item_ok t -> decode_item (encode t ++ rest) = Ok (t, rest).
Proof.
  intro H. unfold decode_item, fuel_for. apply dec_roundtrip_gen; [exact H|].
  pose proof (need_bound t). rewrite app_length. lia.
Qed.

Theorem decode_bytes_encode t : item_ok t -> decode_bytes (encode t) = Ok t.
Proof.
  intro H. unfold decode_bytes. pose proof (decode_encode t [] H) as E.
  unfold decode_item in E. rewrite app_nil_r in E. rewrite E. reflexivity.
Qed.

(* ---------- canonicity: whatever the decoder accepts is exactly the encoder's output ---------- *)
Lemma pow256_mono a b : (a <= b)%nat -> 256 ^ N.of_nat a <= 256 ^ N.of_nat b.
Proof. intro H. apply N.pow_le_mono_r; lia. Qed.

Lemma read_long_inv top n avail s r' :
  bytes_ok avail -> 1 <= n <= 8 ->
  read_long top n avail = Ok (s, r') ->
  avail = beb s ++ r' /\ len (beb s) = n /\ 56 <= s < 2 ^ 64.
Proof.
  intros Hok Hn. unfold read_long.
  destruct (N.ltb_spec (len avail) n) as [|Hlen]; [discriminate|].
  set (sb := firstn (N.to_nat n) avail).
  destruct (N.eqb_spec (hd 1 sb) 0) as [|Hhd]; [discriminate|].
  destruct (N.ltb_spec (bev sb) 56) as [|H56]; [discriminate|].
  intro E. inversion E; subst s r'. clear E.
  assert (Hsb : bytes_ok sb) by (apply bytes_ok_firstn, Hok).
  assert (Hlsb : len sb = n) by (apply firstn_skipn_len; exact Hlen).
  rewrite (beb_bev sb Hsb Hhd).
  split; [symmetry; apply firstn_skipn|]. split; [exact Hlsb|]. split; [exact H56|].
  pose proof (bev_bound sb Hsb) as Hb.
  assert (Hl8 : (length sb <= 8)%nat) by (unfold len in Hlsb; lia).
  pose proof (pow256_mono _ _ Hl8) as Hm. rewrite pow256_8 in Hm. lia.
Qed.

Lemma head_long base s : 56 <= s -> head base s = (base + 55 + len (beb s)) :: beb s.
Proof. intro H. unfold head. destruct (N.ltb_spec s 56); [lia | reflexivity]. Qed.
Lemma head_short base s : s < 56 -> head base s = [base + s].
Proof. intro H. unfold head. destruct (N.ltb_spec s 56); [reflexivity | lia]. Qed.

Lemma read_kind_inv top b k size bv r :
  bytes_ok b -> read_kind top b = Ok (k, size, bv, r) ->
  size <= len r /\ size < 2 ^ 64 /\
  match k with
  | KByte => b = bv :: r /\ bv < 128
  | KString => b = head 128 size ++ r
  | KList => b = head 192 size ++ r
  end.
Proof.
  intros Hok. destruct b as [|b0 r0]; [simpl; destruct top; discriminate|].
  inversion Hok as [|? ? Hb0 Hr0]; subst. unfold byte_ok in Hb0.
  cbn [read_kind].
  destruct (N.ltb_spec b0 128) as [H1|H1].
  { intro E; inversion E; subst. split; [lia|]. split; [lia|]. split; [reflexivity | exact H1]. }
  destruct (N.ltb_spec b0 184) as [H2|H2].
  { destruct (N.ltb_spec (len r0) (b0 - 128)); [discriminate|].
    intro E; inversion E; subst. split; [assumption|]. split; [lia|].
    rewrite head_short by lia. cbn [app]. f_equal. lia. }
  destruct (N.ltb_spec b0 192) as [H3|H3].
  { destruct (read_long top (b0 - 183) r0) as [[s r']|e] eqn:RL; [|discriminate].
    apply read_long_inv in RL as (Ea & El & Hs); [|assumption|lia].
    destruct (N.ltb_spec (len r') s); [discriminate|].
    intro E; inversion E; subst. split; [assumption|]. split; [lia|].
    rewrite head_long by lia. rewrite El. cbn [app]. f_equal. lia. }
  destruct (N.ltb_spec b0 248) as [H4|H4].
  { destruct (N.ltb_spec (len r0) (b0 - 192)); [discriminate|].
    intro E; inversion E; subst. split; [assumption|]. split; [lia|].
    rewrite head_short by lia. cbn [app]. f_equal. lia. }
  { destruct (read_long top (b0 - 247) r0) as [[s r']|e] eqn:RL; [|discriminate].
    apply read_long_inv in RL as (Ea & El & Hs); [|assumption|lia].
    destruct (N.ltb_spec (len r') s); [discriminate|].
    intro E; inversion E; subst. split; [assumption|]. split; [lia|].
    rewrite head_long by lia. rewrite El. cbn [app]. f_equal. lia. }
Qed.

Lemma bytes_ok_head_tail base n r : bytes_ok (head base n ++ r) -> bytes_ok r.
Proof. intro H. apply bytes_ok_app_inv in H. tauto. Qed.

Lemma dec_canonical_gen :
  forall f,
    (forall top b t rest, bytes_ok b -> dec f top b = Ok (t, rest) -> b = encode t ++ rest /\ item_ok t) /\
    (forall c l, bytes_ok c -> dec_seq f c = Ok l -> c = enc_seq l /\ Forall item_ok l).
Proof.
  induction f as [|f [IHd IHs]]; [split; intros; discriminate|].
  split.
  - intros top b t rest Hok. cbn [dec].
    destruct (read_kind top b) as [[[[k size] bv] r]|e] eqn:RK; [|discriminate].
    apply read_kind_inv in RK as (Hle & H64 & Hk); [|exact Hok].
    destruct k.
    + destruct Hk as [-> Hbv]. intro E; inversion E; subst. split.
      * cbn [encode enc_str]. destruct (N.ltb_spec bv 128); [reflexivity | lia].
      * cbn [item_ok]. split; [constructor; [unfold byte_ok; lia | constructor] | reflexivity].
    + set (c := firstn (N.to_nat size) r).
      assert (Hr : bytes_ok r) by (rewrite Hk in Hok; eapply bytes_ok_head_tail; exact Hok).
      assert (Hlc : len c = size) by (apply firstn_skipn_len; exact Hle).
      destruct ((size =? 1) && (hd 0 c <? 128)) eqn:Ecan; [discriminate|].
      intro E; inversion E; subst t rest. clear E. split.
      * rewrite Hk. cbn [encode].
        assert (Hsplit : r = c ++ skipn (N.to_nat size) r) by (symmetry; apply firstn_skipn).
        destruct (Nat.eq_dec (length c) 1) as [L1|L1].
        -- destruct c as [|x [|y c']] eqn:Ec; try discriminate.
           assert (Hs1 : size = 1) by (rewrite <- Hlc; reflexivity).
           rewrite Hs1 in Ecan. cbn [N.eqb Pos.eqb andb hd] in Ecan.
           cbn [enc_str]. rewrite Ecan. rewrite Hs1 at 1. rewrite <- app_assoc. f_equal. exact Hsplit.
        -- rewrite enc_str_not1 by exact L1. rewrite Hlc. rewrite <- app_assoc. f_equal. exact Hsplit.
      * cbn [item_ok]. split; [apply bytes_ok_firstn, Hr | rewrite Hlc; exact H64].
    + set (c := firstn (N.to_nat size) r).
      assert (Hr : bytes_ok r) by (rewrite Hk in Hok; eapply bytes_ok_head_tail; exact Hok).
      assert (Hlc : len c = size) by (apply firstn_skipn_len; exact Hle).
      destruct (dec_seq f c) as [l|e] eqn:DS; [|discriminate].
      apply IHs in DS as [Ec Hall]; [|apply bytes_ok_firstn, Hr].
      intro E; inversion E; subst t rest. clear E. split.
      * rewrite Hk. cbn [encode]. fold (enc_seq l). rewrite <- Ec, Hlc, <- app_assoc. f_equal.
        symmetry; apply firstn_skipn.
      * apply item_ok_Lst. split; [exact Hall|]. rewrite <- Ec, Hlc. exact H64.
  - intros c l Hok. cbn [dec_seq]. destruct c as [|c0 c'] eqn:Ec.
    + intro E; inversion E; subst. split; [reflexivity | constructor].
    + rewrite <- Ec in *. destruct (dec f false c) as [[t rest]|e] eqn:D; [|discriminate].
      apply IHd in D as [Eb Ht]; [|exact Hok].
      destruct (dec_seq f rest) as [ts|e] eqn:DS; [|discriminate].
      assert (Hrest : bytes_ok rest) by (rewrite Eb in Hok; apply bytes_ok_app_inv in Hok; tauto).
      apply IHs in DS as [Er Hts]; [|exact Hrest].
      intro E; inversion E; subst l. split.
      * unfold enc_seq. cbn [map concat]. fold (enc_seq ts). rewrite <- Er. exact Eb.
      * constructor; assumption.
Qed.

Theorem decode_canonical b t rest :
  bytes_ok b -> decode_item b = Ok (t, rest) -> b = encode t ++ rest /\ item_ok t.
Proof. intros H E. exact (proj1 (dec_canonical_gen _) _ _ _ _ H E). Qed.

Theorem decode_bytes_canonical b t :
  bytes_ok b -> decode_bytes b = Ok t -> b = encode t /\ item_ok t.
Proof.
  intros H. unfold decode_bytes.
  destruct (dec (fuel_for b) true b) as [[t' rest]|e] eqn:D; [|discriminate].
  destruct rest; [|discriminate]. intro E; inversion E; subst.
  apply (proj1 (dec_canonical_gen _)) in D as [Eb Ht]; [|exact H].
  rewrite app_nil_r in Eb. auto.
Qed.

(* one accepted encoding per value *)
Corollary decode_injective b1 b2 t :
  bytes_ok b1 -> bytes_ok b2 -> decode_bytes b1 = Ok t -> decode_bytes b2 = Ok t -> b1 = b2.
Proof.
  intros H1 H2 D1 D2. apply decode_bytes_canonical in D1 as [-> _]; [|exact H1].
  apply decode_bytes_canonical in D2 as [-> _]; [|exact H2]. reflexivity.
Qed.

(* reads stay inside the input: what is consumed plus what is left is the input, so every declared
   size the decoder honoured is covered by bytes that are really there *)
Corollary decode_consumes_within b t rest :
  bytes_ok b -> decode_item b = Ok (t, rest) ->
  (length (encode t) + length rest = length b)%nat /\ (length (encode t) <= length b)%nat.
Proof.
  intros H D. apply decode_canonical in D as [-> _]; [|exact H]. rewrite app_length. lia.
Qed.

(* the decoder is total: with the fuel the model supplies it never runs out (on accepted inputs this is
   the round trip; on rejected inputs the error is a proper error) *)
Lemma dec_fuel_mono :
  forall f,
    (forall top b r, dec f top b = Ok r -> dec (S f) top b = Ok r) /\
    (forall c l, dec_seq f c = Ok l -> dec_seq (S f) c = Ok l).
Proof.
  induction f as [|f [IHd IHs]]; [split; intros; discriminate|].
  split.
  - intros top b r H. cbn [dec] in H.
    destruct (read_kind top b) as [[[[k size] bv] r0]|e] eqn:RK; [|discriminate].
    remember (S f) as g eqn:Eg. cbn [dec]. rewrite RK.
    destruct k; try exact H.
    destruct (dec_seq f (firstn (N.to_nat size) r0)) as [l|e] eqn:DS; [|discriminate].
    apply IHs in DS. rewrite DS. exact H.
  - intros c l H. cbn [dec_seq] in H. destruct c as [|c0 c'].
    + remember (S f) as g. cbn [dec_seq]. exact H.
    + destruct (dec f false (c0 :: c')) as [[t rest]|e] eqn:D; [|discriminate].
      destruct (dec_seq f rest) as [ts|e] eqn:DS; [|discriminate].
      apply IHd in D. apply IHs in DS.
      remember (S f) as g eqn:Eg. cbn [dec_seq]. rewrite D, DS. exact H.
Qed.
