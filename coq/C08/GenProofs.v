(* C08: the generated descriptors (Gen.v, extracted from the node sources) are inside the domain of the
   codec theorems, or are listed here as outside the model with the reason. *)
From Coq Require Import List NArith String Bool.
From V.Base Require Import Hex BigEndian.
From V.C08 Require Import Model Typed Codec CodecProofs Desc Gen.
Import ListNotations.
Local Open Scope string_scope.

(* Types found by the extractor that the reflection codec does not handle by itself:
   - eth_tx.Transaction, trie.fullNode, trie.rawFullNode: own EncodeRLP/DecodeRLP; what they delegate to
     (eth_tx.txdata, [17]trie.node) is extracted as a site of its own;
   - [17]trie.node, trie.shortNode, trie.rawShortNode: hold values of the non-empty interface `node`; the rlp
     package only ENCODES those (writeInterface), the trie decodes nodes with its own decodeNode on
     rlp.Split*, which is the untyped layer of Model.v (and properties C02/C03). *)
Definition gen_outside : list string :=
  ["[17]trie.node"; "eth_tx.Transaction"; "trie.fullNode"; "trie.rawFullNode"; "trie.rawShortNode"; "trie.shortNode"].

Definition covered_b (p : string * gty) : bool :=
  match lower (snd p) with
  | Some t => cty_ok t && negb (existsb (String.eqb (fst p)) gen_outside)
  | None => existsb (String.eqb (fst p)) gen_outside
  end.

Lemma gen_all_covered : forallb covered_b gen_types = true.
Proof. vm_compute. reflexivity. Qed.

Lemma gen_covered name g :
  In (name, g) gen_types ->
  (exists t, lower g = Some t /\ cty_ok t = true) \/ (lower g = None /\ In name gen_outside).
Proof.
  intro H. pose proof (proj1 (forallb_forall _ _) gen_all_covered _ H) as C. unfold covered_b in C. cbn [fst snd] in C.
  destruct (lower g) as [t|].
  - left. exists t. apply andb_true_iff in C. tauto.
  - right. split; [reflexivity|]. apply existsb_exists in C as (x & Hin & E). apply String.eqb_eq in E. subst. exact Hin.
Qed.

Theorem gen_roundtrip name g t v e :
  In (name, g) gen_types -> lower g = Some t ->
  wfv t v = true -> tenc t v = Some e -> tdec_bytes t e = Ok v.
Proof.
  intros Hin Hl. destruct (gen_covered name g Hin) as [(t' & Hl' & Hok)|[Hn _]]; [|congruence].
  rewrite Hl in Hl'. inversion Hl'; subst t'. apply codec_roundtrip_bytes. exact Hok.
Qed.

Theorem gen_canonical name g t b v :
  In (name, g) gen_types -> lower g = Some t ->
  bytes_ok b -> tdec_bytes t b = Ok v -> tenc t v = Some b /\ wfv t v = true.
Proof.
  intros Hin Hl. destruct (gen_covered name g Hin) as [(t' & Hl' & Hok)|[Hn _]]; [|congruence].
  rewrite Hl in Hl'. inversion Hl'; subst t'. apply codec_canonical_bytes. exact Hok.
Qed.

(* the descriptors of the consensus-relevant records, as the rlp package sees them *)
Definition t_account : ty := TStruct [TUint 8; TByteArr 32; TBytes] None.
Definition t_txdata : ty :=
  TStruct [TUint 8; TBig; TUint 8; TPtrNil (TByteArr 20); TBig; TBytes; TBig; TBig; TBig] None.

Lemma gen_account_lower : option_map lower (lookup_gty "account.Account" gen_types) = Some (Some t_account).
Proof. vm_compute. reflexivity. Qed.
Lemma gen_txdata_lower : option_map lower (lookup_gty "eth_tx.txdata" gen_types) = Some (Some t_txdata).
Proof. vm_compute. reflexivity. Qed.
