(* C08 — property theorems only (statements + [exact]); see Proofs.v for the proofs. *)
From Coq Require Import List NArith String.
From V.Base Require Import Hex BigEndian.
From V.C08 Require Import Model Proofs Typed TypedProofs Codec CodecProofs Desc Gen GenProofs Stream StreamProofs.
Import ListNotations.
Local Open Scope N_scope.

(* Encoding any well-formed value and decoding the bytes returns the value and exactly the trailing bytes. *)
Theorem C08_decode_encode : forall t rest, item_ok t -> decode_item (encode t ++ rest) = Ok (t, rest).
Proof. exact decode_encode. Qed.
Print Assumptions C08_decode_encode.

(* Anything the decoder accepts is byte-for-byte the encoder's output for the value it returns:
   minimal length prefixes, no leading zeros in sizes, small single bytes unprefixed. *)
Theorem C08_canonical : forall b t rest, bytes_ok b -> decode_item b = Ok (t, rest) -> b = encode t ++ rest /\ item_ok t.
Proof. exact decode_canonical. Qed.
Print Assumptions C08_canonical.

(* DecodeBytes: no trailing data. *)
Theorem C08_top_no_trailing : forall b t, bytes_ok b -> decode_bytes b = Ok t -> b = encode t /\ item_ok t.
Proof. exact decode_bytes_canonical. Qed.
Print Assumptions C08_top_no_trailing.

(* Every value has one accepted encoding. *)
Theorem C08_one_encoding : forall b1 b2 t, bytes_ok b1 -> bytes_ok b2 ->
  decode_bytes b1 = Ok t -> decode_bytes b2 = Ok t -> b1 = b2.
Proof. exact decode_injective. Qed.
Print Assumptions C08_one_encoding.

(* The decoder never consumes more than the input holds (declared sizes are covered by real bytes). *)
Theorem C08_reads_within_input : forall b t rest, bytes_ok b -> decode_item b = Ok (t, rest) ->
  (List.length (encode t) + List.length rest = List.length b)%nat /\ (List.length (encode t) <= List.length b)%nat.
Proof. exact decode_consumes_within. Qed.
Print Assumptions C08_reads_within_input.

(* Typed layer (unsigned integers of all widths, big integers, booleans, byte strings/arrays, slices,
   arrays, structs with nil-tagged and tail fields, interface values): encode-then-decode is the identity ... *)
Theorem C08_typed_roundtrip : forall t v i, enc_ty t v = Some i -> item_ok i -> decode_typed t (encode i) = Some v.
Proof. exact typed_decode_encode. Qed.
Print Assumptions C08_typed_roundtrip.

(* ... and every byte string a typed decoder accepts is exactly the typed encoder's output for the value
   it returns (integers without leading zeros, exact array lengths, the one empty value for a nil pointer,
   no surplus list elements). *)
Theorem C08_typed_canonical : forall t b v, ty_ok t = true -> bytes_ok b ->
  decode_typed t b = Some v -> encode_typed t v = Some b.
Proof. exact typed_canonical. Qed.
Print Assumptions C08_typed_canonical.

Example C08_typed_example :
  let t := TStruct [TUint 8; TBig; TUint 8; TPtrNil (TByteArr 20); TBig; TBytes] (Some (TUint 2)) in
  ty_ok t = true /\
  decode_typed t (unhex "cb0101825208808201028007"%string) =
    Some (VList [VNum 1; VNum 1; VNum 21000; VNil; VNum 258; VBytes []; VList [VNum 7]]) /\
  decode_typed t (unhex "cb0101825208c08201028007"%string) = None.
Proof. vm_compute. repeat split; reflexivity. Qed.

(* Non-vacuity: a concrete nested value with a long string satisfies the hypotheses and round-trips. *)
Example C08_example :
  let t := Lst [Str [1]; Str [200]; Lst [Str []; Str (repeat 7 60)]; Str [0; 255]] in
  item_okb t = true /\ decode_bytes (encode t) = Ok t.
Proof. vm_compute. split; reflexivity. Qed.

(* ---------- typed codec at the byte / stream level (Codec.v), for ALL descriptors ---------- *)
(* [tenc] follows encode.go's makeWriter and writes bytes; [tdec] follows decode.go's makeDecoder on the
   remaining bytes of the current list / limited input. Descriptors: every [ty] the reflection layer
   produces ([cty_ok]: integer widths 1/2/4/8 bytes, a pointee is never itself nil-tagged), except a
   nil-tagged pointer (chain) to RawValue, whose nil value the encoder writes as zero bytes.
   Values ([wfv]): no nil where the decoder allocates (plain pointers, *big.Int, interface{}), a non-nil
   nil-tagged pointer does not point at something written as 0x80 / 0xC0, a RawValue holds one complete
   value with a canonical header. *)
Theorem C08_codec_roundtrip : forall t v e,
  cty_ok t = true -> wfv t v = true -> tenc t v = Some e -> tdec_bytes t e = Ok v.
Proof. exact codec_roundtrip_bytes. Qed.
Print Assumptions C08_codec_roundtrip.

(* inside any enclosing list / before any trailing input: exactly the value's bytes are consumed *)
Theorem C08_codec_roundtrip_stream : forall t v e rest top,
  cty_ok t = true -> wfv t v = true -> tenc t v = Some e -> tdec t top (e ++ rest) = Ok (v, rest).
Proof. exact codec_roundtrip. Qed.
Print Assumptions C08_codec_roundtrip_stream.

(* whatever a typed decoder accepts is byte-for-byte the typed encoder's output for the value returned,
   and that value is again in the round-trip domain *)
Theorem C08_codec_canonical : forall t b v,
  cty_ok t = true -> bytes_ok b -> tdec_bytes t b = Ok v -> tenc t v = Some b /\ wfv t v = true.
Proof. exact codec_canonical_bytes. Qed.
Print Assumptions C08_codec_canonical.

Theorem C08_codec_one_encoding : forall t b1 b2 v,
  cty_ok t = true -> bytes_ok b1 -> bytes_ok b2 -> tdec_bytes t b1 = Ok v -> tdec_bytes t b2 = Ok v -> b1 = b2.
Proof. exact codec_one_encoding. Qed.
Print Assumptions C08_codec_one_encoding.

(* a successful typed decode consumed a prefix of what was there: nothing past the declared input *)
Theorem C08_codec_reads_within : forall t top b v rest,
  cty_ok t = true -> bytes_ok b -> tdec t top b = Ok (v, rest) ->
  exists e, b = e ++ rest /\ (List.length e + List.length rest = List.length b)%nat.
Proof. exact codec_reads_within. Qed.
Print Assumptions C08_codec_reads_within.

(* ---------- the descriptors GENERATED from the node sources (Gen.v) ---------- *)
(* every type the extractor finds is either inside the theorems' domain or on the explicit list
   [gen_outside] (custom codecs; values of the trie's non-empty `node` interface, encode-only) *)
Theorem C08_generated_covered : forall name g, In (name, g) gen_types ->
  (exists t, lower g = Some t /\ cty_ok t = true) \/ (lower g = None /\ In name gen_outside).
Proof. exact gen_covered. Qed.
Print Assumptions C08_generated_covered.

Theorem C08_generated_roundtrip : forall name g t v e, In (name, g) gen_types -> lower g = Some t ->
  wfv t v = true -> tenc t v = Some e -> tdec_bytes t e = Ok v.
Proof. exact gen_roundtrip. Qed.
Print Assumptions C08_generated_roundtrip.

Theorem C08_generated_canonical : forall name g t b v, In (name, g) gen_types -> lower g = Some t ->
  bytes_ok b -> tdec_bytes t b = Ok v -> tenc t v = Some b /\ wfv t v = true.
Proof. exact gen_canonical. Qed.
Print Assumptions C08_generated_canonical.

(* what the rlp package makes of account.Account and eth_tx.txdata (unexported field / "-" field dropped,
   "nil" pointer kept) *)
Example C08_generated_account_txdata :
  option_map lower (lookup_gty "account.Account" gen_types) = Some (Some t_account) /\
  option_map lower (lookup_gty "eth_tx.txdata" gen_types) = Some (Some t_txdata).
Proof. split; [exact gen_account_lower | exact gen_txdata_lower]. Qed.

(* non-vacuity: a legacy transaction (contract creation: nil recipient) in the generated txdata shape
   satisfies the hypotheses; its bytes decode, and the same bytes with 0xC0 for the recipient do not *)
Example C08_codec_example :
  let v := VList [VNum 1; VNum 1; VNum 21000; VNil; VNum 258; VBytes []; VNum 27; VNum 5; VNum 7] in
  cty_ok t_txdata = true /\ wfv t_txdata v = true /\
  tenc t_txdata v = Some (unhex "cd010182520880820102801b0507"%string) /\
  tdec_bytes t_txdata (unhex "cd010182520880820102801b0507"%string) = Ok v /\
  tdec_bytes t_txdata (unhex "cd0101825208c0820102801b0507"%string) = Err EExpectedString.
Proof. vm_compute. repeat split; reflexivity. Qed.

(* ---------- the Stream state machine (Stream.v): input limit and list bounds, over ALL operation sequences ---------- *)
(* NewStream(bytes.NewReader(b), limit) followed by any sequence of Kind / Bytes / Raw / Uint / Bool / List /
   ListEnd calls (successful or not): the stream has taken at most `limit` bytes (or len b when the limit is
   discovered from the reader) from its reader, and no list frame was read past its declared size. *)
Theorem C08_stream_reads_within_limit : forall b limit ops obs s',
  u64 b limit -> run ops (new_stream b limit) = (obs, s') ->
  len b - len (inp s') <= eff_limit b limit /\ len (inp s') <= len b /\ frames_ok (stack s').
Proof. exact stream_bounded. Qed.
Print Assumptions C08_stream_reads_within_limit.

(* after any history, a size reported by Kind is covered by declared input that is still unread: the buffers
   that Bytes and Raw allocate for it (make([]byte, size)) never exceed the declared input *)
Theorem C08_stream_alloc_bounded : forall b limit ops obs s1 k n s2,
  u64 b limit -> run ops (new_stream b limit) = (obs, s1) -> s_kind s1 = (SOk (k, n), s2) ->
  n <= remaining s2 /\ remaining s2 <= eff_limit b limit.
Proof. exact stream_alloc_bounded. Qed.
Print Assumptions C08_stream_alloc_bounded.

Theorem C08_stream_results_bounded : forall b limit ops obs s1 x s2,
  u64 b limit -> run ops (new_stream b limit) = (obs, s1) ->
  (s_bytes_op s1 = (SOk x, s2) -> len x <= eff_limit b limit + 1) /\
  (s_raw_op s1 = (SOk x, s2) -> len x <= eff_limit b limit + 9).
Proof. exact stream_results_bounded. Qed.
Print Assumptions C08_stream_results_bounded.

(* non-vacuity + re-arm behaviour: a list with a too-long declared element, read with a limit shorter than
   the reader: Kind after List reports the element error, ListEnd refuses (not at EOL) *)
Example C08_stream_example :
  fst (run [OList; OKind; OBytes; OListEnd; OKind] (new_stream (unhex "c3820102ff"%string) 4)) =
    [BNum 3; BKind 1 2; BBytes [1; 2]; BUnit; BErr 1] /\
  fst (run [OList; OUint 8; OListEnd] (new_stream (unhex "c28501"%string) 0)) = [BNum 2; BErr 3; BErr 14].
Proof. vm_compute. split; reflexivity. Qed.

(* ---------- header sizes: intsize / headsize of encode.go ---------- *)
(* for every uint64 n > 0 the number of length bytes the size bookkeeping assumes (intsize: listEnd,
   headsize -> Stream.Raw, ListSize) is the number putint writes (the minimal big-endian length of n), between
   1 and 8, with 256^(k-1) <= n < 256^k; and headsize is the length of the header actually written *)
Theorem C08_intsize_minimal : forall n, 0 < n < 2 ^ 64 ->
  intsize n = len (beb n) /\ 1 <= intsize n <= 8 /\ 256 ^ (intsize n - 1) <= n < 256 ^ intsize n.
Proof. exact intsize_minimal. Qed.
Print Assumptions C08_intsize_minimal.

Theorem C08_headsize_is_header_length : forall base n, n < 2 ^ 64 -> len (head base n) = headsize n.
Proof. exact headsize_is_header_length. Qed.
Print Assumptions C08_headsize_is_header_length.

Example C08_intsize_example :
  intsize 0xFFFFF = 3 /\ intsize 0x100000 = 3 /\ intsize 0xFFFFFF = 3 /\ intsize 0x1000000 = 4 /\
  headsize 55 = 1 /\ headsize 56 = 2 /\ headsize (3 * 2 ^ 20) = 4.
Proof. vm_compute. repeat split; reflexivity. Qed.

(* ---------- header errors are sticky ---------- *)
(* after Kind reported an error other than EOL, any sequence of Kind / Bytes / Raw / Uint / Bool / List calls
   returns that same error each time and leaves the stream (reader position included) exactly where it was *)
Theorem C08_stream_error_sticky : forall s e s1 ops,
  s_kind s = (SErr e, s1) -> e <> SEOL -> forallb asks_kind ops = true ->
  run ops s1 = (map (fun _ => BErr (serr_code e)) ops, s1).
Proof. exact stream_error_sticky. Qed.
Print Assumptions C08_stream_error_sticky.

Example C08_stream_sticky_example :
  fst (run [OKind; OKind; OList; OBytes; ORaw; OUint 8] (new_stream (unhex "f810c401020304"%string) 0)) =
    [BErr 4; BErr 4; BErr 4; BErr 4; BErr 4; BErr 4].
Proof. vm_compute. reflexivity. Qed.
