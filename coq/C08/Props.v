(* C08 — property theorems only (statements + [exact]); see Proofs.v for the proofs. *)
From Coq Require Import List NArith String.
From V.Base Require Import Hex BigEndian.
From V.C08 Require Import Model Proofs Typed TypedProofs.
Import ListNotations.
Local Open Scope N_scope.

(* Encoding any well-formed value and decoding the bytes returns the value and exactly the trailing bytes. *)
Theorem C08_decode_encode : forall t rest, item_ok t -> decode_item (encode t ++ rest) = Ok (t, rest).
Proof. exact decode_encode. Qed.
Print Assumptions C08_decode_encode.

(* Anything the decoder accepts is byte-for-byte the encoder's output for the value it returns:
   minimal length prefixes, no leading zeros in sizes, small single bytes unprefixed. *)
Theorem C08_canonical : forall b t rest, bytes_ok b -> decode_item b = Ok (t, rest) -> b = encode t ++ rest /\ item_ok t.
Proof. exact decode_canonical. Qed.
Print Assumptions C08_canonical.

(* DecodeBytes: no trailing data. *)
Theorem C08_top_no_trailing : forall b t, bytes_ok b -> decode_bytes b = Ok t -> b = encode t /\ item_ok t.
Proof. exact decode_bytes_canonical. Qed.
Print Assumptions C08_top_no_trailing.

(* Every value has one accepted encoding. *)
Theorem C08_one_encoding : forall b1 b2 t, bytes_ok b1 -> bytes_ok b2 ->
  decode_bytes b1 = Ok t -> decode_bytes b2 = Ok t -> b1 = b2.
Proof. exact decode_injective. Qed.
Print Assumptions C08_one_encoding.

(* The decoder never consumes more than the input holds (declared sizes are covered by real bytes). *)
Theorem C08_reads_within_input : forall b t rest, bytes_ok b -> decode_item b = Ok (t, rest) ->
  (List.length (encode t) + List.length rest = List.length b)%nat /\ (List.length (encode t) <= List.length b)%nat.
Proof. exact decode_consumes_within. Qed.
Print Assumptions C08_reads_within_input.

(* Typed layer (unsigned integers of all widths, big integers, booleans, byte strings/arrays, slices,
   arrays, structs with nil-tagged and tail fields, interface values): encode-then-decode is the identity ... *)
Theorem C08_typed_roundtrip : forall t v i, enc_ty t v = Some i -> item_ok i -> decode_typed t (encode i) = Some v.
Proof. exact typed_decode_encode. Qed.
Print Assumptions C08_typed_roundtrip.

(* ... and every byte string a typed decoder accepts is exactly the typed encoder's output for the value
   it returns (integers without leading zeros, exact array lengths, the one empty value for a nil pointer,
   no surplus list elements). *)
Theorem C08_typed_canonical : forall t b v, ty_ok t = true -> bytes_ok b ->
  decode_typed t b = Some v -> encode_typed t v = Some b.
Proof. exact typed_canonical. Qed.
Print Assumptions C08_typed_canonical.

Example C08_typed_example :
  let t := TStruct [TUint 8; TBig; TUint 8; TPtrNil (TByteArr 20); TBig; TBytes] (Some (TUint 2)) in
  ty_ok t = true /\
  decode_typed t (unhex "cb0101825208808201028007"%string) =
    Some (VList [VNum 1; VNum 1; VNum 21000; VNil; VNum 258; VBytes []; VList [VNum 7]]) /\
  decode_typed t (unhex "cb0101825208c08201028007"%string) = None.
Proof. vm_compute. repeat split; reflexivity. Qed.

(* Non-vacuity: a concrete nested value with a long string satisfies the hypotheses and round-trips. *)
Example C08_example :
  let t := Lst [Str [1]; Str [200]; Lst [Str []; Str (repeat 7 60)]; Str [0; 255]] in
  item_okb t = true /\ decode_bytes (encode t) = Ok t.
Proof. vm_compute. split; reflexivity. Qed.
