(* C08: the Stream of decode.go as an explicit state machine, statement by statement: the reader, the
   input limit (remaining / limited), the list stack (pos, size), and the cached type information
   (kind = -1 or the kind ahead, size, byteval, kinderr) with exactly the places where Kind is re-armed.
   Operations: Kind, Bytes, Raw, Uint (uint(maxbits)), Bool, List, ListEnd; NewStream / Reset. *)
From Coq Require Import List NArith Lia Bool.
From V.Base Require Import Hex BigEndian.
From V.C08 Require Import Model.
Import ListNotations.
Local Open Scope N_scope.

Inductive serr :=
| SE (e : err)          (* the errors of Model.v *)
| SEOL                  (* rlp.EOL *)
| SNotInList            (* errNotInList *)
| SNotAtEOL             (* errNotAtEOL *)
| SBadBool.             (* "rlp: invalid boolean value" *)

Record stream := {
  inp : bytes;                 (* what the underlying reader still holds *)
  remaining : N;               (* s.remaining *)
  limited : bool;              (* s.limited *)
  stack : list (N * N);        (* s.stack, innermost first: (pos, size) *)
  skind : option kind;         (* s.kind; None = -1 *)
  ssize : N;                   (* s.size *)
  byteval : N;
  kinderr : option serr
}.

Definition upd_kind (s : stream) (k : option kind) : stream :=
  {| inp := inp s; remaining := remaining s; limited := limited s; stack := stack s;
     skind := k; ssize := ssize s; byteval := byteval s; kinderr := kinderr s |}.

(* NewStream(bytes.NewReader(b), limit) / Reset: limit 0 means "discover it from the reader" *)
Definition new_stream (b : bytes) (limit : N) : stream :=
  {| inp := b; remaining := if limit =? 0 then len b else limit; limited := true;
     stack := []; skind := None; ssize := 0; byteval := 0; kinderr := None |}.

Inductive sres (A : Type) := SOk (a : A) | SErr (e : serr).
Arguments SOk {A} a. Arguments SErr {A} e.

(* willRead *)
Definition will_read (n : N) (s : stream) : option serr * stream :=
  let s := upd_kind s None in
  match stack s with
  | (pos, sz) :: rest =>
    if sz - pos <? n then (Some (SE EElemTooLarge), s)
    else
      let s1 := {| inp := inp s; remaining := remaining s; limited := limited s; stack := (pos + n, sz) :: rest;
                   skind := skind s; ssize := ssize s; byteval := byteval s; kinderr := kinderr s |} in
      if limited s1 then
        if remaining s1 <? n then (Some (SE EValueTooLarge), s1)
        else (None, {| inp := inp s1; remaining := remaining s1 - n; limited := limited s1; stack := stack s1;
                       skind := skind s1; ssize := ssize s1; byteval := byteval s1; kinderr := kinderr s1 |})
      else (None, s1)
  | [] =>
    if limited s then
      if remaining s <? n then (Some (SE EValueTooLarge), s)
      else (None, {| inp := inp s; remaining := remaining s - n; limited := limited s; stack := stack s;
                     skind := skind s; ssize := ssize s; byteval := byteval s; kinderr := kinderr s |})
    else (None, s)
  end.

Definition set_inp (s : stream) (i : bytes) : stream :=
  {| inp := i; remaining := remaining s; limited := limited s; stack := stack s;
     skind := skind s; ssize := ssize s; byteval := byteval s; kinderr := kinderr s |}.

(* readByte *)
Definition read_byte (s : stream) : sres N * stream :=
  match will_read 1 s with
  | (Some e, s') => (SErr e, s')
  | (None, s') => match inp s' with
                  | x :: r => (SOk x, set_inp s' r)
                  | [] => (SErr (SE EUnexpectedEOF), s')          (* io.EOF -> io.ErrUnexpectedEOF *)
                  end
  end.

(* readFull(buf) with len(buf) = n *)
Definition read_full (n : N) (s : stream) : sres bytes * stream :=
  match will_read n s with
  | (Some e, s') => (SErr e, s')
  | (None, s') =>
    if len (inp s') <? n then (SErr (SE EUnexpectedEOF), set_inp s' [])
    else (SOk (firstn (N.to_nat n) (inp s')), set_inp s' (skipn (N.to_nat n) (inp s')))
  end.

(* readUint(size) *)
Definition read_uint (sz : N) (s : stream) : sres N * stream :=
  if sz =? 0 then (SOk 0, upd_kind s None)
  else if sz =? 1 then read_byte s
  else match read_full sz s with
       | (SErr e, s') => (SErr e, s')
       | (SOk b, s') => if hd 1 b =? 0 then (SErr (SE ECanonSize), s') else (SOk (bev b), s')
       end.

(* readKind: (kind, size, err) and the state; the caller stores the triple *)
Definition read_kind_s (s : stream) : (kind * N * option serr) * stream :=
  match read_byte s with
  | (SErr e, s') =>
    let e' := match stack s' with
              | [] => match e with
                      | SE EUnexpectedEOF => SE EEOF
                      | SE EValueTooLarge => SE EEOF
                      | _ => e
                      end
              | _ => e
              end in
    ((KByte, 0, Some e'), s')
  | (SOk b, s') =>
    let s0 := {| inp := inp s'; remaining := remaining s'; limited := limited s'; stack := stack s';
                 skind := skind s'; ssize := ssize s'; byteval := 0; kinderr := kinderr s' |} in
    if b <? 128 then
      ((KByte, 0, None), {| inp := inp s0; remaining := remaining s0; limited := limited s0; stack := stack s0;
                            skind := skind s0; ssize := ssize s0; byteval := b; kinderr := kinderr s0 |})
    else if b <? 184 then ((KString, b - 128, None), s0)
    else if b <? 192 then
      match read_uint (b - 183) s0 with
      | (SErr e, s1) => ((KString, 0, Some e), s1)
      | (SOk n, s1) => ((KString, n, if n <? 56 then Some (SE ECanonSize) else None), s1)
      end
    else if b <? 248 then ((KList, b - 192, None), s0)
    else
      match read_uint (b - 247) s0 with
      | (SErr e, s1) => ((KList, 0, Some e), s1)
      | (SOk n, s1) => ((KList, n, if n <? 56 then Some (SE ECanonSize) else None), s1)
      end
  end.

Definition set_kind3 (s : stream) (k : option kind) (sz : N) (e : option serr) : stream :=
  {| inp := inp s; remaining := remaining s; limited := limited s; stack := stack s;
     skind := k; ssize := sz; byteval := byteval s; kinderr := e |}.

(* Kind *)
Definition s_kind (s : stream) : sres (kind * N) * stream :=
  match skind s with
  | Some k => (match kinderr s with Some e => SErr e | None => SOk (k, ssize s) end, s)
  | None =>
    let s := set_kind3 s None (ssize s) None in                    (* s.kinderr = nil *)
    match stack s with
    | (pos, sz) :: _ => if pos =? sz then (SErr SEOL, s) else
        let '((k, n, e), s1) := read_kind_s s in
        let e' := match e with
                  | Some _ => e
                  | None => match stack s1 with
                            | (pos1, sz1) :: _ => if sz1 - pos1 <? n then Some (SE EElemTooLarge) else None
                            | [] => None
                            end
                  end in
        let s2 := set_kind3 s1 (Some k) n e' in
        (match e' with Some x => SErr x | None => SOk (k, n) end, s2)
    | [] =>
        let '((k, n, e), s1) := read_kind_s s in
        let e' := match e with
                  | Some _ => e
                  | None => if limited s1 && (remaining s1 <? n) then Some (SE EValueTooLarge) else None
                  end in
        let s2 := set_kind3 s1 (Some k) n e' in
        (match e' with Some x => SErr x | None => SOk (k, n) end, s2)
    end
  end.

(* Bytes *)
Definition s_bytes_op (s : stream) : sres bytes * stream :=
  match s_kind s with
  | (SErr e, s1) => (SErr e, s1)
  | (SOk (KByte, _), s1) => (SOk [byteval s1], upd_kind s1 None)
  | (SOk (KString, n), s1) =>
    match read_full n s1 with
    | (SErr e, s2) => (SErr e, s2)
    | (SOk b, s2) => if (n =? 1) && (hd 0 b <? 128) then (SErr (SE ECanonSize), s2) else (SOk b, s2)
    end
  | (SOk (KList, _), s1) => (SErr (SE EExpectedString), s1)
  end.

(* Raw *)
Definition s_raw_op (s : stream) : sres bytes * stream :=
  match s_kind s with
  | (SErr e, s1) => (SErr e, s1)
  | (SOk (KByte, _), s1) => (SOk [byteval s1], upd_kind s1 None)
  | (SOk (k, n), s1) =>
    match read_full n s1 with
    | (SErr e, s2) => (SErr e, s2)
    | (SOk b, s2) => (SOk (head (match k with KString => 128 | _ => 192 end) n ++ b), s2)
    end
  end.

(* uint(maxbits), w = maxbits / 8 *)
Definition s_uint_op (w : N) (s : stream) : sres N * stream :=
  match s_kind s with
  | (SErr e, s1) => (SErr e, s1)
  | (SOk (KByte, _), s1) =>
    if byteval s1 =? 0 then (SErr (SE ECanonInt), s1) else (SOk (byteval s1), upd_kind s1 None)
  | (SOk (KString, n), s1) =>
    if w <? n then (SErr (SE EUintOverflow), s1)
    else match read_uint n s1 with
         | (SErr (SE ECanonSize), s2) => (SErr (SE ECanonInt), s2)
         | (SErr e, s2) => (SErr e, s2)
         | (SOk v, s2) => if (0 <? n) && (v <? 128) then (SErr (SE ECanonSize), s2) else (SOk v, s2)
         end
  | (SOk (KList, _), s1) => (SErr (SE EExpectedString), s1)
  end.

(* Bool *)
Definition s_bool_op (s : stream) : sres bool * stream :=
  match s_uint_op 1 s with
  | (SErr e, s1) => (SErr e, s1)
  | (SOk v, s1) => if v =? 0 then (SOk false, s1) else if v =? 1 then (SOk true, s1) else (SErr SBadBool, s1)
  end.

(* List *)
Definition s_list_op (s : stream) : sres N * stream :=
  match s_kind s with
  | (SErr e, s1) => (SErr e, s1)
  | (SOk (KList, n), s1) =>
    (SOk n, {| inp := inp s1; remaining := remaining s1; limited := limited s1; stack := (0, n) :: stack s1;
               skind := None; ssize := 0; byteval := byteval s1; kinderr := kinderr s1 |})
  | (SOk (_, _), s1) => (SErr (SE EExpectedList), s1)
  end.

(* ListEnd *)
Definition s_list_end_op (s : stream) : option serr * stream :=
  match stack s with
  | [] => (Some SNotInList, s)
  | (pos, sz) :: rest =>
    if negb (pos =? sz) then (Some SNotAtEOL, s)
    else let rest' := match rest with
                      | (p, z) :: r => (p + sz, z) :: r
                      | [] => []
                      end in
         (None, {| inp := inp s; remaining := remaining s; limited := limited s; stack := rest';
                   skind := None; ssize := 0; byteval := byteval s; kinderr := kinderr s |})
  end.

(* ---------- scripts ---------- *)
Inductive op := OKind | OBytes | ORaw | OUint (w : N) | OBool | OList | OListEnd.

Inductive obs :=
| BKind (k : N) (n : N) | BBytes (b : bytes) | BNum (n : N) | BBool (b : bool) | BUnit | BErr (code : N).

Definition serr_code (e : serr) : N :=
  match e with
  | SE e => err_code e | SEOL => 12 | SNotInList => 13 | SNotAtEOL => 14 | SBadBool => 15
  end.

Definition kcode (k : kind) : N := match k with KByte => 0 | KString => 1 | KList => 2 end.

Definition step (o : op) (s : stream) : obs * stream :=
  match o with
  | OKind => match s_kind s with (SOk (k, n), s') => (BKind (kcode k) n, s') | (SErr e, s') => (BErr (serr_code e), s') end
  | OBytes => match s_bytes_op s with (SOk b, s') => (BBytes b, s') | (SErr e, s') => (BErr (serr_code e), s') end
  | ORaw => match s_raw_op s with (SOk b, s') => (BBytes b, s') | (SErr e, s') => (BErr (serr_code e), s') end
  | OUint w => match s_uint_op w s with (SOk n, s') => (BNum n, s') | (SErr e, s') => (BErr (serr_code e), s') end
  | OBool => match s_bool_op s with (SOk b, s') => (BBool b, s') | (SErr e, s') => (BErr (serr_code e), s') end
  | OList => match s_list_op s with (SOk n, s') => (BNum n, s') | (SErr e, s') => (BErr (serr_code e), s') end
  | OListEnd => match s_list_end_op s with (None, s') => (BUnit, s') | (Some e, s') => (BErr (serr_code e), s') end
  end.

Fixpoint run (ops : list op) (s : stream) : list obs * stream :=
  match ops with
  | [] => ([], s)
  | o :: r => let '(b, s1) := step o s in let '(bs, s2) := run r s1 in (b :: bs, s2)
  end.
