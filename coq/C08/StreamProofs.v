(* C08: boundedness of the Stream state machine (Stream.v). For a stream created with an input limit L
   (NewStream(r, L), or L = the length of the byte slice), after ANY sequence of operations:
   - no more than L bytes have been taken from the reader (reads never go past the declared input);
   - every list frame satisfies pos <= size (reads never go past the innermost list);
   - whenever Kind reports a value of size n, at least n bytes of the declared input are still unread:
     the buffers Bytes and Raw allocate (make([]byte, size)) are covered by declared input. *)
From Coq Require Import List NArith Lia Bool.
From V.Base Require Import Hex BigEndian.
From V.C08 Require Import Model Stream.
Import ListNotations.
Local Open Scope N_scope.

Definition frames_ok (st : list (N * N)) : Prop := Forall (fun f => fst f <= snd f) st.

(* each frame's declared size is covered by the remaining input plus what was already read in it and in
   the frames nested inside it *)
Fixpoint nest_ok (rem acc : N) (st : list (N * N)) : Prop :=
  match st with
  | [] => True
  | (p, z) :: r => z <= rem + acc + p /\ nest_ok rem (acc + p) r
  end.

(* a nested list was opened inside the slack of its parent *)
Fixpoint chain_ok (st : list (N * N)) : Prop :=
  match st with
  | (pc, zc) :: r => match r with
                     | (pp, zp) :: _ => pp + zc <= zp /\ chain_ok r
                     | [] => True
                     end
  | [] => True
  end.

(* reads only advance the position of the innermost frame *)
Definition shape (a b : list (N * N)) : Prop :=
  match a, b with
  | [], [] => True
  | (p, z) :: r, (p', z') :: r' => z' = z /\ r' = r /\ p <= p'
  | _, _ => False
  end.

Lemma shape_refl a : shape a a.
Proof. destruct a as [|[p z] r]; cbn; auto. repeat split; lia. Qed.
Lemma shape_trans a b c : shape a b -> shape b c -> shape a c.
Proof.
  destruct a as [|[p z] r], b as [|[p1 z1] r1], c as [|[p2 z2] r2]; cbn; try tauto.
  intros (-> & -> & H1) (-> & -> & H2). repeat split; lia.
Qed.

(* the value ahead (size n) fits: into the innermost list, or into the remaining input *)
Definition fits (s : stream) (n : N) : Prop :=
  match stack s with
  | [] => n <= remaining s
  | (p, z) :: _ => n <= z - p
  end.

Section Inv.
  Variable L : N.      (* the declared input limit *)
  Variable n0 : N.     (* what the reader held at the start *)
  Hypothesis L64 : L < 2 ^ 64.   (* the limit is a uint64 *)
  Set Default Proof Using "All".

  (* the part of the invariant that does not talk about the cached kind *)
  Definition Inv0 (s : stream) : Prop :=
    limited s = true /\
    n0 + remaining s <= len (inp s) + L /\
    len (inp s) <= n0 /\
    frames_ok (stack s) /\
    chain_ok (stack s) /\
    nest_ok (remaining s) 0 (stack s).

  Definition Inv (s : stream) : Prop :=
    Inv0 s /\ (forall k, skind s = Some k -> kinderr s = None -> fits s (ssize s)).

  Lemma Inv0_nokind s : Inv0 s -> skind s = None -> Inv s.
  Proof. intros H K. split; [exact H|]. intros k E. congruence. Qed.

  Lemma nest_ok_mono rem rem' acc acc' st :
    rem + acc <= rem' + acc' -> nest_ok rem acc st -> nest_ok rem' acc' st.
  Proof.
    revert acc acc'. induction st as [|[p z] r IH]; intros acc acc' H; cbn [nest_ok]; [tauto|].
    intros [H1 H2]. split; [lia|]. apply (IH (acc + p) (acc' + p)); [lia | exact H2].
  Qed.

  Lemma chain_ok_tos p p' z r : chain_ok ((p, z) :: r) -> chain_ok ((p', z) :: r).
  Proof. cbn [chain_ok]. tauto. Qed.

  (* willRead: on success n bytes of credit are held (remaining already went down by n, the reader not yet) *)
  Lemma will_read_ok n s e s' :
    Inv0 s -> will_read n s = (e, s') ->
    skind s' = None /\ inp s' = inp s /\ shape (stack s) (stack s') /\
    match e with
    | Some _ => Inv0 s'
    | None => limited s' = true /\ n0 + remaining s' + n <= len (inp s') + L /\ len (inp s') <= n0 /\
              frames_ok (stack s') /\ chain_ok (stack s') /\ nest_ok (remaining s') 0 (stack s') /\
              remaining s' + n <= remaining s
    end.
  Proof.
    intros (Hl & Hc & Hi & Hf & Hch & Hn). unfold will_read. cbn [upd_kind stack limited remaining inp skind].
    destruct (stack s) as [|[p z] r] eqn:Es.
    - rewrite Hl. destruct (N.ltb_spec (remaining s) n).
      + intro E; inversion E; subst. unfold Inv0; cbn. rewrite ?Es. cbn. repeat split; try assumption; try lia.
      + intro E; inversion E; subst. cbn. rewrite ?Es. cbn. repeat split; try assumption; try lia.
    - inversion Hf as [|? ? Hpz Hr]; subst. cbn [fst snd] in Hpz. pose proof Hn as Hn'. cbn [nest_ok] in Hn'. destruct Hn' as [Hz Hnr].
      destruct (N.ltb_spec (z - p) n).
      + intro E; inversion E; subst. unfold Inv0; cbn. rewrite ?Es. cbn. repeat split; try assumption; try lia.
      + cbn [limited]. rewrite Hl. cbn [remaining].
        assert (Hf' : frames_ok ((p + n, z) :: r)) by (constructor; [cbn; lia | assumption]).
        assert (Hch' : chain_ok ((p + n, z) :: r)) by (eapply chain_ok_tos; exact Hch).
        assert (Hn1 : forall rem, rem <= remaining s -> rem + n <= remaining s \/ True -> nest_ok (remaining s) (0 + p) r -> True) by (intros; exact I).
        destruct (N.ltb_spec (remaining s) n).
        * intro E; inversion E; subst. unfold Inv0; cbn. rewrite ?Es. cbn. repeat split; try assumption; try lia;
          try (apply (nest_ok_mono (remaining s) (remaining s) (0 + p)); [lia | exact Hnr]).
        * intro E; inversion E; subst. cbn. rewrite ?Es. cbn. repeat split; try assumption; try lia;
          try (apply (nest_ok_mono (remaining s) (remaining s - n) (0 + p)); [lia | exact Hnr]).
  Qed.

  Lemma read_byte_ok s r s' : Inv0 s -> read_byte s = (r, s') -> Inv0 s' /\ skind s' = None /\ shape (stack s) (stack s').
  Proof.
    intros H. unfold read_byte. destruct (will_read 1 s) as [e s1] eqn:W.
    destruct (will_read_ok 1 s e s1 H W) as (K & I & Sh & P). destruct e.
    - intro E; inversion E; subst. tauto.
    - destruct P as (Hl & Hc & Hi & Hf & Hch & Hn & _). destruct (inp s1) as [|x rr] eqn:Ei.
      + intro E; inversion E; subst. unfold Inv0. rewrite Ei in *. repeat split; try assumption. lia.
      + intro E; inversion E; subst. unfold Inv0, set_inp; cbn. unfold len in *. cbn [length] in *.
        repeat split; try assumption; lia.
  Qed.

  Lemma read_full_ok n s r s' : Inv0 s -> read_full n s = (r, s') ->
    Inv0 s' /\ skind s' = None /\ shape (stack s) (stack s') /\
    match r with SOk b => len b = n /\ n <= remaining s | SErr _ => True end.
  Proof.
    intros H. unfold read_full. destruct (will_read n s) as [e s1] eqn:W.
    destruct (will_read_ok n s e s1 H W) as (K & I & Sh & P). destruct e.
    - intro E; inversion E; subst. tauto.
    - destruct P as (Hl & Hc & Hi & Hf & Hch & Hn & Hr). destruct (N.ltb_spec (len (inp s1)) n) as [Hs|Hs].
      + intro E; inversion E; subst. unfold Inv0, set_inp; cbn. change (len []) with 0.
        repeat split; try assumption; lia.
      + intro E; inversion E; subst. unfold Inv0, set_inp; cbn.
        assert (Hsk : len (skipn (N.to_nat n) (inp s1)) + n = len (inp s1)).
        { unfold len in *. rewrite skipn_length. lia. }
        assert (Hfn : len (firstn (N.to_nat n) (inp s1)) = n).
        { unfold len in *. rewrite firstn_length. lia. }
        repeat split; try assumption; lia.
  Qed.

  Lemma upd_kind_inv0 s k : Inv0 s -> Inv0 (upd_kind s k).
  Proof. unfold Inv0, upd_kind; cbn. tauto. Qed.

  Lemma read_uint_ok z s r s' : Inv0 s -> read_uint z s = (r, s') -> Inv0 s' /\ skind s' = None /\ shape (stack s) (stack s').
  Proof.
    intros H. unfold read_uint. destruct (z =? 0).
    - intro E; inversion E; subst. split; [apply upd_kind_inv0, H | split; [reflexivity | apply shape_refl]].
    - destruct (z =? 1); [apply read_byte_ok; exact H|].
      destruct (read_full z s) as [[b|e] s1] eqn:R; destruct (read_full_ok z s _ s1 H R) as (I & K & Sh & _).
      + destruct (hd 1 b =? 0); intro E; inversion E; subst; tauto.
      + intro E; inversion E; subst; tauto.
  Qed.

  Lemma read_kind_s_ok s k n e s' : Inv0 s -> read_kind_s s = ((k, n, e), s') -> Inv0 s' /\ shape (stack s) (stack s').
  Proof.
    intros H. unfold read_kind_s. destruct (read_byte s) as [[b|eb] s1] eqn:R;
      destruct (read_byte_ok s _ s1 H R) as (I & K & Sh).
    - set (s0 := {| inp := inp s1; remaining := remaining s1; limited := limited s1; stack := stack s1;
                    skind := skind s1; ssize := ssize s1; byteval := 0; kinderr := kinderr s1 |}).
      assert (I0 : Inv0 s0) by exact I.
      assert (Sh0 : shape (stack s) (stack s0)) by exact Sh.
      destruct (b <? 128); [intro E; inversion E; subst; split; [exact I | exact Sh]|].
      destruct (b <? 184); [intro E; inversion E; subst; split; [exact I0 | exact Sh0]|].
      destruct (b <? 192).
      { destruct (read_uint (b - 183) s0) as [[v|ev] s2] eqn:U;
          destruct (read_uint_ok _ s0 _ s2 I0 U) as (I2 & _ & Sh2); intro E; inversion E; subst;
          (split; [exact I2 | eapply shape_trans; [exact Sh0 | exact Sh2]]). }
      destruct (b <? 248); [intro E; inversion E; subst; split; [exact I0 | exact Sh0]|].
      { destruct (read_uint (b - 247) s0) as [[v|ev] s2] eqn:U;
          destruct (read_uint_ok _ s0 _ s2 I0 U) as (I2 & _ & Sh2); intro E; inversion E; subst;
          (split; [exact I2 | eapply shape_trans; [exact Sh0 | exact Sh2]]). }
    - intro E; inversion E; subst. split; [exact I | exact Sh].
  Qed.

  Lemma set_kind3_inv0 s k z e : Inv0 s -> Inv0 (set_kind3 s k z e).
  Proof. unfold Inv0, set_kind3; cbn. tauto. Qed.

  Lemma nest_top rem p z r : nest_ok rem 0 ((p, z) :: r) -> z - p <= rem.
  Proof. cbn [nest_ok]. intros [H _]. lia. Qed.

  Lemma inv_err s k z e : Inv0 s -> Inv (set_kind3 s k z (Some e)).
  Proof. intro H. split; [apply set_kind3_inv0, H|]. intros ? _ Z. discriminate. Qed.

  (* Kind: the invariant is kept, and a reported size is covered by declared, still unread input *)
  Lemma s_kind_ok s r s' : Inv s -> s_kind s = (r, s') ->
    Inv s' /\
    match r with
    | SOk (k, n) => n <= remaining s' /\ skind s' = Some k /\ fits s' n
    | SErr _ => True
    end.
  Proof.
    intros HI. pose proof HI as [HI0 Hk]. pose proof HI0 as (Hl & Hc & Hi & Hf & Hch & Hn). unfold s_kind.
    destruct (skind s) as [k|] eqn:Ek.
    - destruct (kinderr s) as [e|] eqn:Ee; intro E; inversion E; subst; split; try exact HI; try exact I.
      pose proof (Hk k eq_refl eq_refl) as F. repeat split; try assumption.
      unfold fits in F. destruct (stack s') as [|[p z] rr] eqn:Es; [exact F|].
      apply nest_top in Hn. lia.
    - assert (I0 : Inv0 (set_kind3 s None (ssize s) None)) by (apply set_kind3_inv0, HI0).
      cbn [set_kind3 stack]. destruct (stack s) as [|[p z] rr] eqn:Es.
      + destruct (read_kind_s (set_kind3 s None (ssize s) None)) as [[[k n] e] s1] eqn:RK.
        destruct (read_kind_s_ok _ _ _ _ _ I0 RK) as [I1 Sh]. cbn [set_kind3 stack] in Sh. rewrite Es in Sh.
        pose proof I1 as (Hl1 & _).
        destruct e as [e|].
        * intro E; inversion E; subst. split; [apply inv_err, I1 | exact I].
        * rewrite Hl1. cbn [andb]. destruct (N.ltb_spec (remaining s1) n) as [Hlt|Hge].
          -- intro E; inversion E; subst. split; [apply inv_err, I1 | exact I].
          -- intro E; inversion E; subst.
             assert (F : fits (set_kind3 s1 (Some k) n None) n).
             { unfold fits, set_kind3; cbn. destruct (stack s1); [exact Hge | destruct p; contradiction]. }
             split; [split; [apply set_kind3_inv0, I1 | intros ? _ _; exact F]|].
             cbn. repeat split; assumption.
      + destruct (N.eqb_spec p z) as [Epz|Npz].
        * intro E; inversion E; subst. split; [|exact I]. apply Inv0_nokind; [exact I0 | reflexivity].
        * destruct (read_kind_s (set_kind3 s None (ssize s) None)) as [[[k n] e] s1] eqn:RK.
          destruct (read_kind_s_ok _ _ _ _ _ I0 RK) as [I1 Sh]. cbn [set_kind3 stack] in Sh. rewrite Es in Sh.
          destruct e as [e|].
          -- intro E; inversion E; subst. split; [apply inv_err, I1 | exact I].
          -- destruct (stack s1) as [|[p1 z1] r1] eqn:Es1; [contradiction|].
             destruct (N.ltb_spec (z1 - p1) n) as [Hlt|Hge].
             ++ intro E; inversion E; subst. split; [apply inv_err, I1 | exact I].
             ++ intro E; inversion E; subst.
                destruct I1 as (A1 & A2 & A3 & A4 & A5 & A6).
                assert (Hrem : n <= remaining s1) by (rewrite Es1 in A6; apply nest_top in A6; lia).
                assert (F : fits (set_kind3 s1 (Some k) n None) n) by (unfold fits, set_kind3; cbn; rewrite Es1; exact Hge).
                split; [split; [apply set_kind3_inv0; unfold Inv0; tauto | intros ? _ _; exact F]|].
                cbn. repeat split; assumption.
  Qed.

  Lemma inv_rearm s : Inv0 s -> Inv (upd_kind s None).
  Proof. intro H. apply Inv0_nokind; [apply upd_kind_inv0, H | reflexivity]. Qed.

  Ltac fin := match goal with
              | H : (_, _) = (_, _) |- _ => inversion H; subst; clear H
              end.

  Lemma inv0_rem_le s : Inv0 s -> remaining s <= L.
  Proof. intros (_ & Hc & Hi & _). lia. Qed.

  (* Bytes: the buffer it allocates (make([]byte, size)) is covered by declared input *)
  Lemma s_bytes_ok s r s' : Inv s -> s_bytes_op s = (r, s') ->
    Inv s' /\ match r with SOk b => len b <= L + 1 | SErr _ => True end.
  Proof.
    intros HI. unfold s_bytes_op. destruct (s_kind s) as [[[k n]|e] s1] eqn:K;
      destruct (s_kind_ok s _ s1 HI K) as [I1 P].
    - destruct P as (Hrem & Hk & F). pose proof (inv0_rem_le s1 (proj1 I1)) as HL. destruct k.
      + intro E; fin. split; [apply inv_rearm, I1|]. cbn. lia.
      + destruct (read_full n s1) as [[b|e] s2] eqn:R; destruct (read_full_ok n s1 _ s2 (proj1 I1) R) as (I2 & K2 & _ & P2).
        * destruct ((n =? 1) && (hd 0 b <? 128)); intro E; fin; (split; [apply Inv0_nokind; assumption|]); [exact I | destruct P2; lia].
        * intro E; fin. split; [apply Inv0_nokind; assumption | exact I].
      + intro E; fin. split; [exact I1 | exact I].
    - intro E; fin. split; [exact I1 | exact I].
  Qed.

  Lemma head_len_le base n : len (head base n) <= 9 \/ 2 ^ 64 <= n.
  Proof.
    unfold head. destruct (N.ltb_spec n 56); [left; cbn; lia|].
    destruct (N.lt_ge_cases n (2 ^ 64)) as [H64|H64]; [left | right; exact H64].
    pose proof (beb_length n 8 H64) as Hl. unfold len in *. cbn [length]. lia.
  Qed.

  (* Raw: content buffer covered by declared input (plus at most 9 header bytes) *)
  Lemma s_raw_ok s r s' : Inv s -> s_raw_op s = (r, s') ->
    Inv s' /\ match r with SOk b => len b <= L + 9 | SErr _ => True end.
  Proof.
    intros HI. unfold s_raw_op. destruct (s_kind s) as [[[k n]|e] s1] eqn:K;
      destruct (s_kind_ok s _ s1 HI K) as [I1 P].
    - destruct P as (Hrem & Hk & F). pose proof (inv0_rem_le s1 (proj1 I1)) as HL.
      assert (G : forall base, match read_full n s1 with
                               | (SErr e, s2) => (SErr e, s2)
                               | (SOk b, s2) => (SOk (head base n ++ b), s2)
                               end = (r, s') ->
                  Inv s' /\ match r with SOk b => len b <= L + 9 | SErr _ => True end).
      { intro base. destruct (read_full n s1) as [[b|e] s2] eqn:R; destruct (read_full_ok n s1 _ s2 (proj1 I1) R) as (I2 & K2 & _ & P2).
        - intro E; fin. destruct P2 as [Hb Hn]. split; [apply Inv0_nokind; assumption|].
          unfold len in *. rewrite app_length. destruct (head_len_le base n) as [H9|H64].
          + unfold len in H9. lia.
          + exfalso. lia.
        - intro E; fin. split; [apply Inv0_nokind; assumption | exact I]. }
      destruct k.
      + intro E; fin. split; [apply inv_rearm, I1|]. cbn. lia.
      + apply G.
      + apply G.
    - intro E; fin. split; [exact I1 | exact I].
  Qed.

  Lemma s_uint_ok w s r s' : Inv s -> s_uint_op w s = (r, s') -> Inv s'.
  Proof.
    intros HI. unfold s_uint_op. destruct (s_kind s) as [[[k n]|e] s1] eqn:K;
      destruct (s_kind_ok s _ s1 HI K) as [I1 P].
    - destruct k.
      + destruct (byteval s1 =? 0); intro E; fin; [exact I1 | apply inv_rearm, I1].
      + destruct (w <? n); [intro E; fin; exact I1|].
        destruct (read_uint n s1) as [[v|e] s2] eqn:R; destruct (read_uint_ok n s1 _ s2 (proj1 I1) R) as (I2 & K2 & _).
        * destruct ((0 <? n) && (v <? 128)); intro E; fin; apply Inv0_nokind; assumption.
        * destruct e as [[]| | | | ]; intro E; fin; apply Inv0_nokind; assumption.
      + intro E; fin. exact I1.
    - intro E; fin. exact I1.
  Qed.

  Lemma s_bool_ok s r s' : Inv s -> s_bool_op s = (r, s') -> Inv s'.
  Proof.
    intros HI. unfold s_bool_op. destruct (s_uint_op 1 s) as [[v|e] s1] eqn:U; pose proof (s_uint_ok 1 s _ s1 HI U) as I1.
    - destruct (v =? 0); [intro E; fin; exact I1|]. destruct (v =? 1); intro E; fin; exact I1.
    - intro E; fin. exact I1.
  Qed.

  Lemma s_list_ok s r s' : Inv s -> s_list_op s = (r, s') ->
    Inv s' /\ match r with SOk n => n <= L | SErr _ => True end.
  Proof.
    intros HI. unfold s_list_op. destruct (s_kind s) as [[[k n]|e] s1] eqn:K;
      destruct (s_kind_ok s _ s1 HI K) as [I1 P].
    - destruct P as (Hrem & Hk & F). pose proof (inv0_rem_le s1 (proj1 I1)) as HL.
      destruct k; try (intro E; fin; split; [exact I1 | exact I]).
      intro E; fin. split; [|lia]. apply Inv0_nokind; [|reflexivity].
      destruct I1 as [(A1 & A2 & A3 & A4 & A5 & A6) _]. unfold Inv0; cbn.
      repeat split; try assumption.
      + constructor; [cbn; lia | exact A4].
      + unfold fits in F. destruct (stack s1) as [|[p z] rr] eqn:Es; [exact I|].
        inversion A4 as [|? ? Hpz _]; subst. cbn [fst snd] in Hpz. split; [lia | exact A5].
      + lia.
    - intro E; fin. split; [exact I1 | exact I].
  Qed.

  Lemma s_list_end_ok s e s' : Inv s -> s_list_end_op s = (e, s') -> Inv s'.
  Proof.
    intros HI. unfold s_list_end_op. destruct (stack s) as [|[p z] rest] eqn:Es; [intro E; fin; exact HI|].
    destruct (N.eqb_spec p z) as [->|]; cbn [negb]; [|intro E; fin; exact HI].
    intro E; fin. apply Inv0_nokind; [|reflexivity].
    destruct HI as [(A1 & A2 & A3 & A4 & A5 & A6) _]. rewrite Es in *. unfold Inv0; cbn.
    inversion A4 as [|? ? _ A4r]; subst.
    destruct rest as [|[pp zp] r].
    - repeat split; try assumption; constructor.
    - cbn [chain_ok] in A5. destruct A5 as [Hfit A5r]. inversion A4r as [|? ? Hpp A4rr]; subst. cbn [fst snd] in Hpp.
      cbn [nest_ok] in A6. destruct A6 as (N1 & N2 & N3).
      repeat split; try assumption.
      + constructor; [cbn; lia | exact A4rr].
      + lia.
      + eapply nest_ok_mono; [|exact N3]. lia.
  Qed.

  Lemma step_ok o s b s' : Inv s -> step o s = (b, s') -> Inv s'.
  Proof.
    intros HI. destruct o; cbn [step].
    - destruct (s_kind s) as [[[k n]|e] s1] eqn:K; destruct (s_kind_ok s _ s1 HI K) as [I1 _]; intro E; fin; exact I1.
    - destruct (s_bytes_op s) as [[x|e] s1] eqn:K; destruct (s_bytes_ok s _ s1 HI K) as [I1 _]; intro E; fin; exact I1.
    - destruct (s_raw_op s) as [[x|e] s1] eqn:K; destruct (s_raw_ok s _ s1 HI K) as [I1 _]; intro E; fin; exact I1.
    - destruct (s_uint_op w s) as [[x|e] s1] eqn:K; pose proof (s_uint_ok w s _ s1 HI K) as I1; intro E; fin; exact I1.
    - destruct (s_bool_op s) as [[x|e] s1] eqn:K; pose proof (s_bool_ok s _ s1 HI K) as I1; intro E; fin; exact I1.
    - destruct (s_list_op s) as [[x|e] s1] eqn:K; destruct (s_list_ok s _ s1 HI K) as [I1 _]; intro E; fin; exact I1.
    - destruct (s_list_end_op s) as [[e|] s1] eqn:K; pose proof (s_list_end_ok s _ s1 HI K) as I1; intro E; fin; exact I1.
  Qed.

  Lemma run_ok ops : forall s bs s', Inv s -> run ops s = (bs, s') -> Inv s'.
  Proof.
    induction ops as [|o r IH]; intros s bs s' HI; cbn [run].
    - intro E; fin. exact HI.
    - destruct (step o s) as [b s1] eqn:S. destruct (run r s1) as [bs' s2] eqn:R.
      intro E; fin. eapply IH; [eapply step_ok; [exact HI | exact S] | exact R].
  Qed.
End Inv.

(* ---------- headline: for every script of operations on NewStream(bytes.NewReader(b), limit) ---------- *)
Definition eff_limit (b : bytes) (limit : N) : N := if limit =? 0 then len b else limit.

Definition u64 (b : bytes) (limit : N) : Prop := limit < 2 ^ 64 /\ len b < 2 ^ 64.

Lemma eff_limit_64 b limit : u64 b limit -> eff_limit b limit < 2 ^ 64.
Proof. unfold u64, eff_limit. destruct (limit =? 0); tauto. Qed.

Lemma new_stream_inv b limit : u64 b limit -> Inv (eff_limit b limit) (len b) (new_stream b limit).
Proof.
  intro U. apply Inv0_nokind; [exact (eff_limit_64 b limit U) | | reflexivity]. unfold Inv0, new_stream, eff_limit; cbn.
  repeat split; try lia; constructor.
Qed.

(* bytes taken from the reader never exceed the declared limit, and list frames are never overrun *)
Theorem stream_bounded b limit ops obs s' :
  u64 b limit ->
  run ops (new_stream b limit) = (obs, s') ->
  len b - len (inp s') <= eff_limit b limit /\ len (inp s') <= len b /\ frames_ok (stack s').
Proof.
  intros U R. destruct (run_ok _ _ (eff_limit_64 b limit U) ops _ _ _ (new_stream_inv b limit U) R) as [(H1 & H2 & H3 & H4 & _) _].
  repeat split; try assumption. lia.
Qed.

(* whenever Kind reports a value of size n (after any history), n bytes of declared input remain:
   the buffers Bytes / Raw allocate are covered by the declared input *)
Theorem stream_alloc_bounded b limit ops obs s1 k n s2 :
  u64 b limit ->
  run ops (new_stream b limit) = (obs, s1) -> s_kind s1 = (SOk (k, n), s2) ->
  n <= remaining s2 /\ remaining s2 <= eff_limit b limit.
Proof.
  intros U R K. pose proof (eff_limit_64 b limit U) as L64.
  pose proof (run_ok _ _ L64 ops _ _ _ (new_stream_inv b limit U) R) as I1.
  destruct (s_kind_ok _ _ L64 s1 _ s2 I1 K) as [I2 (Hn & _)]. split; [exact Hn|].
  exact (inv0_rem_le _ _ L64 s2 (proj1 I2)).
Qed.

Theorem stream_bytes_bounded b limit ops obs s1 x s2 :
  u64 b limit ->
  run ops (new_stream b limit) = (obs, s1) -> s_bytes_op s1 = (SOk x, s2) -> len x <= eff_limit b limit + 1.
Proof.
  intros U R K. pose proof (eff_limit_64 b limit U) as L64.
  pose proof (run_ok _ _ L64 ops _ _ _ (new_stream_inv b limit U) R) as I1.
  exact (proj2 (s_bytes_ok _ _ L64 s1 _ s2 I1 K)).
Qed.

Theorem stream_raw_bounded b limit ops obs s1 x s2 :
  u64 b limit ->
  run ops (new_stream b limit) = (obs, s1) -> s_raw_op s1 = (SOk x, s2) -> len x <= eff_limit b limit + 9.
Proof.
  intros U R K. pose proof (eff_limit_64 b limit U) as L64.
  pose proof (run_ok _ _ L64 ops _ _ _ (new_stream_inv b limit U) R) as I1.
  exact (proj2 (s_raw_ok _ _ L64 s1 _ s2 I1 K)).
Qed.

Theorem stream_results_bounded b limit ops obs s1 x s2 :
  u64 b limit -> run ops (new_stream b limit) = (obs, s1) ->
  (s_bytes_op s1 = (SOk x, s2) -> len x <= eff_limit b limit + 1) /\
  (s_raw_op s1 = (SOk x, s2) -> len x <= eff_limit b limit + 9).
Proof.
  intros U R. split; [exact (stream_bytes_bounded b limit ops obs s1 x s2 U R) | exact (stream_raw_bounded b limit ops obs s1 x s2 U R)].
Qed.

(* ---------- header errors are sticky ---------- *)
(* Once Kind has reported an error other than EOL, the stream is in a state where Kind, Bytes, Raw, Uint,
   Bool and List all report that same error and leave the state (reader position included) unchanged, for
   as long as nothing re-arms it (only ListEnd does, in this API). A Decoder that drops the error of a
   Kind() call therefore cannot make progress past a bad header. *)
Lemma s_kind_err_state s e s1 : s_kind s = (SErr e, s1) -> e <> SEOL ->
  exists k, skind s1 = Some k /\ kinderr s1 = Some e.
Proof.
  unfold s_kind. destruct (skind s) as [k|] eqn:Ek.
  - destruct (kinderr s) as [e0|] eqn:Ee; intro E; inversion E; subst. intros _. exists k. auto.
  - cbn [set_kind3 stack]. destruct (stack s) as [|[p z] rr].
    + destruct (read_kind_s _) as [[[k n] e0] s2]. destruct e0 as [e0|].
      * intro E; inversion E; subst. intros _. exists k. cbn. auto.
      * destruct (limited s2 && (remaining s2 <? n)); intro E; inversion E; subst. intros _. exists k. cbn. auto.
    + destruct (p =? z); [intro E; inversion E; subst; congruence|].
      destruct (read_kind_s _) as [[[k n] e0] s2]. destruct e0 as [e0|].
      * intro E; inversion E; subst. intros _. exists k. cbn. auto.
      * destruct (stack s2) as [|[p1 z1] r1]; [intro E; inversion E|].
        destruct (z1 - p1 <? n); intro E; inversion E; subst. intros _. exists k. cbn. auto.
Qed.

Lemma sticky_kind s k e : skind s = Some k -> kinderr s = Some e -> s_kind s = (SErr e, s).
Proof. intros K E. unfold s_kind. rewrite K, E. reflexivity. Qed.

Definition asks_kind (o : op) : bool := match o with OListEnd => false | _ => true end.

Lemma sticky_step s k e o : skind s = Some k -> kinderr s = Some e -> asks_kind o = true ->
  step o s = (BErr (serr_code e), s).
Proof.
  intros K E A. pose proof (sticky_kind s k e K E) as SK.
  destruct o; try discriminate; cbn [step]; unfold s_bytes_op, s_raw_op, s_uint_op, s_bool_op, s_uint_op, s_list_op;
    rewrite ?SK; reflexivity.
Qed.

Theorem stream_error_sticky s e s1 ops :
  s_kind s = (SErr e, s1) -> e <> SEOL -> forallb asks_kind ops = true ->
  run ops s1 = (map (fun _ => BErr (serr_code e)) ops, s1).
Proof.
  intros K Ne. destruct (s_kind_err_state s e s1 K Ne) as (k & Hk & He).
  induction ops as [|o r IH]; intro A; [reflexivity|].
  cbn [forallb] in A. apply andb_true_iff in A as [A1 A2].
  cbn [run map]. rewrite (sticky_step s1 k e o Hk He A1). rewrite (IH A2). reflexivity.
Qed.
