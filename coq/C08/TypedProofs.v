(* C08 typed layer: round trip and canonicity on item trees, then lifted to bytes with Proofs.v. *)
From Coq Require Import List NArith Lia Bool Arith.
From V.Base Require Import Hex BigEndian.
From V.C08 Require Import Model Proofs Typed.
Import ListNotations.
Local Open Scope N_scope.

Section TyInd.
  Variable P : ty -> Prop.
  Definition opt_P (o : option ty) : Prop := match o with Some t => P t | None => True end.
  Hypothesis HUint : forall w, P (TUint w).
  Hypothesis HBig : P TBig.
  Hypothesis HBool : P TBool.
  Hypothesis HBytes : P TBytes.
  Hypothesis HByteArr : forall n, P (TByteArr n).
  Hypothesis HSlice : forall t, P t -> P (TSlice t).
  Hypothesis HArr : forall n t, P t -> P (TArr n t).
  Hypothesis HStruct : forall fs tl, Forall P fs -> opt_P tl -> P (TStruct fs tl).
  Hypothesis HPtr : forall t, P t -> P (TPtr t).
  Hypothesis HPtrNil : forall t, P t -> P (TPtrNil t).
  Hypothesis HIface : P TIface.
  Hypothesis HRaw : P TRaw.
  Fixpoint ty_ind2 (t : ty) : P t :=
    match t with
    | TUint w => HUint w | TBig => HBig | TBool => HBool | TBytes => HBytes | TByteArr n => HByteArr n
    | TSlice t' => HSlice t' (ty_ind2 t')
    | TArr n t' => HArr n t' (ty_ind2 t')
    | TStruct fs tl =>
      HStruct fs tl
        ((fix go (fs : list ty) : Forall P fs :=
            match fs with [] => Forall_nil P | f :: r => Forall_cons f (ty_ind2 f) (go r) end) fs)
        (match tl as o return opt_P o with
         | Some t' => ty_ind2 t'
         | None => I
         end)
    | TPtr t' => HPtr t' (ty_ind2 t')
    | TPtrNil t' => HPtrNil t' (ty_ind2 t')
    | TIface => HIface
    | TRaw => HRaw
    end.
End TyInd.

(* named versions of the local fixpoints of Typed.v *)
Definition dec_fields (tl : option ty) : list ty -> list item -> option (list value) :=
  fix go (fs : list ty) (l : list item) {struct fs} : option (list value) :=
    match fs, l with
    | [], _ => match tl with
               | None => match l with [] => Some [] | _ => None end
               | Some t' => match map_opt (dec_ty t') l with Some vs => Some [VList vs] | None => None end
               end
    | f :: fs', i :: l' => match dec_ty f i, go fs' l' with
                           | Some v, Some vs => Some (v :: vs)
                           | _, _ => None
                           end
    | _ :: _, [] => None
    end.
Definition enc_fields (tl : option ty) : list ty -> list value -> option (list item) :=
  fix go (fs : list ty) (l : list value) {struct fs} : option (list item) :=
    match fs, l with
    | [], _ => match tl, l with
               | None, [] => Some []
               | Some t', [VList vs] => map_opt (enc_ty t') vs
               | _, _ => None
               end
    | f :: fs', v :: l' => match enc_ty f v, go fs' l' with
                           | Some i, Some is => Some (i :: is)
                           | _, _ => None
                           end
    | _ :: _, [] => None
    end.

Lemma dec_ty_struct fs tl l :
  dec_ty (TStruct fs tl) (Lst l) = match dec_fields tl fs l with Some vs => Some (VList vs) | None => None end.
Proof. reflexivity. Qed.
Lemma enc_ty_struct fs tl l :
  enc_ty (TStruct fs tl) (VList l) = match enc_fields tl fs l with Some is => Some (Lst is) | None => None end.
Proof. reflexivity. Qed.

Lemma map_opt_length {A B} (f : A -> option B) l r : map_opt f l = Some r -> length r = length l.
Proof.
  revert r; induction l as [|x l IH]; intros r H; simpl in H.
  - inversion H; reflexivity.
  - destruct (f x); [|discriminate]. destruct (map_opt f l) eqn:E; [|discriminate].
    inversion H; subst. simpl. f_equal. apply IH. reflexivity.
Qed.

Lemma map_opt_inv {A B} (f : A -> option B) (g : B -> option A) l r :
  (forall x y, In x l -> f x = Some y -> g y = Some x) ->
  map_opt f l = Some r -> map_opt g r = Some l.
Proof.
  revert r; induction l as [|x l IH]; intros r Hfg H; simpl in H.
  - inversion H; reflexivity.
  - destruct (f x) as [y|] eqn:Ex; [|discriminate]. destruct (map_opt f l) as [ys|] eqn:E; [|discriminate].
    inversion H; subst. simpl. rewrite (Hfg x y (or_introl eq_refl) Ex).
    rewrite (IH ys); [reflexivity | | reflexivity].
    intros x' y' Hin. apply Hfg. right. exact Hin.
Qed.

Lemma canon_int_beb n : canon_int (beb n) = true.
Proof. unfold canon_int. destruct (N.eqb_spec (hd 1 (beb n)) 0) as [E|]; [exfalso; exact (beb_hd n E) | reflexivity]. Qed.

Lemma pow256_nat w : 256 ^ w = 256 ^ N.of_nat (N.to_nat w).
Proof. rewrite N2Nat.id. reflexivity. Qed.

(* ---------- encode then decode ---------- *)
Lemma typed_roundtrip_item : forall t v i, enc_ty t v = Some i -> dec_ty t i = Some v.
Proof.
  apply (ty_ind2 (fun t => forall v i, enc_ty t v = Some i -> dec_ty t i = Some v)).
  - intros w v i. destruct v; cbn [enc_ty]; try discriminate.
    destruct (N.ltb_spec n (256 ^ w)) as [Hlt|]; [|discriminate].
    intro E; inversion E; subst. cbn [dec_ty]. rewrite canon_int_beb.
    assert (Hl : len (beb n) <= w).
    { unfold len. rewrite pow256_nat in Hlt. pose proof (beb_length n _ Hlt). lia. }
    destruct (N.leb_spec (len (beb n)) w); [|lia]. cbn [andb]. rewrite bev_beb. reflexivity.
  - intros v i. destruct v; cbn [enc_ty]; try discriminate. intro E; inversion E; subst.
    cbn [dec_ty]. rewrite canon_int_beb, bev_beb. reflexivity.
  - intros v i. destruct v; cbn [enc_ty]; try discriminate. intro E; inversion E; subst.
    destruct b; reflexivity.
  - intros v i. destruct v; cbn [enc_ty]; try discriminate. intro E; inversion E; subst. reflexivity.
  - intros n v i. destruct v; cbn [enc_ty]; try discriminate.
    destruct (N.eqb_spec (len b) n); [|discriminate]. intro E; inversion E; subst.
    cbn [dec_ty]. rewrite N.eqb_refl. reflexivity.
  - intros t IH v i. destruct v; cbn [enc_ty]; try discriminate.
    destruct (map_opt (enc_ty t) l) as [is|] eqn:E; [|discriminate]. intro H; inversion H; subst.
    cbn [dec_ty]. rewrite (map_opt_inv _ (dec_ty t) _ _ (fun x y _ => IH x y) E). reflexivity.
  - intros n t IH v i. destruct v; cbn [enc_ty]; try discriminate.
    destruct (Nat.eqb_spec (length l) n); [|discriminate].
    destruct (map_opt (enc_ty t) l) as [is|] eqn:E; [|discriminate]. intro H; inversion H; subst.
    cbn [dec_ty]. rewrite (map_opt_length _ _ _ E). rewrite Nat.eqb_refl.
    rewrite (map_opt_inv _ (dec_ty t) _ _ (fun x y _ => IH x y) E). reflexivity.
  - intros fs tl Hfs Htl v i. destruct v; try (cbn [enc_ty]; discriminate).
    rewrite enc_ty_struct. destruct (enc_fields tl fs l) as [is|] eqn:E; [|discriminate].
    intro H; inversion H; subst. rewrite dec_ty_struct.
    assert (G : dec_fields tl fs is = Some l).
    { clear H. revert l is E. induction Hfs as [|f fs' Hf Hfs' IHfs]; intros l is E.
      - cbn [enc_fields] in E. cbn [dec_fields]. destruct tl as [t'|].
        + destruct l as [|[ | | |vs| | | ] [|? ?]]; try discriminate.
          cbn [opt_P] in Htl. rewrite (map_opt_inv _ (dec_ty t') _ _ (fun x y _ => Htl x y) E). reflexivity.
        + destruct l; [|discriminate]. inversion E; reflexivity.
      - cbn [enc_fields] in E. destruct l as [|v l']; [discriminate|].
        destruct (enc_ty f v) as [i0|] eqn:Ef; [|discriminate].
        destruct (enc_fields tl fs' l') as [is'|] eqn:Er; [|discriminate].
        inversion E; subst. cbn [dec_fields]. rewrite (Hf _ _ Ef). rewrite (IHfs _ _ Er). reflexivity. }
    rewrite G. reflexivity.
  - intros t IH v i. cbn [enc_ty dec_ty]. apply IH.
  - intros t IH v i. destruct v eqn:Ev; cbn [enc_ty].
    1-4,6,7: (destruct (enc_ty t _) as [j|] eqn:E; [|discriminate];
            destruct (is_empty_item j) eqn:Em; [discriminate|];
            intro H; inversion H; subst j;
            apply IH in E;
            destruct i as [[|? ?]|[|? ?]]; cbn [dec_ty]; try exact E; cbn in Em; discriminate).
    intro H; inversion H; subst. unfold nil_item. destruct (nil_is_list t) eqn:En; cbn [dec_ty]; rewrite En; reflexivity.
  - intros v i. destruct v; cbn [enc_ty]; try discriminate. intro E; inversion E; subst. reflexivity.
  - intros v i. destruct v; cbn [enc_ty]; discriminate.
Qed.

(* ---------- decode then encode (canonicity of the typed layer) ---------- *)
Definition not_ptrnil (t : ty) : bool := match t with TPtrNil _ => false | _ => true end.

Lemma dec_not_nil : forall t i, ty_ok t = true -> not_ptrnil t = true -> dec_ty t i <> Some VNil.
Proof.
  apply (ty_ind2 (fun t => forall i, ty_ok t = true -> not_ptrnil t = true -> dec_ty t i <> Some VNil)).
  - intros w i _ _. destruct i; cbn [dec_ty]; [destruct (canon_int b && (len b <=? w))|]; discriminate.
  - intros i _ _. destruct i; cbn [dec_ty]; [destruct (canon_int b)|]; discriminate.
  - intros i _ _. destruct i as [[|x [|? ?]]|]; cbn [dec_ty]; try discriminate;
      destruct x as [|[p|p|]]; discriminate.
  - intros i _ _. destruct i; cbn [dec_ty]; discriminate.
  - intros n i _ _. destruct i; cbn [dec_ty]; [destruct (len b =? n)|]; discriminate.
  - intros t _ i _ _. destruct i; cbn [dec_ty]; [discriminate|]. destruct (map_opt (dec_ty t) l); discriminate.
  - intros n t _ i _ _. destruct i; cbn [dec_ty]; [discriminate|].
    destruct (Nat.eqb (length l) n); [|discriminate]. destruct (map_opt (dec_ty t) l); discriminate.
  - intros fs tl _ _ i _ _. destruct i; [cbn [dec_ty]; discriminate|].
    rewrite dec_ty_struct. destruct (dec_fields tl fs l); discriminate.
  - intros t IH i Hok _. cbn [ty_ok] in Hok. apply andb_true_iff in Hok as [Hok Hnp].
    cbn [dec_ty]. apply IH; [exact Hok|]. destruct t; try reflexivity; discriminate.
  - intros t _ i _ H. discriminate.
  - intros i _ _. cbn [dec_ty]. discriminate.
  - intros i _ _. destruct i; cbn [dec_ty]; discriminate.
Qed.

Lemma bev_lt_pow b w : bytes_ok b -> len b <= w -> bev b < 256 ^ w.
Proof.
  intros Hok Hl. eapply N.lt_le_trans; [apply bev_bound; exact Hok|].
  apply N.pow_le_mono_r; [lia | exact Hl].
Qed.

Lemma typed_canonical_item :
  forall t i v, ty_ok t = true -> item_ok i -> dec_ty t i = Some v -> enc_ty t v = Some i.
Proof.
  apply (ty_ind2 (fun t => forall i v, ty_ok t = true -> item_ok i -> dec_ty t i = Some v -> enc_ty t v = Some i)).
  - intros w i v _ Hi. destruct i as [b|]; cbn [dec_ty]; [|discriminate]. destruct Hi as [Hb _].
    destruct (canon_int b) eqn:Ec; [|discriminate]. destruct (N.leb_spec (len b) w) as [Hl|]; [|discriminate].
    cbn [andb]. intro E; inversion E; subst. cbn [enc_ty].
    pose proof (bev_lt_pow b w Hb Hl). destruct (N.ltb_spec (bev b) (256 ^ w)); [|lia].
    unfold canon_int in Ec. apply negb_true_iff, N.eqb_neq in Ec. rewrite beb_bev by assumption. reflexivity.
  - intros i v _ Hi. destruct i as [b|]; cbn [dec_ty]; [|discriminate]. destruct Hi as [Hb _].
    destruct (canon_int b) eqn:Ec; [|discriminate]. intro E; inversion E; subst. cbn [enc_ty].
    unfold canon_int in Ec. apply negb_true_iff, N.eqb_neq in Ec. rewrite beb_bev by assumption. reflexivity.
  - intros i v _ _. destruct i as [[|x [|? ?]]|]; cbn [dec_ty]; try discriminate.
    + intro E; inversion E; reflexivity.
    + destruct x as [|[p|p|]]; try discriminate. intro E; inversion E; reflexivity.
    + destruct x as [|[p|p|]]; discriminate.
  - intros i v _ _. destruct i; cbn [dec_ty]; [|discriminate]. intro E; inversion E; reflexivity.
  - intros n i v _ _. destruct i; cbn [dec_ty]; [|discriminate].
    destruct (N.eqb_spec (len b) n); [|discriminate]. intro E; inversion E; subst. cbn [enc_ty].
    rewrite N.eqb_refl. reflexivity.
  - intros t IH i v Hok Hi. destruct i as [|l]; cbn [dec_ty]; [discriminate|].
    apply item_ok_Lst in Hi as [Hall _]. cbn [ty_ok] in Hok.
    destruct (map_opt (dec_ty t) l) as [vs|] eqn:E; [|discriminate]. intro H; inversion H; subst.
    cbn [enc_ty]. rewrite (map_opt_inv _ (enc_ty t) _ _ (fun x y Hin => IH x y Hok (proj1 (Forall_forall _ _) Hall x Hin)) E).
    reflexivity.
  - intros n t IH i v Hok Hi. destruct i as [|l]; cbn [dec_ty]; [discriminate|].
    apply item_ok_Lst in Hi as [Hall _]. cbn [ty_ok] in Hok.
    destruct (Nat.eqb_spec (length l) n); [|discriminate].
    destruct (map_opt (dec_ty t) l) as [vs|] eqn:E; [|discriminate]. intro H; inversion H; subst.
    cbn [enc_ty]. rewrite (map_opt_length _ _ _ E), Nat.eqb_refl.
    rewrite (map_opt_inv _ (enc_ty t) _ _ (fun x y Hin => IH x y Hok (proj1 (Forall_forall _ _) Hall x Hin)) E).
    reflexivity.
  - intros fs tl Hfs Htl i v Hok Hi. destruct i as [|l]; [cbn [dec_ty]; discriminate|].
    apply item_ok_Lst in Hi as [Hall _]. cbn [ty_ok] in Hok. apply andb_true_iff in Hok as [Hokf Hokt].
    rewrite dec_ty_struct. destruct (dec_fields tl fs l) as [vs|] eqn:E; [|discriminate].
    intro H; inversion H; subst. rewrite enc_ty_struct.
    assert (G : enc_fields tl fs vs = Some l).
    { clear H. revert l vs E Hall Hokf. induction Hfs as [|f fs' Hf Hfs' IHfs]; intros l vs E Hall Hokf.
      - cbn [dec_fields] in E. cbn [enc_fields]. destruct tl as [t'|].
        + destruct (map_opt (dec_ty t') l) as [ws|] eqn:Em; [|discriminate]. inversion E; subst.
          cbn [opt_P] in Htl.
          apply (map_opt_inv _ (enc_ty t') _ _ (fun x y Hin => Htl x y Hokt (proj1 (Forall_forall _ _) Hall x Hin)) Em).
        + destruct l; [|discriminate]. inversion E; reflexivity.
      - cbn [dec_fields] in E. destruct l as [|i0 l']; [discriminate|].
        destruct (dec_ty f i0) as [v0|] eqn:Ef; [|discriminate].
        destruct (dec_fields tl fs' l') as [vs'|] eqn:Er; [|discriminate].
        inversion E; subst. inversion Hall as [|? ? Hi0 Hl']; subst.
        cbn [forallb] in Hokf. apply andb_true_iff in Hokf as [Hokf1 Hokf2].
        cbn [enc_fields]. rewrite (Hf _ _ Hokf1 Hi0 Ef). rewrite (IHfs _ _ Er Hl' Hokf2). reflexivity. }
    rewrite G. reflexivity.
  - intros t IH i v Hok Hi. cbn [ty_ok] in Hok. apply andb_true_iff in Hok as [Hok _].
    cbn [dec_ty enc_ty]. apply IH; assumption.
  - intros t IH i v Hok Hi. cbn [ty_ok] in Hok. apply andb_true_iff in Hok as [Hok Hnp].
    assert (Hnp' : not_ptrnil t = true) by (destruct t; try reflexivity; discriminate).
    assert (Gen : dec_ty t i = Some v -> is_empty_item i = false -> enc_ty (TPtrNil t) v = Some i).
    { intros E Em. pose proof (dec_not_nil t i Hok Hnp') as Hnn.
      pose proof (IH i v Hok Hi E) as Ee.
      destruct v; cbn [enc_ty]; try (rewrite Ee, Em; reflexivity). exfalso. apply Hnn. exact E. }
    destruct i as [[|x b]|[|x l]].
    + cbn [dec_ty]. destruct (nil_is_list t) eqn:En; [discriminate|]. intro E; inversion E; subst.
      cbn [enc_ty]. unfold nil_item. rewrite En. reflexivity.
    + cbn [dec_ty]. intro E. apply Gen; [exact E | reflexivity].
    + cbn [dec_ty]. destruct (nil_is_list t) eqn:En; [|discriminate]. intro E; inversion E; subst.
      cbn [enc_ty]. unfold nil_item. rewrite En. reflexivity.
    + cbn [dec_ty]. intro E. apply Gen; [exact E | reflexivity].
  - intros i v _ _. cbn [dec_ty]. intro E; inversion E; reflexivity.
  - intros i v _ _. destruct i; cbn [dec_ty]; discriminate.
Qed.

(* ---------- lifted to bytes ---------- *)
Theorem typed_decode_encode t v i :
  enc_ty t v = Some i -> item_ok i -> decode_typed t (encode i) = Some v.
Proof.
  intros E Hi. unfold decode_typed. rewrite (decode_bytes_encode i Hi). apply typed_roundtrip_item, E.
Qed.

Theorem typed_canonical t b v :
  ty_ok t = true -> bytes_ok b -> decode_typed t b = Some v -> encode_typed t v = Some b.
Proof.
  intros Ht Hb. unfold decode_typed, encode_typed.
  destruct (decode_bytes b) as [i|e] eqn:D; [|discriminate].
  apply decode_bytes_canonical in D as [-> Hi]; [|exact Hb].
  intro E. rewrite (typed_canonical_item t i v Ht Hi E). reflexivity.
Qed.
