(* C08 typed codec at the byte / stream level.
   [tenc] follows encode.go's makeWriter case by case and produces BYTES (writeUint, writeBigInt,
   writeBool, writeBytes/String/ByteArray, writeRawValue, writeInterface, makeSliceWriter with and without
   the tail tag, makeStructWriter, makePtrWriter with its three nil-pointer encodings).
   [tdec] follows decode.go's makeDecoder case by case on the remaining bytes of the current scope (the
   innermost list, or the limited top-level input): Stream.Kind = [read_kind], Stream.List opens the scope
   [firstn size r] and Stream.ListEnd demands that it was consumed entirely, Stream.uint / Bytes / Bool /
   Raw, decodeByteArray, decodeListSlice / decodeSliceElems / decodeListArray, makeStructDecoder,
   makePtrDecoder, makeOptionalPtrDecoder (with nilEncodingKind), decodeInterface, decodeRawValue. *)
From Coq Require Import List NArith Lia Bool.
From V.Base Require Import Hex BigEndian.
From V.C08 Require Import Model Typed.
Import ListNotations.
Local Open Scope N_scope.

(* ---------- encoder ---------- *)
(* writeUint *)
Definition write_uint (i : N) : bytes :=
  if i =? 0 then [128]
  else if i <? 128 then [i]
  else let s := beb i in (128 + len s) :: s.       (* putint into sizebuf[1:], sizebuf[0] = 0x80 + s *)

(* encodeString; Go lengths are int, so a payload of 2^64 bytes or more cannot be written *)
Definition write_string (b : bytes) : option bytes :=
  if len b <? 2 ^ 64 then Some (enc_str b) else None.

(* list() ... listEnd(): header in front of the payload *)
Definition write_list (c : bytes) : option bytes :=
  if len c <? 2 ^ 64 then Some (head 192 (len c) ++ c) else None.

Definition obind {A B : Type} (o : option A) (f : A -> option B) : option B :=
  match o with Some a => f a | None => None end.

Fixpoint cat_opt {A : Type} (f : A -> option bytes) (l : list A) : option bytes :=
  match l with
  | [] => Some []
  | x :: r => match f x, cat_opt f r with
              | Some a, Some b => Some (a ++ b)
              | _, _ => None
              end
  end.

(* what makePtrWriter's nilfunc writes for a nil pointer to [t] *)
Fixpoint nil_enc (t : ty) : bytes :=
  match t with
  | TByteArr _ => [128]                       (* kind == Array && isByte(elem) *)
  | TStruct _ _ | TArr _ _ => [192]           (* kind == Struct || kind == Array: w.listEnd(w.list()) *)
  (* default: the writer of the element type applied to its zero value *)
  | TUint _ | TBool | TBytes => [128]
  | TBig => [128]
  | TSlice _ => [192]
  | TIface => [192]                           (* writeInterface on a nil interface *)
  | TRaw => []                                (* writeRawValue on an empty RawValue writes nothing *)
  | TPtr t' | TPtrNil t' => nil_enc t'        (* the zero value of a pointer is nil again *)
  end.

Fixpoint tenc (t : ty) (v : value) {struct t} : option bytes :=
  match t with
  | TUint w => match v with
               | VNum n => if n <? 256 ^ w then Some (write_uint n) else None
               | _ => None
               end
  | TBig => match v with
            | VNum n => if n =? 0 then Some [128] else write_string (beb n)   (* writeBigInt *)
            | VNil => Some [128]                                             (* writeBigIntPtr on nil *)
            | _ => None
            end
  | TBool => match v with VBool b => Some (if b then [1] else [128]) | _ => None end
  | TBytes => match v with VBytes b => write_string b | _ => None end
  | TByteArr n => match v with VBytes b => if len b =? n then write_string b else None | _ => None end
  | TRaw => match v with VRaw b => Some b | _ => None end                    (* verbatim *)
  | TIface => match v with
              | VNil => Some [192]
              | VItem i => if item_okb i then Some (encode i) else None
              | _ => None
              end
  | TSlice t' => match v with
                 | VList vs => obind (cat_opt (tenc t') vs) write_list
                 | _ => None
                 end
  | TArr n t' => match v with
                 | VList vs => if Nat.eqb (length vs) n then obind (cat_opt (tenc t') vs) write_list else None
                 | _ => None
                 end
  | TStruct fs tl =>
    match v with
    | VList vs =>
      obind ((fix go (fs : list ty) (l : list value) {struct fs} : option bytes :=
                match fs, l with
                | [], _ => match tl, l with
                           | None, [] => Some []
                           | Some t', [VList ws] => cat_opt (tenc t') ws       (* tail: no list header *)
                           | _, _ => None
                           end
                | f :: fs', x :: l' => match tenc f x, go fs' l' with
                                       | Some a, Some b => Some (a ++ b)
                                       | _, _ => None
                                       end
                | _ :: _, [] => None
                end) fs vs) write_list
    | _ => None
    end
  | TPtr t' | TPtrNil t' => match v with VNil => Some (nil_enc t') | _ => tenc t' v end
  end.

(* ---------- decoder ---------- *)
Definition notbyte (k : kind) : bool := match k with KByte => false | _ => true end.

(* Stream.Bytes *)
Definition s_bytes (top : bool) (avail : bytes) : res (bytes * bytes) :=
  match read_kind top avail with
  | Err e => Err e
  | Ok (KByte, _, bv, r) => Ok ([bv], r)
  | Ok (KString, size, _, r) =>
    let c := firstn (N.to_nat size) r in
    if (size =? 1) && (hd 0 c <? 128) then Err ECanonSize else Ok (c, skipn (N.to_nat size) r)
  | Ok (KList, _, _, _) => Err EExpectedString
  end.

(* Stream.uint(8 * w) *)
Definition s_uint (w : N) (top : bool) (avail : bytes) : res (N * bytes) :=
  match read_kind top avail with
  | Err e => Err e
  | Ok (KByte, _, bv, r) => if bv =? 0 then Err ECanonInt else Ok (bv, r)
  | Ok (KString, size, _, r) =>
    if w <? size then Err EUintOverflow
    else let c := firstn (N.to_nat size) r in
         if (2 <=? size) && (hd 1 c =? 0) then Err ECanonInt          (* readUint: leading zero *)
         else if (1 <=? size) && (bev c <? 128) then Err ECanonSize   (* size > 0 && v < 128 *)
         else Ok (bev c, skipn (N.to_nat size) r)
  | Ok (KList, _, _, _) => Err EExpectedString
  end.

(* Stream.Raw: the value with a freshly written header *)
Definition s_raw (top : bool) (avail : bytes) : res (bytes * bytes) :=
  match read_kind top avail with
  | Err e => Err e
  | Ok (KByte, _, bv, r) => Ok ([bv], r)
  | Ok (KString, size, _, r) => Ok (head 128 size ++ firstn (N.to_nat size) r, skipn (N.to_nat size) r)
  | Ok (KList, size, _, r) => Ok (head 192 size ++ firstn (N.to_nat size) r, skipn (N.to_nat size) r)
  end.

(* Stream.List: the content of the list (the new scope) and what follows it *)
Definition s_list (top : bool) (avail : bytes) : res (bytes * bytes) :=
  match read_kind top avail with
  | Err e => Err e
  | Ok (KList, size, _, r) => Ok (firstn (N.to_nat size) r, skipn (N.to_nat size) r)
  | Ok (_, _, _, _) => Err EExpectedList
  end.

(* decodeSliceElems inside the scope [c]: until EOL *)
Fixpoint elems (d : bytes -> res (value * bytes)) (fuel : nat) (c : bytes) : res (list value) :=
  match c with
  | [] => Ok []
  | _ => match fuel with
         | O => Err EFuel
         | S f => match d c with
                  | Err e => Err e
                  | Ok (v, c') => match elems d f c' with
                                  | Ok vs => Ok (v :: vs)
                                  | Err e => Err e
                                  end
                  end
         end
  end.

(* decodeListArray inside the scope [c]: exactly [n] elements, then ListEnd *)
Fixpoint arr_elems (d : bytes -> res (value * bytes)) (n : nat) (c : bytes) : res (list value) :=
  match n with
  | O => match c with [] => Ok [] | _ => Err EOther end      (* errNotAtEOL: too many elements *)
  | S n' => match c with
            | [] => Err EOther                               (* too few elements *)
            | _ => match d c with
                   | Err e => Err e
                   | Ok (v, c') => match arr_elems d n' c' with
                                   | Ok vs => Ok (v :: vs)
                                   | Err e => Err e
                                   end
                   end
            end
  end.

Fixpoint tdec (t : ty) (top : bool) (avail : bytes) {struct t} : res (value * bytes) :=
  match t with
  | TUint w => match s_uint w top avail with Ok (n, r) => Ok (VNum n, r) | Err e => Err e end
  | TBig => match s_bytes top avail with
            | Ok (b, r) => if hd 1 b =? 0 then Err ECanonInt else Ok (VNum (bev b), r)
            | Err e => Err e
            end
  | TBool => match s_uint 1 top avail with
             | Ok (n, r) => if n =? 0 then Ok (VBool false, r) else if n =? 1 then Ok (VBool true, r) else Err EOther
             | Err e => Err e
             end
  | TBytes => match s_bytes top avail with Ok (b, r) => Ok (VBytes b, r) | Err e => Err e end
  | TByteArr n =>                                                   (* decodeByteArray *)
    match read_kind top avail with
    | Err e => Err e
    | Ok (KByte, _, bv, r) => if n =? 1 then Ok (VBytes [bv], r) else Err EOther
    | Ok (KString, size, _, r) =>
      if negb (size =? n) then Err EOther
      else let c := firstn (N.to_nat size) r in
           if (size =? 1) && (hd 0 c <? 128) then Err ECanonSize else Ok (VBytes c, skipn (N.to_nat size) r)
    | Ok (KList, _, _, _) => Err EExpectedString
    end
  | TRaw => match s_raw top avail with Ok (b, r) => Ok (VRaw b, r) | Err e => Err e end
  | TIface => match dec (fuel_for avail) top avail with Ok (i, r) => Ok (VItem i, r) | Err e => Err e end
  | TSlice t' =>
    match s_list top avail with
    | Err e => Err e
    | Ok (c, r) => match elems (tdec t' false) (length c) c with
                   | Ok vs => Ok (VList vs, r)
                   | Err e => Err e
                   end
    end
  | TArr n t' =>
    match s_list top avail with
    | Err e => Err e
    | Ok (c, r) => match arr_elems (tdec t' false) n c with
                   | Ok vs => Ok (VList vs, r)
                   | Err e => Err e
                   end
    end
  | TStruct fs tl =>
    match s_list top avail with
    | Err e => Err e
    | Ok (c, r) =>
      match (fix go (fs : list ty) (c : bytes) {struct fs} : res (list value) :=
               match fs with
               | [] => match tl with
                       | None => match c with [] => Ok [] | _ => Err EOther end   (* ListEnd: too many elements *)
                       | Some t' => match elems (tdec t' false) (length c) c with
                                    | Ok ws => Ok [VList ws]
                                    | Err e => Err e
                                    end
                       end
               | f :: fs' => match c with
                             | [] => Err EOther                                  (* EOL: too few elements *)
                             | _ => match tdec f false c with
                                    | Err e => Err e
                                    | Ok (v, c') => match go fs' c' with
                                                    | Ok vs => Ok (v :: vs)
                                                    | Err e => Err e
                                                    end
                                    end
                             end
               end) fs c with
      | Ok vs => Ok (VList vs, r)
      | Err e => Err e
      end
    end
  | TPtr t' => tdec t' top avail
  | TPtrNil t' =>                                                  (* makeOptionalPtrDecoder *)
    match read_kind top avail with
    | Err e => Err e
    | Ok (k, size, _, r) =>
      if (size =? 0) && notbyte k
      then (* an empty value: only the one the encoder writes for a nil pointer of this type *)
           if Bool.eqb (nil_is_list t') (match k with KList => true | _ => false end)
           then Ok (VNil, r)
           else Err (if nil_is_list t' then EExpectedList else EExpectedString)
      else tdec t' top avail
    end
  end.

(* rlp.DecodeBytes(b, &T) *)
Definition tdec_bytes (t : ty) (b : bytes) : res value :=
  match tdec t true b with
  | Err e => Err e
  | Ok (v, []) => Ok v
  | Ok (_, _ :: _) => Err EMoreThanOne
  end.

(* ---------- descriptors and values the theorems speak about ---------- *)
Fixpoint ends_raw (t : ty) : bool :=
  match t with TRaw => true | TPtr t' | TPtrNil t' => ends_raw t' | _ => false end.

(* descriptors the reflection layer produces (a pointee is never a nil-tagged pointer: the tag belongs to
   the struct field) minus one: a nil-tagged pointer (chain) to RawValue, whose nil value is written as
   zero bytes *)
Fixpoint cty_ok (t : ty) : bool :=
  match t with
  | TUint w => (w =? 1) || (w =? 2) || (w =? 4) || (w =? 8)
  | TBig | TBool | TBytes | TByteArr _ | TIface | TRaw => true
  | TSlice t' | TArr _ t' => cty_ok t'
  | TStruct fs tl => forallb cty_ok fs && match tl with Some t' => cty_ok t' | None => true end
  | TPtr t' => cty_ok t' && match t' with TPtrNil _ => false | _ => true end
  | TPtrNil t' => cty_ok t' && match t' with TPtrNil _ => false | _ => true end && negb (ends_raw t')
  end.

Definition is_empty_enc (e : bytes) : bool :=
  match e with x :: _ => (x =? 128) || (x =? 192) | [] => false end.

(* a RawValue must hold one complete value with a canonical header *)
Definition raw_okb (b : bytes) : bool :=
  bytes_okb b &&
  match s_raw true b with
  | Ok (b', []) => bytes_eqb b' b
  | _ => false
  end.

(* values that survive a round trip: no nil where the decoder allocates (plain pointers, *big.Int,
   interface{}), a non-nil "nil"-tagged pointer does not point at something written as the empty value,
   RawValues are complete values *)
Fixpoint wfv (t : ty) (v : value) {struct t} : bool :=
  match t with
  | TUint _ | TBig => match v with VNum _ => true | _ => false end
  | TBool => match v with VBool _ => true | _ => false end
  | TBytes | TByteArr _ => match v with VBytes b => bytes_okb b | _ => false end
  | TRaw => match v with VRaw b => raw_okb b | _ => false end
  | TIface => match v with VItem _ => true | _ => false end
  | TSlice t' | TArr _ t' => match v with VList vs => forallb (wfv t') vs | _ => false end
  | TStruct fs tl =>
    match v with
    | VList vs =>
      (fix go (fs : list ty) (l : list value) {struct fs} : bool :=
         match fs, l with
         | [], _ => match tl, l with
                    | None, [] => true
                    | Some t', [VList ws] => forallb (wfv t') ws
                    | _, _ => false
                    end
         | f :: fs', x :: l' => wfv f x && go fs' l'
         | _ :: _, [] => false
         end) fs vs
    | _ => false
    end
  | TPtr t' => match v with VNil => false | _ => wfv t' v end
  | TPtrNil t' => match v with
                  | VNil => true
                  | _ => wfv t' v && match tenc t' v with Some e => negb (is_empty_enc e) | None => false end
                  end
  end.

(* ---------- header sizes (encode.go intsize / headsize, used by listEnd, Stream.Raw, ListSize) ---------- *)
(* for size = 1; ; size++ { if i >>= 8; i == 0 { return size } } ; a uint64 is exhausted after 8 shifts *)
Fixpoint intsize_loop (fuel : nat) (i size : N) : N :=
  match fuel with
  | O => size
  | S f => let i' := i / 256 in if i' =? 0 then size else intsize_loop f i' (size + 1)
  end.
Definition intsize (i : N) : N := intsize_loop 8 i 1.
Definition headsize (size : N) : N := if size <? 56 then 1 else 1 + intsize size.
