(* C08 model: RLP as implemented in src/storage/rlp (geth-1.8 lineage).
   Untyped layer: [encode] (encode.go: encodeString / list headers / puthead),
   [dec] = Stream-based decoding into interface{} (decode.go: Kind/readKind/readUint/
   Bytes/List/ListEnd/decodeInterface/DecodeBytes), [split] = raw.go readKind/readSize/Split. *)
From Coq Require Import List NArith Lia Bool.
From V.Base Require Import Hex BigEndian.
Import ListNotations.
Local Open Scope N_scope.

Inductive item := Str (b : bytes) | Lst (l : list item).

Inductive err :=
| EEOF            (* io.EOF: empty top-level input *)
| EValueTooLarge  (* ErrValueTooLarge *)
| EElemTooLarge   (* ErrElemTooLarge *)
| ECanonSize      (* ErrCanonSize *)
| ECanonInt       (* ErrCanonInt *)
| EMoreThanOne    (* ErrMoreThanOneValue *)
| EExpectedString | EExpectedList | EUintOverflow | EUnexpectedEOF | EOther
| EFuel.          (* model artefact; excluded by the theorems, never observed *)

Inductive res (A : Type) := Ok (a : A) | Err (e : err).
Arguments Ok {A} a. Arguments Err {A} e.

Definition len (b : bytes) : N := N.of_nat (length b).

(* ---------- encoder ---------- *)
(* puthead / encodeStringHeader / listhead.encode *)
Definition head (base n : N) : bytes :=
  if n <? 56 then [base + n]
  else let s := beb n in (base + 55 + len s) :: s.

Definition enc_str (b : bytes) : bytes :=
  match b with
  | [x] => if x <? 128 then [x] else head 128 1 ++ b
  | _ => head 128 (len b) ++ b
  end.

Fixpoint encode (t : item) : bytes :=
  match t with
  | Str b => enc_str b
  | Lst l => let c := concat (map encode l) in head 192 (len c) ++ c
  end.

Definition enc_seq (l : list item) : bytes := concat (map encode l).

(* ---------- Stream decoder into interface{} ---------- *)
Definition too_large (top : bool) : err := if top then EValueTooLarge else EElemTooLarge.

(* readUint(n) for a long-form size followed by the "size < 56" test of readKind.
   [avail] is what may still be read in the current scope (innermost list, or the limited top-level input). *)
Definition read_long (top : bool) (n : N) (avail : bytes) : res (N * bytes) :=
  if len avail <? n then Err (too_large top)
  else let sb := firstn (N.to_nat n) avail in
       if (hd 1 sb =? 0) then Err ECanonSize
       else let s := bev sb in
            if s <? 56 then Err ECanonSize else Ok (s, skipn (N.to_nat n) avail).

Inductive kind := KByte | KString | KList.

(* Stream.Kind on a fresh value: returns kind, size, byteval and the rest after the header *)
Definition read_kind (top : bool) (avail : bytes) : res (kind * N * N * bytes) :=
  match avail with
  | [] => Err (if top then EEOF else EOther)
  | b :: r =>
    let chk k size rest := if len rest <? size then Err (too_large top) else Ok (k, size, 0, rest) in
    if b <? 128 then Ok (KByte, 0, b, r)
    else if b <? 184 then chk KString (b - 128) r
    else if b <? 192 then
      match read_long top (b - 183) r with Ok (s, r') => chk KString s r' | Err e => Err e end
    else if b <? 248 then chk KList (b - 192) r
    else match read_long top (b - 247) r with Ok (s, r') => chk KList s r' | Err e => Err e end
  end.

Fixpoint dec (fuel : nat) (top : bool) (avail : bytes) : res (item * bytes) :=
  match fuel with
  | O => Err EFuel
  | S f =>
    match read_kind top avail with
    | Err e => Err e
    | Ok (KByte, _, bv, r) => Ok (Str [bv], r)
    | Ok (KString, size, _, r) =>
      let c := firstn (N.to_nat size) r in
      if (size =? 1) && (hd 0 c <? 128) then Err ECanonSize
      else Ok (Str c, skipn (N.to_nat size) r)
    | Ok (KList, size, _, r) =>
      match dec_seq f (firstn (N.to_nat size) r) with
      | Ok l => Ok (Lst l, skipn (N.to_nat size) r)
      | Err e => Err e
      end
    end
  end
with dec_seq (fuel : nat) (content : bytes) : res (list item) :=
  match fuel with
  | O => Err EFuel
  | S f =>
    match content with
    | [] => Ok []
    | _ => match dec f false content with
           | Err e => Err e
           | Ok (t, rest) => match dec_seq f rest with
                             | Ok ts => Ok (t :: ts)
                             | Err e => Err e
                             end
           end
    end
  end.

Definition fuel_for (b : bytes) : nat := 2 * length b + 2.

(* rlp.DecodeBytes(b, &interface{}) *)
Definition decode_bytes (b : bytes) : res item :=
  match dec (fuel_for b) true b with
  | Err e => Err e
  | Ok (t, []) => Ok t
  | Ok (_, _ :: _) => Err EMoreThanOne
  end.

(* first value and the rest (Stream.Decode once) *)
Definition decode_item (b : bytes) : res (item * bytes) := dec (fuel_for b) true b.

(* ---------- raw.go ---------- *)
Definition read_size (b : bytes) (slen : N) : res N :=
  if len b <? slen then Err EUnexpectedEOF
  else let sb := firstn (N.to_nat slen) b in
       let s := bev sb in
       if (s <? 56) || (hd 1 sb =? 0) then Err ECanonSize else Ok s.

(* readKind of raw.go: kind, tagsize, contentsize *)
Definition raw_kind (buf : bytes) : res (kind * N * N) :=
  match buf with
  | [] => Err EUnexpectedEOF
  | b :: r =>
    let fin k ts cs := if len buf - ts <? cs then Err EValueTooLarge else Ok (k, ts, cs) in
    if b <? 128 then fin KByte 0 1
    else if b <? 184 then
      if (b - 128 =? 1) && (0 <? len r) && (hd 0 r <? 128) then Err ECanonSize
      else fin KString 1 (b - 128)
    else if b <? 192 then
      match read_size r (b - 183) with Ok s => fin KString (b - 183 + 1) s | Err e => Err e end
    else if b <? 248 then fin KList 1 (b - 192)
    else match read_size r (b - 247) with Ok s => fin KList (b - 247 + 1) s | Err e => Err e end
  end.

(* rlp.Split *)
Definition split (b : bytes) : res (kind * bytes * bytes) :=
  match raw_kind b with
  | Err e => Err e
  | Ok (k, ts, cs) =>
    Ok (k, firstn (N.to_nat cs) (skipn (N.to_nat ts) b), skipn (N.to_nat (ts + cs)) b)
  end.

(* rlp.CountValues *)
Fixpoint count_values (fuel : nat) (b : bytes) (acc : N) : res N :=
  match fuel with
  | O => Err EFuel
  | S f =>
    match b with
    | [] => Ok acc
    | _ => match raw_kind b with
           | Err e => Err e
           | Ok (_, ts, cs) => count_values f (skipn (N.to_nat (ts + cs)) b) (acc + 1)
           end
    end
  end.

(* ---------- well-formedness of values the encoder is applied to ---------- *)
(* every byte < 256, every length below 2^64 (Go lengths are int; sizes travel as uint64) *)
Fixpoint item_ok (t : item) : Prop :=
  match t with
  | Str b => bytes_ok b /\ len b < 2 ^ 64
  | Lst l => (fix all (l : list item) : Prop :=
                match l with [] => True | x :: r => item_ok x /\ all r end) l
             /\ len (concat (map encode l)) < 2 ^ 64
  end.

Fixpoint item_okb (t : item) : bool :=
  match t with
  | Str b => bytes_okb b && (len b <? 2 ^ 64)
  | Lst l => forallb item_okb l && (len (concat (map encode l)) <? 2 ^ 64)
  end.

(* ---------- comparison helpers for the correspondence cases ---------- *)
Fixpoint item_eqb (a b : item) : bool :=
  match a, b with
  | Str x, Str y => bytes_eqb x y
  | Lst x, Lst y =>
    (fix go (x y : list item) : bool :=
       match x, y with
       | [], [] => true
       | a :: x', b :: y' => item_eqb a b && go x' y'
       | _, _ => false
       end) x y
  | _, _ => false
  end.

Definition err_code (e : err) : N :=
  match e with
  | EEOF => 1 | EValueTooLarge => 2 | EElemTooLarge => 3 | ECanonSize => 4 | ECanonInt => 5
  | EMoreThanOne => 6 | EExpectedString => 7 | EExpectedList => 8 | EUintOverflow => 9
  | EUnexpectedEOF => 10 | EOther => 11 | EFuel => 99
  end.
