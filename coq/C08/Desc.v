(* C08: Go type descriptors as the extractor (harness/c08ext, go/types) and the harness (reflection) print
   them, and [lower]: what typecache.go makes of them (structFields + parseStructTag) and which
   decoder/writer makeDecoder/makeWriter select, as a descriptor [ty] of Typed.v. *)
From Coq Require Import List NArith String Bool.
From V.C08 Require Import Model Typed.
Import ListNotations.
Local Open Scope N_scope.

Inductive gty :=
| GUint (bits : N)                 (* uint8 .. uint64, uint, uintptr *)
| GBigPtr                          (* *big.Int *)
| GBig                             (* big.Int *)
| GBool | GString
| GBytes                           (* []byte and slices of byte-kinded element types *)
| GByteArr (n : N)                 (* [n]byte *)
| GSlice (e : gty) | GArr (n : nat) (e : gty)
| GStruct (name : string) (fields : list (string * bool * list string * gty))   (* name, exported, rlp tags, type *)
| GPtr (e : gty)
| GIface                           (* interface{} *)
| GRaw                             (* rlp.RawValue *)
| GCustom (name : string)          (* implements EncodeRLP / DecodeRLP itself: outside the model *)
| GBad (what : string).            (* int, map, chan, func, float, non-empty interface: not RLP-serializable *)

Record tags := { nilOK : bool; tail : bool; ignored : bool }.

(* parseStructTag: the switch over the comma-separated, trimmed tag words *)
Fixpoint parse_tags (ws : list string) (acc : tags) : option tags :=
  match ws with
  | [] => Some acc
  | w :: r =>
    if String.eqb w "" then parse_tags r acc
    else if String.eqb w "-" then parse_tags r {| nilOK := nilOK acc; tail := tail acc; ignored := true |}
    else if String.eqb w "nil" then parse_tags r {| nilOK := true; tail := tail acc; ignored := ignored acc |}
    else if String.eqb w "tail" then parse_tags r {| nilOK := nilOK acc; tail := true; ignored := ignored acc |}
    else None                                     (* unknown struct tag *)
  end.

(* reflect.Kind() == Slice *)
Definition is_slice_kind (g : gty) : bool :=
  match g with GSlice _ | GBytes | GRaw => true | _ => false end.

Fixpoint lower (g : gty) : option ty :=
  match g with
  | GUint bits => Some (TUint (bits / 8))
  | GBigPtr | GBig => Some TBig
  | GBool => Some TBool
  | GString | GBytes => Some TBytes
  | GByteArr n => Some (TByteArr n)
  | GSlice e => match lower e with Some t => Some (TSlice t) | None => None end
  | GArr n e => match lower e with Some t => Some (TArr n t) | None => None end
  | GPtr e => match lower e with Some t => Some (TPtr t) | None => None end
  | GIface => Some TIface
  | GRaw => Some TRaw
  | GCustom _ | GBad _ => None
  | GStruct _ fs =>
    match (fix go (fs : list (string * bool * list string * gty)) : option (list ty * option ty) :=
             match fs with
             | [] => Some ([], None)
             | (_, exported, ws, g) :: r =>
               if negb exported then go r
               else match parse_tags ws {| nilOK := false; tail := false; ignored := false |} with
                    | None => None
                    | Some tg =>
                      (* "tail": must be on the last field (by index, whatever follows counts) and on a slice *)
                      if tail tg && negb (match r with [] => is_slice_kind g | _ => false end) then None
                      else if ignored tg then go r
                      else
                        match g, tail tg, nilOK tg with
                        | GSlice e, true, _ =>                          (* swallows the remaining elements *)
                          match lower e with Some t => Some ([], Some t) | None => None end
                        | GPtr e, _, true =>                            (* makeOptionalPtrDecoder *)
                          match lower e, go r with
                          | Some t, Some (ts, tl) => Some (TPtrNil t :: ts, tl)
                          | _, _ => None
                          end
                        | _, _, _ =>
                          match lower g, go r with
                          | Some t, Some (ts, tl) => Some (t :: ts, tl)
                          | _, _ => None
                          end
                        end
                    end
             end) fs with
    | Some (ts, tl) => Some (TStruct ts tl)
    | None => None
    end
  end.

(* decidable equality on descriptors (comparison of a re-extracted table with the committed one) *)
Fixpoint list_eqb {A : Type} (eq : A -> A -> bool) (a b : list A) : bool :=
  match a, b with
  | [], [] => true
  | x :: a', y :: b' => eq x y && list_eqb eq a' b'
  | _, _ => false
  end.

Fixpoint gty_eqb (a b : gty) : bool :=
  match a, b with
  | GUint x, GUint y => x =? y
  | GBigPtr, GBigPtr | GBig, GBig | GBool, GBool | GString, GString | GBytes, GBytes
  | GIface, GIface | GRaw, GRaw => true
  | GByteArr x, GByteArr y => x =? y
  | GSlice x, GSlice y => gty_eqb x y
  | GArr n x, GArr m y => Nat.eqb n m && gty_eqb x y
  | GPtr x, GPtr y => gty_eqb x y
  | GCustom x, GCustom y => String.eqb x y
  | GBad x, GBad y => String.eqb x y
  | GStruct n fs, GStruct m gs =>
    String.eqb n m &&
    (fix go (fs gs : list (string * bool * list string * gty)) {struct fs} : bool :=
       match fs, gs with
       | [], [] => true
       | (n1, e1, w1, t1) :: r1, (n2, e2, w2, t2) :: r2 =>
         String.eqb n1 n2 && Bool.eqb e1 e2 && list_eqb String.eqb w1 w2 && gty_eqb t1 t2 && go r1 r2
       | _, _ => false
       end) fs gs
  | _, _ => false
  end.

Fixpoint lookup_gty (name : string) (l : list (string * gty)) : option gty :=
  match l with
  | [] => None
  | (n, g) :: r => if String.eqb n name then Some g else lookup_gty name r
  end.
