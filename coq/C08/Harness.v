(* Evaluation of the C08 model on harness-written cases (correspondence check). *)
From Coq Require Import List NArith String Bool.
From V.Base Require Import Hex BigEndian.
From V.C08 Require Import Model Typed.
Import ListNotations.
Local Open Scope N_scope.

Definition S (h : string) : item := Str (unhex h).
Definition L (l : list item) : item := Lst l.

Inductive dobs := DOk (t : item) | DErr (code : N).
Inductive sobs := SOk (kind : N) (content rest : string) | SErr (code : N).
Inductive cobs := COk (n : N) | CErr (code : N).

Definition kind_code (k : kind) : N := match k with KByte => 0 | KString => 1 | KList => 2 end.

Definition chk_dec (b : bytes) (o : dobs) : bool :=
  match decode_bytes b, o with
  | Ok t, DOk t' => item_eqb t t'
  | Err e, DErr c => err_code e =? c
  | _, _ => false
  end.

Definition chk_split (b : bytes) (o : sobs) : bool :=
  match split b, o with
  | Ok (k, c, r), SOk k' c' r' => (kind_code k =? k') && bytes_eqb c (unhex c') && bytes_eqb r (unhex r')
  | Err e, SErr c => err_code e =? c
  | _, _ => false
  end.

Definition chk_count (b : bytes) (o : cobs) : bool :=
  match count_values (Datatypes.S (List.length b)) b 0, o with
  | Ok n, COk n' => n =? n'
  | Err e, CErr c => err_code e =? c
  | _, _ => false
  end.

(* also: the model's own property on this input (kernel-evaluated instance of the theorems) *)
Definition chk_canon (b : bytes) : bool :=
  match decode_bytes b with
  | Ok t => bytes_eqb (encode t) b
  | Err _ => true
  end.

Definition check (c : string * dobs * sobs * cobs) : bool :=
  let '(h, d, s, n) := c in
  let b := unhex h in
  chk_dec b d && chk_split b s && chk_count b n && chk_canon b.

(* typed layer: implementation accepted with value [o] / rejected, vs decode_typed; plus the model's own
   canonicity instance on this input *)
Definition check_typed (c : ty * string * option value) : bool :=
  let '(t, h, o) := c in
  let b := unhex h in
  match decode_typed t b, o with
  | Some v, Some v' => value_eqb v v' &&
                       match encode_typed t v with Some b' => bytes_eqb b' b | None => false end
  | None, None => true
  | _, _ => false
  end.

(* ---------- stream-level codec (Codec.v) on descriptors printed from reflection (Desc.v) ---------- *)
From V.C08 Require Import Codec Desc Gen.

Definition site := (string * string * string * string * string)%type.
Definition site_eqb (a b : site) : bool :=
  let '(a1, a2, a3, a4, a5) := a in let '(b1, b2, b3, b4, b5) := b in
  String.eqb a1 b1 && String.eqb a2 b2 && String.eqb a3 b3 && String.eqb a4 b4 && String.eqb a5 b5.

Inductive ccase :=
(* the descriptor table re-extracted from the sources under test vs the committed coq/C08/Gen.v *)
| CGenSites (s : list site)
| CGenTypes (l : list (string * gty))
(* the descriptor reflection prints for a real value of a generated type vs the generated one *)
| CGenReflect (name : string) (g : gty)
(* codec cases on a GENERATED descriptor, looked up by name in Gen.gen_types *)
| CDecG (name : string) (input : string) (o : option value)
| CEncG (name : string) (v : value) (o : option string)
| CDec (g : gty) (input : string) (o : option value)     (* rlp.DecodeBytes(input, &T): value / rejected *)
| CEnc (g : gty) (v : value) (o : option string)         (* rlp.EncodeToBytes(v): bytes / error *)
| CBadTy (g : gty).                                      (* the package refuses the type *)

Definition chk_cdec (g : gty) (h : string) (o : option value) : bool :=
  match lower g with
  | None => false
  | Some t =>
    let b := unhex h in
    match tdec_bytes t b, o with
    | Ok v, Some v' => value_eqb v v' && wfv t v &&
                       match tenc t v with Some b' => bytes_eqb b' b | None => false end
    | Err _, None => true
    | _, _ => false
    end
  end.

Definition chk_cenc (g : gty) (v : value) (o : option string) : bool :=
  match lower g with
  | None => false
  | Some t =>
    match tenc t v, o with
    | Some b, Some h => bytes_eqb b (unhex h) &&
                        (* model's own round trip on this value, when it is in the theorem's domain *)
                        (if cty_ok t && wfv t v
                         then match tdec_bytes t b with Ok v' => value_eqb v' v | Err _ => false end
                         else true)
    | None, None => true
    | _, _ => false
    end
  end.

Definition check_codec (c : ccase) : bool :=
  match c with
  | CGenSites s => list_eqb site_eqb s gen_sites
  | CGenTypes l => list_eqb (fun a b => String.eqb (fst a) (fst b) && gty_eqb (snd a) (snd b)) l gen_types
  | CGenReflect name g => match lookup_gty name gen_types with Some g' => gty_eqb g g' | None => false end
  | CDecG name h o => match lookup_gty name gen_types with Some g => chk_cdec g h o | None => false end
  | CEncG name v o => match lookup_gty name gen_types with Some g => chk_cenc g v o | None => false end
  | CDec g h o => chk_cdec g h o
  | CEnc g v o => chk_cenc g v o
  | CBadTy g => match lower g with None => true | Some _ => false end
  end.

(* ---------- Stream state machine (Stream.v): a script of operations on NewStream(bytes, limit) ---------- *)
From V.C08 Require Import Stream.

Definition obs_eqb (a b : obs) : bool :=
  match a, b with
  | BKind k n, BKind k' n' => (k =? k') && (n =? n')
  | BBytes x, BBytes y => bytes_eqb x y
  | BNum x, BNum y => x =? y
  | BBool x, BBool y => Bool.eqb x y
  | BUnit, BUnit => true
  | BErr x, BErr y => x =? y
  | _, _ => false
  end.

Definition HB (h : string) : obs := BBytes (unhex h).

Definition check_stream (c : string * N * list op * list obs) : bool :=
  let '(h, limit, ops, o) := c in
  list_eqb obs_eqb (fst (run ops (new_stream (unhex h) limit))) o.
