(* C08: round trip and canonicity of the stream-level typed codec (Codec.v), for every descriptor. *)
From Coq Require Import List NArith Lia Bool Arith.
From V.Base Require Import Hex BigEndian.
From V.C08 Require Import Model Proofs Typed TypedProofs Codec.
Import ListNotations.
Local Open Scope N_scope.

(* ---------- small facts ---------- *)
Lemma bev_single x : bev [x] = x.
Proof. unfold bev. cbn. lia. Qed.

Lemma beb_small n : 0 < n < 256 -> beb n = [n].
Proof.
  intro H. rewrite <- (bev_single n) at 1. apply beb_bev.
  - constructor; [unfold byte_ok; lia | constructor].
  - cbn. lia.
Qed.

Lemma enc_str_nonempty b : enc_str b <> [].
Proof. exact (encode_nonempty (Str b)). Qed.

Lemma bytes_eqb_refl b : bytes_eqb b b = true.
Proof. apply bytes_eqb_eq. reflexivity. Qed.

Lemma len_nil : len [] = 0. Proof. reflexivity. Qed.

Lemma beb_len8 n : n < 256 ^ 8 -> len (beb n) <= 8.
Proof. intro H. pose proof (beb_length n 8 H). unfold len. lia. Qed.

Lemma pow256_le w : w <= 8 -> 256 ^ w <= 256 ^ 8.
Proof. intro H. apply N.pow_le_mono_r; lia. Qed.

(* writeUint is encodeString of the minimal big-endian bytes *)
Lemma write_uint_spec n : n < 256 ^ 8 -> write_uint n = enc_str (beb n).
Proof.
  intro Hn. unfold write_uint.
  destruct (N.eqb_spec n 0) as [->|Hn0]; [rewrite beb_0; reflexivity|].
  destruct (N.ltb_spec n 128) as [Hs|Hs].
  - rewrite beb_small by lia. cbn [enc_str]. destruct (N.ltb_spec n 128); [reflexivity | lia].
  - pose proof (beb_len8 n Hn) as Hl8. pose proof (bev_beb n) as Hbv.
    destruct (beb n) as [|x [|y r]] eqn:Eb.
    + exfalso. apply (beb_nonzero n Hn0). exact Eb.
    + rewrite bev_single in Hbv. subst x. cbn [enc_str].
      destruct (N.ltb_spec n 128); [lia|]. reflexivity.
    + rewrite enc_str_not1 by (simpl; lia). rewrite head_short by lia. reflexivity.
Qed.

(* a string header followed by content that is not a lone small byte is encodeString of the content *)
Lemma str_canon (c : bytes) size :
  len c = size -> ((size =? 1) && (hd 0 c <? 128)) = false -> head 128 size ++ c = enc_str c.
Proof.
  intros Hl Hc. destruct (Nat.eq_dec (length c) 1) as [L1|L1].
  - destruct c as [|x [|y c']]; try discriminate.
    assert (Hs : size = 1) by (rewrite <- Hl; reflexivity). rewrite Hs in *.
    cbn [N.eqb Pos.eqb andb hd] in Hc. cbn [enc_str]. rewrite Hc. reflexivity.
  - rewrite enc_str_not1 by exact L1. rewrite Hl. reflexivity.
Qed.

(* ---------- what Kind says about the first byte ---------- *)
Lemma kind_empty top b k size bv r :
  read_kind top b = Ok (k, size, bv, r) -> is_empty_enc b = (size =? 0) && notbyte k.
Proof.
  destruct b as [|b0 r0]; [simpl; destruct top; discriminate|].
  cbn [read_kind is_empty_enc].
  destruct (N.ltb_spec b0 128) as [H1|H1].
  { intro E; injection E as Ek Es Eb Er; subst k size bv r. cbn [notbyte]. rewrite andb_false_r.
    destruct (N.eqb_spec b0 128); [lia|]. destruct (N.eqb_spec b0 192); [lia|]. reflexivity. }
  destruct (N.ltb_spec b0 184) as [H2|H2].
  { destruct (len r0 <? b0 - 128); [discriminate|]. intro E; injection E as Ek Es Eb Er; subst k size bv r. cbn [notbyte].
    rewrite andb_true_r. destruct (N.eqb_spec b0 192); [lia|]. rewrite orb_false_r.
    destruct (N.eqb_spec b0 128), (N.eqb_spec (b0 - 128) 0); try reflexivity; lia. }
  destruct (N.ltb_spec b0 192) as [H3|H3].
  { unfold read_long. destruct (len r0 <? b0 - 183); [discriminate|].
    destruct (hd 1 (firstn (N.to_nat (b0 - 183)) r0) =? 0); [discriminate|].
    destruct (N.ltb_spec (bev (firstn (N.to_nat (b0 - 183)) r0)) 56) as [|H56]; [discriminate|].
    match goal with |- context [len ?x <? ?y] => destruct (len x <? y) end; [discriminate|].
    intro E; injection E as Ek Es Eb Er; subst k size bv r. cbn [notbyte]. rewrite andb_true_r.
    destruct (N.eqb_spec b0 128); [lia|]. destruct (N.eqb_spec b0 192); [lia|].
    match goal with |- _ = (?s =? 0) => destruct (N.eqb_spec s 0) end; [lia | reflexivity]. }
  destruct (N.ltb_spec b0 248) as [H4|H4].
  { destruct (len r0 <? b0 - 192); [discriminate|]. intro E; injection E as Ek Es Eb Er; subst k size bv r. cbn [notbyte].
    rewrite andb_true_r. destruct (N.eqb_spec b0 128); [lia|]. cbn [orb].
    destruct (N.eqb_spec b0 192), (N.eqb_spec (b0 - 192) 0); try reflexivity; lia. }
  { unfold read_long. destruct (len r0 <? b0 - 247); [discriminate|].
    destruct (hd 1 (firstn (N.to_nat (b0 - 247)) r0) =? 0); [discriminate|].
    destruct (N.ltb_spec (bev (firstn (N.to_nat (b0 - 247)) r0)) 56) as [|H56]; [discriminate|].
    match goal with |- context [len ?x <? ?y] => destruct (len x <? y) end; [discriminate|].
    intro E; injection E as Ek Es Eb Er; subst k size bv r. cbn [notbyte]. rewrite andb_true_r.
    destruct (N.eqb_spec b0 128); [lia|]. destruct (N.eqb_spec b0 192); [lia|].
    match goal with |- _ = (?s =? 0) => destruct (N.eqb_spec s 0) end; [lia | reflexivity]. }
Qed.

Lemma is_empty_app e rest : e <> [] -> is_empty_enc (e ++ rest) = is_empty_enc e.
Proof. destruct e; [congruence | reflexivity]. Qed.

Lemma read_kind_byte top x rest : x < 128 -> read_kind top (x :: rest) = Ok (KByte, 0, x, rest).
Proof. intro H. cbn [read_kind]. destruct (N.ltb_spec x 128); [reflexivity | lia]. Qed.

Lemma read_kind_128 top rest : read_kind top (128 :: rest) = Ok (KString, 0, 0, rest).
Proof. change (128 :: rest) with (head 128 (len []) ++ [] ++ rest). apply read_kind_head_str. reflexivity. Qed.

Lemma read_kind_192 top rest : read_kind top (192 :: rest) = Ok (KList, 0, 0, rest).
Proof. change (192 :: rest) with (head 192 (len []) ++ [] ++ rest). apply read_kind_head_lst. reflexivity. Qed.

(* ---------- Stream.Bytes ---------- *)
Lemma s_bytes_rt top b rest : len b < 2 ^ 64 -> s_bytes top (enc_str b ++ rest) = Ok (b, rest).
Proof.
  intro Hlt. unfold s_bytes.
  destruct (Nat.eq_dec (length b) 1) as [H1|H1].
  - destruct b as [|x [|y r]]; try discriminate. cbn [enc_str].
    destruct (N.ltb_spec x 128) as [Hx|Hx].
    + cbn [app]. rewrite read_kind_byte by exact Hx. reflexivity.
    + change (head 128 1) with (head 128 (len [x])). rewrite <- app_assoc.
      rewrite read_kind_head_str by exact Hlt.
      change (len [x]) with 1. change (N.to_nat 1) with 1%nat. cbn [N.eqb Pos.eqb andb app firstn hd skipn].
      destruct (N.ltb_spec x 128); [lia|]. reflexivity.
  - rewrite enc_str_not1 by exact H1. rewrite <- app_assoc.
    rewrite read_kind_head_str by exact Hlt. rewrite firstn_len_app, skipn_len_app.
    destruct (N.eqb_spec (len b) 1) as [E|_]; [exfalso; apply H1; unfold len in E; lia | reflexivity].
Qed.

Lemma s_bytes_cn top x b rest :
  bytes_ok x -> s_bytes top x = Ok (b, rest) ->
  x = enc_str b ++ rest /\ len b < 2 ^ 64 /\ bytes_ok b /\ bytes_ok rest.
Proof.
  intros Hok. unfold s_bytes.
  destruct (read_kind top x) as [[[[k size] bv] r]|e] eqn:RK; [|discriminate].
  apply read_kind_inv in RK as (Hle & H64 & Hk); [|exact Hok].
  destruct k.
  - destruct Hk as [-> Hbv]. intro E; inversion E; subst. inversion Hok; subst.
    cbn [enc_str]. destruct (N.ltb_spec bv 128); [|lia].
    split; [reflexivity|]. split; [cbn; lia|]. split; [constructor; [assumption | constructor] | assumption].
  - set (c := firstn (N.to_nat size) r).
    assert (Hr : bytes_ok r) by (rewrite Hk in Hok; eapply bytes_ok_head_tail; exact Hok).
    assert (Hlc : len c = size) by (apply firstn_skipn_len; exact Hle).
    destruct ((size =? 1) && (hd 0 c <? 128)) eqn:Ecan; [discriminate|].
    intro E; inversion E; subst b rest. clear E.
    split; [|split; [rewrite Hlc; exact H64 | split; [apply bytes_ok_firstn, Hr | apply bytes_ok_skipn, Hr]]].
    rewrite Hk. rewrite <- (str_canon c size Hlc Ecan). rewrite <- app_assoc. f_equal.
    symmetry. apply firstn_skipn.
  - discriminate.
Qed.

(* ---------- Stream.uint ---------- *)
Lemma s_uint_rt w top n rest :
  1 <= w <= 8 -> n < 256 ^ w -> s_uint w top (enc_str (beb n) ++ rest) = Ok (n, rest).
Proof.
  intros Hw Hn. unfold s_uint.
  assert (Hn8 : n < 256 ^ 8) by (pose proof (pow256_le w (proj2 Hw)); lia).
  pose proof (beb_len8 n Hn8) as Hl8. pose proof (bev_beb n) as Hbv. pose proof (beb_hd n) as Hhd.
  assert (Hlw : len (beb n) <= w).
  { unfold len. rewrite pow256_nat in Hn. pose proof (beb_length n _ Hn). lia. }
  destruct (beb n) as [|x [|y r]] eqn:Eb.
  - change (enc_str [] ++ rest) with (128 :: rest).
    rewrite read_kind_128. destruct (N.ltb_spec w 0); [lia|]. cbn. cbn in Hbv. rewrite <- Hbv. reflexivity.
  - rewrite bev_single in Hbv. subst x. cbn [enc_str].
    destruct (N.ltb_spec n 128) as [Hs|Hs].
    + cbn [app]. rewrite read_kind_byte by exact Hs.
      destruct (N.eqb_spec n 0) as [->|]; [cbn in Hhd; congruence | reflexivity].
    + change (head 128 1) with (head 128 (len [n])). rewrite <- app_assoc.
      rewrite read_kind_head_str by (cbn; lia).
      change (len [n]) with 1 in *. destruct (N.ltb_spec w 1); [lia|].
      change (N.to_nat 1) with 1%nat. cbn [app firstn skipn hd N.leb N.compare Pos.compare Pos.compare_cont andb].
      rewrite bev_single. destruct (N.ltb_spec n 128); [lia|]. reflexivity.
  - assert (Hn0 : n <> 0) by (intro Z; rewrite Z, beb_0 in Eb; discriminate).
    set (c := x :: y :: r) in *. rewrite enc_str_not1 by (simpl; lia). rewrite <- app_assoc.
    rewrite read_kind_head_str by lia. rewrite firstn_len_app, skipn_len_app.
    destruct (N.ltb_spec w (len c)); [lia|].
    destruct (N.eqb_spec (hd 1 c) 0); [congruence|]. rewrite andb_false_r.
    assert (H256 : 256 <= bev c).
    { pose proof (bev_lower c) as Hlow. rewrite <- Eb in Hlow.
      specialize (Hlow (beb_ok n) (beb_nonzero n Hn0) (beb_hd n)).
      rewrite Eb in Hlow. unfold c in Hlow at 1. cbn [length pred] in Hlow.
      assert (256 ^ 1 <= 256 ^ N.of_nat (S (length r))) by (apply N.pow_le_mono_r; lia).
      change (256 ^ 1) with 256 in *. lia. }
    destruct (N.ltb_spec (bev c) 128); [lia|]. rewrite andb_false_r. rewrite Hbv. reflexivity.
Qed.

Lemma s_uint_cn w top x n rest :
  1 <= w <= 8 -> bytes_ok x -> s_uint w top x = Ok (n, rest) ->
  x = enc_str (beb n) ++ rest /\ n < 256 ^ w /\ bytes_ok rest.
Proof.
  intros Hw Hok. unfold s_uint.
  destruct (read_kind top x) as [[[[k size] bv] r]|e] eqn:RK; [|discriminate].
  apply read_kind_inv in RK as (Hle & H64 & Hk); [|exact Hok].
  destruct k.
  - destruct Hk as [-> Hbv]. destruct (N.eqb_spec bv 0) as [|Hnz]; [discriminate|].
    intro E; inversion E; subst. inversion Hok; subst.
    rewrite beb_small by lia. cbn [enc_str]. destruct (N.ltb_spec n 128); [|lia].
    split; [reflexivity|]. split; [|assumption].
    assert (256 ^ 1 <= 256 ^ w) by (apply N.pow_le_mono_r; lia). change (256 ^ 1) with 256 in *. lia.
  - destruct (N.ltb_spec w size) as [|Hsw]; [discriminate|].
    set (c := firstn (N.to_nat size) r).
    assert (Hr : bytes_ok r) by (rewrite Hk in Hok; eapply bytes_ok_head_tail; exact Hok).
    assert (Hc : bytes_ok c) by (apply bytes_ok_firstn, Hr).
    assert (Hlc : len c = size) by (apply firstn_skipn_len; exact Hle).
    destruct ((2 <=? size) && (hd 1 c =? 0)) eqn:E1; [discriminate|].
    destruct ((1 <=? size) && (bev c <? 128)) eqn:E2; [discriminate|].
    intro E; inversion E; subst n rest. clear E.
    (* no leading zero *)
    assert (Hhd : hd 1 c <> 0).
    { destruct c as [|c0 [|c1 c']] eqn:Ec; [cbn; lia | |].
      - assert (size = 1) by (rewrite <- Hlc; reflexivity). subst size.
        cbn [N.leb N.compare Pos.compare Pos.compare_cont andb] in E2. rewrite bev_single in E2.
        cbn [hd]. apply N.ltb_ge in E2. lia.
      - assert (2 <= size) by (rewrite <- Hlc; unfold len; cbn [length]; lia).
        destruct (N.leb_spec 2 size); [|lia]. cbn [andb] in E1. apply N.eqb_neq in E1. exact E1. }
    rewrite (beb_bev c Hc Hhd).
    assert (Ecan : ((size =? 1) && (hd 0 c <? 128)) = false).
    { destruct (N.eqb_spec size 1) as [->|]; [|reflexivity]. cbn [andb].
      destruct c as [|c0 [|c1 c']] eqn:Ec; try (unfold len in Hlc; cbn [length] in Hlc; lia).
      cbn [N.leb N.compare Pos.compare Pos.compare_cont andb] in E2. rewrite bev_single in E2. exact E2. }
    split; [|split; [|apply bytes_ok_skipn, Hr]].
    + rewrite Hk. rewrite <- (str_canon c size Hlc Ecan). rewrite <- app_assoc. f_equal.
      symmetry. apply firstn_skipn.
    + apply bev_lt_pow; [exact Hc | lia].
  - discriminate.
Qed.

(* ---------- Stream.List ---------- *)
Lemma s_list_rt top c rest : len c < 2 ^ 64 -> s_list top (head 192 (len c) ++ c ++ rest) = Ok (c, rest).
Proof.
  intro H. unfold s_list. rewrite read_kind_head_lst by exact H.
  rewrite firstn_len_app, skipn_len_app. reflexivity.
Qed.

Lemma s_list_cn top x c r :
  bytes_ok x -> s_list top x = Ok (c, r) ->
  x = head 192 (len c) ++ c ++ r /\ len c < 2 ^ 64 /\ bytes_ok c /\ bytes_ok r.
Proof.
  intros Hok. unfold s_list.
  destruct (read_kind top x) as [[[[k size] bv] r0]|e] eqn:RK; [|discriminate].
  apply read_kind_inv in RK as (Hle & H64 & Hk); [|exact Hok].
  destruct k; try discriminate. intro E; inversion E; subst c r. clear E.
  assert (Hr : bytes_ok r0) by (rewrite Hk in Hok; eapply bytes_ok_head_tail; exact Hok).
  assert (Hlc : len (firstn (N.to_nat size) r0) = size) by (apply firstn_skipn_len; exact Hle).
  rewrite Hlc. split; [|split; [exact H64 | split; [apply bytes_ok_firstn, Hr | apply bytes_ok_skipn, Hr]]].
  rewrite Hk. f_equal. symmetry. apply firstn_skipn.
Qed.

(* ---------- Stream.Raw and RawValue ---------- *)
Lemma s_raw_cn top x raw rest :
  bytes_ok x -> s_raw top x = Ok (raw, rest) -> x = raw ++ rest /\ raw <> [] /\ raw_okb raw = true /\ bytes_ok rest.
Proof.
  intros Hok. unfold s_raw.
  destruct (read_kind top x) as [[[[k size] bv] r]|e] eqn:RK; [|discriminate].
  apply read_kind_inv in RK as (Hle & H64 & Hk); [|exact Hok].
  assert (Gen : forall base, (base = 128 \/ base = 192) ->
            x = head base size ++ r ->
            (forall top' c rest', len c < 2 ^ 64 ->
               read_kind top' (head base (len c) ++ c ++ rest') = Ok (match base with 128 => KString | _ => KList end, len c, 0, c ++ rest')) ->
            s_raw true (head base size ++ firstn (N.to_nat size) r) =
              Ok (head base size ++ firstn (N.to_nat size) r, []) ->
            x = (head base size ++ firstn (N.to_nat size) r) ++ skipn (N.to_nat size) r /\
            head base size ++ firstn (N.to_nat size) r <> [] /\
            raw_okb (head base size ++ firstn (N.to_nat size) r) = true /\ bytes_ok (skipn (N.to_nat size) r)).
  { intros base Hb Hx _ Hs.
    assert (Hr : bytes_ok r) by (rewrite Hx in Hok; eapply bytes_ok_head_tail; exact Hok).
    split; [rewrite <- app_assoc, firstn_skipn; exact Hx|].
    split; [pose proof (head_length base size); destruct (head base size); [simpl in *; lia | discriminate]|].
    split; [|apply bytes_ok_skipn, Hr].
    unfold raw_okb. rewrite Hs, bytes_eqb_refl, andb_true_r. apply bytes_okb_spec.
    apply bytes_ok_app; [|apply bytes_ok_firstn, Hr].
    rewrite Hx in Hok. apply bytes_ok_app_inv in Hok. tauto. }
  destruct k.
  - destruct Hk as [-> Hbv]. intro E; inversion E; subst raw rest. inversion Hok; subst.
    split; [reflexivity|]. split; [discriminate|]. split; [|assumption].
    unfold raw_okb, s_raw. rewrite read_kind_byte by exact Hbv. rewrite bytes_eqb_refl, andb_true_r.
    apply bytes_okb_spec. constructor; [assumption | constructor].
  - intro E; inversion E; subst raw rest. apply (Gen 128); [left; reflexivity | exact Hk | intros; apply read_kind_head_str; assumption |].
    set (c := firstn (N.to_nat size) r).
    assert (Hlc : len c = size) by (apply firstn_skipn_len; exact Hle).
    unfold s_raw. rewrite <- Hlc.
    pose proof (read_kind_head_str true c [] ltac:(rewrite Hlc; exact H64)) as RKc. rewrite app_nil_r in RKc.
    rewrite RKc, to_nat_len, firstn_all, skipn_all. reflexivity.
  - intro E; inversion E; subst raw rest. apply (Gen 192); [right; reflexivity | exact Hk | intros; apply read_kind_head_lst; assumption |].
    set (c := firstn (N.to_nat size) r).
    assert (Hlc : len c = size) by (apply firstn_skipn_len; exact Hle).
    unfold s_raw. rewrite <- Hlc.
    pose proof (read_kind_head_lst true c [] ltac:(rewrite Hlc; exact H64)) as RKc. rewrite app_nil_r in RKc.
    rewrite RKc, to_nat_len, firstn_all, skipn_all. reflexivity.
Qed.

Lemma skipn_nil_len (n : N) (r : bytes) : n <= len r -> skipn (N.to_nat n) r = [] -> firstn (N.to_nat n) r = r /\ len r = n.
Proof.
  intros Hle Hs. assert (Hl : length (skipn (N.to_nat n) r) = 0%nat) by (rewrite Hs; reflexivity).
  rewrite skipn_length in Hl. unfold len in *. split; [apply firstn_all2; lia | lia].
Qed.

Lemma s_raw_rt top b rest : raw_okb b = true -> s_raw top (b ++ rest) = Ok (b, rest) /\ b <> [].
Proof.
  unfold raw_okb. intro H. apply andb_true_iff in H as [Hok H]. apply bytes_okb_spec in Hok.
  unfold s_raw in H.
  destruct (read_kind true b) as [[[[k size] bv] r]|e] eqn:RK; [|discriminate].
  apply read_kind_inv in RK as (Hle & H64 & Hk); [|exact Hok].
  destruct k.
  - destruct Hk as [-> Hbv]. destruct r; [|discriminate]. split; [|discriminate].
    unfold s_raw. cbn [app]. rewrite read_kind_byte by exact Hbv. reflexivity.
  - destruct (skipn (N.to_nat size) r) eqn:Es; [|discriminate].
    apply skipn_nil_len in Es as [Ef El]; [|exact Hle]. subst size.
    split; [|rewrite Hk; pose proof (head_length 128 (len r)); destruct (head 128 (len r)); [simpl in *; lia | discriminate]].
    unfold s_raw. rewrite Hk, <- app_assoc. rewrite read_kind_head_str by exact H64.
    rewrite firstn_len_app, skipn_len_app. reflexivity.
  - destruct (skipn (N.to_nat size) r) eqn:Es; [|discriminate].
    apply skipn_nil_len in Es as [Ef El]; [|exact Hle]. subst size.
    split; [|rewrite Hk; pose proof (head_length 192 (len r)); destruct (head 192 (len r)); [simpl in *; lia | discriminate]].
    unfold s_raw. rewrite Hk, <- app_assoc. rewrite read_kind_head_lst by exact H64.
    rewrite firstn_len_app, skipn_len_app. reflexivity.
Qed.

(* ---------- item_okb ---------- *)
Lemma item_okb_spec : forall i, item_okb i = true <-> item_ok i.
Proof.
  apply (item_ind2 (fun i => item_okb i = true <-> item_ok i)
                   (fun l => forallb item_okb l = true <-> Forall item_ok l)).
  - intro b. cbn [item_okb item_ok]. rewrite andb_true_iff, bytes_okb_spec, N.ltb_lt. tauto.
  - intros l IH. rewrite item_ok_Lst. cbn [item_okb]. rewrite andb_true_iff, N.ltb_lt. unfold enc_seq. tauto.
  - cbn. split; intro; [constructor | reflexivity].
  - intros t l IHt IHl. cbn [forallb]. rewrite andb_true_iff, IHt, IHl. split.
    + intros [H1 H2]. constructor; assumption.
    + intro H. inversion H; subst. tauto.
Qed.

(* ---------- nil pointers ---------- *)
Lemma nil_enc_spec : forall t, cty_ok t = true -> ends_raw t = false ->
  nil_enc t = if nil_is_list t then [192] else [128].
Proof.
  apply (ty_ind2 (fun t => cty_ok t = true -> ends_raw t = false -> nil_enc t = if nil_is_list t then [192] else [128]));
    try reflexivity.
  - intros t IH Hok Hr. cbn [cty_ok] in Hok. apply andb_true_iff in Hok as [Hok _]. apply IH; assumption.
  - intros t IH Hok Hr. cbn [cty_ok] in Hok. apply andb_true_iff in Hok as [Hok _].
    apply andb_true_iff in Hok as [Hok _]. apply IH; assumption.
  - intros _ Hr. discriminate.
Qed.

Lemma wfv_notnil t : not_ptrnil t = true -> wfv t VNil = false.
Proof. destruct t; try reflexivity. discriminate. Qed.

Lemma cty_ok_ptr_inner t : cty_ok (TPtr t) = true -> cty_ok t = true /\ not_ptrnil t = true.
Proof.
  cbn [cty_ok]. intro H. apply andb_true_iff in H as [H1 H2]. split; [exact H1|].
  destruct t; try reflexivity; discriminate.
Qed.
Lemma cty_ok_ptrnil_inner t : cty_ok (TPtrNil t) = true -> cty_ok t = true /\ not_ptrnil t = true /\ ends_raw t = false.
Proof.
  cbn [cty_ok]. intro H. apply andb_true_iff in H as [H H3]. apply andb_true_iff in H as [H1 H2].
  split; [exact H1|]. split; [destruct t; try reflexivity; discriminate | apply negb_true_iff; exact H3].
Qed.

(* every decoder starts by asking for the kind *)
Lemma fuel_for_S b : exists f, fuel_for b = S f.
Proof. unfold fuel_for. exists (2 * length b + 1)%nat. lia. Qed.

Lemma tdec_ok_kind : forall t top b x, tdec t top b = Ok x -> exists y, read_kind top b = Ok y.
Proof.
  apply (ty_ind2 (fun t => forall top b x, tdec t top b = Ok x -> exists y, read_kind top b = Ok y));
    try (intros; cbn [tdec] in *;
         unfold s_uint, s_bytes, s_list, s_raw in *;
         match goal with H : context [read_kind ?t ?b] |- _ => destruct (read_kind t b) as [y|e]; [exists y; reflexivity | discriminate] end).
  - intros t IH top b x. cbn [tdec]. apply IH.
  - intros top b x. cbn [tdec]. destruct (fuel_for_S b) as [f ->]. cbn [dec].
    destruct (read_kind top b) as [y|e]; [exists y; reflexivity | discriminate].
Qed.

(* ---------- element loops ---------- *)
Section Elems.
  Variable t : ty.
  Let d := tdec t false.
  Hypothesis RT : forall v e rest, wfv t v = true -> tenc t v = Some e -> d (e ++ rest) = Ok (v, rest) /\ e <> [].
  Hypothesis CN : forall b v rest, bytes_ok b -> d b = Ok (v, rest) ->
                  exists e, tenc t v = Some e /\ e <> [] /\ b = e ++ rest /\ wfv t v = true.

  Lemma elems_rt : forall vs c, forallb (wfv t) vs = true -> cat_opt (tenc t) vs = Some c ->
    forall n, (length c <= n)%nat -> elems d n c = Ok vs.
  Proof.
    induction vs as [|v vs IH]; intros c Hw Hc n Hn.
    - cbn in Hc. inversion Hc; subst. destruct n; reflexivity.
    - cbn [forallb] in Hw. apply andb_true_iff in Hw as [Hv Hvs]. cbn [cat_opt] in Hc.
      destruct (tenc t v) as [a|] eqn:Ea; [|discriminate].
      destruct (cat_opt (tenc t) vs) as [b|] eqn:Eb; [|discriminate]. inversion Hc; subst c. clear Hc.
      destruct (RT v a b Hv Ea) as [Hd Hne].
      destruct a as [|a0 a']; [congruence|].
      rewrite app_length in Hn. cbn [length] in Hn. destruct n as [|n]; [lia|].
      cbn [elems app]. change (a0 :: a' ++ b) with ((a0 :: a') ++ b). rewrite Hd.
      rewrite (IH b Hvs eq_refl n) by lia. reflexivity.
  Qed.

  Lemma elems_cn : forall n c vs, bytes_ok c -> elems d n c = Ok vs ->
    cat_opt (tenc t) vs = Some c /\ forallb (wfv t) vs = true.
  Proof.
    induction n as [|n IH]; intros c vs Hok H.
    - destruct c; [inversion H; subst; split; reflexivity | discriminate].
    - destruct c as [|c0 c'] eqn:Ec; [inversion H; subst; split; reflexivity|].
      rewrite <- Ec in *. assert (H' : match d c with
                                        | Ok (v, c') => match elems d n c' with Ok vs => Ok (v :: vs) | Err e => Err e end
                                        | Err e => Err e end = Ok vs) by (rewrite Ec in *; exact H).
      clear H. destruct (d c) as [[v c1]|e] eqn:Ed; [|discriminate].
      destruct (CN c v c1 Hok Ed) as (a & Ea & Hne & Hc & Hw).
      destruct (elems d n c1) as [vs'|e] eqn:Er; [|discriminate]. inversion H'; subst vs.
      assert (Hc1 : bytes_ok c1) by (rewrite Hc in Hok; apply bytes_ok_app_inv in Hok; tauto).
      destruct (IH c1 vs' Hc1 Er) as [Hcat Hall].
      cbn [cat_opt forallb]. rewrite Ea, Hcat, Hw, Hall. rewrite Hc. split; reflexivity.
  Qed.

  Lemma arr_rt : forall vs c, forallb (wfv t) vs = true -> cat_opt (tenc t) vs = Some c ->
    arr_elems d (length vs) c = Ok vs.
  Proof.
    induction vs as [|v vs IH]; intros c Hw Hc.
    - cbn in Hc. inversion Hc; subst. reflexivity.
    - cbn [forallb] in Hw. apply andb_true_iff in Hw as [Hv Hvs]. cbn [cat_opt] in Hc.
      destruct (tenc t v) as [a|] eqn:Ea; [|discriminate].
      destruct (cat_opt (tenc t) vs) as [b|] eqn:Eb; [|discriminate]. inversion Hc; subst c. clear Hc.
      destruct (RT v a b Hv Ea) as [Hd Hne].
      destruct a as [|a0 a']; [congruence|].
      cbn [length arr_elems app]. change (a0 :: a' ++ b) with ((a0 :: a') ++ b). rewrite Hd.
      rewrite (IH b Hvs eq_refl). reflexivity.
  Qed.

  Lemma arr_cn : forall n c vs, bytes_ok c -> arr_elems d n c = Ok vs ->
    length vs = n /\ cat_opt (tenc t) vs = Some c /\ forallb (wfv t) vs = true.
  Proof.
    induction n as [|n IH]; intros c vs Hok H.
    - cbn [arr_elems] in H. destruct c; [inversion H; subst; repeat split | discriminate].
    - cbn [arr_elems] in H. destruct c as [|c0 c'] eqn:Ec; [discriminate|]. rewrite <- Ec in *.
      destruct (d c) as [[v c1]|e] eqn:Ed; [|discriminate].
      destruct (CN c v c1 Hok Ed) as (a & Ea & Hne & Hc & Hw).
      destruct (arr_elems d n c1) as [vs'|e] eqn:Er; [|discriminate]. inversion H; subst vs.
      assert (Hc1 : bytes_ok c1) by (rewrite Hc in Hok; apply bytes_ok_app_inv in Hok; tauto).
      destruct (IH c1 vs' Hc1 Er) as (Hl & Hcat & Hall).
      cbn [length cat_opt forallb]. rewrite Ea, Hcat, Hw, Hall, Hl. rewrite Hc. repeat split.
  Qed.
End Elems.

(* ---------- named versions of the struct loops ---------- *)
Definition tenc_fields (tl : option ty) : list ty -> list value -> option bytes :=
  fix go (fs : list ty) (l : list value) {struct fs} : option bytes :=
    match fs, l with
    | [], _ => match tl, l with
               | None, [] => Some []
               | Some t', [VList ws] => cat_opt (tenc t') ws
               | _, _ => None
               end
    | f :: fs', x :: l' => match tenc f x, go fs' l' with
                           | Some a, Some b => Some (a ++ b)
                           | _, _ => None
                           end
    | _ :: _, [] => None
    end.
Definition tdec_fields (tl : option ty) : list ty -> bytes -> res (list value) :=
  fix go (fs : list ty) (c : bytes) {struct fs} : res (list value) :=
    match fs with
    | [] => match tl with
            | None => match c with [] => Ok [] | _ => Err EOther end
            | Some t' => match elems (tdec t' false) (length c) c with
                         | Ok ws => Ok [VList ws]
                         | Err e => Err e
                         end
            end
    | f :: fs' => match c with
                  | [] => Err EOther
                  | _ => match tdec f false c with
                         | Err e => Err e
                         | Ok (v, c') => match go fs' c' with
                                         | Ok vs => Ok (v :: vs)
                                         | Err e => Err e
                                         end
                         end
                  end
    end.
Definition wfv_fields (tl : option ty) : list ty -> list value -> bool :=
  fix go (fs : list ty) (l : list value) {struct fs} : bool :=
    match fs, l with
    | [], _ => match tl, l with
               | None, [] => true
               | Some t', [VList ws] => forallb (wfv t') ws
               | _, _ => false
               end
    | f :: fs', x :: l' => wfv f x && go fs' l'
    | _ :: _, [] => false
    end.

Lemma tenc_struct fs tl l : tenc (TStruct fs tl) (VList l) = obind (tenc_fields tl fs l) write_list.
Proof. reflexivity. Qed.
Lemma tdec_struct fs tl top b :
  tdec (TStruct fs tl) top b =
  match s_list top b with
  | Err e => Err e
  | Ok (c, r) => match tdec_fields tl fs c with Ok vs => Ok (VList vs, r) | Err e => Err e end
  end.
Proof. reflexivity. Qed.
Lemma wfv_struct fs tl l : wfv (TStruct fs tl) (VList l) = wfv_fields tl fs l.
Proof. reflexivity. Qed.

Lemma write_list_inv c e : write_list c = Some e -> e = head 192 (len c) ++ c /\ len c < 2 ^ 64.
Proof. unfold write_list. destruct (N.ltb_spec (len c) (2 ^ 64)); [|discriminate]. intro E; inversion E; auto. Qed.
Lemma write_list_ok c : len c < 2 ^ 64 -> write_list c = Some (head 192 (len c) ++ c).
Proof. intro H. unfold write_list. destruct (N.ltb_spec (len c) (2 ^ 64)); [reflexivity | lia]. Qed.
Lemma write_string_inv b e : write_string b = Some e -> e = enc_str b /\ len b < 2 ^ 64.
Proof. unfold write_string. destruct (N.ltb_spec (len b) (2 ^ 64)); [|discriminate]. intro E; inversion E; auto. Qed.
Lemma write_string_ok b : len b < 2 ^ 64 -> write_string b = Some (enc_str b).
Proof. intro H. unfold write_string. destruct (N.ltb_spec (len b) (2 ^ 64)); [reflexivity | lia]. Qed.

Lemma head_nonempty base n x : head base n ++ x <> [].
Proof. pose proof (head_length base n). destruct (head base n); [simpl in *; lia | discriminate]. Qed.

Lemma cty_ok_uint w : cty_ok (TUint w) = true -> 1 <= w <= 8.
Proof.
  cbn [cty_ok]. intro H. repeat (apply orb_true_iff in H as [H|H]); apply N.eqb_eq in H; lia.
Qed.

(* ---------- the two directions, for every descriptor ---------- *)
Definition RT (t : ty) : Prop :=
  cty_ok t = true -> forall v e top rest, wfv t v = true -> tenc t v = Some e ->
  tdec t top (e ++ rest) = Ok (v, rest) /\ e <> [].
Definition CN (t : ty) : Prop :=
  cty_ok t = true -> forall top b v rest, bytes_ok b -> tdec t top b = Ok (v, rest) ->
  exists e, tenc t v = Some e /\ e <> [] /\ b = e ++ rest /\ wfv t v = true.

Lemma rt_all : forall t, RT t.
Proof.
  apply (ty_ind2 RT); unfold RT.
  - (* uint *) intros w Hok v e top rest Hw He. apply cty_ok_uint in Hok.
    destruct v; try discriminate. cbn [tenc] in He.
    destruct (N.ltb_spec n (256 ^ w)) as [Hn|]; [|discriminate]. inversion He; subst e.
    assert (Hn8 : n < 256 ^ 8) by (pose proof (pow256_le w (proj2 Hok)); lia).
    rewrite write_uint_spec by exact Hn8. split; [|apply enc_str_nonempty].
    cbn [tdec]. rewrite s_uint_rt by assumption. reflexivity.
  - (* big *) intros _ v e top rest Hw He. destruct v; try discriminate. cbn [tenc] in He.
    assert (He' : e = enc_str (beb n) /\ len (beb n) < 2 ^ 64).
    { destruct (N.eqb_spec n 0) as [->|]; [inversion He; rewrite beb_0; split; reflexivity | apply write_string_inv; exact He]. }
    destruct He' as [-> Hl]. split; [|apply enc_str_nonempty].
    cbn [tdec]. rewrite s_bytes_rt by exact Hl.
    destruct (N.eqb_spec (hd 1 (beb n)) 0) as [E|_]; [exfalso; exact (beb_hd n E)|]. rewrite bev_beb. reflexivity.
  - (* bool *) intros _ v e top rest Hw He. destruct v; try discriminate. cbn [tenc] in He. inversion He; subst e.
    split; [|destruct b; discriminate]. cbn [tdec]. destruct b.
    + change ([1] ++ rest) with (enc_str (beb 1) ++ rest). rewrite s_uint_rt by (cbn; lia). reflexivity.
    + change ([128] ++ rest) with (enc_str (beb 0) ++ rest). rewrite s_uint_rt by (cbn; lia). reflexivity.
  - (* bytes *) intros _ v e top rest Hw He. destruct v; try discriminate. cbn [tenc] in He.
    apply write_string_inv in He as [-> Hl]. split; [|apply enc_str_nonempty].
    cbn [tdec]. rewrite s_bytes_rt by exact Hl. reflexivity.
  - (* byte array *) intros n _ v e top rest Hw He. destruct v; try discriminate. cbn [tenc] in He.
    destruct (N.eqb_spec (len b) n) as [Hn|]; [|discriminate].
    apply write_string_inv in He as [-> Hl]. split; [|apply enc_str_nonempty].
    cbn [tdec]. destruct (Nat.eq_dec (length b) 1) as [H1|H1].
    + destruct b as [|x [|y r]]; try discriminate. cbn [enc_str]. change (len [x]) with 1 in Hn. subst n.
      destruct (N.ltb_spec x 128) as [Hx|Hx].
      * cbn [app]. rewrite read_kind_byte by exact Hx. reflexivity.
      * change (head 128 1) with (head 128 (len [x])). rewrite <- app_assoc.
        rewrite read_kind_head_str by exact Hl. change (len [x]) with 1. change (N.to_nat 1) with 1%nat.
        cbn [N.eqb Pos.eqb negb andb app firstn hd skipn]. destruct (N.ltb_spec x 128); [lia|]. reflexivity.
    + rewrite enc_str_not1 by exact H1. rewrite <- app_assoc. rewrite read_kind_head_str by exact Hl.
      rewrite firstn_len_app, skipn_len_app. subst n. rewrite N.eqb_refl. cbn [negb].
      destruct (N.eqb_spec (len b) 1) as [E|_]; [exfalso; apply H1; unfold len in E; lia | reflexivity].
  - (* slice *) intros t IH Hok v e top rest Hw He. cbn [cty_ok] in Hok. destruct v; try discriminate.
    cbn [tenc] in He. cbn [wfv] in Hw. destruct (cat_opt (tenc t) l) as [c|] eqn:Ec; [|discriminate].
    cbn [obind] in He. apply write_list_inv in He as [-> Hl]. split; [|apply head_nonempty].
    cbn [tdec]. rewrite <- app_assoc, s_list_rt by exact Hl.
    rewrite (elems_rt t (fun v e rest => IH Hok v e false rest) l c Hw Ec) by lia. reflexivity.
  - (* array *) intros n t IH Hok v e top rest Hw He. cbn [cty_ok] in Hok. destruct v; try discriminate.
    cbn [tenc] in He. cbn [wfv] in Hw. destruct (Nat.eqb_spec (length l) n) as [Hn|]; [|discriminate].
    destruct (cat_opt (tenc t) l) as [c|] eqn:Ec; [|discriminate].
    cbn [obind] in He. apply write_list_inv in He as [-> Hl]. split; [|apply head_nonempty].
    cbn [tdec]. rewrite <- app_assoc, s_list_rt by exact Hl. subst n.
    rewrite (arr_rt t (fun v e rest => IH Hok v e false rest) l c Hw Ec). reflexivity.
  - (* struct *) intros fs tl Hfs Htl Hok v e top rest Hw He. destruct v; try discriminate.
    cbn [cty_ok] in Hok. apply andb_true_iff in Hok as [Hokf Hokt].
    rewrite tenc_struct in He. rewrite wfv_struct in Hw.
    destruct (tenc_fields tl fs l) as [c|] eqn:Ec; [|discriminate].
    cbn [obind] in He. apply write_list_inv in He as [-> Hl]. split; [|apply head_nonempty].
    rewrite tdec_struct. rewrite <- app_assoc, s_list_rt by exact Hl.
    assert (G : tdec_fields tl fs c = Ok l).
    { clear Hl. revert l c Hw Ec Hokf. induction Hfs as [|f fs' Hf Hfs' IHfs]; intros l c Hw Ec Hokf.
      - cbn [tenc_fields] in Ec. cbn [wfv_fields] in Hw. cbn [tdec_fields]. destruct tl as [t'|].
        + destruct l as [|[ | | |ws| | | ] [|? ?]]; try discriminate.
          cbn [opt_P] in Htl.
          rewrite (elems_rt t' (fun v e rest => Htl Hokt v e false rest) ws c Hw Ec) by lia. reflexivity.
        + destruct l; [|discriminate]. inversion Ec; reflexivity.
      - cbn [tenc_fields] in Ec. cbn [wfv_fields] in Hw. destruct l as [|x l']; [discriminate|].
        apply andb_true_iff in Hw as [Hx Hl']. cbn [forallb] in Hokf. apply andb_true_iff in Hokf as [Hokf1 Hokf2].
        destruct (tenc f x) as [a|] eqn:Ea; [|discriminate].
        destruct (tenc_fields tl fs' l') as [b|] eqn:Eb; [|discriminate]. inversion Ec; subst c.
        destruct (Hf Hokf1 x a false b Hx Ea) as [Hd Hne].
        cbn [tdec_fields]. destruct (a ++ b) as [|? ?] eqn:Eab.
        + exfalso. apply app_eq_nil in Eab as [-> _]. congruence.
        + rewrite Hd. rewrite (IHfs l' b Hl' Eb Hokf2). reflexivity. }
    rewrite G. reflexivity.
  - (* plain pointer *) intros t IH Hok v e top rest Hw He. apply cty_ok_ptr_inner in Hok as [Hok Hnp].
    cbn [wfv] in Hw. cbn [tenc tdec] in *.
    destruct v; try discriminate; apply IH; assumption.
  - (* nil-tagged pointer *) intros t IH Hok v e top rest Hw He.
    apply cty_ok_ptrnil_inner in Hok as (Hok & Hnp & Hnr).
    assert (NonNil : forall v, v <> VNil -> wfv (TPtrNil t) v = true -> tenc (TPtrNil t) v = Some e ->
                     tdec (TPtrNil t) top (e ++ rest) = Ok (v, rest) /\ e <> []).
    { clear v Hw He. intros v Hv Hw He.
      assert (Hw' : wfv t v = true /\ is_empty_enc e = false /\ tenc t v = Some e).
      { cbn [wfv tenc] in Hw, He. destruct v; try congruence;
          (apply andb_true_iff in Hw as [Hw1 Hw2]; rewrite He in Hw2; apply negb_true_iff in Hw2; auto). }
      destruct Hw' as (Hw1 & Hemp & He1).
      destruct (IH Hok v e top rest Hw1 He1) as [Hd Hne]. split; [|exact Hne].
      cbn [tdec]. destruct (tdec_ok_kind t top (e ++ rest) _ Hd) as [[[[k size] bv] r] RK]. rewrite RK.
      rewrite <- (kind_empty _ _ _ _ _ _ RK), (is_empty_app e rest Hne), Hemp. exact Hd. }
    destruct v; try (apply NonNil; [discriminate | assumption | assumption]).
    cbn [tenc] in He. inversion He; subst e. rewrite (nil_enc_spec t Hok Hnr).
    cbn [tdec]. destruct (nil_is_list t) eqn:En.
    + split; [|discriminate]. cbn [app]. rewrite read_kind_192. cbn. reflexivity.
    + split; [|discriminate]. cbn [app]. rewrite read_kind_128. cbn. reflexivity.
  - (* interface{} *) intros _ v e top rest Hw He. destruct v; try discriminate. cbn [tenc] in He.
    destruct (item_okb i) eqn:Ei; [|discriminate]. inversion He; subst e. apply item_okb_spec in Ei.
    split; [|apply encode_nonempty]. cbn [tdec].
    rewrite (dec_roundtrip_gen i Ei (fuel_for (encode i ++ rest)) top rest); [reflexivity|].
    unfold fuel_for. pose proof (need_bound i). rewrite app_length. lia.
  - (* RawValue *) intros _ v e top rest Hw He. destruct v; try discriminate. cbn [tenc] in He. inversion He; subst e.
    cbn [wfv] in Hw. destruct (s_raw_rt top b rest Hw) as [Hs Hne]. split; [|exact Hne].
    cbn [tdec]. rewrite Hs. reflexivity.
Qed.

Lemma tenc_ptr_nonnil t v : v <> VNil -> tenc (TPtr t) v = tenc t v.
Proof. intro H. cbn [tenc]. destruct v; try reflexivity. congruence. Qed.
Lemma tenc_ptrnil_nonnil t v : v <> VNil -> tenc (TPtrNil t) v = tenc t v.
Proof. intro H. cbn [tenc]. destruct v; try reflexivity. congruence. Qed.
Lemma wfv_ptr_nonnil t v : v <> VNil -> wfv (TPtr t) v = wfv t v.
Proof. intro H. cbn [wfv]. destruct v; try reflexivity. congruence. Qed.
Lemma wfv_ptrnil_nonnil t v e : v <> VNil -> tenc t v = Some e ->
  wfv (TPtrNil t) v = wfv t v && negb (is_empty_enc e).
Proof. intros H E. cbn [wfv]. rewrite E. destruct v; try reflexivity. congruence. Qed.

Lemma cn_all : forall t, CN t.
Proof.
  apply (ty_ind2 CN); unfold CN.
  - (* uint *) intros w Hok top b v rest Hb. apply cty_ok_uint in Hok. cbn [tdec].
    destruct (s_uint w top b) as [[n r]|e] eqn:E; [|discriminate]. intro H; inversion H; subst v rest.
    apply s_uint_cn in E as (Eb & Hn & _); [|assumption|assumption].
    assert (Hn8 : n < 256 ^ 8) by (pose proof (pow256_le w (proj2 Hok)); lia).
    exists (enc_str (beb n)). cbn [tenc wfv]. destruct (N.ltb_spec n (256 ^ w)); [|lia].
    rewrite write_uint_spec by exact Hn8. repeat split; [apply enc_str_nonempty | exact Eb].
  - (* big *) intros _ top b v rest Hb. cbn [tdec].
    destruct (s_bytes top b) as [[c r]|e] eqn:E; [|discriminate].
    destruct (N.eqb_spec (hd 1 c) 0) as [|Hhd]; [discriminate|]. intro H; inversion H; subst v rest.
    apply s_bytes_cn in E as (Eb & Hl & Hc & _); [|assumption].
    exists (enc_str c). cbn [tenc wfv]. pose proof (beb_bev c Hc Hhd) as Hbb.
    split; [|repeat split; [apply enc_str_nonempty | exact Eb]].
    destruct (N.eqb_spec (bev c) 0) as [Z|_].
    + rewrite Z, beb_0 in Hbb. subst c. reflexivity.
    + rewrite Hbb. apply write_string_ok. exact Hl.
  - (* bool *) intros _ top b v rest Hb. cbn [tdec].
    destruct (s_uint 1 top b) as [[n r]|e] eqn:E; [|discriminate].
    apply s_uint_cn in E as (Eb & Hn & _); [|lia|assumption].
    destruct (N.eqb_spec n 0) as [->|].
    + intro H; inversion H; subst v rest. exists [128]. repeat split; [discriminate | exact Eb].
    + destruct (N.eqb_spec n 1) as [->|]; [|discriminate].
      intro H; inversion H; subst v rest. exists [1]. repeat split; [discriminate | exact Eb].
  - (* bytes *) intros _ top b v rest Hb. cbn [tdec].
    destruct (s_bytes top b) as [[c r]|e] eqn:E; [|discriminate]. intro H; inversion H; subst v rest.
    apply s_bytes_cn in E as (Eb & Hl & Hc & _); [|assumption].
    exists (enc_str c). cbn [tenc wfv]. rewrite write_string_ok by exact Hl.
    repeat split; [apply enc_str_nonempty | exact Eb | apply bytes_okb_spec; exact Hc].
  - (* byte array *) intros n _ top b v rest Hb. cbn [tdec].
    destruct (read_kind top b) as [[[[k size] bv] r]|e] eqn:RK; [|discriminate].
    apply read_kind_inv in RK as (Hle & H64 & Hk); [|exact Hb].
    destruct k.
    + destruct Hk as [-> Hbv]. destruct (N.eqb_spec n 1) as [->|]; [|discriminate].
      intro H; inversion H; subst v rest. inversion Hb; subst.
      exists [bv]. cbn [tenc wfv]. change (len [bv] =? 1) with true. cbv iota.
      rewrite write_string_ok by (cbn; lia). cbn [enc_str]. destruct (N.ltb_spec bv 128); [|lia].
      repeat split; [discriminate|]. apply bytes_okb_spec. constructor; [assumption | constructor].
    + destruct (N.eqb_spec size n) as [->|]; [|discriminate]. cbn [negb].
      set (c := firstn (N.to_nat n) r).
      assert (Hr : bytes_ok r) by (rewrite Hk in Hb; eapply bytes_ok_head_tail; exact Hb).
      assert (Hlc : len c = n) by (apply firstn_skipn_len; exact Hle).
      destruct ((n =? 1) && (hd 0 c <? 128)) eqn:Ecan; [discriminate|].
      intro H; inversion H; subst v rest.
      exists (enc_str c). cbn [tenc wfv]. rewrite Hlc, N.eqb_refl. rewrite write_string_ok by (rewrite Hlc; exact H64).
      repeat split; [apply enc_str_nonempty | | apply bytes_okb_spec, bytes_ok_firstn, Hr].
      rewrite Hk. rewrite <- (str_canon c n Hlc Ecan). rewrite <- app_assoc. f_equal. symmetry. apply firstn_skipn.
    + discriminate.
  - (* slice *) intros t IH Hok top b v rest Hb. cbn [cty_ok] in Hok. cbn [tdec].
    destruct (s_list top b) as [[c r]|e] eqn:E; [|discriminate].
    apply s_list_cn in E as (Eb & Hl & Hc & _); [|assumption].
    destruct (elems (tdec t false) (length c) c) as [vs|e] eqn:El; [|discriminate].
    intro H; inversion H; subst v rest.
    destruct (elems_cn t (fun b v rest => IH Hok false b v rest) _ _ _ Hc El) as [Hcat Hall].
    exists (head 192 (len c) ++ c). cbn [tenc wfv]. rewrite Hcat. cbn [obind]. rewrite write_list_ok by exact Hl.
    repeat split; [apply head_nonempty | rewrite <- app_assoc; exact Eb | exact Hall].
  - (* array *) intros n t IH Hok top b v rest Hb. cbn [cty_ok] in Hok. cbn [tdec].
    destruct (s_list top b) as [[c r]|e] eqn:E; [|discriminate].
    apply s_list_cn in E as (Eb & Hl & Hc & _); [|assumption].
    destruct (arr_elems (tdec t false) n c) as [vs|e] eqn:El; [|discriminate].
    intro H; inversion H; subst v rest.
    destruct (arr_cn t (fun b v rest => IH Hok false b v rest) _ _ _ Hc El) as (Hn & Hcat & Hall).
    exists (head 192 (len c) ++ c). cbn [tenc wfv]. rewrite Hn, Nat.eqb_refl, Hcat. cbn [obind].
    rewrite write_list_ok by exact Hl.
    repeat split; [apply head_nonempty | rewrite <- app_assoc; exact Eb | exact Hall].
  - (* struct *) intros fs tl Hfs Htl Hok top b v rest Hb.
    cbn [cty_ok] in Hok. apply andb_true_iff in Hok as [Hokf Hokt]. rewrite tdec_struct.
    destruct (s_list top b) as [[c r]|e] eqn:E; [|discriminate].
    apply s_list_cn in E as (Eb & Hl & Hc & _); [|assumption].
    destruct (tdec_fields tl fs c) as [vs|e] eqn:Ef; [|discriminate].
    intro H; inversion H; subst v rest.
    assert (G : tenc_fields tl fs vs = Some c /\ wfv_fields tl fs vs = true).
    { clear H Eb Hl. revert c vs Hc Ef Hokf. induction Hfs as [|f fs' Hf Hfs' IHfs]; intros c vs Hc Ef Hokf.
      - cbn [tdec_fields] in Ef. cbn [tenc_fields wfv_fields]. destruct tl as [t'|].
        + destruct (elems (tdec t' false) (length c) c) as [ws|e] eqn:El; [|discriminate].
          inversion Ef; subst vs. cbn [opt_P] in Htl.
          exact (elems_cn t' (fun b v rest => Htl Hokt false b v rest) _ _ _ Hc El).
        + destruct c; [|discriminate]. inversion Ef; subst. split; reflexivity.
      - cbn [tdec_fields] in Ef. destruct c as [|c0 c'] eqn:Ec; [discriminate|]. rewrite <- Ec in *.
        cbn [forallb] in Hokf. apply andb_true_iff in Hokf as [Hokf1 Hokf2].
        destruct (tdec f false c) as [[x c1]|e] eqn:Ed; [|discriminate].
        destruct (Hf Hokf1 false c x c1 Hc Ed) as (a & Ea & Hne & Hca & Hw).
        destruct (tdec_fields tl fs' c1) as [vs'|e] eqn:Er; [|discriminate]. inversion Ef; subst vs.
        assert (Hc1 : bytes_ok c1) by (rewrite Hca in Hc; apply bytes_ok_app_inv in Hc; tauto).
        destruct (IHfs c1 vs' Hc1 Er Hokf2) as [Hcat Hall].
        cbn [tenc_fields wfv_fields]. rewrite Ea, Hcat, Hw, Hall, Hca. split; reflexivity. }
    destruct G as [Gc Gw]. exists (head 192 (len c) ++ c).
    rewrite tenc_struct, wfv_struct, Gc. cbn [obind]. rewrite write_list_ok by exact Hl.
    repeat split; [apply head_nonempty | rewrite <- app_assoc; exact Eb | exact Gw].
  - (* plain pointer *) intros t IH Hok top b v rest Hb Hd. apply cty_ok_ptr_inner in Hok as [Hok Hnp].
    cbn [tdec] in Hd. destruct (IH Hok top b v rest Hb Hd) as (e & He & Hne & Hbe & Hw).
    assert (Hv : v <> VNil) by (intro Z; subst v; rewrite (wfv_notnil t Hnp) in Hw; discriminate).
    exists e. rewrite tenc_ptr_nonnil, wfv_ptr_nonnil by exact Hv. auto.
  - (* nil-tagged pointer *) intros t IH Hok top b v rest Hb.
    apply cty_ok_ptrnil_inner in Hok as (Hok & Hnp & Hnr). cbn [tdec].
    destruct (read_kind top b) as [[[[k size] bv] r]|e] eqn:RK; [|discriminate].
    pose proof (kind_empty _ _ _ _ _ _ RK) as Hemp.
    destruct ((size =? 0) && notbyte k) eqn:Eemp.
    + apply andb_true_iff in Eemp as [Es Ek]. apply N.eqb_eq in Es. subst size.
      apply read_kind_inv in RK as (_ & _ & Hk); [|exact Hb].
      assert (Hr : bytes_ok r) by (destruct k; [discriminate | | ]; rewrite Hk in Hb; eapply bytes_ok_head_tail; exact Hb).
      destruct (Bool.eqb (nil_is_list t) match k with KList => true | _ => false end) eqn:Eq; [|discriminate].
      intro H; inversion H; subst v rest. exists (nil_enc t). cbn [tenc wfv].
      rewrite (nil_enc_spec t Hok Hnr). apply eqb_prop in Eq. rewrite Eq.
      destruct k; [discriminate | |]; (repeat split; [discriminate | exact Hk]).
    + intro Hd. destruct (IH Hok top b v rest Hb Hd) as (e & He & Hne & Hbe & Hw).
      assert (Hv : v <> VNil) by (intro Z; subst v; rewrite (wfv_notnil t Hnp) in Hw; discriminate).
      exists e. rewrite tenc_ptrnil_nonnil by exact Hv. rewrite (wfv_ptrnil_nonnil t v e Hv He), Hw.
      rewrite Hbe, (is_empty_app e rest Hne) in Hemp. rewrite Hemp. auto.
  - (* interface{} *) intros _ top b v rest Hb. cbn [tdec].
    destruct (dec (fuel_for b) top b) as [[i r]|e] eqn:E; [|discriminate]. intro H; inversion H; subst v rest.
    apply (proj1 (dec_canonical_gen _)) in E as [Eb Hi]; [|exact Hb].
    exists (encode i). cbn [tenc wfv]. rewrite (proj2 (item_okb_spec i) Hi).
    repeat split; [apply encode_nonempty | exact Eb].
  - (* RawValue *) intros _ top b v rest Hb. cbn [tdec].
    destruct (s_raw top b) as [[raw r]|e] eqn:E; [|discriminate]. intro H; inversion H; subst v rest.
    apply s_raw_cn in E as (Eb & Hne & Hraw & _); [|exact Hb].
    exists raw. cbn [tenc wfv]. auto.
Qed.

(* ---------- headline statements ---------- *)
Theorem codec_roundtrip t v e rest top :
  cty_ok t = true -> wfv t v = true -> tenc t v = Some e -> tdec t top (e ++ rest) = Ok (v, rest).
Proof. intros Hok Hw He. exact (proj1 (rt_all t Hok v e top rest Hw He)). Qed.

Theorem codec_roundtrip_bytes t v e :
  cty_ok t = true -> wfv t v = true -> tenc t v = Some e -> tdec_bytes t e = Ok v.
Proof.
  intros Hok Hw He. unfold tdec_bytes. pose proof (codec_roundtrip t v e [] true Hok Hw He) as H.
  rewrite app_nil_r in H. rewrite H. reflexivity.
Qed.

Theorem codec_canonical t top b v rest :
  cty_ok t = true -> bytes_ok b -> tdec t top b = Ok (v, rest) ->
  exists e, tenc t v = Some e /\ b = e ++ rest /\ wfv t v = true.
Proof.
  intros Hok Hb Hd. destruct (cn_all t Hok top b v rest Hb Hd) as (e & He & _ & Hbe & Hw). exists e. auto.
Qed.

Theorem codec_canonical_bytes t b v :
  cty_ok t = true -> bytes_ok b -> tdec_bytes t b = Ok v -> tenc t v = Some b /\ wfv t v = true.
Proof.
  intros Hok Hb. unfold tdec_bytes. destruct (tdec t true b) as [[v' rest]|e] eqn:E; [|discriminate].
  destruct rest; [|discriminate]. intro H; inversion H; subst v'.
  destruct (codec_canonical t true b v [] Hok Hb E) as (e & He & Hbe & Hw). rewrite app_nil_r in Hbe. subst e. auto.
Qed.

(* one accepted encoding per typed value *)
Corollary codec_one_encoding t b1 b2 v :
  cty_ok t = true -> bytes_ok b1 -> bytes_ok b2 -> tdec_bytes t b1 = Ok v -> tdec_bytes t b2 = Ok v -> b1 = b2.
Proof.
  intros Hok H1 H2 D1 D2. apply codec_canonical_bytes in D1 as [E1 _]; try assumption.
  apply codec_canonical_bytes in D2 as [E2 _]; try assumption. congruence.
Qed.

(* never past the declared input: what a successful typed decode consumed is a prefix of the input *)
Corollary codec_reads_within t top b v rest :
  cty_ok t = true -> bytes_ok b -> tdec t top b = Ok (v, rest) ->
  exists e, b = e ++ rest /\ (length e + length rest = length b)%nat.
Proof.
  intros Hok Hb Hd. destruct (codec_canonical t top b v rest Hok Hb Hd) as (e & _ & Hbe & _).
  exists e. split; [exact Hbe|]. rewrite Hbe, app_length. reflexivity.
Qed.

(* ---------- intsize / headsize: the number of length bytes is minimal, for every uint64 ---------- *)
Lemma intsize_loop_spec : forall (k f : nat) i s, (1 <= k <= f)%nat ->
  256 ^ N.of_nat (pred k) <= i \/ (k = 1%nat) -> i < 256 ^ N.of_nat k ->
  intsize_loop f i s = s + N.of_nat (pred k).
Proof.
  induction k as [|k IH]; intros f i s Hk Hlo Hhi; [lia|].
  destruct f as [|f]; [lia|]. cbn [intsize_loop pred].
  destruct k as [|k].
  - change (256 ^ N.of_nat 1) with 256 in Hhi. rewrite N.div_small by lia. cbn. lia.
  - destruct Hlo as [Hlo|]; [|lia]. cbn [pred] in Hlo.
    assert (E1 : 256 ^ N.of_nat (S k) = 256 * 256 ^ N.of_nat k) by (rewrite Nat2N.inj_succ, N.pow_succ_r'; reflexivity).
    assert (E2 : 256 ^ N.of_nat (S (S k)) = 256 * 256 ^ N.of_nat (S k)) by (rewrite (Nat2N.inj_succ (S k)), N.pow_succ_r'; reflexivity).
    assert (Hp : 0 < 256 ^ N.of_nat k) by (apply N.neq_0_lt_0, N.pow_nonzero; lia).
    assert (Hd1 : 256 ^ N.of_nat k <= i / 256) by (apply N.div_le_lower_bound; lia).
    assert (Hd2 : i / 256 < 256 ^ N.of_nat (S k)) by (apply N.div_lt_upper_bound; lia).
    destruct (N.eqb_spec (i / 256) 0) as [Z|_]; [lia|].
    rewrite (IH f (i / 256) (s + 1)); [cbn [pred]; lia | lia | left; exact Hd1 | exact Hd2].
Qed.

Theorem intsize_minimal n : 0 < n < 2 ^ 64 ->
  intsize n = len (beb n) /\ 1 <= intsize n <= 8 /\ 256 ^ (intsize n - 1) <= n < 256 ^ intsize n.
Proof.
  intros [H0 H64]. set (k := length (beb n)).
  assert (Hne : beb n <> []) by (apply beb_nonzero; lia).
  assert (Hk8 : (k <= 8)%nat) by (apply beb_length; exact H64).
  assert (Hk1 : (1 <= k)%nat) by (unfold k; destruct (beb n); [congruence | simpl; lia]).
  pose proof (bev_lower (beb n) (beb_ok n) Hne (beb_hd n)) as Hlo. rewrite bev_beb in Hlo. fold k in Hlo.
  pose proof (bev_bound (beb n) (beb_ok n)) as Hhi. rewrite bev_beb in Hhi. fold k in Hhi.
  assert (E : intsize n = N.of_nat k).
  { unfold intsize. rewrite (intsize_loop_spec k 8 n 1); [lia | lia | left; exact Hlo | exact Hhi]. }
  rewrite E. unfold len. fold k. split; [reflexivity|]. split; [lia|].
  replace (N.of_nat k - 1) with (N.of_nat (pred k)) by lia. split; assumption.
Qed.

(* headsize (what listEnd reserves and Stream.Raw skips) is the length of the header the encoder writes *)
Theorem headsize_is_header_length base n : n < 2 ^ 64 -> len (head base n) = headsize n.
Proof.
  intro H. unfold head, headsize. destruct (N.ltb_spec n 56); [reflexivity|].
  destruct (intsize_minimal n ltac:(lia)) as [E _]. rewrite E. unfold len. cbn [length]. lia.
Qed.
