(* C08 typed layer: what the reflection-built decoders/encoders of decode.go / encode.go do for the
   types the node serialises, expressed on item trees (the untyped layer of Model.v).
   Faithfulness claim checked by the harness: for a raw-free type [t], rlp.DecodeBytes(b, &T) succeeds
   with value v  iff  decode_bytes b = Ok i and dec_ty t i = Some v. *)
From Coq Require Import List NArith Lia Bool.
From V.Base Require Import Hex BigEndian.
From V.C08 Require Import Model.
Import ListNotations.
Local Open Scope N_scope.

Inductive ty :=
| TUint (bytes_wide : N)        (* uint8..uint64: 1,2,4,8 *)
| TBig                          (* *big.Int / big.Int *)
| TBool
| TBytes                        (* []byte, string *)
| TByteArr (n : N)              (* [n]byte *)
| TSlice (t : ty)
| TArr (n : nat) (t : ty)
| TStruct (fields : list ty) (tail : option ty)   (* rlp:"tail" slice as last field *)
| TPtr (t : ty)
| TPtrNil (t : ty)              (* rlp:"nil" *)
| TIface
| TRaw.                         (* rlp.RawValue: handled by the stream-level codec of Codec.v only; the
                                   item-tree functions of this file reject it *)

Inductive value :=
| VNum (n : N) | VBool (b : bool) | VBytes (b : bytes) | VList (l : list value) | VNil | VItem (i : item)
| VRaw (b : bytes).

(* kind of the empty value the encoder writes for a nil pointer to [t] (makePtrWriter / nilEncodingKind) *)
Fixpoint nil_is_list (t : ty) : bool :=
  match t with
  | TUint _ | TBig | TBool | TBytes | TByteArr _ | TRaw => false
  | TSlice _ | TArr _ _ | TStruct _ _ | TIface => true
  | TPtr t' | TPtrNil t' => nil_is_list t'
  end.

Definition canon_int (b : bytes) : bool := negb (hd 1 b =? 0).

Fixpoint map_opt {A B : Type} (f : A -> option B) (l : list A) : option (list B) :=
  match l with
  | [] => Some []
  | x :: r => match f x, map_opt f r with
              | Some y, Some ys => Some (y :: ys)
              | _, _ => None
              end
  end.

Fixpoint dec_ty (t : ty) (i : item) {struct t} : option value :=
  match t, i with
  | TUint w, Str b => if canon_int b && (len b <=? w) then Some (VNum (bev b)) else None
  | TBig, Str b => if canon_int b then Some (VNum (bev b)) else None
  | TBool, Str b => match b with [] => Some (VBool false) | [1] => Some (VBool true) | _ => None end
  | TBytes, Str b => Some (VBytes b)
  | TByteArr n, Str b => if len b =? n then Some (VBytes b) else None
  | TSlice t', Lst l => match map_opt (dec_ty t') l with Some vs => Some (VList vs) | None => None end
  | TArr n t', Lst l => if Nat.eqb (length l) n
                        then match map_opt (dec_ty t') l with Some vs => Some (VList vs) | None => None end
                        else None
  | TStruct fs tl, Lst l =>
    match (fix go (fs : list ty) (l : list item) {struct fs} : option (list value) :=
             match fs, l with
             | [], _ => match tl with
                        | None => match l with [] => Some [] | _ => None end
                        | Some t' => match map_opt (dec_ty t') l with Some vs => Some [VList vs] | None => None end
                        end
             | f :: fs', i :: l' => match dec_ty f i, go fs' l' with
                                    | Some v, Some vs => Some (v :: vs)
                                    | _, _ => None
                                    end
             | _ :: _, [] => None
             end) fs l with
    | Some vs => Some (VList vs)
    | None => None
    end
  | TPtr t', _ => dec_ty t' i
  | TPtrNil t', Str [] => if nil_is_list t' then None else Some VNil
  | TPtrNil t', Lst [] => if nil_is_list t' then Some VNil else None
  | TPtrNil t', _ => dec_ty t' i
  | TIface, _ => Some (VItem i)
  | _, _ => None
  end.

Definition nil_item (t : ty) : item := if nil_is_list t then Lst [] else Str [].
Definition is_empty_item (i : item) : bool :=
  match i with Str [] => true | Lst [] => true | _ => false end.

Fixpoint enc_ty (t : ty) (v : value) {struct t} : option item :=
  match t, v with
  | TUint w, VNum n => if n <? 256 ^ w then Some (Str (beb n)) else None
  | TBig, VNum n => Some (Str (beb n))
  | TBool, VBool b => Some (Str (if b then [1] else []))
  | TBytes, VBytes b => Some (Str b)
  | TByteArr n, VBytes b => if len b =? n then Some (Str b) else None
  | TSlice t', VList l => match map_opt (enc_ty t') l with Some is => Some (Lst is) | None => None end
  | TArr n t', VList l => if Nat.eqb (length l) n
                          then match map_opt (enc_ty t') l with Some is => Some (Lst is) | None => None end
                          else None
  | TStruct fs tl, VList l =>
    match (fix go (fs : list ty) (l : list value) {struct fs} : option (list item) :=
             match fs, l with
             | [], _ => match tl, l with
                        | None, [] => Some []
                        | Some t', [VList vs] => map_opt (enc_ty t') vs
                        | _, _ => None
                        end
             | f :: fs', v :: l' => match enc_ty f v, go fs' l' with
                                    | Some i, Some is => Some (i :: is)
                                    | _, _ => None
                                    end
             | _ :: _, [] => None
             end) fs l with
    | Some is => Some (Lst is)
    | None => None
    end
  | TPtr t', _ => enc_ty t' v
  | TPtrNil t', VNil => Some (nil_item t')
  | TPtrNil t', _ => match enc_ty t' v with
                     | Some i => if is_empty_item i then None else Some i
                     | None => None
                     end
  | TIface, VItem i => Some i
  | _, _ => None
  end.

(* typed API on bytes *)
Definition decode_typed (t : ty) (b : bytes) : option value :=
  match decode_bytes b with
  | Ok i => dec_ty t i
  | Err _ => None
  end.
Definition encode_typed (t : ty) (v : value) : option bytes :=
  match enc_ty t v with Some i => Some (encode i) | None => None end.

Fixpoint value_eqb (a b : value) : bool :=
  match a, b with
  | VNum x, VNum y => x =? y
  | VBool x, VBool y => Bool.eqb x y
  | VBytes x, VBytes y => bytes_eqb x y
  | VNil, VNil => true
  | VItem x, VItem y => item_eqb x y
  | VRaw x, VRaw y => bytes_eqb x y
  | VList x, VList y =>
    (fix go (x y : list value) : bool :=
       match x, y with
       | [], [] => true
       | a :: x', b :: y' => value_eqb a b && go x' y'
       | _, _ => false
       end) x y
  | _, _ => false
  end.

(* type descriptors the reflection layer can produce: a pointer never points to a nil-tagged pointer *)
Fixpoint ty_ok (t : ty) : bool :=
  match t with
  | TUint w => (w =? 1) || (w =? 2) || (w =? 4) || (w =? 8)
  | TBig | TBool | TBytes | TByteArr _ | TIface | TRaw => true
  | TSlice t' | TArr _ t' => ty_ok t'
  | TStruct fs tl => forallb ty_ok fs && match tl with Some t' => ty_ok t' | None => true end
  | TPtr t' | TPtrNil t' => ty_ok t' && match t' with TPtrNil _ => false | _ => true end
  end.
