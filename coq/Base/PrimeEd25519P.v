(* The ed25519 field modulus 2^255 - 19 is prime:
   Pocklington-Lehmer certificate, no axioms, no hypotheses.
   The certificate was produced outside Coq (untrusted; generator at the end of Base/Primes.v): factor
   N-1, take the largest prime powers q^e until their product F satisfies (F+1)^2 > N, search a witness
   for every chosen q, recurse on every chosen q >= 2^16, trial division below.  Coq only checks it:
   [pock_check c = true] is evaluated by the virtual machine (once, at Qed), then [pock_check_sound]
   applies.  Imports only Base/Pocklington.v. *)
From Coq Require Import ZArith Znumtheory List.
From V.Base Require Import Pocklington.
Import ListNotations.
Local Open Scope Z_scope.

(* the ed25519 field modulus 2^255 - 19 *)
Definition ed25519_p : Z :=
  57896044618658097711785492504343953926634992332820282019728792003956564819949.

Example ed25519_p_value : ed25519_p = 2 ^ 255 - 19.
Proof. vm_compute. reflexivity. Qed.

(* cert_ed25519_p : 17 steps *)
Definition cert_ed25519_p : list cert := [
  Pock 57896044618658097711785492504343953926634992332820282019728792003956564819949
    [(74058212732561358302231226437062788676166966415465897661863160754340907, 1, 2)];
  Pock 74058212732561358302231226437062788676166966415465897661863160754340907
    [(31757755568855353, 1, 2); (75445702479781427272750846543864801, 1, 2)];
  Pock 75445702479781427272750846543864801
    [(72106336199, 1, 2); (1919519569386763, 1, 2)];
  Pock 1919519569386763
    [(47, 2, 2); (8574133, 1, 2)];
  Pock 8574133
    [(103, 1, 2); (991, 1, 2)];
  Trial 991;
  Trial 103;
  Trial 47;
  Pock 72106336199
    [(2773320623, 1, 2)];
  Pock 2773320623
    [(569003, 1, 2)];
  Pock 569003
    [(97, 1, 2); (419, 1, 2)];
  Trial 419;
  Trial 97;
  Pock 31757755568855353
    [(4153, 1, 2); (430751, 1, 2)];
  Pock 430751
    [(1723, 1, 2)];
  Trial 1723;
  Trial 4153
].

(* 2^255 - 19 *)
Theorem ed25519_p_prime : prime 57896044618658097711785492504343953926634992332820282019728792003956564819949.
Proof.
  refine (pock_check_sound _ _ (_ : pock_check cert_ed25519_p = true)).
  vm_cast_no_check (@eq_refl bool true).
Qed.
Print Assumptions ed25519_p_prime.

Corollary ed25519_p_prime' : prime ed25519_p.
Proof. exact ed25519_p_prime. Qed.
