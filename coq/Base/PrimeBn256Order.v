(* The node's BN group order (bn256/constants.go Order, C13.Model.curve_order) is prime:
   Pocklington-Lehmer certificate, no axioms, no hypotheses.
   NOTE: src/consensus/groupsig/bn256/constants.go is the original golang.org/x/crypto bn256 parameter
   set (u = 1868033^3), NOT Ethereum's alt_bn128 (for those numbers see Base/PrimeAltBn128.v).
   The certificate was produced outside Coq (untrusted; generator at the end of Base/Primes.v): factor
   N-1, take the largest prime powers q^e until their product F satisfies (F+1)^2 > N, search a witness
   for every chosen q, recurse on every chosen q >= 2^16, trial division below.  Coq only checks it:
   [pock_check c = true] is evaluated by the virtual machine (once, at Qed), then [pock_check_sound]
   applies.  Imports only Base/Pocklington.v. *)
From Coq Require Import ZArith Znumtheory List.
From V.Base Require Import Pocklington.
Import ListNotations.
Local Open Scope Z_scope.

(* bn256/constants.go: Order = 36u^4+36u^3+18u^2+6u+1, u = 1868033^3 (= C13.Model.curve_order) *)
Definition bn256_order : Z :=
  65000549695646603732796438742359905742570406053903786389881062969044166799969.

Example bn256_order_value : let u := 1868033 ^ 3 in
  bn256_order = 36 * u ^ 4 + 36 * u ^ 3 + 18 * u ^ 2 + 6 * u + 1.
Proof. vm_compute. reflexivity. Qed.

(* cert_bn256_order : 10 steps *)
Definition cert_bn256_order : list cert := [
  Pock 65000549695646603732796438742359905742570406053903786389881062969044166799969
    [(1868033, 3, 2); (491513138693455212421542731357, 1, 2)];
  Pock 491513138693455212421542731357
    [(31084817777223324843254663, 1, 2)];
  Pock 31084817777223324843254663
    [(263430659129011227485209, 1, 2)];
  Pock 263430659129011227485209
    [(3658759154569600381739, 1, 2)];
  Pock 3658759154569600381739
    [(71260195429, 1, 2)];
  Pock 71260195429
    [(977, 1, 2); (6473, 1, 2)];
  Trial 6473;
  Trial 977;
  Pock 1868033
    [(7297, 1, 2)];
  Trial 7297
].

(* the node's BN group order (constants.go Order, C13 curve_order) *)
Theorem bn256_order_prime : prime 65000549695646603732796438742359905742570406053903786389881062969044166799969.
Proof.
  refine (pock_check_sound _ _ (_ : pock_check cert_bn256_order = true)).
  vm_cast_no_check (@eq_refl bool true).
Qed.
Print Assumptions bn256_order_prime.

Corollary bn256_order_prime' : prime bn256_order.
Proof. exact bn256_order_prime. Qed.
