(* Ethereum's alt_bn128 (BN254) group order and base-field modulus are prime (for reference: the
   node does NOT use this curve, see Base/PrimeBn256Order.v):
   Pocklington-Lehmer certificates, no axioms, no hypotheses.
   The certificate was produced outside Coq (untrusted; generator at the end of Base/Primes.v): factor
   N-1, take the largest prime powers q^e until their product F satisfies (F+1)^2 > N, search a witness
   for every chosen q, recurse on every chosen q >= 2^16, trial division below.  Coq only checks it:
   [pock_check c = true] is evaluated by the virtual machine (once, at Qed), then [pock_check_sound]
   applies.  Imports only Base/Pocklington.v. *)
From Coq Require Import ZArith Znumtheory List.
From V.Base Require Import Pocklington.
Import ListNotations.
Local Open Scope Z_scope.

(* Ethereum alt_bn128 (BN254) group order r *)
Definition alt_bn128_order : Z :=
  21888242871839275222246405745257275088548364400416034343698204186575808495617.

(* cert_alt_bn128_order : 13 steps *)
Definition cert_alt_bn128_order : list cert := [
  Pock 21888242871839275222246405745257275088548364400416034343698204186575808495617
    [(1670836401704629, 1, 2); (13818364434197438864469338081, 1, 2)];
  Pock 13818364434197438864469338081
    [(65865678001877903, 1, 2)];
  Pock 65865678001877903
    [(639533339, 1, 2)];
  Pock 639533339
    [(853, 1, 2); (1637, 1, 2)];
  Trial 1637;
  Trial 853;
  Pock 1670836401704629
    [(5156902474397, 1, 2)];
  Pock 5156902474397
    [(12048837557, 1, 2)];
  Pock 12048837557
    [(661, 1, 2); (93001, 1, 2)];
  Pock 93001
    [(5, 3, 2); (31, 1, 2)];
  Trial 31;
  Trial 5;
  Trial 661
].

(* Ethereum's alt_bn128 group order *)
Theorem alt_bn128_order_prime : prime 21888242871839275222246405745257275088548364400416034343698204186575808495617.
Proof.
  refine (pock_check_sound _ _ (_ : pock_check cert_alt_bn128_order = true)).
  vm_cast_no_check (@eq_refl bool true).
Qed.
Print Assumptions alt_bn128_order_prime.

Corollary alt_bn128_order_prime' : prime alt_bn128_order.
Proof. exact alt_bn128_order_prime. Qed.

(* Ethereum alt_bn128 (BN254) base-field modulus p *)
Definition alt_bn128_field : Z :=
  21888242871839275222246405745257275088696311157297823662689037894645226208583.

(* cert_alt_bn128_field : 9 steps *)
Definition cert_alt_bn128_field : list cert := [
  Pock 21888242871839275222246405745257275088696311157297823662689037894645226208583
    [(13427688667394608761327070753331941386769, 1, 2)];
  Pock 13427688667394608761327070753331941386769
    [(173171039, 1, 2); (2480874801745591, 1, 2)];
  Pock 2480874801745591
    [(35385462869, 1, 2)];
  Pock 35385462869
    [(1263766531, 1, 2)];
  Pock 1263766531
    [(911, 1, 2); (3557, 1, 2)];
  Trial 3557;
  Trial 911;
  Pock 173171039
    [(13327, 1, 2)];
  Trial 13327
].

(* Ethereum's alt_bn128 base-field modulus *)
Theorem alt_bn128_field_prime : prime 21888242871839275222246405745257275088696311157297823662689037894645226208583.
Proof.
  refine (pock_check_sound _ _ (_ : pock_check cert_alt_bn128_field = true)).
  vm_cast_no_check (@eq_refl bool true).
Qed.
Print Assumptions alt_bn128_field_prime.

Corollary alt_bn128_field_prime' : prime alt_bn128_field.
Proof. exact alt_bn128_field_prime. Qed.
