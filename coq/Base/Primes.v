(* Primality of the group orders / field moduli of the node's curves, proved inside Coq by
   Pocklington-Lehmer certificates (Base/Pocklington.v): no axioms, no hypotheses.  This file only
   re-exports the per-prime files; import the one you need to keep your dependency cone (and the
   coqchk time of its certificate, which coqchk re-evaluates without the virtual machine) small:

     Base/PrimeBn256Order.v   bn256_order_prime   (+ bn256_order_prime' : prime bn256_order)
     Base/PrimeBn256Field.v   bn256_field_prime   (+ ')
     Base/PrimeEd25519Ell.v   ed25519_ell_prime   (+ ')
     Base/PrimeEd25519P.v     ed25519_p_prime     (+ ')
     Base/PrimeAltBn128.v     alt_bn128_order_prime, alt_bn128_field_prime (+ ')
     Base/PrimeBridge.v       Zprime_prime_nat : Znumtheory.prime q -> prime (Z.to_nat q)   (mathcomp)

   NOTE on the BN curve: src/consensus/groupsig/bn256/constants.go is the original golang.org/x/crypto
   bn256 parameter set (u = 1868033^3), NOT Ethereum's alt_bn128.  [bn256_order] / [bn256_field] are the
   node's constants (Order / P of constants.go; C13.Model.curve_order is bn256_order); the alt_bn128
   constants are proved prime as well for reference.

   Each [Pock n [(q, e, a); ...]] step of a certificate says: the q^e divide n-1 and are pairwise
   coprime, their product F satisfies (F+1)^2 > n, every q is proved prime by a later step of the same
   list, a^(n-1) = 1 (mod n) and gcd(a^((n-1)/q) - 1, n) = 1.  [Trial n] is trial division.  About
   1-1.5 s of checking per 256-bit modular exponentiation. *)
From V.Base Require Export Pocklington PrimeBn256Order PrimeBn256Field PrimeEd25519Ell PrimeEd25519P
  PrimeAltBn128.

(* ---- the certificate generator (untrusted; python3 with sympy), for regeneration:
        python3 gen.py cert_name N   prints the Definition of a certificate for the prime N ----

import sys
from math import gcd
from sympy import factorint, isprime
TRIAL_LIMIT = 1 << 16
HINTS = {  # factorisations of n-1 that sympy does not find quickly (checked below)
 2**252 + 27742317777372353535851937790883648493:
   {2: 2, 3: 1, 11: 1, 198211423230930754013084525763697: 1, 276602624281642239937218680557139826668747: 1},
 65000549695646603732796438742359905742825358107623003571877145026864184071783:
   {2: 1, 3: 2, 151: 1, 500393: 1, 1868033: 3, 5332323573263718838033: 1, 1374947842730272154058024133: 1}}
def factor_nm1(n):
    f = HINTS[n] if n in HINTS else factorint(n - 1)
    prod = 1
    for q, e in f.items():
        assert isprime(q); prod *= q ** e
    assert prod == n - 1
    return f
def witness(n, q):
    a = 2
    while not (pow(a, n - 1, n) == 1 and gcd(pow(a, (n - 1) // q, n) - 1, n) == 1):
        a += 1
    return a
def build(n, out, done):
    if n in done: return
    if n < TRIAL_LIMIT:
        done.add(n); out.append(('T', n)); return
    f = factor_nm1(n); chosen = []; F = 1
    for q in sorted(f, key=lambda q: q ** f[q], reverse=True):
        if (F + 1) ** 2 > n: break
        chosen.append(q); F *= q ** f[q]
    assert (F + 1) ** 2 > n
    for q in list(chosen):
        if (F // q ** f[q] + 1) ** 2 > n:
            chosen.remove(q); F //= q ** f[q]
    chosen.sort()
    for q in chosen: build(q, out, done)
    done.add(n); out.append(('P', n, [(q, f[q], witness(n, q)) for q in chosen]))
def coq_cert(name, n):
    out = []; build(n, out, set()); out.reverse()
    lines = ['  Trial %d' % s[1] if s[0] == 'T' else
             '  Pock %d\n    [%s]' % (s[1], '; '.join('(%d, %d, %d)' % t for t in s[2])) for s in out]
    return 'Definition %s : list cert := [\n%s\n].\n' % (name, ';\n'.join(lines))
if __name__ == '__main__':
    print(coq_cert(sys.argv[1], int(sys.argv[2])))
*)
