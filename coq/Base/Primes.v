(* Primality of the group orders / field moduli used by the node's curves, proved inside Coq by
   Pocklington–Lehmer certificates (Base/Pocklington.v): no axioms, no hypotheses.

   The certificates below were produced outside Coq (untrusted) by a small script: factor N-1 (sympy),
   take the largest prime powers q^e until their product F satisfies (F+1)^2 > N, search a witness
   a = 2, 3, ... for every chosen q, recurse on every chosen q >= 2^16, trial division below; emit the
   steps so that every step comes before the steps proving its q's.  Coq only checks them:
   [pock_check c = true] is evaluated by the virtual machine (once, at Qed), then [pock_check_sound]
   applies.  Each [Pock n [(q, e, a); ...]] step says: the q^e divide n-1 and are pairwise coprime,
   their product F satisfies (F+1)^2 > n, every q is proved prime by a later step of the same list,
   a^(n-1) = 1 (mod n) and gcd(a^((n-1)/q) - 1, n) = 1.  [Trial n] is trial division.  About 1 s of
   checking per 256-bit modular exponentiation; the whole file builds in about 25 s.

   NOTE on the BN curve: src/consensus/groupsig/bn256/constants.go is the original golang.org/x/crypto
   bn256 parameter set (u = 1868033^3), NOT Ethereum's alt_bn128.  [bn256_order] / [bn256_field] below
   are the node's constants (Order / P of constants.go; C13.Model.curve_order is bn256_order); the
   alt_bn128 constants are proved prime as well for reference. *)
From Coq Require Import ZArith Znumtheory List.
From V.Base Require Import Pocklington.
Import ListNotations.
Local Open Scope Z_scope.

(* ---- the numbers ---- *)

(* bn256/constants.go: Order = 36u^4+36u^3+18u^2+6u+1, u = 1868033^3 (= C13.Model.curve_order) *)
Definition bn256_order : Z :=
  65000549695646603732796438742359905742570406053903786389881062969044166799969.
(* bn256/constants.go: P = 36u^4+36u^3+24u^2+6u+1 *)
Definition bn256_field : Z :=
  65000549695646603732796438742359905742825358107623003571877145026864184071783.
(* Ethereum alt_bn128 (BN254) group order r and base-field modulus p — not used by the node *)
Definition alt_bn128_order : Z :=
  21888242871839275222246405745257275088548364400416034343698204186575808495617.
Definition alt_bn128_field : Z :=
  21888242871839275222246405745257275088696311157297823662689037894645226208583.
(* ed25519: order of the base point, ell = 2^252 + 27742317777372353535851937790883648493
   (= Z.of_N C16.Model.ell25519), and the field modulus 2^255 - 19 *)
Definition ed25519_ell : Z :=
  7237005577332262213973186563042994240857116359379907606001950938285454250989.
Definition ed25519_p : Z :=
  57896044618658097711785492504343953926634992332820282019728792003956564819949.

Example ed25519_ell_value : ed25519_ell = 2 ^ 252 + 27742317777372353535851937790883648493.
Proof. vm_compute. reflexivity. Qed.
Example ed25519_p_value : ed25519_p = 2 ^ 255 - 19.
Proof. vm_compute. reflexivity. Qed.
Example bn256_order_value : let u := 1868033 ^ 3 in
  bn256_order = 36 * u ^ 4 + 36 * u ^ 3 + 18 * u ^ 2 + 6 * u + 1.
Proof. vm_compute. reflexivity. Qed.
Example bn256_field_value : let u := 1868033 ^ 3 in
  bn256_field = 36 * u ^ 4 + 36 * u ^ 3 + 24 * u ^ 2 + 6 * u + 1.
Proof. vm_compute. reflexivity. Qed.

(* ---- the certificates (generated; see the header) ---- *)

(* cert_bn256_order : 10 steps *)
Definition cert_bn256_order : list cert := [
  Pock 65000549695646603732796438742359905742570406053903786389881062969044166799969
    [(1868033, 3, 2); (491513138693455212421542731357, 1, 2)];
  Pock 491513138693455212421542731357
    [(31084817777223324843254663, 1, 2)];
  Pock 31084817777223324843254663
    [(263430659129011227485209, 1, 2)];
  Pock 263430659129011227485209
    [(3658759154569600381739, 1, 2)];
  Pock 3658759154569600381739
    [(71260195429, 1, 2)];
  Pock 71260195429
    [(977, 1, 2); (6473, 1, 2)];
  Trial 6473;
  Trial 977;
  Pock 1868033
    [(7297, 1, 2)];
  Trial 7297
].

(* cert_bn256_field : 16 steps *)
Definition cert_bn256_field : list cert := [
  Pock 65000549695646603732796438742359905742825358107623003571877145026864184071783
    [(5332323573263718838033, 1, 2); (1374947842730272154058024133, 1, 2)];
  Pock 1374947842730272154058024133
    [(81767558454161, 1, 2)];
  Pock 81767558454161
    [(151573, 1, 2); (6743249, 1, 2)];
  Pock 6743249
    [(421453, 1, 2)];
  Pock 421453
    [(23, 1, 2); (509, 1, 2)];
  Trial 509;
  Trial 23;
  Pock 151573
    [(743, 1, 2)];
  Trial 743;
  Pock 5332323573263718838033
    [(1145258499412310747, 1, 2)];
  Pock 1145258499412310747
    [(572629249706155373, 1, 2)];
  Pock 572629249706155373
    [(13954314497177, 1, 2)];
  Pock 13954314497177
    [(5745221, 1, 2)];
  Pock 5745221
    [(19, 1, 2); (1163, 1, 2)];
  Trial 1163;
  Trial 19
].

(* cert_alt_bn128_order : 13 steps *)
Definition cert_alt_bn128_order : list cert := [
  Pock 21888242871839275222246405745257275088548364400416034343698204186575808495617
    [(1670836401704629, 1, 2); (13818364434197438864469338081, 1, 2)];
  Pock 13818364434197438864469338081
    [(65865678001877903, 1, 2)];
  Pock 65865678001877903
    [(639533339, 1, 2)];
  Pock 639533339
    [(853, 1, 2); (1637, 1, 2)];
  Trial 1637;
  Trial 853;
  Pock 1670836401704629
    [(5156902474397, 1, 2)];
  Pock 5156902474397
    [(12048837557, 1, 2)];
  Pock 12048837557
    [(661, 1, 2); (93001, 1, 2)];
  Pock 93001
    [(5, 3, 2); (31, 1, 2)];
  Trial 31;
  Trial 5;
  Trial 661
].

(* cert_alt_bn128_field : 9 steps *)
Definition cert_alt_bn128_field : list cert := [
  Pock 21888242871839275222246405745257275088696311157297823662689037894645226208583
    [(13427688667394608761327070753331941386769, 1, 2)];
  Pock 13427688667394608761327070753331941386769
    [(173171039, 1, 2); (2480874801745591, 1, 2)];
  Pock 2480874801745591
    [(35385462869, 1, 2)];
  Pock 35385462869
    [(1263766531, 1, 2)];
  Pock 1263766531
    [(911, 1, 2); (3557, 1, 2)];
  Trial 3557;
  Trial 911;
  Pock 173171039
    [(13327, 1, 2)];
  Trial 13327
].

(* cert_ed25519_ell : 10 steps *)
Definition cert_ed25519_ell : list cert := [
  Pock 7237005577332262213973186563042994240857116359379907606001950938285454250989
    [(276602624281642239937218680557139826668747, 1, 2)];
  Pock 276602624281642239937218680557139826668747
    [(19757330305831588566944191468367130476339, 1, 2)];
  Pock 19757330305831588566944191468367130476339
    [(172054593956031949258510691, 1, 2)];
  Pock 172054593956031949258510691
    [(4434155615661930479, 1, 2)];
  Pock 4434155615661930479
    [(1257559732178653, 1, 2)];
  Pock 1257559732178653
    [(531581, 1, 2); (1224481, 1, 2)];
  Pock 1224481
    [(2551, 1, 2)];
  Trial 2551;
  Pock 531581
    [(3797, 1, 2)];
  Trial 3797
].

(* cert_ed25519_p : 17 steps *)
Definition cert_ed25519_p : list cert := [
  Pock 57896044618658097711785492504343953926634992332820282019728792003956564819949
    [(74058212732561358302231226437062788676166966415465897661863160754340907, 1, 2)];
  Pock 74058212732561358302231226437062788676166966415465897661863160754340907
    [(31757755568855353, 1, 2); (75445702479781427272750846543864801, 1, 2)];
  Pock 75445702479781427272750846543864801
    [(72106336199, 1, 2); (1919519569386763, 1, 2)];
  Pock 1919519569386763
    [(47, 2, 2); (8574133, 1, 2)];
  Pock 8574133
    [(103, 1, 2); (991, 1, 2)];
  Trial 991;
  Trial 103;
  Trial 47;
  Pock 72106336199
    [(2773320623, 1, 2)];
  Pock 2773320623
    [(569003, 1, 2)];
  Pock 569003
    [(97, 1, 2); (419, 1, 2)];
  Trial 419;
  Trial 97;
  Pock 31757755568855353
    [(4153, 1, 2); (430751, 1, 2)];
  Pock 430751
    [(1723, 1, 2)];
  Trial 1723;
  Trial 4153
].

(* ---- the theorems ---- *)

(* the node's BN group order (constants.go Order, C13 curve_order) *)
Theorem bn256_order_prime : prime 65000549695646603732796438742359905742570406053903786389881062969044166799969.
Proof.
  refine (pock_check_sound _ _ (_ : pock_check cert_bn256_order = true)).
  vm_cast_no_check (@eq_refl bool true).
Qed.
Print Assumptions bn256_order_prime.

(* the node's BN base-field modulus (constants.go P) *)
Theorem bn256_field_prime : prime 65000549695646603732796438742359905742825358107623003571877145026864184071783.
Proof.
  refine (pock_check_sound _ _ (_ : pock_check cert_bn256_field = true)).
  vm_cast_no_check (@eq_refl bool true).
Qed.
Print Assumptions bn256_field_prime.

(* Ethereum's alt_bn128 group order *)
Theorem alt_bn128_order_prime : prime 21888242871839275222246405745257275088548364400416034343698204186575808495617.
Proof.
  refine (pock_check_sound _ _ (_ : pock_check cert_alt_bn128_order = true)).
  vm_cast_no_check (@eq_refl bool true).
Qed.
Print Assumptions alt_bn128_order_prime.

(* Ethereum's alt_bn128 base-field modulus *)
Theorem alt_bn128_field_prime : prime 21888242871839275222246405745257275088696311157297823662689037894645226208583.
Proof.
  refine (pock_check_sound _ _ (_ : pock_check cert_alt_bn128_field = true)).
  vm_cast_no_check (@eq_refl bool true).
Qed.
Print Assumptions alt_bn128_field_prime.

(* the order of the ed25519 base point (C16 ell25519) *)
Theorem ed25519_ell_prime : prime 7237005577332262213973186563042994240857116359379907606001950938285454250989.
Proof.
  refine (pock_check_sound _ _ (_ : pock_check cert_ed25519_ell = true)).
  vm_cast_no_check (@eq_refl bool true).
Qed.
Print Assumptions ed25519_ell_prime.

(* 2^255 - 19 *)
Theorem ed25519_p_prime : prime 57896044618658097711785492504343953926634992332820282019728792003956564819949.
Proof.
  refine (pock_check_sound _ _ (_ : pock_check cert_ed25519_p = true)).
  vm_cast_no_check (@eq_refl bool true).
Qed.
Print Assumptions ed25519_p_prime.

(* the same statements about the named constants *)
Corollary bn256_order_prime' : prime bn256_order.         Proof. exact bn256_order_prime. Qed.
Corollary bn256_field_prime' : prime bn256_field.         Proof. exact bn256_field_prime. Qed.
Corollary alt_bn128_order_prime' : prime alt_bn128_order. Proof. exact alt_bn128_order_prime. Qed.
Corollary alt_bn128_field_prime' : prime alt_bn128_field. Proof. exact alt_bn128_field_prime. Qed.
Corollary ed25519_ell_prime' : prime ed25519_ell.         Proof. exact ed25519_ell_prime. Qed.
Corollary ed25519_p_prime' : prime ed25519_p.             Proof. exact ed25519_p_prime. Qed.

(* ---- the certificate generator (untrusted; python3 with sympy), for regeneration:
        python3 gen.py cert_name N   prints the Definition of a certificate for the prime N ----

import sys
from math import gcd
from sympy import factorint, isprime
TRIAL_LIMIT = 1 << 16
HINTS = {  # factorisations of n-1 that sympy does not find quickly (checked below)
 2**252 + 27742317777372353535851937790883648493:
   {2: 2, 3: 1, 11: 1, 198211423230930754013084525763697: 1, 276602624281642239937218680557139826668747: 1},
 65000549695646603732796438742359905742825358107623003571877145026864184071783:
   {2: 1, 3: 2, 151: 1, 500393: 1, 1868033: 3, 5332323573263718838033: 1, 1374947842730272154058024133: 1}}
def factor_nm1(n):
    f = HINTS[n] if n in HINTS else factorint(n - 1)
    prod = 1
    for q, e in f.items():
        assert isprime(q); prod *= q ** e
    assert prod == n - 1
    return f
def witness(n, q):
    a = 2
    while not (pow(a, n - 1, n) == 1 and gcd(pow(a, (n - 1) // q, n) - 1, n) == 1):
        a += 1
    return a
def build(n, out, done):
    if n in done: return
    if n < TRIAL_LIMIT:
        done.add(n); out.append(('T', n)); return
    f = factor_nm1(n); chosen = []; F = 1
    for q in sorted(f, key=lambda q: q ** f[q], reverse=True):
        if (F + 1) ** 2 > n: break
        chosen.append(q); F *= q ** f[q]
    assert (F + 1) ** 2 > n
    for q in list(chosen):
        if (F // q ** f[q] + 1) ** 2 > n:
            chosen.remove(q); F //= q ** f[q]
    chosen.sort()
    for q in chosen: build(q, out, done)
    done.add(n); out.append(('P', n, [(q, f[q], witness(n, q)) for q in chosen]))
def coq_cert(name, n):
    out = []; build(n, out, set()); out.reverse()
    lines = ['  Trial %d' % s[1] if s[0] == 'T' else
             '  Pock %d\n    [%s]' % (s[1], '; '.join('(%d, %d, %d)' % t for t in s[2])) for s in out]
    return 'Definition %s : list cert := [\n%s\n].\n' % (name, ';\n'.join(lines))
if __name__ == '__main__':
    print(coq_cert(sys.argv[1], int(sys.argv[2])))
*)
