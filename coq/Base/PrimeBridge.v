(* Bridge between the two notions of primality in use: any [Znumtheory.prime] (standard library, over
   Z) is a [prime] in mathcomp's sense (over nat).  [Z.to_nat] is only mentioned, never evaluated, so
   the lemma is usable with 256-bit numbers.  Kept in its own file so that standard-library-only
   consumers of the Prime*.v files do not load mathcomp. *)
From Coq Require Import ZArith Znumtheory.
Set Warnings "-notation-overridden,-ambiguous-paths".
From mathcomp Require Import all_ssreflect zify.
Set Warnings "notation-overridden,ambiguous-paths".
Delimit Scope Z_scope with ZZ.

Lemma Zprime_prime_nat (q : Z) : Znumtheory.prime q -> prime (Z.to_nat q).
Proof.
move=> q_prime; have q2 := Znumtheory.prime_ge_2 q q_prime.
apply/primeP; split; first by lia.
move=> d /dvdnP [c E].
have dq : (Z.of_nat d | q)%ZZ by exists (Z.of_nat c); lia.
have := Znumtheory.prime_divisors q q_prime _ dq.
case=> [|[|[|]]] H; apply/orP; [lia|left|right|lia]; apply/eqP; lia.
Qed.
Print Assumptions Zprime_prime_nat.
