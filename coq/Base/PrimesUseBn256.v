(* How the consumers of "the BN group order is prime" use Base/PrimeBn256Order.v.

   C13 (Props.C13_zr_lagrange, C13_zr_dkg) and C14 (C14_complete, C14_generic) state primality as
   [Znumtheory.prime] over Z; C15 works over an arbitrary [fieldType] and needs mathcomp's [prime] over
   nat to instantiate it with 'F_r.  This file
     (a) gives the primality lemmas in exactly those forms:
           curve_order_prime      : Znumtheory.prime C13.Model.curve_order
           curve_order_prime_nat  : prime (Z.to_nat curve_order)            (mathcomp, never evaluated)
     (b) instantiates headline theorems of C13 and C14 with them, so that the hypothesis is gone.
   Nothing in C13-C15 is modified; a consumer writes e.g. [C13_zr_dkg bn256_order_prime].
   Imports only PrimeBn256Order (+ Pocklington, PrimeBridge).  NOTE: this file imports C13.Props and
   C14.Props, so those files cannot import it (cycle); they import Base/PrimeBn256Order.v (and
   Base/PrimeBridge.v) directly: [bn256_order_prime : prime <literal>] is convertible with
   [Znumtheory.prime curve_order].
   First part: standard-library style (C14); second part: mathcomp style (C13, C15). *)
From Coq Require Import ZArith Znumtheory Bool Lia.
From V.Base Require Import Pocklington PrimeBn256Order.
From V.C14 Require Model Props.
Local Open Scope Z_scope.

(* ========================================================================================== *)
(* C14: BLS verification over the node's BN group order                                        *)

Corollary C14_complete_bn256 : forall sk h, sk mod bn256_order <> 0 -> h mod bn256_order <> 0 ->
  C14.Model.verify_exp bn256_order (C14.Model.pub_exp bn256_order sk) h
    (C14.Model.sign_exp bn256_order sk h) = true.
Proof. exact (C14.Props.C14_complete bn256_order eq_refl bn256_order_prime). Qed.
Print Assumptions C14_complete_bn256.

Corollary C14_generic_bn256 : forall sk alpha beta h1 h2,
  (alpha mod bn256_order <> sk mod bn256_order \/ beta mod bn256_order <> 0) ->
  C14.Model.verify_exp bn256_order (C14.Model.pub_exp bn256_order sk) h1 (alpha * h1 + beta) = true ->
  C14.Model.verify_exp bn256_order (C14.Model.pub_exp bn256_order sk) h2 (alpha * h2 + beta) = true ->
  h1 mod bn256_order = h2 mod bn256_order.
Proof. exact (C14.Props.C14_generic bn256_order eq_refl bn256_order_prime). Qed.
Print Assumptions C14_generic_bn256.


(* ========================================================================================== *)
(* C13 / C15: threshold BLS over the node's BN group order (mathcomp style from here on)       *)

Set Warnings "-notation-overridden,-ambiguous-paths".
From mathcomp Require Import all_ssreflect all_algebra ssrZ.
Set Warnings "notation-overridden,ambiguous-paths".
From V.Base Require Import PrimeBridge.
From V.C13 Require Import Model Bridge Props.
Import GRing.Theory.
Delimit Scope Z_scope with ZZ.
Local Open Scope ring_scope.

(* C13.Model.curve_order is the constant of Base/PrimeBn256Order.v (and of bn256/constants.go) *)
Lemma curve_order_bn256 : curve_order = bn256_order.
Proof. by []. Qed.

(* the hypothesis of C13_zr_lagrange / C13_zr_dkg, proved *)
Lemma curve_order_prime : Znumtheory.prime curve_order.
Proof. exact: bn256_order_prime. Qed.
Print Assumptions curve_order_prime.

(* Base/PrimeBridge.v: any stdlib prime is a mathcomp prime; Z.to_nat is only mentioned, never evaluated *)
Lemma curve_order_prime_nat : prime (Z.to_nat curve_order).
Proof. exact: Zprime_prime_nat curve_order_prime. Qed.
Print Assumptions curve_order_prime_nat.

(* C15 (and the field-generic theorems of C13) quantify over an arbitrary fieldType F; the field the
   node computes in is 'F_r, r = curve_order.  It has exactly r elements and characteristic r: *)
Definition Fr : finFieldType := [finFieldType of 'F_(Z.to_nat curve_order)].

Lemma card_Fr : #|Fr| = Z.to_nat curve_order.
Proof. exact: card_Fp curve_order_prime_nat. Qed.

Lemma char_Fr : Z.to_nat curve_order \in [char Fr].
Proof. exact: char_Fp curve_order_prime_nat. Qed.

(* C13_zr_lagrange without the primality hypothesis *)
Corollary C13_zr_lagrange_unconditional : forall (cs xs : seq Z),
  uniq (residues curve_order xs) -> (size cs <= size xs)%N ->
  recover_z curve_order xs (map (share_seckey curve_order cs) xs) = (nth 0 cs 0 mod curve_order)%ZZ.
Proof. exact: C13_zr_lagrange curve_order_prime. Qed.
Print Assumptions C13_zr_lagrange_unconditional.

(* C13_zr_dkg without the primality hypothesis *)
Corollary C13_zr_dkg_unconditional :
  forall (k : nat) (dealers : seq (seq Z)) (ids : seq Z) (sel : seq nat) (h : Z),
  all (fun cs => size cs <= k)%N dealers ->
  uniq (residues curve_order ids) -> uniq sel -> all (fun i => i < size ids)%N sel -> (k <= size sel)%N ->
  (recover_sel (zq curve_order) sel ids
     (map (fun z => (member_key (zq curve_order) dealers z * h) mod curve_order)%ZZ ids)
     mod curve_order)%ZZ
  = ((group_secret (zq curve_order) dealers * h) mod curve_order)%ZZ.
Proof. exact: C13_zr_dkg curve_order_prime. Qed.
Print Assumptions C13_zr_dkg_unconditional.
