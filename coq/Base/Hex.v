(* Shared helpers: byte strings as [list N] (each element < 256), hex literals
   so that harness-written case files stay small and parse fast. *)
From Coq Require Import List NArith String Ascii Bool Lia.
Import ListNotations.
Local Open Scope N_scope.

Definition bytes := list N.

Definition byte_ok (b : N) : Prop := b < 256.
Definition bytes_ok (l : bytes) : Prop := Forall byte_ok l.
Definition bytes_okb (l : bytes) : bool := forallb (fun b => b <? 256) l.

Lemma bytes_okb_spec l : bytes_okb l = true <-> bytes_ok l.
Proof.
  unfold bytes_okb, bytes_ok, byte_ok. rewrite forallb_forall, Forall_forall.
  split; intros H x Hx; specialize (H x Hx); [apply N.ltb_lt | apply N.ltb_lt]; exact H.
Qed.

Definition hexval (c : ascii) : N :=
  let n := N_of_ascii c in
  if (48 <=? n) && (n <=? 57) then n - 48
  else if (97 <=? n) && (n <=? 102) then n - 87
  else if (65 <=? n) && (n <=? 70) then n - 55
  else 0.

Fixpoint unhex (s : string) : bytes :=
  match s with
  | String a (String b r) => (16 * hexval a + hexval b) :: unhex r
  | _ => []
  end.

Definition hexdigit (n : N) : ascii :=
  if n <? 10 then ascii_of_N (48 + n) else ascii_of_N (87 + n).

Fixpoint hex (l : bytes) : string :=
  match l with
  | [] => EmptyString
  | b :: r => String (hexdigit (b / 16)) (String (hexdigit (b mod 16)) (hex r))
  end.

Fixpoint bytes_eqb (a b : bytes) : bool :=
  match a, b with
  | [], [] => true
  | x :: a', y :: b' => (x =? y) && bytes_eqb a' b'
  | _, _ => false
  end.

Lemma bytes_eqb_eq a b : bytes_eqb a b = true <-> a = b.
Proof.
  revert b; induction a as [|x a IH]; intros [|y b]; simpl; split; intro H;
    try reflexivity; try discriminate.
  - apply andb_true_iff in H as [H1 H2]. apply N.eqb_eq in H1. apply IH in H2. congruence.
  - inversion H; subst. apply andb_true_iff; split; [apply N.eqb_refl | apply IH; reflexivity].
Qed.

(* big-endian natural number of a byte string *)
Fixpoint be_val_acc (acc : N) (l : bytes) : N :=
  match l with
  | [] => acc
  | b :: r => be_val_acc (acc * 256 + b) r
  end.
Definition be_val (l : bytes) : N := be_val_acc 0 l.

(* minimal big-endian bytes of n (empty for 0); fuel-free via positive recursion *)
Fixpoint be_bytes_fuel (fuel : nat) (n : N) (acc : bytes) : bytes :=
  match fuel with
  | O => acc
  | S f => if n =? 0 then acc else be_bytes_fuel f (n / 256) ((n mod 256) :: acc)
  end.
Definition be_bytes (n : N) : bytes := be_bytes_fuel (S (N.to_nat (N.log2 n))) n [].
