(* How the consumer of "ell is prime" (C16, field [ell_prime] of Vrf.World, stated as
   [Znumtheory.prime] over Z) uses Base/PrimeEd25519Ell.v:
       ell25519_prime : Znumtheory.prime (Z.of_N C16.Model.ell25519)
   and headline theorems of C16 instantiated at a World whose [ell] is the real order, so that no
   primality hypothesis is left.  Standard library only; imports only PrimeEd25519Ell (+ Pocklington).
   Nothing in C16 is modified.  NOTE: this file imports C16.Props, so C16's own files cannot import it
   (cycle); they import Base/PrimeEd25519Ell.v directly and copy the two-line lemma below. *)
From Coq Require Import ZArith Znumtheory Bool Lia Eqdep_dec.
From V.Base Require Import Pocklington PrimeEd25519Ell.
From V.C16 Require Model Vrf Props.
Local Open Scope Z_scope.

(* ========================================================================================== *)
(* C16: the ed25519 group order                                                                *)

Lemma ell25519_Z : Z.of_N C16.Model.ell25519 = ed25519_ell.
Proof. vm_compute. reflexivity. Qed.

(* the value for the field [ell_prime] of a Vrf.World whose [ell] is the model's constant *)
Lemma ell25519_prime : prime (Z.of_N C16.Model.ell25519).
Proof. rewrite ell25519_Z. exact ed25519_ell_prime. Qed.
Print Assumptions ell25519_prime.

(* A World (Vrf.v) for ANY prime l: the cyclic group Z/(8l) — the group structure of the ed25519 curve
   group for l = ell25519 — with base point 8 and simple hash functions.  It generalises VrfInst.toy
   (l = 5) and shows that all World hypotheses hold together at the real order, with [ell_prime]
   discharged by the theorem above instead of being assumed. *)
Section CyclicWorld.
Variable l : Z.
Hypothesis l_prime : prime l.

Let n : Z := 8 * l.
Let l_ge2 : 2 <= l. Proof. exact (prime_ge_2 l l_prime). Qed.
Let n_pos : 0 < n. Proof. unfold n. lia. Qed.

Definition cG : Type := { z : Z | (z mod n =? z) = true }.
Lemma cmk_ok z : ((z mod n) mod n =? z mod n) = true.
Proof. apply Z.eqb_eq. apply Z.mod_mod. lia. Qed.
Definition cmk (z : Z) : cG := exist _ (z mod n) (cmk_ok z).
Definition cval (a : cG) : Z := proj1_sig a.

Lemma cG_eq (a b : cG) : cval a = cval b -> a = b.
Proof.
  destruct a as [x Hx], b as [y Hy]. cbn [cval proj1_sig]. intro E. subst y. f_equal.
  apply UIP_dec. apply bool_dec.
Qed.
Lemma cval_mk z : cval (cmk z) = z mod n.
Proof. reflexivity. Qed.
Lemma cval_canon a : cval a mod n = cval a.
Proof. destruct a as [x Hx]. cbn [cval proj1_sig]. apply Z.eqb_eq. exact Hx. Qed.

Definition cadd (a b : cG) : cG := cmk (cval a + cval b).
Definition cneg (a : cG) : cG := cmk (- cval a).
Definition csmul (k : Z) (a : cG) : cG := cmk (k * cval a).
Definition ceqb (a b : cG) : bool := cval a =? cval b.

Lemma ceqb_spec a b : ceqb a b = true <-> a = b.
Proof. unfold ceqb. rewrite Z.eqb_eq. split; [apply cG_eq | intros ->; reflexivity]. Qed.

Ltac cg := intros; apply cG_eq; unfold cadd, cneg, csmul; rewrite ?cval_mk.

Lemma cadd_assoc a b c : cadd a (cadd b c) = cadd (cadd a b) c.
Proof. cg. rewrite Z.add_mod_idemp_r, Z.add_mod_idemp_l by lia. f_equal. lia. Qed.
Lemma cadd_comm a b : cadd a b = cadd b a.
Proof. cg. f_equal. lia. Qed.
Lemma cadd_0_l a : cadd (cmk 0) a = a.
Proof. cg. rewrite Z.mod_0_l, Z.add_0_l by lia. apply cval_canon. Qed.
Lemma cadd_neg_r a : cadd a (cneg a) = cmk 0.
Proof. cg. rewrite Z.add_mod_idemp_r by lia. f_equal. lia. Qed.
Lemma csmul_add_l j k P : csmul (j + k) P = cadd (csmul j P) (csmul k P).
Proof. cg. rewrite <- Z.add_mod by lia. f_equal. lia. Qed.
Lemma csmul_add_r k P Q : csmul k (cadd P Q) = cadd (csmul k P) (csmul k Q).
Proof. cg. rewrite <- Z.add_mod by lia. rewrite Z.mul_mod_idemp_r by lia. f_equal. lia. Qed.
Lemma csmul_mul j k P : csmul (j * k) P = csmul j (csmul k P).
Proof. cg. rewrite Z.mul_mod_idemp_r by lia. f_equal. lia. Qed.
Lemma csmul_1 P : csmul 1 P = P.
Proof. cg. rewrite Z.mul_1_l. apply cval_canon. Qed.

Lemma corder P : csmul (8 * l) P = cmk 0.
Proof. cg. fold n. rewrite Z.mul_comm, Z.mod_mul by lia. symmetry. apply Z.mod_0_l. lia. Qed.

Lemma eight_mod : 8 mod n = 8.
Proof. apply Z.mod_small. unfold n. lia. Qed.

Lemma cB_order k : csmul k (cmk 8) = cmk 0 <-> (l | k).
Proof.
  split.
  - intro H. apply (f_equal cval) in H. unfold csmul in H. rewrite !cval_mk in H.
    rewrite eight_mod, Z.mod_0_l in H by lia. apply Z.mod_divide in H; [|lia].
    destruct H as [q Hq]. exists q. unfold n in Hq. lia.
  - intros [q ->]. cg. rewrite eight_mod, Z.mod_0_l by lia.
    replace (q * l * 8) with (q * n) by (unfold n; lia). apply Z.mod_mul. lia.
Qed.

Lemma ccyclic P : csmul l P = cmk 0 -> exists k, P = csmul k (cmk 8).
Proof.
  intro H. apply (f_equal cval) in H. unfold csmul in H. rewrite !cval_mk in H.
  rewrite Z.mod_0_l in H by lia. apply Z.mod_divide in H; [|lia].
  destruct H as [q Hq]. exists q. cg. rewrite eight_mod.
  replace (q * 8) with (cval P) by (unfold n in Hq; nia). symmetry. apply cval_canon.
Qed.

(* hash functions: messages are integers; the challenge hash ranges over [0, l) *)
Definition cE (Y : cG) (m : Z) : cG := cmk (2 * cval Y + m + 1).
Definition cHc (a b c d : cG) : Z := (cval a + 3 * cval b + 5 * cval c + 7 * cval d + 1) mod l.
Definition cnonce (t : Z) (H : cG) : Z := t + cval H.

Lemma cHc_range a b c d : 0 <= cHc a b c d < l.
Proof. unfold cHc. apply Z.mod_pos_bound. lia. Qed.
Lemma cbound_l : 0 < l <= l.
Proof. lia. Qed.

Definition cyclic_world : Vrf.World := {|
  Vrf.G := cG; Vrf.zero := cmk 0; Vrf.add := cadd; Vrf.neg := cneg; Vrf.smul := csmul;
  Vrf.geqb := ceqb; Vrf.geqb_spec := ceqb_spec;
  Vrf.add_assoc := cadd_assoc; Vrf.add_comm := cadd_comm; Vrf.add_0_l := cadd_0_l;
  Vrf.add_neg_r := cadd_neg_r;
  Vrf.smul_add_l := csmul_add_l; Vrf.smul_add_r := csmul_add_r; Vrf.smul_mul := csmul_mul;
  Vrf.smul_1 := csmul_1;
  Vrf.ell := l; Vrf.ell_prime := l_prime; Vrf.order8l := corder;
  Vrf.B := cmk 8; Vrf.B_order := cB_order; Vrf.cyclic := ccyclic;
  Vrf.Msg := Z; Vrf.E := cE; Vrf.Hc := cHc; Vrf.cbound := l; Vrf.cbound_ok := cbound_l;
  Vrf.Hc_range := cHc_range; Vrf.nonce := cnonce
|}.

End CyclicWorld.

(* the World at the real ed25519 order: ell is the model's constant, its primality is proved *)
Definition W25519 : Vrf.World := cyclic_world (Z.of_N C16.Model.ell25519) ell25519_prime.

Example W25519_ell : Vrf.ell W25519 = Z.of_N C16.Model.ell25519.
Proof. reflexivity. Qed.

(* headline theorems of C16 at the real order: no primality hypothesis is left *)
Example C16_complete_at_ell25519 : forall (x t : Z) (m : Vrf.Msg W25519),
  Vrf.verify W25519 (Vrf.pubkey W25519 x) (Vrf.prove W25519 x t m) m = true.
Proof. exact (C16.Props.C16_complete W25519). Qed.
Print Assumptions C16_complete_at_ell25519.

Example C16_output_unique_cofactor_at_ell25519 :
  forall (x : Z) (m : Vrf.Msg W25519) (p1 p2 : Vrf.proof W25519),
  Vrf.verify W25519 (Vrf.pubkey W25519 x) p1 m = true ->
  Vrf.verify W25519 (Vrf.pubkey W25519 x) p2 m = true ->
  Vrf.output_cof W25519 p1 = Vrf.output_cof W25519 p2 \/
  Vrf.lucky_hit W25519 x m p1 \/ Vrf.lucky_hit W25519 x m p2.
Proof. exact (C16.Props.C16_output_unique_cofactor W25519). Qed.
Print Assumptions C16_output_unique_cofactor_at_ell25519.
