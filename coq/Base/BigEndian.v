(* Big-endian / little-endian digit strings in base 256 and their canonical-form lemmas. *)
From Coq Require Import List NArith Lia Bool.
From V.Base Require Import Hex.
Import ListNotations.
Local Open Scope N_scope.

Fixpoint le_val (l : bytes) : N :=
  match l with
  | [] => 0
  | d :: r => d + 256 * le_val r
  end.

Fixpoint le_digits (fuel : nat) (n : N) : bytes :=
  match fuel with
  | O => []
  | S f => if n =? 0 then [] else (n mod 256) :: le_digits f (n / 256)
  end.

Definition bev (l : bytes) : N := le_val (rev l).
Definition beb (n : N) : bytes := rev (le_digits (S (N.to_nat (N.log2 n))) n).

Lemma le_digits_0 f : le_digits f 0 = [].
Proof. destruct f; reflexivity. Qed.

Lemma le_digits_ok f n : bytes_ok (le_digits f n).
Proof.
  revert n; induction f as [|f IH]; intros n; simpl; [constructor|].
  destruct (n =? 0); [constructor|]. constructor; [|apply IH].
  unfold byte_ok. apply N.mod_lt. lia.
Qed.

Lemma le_val_digits f n : n < 256 ^ N.of_nat f -> le_val (le_digits f n) = n.
Proof.
  revert n; induction f as [|f IH]; intros n Hn.
  - simpl in *. assert (n = 0) by lia. subst. reflexivity.
  - cbn [le_digits]. destruct (N.eqb_spec n 0) as [->|Hz]; [reflexivity|].
    cbn [le_val]. rewrite IH.
    + pose proof (N.div_mod n 256). lia.
    + rewrite Nat2N.inj_succ, N.pow_succ_r' in Hn.
      apply N.div_lt_upper_bound; lia.
Qed.

Lemma le_digits_last f n : n < 256 ^ N.of_nat f -> last (le_digits f n) 1 <> 0.
Proof.
  revert n; induction f as [|f IH]; intros n Hn; [simpl; lia|].
  cbn [le_digits]. destruct (N.eqb_spec n 0) as [->|Hz]; [simpl; lia|].
  assert (Hq : n / 256 < 256 ^ N.of_nat f).
  { rewrite Nat2N.inj_succ, N.pow_succ_r' in Hn. apply N.div_lt_upper_bound; lia. }
  specialize (IH _ Hq).
  destruct (le_digits f (n / 256)) as [|d r] eqn:E.
  - simpl. pose proof (le_val_digits f (n / 256) Hq) as Hv. rewrite E in Hv. simpl in Hv.
    pose proof (N.div_mod n 256). lia.
  - change (last (n mod 256 :: d :: r) 1) with (last (d :: r) 1). exact IH.
Qed.

Lemma le_digits_length f n : n < 256 ^ N.of_nat f -> forall k, n < 256 ^ N.of_nat k -> (length (le_digits f n) <= k)%nat.
Proof.
  revert n; induction f as [|f IH]; intros n Hn k Hk; [simpl; lia|].
  cbn [le_digits]. destruct (N.eqb_spec n 0) as [->|Hz]; [simpl; lia|].
  destruct k as [|k]; [simpl in Hk; lia|].
  simpl length. apply le_n_S. apply IH.
  - rewrite Nat2N.inj_succ, N.pow_succ_r' in Hn. apply N.div_lt_upper_bound; lia.
  - rewrite Nat2N.inj_succ, N.pow_succ_r' in Hk. apply N.div_lt_upper_bound; lia.
Qed.

Lemma pow256_gt n : n < 256 ^ N.of_nat (S (N.to_nat (N.log2 n))).
Proof.
  destruct (N.eqb_spec n 0) as [->|Hz]; [simpl; lia|].
  pose proof (N.log2_spec n ltac:(lia)) as [_ Hlt].
  rewrite Nat2N.inj_succ, N2Nat.id.
  eapply N.lt_le_trans; [exact Hlt|].
  change 256 with (2 ^ 8). rewrite <- N.pow_mul_r.
  apply N.pow_le_mono_r; lia.
Qed.

Lemma le_val_zero l : bytes_ok l -> le_val l = 0 -> last l 1 <> 0 -> l = [].
Proof.
  induction l as [|d r IH]; intros Hok Hv Hl; [reflexivity|].
  exfalso. inversion Hok as [|? ? Hd Hr]; subst. cbn [le_val] in Hv.
  assert (d = 0) by lia. assert (Hr0 : le_val r = 0) by lia.
  destruct r as [|d' r'].
  - simpl in Hl. lia.
  - assert (d' :: r' = []) by (apply IH; auto). discriminate.
Qed.

Lemma le_val_inj l1 l2 :
  bytes_ok l1 -> bytes_ok l2 -> last l1 1 <> 0 -> last l2 1 <> 0 ->
  le_val l1 = le_val l2 -> l1 = l2.
Proof.
  revert l2; induction l1 as [|d1 r1 IH]; intros l2 H1 H2 L1 L2 Hv.
  - symmetry. apply le_val_zero; auto.
  - destruct l2 as [|d2 r2].
    + apply le_val_zero; auto.
    + inversion H1 as [|? ? Hd1 Hr1]; inversion H2 as [|? ? Hd2 Hr2]; subst.
      unfold byte_ok in *. cbn [le_val] in Hv.
      assert (d1 = d2) by lia. assert (le_val r1 = le_val r2) by lia. subst d2.
      f_equal. apply IH; auto.
      * destruct r1; [simpl; lia| exact L1].
      * destruct r2; [simpl; lia| exact L2].
Qed.

Lemma bytes_ok_rev l : bytes_ok l -> bytes_ok (rev l).
Proof. unfold bytes_ok. intro H. apply Forall_rev. exact H. Qed.

Lemma bytes_ok_app a b : bytes_ok a -> bytes_ok b -> bytes_ok (a ++ b).
Proof. unfold bytes_ok. intros. apply Forall_app; auto. Qed.

Lemma bytes_ok_app_inv a b : bytes_ok (a ++ b) -> bytes_ok a /\ bytes_ok b.
Proof. unfold bytes_ok. intro H. apply Forall_app in H. exact H. Qed.

Lemma last_rev_hd (l : bytes) d : last (rev l) d = hd d l.
Proof.
  destruct l as [|x r]; [reflexivity|]. simpl. rewrite last_last. reflexivity.
Qed.

(* --- the facts the RLP model uses --- *)
Lemma bev_beb n : bev (beb n) = n.
Proof. unfold bev, beb. rewrite rev_involutive. apply le_val_digits, pow256_gt. Qed.

Lemma beb_ok n : bytes_ok (beb n).
Proof. unfold beb. apply bytes_ok_rev, le_digits_ok. Qed.

Lemma beb_hd n : hd 1 (beb n) <> 0.
Proof.
  unfold beb. rewrite <- last_rev_hd, rev_involutive. apply le_digits_last, pow256_gt.
Qed.

Lemma beb_bev l : bytes_ok l -> hd 1 l <> 0 -> beb (bev l) = l.
Proof.
  intros Hok Hhd. unfold beb, bev.
  assert (E : le_digits (S (N.to_nat (N.log2 (le_val (rev l))))) (le_val (rev l)) = rev l).
  { apply le_val_inj.
    - apply le_digits_ok.
    - apply bytes_ok_rev, Hok.
    - apply le_digits_last, pow256_gt.
    - rewrite last_rev_hd. exact Hhd.
    - apply le_val_digits, pow256_gt. }
  rewrite E. apply rev_involutive.
Qed.

Lemma beb_length n k : n < 256 ^ N.of_nat k -> (length (beb n) <= k)%nat.
Proof.
  intro H. unfold beb. rewrite rev_length. apply le_digits_length; [apply pow256_gt | exact H].
Qed.

Lemma beb_0 : beb 0 = [].
Proof. reflexivity. Qed.

Lemma beb_nonzero n : n <> 0 -> beb n <> [].
Proof.
  intros Hn E. pose proof (bev_beb n) as H. rewrite E in H. compute in H. congruence.
Qed.

Lemma le_val_bound l : bytes_ok l -> le_val l < 256 ^ N.of_nat (length l).
Proof.
  induction l as [|d r IH]; intro H; [simpl; lia|].
  inversion H as [|? ? Hd Hr]; subst. specialize (IH Hr). unfold byte_ok in Hd.
  cbn [le_val length]. rewrite Nat2N.inj_succ, N.pow_succ_r'. lia.
Qed.

Lemma bev_bound l : bytes_ok l -> bev l < 256 ^ N.of_nat (length l).
Proof.
  intro H. unfold bev. rewrite <- (rev_length l). apply le_val_bound, bytes_ok_rev, H.
Qed.

Lemma le_val_lower l : bytes_ok l -> l <> [] -> last l 1 <> 0 -> 256 ^ N.of_nat (pred (length l)) <= le_val l.
Proof.
  induction l as [|d r IH]; intros H Hne Hl; [congruence|].
  inversion H as [|? ? Hd Hr]; subst.
  destruct r as [|d' r'].
  - simpl in *. lia.
  - assert (Hl' : last (d' :: r') 1 <> 0) by exact Hl.
    specialize (IH Hr ltac:(discriminate) Hl').
    cbn [length pred] in *. cbn [le_val]. rewrite Nat2N.inj_succ, N.pow_succ_r'.
    cbn [le_val] in IH. lia.
Qed.

Lemma bev_lower l : bytes_ok l -> l <> [] -> hd 1 l <> 0 -> 256 ^ N.of_nat (pred (length l)) <= bev l.
Proof.
  intros H Hne Hh. unfold bev. rewrite <- (rev_length l). apply le_val_lower.
  - apply bytes_ok_rev, H.
  - intro E. apply Hne. rewrite <- (rev_involutive l), E. reflexivity.
  - rewrite last_rev_hd. exact Hh.
Qed.
