(* Pocklington–Lehmer primality certificates over binary integers, axiom-free, standard library only.

   Contents
     1. prime_no_divisor      : no divisor strictly between 1 and n  ->  Znumtheory.prime n
     2. fermat_little_Z       : Fermat's little theorem in Z (permutation proof)
     3. pow_one_gcd           : the exponents k with a^k = 1 (mod p) are closed under gcd
     4. pock_core             : one Pocklington factor: every prime divisor p of N is 1 modulo q^e
     5. pocklington           : the criterion for a list of (q, e, a) with pairwise coprime q^e
     6. trial / trial_sound   : trial division for small numbers
     7. cert / pock_check / pock_check_sound : executable certificates, proved by vm_compute

   A certificate is a list of steps, each step proving one number prime; a step [Pock n fs] may use as
   prime factors q of n-1 only numbers proved by LATER steps of the same list (the list is checked
   from its tail), so the head of the list is the number of interest.  Nothing here builds a unary
   number: [nat] occurs only as the (abstract, never evaluated) length of a list in the proof of
   Fermat's theorem. *)
From Coq Require Import ZArith Znumtheory Zpow_facts List Lia Bool Permutation.
Import ListNotations.
Local Open Scope Z_scope.

(* ------------------------------------------------------------------------------------------ *)
(* 1. primality from the absence of non-trivial divisors                                       *)

Lemma prime_no_divisor n : 1 < n -> (forall k, 1 < k < n -> ~ (k | n)) -> prime n.
Proof.
  intros Hn H. apply prime_intro; [exact Hn|]. intros k Hk.
  apply Zgcd_1_rel_prime.
  pose proof (Z.gcd_nonneg k n) as G0.
  pose proof (Z.gcd_divide_l k n) as Gl. pose proof (Z.gcd_divide_r k n) as Gr.
  assert (Z.gcd k n <= k) by (apply Z.divide_pos_le; [lia|exact Gl]).
  destruct (Z.eq_dec (Z.gcd k n) 1) as [E|E]; [exact E|].
  assert (Z.gcd k n <> 0).
  { intro E0. rewrite E0 in Gl. apply Z.divide_0_l in Gl. lia. }
  exfalso. apply (H (Z.gcd k n)); [lia|exact Gr].
Qed.

Lemma divide_coprime_mul a b n : rel_prime a b -> (a | n) -> (b | n) -> (a * b | n).
Proof.
  intros R [k Hk] Hb. subst n.
  assert (Hbk : (b | k)).
  { apply Gauss with a; [|apply rel_prime_sym; exact R]. now rewrite Z.mul_comm. }
  destruct Hbk as [j Hj]. exists j. subst k. ring.
Qed.

(* ------------------------------------------------------------------------------------------ *)
(* 2. Fermat's little theorem                                                                  *)

Fixpoint lprod (l : list Z) : Z := match l with [] => 1 | x :: r => x * lprod r end.

Lemma lprod_perm l l' : Permutation l l' -> lprod l = lprod l'.
Proof.
  induction 1; cbn [lprod]; [reflexivity | now rewrite IHPermutation | ring | congruence].
Qed.

Definition range (n : nat) : list Z := map Z.of_nat (seq 1 n).

Lemma in_range n x : In x (range n) <-> 1 <= x <= Z.of_nat n.
Proof.
  unfold range. rewrite in_map_iff. split.
  - intros [k [<- Hk]]. apply in_seq in Hk. lia.
  - intros H. exists (Z.to_nat x). split; [lia|]. apply in_seq. lia.
Qed.

Lemma NoDup_range n : NoDup (range n).
Proof.
  unfold range. apply FinFun.Injective_map_NoDup; [|apply seq_NoDup].
  intros a b. apply Nat2Z.inj.
Qed.

Lemma length_range n : length (range n) = n.
Proof. unfold range. now rewrite map_length, seq_length. Qed.

Lemma NoDup_map_in {A B} (f : A -> B) l :
  (forall x y, In x l -> In y l -> f x = f y -> x = y) -> NoDup l -> NoDup (map f l).
Proof.
  intros Hinj Hnd. induction Hnd as [|x l Hx Hnd IH]; cbn [map]; constructor.
  - rewrite in_map_iff. intros [y [E Hy]].
    apply Hinj in E; [subst; auto | now right | now left].
  - apply IH. intros u v Hu Hv. apply Hinj; now right.
Qed.

Section Fermat.
Variable p : Z.
Hypothesis Hp : prime p.
Variable a : Z.
Hypothesis Ha : ~ (p | a).

Let p_gt1 : 1 < p. Proof. pose proof (prime_ge_2 p Hp). lia. Qed.

Let f (x : Z) : Z := (a * x) mod p.

Lemma not_div_small x : 1 <= x < p -> ~ (p | x).
Proof. intros Hx D. apply Z.divide_pos_le in D; lia. Qed.

Lemma f_range x : 1 <= x < p -> 1 <= f x < p.
Proof.
  intros Hx. unfold f. pose proof (Z.mod_pos_bound (a * x) p ltac:(lia)) as B.
  assert ((a * x) mod p <> 0); [|lia].
  intro E. apply Z.mod_divide in E; [|lia].
  apply prime_mult in E; [|exact Hp]. destruct E as [E|E]; [exact (Ha E)|].
  exact (not_div_small x Hx E).
Qed.

Lemma f_inj x y : 1 <= x < p -> 1 <= y < p -> f x = f y -> x = y.
Proof.
  unfold f. intros Hx Hy E.
  assert (D : (p | a * (x - y))).
  { apply Z.mod_divide; [lia|].
    replace (a * (x - y)) with (a * x - a * y) by ring.
    rewrite Zminus_mod, E, Z.sub_diag. apply Zmod_0_l. }
  apply prime_mult in D; [|exact Hp]. destruct D as [D|D]; [elim (Ha D)|].
  destruct (Z.eq_dec x y) as [|Ne]; [assumption|exfalso].
  apply Z.divide_abs_r in D. apply Z.divide_pos_le in D; lia.
Qed.

Lemma lprod_map_f l : lprod (map f l) mod p = (a ^ Z.of_nat (length l) * lprod l) mod p.
Proof.
  induction l as [|x l IH].
  - cbn [map lprod length]. change (Z.of_nat 0) with 0. rewrite Z.pow_0_r. reflexivity.
  - cbn [map lprod length]. rewrite Nat2Z.inj_succ, Z.pow_succ_r by lia.
    unfold f at 1. rewrite Zmult_mod, Zmod_mod, IH, <- Zmult_mod. f_equal. ring.
Qed.

Lemma rel_prime_lprod l : (forall x, In x l -> 1 <= x < p) -> rel_prime p (lprod l).
Proof.
  induction l as [|x l IH]; intros H; cbn [lprod].
  - apply rel_prime_sym, rel_prime_1.
  - apply rel_prime_mult.
    + apply rel_prime_sym. destruct Hp as [_ Hrp]. apply Hrp, H. now left.
    + apply IH. intros y Hy. apply H. now right.
Qed.

Theorem fermat_little_Z : a ^ (p - 1) mod p = 1.
Proof.
  set (S := range (Z.to_nat (p - 1))).
  assert (HS : forall x, In x S <-> 1 <= x < p).
  { intro x. unfold S. rewrite in_range. lia. }
  assert (Perm : Permutation (map f S) S).
  { apply NoDup_Permutation_bis.
    - apply NoDup_map_in; [|apply NoDup_range].
      intros x y Hx Hy. apply f_inj; now apply HS.
    - rewrite map_length. apply le_n.
    - intros y Hy. apply in_map_iff in Hy. destruct Hy as [x [<- Hx]].
      apply HS, f_range, HS, Hx. }
  pose proof (lprod_map_f S) as E. rewrite (lprod_perm _ _ Perm) in E.
  unfold S at 2 in E. rewrite length_range, Z2Nat.id in E by lia.
  assert (D : (p | (a ^ (p - 1) - 1) * lprod S)).
  { apply Z.mod_divide; [lia|].
    replace ((a ^ (p - 1) - 1) * lprod S) with (a ^ (p - 1) * lprod S - lprod S) by ring.
    rewrite Zminus_mod, <- E, Z.sub_diag. apply Zmod_0_l. }
  rewrite Z.mul_comm in D. apply Gauss in D.
  - apply Zdivide_mod_minus; [lia|exact D].
  - apply rel_prime_lprod. intros x Hx. now apply HS.
Qed.

End Fermat.

(* ------------------------------------------------------------------------------------------ *)
(* 3. exponents of 1 are closed under multiples and gcd                                        *)

Lemma bezout_nonneg k l : 0 < k -> 0 < l ->
  exists u v, 0 <= u /\ 0 <= v /\ u * k = Z.gcd k l + v * l.
Proof.
  intros Hk Hl. destruct (Z.gcd_bezout k l _ eq_refl) as [u [v E]].
  pose proof (Z.gcd_nonneg k l) as G0.
  assert (G1 : Z.gcd k l <= k) by (apply Z.divide_pos_le; [lia|apply Z.gcd_divide_l]).
  revert E G0 G1. generalize (Z.gcd k l). intros g E G0 G1.
  pose proof (Z.abs_spec u) as Hau.
  revert Hau. generalize (Z.abs u). intros au Hau.
  set (t := au + 1).
  assert (Ht : 0 < t) by (unfold t; lia).
  assert (Htl : t * 1 <= t * l) by (apply Z.mul_le_mono_nonneg_l; lia).
  assert (Hu : 1 <= u + t * l) by lia.
  exists (u + t * l), (t * k - v).
  split; [lia|]. split.
  - (* v * l = g - u * k <= t * k * l *)
    assert (k * 1 <= k * (u + t * l)) by (apply Z.mul_le_mono_nonneg_l; lia).
    assert (v * l <= (t * k) * l) by lia.
    assert (v <= t * k) by (apply Z.mul_le_mono_pos_r with l; lia).
    lia.
  - rewrite <- E. ring.
Qed.

Section Order.
Variable p a : Z.
Hypothesis p_gt1 : 1 < p.

Lemma pow_one_mul k c : 0 <= k -> 0 <= c -> a ^ k mod p = 1 -> a ^ (k * c) mod p = 1.
Proof.
  intros Hk Hc H. rewrite Z.pow_mul_r by lia. rewrite Zpower_mod by lia.
  rewrite H, Z.pow_1_l by lia. apply Z.mod_1_l. lia.
Qed.

Lemma pow_one_gcd k l : 0 < k -> 0 < l ->
  a ^ k mod p = 1 -> a ^ l mod p = 1 -> a ^ (Z.gcd k l) mod p = 1.
Proof.
  intros Hk Hl H1 H2. destruct (bezout_nonneg k l Hk Hl) as [u [v [Hu [Hv E]]]].
  pose proof (Z.gcd_nonneg k l) as G0.
  assert (A : a ^ (u * k) mod p = 1) by (rewrite Z.mul_comm; apply pow_one_mul; lia).
  rewrite E, Z.pow_add_r in A by lia.
  rewrite Zmult_mod in A.
  rewrite (Z.mul_comm v l), (pow_one_mul l v) in A by lia.
  rewrite Z.mul_1_r, Zmod_mod in A. exact A.
Qed.

End Order.

(* ------------------------------------------------------------------------------------------ *)
(* 4. one Pocklington factor                                                                   *)

Lemma pock_core N p q e a :
  1 < N -> prime p -> (p | N) -> prime q -> 0 < e -> (q ^ e | N - 1) ->
  a ^ (N - 1) mod N = 1 -> Z.gcd (a ^ ((N - 1) / q) mod N - 1) N = 1 ->
  (q ^ e | p - 1).
Proof.
  intros HN Hp HpN Hq He Hqe Ha Hg.
  pose proof (prime_ge_2 p Hp) as Hp2. pose proof (prime_ge_2 q Hq) as Hq2.
  assert (H1 : a ^ (N - 1) mod p = 1).
  { rewrite (Zmod_div_mod p N) by (try lia; exact HpN). rewrite Ha. apply Z.mod_1_l. lia. }
  assert (H2 : a ^ ((N - 1) / q) mod p <> 1).
  { intro E. rewrite (Zmod_div_mod p N) in E by (try lia; exact HpN).
    apply Zmod_divide_minus in E; [|lia].
    assert (D : (p | 1)) by (rewrite <- Hg; apply Z.gcd_greatest; assumption).
    apply Z.divide_pos_le in D; lia. }
  assert (H3 : ~ (p | a)).
  { intro D. apply Z.mod_divide in D; [|lia].
    rewrite Zpower_mod, D, Z.pow_0_l, Zmod_0_l in H1 by lia. discriminate. }
  pose proof (fermat_little_Z p Hp a H3) as HF.
  set (g := Z.gcd (N - 1) (p - 1)).
  assert (Hgg : a ^ g mod p = 1) by (apply pow_one_gcd; lia).
  destruct (Zdivide_dec (q ^ e) (p - 1)) as [|ND]; [assumption|exfalso].
  destruct (Z.gcd_divide_l (N - 1) (p - 1)) as [h Hh]. fold g in Hh.
  pose proof (Z.gcd_nonneg (N - 1) (p - 1)) as G0. fold g in G0.
  assert (Hh0 : 0 < h) by nia.
  destruct (Zdivide_dec q h) as [[c Hc]|NDh].
  - (* q | h : then g divides (N-1)/q *)
    apply H2. replace ((N - 1) / q) with (g * c).
    + apply pow_one_mul; [lia| nia | lia | exact Hgg].
    + apply Z.div_unique_exact; [lia|]. rewrite Hh, Hc. ring.
  - (* q does not divide h : q^e | g | p-1 *)
    apply ND. apply Z.divide_trans with g; [|apply Z.gcd_divide_r].
    apply Gauss with h.
    + rewrite <- Hh. exact Hqe.
    + apply rel_prime_sym, rel_prime_Zpower_r; [lia|].
      apply rel_prime_sym, prime_rel_prime; assumption.
Qed.

(* ------------------------------------------------------------------------------------------ *)
(* 5. the criterion                                                                            *)

(* every positive divisor of N is 1 modulo F as soon as every prime divisor is *)
Lemma divisors_one_mod N F :
  (forall p, prime p -> (p | N) -> (F | p - 1)) ->
  forall d, 0 <= d -> 0 < d -> (d | N) -> (F | d - 1).
Proof.
  intros HP d Hd0. pattern d. apply Z_lt_induction; [|exact Hd0]. clear d Hd0.
  intros d IH Hd HdN.
  destruct (Z.eq_dec d 1) as [->|Hd1]; [apply Z.divide_0_r|].
  destruct (prime_dec d) as [Pd|NPd]; [now apply HP|].
  destruct (not_prime_divide d ltac:(lia) NPd) as [k [Hk [m Hm]]].
  assert (Hm1 : 1 < m < d) by nia.
  assert (Fk : (F | k - 1)).
  { apply IH; [lia|lia|]. apply Z.divide_trans with d; [exists m; lia|exact HdN]. }
  assert (Fm : (F | m - 1)).
  { apply IH; [lia|lia|]. apply Z.divide_trans with d; [exists k; lia|exact HdN]. }
  replace (d - 1) with ((m - 1) * k + (k - 1)) by (rewrite Hm; ring).
  apply Z.divide_add_r; [apply Z.divide_mul_l|]; assumption.
Qed.

Theorem pocklington_F N F :
  1 < N -> 0 < F -> N < (F + 1) * (F + 1) ->
  (forall p, prime p -> (p | N) -> (F | p - 1)) ->
  prime N.
Proof.
  intros HN HF Hsq HP. apply prime_no_divisor; [exact HN|].
  intros k Hk [m Hm].
  assert (Hm1 : 1 < m < N) by nia.
  assert (Fk : (F | k - 1)).
  { apply (divisors_one_mod N F HP); [lia|lia|exists m; lia]. }
  assert (Fm : (F | m - 1)).
  { apply (divisors_one_mod N F HP); [lia|lia|exists k; lia]. }
  apply Z.divide_pos_le in Fk; [|lia]. apply Z.divide_pos_le in Fm; [|lia].
  nia.
Qed.

(* factor entries (q, e, a): q prime, q^e | N-1, witness a; the q^e pairwise coprime *)
Definition fentry : Type := (Z * Z * Z)%type.

Fixpoint fprod (fs : list fentry) : Z :=
  match fs with [] => 1 | (q, e, _) :: r => q ^ e * fprod r end.

Inductive fentries_ok (N : Z) : list fentry -> Prop :=
| fok_nil : fentries_ok N []
| fok_cons q e a r :
    prime q -> 0 < e -> (q ^ e | N - 1) -> rel_prime (q ^ e) (fprod r) ->
    a ^ (N - 1) mod N = 1 -> Z.gcd (a ^ ((N - 1) / q) mod N - 1) N = 1 ->
    fentries_ok N r -> fentries_ok N ((q, e, a) :: r).

Lemma fentries_prime_divisors N fs : 1 < N -> fentries_ok N fs ->
  0 < fprod fs /\ forall p, prime p -> (p | N) -> (fprod fs | p - 1).
Proof.
  intros HN H. induction H as [|q e a r Hq He Hqe Hrp Ha Hg Hr [IH0 IH]]; cbn [fprod].
  - split; [lia|]. intros. apply Z.divide_1_l.
  - pose proof (prime_ge_2 q Hq). split; [apply Z.mul_pos_pos; [apply Z.pow_pos_nonneg; lia|exact IH0]|].
    intros p Hp HpN. apply divide_coprime_mul; [exact Hrp| |now apply IH].
    apply (pock_core N p q e a); assumption.
Qed.

(* Pocklington–Lehmer: N - 1 has the (partially) factored part F = prod q^e with (F+1)^2 > N
   (in particular F^2 >= N suffices), every q prime with a witness. *)
Theorem pocklington N fs :
  1 < N -> fentries_ok N fs -> N < (fprod fs + 1) * (fprod fs + 1) -> prime N.
Proof.
  intros HN H Hsq. destruct (fentries_prime_divisors N fs HN H) as [F0 HP].
  exact (pocklington_F N (fprod fs) HN F0 Hsq HP).
Qed.

(* the textbook form: the factored part F of N - 1 satisfies F^2 >= N *)
Corollary pocklington_sq N fs :
  1 < N -> fentries_ok N fs -> N <= fprod fs * fprod fs -> prime N.
Proof.
  intros HN H Hsq. apply (pocklington N fs HN H).
  destruct (fentries_prime_divisors N fs HN H) as [F0 _]. nia.
Qed.

(* ------------------------------------------------------------------------------------------ *)
(* 6. trial division                                                                           *)

Definition trial_step (n : Z) (st : Z * bool) : Z * bool :=
  let (d, ok) := st in (d + 1, ok && ((n <? d * d) || negb (n mod d =? 0))).

Definition trial (n : Z) : bool :=
  if 1 <? n then
    let (d, ok) := Pos.iter (trial_step n) (2, true) (Z.to_pos (Z.sqrt n)) in
    ok && (n <? d * d)
  else false.

Lemma trial_sound n : trial n = true -> prime n.
Proof.
  unfold trial. destruct (Z.ltb_spec 1 n) as [Hn|]; [|discriminate].
  set (Inv := fun st : Z * bool =>
     2 <= fst st /\ (snd st = true -> forall k, 2 <= k < fst st -> k * k <= n -> ~ (k | n))).
  assert (HI : Inv (Pos.iter (trial_step n) (2, true) (Z.to_pos (Z.sqrt n)))).
  { apply Pos.iter_invariant.
    - intros [d ok] HI. unfold Inv, trial_step in *. cbn [fst snd] in *. destruct HI as [Hd Hok].
      split; [lia|].
      intros E k Hk Hkk. apply andb_prop in E. destruct E as [E1 E2].
      destruct (Z.eq_dec k d) as [->|Hne].
      + apply orb_prop in E2. destruct E2 as [E2|E2].
        * apply Z.ltb_lt in E2. lia.
        * intro D. apply Z.mod_divide in D; [|lia]. rewrite D in E2. discriminate.
      + apply Hok; [exact E1|lia|exact Hkk].
    - unfold Inv. cbn [fst snd]. split; [lia|]. intros _ k Hk. lia. }
  destruct (Pos.iter (trial_step n) (2, true) (Z.to_pos (Z.sqrt n))) as [d ok].
  unfold Inv in HI. cbn [fst snd] in HI. destruct HI as [Hd Hok].
  intro E. apply andb_prop in E. destruct E as [E1 E2]. apply Z.ltb_lt in E2.
  specialize (Hok E1).
  apply prime_no_divisor; [exact Hn|]. intros k Hk [m Hm].
  assert (Hm1 : 1 < m < n) by nia.
  destruct (Z.le_gt_cases k m) as [Hkm|Hkm].
  - apply (Hok k); [nia|nia|exists m; lia].
  - apply (Hok m); [nia|nia|exists k; lia].
Qed.

(* ------------------------------------------------------------------------------------------ *)
(* 7. executable certificates                                                                  *)

Inductive cert :=
| Trial (n : Z)                         (* n is prime by trial division *)
| Pock (n : Z) (fs : list fentry).      (* n is prime by Pocklington with the entries (q, e, a) *)

Definition cert_N (c : cert) : Z := match c with Trial n => n | Pock n _ => n end.

Fixpoint zmem (x : Z) (l : list Z) : bool :=
  match l with [] => false | y :: r => (x =? y) || zmem x r end.

Lemma zmem_In x l : zmem x l = true -> In x l.
Proof.
  induction l as [|y r IH]; cbn [zmem]; [discriminate|].
  intro E. apply orb_prop in E. destruct E as [E|E]; [left; symmetry; now apply Z.eqb_eq|right; auto].
Qed.

(* modular exponentiation by repeated squaring: Zpow_facts.Zpow_mod, structural on the exponent *)
Definition pow_mod (a k n : Z) : Z := Zpow_mod a k n.

Lemma pow_mod_correct a k n : n <> 0 -> pow_mod a k n = a ^ k mod n.
Proof. apply Zpow_mod_correct. Qed.

(* checks the entries against the already proved primes [known]; returns the product of the q^e *)
Fixpoint check_facs (known : list Z) (n : Z) (fs : list fentry) : option Z :=
  match fs with
  | [] => Some 1
  | (q, e, a) :: r =>
    match check_facs known n r with
    | None => None
    | Some F =>
      let qe := q ^ e in
      let b := pow_mod a ((n - 1) / q) n in
      if (0 <? e) && zmem q known && (Z.gcd qe F =? 1) && ((n - 1) mod qe =? 0)
         && (pow_mod b q n =? 1) && (Z.gcd (b - 1) n =? 1)
      then Some (qe * F) else None
    end
  end.

Definition check_cert (known : list Z) (c : cert) : bool :=
  match c with
  | Trial n => trial n
  | Pock n fs =>
    if 1 <? n then
      match check_facs known n fs with
      | Some F => n <? (F + 1) * (F + 1)
      | None => false
      end
    else false
  end.

Fixpoint pock_check (l : list cert) : bool :=
  match l with
  | [] => true
  | c :: r => if pock_check r then check_cert (map cert_N r) c else false
  end.

Lemma check_facs_sound known n fs F :
  (forall q, In q known -> prime q) -> 1 < n ->
  check_facs known n fs = Some F -> F = fprod fs /\ fentries_ok n fs.
Proof.
  intros HK Hn. revert F. induction fs as [|[[q e] a] r IH]; intros F; cbn [check_facs fprod].
  - intros [= <-]. split; [reflexivity|constructor].
  - destruct (check_facs known n r) as [F'|]; [|discriminate].
    destruct (IH F' eq_refl) as [-> Hr]. clear IH.
    match goal with |- (if ?c then _ else _) = _ -> _ => destruct c eqn:E end; [|discriminate].
    intros [= <-]. split; [reflexivity|].
    repeat (apply andb_prop in E; let E' := fresh "E" in destruct E as [E E']).
    apply Z.ltb_lt in E. apply zmem_In, HK in E4. apply Z.eqb_eq in E3, E2, E1, E0.
    pose proof (prime_ge_2 q E4) as Hq2.
    assert (Hqe : (q ^ e | n - 1)).
    { apply Z.mod_divide; [|exact E2]. apply Z.pow_nonzero; lia. }
    assert (Hq : (q | n - 1)).
    { apply Z.divide_trans with (q ^ e); [apply Zpower_divide; lia|exact Hqe]. }
    rewrite !pow_mod_correct in * by lia.
    constructor; try assumption.
    + apply Zgcd_1_rel_prime. exact E3.
    + rewrite <- Zpower_mod, <- Z.pow_mul_r in E1; try lia.
      * replace ((n - 1) / q * q) with (n - 1) in E1; [exact E1|].
        destruct Hq as [c Hc]. rewrite Hc, Z.div_mul by lia. reflexivity.
      * apply Z.div_pos; lia.
Qed.

Lemma check_cert_sound known c :
  (forall q, In q known -> prime q) -> check_cert known c = true -> prime (cert_N c).
Proof.
  intros HK. destruct c as [n|n fs]; cbn [check_cert cert_N].
  - apply trial_sound.
  - destruct (Z.ltb_spec 1 n) as [Hn|]; [|discriminate].
    destruct (check_facs known n fs) as [F|] eqn:E; [|discriminate].
    destruct (check_facs_sound known n fs F HK Hn E) as [-> Hok].
    intro L. apply Z.ltb_lt in L. exact (pocklington n fs Hn Hok L).
Qed.

Theorem pock_check_all l : pock_check l = true -> forall n, In n (map cert_N l) -> prime n.
Proof.
  induction l as [|c r IH]; cbn [pock_check map]; [intros _ n []|].
  destruct (pock_check r); [|discriminate]. specialize (IH eq_refl).
  intros E n [<-|Hn]; [|now apply IH].
  exact (check_cert_sound _ c IH E).
Qed.

(* the head of a checked certificate is prime *)
Theorem pock_check_sound c r : pock_check (c :: r) = true -> prime (cert_N c).
Proof. intro E. apply (pock_check_all _ E). now left. Qed.

(* any number occurring in a checked certificate is prime *)
Theorem pock_check_mem l n : pock_check l = true -> zmem n (map cert_N l) = true -> prime n.
Proof. intros E M. apply (pock_check_all _ E), zmem_In, M. Qed.

(* the same with the certified number as a function of the certificate *)
Definition certificate : Type := list cert.
Definition certificate_N (l : certificate) : Z := match l with c :: _ => cert_N c | [] => 2 end.

Theorem pock_check_prime (l : certificate) : pock_check l = true -> prime (certificate_N l).
Proof. destruct l as [|c r]; [intros _; exact prime_2|apply pock_check_sound]. Qed.

(* small self-test: 2^16+1 by Pocklington on top of trial division of 2 *)
Example pock_check_65537 : prime 65537.
Proof. apply (pock_check_sound (Pock 65537 [(2, 16, 3)]) [Trial 2]). vm_compute. reflexivity. Qed.

Print Assumptions pocklington.
Print Assumptions pock_check_all.
Print Assumptions pock_check_prime.
