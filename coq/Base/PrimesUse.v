(* How the consumers of "the group order is prime" use the Base/Prime*.v files; this file only
   re-exports the per-curve files (import the one you need):
     Base/PrimesUseBn256.v     C13 / C14 / C15: curve_order_prime, curve_order_prime_nat, Fr,
                               C13_zr_lagrange_unconditional, C13_zr_dkg_unconditional, C14_*_bn256
     Base/PrimesUseEd25519.v   C16: ell25519_prime, cyclic_world, W25519, C16_*_at_ell25519
     Base/PrimeBridge.v        Zprime_prime_nat (stdlib prime -> mathcomp prime) *)
From V.Base Require Export PrimeBridge PrimesUseBn256 PrimesUseEd25519.
From Coq Require Import ZArith.
From mathcomp Require Import ssreflect ssrbool prime.

(* the ed25519 order in mathcomp's sense (needs both PrimesUseEd25519 and the bridge) *)
Lemma ell25519_prime_nat : prime (Z.to_nat (Z.of_N C16.Model.ell25519)).
Proof. exact: Zprime_prime_nat ell25519_prime. Qed.
Print Assumptions ell25519_prime_nat.
