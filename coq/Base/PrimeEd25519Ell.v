(* The order ell of the ed25519 base point (C16.Model.ell25519) is prime:
   Pocklington-Lehmer certificate, no axioms, no hypotheses.
   The certificate was produced outside Coq (untrusted; generator at the end of Base/Primes.v): factor
   N-1, take the largest prime powers q^e until their product F satisfies (F+1)^2 > N, search a witness
   for every chosen q, recurse on every chosen q >= 2^16, trial division below.  Coq only checks it:
   [pock_check c = true] is evaluated by the virtual machine (once, at Qed), then [pock_check_sound]
   applies.  Imports only Base/Pocklington.v. *)
From Coq Require Import ZArith Znumtheory List.
From V.Base Require Import Pocklington.
Import ListNotations.
Local Open Scope Z_scope.

(* order of the ed25519 base point, ell = 2^252 + 27742317777372353535851937790883648493
   (= Z.of_N C16.Model.ell25519) *)
Definition ed25519_ell : Z :=
  7237005577332262213973186563042994240857116359379907606001950938285454250989.

Example ed25519_ell_value : ed25519_ell = 2 ^ 252 + 27742317777372353535851937790883648493.
Proof. vm_compute. reflexivity. Qed.

(* cert_ed25519_ell : 10 steps *)
Definition cert_ed25519_ell : list cert := [
  Pock 7237005577332262213973186563042994240857116359379907606001950938285454250989
    [(276602624281642239937218680557139826668747, 1, 2)];
  Pock 276602624281642239937218680557139826668747
    [(19757330305831588566944191468367130476339, 1, 2)];
  Pock 19757330305831588566944191468367130476339
    [(172054593956031949258510691, 1, 2)];
  Pock 172054593956031949258510691
    [(4434155615661930479, 1, 2)];
  Pock 4434155615661930479
    [(1257559732178653, 1, 2)];
  Pock 1257559732178653
    [(531581, 1, 2); (1224481, 1, 2)];
  Pock 1224481
    [(2551, 1, 2)];
  Trial 2551;
  Pock 531581
    [(3797, 1, 2)];
  Trial 3797
].

(* the order of the ed25519 base point (C16 ell25519) *)
Theorem ed25519_ell_prime : prime 7237005577332262213973186563042994240857116359379907606001950938285454250989.
Proof.
  refine (pock_check_sound _ _ (_ : pock_check cert_ed25519_ell = true)).
  vm_cast_no_check (@eq_refl bool true).
Qed.
Print Assumptions ed25519_ell_prime.

Corollary ed25519_ell_prime' : prime ed25519_ell.
Proof. exact ed25519_ell_prime. Qed.
