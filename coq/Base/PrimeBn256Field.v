(* The node's BN base-field modulus (bn256/constants.go P) is prime:
   Pocklington-Lehmer certificate, no axioms, no hypotheses.
   NOTE: src/consensus/groupsig/bn256/constants.go is the original golang.org/x/crypto bn256 parameter
   set (u = 1868033^3), NOT Ethereum's alt_bn128 (for those numbers see Base/PrimeAltBn128.v).
   The certificate was produced outside Coq (untrusted; generator at the end of Base/Primes.v): factor
   N-1, take the largest prime powers q^e until their product F satisfies (F+1)^2 > N, search a witness
   for every chosen q, recurse on every chosen q >= 2^16, trial division below.  Coq only checks it:
   [pock_check c = true] is evaluated by the virtual machine (once, at Qed), then [pock_check_sound]
   applies.  Imports only Base/Pocklington.v. *)
From Coq Require Import ZArith Znumtheory List.
From V.Base Require Import Pocklington.
Import ListNotations.
Local Open Scope Z_scope.

(* bn256/constants.go: P = 36u^4+36u^3+24u^2+6u+1, u = 1868033^3 *)
Definition bn256_field : Z :=
  65000549695646603732796438742359905742825358107623003571877145026864184071783.

Example bn256_field_value : let u := 1868033 ^ 3 in
  bn256_field = 36 * u ^ 4 + 36 * u ^ 3 + 24 * u ^ 2 + 6 * u + 1.
Proof. vm_compute. reflexivity. Qed.

(* cert_bn256_field : 16 steps *)
Definition cert_bn256_field : list cert := [
  Pock 65000549695646603732796438742359905742825358107623003571877145026864184071783
    [(5332323573263718838033, 1, 2); (1374947842730272154058024133, 1, 2)];
  Pock 1374947842730272154058024133
    [(81767558454161, 1, 2)];
  Pock 81767558454161
    [(151573, 1, 2); (6743249, 1, 2)];
  Pock 6743249
    [(421453, 1, 2)];
  Pock 421453
    [(23, 1, 2); (509, 1, 2)];
  Trial 509;
  Trial 23;
  Pock 151573
    [(743, 1, 2)];
  Trial 743;
  Pock 5332323573263718838033
    [(1145258499412310747, 1, 2)];
  Pock 1145258499412310747
    [(572629249706155373, 1, 2)];
  Pock 572629249706155373
    [(13954314497177, 1, 2)];
  Pock 13954314497177
    [(5745221, 1, 2)];
  Pock 5745221
    [(19, 1, 2); (1163, 1, 2)];
  Trial 1163;
  Trial 19
].

(* the node's BN base-field modulus (constants.go P) *)
Theorem bn256_field_prime : prime 65000549695646603732796438742359905742825358107623003571877145026864184071783.
Proof.
  refine (pock_check_sound _ _ (_ : pock_check cert_bn256_field = true)).
  vm_cast_no_check (@eq_refl bool true).
Qed.
Print Assumptions bn256_field_prime.

Corollary bn256_field_prime' : prime bn256_field.
Proof. exact bn256_field_prime. Qed.
