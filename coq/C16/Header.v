(* C16 — the header level: the VRF message genVrfMsg(preBH.Random, delta) (a hash chain of delta - 1
   rounds over the Random bytes) and what each consumer of the header's prove value reads when the
   value is longer than 80 bytes.  Model and proofs (small). *)
From Coq Require Import List NArith ZArith Bool Lia.
From V.Base Require Import Hex BigEndian.
From V.C16 Require Import Model Proofs Sha3.
Import ListNotations.

Section Msg.
Variable Hsh : bytes -> bytes.          (* base.Data2CommonHash(msg).Bytes() *)

Fixpoint hash_iter (n : nat) (m : bytes) : bytes :=
  match n with O => m | S k => hash_iter k (Hsh m) end.

(* msg := random; for delta > 1 { delta--; msg = hash(msg) } *)
Definition gen_vrf_msg (random : bytes) (delta : Z) : bytes := hash_iter (Z.to_nat (delta - 1)) random.

Lemma gen_vrf_msg_small random delta : (delta <= 1)%Z -> gen_vrf_msg random delta = random.
Proof. intro H. unfold gen_vrf_msg. replace (Z.to_nat (delta - 1)) with O by lia. reflexivity. Qed.

Lemma hash_iter_snoc n m : hash_iter (S n) m = Hsh (hash_iter n m).
Proof. revert m. induction n as [|n IH]; intro m; [reflexivity|]. cbn [hash_iter] in *. rewrite <- IH. reflexivity. Qed.

Lemma gen_vrf_msg_step random delta : (1 <= delta)%Z ->
  gen_vrf_msg random (delta + 1) = Hsh (gen_vrf_msg random delta).
Proof.
  intro H. unfold gen_vrf_msg. replace (Z.to_nat (delta + 1 - 1)) with (S (Z.to_nat (delta - 1))) by lia.
  apply hash_iter_snoc.
Qed.

(* the message is a function of the VALUES (Random bytes, delta) and nothing else: two headers with
   equal Random bytes and equal delta give the same message, whatever else happened before *)
Lemma gen_vrf_msg_function r1 r2 d1 d2 : r1 = r2 -> d1 = d2 -> gen_vrf_msg r1 d1 = gen_vrf_msg r2 d2.
Proof. intros -> ->. reflexivity. Qed.
End Msg.

Definition gen_vrf_msg_sha3 : bytes -> Z -> bytes := gen_vrf_msg sha3_256.

(* ---- consumers of the header's prove value b = bh.ProveValue.Bytes(), any length ---- *)
(* ECVRFVerify: tryZeroPadding, then decodeProof reads bytes 0..79 (Gamma = 0..31) and ignores the rest *)
Definition verify_reads (b : bytes) : bytes := firstn 80 (pad80 b).
Definition verify_gamma (b : bytes) : bytes := firstn 32 (verify_reads b).
(* validateProve / calcVrfValueRatio: tryZeroPadding, then VRFProof2Hash = first 32 bytes *)
Definition lottery_reads (b : bytes) : bytes := proof2hash (pad80 b).
(* ConsensusHelperImpl.VRFProve2Value: first 32 bytes, no padding *)
Definition helper_reads (b : bytes) : bytes := proof2hash b.

Lemma firstn_firstn_le {A} (l : list A) m n : (m <= n)%nat -> firstn m (firstn n l) = firstn m l.
Proof. intro H. rewrite firstn_firstn. f_equal. lia. Qed.

(* for EVERY header value the verifier's Gamma bytes are the bytes the qualification rule reads *)
Lemma verify_lottery_agree b : verify_gamma b = lottery_reads b.
Proof. unfold verify_gamma, verify_reads, lottery_reads, proof2hash. apply firstn_firstn_le. lia. Qed.

(* for values of 80 bytes or more nobody pads, and the log helper reads the same bytes too *)
Lemma overlong_all_agree b : (80 <= length b)%nat ->
  verify_gamma b = firstn 32 b /\ lottery_reads b = firstn 32 b /\ helper_reads b = firstn 32 b.
Proof.
  intro H. assert (E : pad80 b = b).
  { unfold pad80, pad_to, prove_size. destruct (Nat.leb_spec 80 (length b)); [reflexivity | lia]. }
  rewrite verify_lottery_agree. unfold lottery_reads, helper_reads, proof2hash. rewrite E. auto.
Qed.

(* a proof followed by extra bytes: the verifier sees exactly the proof, the lottery value is the proof's *)
Lemma overlong_suffix (pi junk : bytes) : length pi = 80%nat ->
  verify_reads (pi ++ junk) = pi /\ lottery_reads (pi ++ junk) = proof2hash pi.
Proof.
  intro H. assert (E : pad80 (pi ++ junk) = pi ++ junk).
  { unfold pad80, pad_to, prove_size. rewrite app_length, H.
    destruct (Nat.leb_spec 80 (80 + length junk)); [reflexivity | lia]. }
  unfold verify_reads, lottery_reads, proof2hash. rewrite E. split.
  - rewrite firstn_app. replace (80 - length pi)%nat with O by lia. rewrite firstn_O, app_nil_r.
    apply firstn_all2. lia.
  - rewrite firstn_app. replace (32 - length pi)%nat with O by lia. rewrite firstn_O. apply app_nil_r.
Qed.

(* extra bytes IN FRONT of a proof (the big integer pi + k * 2^640): the verifier reads the junk and the
   head of the proof, not the proof *)
Lemma overlong_prefix (junk pi : bytes) : length pi = 80%nat ->
  verify_reads (junk ++ pi) = firstn 80 (junk ++ pi) /\
  lottery_reads (junk ++ pi) = firstn 32 (junk ++ pi) /\
  ((length junk <= 32)%nat -> lottery_reads (junk ++ pi) = junk ++ firstn (32 - length junk) pi).
Proof.
  intro Hp. assert (E : pad80 (junk ++ pi) = junk ++ pi).
  { unfold pad80, pad_to, prove_size. rewrite app_length, Hp.
    destruct (Nat.leb_spec 80 (length junk + 80)); [reflexivity | lia]. }
  unfold verify_reads, lottery_reads, proof2hash. rewrite E. split; [reflexivity|]. split; [reflexivity|].
  intros H32. rewrite firstn_app. rewrite (firstn_all2 junk) by lia. reflexivity.
Qed.

(* ---- which message a block is verified against ---- *)
(* CalDeltaByTime(after, before) = int(after.Sub(before).Seconds()) / MAX_GROUP_BLOCK_TIME + 1 with Go's
   truncation toward zero in both the float -> int conversion and the integer division; times in ns *)
Definition max_group_block_time : Z := 2.
Definition delta_of (after before : Z) : Z :=
  (Z.quot (Z.quot (after - before) 1000000000) max_group_block_time + 1)%Z.

Record header := {
  h_prove : bytes;        (* ProveValue.Bytes() *)
  h_cur : Z;              (* CurTime, ns *)
  h_pre_time : Z;         (* PreTime, ns: NOT read by the VRF path *)
  h_height : Z;
  h_total_qn : Z;
  h_random : bytes;       (* Random *)
  h_castor : bytes;       (* Castor id: NOT read by the VRF path (the castor's MinerInfo is looked up by the caller) *)
  h_other : bytes         (* everything else *)
}.

Section Block.
Variable Hsh : bytes -> bytes.
Variable V : bytes -> bytes -> bytes -> bool.      (* vrf.VRFVerify pk proof msg *)

(* the message of a block: a function of the PARENT's Random and CurTime and the block's CurTime *)
Definition block_msg (bh pre : header) : bytes :=
  gen_vrf_msg Hsh (h_random pre) (delta_of (h_cur bh) (h_cur pre)).

(* verifyBlockVRF(bh, preBH, castor, totalStake) *)
Definition verify_block_vrf (p : params) (bh pre : header) (pk : bytes) (wm ts : Z) : bool :=
  V pk (h_prove bh) (block_msg bh pre) &&
  match validate_float p (h_prove bh) (h_height bh) wm ts with
  | VR true (QN qn) => (h_total_qn bh =? qn + h_total_qn pre)%Z
  | _ => false
  end.

Lemma verify_block_vrf_reads p bh bh' pre pre' pk wm ts :
  h_prove bh = h_prove bh' -> h_cur bh = h_cur bh' -> h_height bh = h_height bh' ->
  h_total_qn bh = h_total_qn bh' ->
  h_random pre = h_random pre' -> h_cur pre = h_cur pre' -> h_total_qn pre = h_total_qn pre' ->
  verify_block_vrf p bh pre pk wm ts = verify_block_vrf p bh' pre' pk wm ts.
Proof.
  intros E1 E2 E3 E4 E5 E6 E7. unfold verify_block_vrf, block_msg.
  rewrite E1, E2, E3, E4, E5, E6, E7. reflexivity.
Qed.

Lemma verify_block_vrf_binds p bh pre pk wm ts :
  verify_block_vrf p bh pre pk wm ts = true ->
  V pk (h_prove bh) (gen_vrf_msg Hsh (h_random pre) (delta_of (h_cur bh) (h_cur pre))) = true.
Proof. unfold verify_block_vrf, block_msg. intro H. apply andb_prop in H. tauto. Qed.
End Block.
