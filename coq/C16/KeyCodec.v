(* C16 — the hex text a VRF key travels through (VRFPublicKey.GetHexString = common.ToHex,
   Hex2VRFPublicKey = common.FromHex; gx MinerRaw.VrfPk, genesis proposer lists) and the worker's
   message selection.  Fixed-width hex: two digits per byte, so the round trip preserves every key,
   in particular its length and its leading zero bytes. *)
From Coq Require Import List NArith ZArith Bool Lia String Ascii.
From V.Base Require Import Hex BigEndian.
From V.C16 Require Import Model Sha3 Header.
Import ListNotations.
Local Open Scope string_scope.

(* common.ToHex: "0x" + two hex digits per byte ("0x0" for the empty slice) *)
Definition to_hex (b : bytes) : string :=
  "0x" ++ match b with [] => "0" | _ => hex b end.

(* common.FromHex: strip 0x / 0X, left-pad an odd number of digits with one 0, decode pairs *)
Definition strip0x (s : string) : string :=
  match s with
  | String "0" (String "x" r) => r
  | String "0" (String "X" r) => r
  | _ => s
  end.
Definition from_hex (s : string) : bytes :=
  if Nat.leb (String.length s) 1 then [] else
  let r := strip0x s in
  if Nat.odd (String.length r) then unhex (String "0" r) else unhex r.

Lemma hexdigit_val_all : forallb (fun n => (hexval (hexdigit n) =? n)%N) (map N.of_nat (seq 0 16)) = true.
Proof. vm_compute. reflexivity. Qed.

Lemma hexval_hexdigit n : (n < 16)%N -> hexval (hexdigit n) = n.
Proof.
  intro H. pose proof hexdigit_val_all as A. rewrite forallb_forall in A.
  apply N.eqb_eq. apply A. apply in_map_iff. exists (N.to_nat n). split; [lia|].
  apply in_seq. lia.
Qed.

Lemma unhex_hex (l : bytes) : bytes_ok l -> unhex (hex l) = l.
Proof.
  induction 1 as [|b l Hb Hl IH]; [reflexivity|]. cbn [hex unhex]. rewrite IH. f_equal.
  unfold byte_ok in Hb.
  rewrite !hexval_hexdigit.
  - rewrite (N.div_mod b 16) at 3 by lia. reflexivity.
  - apply N.mod_lt. lia.
  - apply N.div_lt_upper_bound; lia.
Qed.

Lemma hex_length (l : bytes) : String.length (hex l) = (2 * List.length l)%nat.
Proof. induction l as [|b l IH]; [reflexivity|]. cbn [hex String.length List.length]. rewrite IH. lia. Qed.

Lemma hex_no_prefix (l : bytes) : bytes_ok l -> strip0x (hex l) = hex l.
Proof.
  intro H. destruct l as [|b l]; [reflexivity|]. cbn [hex]. inversion H as [|? ? Hb _]; subst.
  (* the second character is a hex digit, never x or X *)
  unfold strip0x. destruct (hexdigit (b / 16)) as [a0 a1 a2 a3 a4 a5 a6 a7] eqn:E1; try reflexivity.
  destruct (hexdigit (b mod 16)) as [c0 c1 c2 c3 c4 c5 c6 c7] eqn:E2.
  assert (Hd : forall n, (n < 16)%N -> hexdigit n <> "x"%char /\ hexdigit n <> "X"%char).
  { intros n Hn. assert (A : forallb (fun k => negb (Ascii.eqb (hexdigit k) "x") && negb (Ascii.eqb (hexdigit k) "X"))
                               (map N.of_nat (seq 0 16)) = true) by (vm_compute; reflexivity).
    rewrite forallb_forall in A. specialize (A n). rewrite andb_true_iff, !negb_true_iff in A.
    destruct A as [A1 A2]; [apply in_map_iff; exists (N.to_nat n); split; [lia | apply in_seq; lia]|].
    split; intro Hx; rewrite Hx in *; discriminate. }
  destruct (Hd (b mod 16)%N ltac:(apply N.mod_lt; lia)) as [Nx NX]. rewrite E2 in Nx, NX.
  destruct a0, a1, a2, a3, a4, a5, a6, a7; try reflexivity;
  destruct c0, c1, c2, c3, c4, c5, c6, c7; try reflexivity; exfalso; (apply Nx; reflexivity) || (apply NX; reflexivity).
Qed.

(* the round trip is the identity on every non-empty key: length and leading zero bytes preserved *)
Theorem hex_roundtrip (b : bytes) : bytes_ok b -> b <> [] -> from_hex (to_hex b) = b.
Proof.
  intros Hok Hne. unfold to_hex, from_hex. destruct b as [|x r]; [contradiction|].
  set (l := x :: r) in *.
  change ("0x" ++ hex l) with (String "0" (String "x" (hex l))).
  cbn [String.length]. rewrite hex_length.
  destruct (Nat.leb_spec (S (S (2 * List.length l))) 1); [lia|].
  cbn [strip0x]. rewrite hex_length.
  replace (Nat.odd (2 * List.length l)) with false.
  - apply unhex_hex, Hok.
  - symmetry. rewrite <- Nat.negb_even. rewrite Nat.even_mul. reflexivity.
Qed.

Corollary hex_roundtrip_length (b : bytes) : bytes_ok b -> b <> [] ->
  List.length (from_hex (to_hex b)) = List.length b.
Proof. intros. rewrite hex_roundtrip by assumption. reflexivity. Qed.

(* what a minimal ("%x" of the big integer) rendering does instead: the leading zero byte is lost *)
Example minimal_hex_loses_zero :
  from_hex ("0x" ++ hex (beb (bev [0%N; 159%N; 59%N]))) = [159%N; 59%N].
Proof. vm_compute. reflexivity. Qed.

(* ---- the proposer's worker: genProve(castTime) on a worker for base header (Random, CurTime) ---- *)
Section Worker.
Variable Hsh : bytes -> bytes.
Variable P : bytes -> bytes -> bytes.            (* VRFGenProve sk msg *)

Definition worker_prove (sk random : bytes) (base_cur cast : Z) : bytes :=
  P sk (gen_vrf_msg Hsh random (delta_of cast base_cur)).

(* the worker keeps no message state: the k-th answer of any call sequence is worker_prove of the
   k-th cast time alone *)
Definition worker_run (sk random : bytes) (base_cur : Z) (casts : list Z) : list bytes :=
  map (worker_prove sk random base_cur) casts.

Lemma worker_history_independent sk random base_cur (h1 h2 : list Z) cast :
  last (worker_run sk random base_cur (h1 ++ [cast])) [] =
  last (worker_run sk random base_cur (h2 ++ [cast])) [].
Proof. unfold worker_run. rewrite !map_app. cbn [map]. rewrite !last_last. reflexivity. Qed.
End Worker.
