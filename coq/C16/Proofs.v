(* C16 — proofs about transport, isCanonical and the qualification rule (Model.v). *)
From Coq Require Import List NArith ZArith Bool Lia.
From V.Base Require Import Hex BigEndian.
From V.C16 Require Import Model.
Import ListNotations.

(* ------------------------------------------------------------------ *)
(* 1. transport *)
Section TransportProofs.
Local Open Scope N_scope.

Lemma rev_repeat0 (k : nat) : rev (repeat 0 k) = repeat 0 k.
Proof.
  induction k as [|k IH]; [reflexivity|].
  cbn [repeat rev]. rewrite IH. clear IH.
  induction k as [|k IH]; [reflexivity|]. cbn [repeat app]. rewrite IH. reflexivity.
Qed.

Lemma le_val_app_zeros a k : le_val (a ++ repeat 0 k) = le_val a.
Proof.
  induction a as [|d r IH]; cbn [app le_val].
  - induction k as [|k IH]; [reflexivity|]. cbn [repeat le_val]. rewrite IH. reflexivity.
  - rewrite IH. reflexivity.
Qed.

Lemma bev_zeros_app k r : bev (repeat 0 k ++ r) = bev r.
Proof. unfold bev. rewrite rev_app_distr, rev_repeat0. apply le_val_app_zeros. Qed.

Lemma strip_zeros (l : bytes) : exists k r, l = repeat 0 k ++ r /\ hd 1 r <> 0.
Proof.
  induction l as [|x l (k & r & E & Hh)].
  - exists O, []. split; [reflexivity | cbn; lia].
  - destruct (N.eqb_spec x 0) as [->|Hx].
    + exists (S k), r. split; [cbn [repeat app]; rewrite E; reflexivity | exact Hh].
    + exists O, (x :: l). split; [reflexivity | exact Hx].
Qed.

Lemma transport_strip k r : bytes_ok r -> hd 1 r <> 0 -> transport (repeat 0 k ++ r) = r.
Proof.
  intros Hok Hh. unfold transport, bytes_of_big, big_of_bytes. rewrite bev_zeros_app.
  apply beb_bev; assumption.
Qed.

(* padding restores exactly the zero bytes that big.Int drops *)
Lemma pad_transport (n : nat) (pi : bytes) :
  bytes_ok pi -> length pi = n -> pad_to n (transport pi) = pi.
Proof.
  intros Hok Hlen. destruct (strip_zeros pi) as (k & r & E & Hh).
  assert (Hr : bytes_ok r) by (rewrite E in Hok; apply bytes_ok_app_inv in Hok; tauto).
  rewrite E at 1. rewrite transport_strip by assumption.
  assert (Hl : (n = k + length r)%nat) by (rewrite <- Hlen, E, app_length, repeat_length; reflexivity).
  unfold pad_to. destruct (Nat.leb_spec n (length r)) as [Hle|Hgt].
  - assert (k = O) by lia. subst k. rewrite E. reflexivity.
  - replace (n - length r)%nat with k by lia. symmetry; exact E.
Qed.

Lemma pad80_transport pi : bytes_ok pi -> length pi = prove_size -> pad80 (transport pi) = pi.
Proof. apply pad_transport. Qed.

Lemma pad80_id pi : length pi = prove_size -> pad80 pi = pi.
Proof. intro H. unfold pad80, pad_to. rewrite H, Nat.leb_refl. reflexivity. Qed.

Lemma verify_transport vcore pi :
  bytes_ok pi -> length pi = prove_size -> verify_via vcore (transport pi) = verify_via vcore pi.
Proof.
  intros Hok Hl. unfold verify_via. rewrite pad80_transport, pad80_id by assumption. reflexivity.
Qed.

Lemma vrf_value_transport pi :
  bytes_ok pi -> length pi = prove_size -> vrf_value (transport pi) = vrf_value pi.
Proof.
  intros Hok Hl. unfold vrf_value. rewrite pad80_transport, pad80_id by assumption. reflexivity.
Qed.

(* the transported proof is never longer than the original *)
Lemma transport_length pi : bytes_ok pi -> (length (transport pi) <= length pi)%nat.
Proof.
  intro Hok. unfold transport, bytes_of_big, big_of_bytes. apply beb_length, bev_bound, Hok.
Qed.

(* the helper that skips the padding reads a different value when the proof starts with a zero byte *)
Lemma helper_unpadded_witness :
  let pi := 0 :: 1 :: repeat 0 78 in
  length pi = prove_size /\ bytes_okb pi = true /\
  helper_prove2value (big_of_bytes pi) <> bev (proof2hash pi).
Proof. vm_compute. repeat split; discriminate. Qed.

(* ... and agrees with the lottery value exactly when the proof does not start with a zero byte *)
Lemma helper_value_guarded (pi : bytes) :
  bytes_ok pi -> hd 1 pi <> 0 -> helper_prove2value (big_of_bytes pi) = bev (proof2hash pi).
Proof.
  intros Hok Hh. unfold helper_prove2value, bytes_of_big, big_of_bytes.
  rewrite beb_bev by assumption. reflexivity.
Qed.

(* isCanonical as written in Go accepts everything *)
Lemma shiftr8_byte x : N.shiftr (x mod 2 ^ 8) 8 = 0.
Proof.
  rewrite N.shiftr_div_pow2. apply N.div_small. apply N.mod_lt. discriminate.
Qed.

Lemma is_canonical_go_const s : is_canonical_go s = 1.
Proof.
  unfold is_canonical_go, is_canonical_at. rewrite !shiftr8_byte. reflexivity.
Qed.

Lemma is_canonical_ref_rejects :
  is_canonical_ref (repeat 255 32) = 0 /\
  is_canonical_ref (238 :: repeat 255 30 ++ [127]) = 0 /\     (* y = p + 1: the identity, non-reduced *)
  is_canonical_ref (236 :: repeat 255 30 ++ [127]) = 1.       (* y = p - 1 *)
Proof. vm_compute. repeat split. Qed.

End TransportProofs.

(* ------------------------------------------------------------------ *)
(* 2. qualification rule *)
Local Open Scope Z_scope.

Lemma rne_div_nonneg num den : 0 <= num -> 0 < den -> 0 <= rne_div num den.
Proof.
  intros Hn Hd. unfold rne_div.
  assert (0 <= num / den) by (apply Z.div_pos; lia).
  destruct (2 * (num mod den) <? den); [lia|].
  destruct (den <? 2 * (num mod den)); [lia|].
  destruct (Z.even (num / den)); lia.
Qed.

Lemma f64_int_nonneg n : 0 <= n -> 0 <= f64_int n.
Proof.
  intro Hn. unfold f64_int, f64_of_q.
  destruct (n =? 0); [cbn; lia|].
  set (k := Z.log2 n - Z.log2 1).
  set (lg := if (if 0 <=? k then 1 * 2 ^ k <=? n else 1 <=? n * 2 ^ (- k)) then k else k - 1).
  destruct ((lg <? -1022) || (1022 <? lg)); [lia|].
  cbn [f64_floor].
  destruct (Z.leb_spec 0 (lg - 52)) as [He|He].
  - apply Z.mul_nonneg_nonneg; [|apply Z.pow_nonneg; lia].
    apply rne_div_nonneg; [lia|]. rewrite Z.mul_1_l. apply Z.pow_pos_nonneg; lia.
  - apply Z.div_pos; [|apply Z.pow_pos_nonneg; lia].
    apply rne_div_nonneg; [|lia]. apply Z.mul_nonneg_nonneg; [lia|]. apply Z.pow_nonneg; lia.
Qed.

Lemma div_lt_bound a b m : 0 < b -> a < m * b -> a / b <= m - 1.
Proof.
  intros Hb H. assert (a / b < m) by (apply Z.div_lt_upper_bound; lia). lia.
Qed.

(* exact arithmetic: an accepted value gives a quality number in 1..maxqn *)
Lemma qn_exact_range p v snum sden :
  1 <= maxqn p -> 0 <= v -> 0 <= sden ->
  (v < max256 \/ snum <= sden) ->
  ok_of v snum sden = true ->
  exists n, qn_exact p v snum sden = QN n /\ 1 <= n <= maxqn p.
Proof.
  intros Hq Hv Hs Hguard Hok. unfold ok_of in Hok. apply Z.ltb_lt in Hok.
  assert (Hmax : 0 < max256) by (unfold max256; lia).
  unfold qn_exact, clamp1. destruct (Z.ltb_spec sden snum) as [Hgt|Hle].
  - (* stake ratio above 1: clamped to 1 *)
    assert (Hvm : v < max256) by (destruct Hguard; lia).
    cbn [Z.eqb Z.ltb Z.compare]. rewrite !Z.mul_1_r. eexists; split; [reflexivity|].
    assert (0 <= v * maxqn p / max256) by (apply Z.div_pos; nia).
    assert (v * maxqn p / max256 <= maxqn p - 1) by (apply div_lt_bound; nia).
    lia.
  - assert (Hsn : 0 < snum) by nia.
    destruct (Z.eqb_spec snum 0); [lia|]. destruct (Z.ltb_spec snum 0); [lia|].
    eexists; split; [reflexivity|].
    assert (0 <= v * maxqn p * sden / (max256 * snum)) by (apply Z.div_pos; nia).
    assert (v * maxqn p * sden / (max256 * snum) <= maxqn p - 1) by (apply div_lt_bound; nia).
    lia.
Qed.

Lemma validate_exact_range p pi h wm ts n_ok :
  1 <= maxqn p -> 0 <= ts ->
  (Z.of_N (vrf_value pi) < max256 \/ stake_num p h wm ts <= stake_den ts) ->
  validate_exact p pi h wm ts = VR true n_ok ->
  exists n, n_ok = QN n /\ 1 <= n <= maxqn p.
Proof.
  intros Hq Hts Hguard. unfold validate_exact, validate_with.
  destruct (ts =? 0); [intro H; inversion H|].
  intro H. injection H as Hok Hqn. subst n_ok.
  apply qn_exact_range; auto.
  - lia.
  - apply f64_int_nonneg, Hts.
Qed.

(* the rule reads the proof only through the first 32 bytes of the padded proof *)
Lemma validate_function qnf p pi pi' h wm ts :
  proof2hash (pad80 pi) = proof2hash (pad80 pi') ->
  validate_with qnf p pi h wm ts = validate_with qnf p pi' h wm ts.
Proof. intro E. unfold validate_with, vrf_value. rewrite E. reflexivity. Qed.

Lemma validate_transport qnf p pi h wm ts :
  bytes_ok pi -> length pi = prove_size ->
  validate_with qnf p (transport pi) h wm ts = validate_with qnf p pi h wm ts.
Proof.
  intros Hok Hl. apply validate_function. rewrite pad80_transport by assumption.
  rewrite pad80_id by assumption. reflexivity.
Qed.

Definition node_params : params := {| maxqn := 5; pp_min := 3; pp_max := 5; pp_idx := 20; thr := 1000036000 |}.

(* value bytes 4ccc...cc (= floor(3/10 * (2^256-1))), total stake 10: accepted, exact rule says 5,
   float64(ratio/step) rounds 5 - 2^-254 up to 5.0 and the code returns 6 *)
Definition float_witness : bytes := (76 :: repeat 204 31 ++ repeat 0 48)%N.

Lemma qn_float_witness :
  validate_exact node_params float_witness 1 0 10 = VR true (QN 5) /\
  validate_float node_params float_witness 1 0 10 = VR true (QN 6).
Proof. vm_compute. split; reflexivity. Qed.

(* value bytes ff..ff (accepted by stringToPoint because isCanonical is constant), total stake 2:
   stake ratio 3/2 is clamped to 1 and ratio = 1 gives maxqn + 1 already in exact arithmetic *)
Lemma qn_maxvalue_witness :
  validate_exact node_params (repeat 255%N 80) 1 0 2 = VR true (QN 6) /\
  validate_float node_params (repeat 255%N 80) 1 0 2 = VR true (QN 6).
Proof. vm_compute. split; reflexivity. Qed.

Lemma validate_float_transport p (pi : bytes) h wm ts :
  bytes_ok pi -> length pi = prove_size ->
  validate_float p (transport pi) h wm ts = validate_float p pi h wm ts.
Proof. exact (validate_transport qn_float p pi h wm ts). Qed.

Lemma validate_float_function p (pi pi' : bytes) h wm ts :
  proof2hash (pad80 pi) = proof2hash (pad80 pi') ->
  validate_float p pi h wm ts = validate_float p pi' h wm ts.
Proof. exact (validate_function qn_float p pi pi' h wm ts). Qed.

Lemma helper_unpadded_refuted : exists pi : bytes,
  length pi = prove_size /\ bytes_okb pi = true /\
  helper_prove2value (big_of_bytes pi) <> bev (proof2hash pi).
Proof. eexists. exact helper_unpadded_witness. Qed.

Lemma qn_maxvalue_refuted : exists p (pi : bytes) h wm ts,
  length pi = prove_size /\
  validate_exact p pi h wm ts = VR true (QN (maxqn p + 1)) /\
  validate_float p pi h wm ts = VR true (QN (maxqn p + 1)).
Proof.
  exists node_params, (repeat 255%N 80), 1, 0, 2. split; [reflexivity|]. exact qn_maxvalue_witness.
Qed.

Lemma qn_float_refuted : exists p (pi : bytes) h wm ts,
  length pi = prove_size /\ (Z.of_N (vrf_value pi) < max256) /\
  validate_exact p pi h wm ts = VR true (QN (maxqn p)) /\
  validate_float p pi h wm ts = VR true (QN (maxqn p + 1)).
Proof.
  exists node_params, float_witness, 1, 0, 10.
  split; [reflexivity|]. split; [vm_compute; reflexivity|]. exact qn_float_witness.
Qed.

Lemma model_example :
  (exists pi : bytes, bytes_okb pi = true /\ length pi = prove_size /\ hd 1%N pi = 0%N /\
     pad80 (transport pi) = pi /\ length (transport pi) = 79%nat) /\
  validate_exact node_params (51%N :: repeat 0%N 79) 1 0 10 = VR true (QN 4) /\
  validate_float node_params (51%N :: repeat 0%N 79) 1 0 10 = VR true (QN 4).
Proof.
  split.
  - exists (0 :: 7 :: repeat 1 78)%N. vm_compute. repeat split.
  - vm_compute. split; reflexivity.
Qed.

(* ------------------------------------------------------------------ *)
(* 3. totality: the only panic of validateProve is big.Rat.Quo by a zero step in calQn, i.e. a zero
      stake ratio, i.e. difficulty = totalStake / workingMiners = 0 *)
Lemma qn_not_panic p v snum sden :
  snum <> 0 -> qn_float p v snum sden <> QNPanic /\ qn_exact p v snum sden <> QNPanic.
Proof.
  intro Hs. unfold qn_float, qn_exact, clamp1.
  destruct (sden <? snum).
  - cbn [Z.eqb Z.ltb Z.compare]. split; [|discriminate].
    destruct (f64_of_q _ _); [|discriminate].
    destruct (_ <? 2 ^ 64); discriminate.
  - destruct (Z.eqb_spec snum 0); [contradiction|].
    destruct (snum <? 0); split; try discriminate.
    destruct (f64_of_q _ _); [|discriminate].
    destruct (_ <? 2 ^ 64); discriminate.
Qed.

Lemma calc_pp_range p ts : pp_min p <= pp_max p -> pp_min p <= calc_pp p ts <= pp_max p.
Proof.
  intro H. unfold calc_pp.
  destruct (Z.ltb_spec (u64 (ts * pp_idx p) / 100) (pp_min p)); [lia|].
  destruct (Z.ltb_spec (pp_max p) (u64 (ts * pp_idx p) / 100)); lia.
Qed.

Lemma stake_num_nonzero p h wm ts :
  0 < pp_min p <= pp_max p -> 1 <= difficulty p h wm ts -> difficulty p h wm ts * pp_max p < 2 ^ 63 ->
  stake_num p h wm ts <> 0.
Proof.
  intros Hpp Hd Hb. pose proof (calc_pp_range p ts ltac:(lia)) as Hc.
  unfold stake_num, i64. set (d := difficulty p h wm ts) in *. set (c := calc_pp p ts) in *.
  assert (Hr : 1 <= d * c < 2 ^ 63) by nia.
  rewrite Z.mod_small by lia. destruct (Z.ltb_spec (d * c) (2 ^ 63)); lia.
Qed.

Lemma difficulty_ge1 p h wm ts :
  0 <= wm -> ~ (wm <> 0 /\ thr p < h /\ ts < wm) -> 1 <= difficulty p h wm ts.
Proof.
  intros Hwm Hg. unfold difficulty.
  destruct (Z.eqb_spec wm 0) as [|Hne]; cbn [negb andb]; [lia|].
  destruct (Z.ltb_spec (thr p) h); [|lia].
  assert (wm <= ts) by lia. apply Z.div_le_lower_bound; lia.
Qed.

Lemma validate_no_panic p (pi : bytes) h wm ts ok :
  0 < pp_min p <= pp_max p -> 0 <= wm ->
  ~ (wm <> 0 /\ thr p < h /\ ts < wm) ->
  difficulty p h wm ts * pp_max p < 2 ^ 63 ->
  validate_float p pi h wm ts <> VR ok QNPanic /\ validate_exact p pi h wm ts <> VR ok QNPanic.
Proof.
  intros Hpp Hwm Hg Hb.
  pose proof (stake_num_nonzero p h wm ts Hpp (difficulty_ge1 p h wm ts Hwm Hg) Hb) as Hs.
  unfold validate_float, validate_exact, validate_with.
  destruct (ts =? 0); [split; discriminate|].
  destruct (qn_not_panic p (Z.of_N (vrf_value pi)) _ (stake_den ts) Hs) as [H1 H2].
  split; intro E; injection E as _ E; contradiction.
Qed.

(* fewer registered proposers than recently active ones above the difficulty switch height:
   difficulty = 1 / 3 = 0, stake ratio 0, calQn divides by a zero step *)
Lemma validate_zero_ratio_panics : exists p (pi : bytes) h wm ts,
  0 < ts < wm /\ thr p < h /\ validate_float p pi h wm ts = VR false QNPanic.
Proof.
  exists node_params, (repeat 7%N 80), (thr node_params + 1), 3, 1.
  split; [lia|]. split; [lia|]. vm_compute. reflexivity.
Qed.
