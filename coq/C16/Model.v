(* C16 — model of the byte-level and arithmetic parts of the VRF path:
   - header transport of the 80-byte proof through big.Int (src/consensus/logical/vrf_with_stake.go
     verifyBlockVRF, src/common/ed25519/vrf.go tryZeroPadding, consensus_helper.go VRFProve2Value),
   - isCanonical (src/common/ed25519/vrf.go) with Go's uint8 arithmetic,
   - the qualification rule validateProve / calcStakeRatio / calcPotentialProposal / calQn
     (src/consensus/logical/vrf_with_stake.go) in exact rationals and with a faithful integer model of
     the float64 conversions (uint64 -> float64, big.Rat.Float64, math.Floor, +1, -> uint64).
   The algebraic VRF model (prove/verify over an abstract group) is in Vrf.v.  No proofs here. *)
From Coq Require Import List NArith ZArith Bool.
From V.Base Require Import Hex BigEndian.
Import ListNotations.

(* ------------------------------------------------------------------ *)
(* 1. transport                                                       *)
Section Transport.
Local Open Scope N_scope.

Definition prove_size : nat := 80.

(* tryZeroPadding (both copies): shorter inputs are left-padded with zero bytes, others unchanged *)
Definition pad_to (n : nat) (l : bytes) : bytes :=
  if Nat.leb n (length l) then l else repeat 0 (n - length l) ++ l.
Definition pad80 : bytes -> bytes := pad_to prove_size.

Definition big_of_bytes (l : bytes) : N := bev l.     (* new(big.Int).SetBytes(l) *)
Definition bytes_of_big (n : N) : bytes := beb n.     (* n.Bytes(): minimal big-endian, empty for 0 *)

(* CastBlock stores prove.Big() in the header; verifyBlockVRF reads bh.ProveValue.Bytes() *)
Definition transport (pi : bytes) : bytes := bytes_of_big (big_of_bytes pi).

(* vrf.VRFProof2Hash(pi) = pi[:32] (callers pass >= 32 bytes) *)
Definition proof2hash (pi : bytes) : bytes := firstn 32 pi.

(* the lottery value as validateProve reads it: pad, first 32 bytes, big-endian integer *)
Definition vrf_value (pi : bytes) : N := bev (proof2hash (pad80 pi)).

(* ConsensusHelperImpl.VRFProve2Value(prove *big.Int): no padding before the slice *)
Definition helper_prove2value (n : N) : N := bev (proof2hash (bytes_of_big n)).

(* ECVRFVerify = pad, then a function of the padded proof (decode + equations + hash) *)
Definition verify_via (vcore : bytes -> bool) (pi : bytes) : bool := vcore (pad80 pi).

(* isCanonical with Go's typing: c and d are uint8, so (c-1)>>8 and (0xed-1-s[0])>>8 are 0 *)
Definition is_canonical_at (w : N) (s : bytes) : N :=
  let c0 := N.lxor (N.land (nth 31 s 0) 127) 127 in
  let c1 := fold_left (fun c i => N.lor c (N.lxor (nth i s 0) 255)) (rev (seq 1 30)) c0 in
  let c2 := N.shiftr ((c1 + 2 ^ w - 1) mod 2 ^ w) 8 in
  let d := N.shiftr ((236 + 2 ^ w - nth 0 s 0) mod 2 ^ w) 8 in
  1 - N.land (N.land c2 d) 1.
Definition is_canonical_go : bytes -> N := is_canonical_at 8.      (* what vrf.go computes *)
Definition is_canonical_ref : bytes -> N := is_canonical_at 32.    (* the C original: unsigned int *)

(* the scalar part of ECVRFProve: x (clamped secret scalar), k (nonce) and c (16 challenge bytes) are
   little-endian byte strings; pi[48:80] = ScMulAdd(c, x, k) = (c*x + k) mod ell, little-endian *)
Definition ell25519 : N := 2 ^ 252 + 27742317777372353535851937790883648493.
Definition proof_c (pi : bytes) : bytes := firstn 16 (skipn 32 pi).
Definition proof_s (pi : bytes) : bytes := skipn 48 pi.
Definition response (x k c : bytes) : N := (le_val c * le_val x + le_val k) mod ell25519.

End Transport.

(* ------------------------------------------------------------------ *)
(* 2. qualification rule                                              *)
Local Open Scope Z_scope.

Record params := { maxqn : Z; pp_min : Z; pp_max : Z; pp_idx : Z; thr : Z }.
(* maxqn = model.Param.MaxQN, pp_* = PotentialProposal / Max / Index,
   thr = LocalChainConfig.Proposal025Block + GetRewardBlocks() *)

Definition max256 : Z := 2 ^ 256 - 1.
Definition u64 (z : Z) : Z := z mod 2 ^ 64.
Definition i64 (z : Z) : Z := let w := z mod 2 ^ 64 in if w <? 2 ^ 63 then w else w - 2 ^ 64.

Definition calc_pp (p : params) (ts : Z) : Z :=
  let q := u64 (ts * pp_idx p) / 100 in
  if q <? pp_min p then pp_min p else if pp_max p <? q then pp_max p else q.

Definition difficulty (p : params) (h wm ts : Z) : Z :=
  if negb (wm =? 0) && (thr p <? h) then ts / wm else 1.

(* round-half-even quotient *)
Definition rne_div (num den : Z) : Z :=
  let m0 := num / den in
  let r := num mod den in
  if 2 * r <? den then m0 else if den <? 2 * r then m0 + 1 else if Z.even m0 then m0 else m0 + 1.

(* nearest binary64 (ties to even) of a/b for a >= 0, b > 0, as (m, e) meaning m * 2^e with
   2^52 <= m <= 2^53; None outside the normal exponent range (never reached by the rule) *)
Definition f64_of_q (a b : Z) : option (Z * Z) :=
  if a =? 0 then Some (0, 0) else
  let k := Z.log2 a - Z.log2 b in
  let ge := if 0 <=? k then b * 2 ^ k <=? a else b <=? a * 2 ^ (- k) in
  let lg := if ge then k else k - 1 in
  if (lg <? -1022) || (1022 <? lg) then None else
  let e := lg - 52 in
  Some (if 0 <=? e then rne_div a (b * 2 ^ e) else rne_div (a * 2 ^ (- e)) b, e).

Definition f64_floor (f : Z * Z) : Z :=
  let '(m, e) := f in if 0 <=? e then m * 2 ^ e else m / 2 ^ (- e).

(* float64(n) for a non-negative integer n < 2^1022, as the integer it denotes *)
Definition f64_int (n : Z) : Z :=
  match f64_of_q n 1 with Some f => f64_floor f | None => 0 end.

Inductive qnres := QN (n : Z) | QNPanic | QNUndef.
(* QNPanic: big.Rat.Quo divides by a zero step (stake ratio 0);
   QNUndef: float -> uint64 conversion of a negative or >= 2^64 value (implementation-specific) *)

Definition ok_of (v snum sden : Z) : bool := v * sden <? snum * max256.

Definition clamp1 (snum sden : Z) : Z * Z := if sden <? snum then (1, 1) else (snum, sden).

(* ratio / step = (v / max256) / ((cn/cd) / maxqn) = (v * maxqn * cd) / (max256 * cn) *)
Definition qn_exact (p : params) (v snum sden : Z) : qnres :=
  let '(cn, cd) := clamp1 snum sden in
  if cn =? 0 then QNPanic else if cn <? 0 then QNUndef else
  QN ((v * maxqn p * cd) / (max256 * cn) + 1).

Definition qn_float (p : params) (v snum sden : Z) : qnres :=
  let '(cn, cd) := clamp1 snum sden in
  if cn =? 0 then QNPanic else if cn <? 0 then QNUndef else
  match f64_of_q (v * maxqn p * cd) (max256 * cn) with
  | None => QNUndef
  | Some f => let n := f64_int (f64_floor f + 1) in if n <? 2 ^ 64 then QN n else QNUndef
  end.

Inductive vres := VR (ok : bool) (qn : qnres).

Definition stake_num (p : params) (h wm ts : Z) : Z := i64 (difficulty p h wm ts * calc_pp p ts).
Definition stake_den (ts : Z) : Z := f64_int ts.

Definition validate_with (qnf : params -> Z -> Z -> Z -> qnres) (p : params) (pi : bytes) (h wm ts : Z) : vres :=
  if ts =? 0 then VR false (QN 0) else
  let v := Z.of_N (vrf_value pi) in
  let snum := stake_num p h wm ts in
  let sden := stake_den ts in
  VR (ok_of v snum sden) (qnf p v snum sden).

Definition validate_exact := validate_with qn_exact.   (* the rule in exact rational arithmetic *)
Definition validate_float := validate_with qn_float.   (* what validateProve computes *)
