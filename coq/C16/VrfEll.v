(* C16 — the World hypotheses at the REAL group order.  ell = 2^252 + 27742317777372353535851937790883648493
   is proved prime in Base/PrimeEd25519Ell.v (Pocklington certificate, no axiom), so the abstract
   theorems of VrfProofs.v can be stated for a World whose [ell] is the constant the code reduces
   modulo (Model.ell25519, tied to ScMulAdd/ScReduce by the CS correspondence cases) with no primality
   hypothesis left.  The carrier is the cyclic group Z/(8*ell) — the group structure of the ed25519
   curve group — with base point 8 and simple hash functions; the challenge hash ranges over [0, 2^128).
   (Construction as in Base/PrimesUseEd25519.v, which cannot be imported here: it imports C16.Props.) *)
From Coq Require Import ZArith Znumtheory Bool Lia Eqdep_dec.
From V.Base Require Import Pocklington PrimeEd25519Ell.
From V.C16 Require Import Model Vrf.
Local Open Scope Z_scope.

Lemma ell25519_Z : Z.of_N ell25519 = ed25519_ell.
Proof. vm_compute. reflexivity. Qed.

Lemma ell25519_prime : prime (Z.of_N ell25519).
Proof. rewrite ell25519_Z. exact ed25519_ell_prime. Qed.

Section CyclicWorld.
Variable l : Z.
Hypothesis l_prime : prime l.
Variable cb : Z.                       (* range of the challenge hash: 2^128 for the real suite *)
Hypothesis cb_ok : 0 < cb <= l.

Let n : Z := 8 * l.
Let l_ge2 : 2 <= l. Proof. exact (prime_ge_2 l l_prime). Qed.
Let n_pos : 0 < n. Proof. unfold n. lia. Qed.

Definition cG : Type := { z : Z | (z mod n =? z) = true }.
Lemma cmk_ok z : ((z mod n) mod n =? z mod n) = true.
Proof. apply Z.eqb_eq. apply Z.mod_mod. lia. Qed.
Definition cmk (z : Z) : cG := exist _ (z mod n) (cmk_ok z).
Definition cval (a : cG) : Z := proj1_sig a.

Lemma cG_eq (a b : cG) : cval a = cval b -> a = b.
Proof.
  destruct a as [x Hx], b as [y Hy]. cbn [cval proj1_sig]. intro E. subst y. f_equal.
  apply UIP_dec. apply bool_dec.
Qed.
Lemma cval_mk z : cval (cmk z) = z mod n.
Proof. reflexivity. Qed.
Lemma cval_canon a : cval a mod n = cval a.
Proof. destruct a as [x Hx]. cbn [cval proj1_sig]. apply Z.eqb_eq. exact Hx. Qed.

Definition cadd (a b : cG) : cG := cmk (cval a + cval b).
Definition cneg (a : cG) : cG := cmk (- cval a).
Definition csmul (k : Z) (a : cG) : cG := cmk (k * cval a).
Definition ceqb (a b : cG) : bool := cval a =? cval b.

Lemma ceqb_spec a b : ceqb a b = true <-> a = b.
Proof. unfold ceqb. rewrite Z.eqb_eq. split; [apply cG_eq | intros ->; reflexivity]. Qed.

Ltac cg := intros; apply cG_eq; unfold cadd, cneg, csmul; rewrite ?cval_mk.

Lemma cadd_assoc a b c : cadd a (cadd b c) = cadd (cadd a b) c.
Proof. cg. rewrite Z.add_mod_idemp_r, Z.add_mod_idemp_l by lia. f_equal. lia. Qed.
Lemma cadd_comm a b : cadd a b = cadd b a.
Proof. cg. f_equal. lia. Qed.
Lemma cadd_0_l a : cadd (cmk 0) a = a.
Proof. cg. rewrite Z.mod_0_l, Z.add_0_l by lia. apply cval_canon. Qed.
Lemma cadd_neg_r a : cadd a (cneg a) = cmk 0.
Proof. cg. rewrite Z.add_mod_idemp_r by lia. f_equal. lia. Qed.
Lemma csmul_add_l j k P : csmul (j + k) P = cadd (csmul j P) (csmul k P).
Proof. cg. rewrite <- Z.add_mod by lia. f_equal. lia. Qed.
Lemma csmul_add_r k P Q : csmul k (cadd P Q) = cadd (csmul k P) (csmul k Q).
Proof. cg. rewrite <- Z.add_mod by lia. rewrite Z.mul_mod_idemp_r by lia. f_equal. lia. Qed.
Lemma csmul_mul j k P : csmul (j * k) P = csmul j (csmul k P).
Proof. cg. rewrite Z.mul_mod_idemp_r by lia. f_equal. lia. Qed.
Lemma csmul_1 P : csmul 1 P = P.
Proof. cg. rewrite Z.mul_1_l. apply cval_canon. Qed.

Lemma corder P : csmul (8 * l) P = cmk 0.
Proof. cg. fold n. rewrite Z.mul_comm, Z.mod_mul by lia. symmetry. apply Z.mod_0_l. lia. Qed.

Lemma eight_mod : 8 mod n = 8.
Proof. apply Z.mod_small. unfold n. lia. Qed.

Lemma cB_order k : csmul k (cmk 8) = cmk 0 <-> (l | k).
Proof.
  split.
  - intro H. apply (f_equal cval) in H. unfold csmul in H. rewrite !cval_mk in H.
    rewrite eight_mod, Z.mod_0_l in H by lia. apply Z.mod_divide in H; [|lia].
    destruct H as [q Hq]. exists q. unfold n in Hq. lia.
  - intros [q ->]. cg. rewrite eight_mod, Z.mod_0_l by lia.
    replace (q * l * 8) with (q * n) by (unfold n; lia). apply Z.mod_mul. lia.
Qed.

Lemma ccyclic P : csmul l P = cmk 0 -> exists k, P = csmul k (cmk 8).
Proof.
  intro H. apply (f_equal cval) in H. unfold csmul in H. rewrite !cval_mk in H.
  rewrite Z.mod_0_l in H by lia. apply Z.mod_divide in H; [|lia].
  destruct H as [q Hq]. exists q. cg. rewrite eight_mod.
  replace (q * 8) with (cval P) by (unfold n in Hq; nia). symmetry. apply cval_canon.
Qed.

(* hash functions: messages are integers; the challenge hash ranges over [0, l) *)
Definition cE (Y : cG) (m : Z) : cG := cmk (2 * cval Y + m + 1).
Definition cHc (a b c d : cG) : Z := (cval a + 3 * cval b + 5 * cval c + 7 * cval d + 1) mod cb.
Definition cnonce (t : Z) (H : cG) : Z := t + cval H.

Lemma cHc_range a b c d : 0 <= cHc a b c d < cb.
Proof. unfold cHc. apply Z.mod_pos_bound. lia. Qed.

Definition cyclic_world : World := {|
  G := cG; zero := cmk 0; add := cadd; neg := cneg; smul := csmul;
  geqb := ceqb; geqb_spec := ceqb_spec;
  add_assoc := cadd_assoc; add_comm := cadd_comm; add_0_l := cadd_0_l;
  add_neg_r := cadd_neg_r;
  smul_add_l := csmul_add_l; smul_add_r := csmul_add_r; smul_mul := csmul_mul;
  smul_1 := csmul_1;
  ell := l; ell_prime := l_prime; order8l := corder;
  B := cmk 8; B_order := cB_order; cyclic := ccyclic;
  Msg := Z; E := cE; Hc := cHc; cbound := cb; cbound_ok := cb_ok;
  Hc_range := cHc_range; nonce := cnonce
|}.

End CyclicWorld.

Lemma cb128_ok : 0 < 2 ^ 128 <= Z.of_N ell25519.
Proof. vm_compute. split; [reflexivity | discriminate]. Qed.

(* the World at the real ed25519 order with the real challenge range *)
Definition W25519 : World := cyclic_world (Z.of_N ell25519) ell25519_prime (2 ^ 128) cb128_ok.

Lemma W25519_ell : ell W25519 = Z.of_N ell25519 /\ cbound W25519 = 2 ^ 128 /\ 2 < ell W25519.
Proof. split; [reflexivity|]. split; [reflexivity|]. vm_compute. reflexivity. Qed.
