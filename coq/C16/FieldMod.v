(* C16 — Z modulo the prime p = 2^255 - 19 as an integral domain for [nsatz]: equality is congruence
   modulo fp; the ring/integral-domain instances below let nsatz prove polynomial congruences from
   polynomial congruence hypotheses (primality of fp: Base/PrimeEd25519P.v). *)
From Coq Require Import ZArith Znumtheory Lia Nsatz.
From Coq Require Import Ncring Cring Integral_domain Morphisms Setoid.
From V.C16 Require Import Curve CurveProofs.
Local Open Scope Z_scope.

Notation p := fp (only parsing).
Definition p_prime : prime fp := fp_prime.
Lemma p_nz : fp <> 0. Proof. unfold fp; lia. Qed.

Definition eqm (a b : Z) : Prop := a mod p = b mod p.
#[global] Instance eqm_equiv : Equivalence eqm.
Proof. split; unfold eqm; [intro; reflexivity | intros x y H; symmetry; exact H | intros x y z H1 H2; congruence]. Qed.
#[global] Instance Mops : @Ring_ops Z 0 1 Z.add Z.mul Z.sub Z.opp eqm := {}.
Lemma eqm_div a b : eqm a b <-> (p | a - b).
Proof.
  unfold eqm. split.
  - intro H. apply Z.mod_divide; [exact p_nz|]. rewrite Zminus_mod, H, Z.sub_diag. apply Z.mod_0_l. exact p_nz.
  - intros [k Hk]. replace a with (b + k * p) by lia. apply Z.mod_add. exact p_nz.
Qed.
#[global] Instance add_proper : Proper (eqm ==> eqm ==> eqm) Z.add.
Proof. intros a b H c d H'. unfold eqm in *. rewrite Z.add_mod, H, H', <- Z.add_mod by exact p_nz. reflexivity. Qed.
#[global] Instance mul_proper : Proper (eqm ==> eqm ==> eqm) Z.mul.
Proof. intros a b H c d H'. unfold eqm in *. rewrite Z.mul_mod, H, H', <- Z.mul_mod by exact p_nz. reflexivity. Qed.
#[global] Instance opp_proper : Proper (eqm ==> eqm) Z.opp.
Proof. intros a b H. apply eqm_div in H. apply eqm_div. destruct H as [k Hk]. exists (-k). lia. Qed.
#[global] Instance sub_proper : Proper (eqm ==> eqm ==> eqm) Z.sub.
Proof. intros a b H c d H'. apply eqm_div in H, H'. apply eqm_div. destruct H as [k Hk], H' as [j Hj]. exists (k - j). lia. Qed.
#[global] Instance Mri : (Ring (Ro:=Mops)).
Proof.
  constructor; try exact eqm_equiv; try exact add_proper; try exact mul_proper; try exact sub_proper; try exact opp_proper;
  intros; lazy [equality addition multiplication subtraction opposite zero one eq_notation add_notation mul_notation sub_notation opp_notation zero_notation one_notation eqm]; f_equal; ring.
Qed.
#[global] Instance Mcri : (Cring (Rr:=Mri)).
Proof. red. intros. lazy [equality multiplication eq_notation mul_notation eqm]. f_equal. ring. Qed.
#[global] Instance Mdi : (Integral_domain (Rcr:=Mcri)).
Proof.
  constructor.
  - intros x y H. cbn in *. apply eqm_div in H. rewrite Z.sub_0_r in H.
    apply prime_mult in H; [|exact p_prime]. destruct H; [left|right]; apply eqm_div; rewrite Z.sub_0_r; assumption.
  - intro H. apply eqm_div in H. rewrite Z.sub_0_r in H. pose proof (prime_ge_2 _ p_prime).
    apply Z.divide_1_r_nonneg in H; lia.
Qed.

