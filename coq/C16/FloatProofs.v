(* C16 — for-all results about the integer model of the float64 path of calQn (Model.f64_of_q,
   f64_floor, f64_int, qn_float): inside the range of the rule the conversion never leaves the normal
   exponent range, float64(n) is exact below 2^53, and Floor(Float64(a/b)) lies in {floor(a/b),
   floor(a/b)+1}.  Hence the quality number the code computes is the exact one or the exact one + 1,
   and an accepted proof gets 1 <= qn <= MaxQN + 1 (the upper end is attained: Proofs.qn_float_refuted). *)
From Coq Require Import List NArith ZArith Bool Lia.
From V.Base Require Import Hex BigEndian.
From V.C16 Require Import Model Proofs.
Import ListNotations.
Local Open Scope Z_scope.

(* ---- rounding quotient ---- *)
Lemma rne_div_bounds num den : num / den <= rne_div num den <= num / den + 1.
Proof.
  unfold rne_div.
  destruct (2 * (num mod den) <? den); [lia|].
  destruct (den <? 2 * (num mod den)); [lia|].
  destruct (Z.even (num / den)); lia.
Qed.

Lemma rne_div_exact q den : 0 < den -> rne_div (q * den) den = q.
Proof.
  intro Hd. unfold rne_div. rewrite Z.mod_mul, Z.div_mul by lia.
  destruct (Z.ltb_spec (2 * 0) den); [reflexivity | lia].
Qed.

(* ---- the binary exponent chosen by f64_of_q ---- *)
Definition lgq (a b : Z) : Z :=
  let k := Z.log2 a - Z.log2 b in
  let ge := if 0 <=? k then b * 2 ^ k <=? a else b <=? a * 2 ^ (- k) in
  if ge then k else k - 1.

Lemma f64_of_q_unfold a b : a <> 0 ->
  f64_of_q a b =
  if (lgq a b <? -1022) || (1022 <? lgq a b) then None else
  let e := lgq a b - 52 in
  Some (if 0 <=? e then rne_div a (b * 2 ^ e) else rne_div (a * 2 ^ (- e)) b, e).
Proof.
  intro Ha. unfold f64_of_q, lgq. destruct (Z.eqb_spec a 0); [contradiction|]. reflexivity.
Qed.

Lemma pow2_pos x : 0 <= x -> 0 < 2 ^ x.
Proof. intro. apply Z.pow_pos_nonneg; lia. Qed.

Lemma pow2_mono x y : 0 <= x <= y -> 2 ^ x <= 2 ^ y.
Proof. intro. apply Z.pow_le_mono_r; lia. Qed.

Lemma pow2_split x y : 0 <= x -> 0 <= y -> 2 ^ (x + y) = 2 ^ x * 2 ^ y.
Proof. intros. apply Z.pow_add_r; lia. Qed.

(* 2^lg <= a/b, used for lg >= 0 only *)
Lemma lgq_upper a b j : 0 < a -> 0 < b -> 0 <= j -> a < b * 2 ^ j -> lgq a b < j.
Proof.
  intros Ha Hb Hj Hlt.
  destruct (Z.log2_spec a Ha) as [La1 La2]. destruct (Z.log2_spec b Hb) as [Lb1 Lb2].
  pose proof (Z.log2_nonneg a) as Hla. pose proof (Z.log2_nonneg b) as Hlb.
  unfold lgq. set (k := Z.log2 a - Z.log2 b).
  destruct (Z.lt_ge_cases (if (if 0 <=? k then b * 2 ^ k <=? a else b <=? a * 2 ^ (- k)) then k else k - 1) j)
    as [|Hge]; [assumption|exfalso].
  destruct (Z.leb_spec 0 k) as [Hk|Hk].
  - destruct (Z.leb_spec (b * 2 ^ k) a) as [Hle|Hgt].
    + assert (2 ^ j <= 2 ^ k) by (apply pow2_mono; lia). nia.
    + (* lg = k - 1 >= j >= 0 : b * 2^(k-1) < 2^(lb+1) * 2^(k-1) = 2^la <= a *)
      assert (Hk1 : 0 <= k - 1) by lia.
      assert (E : 2 ^ Z.log2 a = 2 ^ (Z.succ (Z.log2 b)) * 2 ^ (k - 1)).
      { rewrite <- pow2_split by lia. f_equal. unfold k. lia. }
      assert (2 ^ j <= 2 ^ (k - 1)) by (apply pow2_mono; lia).
      pose proof (pow2_pos (k - 1) Hk1). nia.
  - destruct (b <=? a * 2 ^ (- k)); lia.
Qed.

(* a/b < 2^(lg+1), used for lg + 1 <= 0 only *)
Lemma lgq_lower a b j : 0 < a -> 0 < b -> 0 <= j -> b <= a * 2 ^ j -> - j <= lgq a b.
Proof.
  intros Ha Hb Hj Hle.
  destruct (Z.log2_spec a Ha) as [La1 La2]. destruct (Z.log2_spec b Hb) as [Lb1 Lb2].
  pose proof (Z.log2_nonneg a) as Hla. pose proof (Z.log2_nonneg b) as Hlb.
  unfold lgq. set (k := Z.log2 a - Z.log2 b).
  destruct (Z.le_gt_cases (- j) (if (if 0 <=? k then b * 2 ^ k <=? a else b <=? a * 2 ^ (- k)) then k else k - 1))
    as [|Hlt]; [assumption|exfalso].
  destruct (Z.leb_spec 0 k) as [Hk|Hk].
  - destruct (Z.leb_spec (b * 2 ^ k) a) as [Hle'|Hgt].
    + lia.
    + (* lg = k - 1 < - j <= 0, so k = 0 and j = 0 : a < b <= a *)
      assert (k = 0) by lia. assert (j = 0) by lia. subst j. rewrite H in Hgt.
      change (2 ^ 0) with 1 in *. lia.
  - destruct (Z.leb_spec b (a * 2 ^ (- k))) as [Hle'|Hgt].
    + (* lg = k < - j : a * 2^(-(k+1)) < 2^(la+1) * 2^(-k-1) = 2^lb <= b, and j <= -k-1 *)
      assert (Hj' : j <= - k - 1) by lia.
      assert (E : 2 ^ Z.log2 b = 2 ^ (Z.succ (Z.log2 a)) * 2 ^ (- k - 1)).
      { rewrite <- pow2_split by lia. f_equal. unfold k. lia. }
      assert (2 ^ j <= 2 ^ (- k - 1)) by (apply pow2_mono; lia).
      pose proof (pow2_pos j Hj). nia.
    + (* lg = k - 1 < - j : a * 2^j <= a * 2^(-k) < b *)
      assert (2 ^ j <= 2 ^ (- k)) by (apply pow2_mono; lia). nia.
Qed.

(* shape of the conversion for 0 < a/b < 2^53, a/b >= 2^-1022 *)
Lemma f64_of_q_form a b :
  0 < a -> 0 < b -> a < b * 2 ^ 53 -> b <= a * 2 ^ 1022 ->
  exists e, e <= 0 /\ f64_of_q a b = Some (rne_div (a * 2 ^ (- e)) b, e).
Proof.
  intros Ha Hb Hu Hl.
  pose proof (lgq_upper a b 53 Ha Hb ltac:(lia) Hu) as H1.
  pose proof (lgq_lower a b 1022 Ha Hb ltac:(lia) Hl) as H2.
  rewrite f64_of_q_unfold by lia.
  destruct (Z.ltb_spec (lgq a b) (-1022)); [lia|].
  destruct (Z.ltb_spec 1022 (lgq a b)); [lia|]. cbn [orb]. cbv zeta.
  exists (lgq a b - 52). split; [lia|].
  destruct (Z.leb_spec 0 (lgq a b - 52)) as [He|He]; [|reflexivity].
  assert (E0 : lgq a b - 52 = 0) by lia. rewrite E0.
  change (- 0) with 0. change (2 ^ 0) with 1. rewrite !Z.mul_1_r. reflexivity.
Qed.

Lemma f64_floor_form m e : e <= 0 -> f64_floor (m, e) = m / 2 ^ (- e).
Proof.
  intro He. cbn [f64_floor]. destruct (Z.leb_spec 0 e) as [H|H]; [|reflexivity].
  assert (e = 0) by lia. subst e. change (- 0) with 0. change (2 ^ 0) with 1.
  rewrite Z.mul_1_r, Z.div_1_r. reflexivity.
Qed.

(* Floor(Float64(a/b)) is floor(a/b) or floor(a/b) + 1 when floor(a/b) + 1 <= 2^53 *)
Lemma f64_floor_bracket a b n :
  0 <= a -> 0 < b -> 0 <= n -> n + 1 <= 2 ^ 53 -> n * b <= a < (n + 1) * b ->
  (a = 0 \/ b <= a * 2 ^ 1022) ->
  exists f, f64_of_q a b = Some f /\ n <= f64_floor f <= n + 1.
Proof.
  intros Ha Hb Hn Hn53 Hbr Hlow.
  destruct (Z.eq_dec a 0) as [->|Hne].
  - exists (0, 0). split; [reflexivity|]. cbn. nia.
  - assert (Ha' : 0 < a) by lia.
    assert (Hl : b <= a * 2 ^ 1022) by (destruct Hlow; [contradiction | assumption]).
    assert (Hu : a < b * 2 ^ 53) by nia.
    destruct (f64_of_q_form a b Ha' Hb Hu Hl) as (e & He & E).
    eexists. split; [exact E|]. rewrite f64_floor_form by exact He.
    set (K := 2 ^ (- e)). assert (HK : 0 < K) by (apply pow2_pos; lia).
    pose proof (rne_div_bounds (a * K) b) as [R1 R2].
    assert (Q1 : n * K <= a * K / b) by (apply Z.div_le_lower_bound; nia).
    assert (Q2 : a * K / b < (n + 1) * K) by (apply Z.div_lt_upper_bound; nia).
    split.
    + apply Z.div_le_lower_bound; nia.
    + apply Z.div_le_upper_bound; nia.
Qed.

(* float64(n) is exact for 0 <= n < 2^53 *)
Lemma f64_int_small n : 0 <= n < 2 ^ 53 -> f64_int n = n.
Proof.
  intros [Hn Hlt]. unfold f64_int.
  destruct (Z.eq_dec n 0) as [->|Hne]; [reflexivity|].
  destruct (f64_of_q_form n 1) as (e & He & E); try lia.
  rewrite E, f64_floor_form by exact He.
  set (K := 2 ^ (- e)). assert (HK : 0 < K) by (apply pow2_pos; lia).
  replace (n * K) with ((n * K) * 1) by lia. rewrite rne_div_exact by lia.
  apply Z.div_mul. lia.
Qed.

Lemma div_bracket a b : 0 < b -> a / b * b <= a < (a / b + 1) * b.
Proof.
  intro Hb. pose proof (Z.mul_div_le a b Hb). pose proof (Z.mul_succ_div_gt a b Hb).
  set (q := a / b) in *. lia.
Qed.

(* ---- the quality number: float path vs exact rule ---- *)
Lemma qn_float_vs_exact p v snum sden :
  1 <= maxqn p -> maxqn p < 2 ^ 52 -> 0 <= v <= max256 -> 0 <= sden -> snum < 2 ^ 63 ->
  (v < max256 \/ snum <= sden) ->
  ok_of v snum sden = true ->
  exists n, qn_exact p v snum sden = QN n /\ 1 <= n <= maxqn p /\
            (qn_float p v snum sden = QN n \/ qn_float p v snum sden = QN (n + 1)).
Proof.
  intros Hq Hq52 Hv Hs Hsn Hguard Hok.
  destruct (qn_exact_range p v snum sden Hq ltac:(lia) Hs Hguard Hok) as (n & En & Hn).
  exists n. split; [exact En|]. split; [exact Hn|].
  unfold ok_of in Hok. apply Z.ltb_lt in Hok.
  assert (Hmax : 0 < max256) by (unfold max256; lia).
  assert (Hmax' : max256 < 2 ^ 256) by (unfold max256; lia).
  assert (Hsn0 : 0 < snum) by nia.
  unfold qn_exact in En. unfold qn_float.
  set (M := max256) in *. clearbody M.
  destruct (clamp1 snum sden) as [cn cd] eqn:Ec.
  assert (Hc : 0 < cn /\ cn < 2 ^ 63 /\ 1 <= cd /\ v * cd < cn * M).
  { unfold clamp1 in Ec. destruct (Z.ltb_spec sden snum) as [Hgt|Hle]; inversion Ec; subst.
    - destruct Hguard; repeat split; lia.
    - repeat split; lia. }
  destruct Hc as (Hcn & Hcn63 & Hcd & Hlt).
  destruct (Z.eqb_spec cn 0); [lia|]. destruct (Z.ltb_spec cn 0); [lia|].
  injection En as En'.
  set (a := v * maxqn p * cd) in *. set (b := M * cn) in *.
  assert (Hb : 0 < b) by (unfold b; nia).
  assert (Ha : 0 <= a) by (unfold a; nia).
  assert (Hbr : (n - 1) * b <= a < (n - 1 + 1) * b).
  { subst n. replace (a / b + 1 - 1) with (a / b) by lia. apply div_bracket, Hb. }
  assert (Hlow : a = 0 \/ b <= a * 2 ^ 1022).
  { destruct (Z.eq_dec v 0) as [->|Hv0]; [left; unfold a; lia|right].
    assert (1 <= a) by (unfold a; nia).
    assert (b < 2 ^ 256 * 2 ^ 63) by (unfold b; nia).
    assert (2 ^ 256 * 2 ^ 63 <= 2 ^ 1022) by (rewrite <- Z.pow_add_r by lia; apply pow2_mono; lia).
    nia. }
  destruct (f64_floor_bracket a b (n - 1) Ha Hb ltac:(lia) ltac:(lia) Hbr Hlow) as (f & Ef & Hf).
  rewrite Ef.
  assert (Hsmall : 0 <= f64_floor f + 1 < 2 ^ 53) by lia.
  rewrite (f64_int_small _ Hsmall).
  destruct (Z.ltb_spec (f64_floor f + 1) (2 ^ 64)) as [_|Hbig]; [|lia].
  assert (Hcases : f64_floor f = n - 1 \/ f64_floor f = n) by lia.
  destruct Hcases as [-> | ->]; [left | right]; f_equal; lia.
Qed.

Lemma i64_bound z : - 2 ^ 63 <= i64 z < 2 ^ 63.
Proof.
  unfold i64. pose proof (Z.mod_pos_bound z (2 ^ 64) ltac:(lia)).
  destruct (Z.ltb_spec (z mod 2 ^ 64) (2 ^ 63)); lia.
Qed.

Lemma firstn_bytes_ok n (l : bytes) : bytes_ok l -> bytes_ok (firstn n l).
Proof.
  unfold bytes_ok. intro H. revert n. induction H as [|x l Hx Hl IH]; intros [|n]; cbn; constructor; auto.
Qed.

Lemma pad80_bytes_ok (l : bytes) : bytes_ok l -> bytes_ok (pad80 l).
Proof.
  intro H. unfold pad80, pad_to. destruct (Nat.leb prove_size (length l)); [exact H|].
  apply bytes_ok_app; [|exact H]. unfold bytes_ok. apply Forall_forall. intros x Hx.
  apply repeat_spec in Hx. subst x. unfold byte_ok. reflexivity.
Qed.

Lemma vrf_value_bound (pi : bytes) : bytes_ok pi -> 0 <= Z.of_N (vrf_value pi) <= max256.
Proof.
  intro Hok. split; [lia|]. unfold vrf_value, proof2hash.
  assert (Hb : bytes_ok (firstn 32 (pad80 pi))) by (apply firstn_bytes_ok, pad80_bytes_ok, Hok).
  pose proof (bev_bound _ Hb) as Hlt.
  assert (Hl : (length (firstn 32 (pad80 pi)) <= 32)%nat) by apply firstn_le_length.
  assert (Hp : (256 ^ N.of_nat (length (firstn 32 (pad80 pi))) <= 256 ^ 32)%N).
  { apply N.pow_le_mono_r; lia. }
  assert (Hz : (bev (firstn 32 (pad80 pi)) < 256 ^ 32)%N) by lia.
  unfold max256. change (2 ^ 256) with (Z.of_N (256 ^ 32)). lia.
Qed.

(* validateProve as computed (float path) against the exact rule, for every proof, height, miner
   count and total stake: same ok flag; when accepted, the exact qn is in 1..MaxQN and the computed
   qn is the exact one or the exact one + 1 *)
Lemma validate_float_vs_exact p (pi : bytes) h wm ts q :
  1 <= maxqn p -> maxqn p < 2 ^ 52 -> bytes_ok pi -> 0 <= ts ->
  (Z.of_N (vrf_value pi) < max256 \/ stake_num p h wm ts <= stake_den ts) ->
  validate_float p pi h wm ts = VR true q ->
  exists n, validate_exact p pi h wm ts = VR true (QN n) /\ 1 <= n <= maxqn p /\
            (q = QN n \/ q = QN (n + 1)).
Proof.
  intros Hq Hq52 Hok Hts Hguard. unfold validate_float, validate_exact, validate_with.
  destruct (ts =? 0); [intro H; inversion H|].
  intro H. injection H as Hokf Hqn. subst q. rewrite Hokf.
  destruct (qn_float_vs_exact p (Z.of_N (vrf_value pi)) (stake_num p h wm ts) (stake_den ts))
    as (n & En & Hn & Hf); auto.
  - apply vrf_value_bound, Hok.
  - apply f64_int_nonneg, Hts.
  - apply i64_bound.
  - exists n. rewrite En. auto.
Qed.

Lemma validate_float_range p (pi : bytes) h wm ts q :
  1 <= maxqn p -> maxqn p < 2 ^ 52 -> bytes_ok pi -> 0 <= ts ->
  (Z.of_N (vrf_value pi) < max256 \/ stake_num p h wm ts <= stake_den ts) ->
  validate_float p pi h wm ts = VR true q ->
  exists n, q = QN n /\ 1 <= n <= maxqn p + 1.
Proof.
  intros Hq Hq52 Hok Hts Hguard Hv.
  destruct (validate_float_vs_exact p pi h wm ts q Hq Hq52 Hok Hts Hguard Hv) as (n & _ & Hn & [E|E]).
  - exists n. split; [exact E | lia].
  - exists (n + 1). split; [exact E | lia].
Qed.
