(* C16 — algebraic model of ECVRF-ED25519-SHA512-Elligator2 as implemented in
   src/common/ed25519/vrf.go (ECVRFProve / ECVRFVerify / hashToCurve / hashPoints /
   vrfNonceGeneration) and src/consensus/vrf/vrf.go (VRFProof2Hash).
   The curve group is abstract: an abelian group with integer scalar multiplication whose every
   element is killed by 8*ell (ell prime), a base point B of order exactly ell generating the
   ell-torsion (the curve group is cyclic).  The hashes are arbitrary functions of the record:
     E   : Elligator2 image of SHA512(suite,1,pk,m) BEFORE the three doublings (cofactor clearing),
     Hc  : hashPoints, the 16-byte challenge, as an integer in [0, cbound), cbound <= ell (2^128 < ell),
     nonce : vrfNonceGeneration (a function of the secret key's hash half and H; no randomness).
   Points stand for their 32-byte encodings (the encoding is injective on points), so "the raw first
   32 bytes of the proof" is the point Gamma itself.  No proofs in this file. *)
From Coq Require Import ZArith Znumtheory Bool.
Local Open Scope Z_scope.

Record World := {
  G : Type;
  zero : G; add : G -> G -> G; neg : G -> G; smul : Z -> G -> G;
  geqb : G -> G -> bool;
  geqb_spec : forall a b, geqb a b = true <-> a = b;
  add_assoc : forall a b c, add a (add b c) = add (add a b) c;
  add_comm : forall a b, add a b = add b a;
  add_0_l : forall a, add zero a = a;
  add_neg_r : forall a, add a (neg a) = zero;
  smul_add_l : forall m n P, smul (m + n) P = add (smul m P) (smul n P);
  smul_add_r : forall n P Q, smul n (add P Q) = add (smul n P) (smul n Q);
  smul_mul : forall m n P, smul (m * n) P = smul m (smul n P);
  smul_1 : forall P, smul 1 P = P;
  ell : Z;
  ell_prime : prime ell;
  order8l : forall P, smul (8 * ell) P = zero;
  B : G;
  B_order : forall n, smul n B = zero <-> (ell | n);
  cyclic : forall P, smul ell P = zero -> exists n, P = smul n B;
  Msg : Type;
  E : G -> Msg -> G;
  Hc : G -> G -> G -> G -> Z;
  cbound : Z;
  cbound_ok : 0 < cbound <= ell;
  Hc_range : forall a b c d, 0 <= Hc a b c d < cbound;
  nonce : Z -> G -> Z
}.

Section VRF.
Variable W : World.
Notation G := (G W).
Notation add := (add W).
Notation smul := (smul W).
Notation B := (B W).
Notation ell := (ell W).

Definition sub (a b : G) : G := add a (neg W b).

(* hashToCurve: Elligator2, then multiply by the cofactor *)
Definition hash_to_curve (Y : G) (m : Msg W) : G := smul 8 (E W Y m).

(* a proof: Gamma (pi[0:32]), c (pi[32:48]), s (pi[48:80]) *)
Definition proof : Type := G * Z * Z.

(* a secret key: the clamped scalar x and the second half t of SHA512(seed) *)
Definition pubkey (x : Z) : G := smul x B.

(* ECVRFProve *)
Definition prove (x t : Z) (m : Msg W) : proof :=
  let Y := pubkey x in
  let H := hash_to_curve Y m in
  let Gm := smul x H in
  let k := nonce W t H in
  let c := Hc W H Gm (smul k B) (smul k H) in
  (Gm, c, (c * x + k) mod ell).

(* the four points ECVRFVerify feeds to hashPoints *)
Definition query (Y : G) (p : proof) (m : Msg W) : G * G * G * G :=
  let '(Gm, c, s) := p in
  let H := hash_to_curve Y m in
  let s' := s mod ell in
  (H, Gm, sub (smul s' B) (smul c Y), sub (smul s' H) (smul c Gm)).

Definition Hc4 (q : G * G * G * G) : Z := let '(a, b, c, d) := q in Hc W a b c d.

(* ECVRFVerify (after padding and decoding) *)
Definition verify (Y : G) (p : proof) (m : Msg W) : bool :=
  let '(_, c, _) := p in Hc4 (query Y p m) =? c.

(* VRFProof2Hash as written: the raw encoding of Gamma *)
Definition output_enc (p : proof) : G := let '(Gm, _, _) := p in Gm.
(* the specified output: a function of the cofactor-cleared point 8*Gamma *)
Definition output_cof (p : proof) : G := let '(Gm, _, _) := p in smul 8 Gm.

(* an adversarial prover who knows x: shifts Gamma by T and picks its own nonce k *)
Definition shifted (x : Z) (m : Msg W) (T : G) (k : Z) : proof :=
  let Y := pubkey x in
  let H := hash_to_curve Y m in
  let Gm := add (smul x H) T in
  let c := Hc W H Gm (smul k B) (smul k H) in
  (Gm, c, (c * x + k) mod ell).

(* "c can be answered for the commitments U, V": some s satisfies both verification equations *)
Definition answerable (Y H Gm U V : G) (c : Z) : Prop :=
  exists s, U = sub (smul s B) (smul c Y) /\ V = sub (smul s H) (smul c Gm).

(* the one way a proof with a wrong Gamma (8*Gamma <> 8*x*H) can be accepted: the challenge hash,
   evaluated at the query this proof determines, returned the single challenge value (mod ell) that
   can be answered for that query — for an ideal 128-bit hash an event of probability 2^-128 per
   evaluation *)
Definition lucky_hit (x : Z) (m : Msg W) (p : proof) : Prop :=
  let '(Gm, c, s) := p in
  let Y := pubkey x in
  let '(H, _, U, V) := query Y p m in
  smul 8 Gm <> smul (8 * x) H /\ Hc W H Gm U V = c /\ answerable Y H Gm U V c /\
  forall c', answerable Y H Gm U V c' -> (ell | c' - c).

(* verification on bytes: pad (Model.pad80), decode with any decoder, run the equations *)
Definition verify_bytes (dec : list N -> option proof) (Y : G) (m : Msg W) (b80 : list N) : bool :=
  match dec b80 with Some p => verify Y p m | None => false end.

End VRF.
