(* C16 — a concrete World (Vrf.v): the cyclic group Z/40 (ell = 5, cofactor 8), base point 8,
   small-order point 20, with a non-constant challenge hash.  It shows that the hypotheses of the
   algebraic theorems are satisfiable and carries the witness of the output-uniqueness refutation. *)
From Coq Require Import List NArith ZArith Znumtheory Bool Lia Eqdep_dec.
From V.Base Require Import Hex.
From V.C16 Require Import Vrf VrfProofs.
Local Open Scope Z_scope.

Definition n40 : Z := 40.
Definition Z40 : Type := { z : Z | (z mod n40 =? z) = true }.

Lemma mk_ok z : ((z mod n40) mod n40 =? z mod n40) = true.
Proof. apply Z.eqb_eq. apply Z.mod_mod. unfold n40; lia. Qed.
Definition mk (z : Z) : Z40 := exist _ (z mod n40) (mk_ok z).
Definition val (a : Z40) : Z := proj1_sig a.

Lemma Z40_eq (a b : Z40) : val a = val b -> a = b.
Proof.
  destruct a as [x Hx], b as [y Hy]. cbn. intro E. subst y. f_equal.
  apply UIP_dec. apply bool_dec.
Qed.

Lemma val_mk z : val (mk z) = z mod n40.
Proof. reflexivity. Qed.

Lemma val_canon a : val a mod n40 = val a.
Proof. destruct a as [x Hx]. cbn. apply Z.eqb_eq. exact Hx. Qed.

Lemma mk_val a : mk (val a) = a.
Proof. apply Z40_eq. rewrite val_mk. apply val_canon. Qed.

Definition zadd (a b : Z40) : Z40 := mk (val a + val b).
Definition zneg (a : Z40) : Z40 := mk (- val a).
Definition zsmul (n : Z) (a : Z40) : Z40 := mk (n * val a).
Definition zeqb (a b : Z40) : bool := val a =? val b.

Lemma zeqb_spec a b : zeqb a b = true <-> a = b.
Proof.
  unfold zeqb. rewrite Z.eqb_eq. split; [apply Z40_eq | intros ->; reflexivity].
Qed.

Ltac z40 := intros; apply Z40_eq; unfold zadd, zneg, zsmul; rewrite ?val_mk.

Lemma zadd_assoc a b c : zadd a (zadd b c) = zadd (zadd a b) c.
Proof. z40. rewrite Z.add_mod_idemp_r, Z.add_mod_idemp_l by (unfold n40; lia). f_equal. lia. Qed.
Lemma zadd_comm a b : zadd a b = zadd b a.
Proof. z40. f_equal. lia. Qed.
Lemma zadd_0_l a : zadd (mk 0) a = a.
Proof. z40. cbn [Z.add]. change (0 mod n40) with 0. rewrite Z.add_0_l. apply val_canon. Qed.
Lemma zadd_neg_r a : zadd a (zneg a) = mk 0.
Proof. z40. rewrite Z.add_mod_idemp_r by (unfold n40; lia). f_equal. lia. Qed.
Lemma zsmul_add_l m n P : zsmul (m + n) P = zadd (zsmul m P) (zsmul n P).
Proof. z40. rewrite <- Z.add_mod by (unfold n40; lia). f_equal. lia. Qed.
Lemma zsmul_add_r n P Q : zsmul n (zadd P Q) = zadd (zsmul n P) (zsmul n Q).
Proof.
  z40. rewrite <- Z.add_mod by (unfold n40; lia). rewrite Z.mul_mod_idemp_r by (unfold n40; lia).
  f_equal. lia.
Qed.
Lemma zsmul_mul m n P : zsmul (m * n) P = zsmul m (zsmul n P).
Proof. z40. rewrite Z.mul_mod_idemp_r by (unfold n40; lia). f_equal. lia. Qed.
Lemma zsmul_1 P : zsmul 1 P = P.
Proof. z40. rewrite Z.mul_1_l. apply val_canon. Qed.

Lemma prime_5 : prime 5.
Proof.
  apply prime_intro; [lia|]. intros n Hn.
  assert (Hc : n = 1 \/ n = 2 \/ n = 3 \/ n = 4) by lia.
  destruct Hc as [Hc|[Hc|[Hc|Hc]]]; subst n; apply Zgcd_1_rel_prime; reflexivity.
Qed.

Lemma zorder P : zsmul (8 * 5) P = mk 0.
Proof. z40. change (8 * 5) with n40. rewrite Z.mul_comm. rewrite Z.mod_mul by (unfold n40; lia). reflexivity. Qed.

Lemma zB_order n : zsmul n (mk 8) = mk 0 <-> (5 | n).
Proof.
  split.
  - intro H. apply (f_equal val) in H. unfold zsmul in H. rewrite !val_mk in H.
    change (8 mod n40) with 8 in H. change (0 mod n40) with 0 in H.
    apply Z.mod_divide in H; [|unfold n40; lia]. destruct H as [q Hq]. exists q. unfold n40 in Hq. lia.
  - intros [q ->]. z40. change (8 mod n40) with 8. change (0 mod n40) with 0.
    replace (q * 5 * 8) with (q * n40) by (unfold n40; lia). apply Z.mod_mul. unfold n40; lia.
Qed.

Lemma zcyclic P : zsmul 5 P = mk 0 -> exists n, P = zsmul n (mk 8).
Proof.
  intro H. apply (f_equal val) in H. unfold zsmul in H. rewrite !val_mk in H.
  change (0 mod n40) with 0 in H. apply Z.mod_divide in H; [|unfold n40; lia].
  destruct H as [q Hq]. exists q. z40. change (8 mod n40) with 8.
  replace (q * 8) with (val P) by (unfold n40 in Hq; lia). symmetry. apply val_canon.
Qed.

(* oracles of the toy world: messages are integers *)
Definition tE (Y : Z40) (m : Z) : Z40 := mk (2 * val Y + m + 1).
Definition tHc (a b c d : Z40) : Z := (val a / 8 + val b + val b / 8 + 3 * (val c / 8) + 2 * (val d / 8) + 1) mod 4.
Definition tnonce (t : Z) (H : Z40) : Z := (t + val H) mod 5.

Lemma tHc_range a b c d : 0 <= tHc a b c d < 4.
Proof. unfold tHc. apply Z.mod_pos_bound. lia. Qed.

Definition toy : World := {|
  G := Z40; zero := mk 0; add := zadd; neg := zneg; smul := zsmul; geqb := zeqb;
  geqb_spec := zeqb_spec;
  add_assoc := zadd_assoc; add_comm := zadd_comm; add_0_l := zadd_0_l; add_neg_r := zadd_neg_r;
  smul_add_l := zsmul_add_l; smul_add_r := zsmul_add_r; smul_mul := zsmul_mul; smul_1 := zsmul_1;
  ell := 5; ell_prime := prime_5; order8l := zorder;
  B := mk 8; B_order := zB_order; cyclic := zcyclic;
  Msg := Z; E := tE; Hc := tHc; cbound := 4; cbound_ok := ltac:(lia); Hc_range := tHc_range;
  nonce := tnonce
|}.

Definition proof_eqb (p q : proof toy) : bool :=
  let '(g1, c1, s1) := p in let '(g2, c2, s2) := q in zeqb g1 g2 && (c1 =? c2) && (s1 =? s2).

(* honest proof for x = 3, m = 2 and the proof shifted by the order-2 point 20 with nonce 0 *)
Lemma toy_two_outputs : exists (W : World) (x : Z) (m : Msg W) (p1 p2 : proof W),
  verify W (pubkey W x) p1 m = true /\ verify W (pubkey W x) p2 m = true /\
  output_enc W p1 <> output_enc W p2 /\ output_cof W p1 = output_cof W p2.
Proof.
  exists toy, 3, 2, (prove toy 3 1 2), (shifted toy 3 2 (mk 20) 0).
  split; [vm_compute; reflexivity|]. split; [vm_compute; reflexivity|]. split.
  - intro E. apply (f_equal val) in E. vm_compute in E. discriminate.
  - apply Z40_eq. vm_compute. reflexivity.
Qed.

(* an 80-byte codec for the toy world's honest proofs (Gamma in byte 0, c in byte 32, s in byte 48):
   the hypotheses of C16_complete_after_transport are satisfiable *)
Definition toy_enc (p : proof toy) : list N :=
  let '(g, c, s) := p in
  (Z.to_N (val g) :: repeat 0%N 31) ++ (Z.to_N c :: repeat 0%N 15) ++ (Z.to_N s :: repeat 0%N 31).
Definition toy_dec (b : list N) : option (proof toy) :=
  Some (mk (Z.of_N (nth 0 b 0%N)), Z.of_N (nth 32 b 0%N), Z.of_N (nth 48 b 0%N)).

Lemma val_range a : 0 <= val a < n40.
Proof. rewrite <- val_canon. apply Z.mod_pos_bound. unfold n40; lia. Qed.

Lemma toy_codec x t m :
  let p := prove toy x t m in
  toy_dec (toy_enc p) = Some p /\ bytes_ok (toy_enc p) /\ length (toy_enc p) = 80%nat.
Proof.
  cbv zeta. unfold prove.
  set (g := smul toy x _). set (c := Hc toy _ _ _ _). set (s := (_ mod ell toy)).
  assert (Hc : 0 <= c < 4) by apply tHc_range.
  assert (Hs : 0 <= s < 5) by (apply Z.mod_pos_bound; reflexivity).
  pose proof (val_range g) as Hg. unfold n40 in Hg.
  split; [|split].
  - unfold toy_dec, toy_enc. cbn [repeat app nth]. rewrite !Z2N.id by lia.
    change (mk (val g)) with (mk (val g)). rewrite mk_val. reflexivity.
  - unfold toy_enc. apply bytes_okb_spec. cbn [repeat app bytes_okb forallb].
    rewrite !andb_true_r. rewrite !andb_true_iff. repeat split; apply N.ltb_lt; lia.
  - reflexivity.
Qed.
