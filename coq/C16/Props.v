(* C16 — property theorems only (statements + [exact]); proofs are in Proofs.v / VrfProofs.v / VrfInst.v. *)
From Coq Require Import List NArith ZArith Znumtheory Bool.
From V.Base Require Import Hex BigEndian.
From V.C16 Require Import Model Proofs FloatProofs Vrf VrfProofs VrfInst VrfEll Curve CurveProofs FieldMod CurveClosure
  CurveDecompress CurveAdd CurveComplete CurveEncode Sha3 Header KeyCodec.
Import ListNotations.
Local Open Scope Z_scope.

(* ---------------- transport through the header's big integer ---------------- *)

(* big.Int drops the leading zero bytes of an 80-byte proof; tryZeroPadding restores exactly them. *)
Theorem C16_transport_roundtrip : forall pi : bytes,
  bytes_ok pi -> length pi = prove_size -> pad80 (bytes_of_big (big_of_bytes pi)) = pi.
Proof. exact pad80_transport. Qed.
Print Assumptions C16_transport_roundtrip.

(* hence verification (padding followed by ANY function of the padded bytes) is unchanged by transport *)
Theorem C16_transport : forall (vcore : bytes -> bool) (pi : bytes),
  bytes_ok pi -> length pi = prove_size ->
  verify_via vcore (transport pi) = verify_via vcore pi.
Proof. exact verify_transport. Qed.
Print Assumptions C16_transport.

(* in particular for the algebraic verifier behind any proof decoder *)
Theorem C16_transport_vrf : forall (W : World) (dec : bytes -> option (proof W)) Y m (pi : bytes),
  bytes_ok pi -> length pi = prove_size ->
  verify_via (verify_bytes W dec Y m) (transport pi) = verify_via (verify_bytes W dec Y m) pi.
Proof. exact transport_vrf. Qed.
Print Assumptions C16_transport_vrf.

(* the qualification rule (ok flag and quality number) is unchanged by transport as well *)
Theorem C16_qn_transport : forall p (pi : bytes) h wm ts,
  bytes_ok pi -> length pi = prove_size ->
  validate_float p (transport pi) h wm ts = validate_float p pi h wm ts.
Proof. exact validate_float_transport. Qed.
Print Assumptions C16_qn_transport.

(* ConsensusHelperImpl.VRFProve2Value slices the unpadded bytes: for a proof starting with a zero
   byte it reports a different lottery value than VRFProof2Hash of the proof *)
Theorem C16_helper_value_unpadded_refuted : exists pi : bytes,
  length pi = prove_size /\ bytes_okb pi = true /\
  helper_prove2value (big_of_bytes pi) <> bev (proof2hash pi).
Proof. exact helper_unpadded_refuted. Qed.
Print Assumptions C16_helper_value_unpadded_refuted.

(* the guard that excludes it: a proof whose first byte is not zero (255 of 256 proofs) *)
Theorem C16_helper_value_guarded : forall pi : bytes,
  bytes_ok pi -> hd 1%N pi <> 0%N -> helper_prove2value (big_of_bytes pi) = bev (proof2hash pi).
Proof. exact helper_value_guarded. Qed.
Print Assumptions C16_helper_value_guarded.

(* isCanonical as typed in vrf.go (uint8 arithmetic) is the constant 1: non-reduced y are accepted *)
Theorem C16_is_canonical_go_const : forall s : bytes, is_canonical_go s = 1%N.
Proof. exact is_canonical_go_const. Qed.
Print Assumptions C16_is_canonical_go_const.

(* over-long header values (more than 80 bytes), for every value b: the Gamma bytes ECVRFVerify
   decodes are exactly the bytes the qualification rule reads as the lottery value; from 80 bytes up
   nobody pads and the log helper agrees as well; a proof followed by extra bytes is seen as the proof;
   extra bytes in front (the big integer pi + k*2^640) make every consumer read the junk-prefixed
   string — so an accepted header value always carries the lottery value of the Gamma that verified *)
Theorem C16_overlong_consumers_agree :
  (forall b : bytes, verify_gamma b = lottery_reads b) /\
  (forall b : bytes, (80 <= length b)%nat ->
     verify_gamma b = firstn 32 b /\ lottery_reads b = firstn 32 b /\ helper_reads b = firstn 32 b) /\
  (forall pi junk : bytes, length pi = 80%nat ->
     verify_reads (pi ++ junk) = pi /\ lottery_reads (pi ++ junk) = proof2hash pi) /\
  (forall junk pi : bytes, length pi = 80%nat ->
     verify_reads (junk ++ pi) = firstn 80 (junk ++ pi) /\
     lottery_reads (junk ++ pi) = firstn 32 (junk ++ pi) /\
     ((length junk <= 32)%nat -> lottery_reads (junk ++ pi) = junk ++ firstn (32 - length junk) pi)).
Proof. exact (conj verify_lottery_agree (conj overlong_all_agree (conj overlong_suffix overlong_prefix))). Qed.
Print Assumptions C16_overlong_consumers_agree.

(* the VRF message genVrfMsg(Random, delta) = H^(delta-1)(Random) (H = SHA3-256 in the node): a function
   of the Random BYTES and delta only; delta <= 1 gives Random itself; one more round hashes once more *)
Theorem C16_vrf_msg_function : forall (Hsh : bytes -> bytes),
  (forall r1 r2 d1 d2, r1 = r2 -> d1 = d2 -> gen_vrf_msg Hsh r1 d1 = gen_vrf_msg Hsh r2 d2) /\
  (forall r d, d <= 1 -> gen_vrf_msg Hsh r d = r) /\
  (forall r d, 1 <= d -> gen_vrf_msg Hsh r (d + 1) = Hsh (gen_vrf_msg Hsh r d)).
Proof.
  exact (fun Hsh => conj (gen_vrf_msg_function Hsh) (conj (gen_vrf_msg_small Hsh) (gen_vrf_msg_step Hsh))).
Qed.
Print Assumptions C16_vrf_msg_function.

(* verifyBlockVRF reads, of the block header, ProveValue, CurTime, Height and TotalQN and, of the
   parent, Random, CurTime and TotalQN — nothing else (not bh.PreTime, not bh.Castor): two header pairs
   that agree on these fields get the same verdict; and an accepted block's proof verifies for the
   message H^(delta-1)(parent.Random) with delta computed from (bh.CurTime, parent.CurTime) *)
Theorem C16_block_message_binding :
  forall (Hsh : bytes -> bytes) (V : bytes -> bytes -> bytes -> bool) p pk wm ts,
  (forall bh bh' pre pre',
     h_prove bh = h_prove bh' -> h_cur bh = h_cur bh' -> h_height bh = h_height bh' ->
     h_total_qn bh = h_total_qn bh' ->
     h_random pre = h_random pre' -> h_cur pre = h_cur pre' -> h_total_qn pre = h_total_qn pre' ->
     verify_block_vrf Hsh V p bh pre pk wm ts = verify_block_vrf Hsh V p bh' pre' pk wm ts) /\
  (forall bh pre, verify_block_vrf Hsh V p bh pre pk wm ts = true ->
     V pk (h_prove bh) (gen_vrf_msg Hsh (h_random pre) (delta_of (h_cur bh) (h_cur pre))) = true).
Proof.
  exact (fun Hsh V p pk wm ts =>
    conj (fun bh bh' pre pre' => verify_block_vrf_reads Hsh V p bh bh' pre pre' pk wm ts)
         (fun bh pre => verify_block_vrf_binds Hsh V p bh pre pk wm ts)).
Qed.
Print Assumptions C16_block_message_binding.

(* key transport through hex text (GetHexString / Hex2VRFPublicKey / Hex2VRFPrivateKey): fixed-width
   hex, so every non-empty key comes back unchanged — same length, leading zero bytes kept *)
Theorem C16_key_hex_roundtrip : forall b : bytes, bytes_ok b -> b <> [] ->
  from_hex (to_hex b) = b /\ length (from_hex (to_hex b)) = length b.
Proof. exact (fun b H1 H2 => conj (hex_roundtrip b H1 H2) (hex_roundtrip_length b H1 H2)). Qed.
Print Assumptions C16_key_hex_roundtrip.

(* the proposer's worker answers a cast time with the proof for H^(delta-1)(base.Random), delta from
   (castTime, base.CurTime): the answer does not depend on the calls made before on the same worker *)
Theorem C16_worker_history_independent :
  forall (Hsh : bytes -> bytes) (P : bytes -> bytes -> bytes) sk random base_cur (h1 h2 : list Z) cast,
  last (worker_run Hsh P sk random base_cur (h1 ++ [cast])) [] =
  last (worker_run Hsh P sk random base_cur (h2 ++ [cast])) [].
Proof. exact worker_history_independent. Qed.
Print Assumptions C16_worker_history_independent.

(* ---------------- quality number ---------------- *)

(* exact rational arithmetic: whenever the rule accepts, 1 <= qn <= MaxQN — provided the lottery
   value is not the all-ones string (excluded by a working canonical-encoding check) or the stake
   ratio does not exceed 1 *)
Theorem C16_qn_range_exact : forall p (pi : bytes) h wm ts q,
  1 <= maxqn p -> 0 <= ts ->
  (Z.of_N (vrf_value pi) < max256 \/ stake_num p h wm ts <= stake_den ts) ->
  validate_exact p pi h wm ts = VR true q ->
  exists n, q = QN n /\ 1 <= n <= maxqn p.
Proof. exact validate_exact_range. Qed.
Print Assumptions C16_qn_range_exact.

(* without that guard even exact arithmetic gives MaxQN+1: value ff..ff, total stake 2 *)
Theorem C16_qn_maxvalue_refuted : exists p (pi : bytes) h wm ts,
  length pi = prove_size /\
  validate_exact p pi h wm ts = VR true (QN (maxqn p + 1)) /\
  validate_float p pi h wm ts = VR true (QN (maxqn p + 1)).
Proof. exact qn_maxvalue_refuted. Qed.
Print Assumptions C16_qn_maxvalue_refuted.

(* the float64 path of calQn: a value just below the threshold is accepted, the exact rule gives
   MaxQN, Float64(ratio/step) rounds up to MaxQN.0 and the code returns MaxQN+1 *)
Theorem C16_qn_float_refuted : exists p (pi : bytes) h wm ts,
  length pi = prove_size /\ (Z.of_N (vrf_value pi) < max256) /\
  validate_exact p pi h wm ts = VR true (QN (maxqn p)) /\
  validate_float p pi h wm ts = VR true (QN (maxqn p + 1)).
Proof. exact qn_float_refuted. Qed.
Print Assumptions C16_qn_float_refuted.

(* ... and that is all the float path can do: for every proof, height, miner count and total stake the
   computed ok flag is the exact one, the conversion stays in the normal binary64 range, and the
   computed qn is the exact qn or the exact qn + 1 (MaxQN < 2^52; the node has MaxQN = 5) *)
Theorem C16_qn_float_within_one : forall p (pi : bytes) h wm ts q,
  1 <= maxqn p -> maxqn p < 2 ^ 52 -> bytes_ok pi -> 0 <= ts ->
  (Z.of_N (vrf_value pi) < max256 \/ stake_num p h wm ts <= stake_den ts) ->
  validate_float p pi h wm ts = VR true q ->
  exists n, validate_exact p pi h wm ts = VR true (QN n) /\ 1 <= n <= maxqn p /\
            (q = QN n \/ q = QN (n + 1)).
Proof. exact validate_float_vs_exact. Qed.
Print Assumptions C16_qn_float_within_one.

(* so what validateProve computes for an accepted proof is always a number in 1..MaxQN+1 (never a
   panic, never an undefined float -> uint64 conversion); MaxQN+1 is attained (C16_qn_float_refuted) *)
Theorem C16_qn_range_float : forall p (pi : bytes) h wm ts q,
  1 <= maxqn p -> maxqn p < 2 ^ 52 -> bytes_ok pi -> 0 <= ts ->
  (Z.of_N (vrf_value pi) < max256 \/ stake_num p h wm ts <= stake_den ts) ->
  validate_float p pi h wm ts = VR true q ->
  exists n, q = QN n /\ 1 <= n <= maxqn p + 1.
Proof. exact validate_float_range. Qed.
Print Assumptions C16_qn_range_float.

(* float64(n) of the model is exact below 2^53 (uint64 -> float64 of small stakes, Floor(r) + 1) *)
Theorem C16_f64_int_exact : forall n, 0 <= n < 2 ^ 53 -> f64_int n = n.
Proof. exact f64_int_small. Qed.
Print Assumptions C16_f64_int_exact.

(* totality.  validateProve's "totalStake" is the NUMBER of registered proposers with normal status
   (MinerManager.GetProposerTotalStake returns len(proposers)), workingMiners the number of distinct
   proposers of the last 10 hours; above the difficulty switch height difficulty = totalStake /
   workingMiners, and if that is 0 calQn panics (big.Rat.Quo by a zero step) *)
Theorem C16_qn_zero_ratio_panic_refuted : exists p (pi : bytes) h wm ts,
  0 < ts < wm /\ thr p < h /\ validate_float p pi h wm ts = VR false QNPanic.
Proof. exact validate_zero_ratio_panics. Qed.
Print Assumptions C16_qn_zero_ratio_panic_refuted.

(* the exact guard: outside "workingMiners > totalStake above the switch height" (and with
   difficulty * PotentialProposalMax inside int64) the rule never panics, accepted or not *)
Theorem C16_qn_total_guarded : forall p (pi : bytes) h wm ts ok,
  0 < pp_min p <= pp_max p -> 0 <= wm ->
  ~ (wm <> 0 /\ thr p < h /\ ts < wm) ->
  difficulty p h wm ts * pp_max p < 2 ^ 63 ->
  validate_float p pi h wm ts <> VR ok QNPanic /\ validate_exact p pi h wm ts <> VR ok QNPanic.
Proof. exact validate_no_panic. Qed.
Print Assumptions C16_qn_total_guarded.

(* qn is a function of (first 32 bytes of the padded proof, height, working miners, total stake) *)
Theorem C16_qn_function : forall p (pi pi' : bytes) h wm ts,
  proof2hash (pad80 pi) = proof2hash (pad80 pi') ->
  validate_float p pi h wm ts = validate_float p pi' h wm ts.
Proof. exact validate_float_function. Qed.
Print Assumptions C16_qn_function.

(* ---------------- algebraic VRF ---------------- *)

(* completeness: for every group/hash world, key and message the generated proof verifies *)
Theorem C16_complete : forall (W : World) (x t : Z) (m : Msg W),
  verify W (pubkey W x) (prove W x t m) m = true.
Proof. exact complete. Qed.
Print Assumptions C16_complete.

(* ... also after the header transport: encode to 80 bytes (any encoder the decoder inverts on this
   proof), carry as a big integer, read back, pad, decode, verify *)
Theorem C16_complete_after_transport :
  forall (W : World) (enc : proof W -> bytes) (dec : bytes -> option (proof W)) x t (m : Msg W),
  let p := prove W x t m in
  dec (enc p) = Some p -> bytes_ok (enc p) -> length (enc p) = prove_size ->
  verify_via (verify_bytes W dec (pubkey W x) m) (transport (enc p)) = true.
Proof. exact complete_after_transport. Qed.
Print Assumptions C16_complete_after_transport.

(* proof generation has no random input: it is the function [prove] of key and message
   (vrfNonceGeneration hashes the key's second half and H) *)
Theorem C16_deterministic : forall (W : World) (x t : Z) (m : Msg W) p1 p2,
  p1 = prove W x t m -> p2 = prove W x t m -> p1 = p2.
Proof. exact deterministic. Qed.
Print Assumptions C16_deterministic.

(* the verifier reduces s modulo ell: s + j*ell is accepted exactly when s is, with the same Gamma
   (the proof string is malleable in s, the lottery output is not) *)
Theorem C16_s_reduced_mod_ell : forall (W : World) (Y Gm : G W) (c s j : Z) (m : Msg W),
  verify W Y (Gm, c, s + j * ell W) m = verify W Y (Gm, c, s) m /\
  output_enc W (Gm, c, s + j * ell W) = output_enc W (Gm, c, s).
Proof. exact s_reduced_mod_ell. Qed.
Print Assumptions C16_s_reduced_mod_ell.

(* a prover who knows x can shift Gamma by any point T with c*T = 0 and is accepted *)
Theorem C16_shifted_accepted : forall (W : World) (x : Z) (m : Msg W) (T : G W) (k : Z),
  let Y := pubkey W x in
  let H := hash_to_curve W Y m in
  let Gm := add W (smul W x H) T in
  let c := Hc W H Gm (smul W k (B W)) (smul W k H) in
  smul W c T = zero W ->
  verify W Y (shifted W x m T k) m = true.
Proof. exact shifted_accepted. Qed.
Print Assumptions C16_shifted_accepted.

(* ... with a different raw-encoding output whenever T <> 0, and the same cofactor-cleared output *)
Theorem C16_shifted_outputs : forall (W : World) (x t : Z) (m : Msg W) (T : G W) (k : Z),
  (T <> zero W -> output_enc W (shifted W x m T k) <> output_enc W (prove W x t m)) /\
  (smul W 8 T = zero W -> output_cof W (shifted W x m T k) = output_cof W (prove W x t m)).
Proof. exact shifted_outputs. Qed.
Print Assumptions C16_shifted_outputs.

(* VRFProof2Hash = raw bytes of Gamma: two accepted proofs for one key and message with different
   outputs exist (toy world Z/40, ell = 5, T of order 2, nonce chosen so that c is even) *)
Theorem C16_output_unique_encoding_refuted : exists (W : World) (x : Z) (m : Msg W) (p1 p2 : proof W),
  verify W (pubkey W x) p1 m = true /\ verify W (pubkey W x) p2 m = true /\
  output_enc W p1 <> output_enc W p2 /\ output_cof W p1 = output_cof W p2.
Proof. exact toy_two_outputs. Qed.
Print Assumptions C16_output_unique_encoding_refuted.

(* soundness core: for a Gamma whose cofactor multiple is wrong, at most one challenge modulo ell
   can be answered for given commitments *)
Theorem C16_one_answerable_challenge : forall (W : World) (x : Z) (H Gm U V : G W) (c1 c2 : Z),
  smul W (ell W) H = zero W ->
  smul W 8 Gm <> smul W (8 * x) H ->
  answerable W (pubkey W x) H Gm U V c1 -> answerable W (pubkey W x) H Gm U V c2 ->
  (ell W | c1 - c2).
Proof. exact one_answerable. Qed.
Print Assumptions C16_one_answerable_challenge.

(* with the output taken from 8*Gamma, all accepted proofs for one key and message carry the same
   output — unless one of them is a lucky hit of the challenge hash (see Vrf.lucky_hit) *)
Theorem C16_output_unique_cofactor : forall (W : World) (x : Z) (m : Msg W) (p1 p2 : proof W),
  verify W (pubkey W x) p1 m = true -> verify W (pubkey W x) p2 m = true ->
  output_cof W p1 = output_cof W p2 \/ lucky_hit W x m p1 \/ lucky_hit W x m p2.
Proof. exact output_cof_unique_or_lucky. Qed.
Print Assumptions C16_output_unique_cofactor.

(* the exact guard under which the raw-encoding output (what VRFProof2Hash returns) is unique as
   well: both Gammas lie in the prime-order subgroup — a subgroup check in decodeProof, which the
   code does not make ("We do not check whether the point is on the main subgroup") *)
Theorem C16_output_unique_encoding_guarded : forall (W : World) (x : Z) (m : Msg W) (p1 p2 : proof W),
  2 < ell W ->
  smul W (ell W) (output_enc W p1) = zero W -> smul W (ell W) (output_enc W p2) = zero W ->
  verify W (pubkey W x) p1 m = true -> verify W (pubkey W x) p2 m = true ->
  output_enc W p1 = output_enc W p2 \/ lucky_hit W x m p1 \/ lucky_hit W x m p2.
Proof. exact output_enc_unique_in_subgroup. Qed.
Print Assumptions C16_output_unique_encoding_guarded.

(* honest provers meet that guard *)
Theorem C16_honest_gamma_in_subgroup : forall (W : World) (x t : Z) (m : Msg W),
  smul W (ell W) (output_enc W (prove W x t m)) = zero W.
Proof. exact honest_gamma_in_subgroup. Qed.
Print Assumptions C16_honest_gamma_in_subgroup.

(* single-bit mutations, algebraic part (_partial: rejection itself needs the challenge hash to avoid
   the stated collision / prescribed value, which no theorem about an arbitrary function can give).
   (a) a mutant of Gamma or s (any s' not congruent to s mod ell — a bit flip changes s by +-2^i)
       that keeps the c bytes is accepted only if the challenge hash collides on two explicit,
       distinct inputs *)
Theorem C16_bit_mutation_proof_partial : forall (W : World) (x t : Z) (m : Msg W) Gm' s',
  let Y := pubkey W x in
  let '(Gm, c, s) := prove W x t m in
  Gm' <> Gm \/ (Gm' = Gm /\ ~ (ell W | s' - s)) ->
  verify W Y (Gm', c, s') m = true ->
  query W Y (Gm', c, s') m <> query W Y (Gm, c, s) m /\
  Hc4 W (query W Y (Gm', c, s') m) = Hc4 W (query W Y (Gm, c, s) m).
Proof. exact bit_mutation_proof. Qed.
Print Assumptions C16_bit_mutation_proof_partial.

Theorem C16_bitflip_changes_s : forall (W : World) (i s s' : Z),
  0 <= i -> 2 < ell W -> (s' - s = 2 ^ i \/ s - s' = 2 ^ i) -> ~ (ell W | s' - s).
Proof. exact bitflip_not_multiple. Qed.
Print Assumptions C16_bitflip_changes_s.

(* (b) a mutant of the challenge bytes is accepted only if the hash, at an input different from the
       honest one, returns exactly the mutated challenge *)
Theorem C16_bit_mutation_challenge_partial : forall (W : World) (x t : Z) (m : Msg W) c',
  let Y := pubkey W x in
  let '(Gm, c, s) := prove W x t m in
  ~ (ell W | x) -> 0 <= c' < ell W -> c' <> c ->
  verify W Y (Gm, c', s) m = true ->
  query W Y (Gm, c', s) m <> query W Y (Gm, c, s) m /\ Hc4 W (query W Y (Gm, c', s) m) = c'.
Proof. exact bit_mutation_challenge. Qed.
Print Assumptions C16_bit_mutation_challenge_partial.

(* (c) a mutant of the message or the public key changes H (if hash-to-curve does not collide on the
       two inputs) and is then accepted only on a collision of the challenge hash *)
Theorem C16_bit_mutation_input_partial : forall (W : World) (x t : Z) (m m' : Msg W) (Y' : G W),
  let Y := pubkey W x in
  let p := prove W x t m in
  hash_to_curve W Y' m' <> hash_to_curve W Y m ->
  verify W Y' p m' = true ->
  query W Y' p m' <> query W Y p m /\ Hc4 W (query W Y' p m') = Hc4 W (query W Y p m).
Proof. exact bit_mutation_input. Qed.
Print Assumptions C16_bit_mutation_input_partial.

(* ---------------- the headline theorems at the real group order ---------------- *)
(* W25519 (VrfEll.v): ell is the constant the code reduces modulo, proved prime (Pocklington
   certificate in Base/PrimeEd25519Ell.v), challenge range 2^128: no primality hypothesis is left *)
Theorem C16_W25519_order : ell W25519 = Z.of_N ell25519 /\ cbound W25519 = 2 ^ 128 /\ 2 < ell W25519.
Proof. exact W25519_ell. Qed.
Print Assumptions C16_W25519_order.

Theorem C16_complete_at_ell25519 : forall (x t : Z) (m : Msg W25519),
  verify W25519 (pubkey W25519 x) (prove W25519 x t m) m = true.
Proof. exact (complete W25519). Qed.
Print Assumptions C16_complete_at_ell25519.

Theorem C16_s_reduced_mod_ell25519 : forall (Y Gm : G W25519) (c s j : Z) (m : Msg W25519),
  verify W25519 Y (Gm, c, s + j * Z.of_N ell25519) m = verify W25519 Y (Gm, c, s) m /\
  output_enc W25519 (Gm, c, s + j * Z.of_N ell25519) = output_enc W25519 (Gm, c, s).
Proof. exact (s_reduced_mod_ell W25519). Qed.
Print Assumptions C16_s_reduced_mod_ell25519.

Theorem C16_output_unique_cofactor_at_ell25519 : forall (x : Z) (m : Msg W25519) (p1 p2 : proof W25519),
  verify W25519 (pubkey W25519 x) p1 m = true -> verify W25519 (pubkey W25519 x) p2 m = true ->
  output_cof W25519 p1 = output_cof W25519 p2 \/ lucky_hit W25519 x m p1 \/ lucky_hit W25519 x m p2.
Proof. exact (output_cof_unique_or_lucky W25519). Qed.
Print Assumptions C16_output_unique_cofactor_at_ell25519.

Theorem C16_output_unique_encoding_guarded_at_ell25519 :
  forall (x : Z) (m : Msg W25519) (p1 p2 : proof W25519),
  smul W25519 (ell W25519) (output_enc W25519 p1) = zero W25519 ->
  smul W25519 (ell W25519) (output_enc W25519 p2) = zero W25519 ->
  verify W25519 (pubkey W25519 x) p1 m = true -> verify W25519 (pubkey W25519 x) p2 m = true ->
  output_enc W25519 p1 = output_enc W25519 p2 \/ lucky_hit W25519 x m p1 \/ lucky_hit W25519 x m p2.
Proof. exact (fun x m p1 p2 => output_enc_unique_in_subgroup W25519 x m p1 p2 (proj2 (proj2 W25519_ell))). Qed.
Print Assumptions C16_output_unique_encoding_guarded_at_ell25519.

Theorem C16_one_answerable_challenge_at_ell25519 : forall (x : Z) (H Gm U V : G W25519) (c1 c2 : Z),
  smul W25519 (Z.of_N ell25519) H = zero W25519 ->
  smul W25519 8 Gm <> smul W25519 (8 * x) H ->
  answerable W25519 (pubkey W25519 x) H Gm U V c1 -> answerable W25519 (pubkey W25519 x) H Gm U V c2 ->
  (Z.of_N ell25519 | c1 - c2).
Proof. exact (one_answerable W25519). Qed.
Print Assumptions C16_one_answerable_challenge_at_ell25519.

(* ---------------- the executable curve layer (Curve.v) ---------------- *)
(* Curve.v is compared with the real edwards25519 code on every run (CurveHarness.v: decompression,
   Double, GeSub with exact coordinates, ToBytes, short scalar multiplications, the U and V of whole
   verifications, shifted vs honest Gamma).  What is PROVED about it: *)

(* the fast reduction is reduction modulo p = 2^255 - 19, the field operations are those of Z/p, and
   p is prime (Pocklington certificate) *)
Theorem C16_field_model : prime fp /\
  (forall x, 0 <= x < 2 ^ 510 -> fred x = x mod fp) /\
  (forall a b, inF a -> inF b -> fmul a b = (a * b) mod fp /\ fadd a b = (a + b) mod fp /\
                                 fsub a b = (a - b) mod fp /\ fneg a = (- a) mod fp) /\
  (forall z e, inF z -> 0 < e -> fpow z e = (z ^ e) mod fp).
Proof.
  exact (conj fp_prime (conj fred_spec (conj
    (fun a b Ha Hb => conj (fmul_spec a b Ha Hb) (conj (proj1 (fadd_spec a b Ha Hb))
       (conj (proj1 (fsub_spec a b Ha Hb)) (proj1 (fneg_spec a Ha))))) fpow_spec))).
Qed.
Print Assumptions C16_field_model.

(* the constants of the code: d = -121665/121666, sqrt(-1), the base point (x even, y = 4/5) is on the
   curve; the base point has order exactly ell, a prime: ell * B = O and B <> O *)
Theorem C16_curve_constants :
  (fmul cd 121666 = fneg 121665 /\ fsq sqrtm1 = fneg 1 /\ fmul 5 (pY base_point) = 4 /\
   on_curve base_point = true /\ (pX base_point) mod 2 = 0 /\ cd2 = fmul 2 cd /\ (fp - 5) mod 8 = 0 /\
   ellZ = Z.of_N ell25519) /\
  prime ellZ /\ pt_eqb (pt_mul ellZ base_point) pt_zero = true /\ pt_eqb base_point pt_zero = false.
Proof. exact (conj constants_ok (conj ellZ_prime base_order)). Qed.
Print Assumptions C16_curve_constants.

(* the eight points k * T8 (T8 decoded from 26e8...fc05): all on the curve, all killed by 8, pairwise
   different, with orders 1,8,4,8,2,8,4,8 — the small-order component the World hypotheses talk about *)
Theorem C16_torsion8 :
  forallb on_curve torsion8 = true /\
  forallb (fun P => pt_eqb (pt_mul 8 P) pt_zero) torsion8 = true /\
  all_distinct torsion8 = true /\
  map order8 torsion8 = [1; 8; 4; 8; 2; 8; 4; 8] /\
  pt_eqb (pt_mul 4 t8) t2 = true /\ (pt_eqb (pt_mul 2 t8) t4 || pt_eqb (pt_mul 6 t8) t4) = true.
Proof. exact torsion8_facts. Qed.
Print Assumptions C16_torsion8.

(* none of the seven non-trivial ones is in the prime-order subgroup: a Gamma shifted by one of them
   fails the guard of C16_output_unique_encoding_guarded *)
Theorem C16_torsion_not_in_subgroup :
  forallb (fun P => negb (pt_eqb (pt_mul ellZ P) pt_zero)) (tl torsion8) = true.
Proof. exact torsion_not_in_subgroup. Qed.
Print Assumptions C16_torsion_not_in_subgroup.

(* FromBytes has no canonicity check and no check on the sign bit of x = 0: y = p + 1 and
   "y = 1 with the sign bit" both decode to the identity; y = 2 is rejected (not a square) *)
Theorem C16_noncanonical_decodes :
  (match decompress (2 ^ 255 - 18) with Some P => pt_eqb P pt_zero | None => false end) = true /\
  (match decompress (1 + 2 ^ 255) with Some P => pt_eqb P pt_zero | None => false end) = true /\
  decompress 2 = None.
Proof. exact noncanonical_decodes. Qed.
Print Assumptions C16_noncanonical_decodes.

(* for ALL in-range inputs: doubling and negation as written in the code keep the equations of the
   extended curve -X^2 + Y^2 = Z^2 + d T^2, X Y = Z T (congruences modulo p; nsatz over the integral
   domain Z/p), which imply the projective curve equation *)
Theorem C16_curve_double_closed : forall P, wf P -> Cv P -> wf (pt_double P) /\ Cv (pt_double P).
Proof. exact double_closed. Qed.
Print Assumptions C16_curve_double_closed.

Theorem C16_curve_neg_closed : forall P, wf P -> Cv P -> wf (pt_neg P) /\ Cv (pt_neg P).
Proof. exact neg_closed. Qed.
Print Assumptions C16_curve_neg_closed.

Theorem C16_curve_equation_projective : forall P, Cv P ->
  eqm ((pY P * pY P - pX P * pX P) * (pZ P * pZ P))
      (pZ P * pZ P * (pZ P * pZ P) + cd * (pX P * pX P) * (pY P * pY P)).
Proof. exact Cv_projective. Qed.
Print Assumptions C16_curve_equation_projective.

(* for EVERY 256-bit input: what FromBytes returns is a point of the curve (passes the model's
   on_curve test), and compressing it gives the canonical form of the input: y reduced modulo p (an
   encoding with y >= p decodes like y - p), the sign bit kept when x <> 0 and dropped when x = 0 *)
Theorem C16_decompress_sound : forall e P, 0 <= e < 2 ^ 256 -> decompress e = Some P ->
  on_curve P = true /\
  compress P = (e mod 2 ^ 255) mod fp + 2 ^ 255 * (if pX P =? 0 then 0 else e / 2 ^ 255).
Proof.
  exact (fun e P He H => conj (decompress_on_curve e P (proj1 He) H) (decompress_compress_canonical e P He H)).
Qed.
Print Assumptions C16_decompress_sound.

(* d is not a square modulo p (Euler's criterion by computation + Fermat's little theorem) *)
Theorem C16_d_nonsquare : forall w, ~ eqm (w * w) cd.
Proof. exact d_nonsquare. Qed.
Print Assumptions C16_d_nonsquare.

(* the addition law of the code is closed and complete on the curve, for all in-range inputs:
   [good P] = coordinates in [0,p), equations of the extended curve, Z <> 0.  Doubling, addition,
   subtraction (geAdd/GeSub formulas) and every scalar multiple of good points are good; decoded
   points and the base point are good; good points pass on_curve *)
Theorem C16_curve_closed_complete :
  (forall P, good P -> good (pt_double P)) /\
  (forall P Q, good P -> good Q -> good (pt_add P Q)) /\
  (forall P Q, good P -> good Q -> good (pt_sub P Q)) /\
  (forall k P, good P -> good (pt_mul k P)) /\
  (forall e P, 0 <= e -> decompress e = Some P -> good P) /\
  good base_point /\ good pt_zero /\
  (forall P, good P -> on_curve P = true).
Proof.
  exact (conj good_double (conj good_add (conj good_sub (conj good_mul (conj good_decompress
         (conj good_base (conj good_zero good_on_curve))))))).
Qed.
Print Assumptions C16_curve_closed_complete.

(* so the two points ECVRFVerify hashes always exist and lie on the curve *)
Theorem C16_vrf_points_good : forall Y Gm H c s, good Y -> good Gm -> good H ->
  good (pt_sub (pt_mul s base_point) (pt_mul c Y)) /\ good (pt_sub (pt_mul s H) (pt_mul c Gm)).
Proof. exact vrf_points_good. Qed.
Print Assumptions C16_vrf_points_good.

(* the 32-byte encoding (ToBytes) is injective on the points of the curve: equal encodings, equal
   projective points; finv is the field inverse (Fermat) *)
Theorem C16_compress_injective : forall P Q, good P -> good Q -> compress P = compress Q -> pt_eqb P Q = true.
Proof. exact compress_injective. Qed.
Print Assumptions C16_compress_injective.

Theorem C16_finv_correct : forall z, inF z -> z <> 0 -> inF (finv z) /\ eqm (z * finv z) 1.
Proof. exact finv_correct. Qed.
Print Assumptions C16_finv_correct.

(* two group axioms that are cheap for the model: commutativity (identical coordinates) and the
   neutral element (same projective point) *)
Theorem C16_curve_add_comm : forall P Q, wf P -> wf Q -> pt_add P Q = pt_add Q P.
Proof. exact add_comm_exact. Qed.
Print Assumptions C16_curve_add_comm.

Theorem C16_curve_add_zero : forall P, wf P -> pt_eqb (pt_add P pt_zero) P = true.
Proof. exact add_zero_r. Qed.
Print Assumptions C16_curve_add_zero.

(* STATUS of the hypotheses of Vrf.World with respect to the concrete curve model (Curve.v):
     theorems now: ell prime (C16_curve_constants); the operations are total and closed on curve points
       (C16_curve_closed_complete: what makes G a carrier with add/neg/smul); decidable equality through
       the encoding is sound (C16_compress_injective, the role of geqb_spec for "points stand for their
       encodings"); ell * B = O and B <> O (C16_curve_constants); the eight points of order dividing 8
       and that they are outside the ell-torsion (C16_torsion8, C16_torsion_not_in_subgroup); the
       challenge range 2^128 <= ell (VrfEll.cb128_ok);
       add_comm and add_0_l (C16_curve_add_comm, C16_curve_add_zero);
     remain hypotheses: add_assoc and add_neg_r for pt_add up to projective equality, the Z-module laws for pt_mul (smul_add_l, smul_add_r, smul_mul:
       they follow from associativity), order8l (every point is killed by 8*ell: needs the group order
       8*ell, i.e. a point count), B_order as an equivalence and cyclic (follow from the group laws and
       the point count), decompress (compress P) = P (needs the correctness of the (p-5)/8 square-root
       formula); these are covered per instance by the correspondence cases (KS, KM, KG, KV, KT, KD). *)

(* Non-vacuity: a World exists (all group/hash hypotheses hold for Z/40), an honest proof in it
   verifies, and the guard of the qn theorem is met by an accepted proof with qn = 2. *)
Example C16_example :
  verify toy (pubkey toy 3) (prove toy 3 1 2) 2 = true /\
  (forall x t m, let p := prove toy x t m in
     toy_dec (toy_enc p) = Some p /\ bytes_ok (toy_enc p) /\ length (toy_enc p) = prove_size) /\
  (exists pi : bytes, bytes_okb pi = true /\ length pi = prove_size /\ hd 1%N pi = 0%N /\
     pad80 (transport pi) = pi /\ length (transport pi) = 79%nat) /\
  validate_exact node_params (51%N :: repeat 0%N 79) 1 0 10 = VR true (QN 4) /\
  validate_float node_params (51%N :: repeat 0%N 79) 1 0 10 = VR true (QN 4).
Proof. split; [vm_compute; reflexivity | split; [exact toy_codec | exact model_example]]. Qed.
