(* C16 — the unified addition of the code (geAdd / GeSub + ToExtended, Curve.pt_add / pt_sub) keeps
   the equations of the extended curve, for all in-range inputs.  The polynomial identity is proved in
   stages over variables (nsatz over Z/p on few variables each, then one explicit linear combination),
   and only then instantiated with the field operations of the model. *)
From Coq Require Import ZArith Znumtheory Lia Nsatz Bool.
From Coq Require Import Ncring Cring Integral_domain Morphisms Setoid.
From V.C16 Require Import Curve CurveProofs FieldMod CurveClosure CurveDecompress.
Local Open Scope Z_scope.

(* integer literals other than 0 and 1 are atoms for nsatz in this ring: doubling is written x + x *)
Notation D x := (x + x) (only parsing).

Section Stages.
Variables x1 y1 x2 y2 : Z.
Let e := x1 * y2 + y1 * x2.
Let h := y1 * y2 + x1 * x2.

Lemma stage_diff m1 m2 :
  eqm (y1 * y1 - x1 * x1) m1 -> eqm (y2 * y2 - x2 * x2) m2 -> eqm (h * h - e * e) (m1 * m2).
Proof. unfold e, h. intros H1 H2. nsatz. Qed.

Lemma stage_sum u1 u2 :
  eqm (x1 * y1) u1 -> eqm (x2 * y2) u2 ->
  eqm (h * h + e * e) ((y1 * y1 + x1 * x1) * (y2 * y2 + x2 * x2) + D (D (u1 * u2))) /\
  eqm (e * h) (u1 * (y2 * y2 + x2 * x2) + u2 * (y1 * y1 + x1 * x1)).
Proof. unfold e, h. intros H1 H2. split; nsatz. Qed.

Lemma stage_norm m1 u1 :
  eqm (y1 * y1 - x1 * x1) m1 -> eqm (x1 * y1) u1 ->
  eqm ((y1 * y1 + x1 * x1) * (y1 * y1 + x1 * x1)) (m1 * m1 + D (D (u1 * u1))).
Proof. intros H1 H2. nsatz. Qed.
End Stages.

(* the core identity: an explicit combination of the five stage facts (checked by ring over Z) *)
Lemma core_combination z1 t1 z2 t2 d n1 n2 hh ee eh :
  let A := z1 * z2 in let B := d * (t1 * t2) in
  let M1 := z1 * z1 + d * (t1 * t1) in let M2 := z2 * z2 + d * (t2 * t2) in
  let u1 := z1 * t1 in let u2 := z2 * t2 in
  let P := hh - ee - M1 * M2 in
  let Q := hh + ee - (n1 * n2 + D (D (u1 * u2))) in
  let R := eh - (u1 * n2 + u2 * n1) in
  let K1 := n1 * n1 - (M1 * M1 + D (D (u1 * u1))) in
  let K2 := n2 * n2 - (M2 * M2 + D (D (u2 * u2))) in
  (A + B) * (A + B) * hh - (A - B) * (A - B) * ee - (A + B) * (A + B) * ((A - B) * (A - B)) - d * (eh * eh)
  = (A * A + B * B) * P + D (A * B) * Q - d * (R + D (u1 * n2 + u2 * n1)) * R
    - d * (u1 * u1) * K2 - d * (u2 * u2) * K1.
Proof. cbv zeta. ring. Qed.

Lemma eqm_sub0 a b : eqm a b -> eqm (a - b) 0.
Proof. intro H. nsatz. Qed.

Lemma core_identity z1 t1 z2 t2 d n1 n2 hh ee eh :
  let A := z1 * z2 in let B := d * (t1 * t2) in
  let M1 := z1 * z1 + d * (t1 * t1) in let M2 := z2 * z2 + d * (t2 * t2) in
  let u1 := z1 * t1 in let u2 := z2 * t2 in
  eqm (hh - ee) (M1 * M2) -> eqm (hh + ee) (n1 * n2 + D (D (u1 * u2))) -> eqm eh (u1 * n2 + u2 * n1) ->
  eqm (n1 * n1) (M1 * M1 + D (D (u1 * u1))) -> eqm (n2 * n2) (M2 * M2 + D (D (u2 * u2))) ->
  eqm ((A + B) * (A + B) * hh - (A - B) * (A - B) * ee - (A + B) * (A + B) * ((A - B) * (A - B)) - d * (eh * eh)) 0.
Proof.
  cbv zeta. intros HP HQ HR HK1 HK2.
  rewrite (core_combination z1 t1 z2 t2 d n1 n2 hh ee eh). cbv zeta.
  apply eqm_sub0 in HP, HQ, HR, HK1, HK2.
  replace (hh - ee - (z1 * z1 + d * (t1 * t1)) * (z2 * z2 + d * (t2 * t2)))
    with (hh - ee - ((z1 * z1 + d * (t1 * t1)) * (z2 * z2 + d * (t2 * t2)))) by ring.
  rewrite HP, HQ, HR, HK1, HK2. apply eq_eqm. ring.
Qed.

(* from the core to the curve equations of the result, in the shape the formulas produce *)
Lemma result_on_curve e h A B d X3 Y3 Z3 T3 :
  eqm ((A + B) * (A + B) * (h * h) - (A - B) * (A - B) * (e * e)
       - (A + B) * (A + B) * ((A - B) * (A - B)) - d * ((e * h) * (e * h))) 0 ->
  eqm X3 ((D e) * (D A - D B)) -> eqm Y3 ((D h) * (D A + D B)) ->
  eqm Z3 ((D A + D B) * (D A - D B)) -> eqm T3 ((D e) * (D h)) ->
  eqm (Y3 * Y3 - X3 * X3) (Z3 * Z3 + d * (T3 * T3)) /\ eqm (X3 * Y3) (Z3 * T3).
Proof. intros H HX HY HZ HT. split; nsatz. Qed.

(* both curve equations of the sum, from those of the summands, when the result has the shape the
   formulas produce *)
Lemma add_core X1 Y1 Z1 T1 X2 Y2 Z2 T2 d X3 Y3 Z3 T3 :
  eqm (Y1 * Y1 - X1 * X1) (Z1 * Z1 + d * (T1 * T1)) -> eqm (X1 * Y1) (Z1 * T1) ->
  eqm (Y2 * Y2 - X2 * X2) (Z2 * Z2 + d * (T2 * T2)) -> eqm (X2 * Y2) (Z2 * T2) ->
  let e := X1 * Y2 + Y1 * X2 in let h := Y1 * Y2 + X1 * X2 in
  let A := Z1 * Z2 in let B := d * (T1 * T2) in
  eqm X3 ((D e) * (D A - D B)) -> eqm Y3 ((D h) * (D A + D B)) ->
  eqm Z3 ((D A + D B) * (D A - D B)) -> eqm T3 ((D e) * (D h)) ->
  eqm (Y3 * Y3 - X3 * X3) (Z3 * Z3 + d * (T3 * T3)) /\ eqm (X3 * Y3) (Z3 * T3).
Proof.
  intros C1 C2 D1 D2. cbv zeta. intros HX HY HZ HT.
  pose proof (stage_diff X1 Y1 X2 Y2 _ _ C1 D1) as HP.
  destruct (stage_sum X1 Y1 X2 Y2 _ _ C2 D2) as [HQ HR].
  pose proof (stage_norm X1 Y1 _ _ C1 C2) as HK1.
  pose proof (stage_norm X2 Y2 _ _ D1 D2) as HK2.
  pose proof (core_identity Z1 T1 Z2 T2 d _ _ _ _ _ HP HQ HR HK1 HK2) as HC. cbv zeta in HC.
  exact (result_on_curve _ _ _ _ d X3 Y3 Z3 T3 HC HX HY HZ HT).
Qed.

Lemma neg_point_eqs X Y Z T d :
  eqm (Y * Y - X * X) (Z * Z + d * (T * T)) -> eqm (X * Y) (Z * T) ->
  eqm (Y * Y - (- X) * (- X)) (Z * Z + d * ((- T) * (- T))) /\ eqm ((- X) * Y) (Z * (- T)).
Proof. intros H1 H2. split; nsatz. Qed.

Theorem add_closed P Q : wf P -> wf Q -> Cv P -> Cv Q -> wf (pt_add P Q) /\ Cv (pt_add P Q).
Proof.
  destruct P as [X1 Y1 Z1 T1], Q as [X2 Y2 Z2 T2].
  intros (RX1 & RY1 & RZ1 & RT1) (RX2 & RY2 & RZ2 & RT2) [C1 C2] [D1 D2]. cbn [pX pY pZ pT] in *.
  unfold pt_add, of_completed. cbn [pX pY pZ pT].
  pose proof cd2_eqm as Ecd2. pose proof cd2_in as Rcd2.
  name_add s1 Y1 X1. name_add s2 Y2 X2. name_mul a s1 s2.
  name_sub m1 Y1 X1. name_sub m2 Y2 X2. name_mul b m1 m2.
  name_mul td T2 cd2. name_mul c td T1. name_mul zz Z1 Z2. name_add t0 zz zz.
  name_sub cx a b. name_add cy a b. name_add cz t0 c. name_sub ct t0 c.
  name_mul X3 cx ct. name_mul Y3 cy cz. name_mul Z3 cz ct. name_mul T3 cx cy.
  split; [unfold wf; cbn [pX pY pZ pT]; tauto|].
  unfold Cv. cbn [pX pY pZ pT].
  clearbody s1 s2 a m1 m2 b td c zz t0 cx cy cz ct X3 Y3 Z3 T3.
  apply (add_core X1 Y1 Z1 T1 X2 Y2 Z2 T2 cd X3 Y3 Z3 T3 C1 C2 D1 D2).
  - rewrite EX3, Ecx, Ect, Ea, Eb, Et0, Ec, Etd, Ezz, Es1, Es2, Em1, Em2, Ecd2. apply eq_eqm. ring.
  - rewrite EY3, Ecy, Ecz, Ea, Eb, Et0, Ec, Etd, Ezz, Es1, Es2, Em1, Em2, Ecd2. apply eq_eqm. ring.
  - rewrite EZ3, Ecz, Ect, Et0, Ec, Etd, Ezz, Ecd2. apply eq_eqm. ring.
  - rewrite ET3, Ecx, Ecy, Ea, Eb, Es1, Es2, Em1, Em2. apply eq_eqm. ring.
Qed.

Theorem sub_closed P Q : wf P -> wf Q -> Cv P -> Cv Q -> wf (pt_sub P Q) /\ Cv (pt_sub P Q).
Proof.
  destruct P as [X1 Y1 Z1 T1], Q as [X2 Y2 Z2 T2].
  intros (RX1 & RY1 & RZ1 & RT1) (RX2 & RY2 & RZ2 & RT2) [C1 C2] [D1 D2]. cbn [pX pY pZ pT] in *.
  unfold pt_sub, of_completed. cbn [pX pY pZ pT].
  pose proof cd2_eqm as Ecd2. pose proof cd2_in as Rcd2.
  name_add s1 Y1 X1. name_sub s2 Y2 X2. name_mul a s1 s2.
  name_sub m1 Y1 X1. name_add m2 Y2 X2. name_mul b m1 m2.
  name_mul td T2 cd2. name_mul c td T1. name_mul zz Z1 Z2. name_add t0 zz zz.
  name_sub cx a b. name_add cy a b. name_sub cz t0 c. name_add ct t0 c.
  name_mul X3 cx ct. name_mul Y3 cy cz. name_mul Z3 cz ct. name_mul T3 cx cy.
  split; [unfold wf; cbn [pX pY pZ pT]; tauto|].
  unfold Cv. cbn [pX pY pZ pT].
  clearbody s1 s2 a m1 m2 b td c zz t0 cx cy cz ct X3 Y3 Z3 T3.
  destruct (neg_point_eqs X2 Y2 Z2 T2 cd D1 D2) as [D1' D2'].
  apply (add_core X1 Y1 Z1 T1 (- X2) Y2 Z2 (- T2) cd X3 Y3 Z3 T3 C1 C2 D1' D2').
  - rewrite EX3, Ecx, Ect, Ea, Eb, Et0, Ec, Etd, Ezz, Es1, Es2, Em1, Em2, Ecd2. apply eq_eqm. ring.
  - rewrite EY3, Ecy, Ecz, Ea, Eb, Et0, Ec, Etd, Ezz, Es1, Es2, Em1, Em2, Ecd2. apply eq_eqm. ring.
  - rewrite EZ3, Ecz, Ect, Et0, Ec, Etd, Ezz, Ecd2. apply eq_eqm. ring.
  - rewrite ET3, Ecx, Ecy, Ea, Eb, Es1, Es2, Em1, Em2. apply eq_eqm. ring.
Qed.

(* hence every scalar multiple of a curve point is a curve point *)
Lemma mul_pos_closed k P : wf P -> Cv P -> wf (pt_mul_pos k P) /\ Cv (pt_mul_pos k P).
Proof.
  intros Hw Hc. induction k as [k [IHw IHc]|k [IHw IHc]|]; cbn [pt_mul_pos].
  - destruct (double_closed _ IHw IHc) as [W2 C2]. apply add_closed; assumption.
  - apply double_closed; assumption.
  - split; assumption.
Qed.

Lemma zero_on_curve : wf pt_zero /\ Cv pt_zero.
Proof.
  split.
  - unfold wf, inF, pt_zero, fp. cbn [pX pY pZ pT]. lia.
  - unfold Cv, pt_zero. cbn [pX pY pZ pT]. split; apply eq_eqm; ring.
Qed.

Theorem mul_closed k P : wf P -> Cv P -> wf (pt_mul k P) /\ Cv (pt_mul k P).
Proof.
  intros Hw Hc. destruct k; cbn [pt_mul]; [apply zero_on_curve | apply mul_pos_closed; assumption | apply zero_on_curve].
Qed.
