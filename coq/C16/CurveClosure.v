(* C16 — algebraic facts about the executable curve model, for all inputs: doubling and negation as
   written in the code keep the equations of the extended curve.  Proved by nsatz over Z modulo the prime 2^255 - 19 (FieldMod.v).
   NOT proved here (correspondence-checked only, CurveHarness.v): closure of pt_add/pt_sub (the nsatz
   problem in 9 variables did not finish), that decompress returns only curve points, completeness of
   the addition law (Z3 <> 0, which needs d to be a non-square), the group laws for pt_add
   (associativity), and decompress (compress P) = P. *)
From Coq Require Import ZArith Znumtheory Lia Nsatz Bool.
From Coq Require Import Ncring Cring Integral_domain Morphisms Setoid.
From V.C16 Require Import Curve CurveProofs FieldMod.
Local Open Scope Z_scope.

Lemma eqm_mod a : eqm (a mod fp) a.
Proof. unfold eqm. apply Z.mod_mod. exact p_nz. Qed.

Lemma fmul_eqm a b : inF a -> inF b -> eqm (fmul a b) (a * b).
Proof. intros. rewrite fmul_spec by assumption. apply eqm_mod. Qed.
Lemma fsq_eqm a : inF a -> eqm (fsq a) (a * a).
Proof. intro. apply fmul_eqm; assumption. Qed.
Lemma fadd_eqm a b : inF a -> inF b -> eqm (fadd a b) (a + b).
Proof. intros Ha Hb. destruct (fadd_spec a b Ha Hb) as [-> _]. apply eqm_mod. Qed.
Lemma fsub_eqm a b : inF a -> inF b -> eqm (fsub a b) (a - b).
Proof. intros Ha Hb. destruct (fsub_spec a b Ha Hb) as [-> _]. apply eqm_mod. Qed.
Lemma fneg_eqm a : inF a -> eqm (fneg a) (- a).
Proof. intros Ha. destruct (fneg_spec a Ha) as [-> _]. apply eqm_mod. Qed.
Lemma fadd_in a b : inF a -> inF b -> inF (fadd a b).
Proof. intros Ha Hb. apply fadd_spec; assumption. Qed.
Lemma fsub_in a b : inF a -> inF b -> inF (fsub a b).
Proof. intros Ha Hb. apply fsub_spec; assumption. Qed.
Lemma fneg_in a : inF a -> inF (fneg a).
Proof. intros Ha. apply fneg_spec; assumption. Qed.
Lemma fsq_in a : inF a -> inF (fsq a).
Proof. intro. apply fmul_in; assumption. Qed.
Lemma cd_in : inF cd. Proof. unfold inF. vm_compute. split; [discriminate | reflexivity]. Qed.
Lemma cd2_in : inF cd2. Proof. unfold inF. vm_compute. split; [discriminate | reflexivity]. Qed.
Lemma cd2_eqm : eqm cd2 (2 * cd). Proof. vm_compute. reflexivity. Qed.
Lemma sqrtm1_in : inF sqrtm1. Proof. unfold inF. vm_compute. split; [discriminate | reflexivity]. Qed.
Lemma sqrtm1_sq : eqm (sqrtm1 * sqrtm1 + 1) 0. Proof. vm_compute. reflexivity. Qed.
Lemma one_in : inF 1. Proof. unfold inF, fp. lia. Qed.

Ltac inF_tac := repeat first [ assumption | apply fmul_in | apply fsq_in | apply fadd_in | apply fsub_in
                             | apply fneg_in | apply cd_in | apply cd2_in | apply sqrtm1_in | apply one_in ].

(* coordinates in range, curve equation (projective) and T Z = X Y, as congruences *)
Definition wf (P : point) : Prop := inF (pX P) /\ inF (pY P) /\ inF (pZ P) /\ inF (pT P).
(* the extended twisted Edwards curve: -X^2 + Y^2 = Z^2 + d T^2 and X Y = Z T (as congruences) *)
Definition Cv (P : point) : Prop :=
  eqm (pY P * pY P - pX P * pX P) (pZ P * pZ P + cd * (pT P * pT P)) /\
  eqm (pX P * pY P) (pZ P * pT P).

(* it implies the projective curve equation that Curve.on_curve tests *)
Lemma Cv_projective P : Cv P ->
  eqm ((pY P * pY P - pX P * pX P) * (pZ P * pZ P))
      (pZ P * pZ P * (pZ P * pZ P) + cd * (pX P * pX P) * (pY P * pY P)).
Proof. destruct P as [X Y Z T]. unfold Cv. cbn [pX pY pZ pT]. intros [C1 C2]. nsatz. Qed.

(* name a field operation applied to in-range arguments: its congruence and its range *)
Ltac name_mul x a b := let H := fresh "E" x in let R := fresh "R" x in
  assert (H : eqm (fmul a b) (a * b)) by (apply fmul_eqm; inF_tac);
  assert (R : inF (fmul a b)) by inF_tac; set (x := fmul a b) in *.
Ltac name_sq x a := let H := fresh "E" x in let R := fresh "R" x in
  assert (H : eqm (fsq a) (a * a)) by (apply fsq_eqm; inF_tac);
  assert (R : inF (fsq a)) by inF_tac; set (x := fsq a) in *.
Ltac name_add x a b := let H := fresh "E" x in let R := fresh "R" x in
  assert (H : eqm (fadd a b) (a + b)) by (apply fadd_eqm; inF_tac);
  assert (R : inF (fadd a b)) by inF_tac; set (x := fadd a b) in *.
Ltac name_sub x a b := let H := fresh "E" x in let R := fresh "R" x in
  assert (H : eqm (fsub a b) (a - b)) by (apply fsub_eqm; inF_tac);
  assert (R : inF (fsub a b)) by inF_tac; set (x := fsub a b) in *.

Lemma double_closed P : wf P -> Cv P -> wf (pt_double P) /\ Cv (pt_double P).
Proof.
  destruct P as [X Y Z T]. intros (RX & RY & RZ & RT) [C1 C2]. cbn [pX pY pZ pT] in *.
  unfold pt_double, of_completed. cbn [pX pY pZ pT].
  name_sq xx X. name_sq yy Y. name_sq z2 Z. name_add zz2 z2 z2. name_add xy X Y. name_sq s xy.
  name_add cy yy xx. name_sub cz yy xx. name_sub cx s cy. name_sub ct zz2 cz.
  name_mul X3 cx ct. name_mul Y3 cy cz. name_mul Z3 cz ct. name_mul T3 cx cy.
  split; [unfold wf; cbn [pX pY pZ pT]; tauto|].
  unfold Cv. cbn [pX pY pZ pT].
  clearbody xx yy z2 zz2 xy s cy cz cx ct X3 Y3 Z3 T3.
  rewrite EX3, EY3, EZ3, ET3, Ecx, Ect, Ecy, Ecz, Es, Exy, Ezz2, Ez2, Exx, Eyy.
  clear - C1 C2.
  split; nsatz.
Qed.

(* negation keeps the curve *)
Lemma neg_closed P : wf P -> Cv P -> wf (pt_neg P) /\ Cv (pt_neg P).
Proof.
  destruct P as [X Y Z T]. intros (RX & RY & RZ & RT) [C1 C2]. cbn [pX pY pZ pT] in *.
  unfold pt_neg. cbn [pX pY pZ pT].
  pose proof (fneg_eqm X RX) as EX. pose proof (fneg_eqm T RT) as ET.
  pose proof (fneg_in X RX) as RX'. pose proof (fneg_in T RT) as RT'.
  split; [unfold wf; cbn [pX pY pZ pT]; tauto|].
  unfold Cv. cbn [pX pY pZ pT]. set (X' := fneg X) in *. set (T' := fneg T) in *.
  clearbody X' T'. rewrite EX, ET. clear - C1 C2. split; nsatz.
Qed.
