(* Evaluation of the C16 model on harness-written cases (correspondence check). *)
From Coq Require Import List NArith ZArith String Bool.
From V.Base Require Import Hex BigEndian.
From V.C16 Require Import Model Sha3 Header KeyCodec.
Import ListNotations.
Local Open Scope Z_scope.

Inductive case :=
  (* proof bytes; observed big.Int(pi).Bytes(); observed VRFProof2Hash(pad(pi)).Big();
     observed ConsensusHelperImpl.VRFProve2Value(big.Int(pi)) (-1: panicked) *)
| CT (pi : string) (obs_bytes : string) (obs_value : Z) (obs_helper : Z)
  (* params, proof bytes handed to validateProve, height, workingMiners, totalStake;
     observed ok and qn (qn = -1: panicked); the harness' own exact-arithmetic qn (-1 panic, -2 n/a) *)
| CQ (p : params) (pi : string) (h wm ts : Z) (ok : bool) (qn : Z) (exq : Z)
  (* 32 bytes; observed isCanonical *)
| CC (s : string) (obs : N)
  (* expanded secret scalar x, nonce k (both 32 bytes, little-endian, from the H5 exports), honest proof:
     its last 32 bytes must be (c*x + k) mod ell *)
| CS (x k pi : string)
  (* genVrfMsg(random, delta) through the hook: observed message *)
| CM (random : string) (delta : Z) (obs : string)
  (* header prove value b of any length: observed lottery bytes VRFProof2Hash(tryZeroPadding(b)) and
     ConsensusHelperImpl.VRFProve2Value(big(b)) bytes (32 bytes, big-endian, as hex) *)
| CO (b obs_lottery : string)
  (* logical.CalDeltaByTime(after, before) on two times given in ns *)
| CDt (after before obs : Z)
  (* a VRF key (or any byte string): observed GetHexString text and the bytes Hex2VRF...Key gives back *)
| CK (key text back : string).

Definition P (mq pmin pmax pidx th : Z) : params :=
  {| maxqn := mq; pp_min := pmin; pp_max := pmax; pp_idx := pidx; thr := th |}.

Definition chk_transport (pi obs : bytes) (v hv : Z) : bool :=
  bytes_eqb (transport pi) obs
  && (Z.of_N (vrf_value obs) =? v) && (Z.of_N (vrf_value pi) =? v)
  && (if Nat.eqb (List.length pi) prove_size then bytes_eqb (pad80 obs) pi else true)
  && (if Nat.leb 32 (List.length obs) then Z.of_N (helper_prove2value (big_of_bytes pi)) =? hv else true).

Definition chk_qn (p : params) (pi : bytes) (h wm ts : Z) (ok : bool) (qn exq : Z) : bool :=
  (match validate_float p pi h wm ts with
   | VR ok' (QN n) => eqb ok ok' && (n =? qn)
   | VR _ QNPanic => qn =? -1
   | VR ok' QNUndef => eqb ok ok' && negb (qn =? -1)
   end)
  &&
  (match validate_exact p pi h wm ts with
   | VR _ (QN n) => (exq =? -2) || (n =? exq)
   | VR _ QNPanic => (exq =? -2) || (exq =? -1)
   | VR _ QNUndef => true
   end).

Definition check (c : case) : bool :=
  match c with
  | CT pi obs v hv => chk_transport (unhex pi) (unhex obs) v hv
  | CQ p pi h wm ts ok qn exq => chk_qn p (unhex pi) h wm ts ok qn exq
  | CC s obs => (is_canonical_go (unhex s) =? obs)%N
  | CS x k pi => let pb := unhex pi in
                 (le_val (proof_s pb) =? response (unhex x) (unhex k) (proof_c pb))%N
                 && (le_val (proof_c pb) <? ell25519)%N
  | CM r d obs => bytes_eqb (gen_vrf_msg_sha3 (unhex r) d) (unhex obs)
  | CO b obs => bytes_eqb (lottery_reads (unhex b)) (unhex obs)
                && bytes_eqb (verify_gamma (unhex b)) (unhex obs)
  | CDt a b obs => delta_of a b =? obs
  | CK key text back => String.eqb (to_hex (unhex key)) text && bytes_eqb (from_hex text) (unhex back)
  end.
