(* Evaluation of the curve-layer model (Curve.v) on harness-written cases: every case carries values
   the harness extracted from the real edwards25519 / ed25519 code. *)
From Coq Require Import List NArith ZArith String Bool.
From V.Base Require Import Hex BigEndian.
From V.C16 Require Import Curve.
Import ListNotations.
Local Open Scope Z_scope.

Definition Q4 (X Y Z T : Z) : point := mkpt X Y Z T.
Definition hz (s : string) : Z := lez (unhex s).   (* 32 bytes, little-endian *)

Inductive ccase :=
  (* ExtendedGroupElement.FromBytes(e): returned flag and, when true, the affine coordinates *)
| KD (e : string) (ok : bool) (x y : Z)
  (* ExtendedGroupElement.ToBytes of the point with these extended coordinates *)
| KC (P : point) (obs : string)
  (* P.Double(&r); r.ToExtended(&R): exact coordinates *)
| KB (P R : point)
  (* Q.ToCached(&c); GeSub(&r, &P, &c); r.ToExtended(&R): exact coordinates *)
| KS (P Q R : point)
  (* GeScalarMult(&P, k).ToBytes *)
| KM (P : point) (k : Z) (obs : string)
  (* GeScalarMultBase(&R, k); R.ToBytes *)
| KG (k : Z) (obs : string)
  (* Gamma of an accepted proof against the honest Gamma for the same key and message: same 8*Gamma;
     equal encodings iff not shifted; the honest one is in the prime-order subgroup (when [sub]) *)
| KT (g gh : string) (shifted sub : bool)
  (* ECVRFVerify on (pk, pi, H = hashToCurve(m, pk)): observed U, V (32 bytes each) as fed to hashPoints,
     observed hashPoints(H, Gamma, U, V) and result; [sub]: also evaluate ell * H = O *)
| KV (pk pi h u v cprime : string) (accept sub : bool).

Definition check (c : ccase) : bool :=
  match c with
  | KD e ok x y =>
      match decompress (hz e) with
      | Some P => ok && (pX P =? x) && (pY P =? y) && (pZ P =? 1) && on_curve P
      | None => negb ok
      end
  | KC P obs => compress P =? hz obs
  | KB P R => pt_same (pt_double P) R
  | KS P Q R => pt_same (pt_sub P Q) R && pt_eqb (pt_add P (pt_neg Q)) R
  | KM P k obs => compress (pt_mul k P) =? hz obs
  | KG k obs => compress (pt_mul k base_point) =? hz obs
  | KT g gh shifted sub =>
      match decompress (hz g), decompress (hz gh) with
      | Some P, Some Ph =>
          pt_eqb (pt_mul 8 P) (pt_mul 8 Ph) && eqb shifted (negb (pt_eqb P Ph))
          && on_curve P && on_curve Ph
          && (if sub then pt_eqb (pt_mul ellZ Ph) pt_zero
                          && eqb shifted (negb (pt_eqb (pt_mul ellZ P) pt_zero)) else true)
      | _, _ => false
      end
  | KV pk pi h u v cprime accept sub =>
      let pib := unhex pi in
      match vrf_uv (unhex pk) pib (unhex h) with
      | Some (mu, mv) =>
          (mu =? hz u) && (mv =? hz v)
          && eqb accept (hz cprime =? lez (firstn 16 (skipn 32 pib)))
          && (if sub then match decompress (hz h) with
                          | Some H => pt_eqb (pt_mul ellZ H) pt_zero | None => false end
              else true)
      | None => false
      end
  end.
