(* C16 — facts about the executable curve model (Curve.v): the fast reduction is reduction modulo
   p = 2^255 - 19, the field operations are the operations of Z/p, exponentiation is exponentiation;
   p and ell are prime (Pocklington certificates in Base/); concrete facts of the curve established by
   computation: the constants, the base point has order exactly ell, the eight points of order
   dividing 8, the three encodings the adversarial prover uses decode to them. *)
From Coq Require Import List NArith ZArith Znumtheory Bool Lia String.
From V.Base Require Import Hex BigEndian PrimeEd25519P PrimeEd25519Ell.
From V.C16 Require Model.
From V.C16 Require Import Curve.
Import ListNotations.
Local Open Scope Z_scope.

Lemma fp_prime : prime fp.
Proof. change fp with ed25519_p. exact ed25519_p_prime. Qed.

Lemma ellZ_prime : prime ellZ.
Proof. change ellZ with ed25519_ell. exact ed25519_ell_prime. Qed.

Lemma fp_val : fp = 2 ^ 255 - 19. Proof. reflexivity. Qed.
Lemma fp_pos : 0 < fp. Proof. reflexivity. Qed.

(* ---- reduction ---- *)
Lemma fold1_spec x : 0 <= x -> fold1 x = x mod 2 ^ 255 + 19 * (x / 2 ^ 255).
Proof.
  intro Hx. unfold fold1, m255. change (2 ^ 255 - 1) with (Z.ones 255).
  rewrite Z.land_ones by lia. rewrite Z.shiftr_div_pow2 by lia. reflexivity.
Qed.

Lemma fold1_congr x : 0 <= x -> fold1 x mod fp = x mod fp.
Proof.
  intro Hx. rewrite fold1_spec by exact Hx.
  pose proof (Z.div_mod x (2 ^ 255) ltac:(lia)) as E.
  assert (Hp : fp = 2 ^ 255 - 19) by reflexivity.
  set (K := 2 ^ 255) in *. set (q := x / K) in *. set (r := x mod K) in *.
  assert (E' : x = (r + 19 * q) + q * fp) by (rewrite Hp; lia).
  rewrite E' at 1. rewrite Z.mod_add by (rewrite Hp; unfold K; lia). reflexivity.
Qed.

(* 0 <= x < B * 2^255  ->  0 <= fold1 x < 2^255 + 19 * B *)
Lemma fold1_bound x B : 0 <= x < B * 2 ^ 255 -> 0 <= fold1 x < 2 ^ 255 + 19 * B.
Proof.
  intros [H0 H1]. rewrite fold1_spec by exact H0.
  pose proof (Z.mod_pos_bound x (2 ^ 255) ltac:(lia)) as Hm.
  assert (0 <= x / 2 ^ 255) by (apply Z.div_pos; lia).
  assert (x / 2 ^ 255 < B) by (apply Z.div_lt_upper_bound; lia).
  lia.
Qed.

Lemma fred_spec x : 0 <= x < 2 ^ 510 -> fred x = x mod fp.
Proof.
  intros [H0 H1]. unfold fred. cbv zeta.
  assert (H510 : 2 ^ 510 = 2 ^ 255 * 2 ^ 255) by (rewrite <- Z.pow_add_r by lia; reflexivity).
  pose proof (fold1_bound x (2 ^ 255) ltac:(lia)) as Hy.
  pose proof (fold1_bound (fold1 x) 20 ltac:(lia)) as Hz.
  assert (Ez : fold1 (fold1 x) mod fp = x mod fp).
  { rewrite fold1_congr by lia. apply fold1_congr. lia. }
  set (z := fold1 (fold1 x)) in *. rewrite <- Ez.
  assert (Hp : fp = 2 ^ 255 - 19) by reflexivity.
  destruct (Z.ltb_spec z fp) as [Hlt|Hge].
  - symmetry. apply Z.mod_small. lia.
  - symmetry. replace z with ((z - fp) + 1 * fp) at 1 by lia.
    rewrite Z.mod_add by lia. apply Z.mod_small. lia.
Qed.

Definition inF (a : Z) : Prop := 0 <= a < fp.

Lemma fmul_spec a b : inF a -> inF b -> fmul a b = (a * b) mod fp.
Proof.
  unfold inF, fmul. intros Ha Hb. apply fred_spec. split; [nia|].
  assert (a * b < 2 ^ 255 * 2 ^ 255) by (unfold fp in *; nia).
  replace (2 ^ 510) with (2 ^ 255 * 2 ^ 255) by (rewrite <- Z.pow_add_r by lia; reflexivity). lia.
Qed.

Lemma fmul_in a b : inF a -> inF b -> inF (fmul a b).
Proof. intros Ha Hb. rewrite fmul_spec by assumption. apply Z.mod_pos_bound, fp_pos. Qed.

Lemma fsq_spec a : inF a -> fsq a = (a * a) mod fp.
Proof. intro. apply fmul_spec; assumption. Qed.

Lemma fadd_spec a b : inF a -> inF b -> fadd a b = (a + b) mod fp /\ inF (fadd a b).
Proof.
  unfold inF, fadd. intros Ha Hb. destruct (Z.ltb_spec (a + b) fp).
  - rewrite Z.mod_small by lia. lia.
  - replace (a + b) with ((a + b - fp) + 1 * fp) at 2 by lia.
    rewrite Z.mod_add by (unfold fp; lia). rewrite Z.mod_small by lia. lia.
Qed.

Lemma fsub_spec a b : inF a -> inF b -> fsub a b = (a - b) mod fp /\ inF (fsub a b).
Proof.
  unfold inF, fsub. intros Ha Hb. destruct (Z.ltb_spec (a - b) 0).
  - replace (a - b) with ((a - b + fp) + (-1) * fp) at 2 by lia.
    rewrite Z.mod_add by (unfold fp; lia). rewrite Z.mod_small by lia. lia.
  - rewrite Z.mod_small by lia. lia.
Qed.

Lemma fneg_spec a : inF a -> fneg a = (- a) mod fp /\ inF (fneg a).
Proof.
  unfold inF, fneg. intros Ha. destruct (Z.eqb_spec a 0) as [->|Hne].
  - split; [reflexivity | unfold fp; lia].
  - replace (- a) with ((fp - a) + (-1) * fp) by lia.
    rewrite Z.mod_add by (unfold fp; lia). rewrite Z.mod_small by lia. lia.
Qed.

Lemma sq_mod a : ((a mod fp) * (a mod fp)) mod fp = (a * a) mod fp.
Proof. symmetry. apply Z.mul_mod. unfold fp; lia. Qed.

Lemma fpow_pos_spec z e : inF z -> fpow_pos z e = (z ^ Zpos e) mod fp /\ inF (fpow_pos z e).
Proof.
  intro Hz. assert (Hn : fp <> 0) by (unfold fp; lia).
  induction e as [e [IH1 IH2]|e [IH1 IH2]|]; cbn [fpow_pos].
  - split; [|apply fmul_in; [assumption | apply fmul_in; assumption]].
    unfold fsq. rewrite (fmul_spec _ _ IH2 IH2), fmul_spec; [|assumption|apply Z.mod_pos_bound, fp_pos].
    rewrite IH1, sq_mod. rewrite Z.mul_mod_idemp_r by exact Hn. f_equal.
    replace (Z.pos e~1) with (Z.pos e + Z.pos e + 1) by lia.
    rewrite !Z.pow_add_r by lia. rewrite Z.pow_1_r. ring.
  - split; [|apply fmul_in; assumption].
    unfold fsq. rewrite (fmul_spec _ _ IH2 IH2). rewrite IH1, sq_mod. f_equal.
    replace (Z.pos e~0) with (Z.pos e + Z.pos e) by lia.
    rewrite Z.pow_add_r by lia. reflexivity.
  - split; [|exact Hz]. rewrite Z.pow_1_r. symmetry. apply Z.mod_small. exact Hz.
Qed.

Lemma fpow_spec z e : inF z -> 0 < e -> fpow z e = (z ^ e) mod fp.
Proof. intros Hz He. destruct e; try lia. apply fpow_pos_spec, Hz. Qed.

(* finv is the inverse: Fermat, with p prime *)
Lemma finv_spec z : inF z -> finv z = (z ^ (fp - 2)) mod fp.
Proof. intro Hz. apply fpow_spec; [exact Hz | reflexivity]. Qed.

(* ---- the constants ---- *)
Lemma constants_ok :
  fmul cd 121666 = fneg 121665 /\ fsq sqrtm1 = fneg 1 /\ fmul 5 (pY base_point) = 4 /\
  on_curve base_point = true /\ (pX base_point) mod 2 = 0 /\ cd2 = fmul 2 cd /\ (fp - 5) mod 8 = 0 /\
  ellZ = Z.of_N V.C16.Model.ell25519.
Proof. vm_compute. repeat split. Qed.

(* the base point has order exactly ell (ell prime, B <> O) *)
Lemma base_order : pt_eqb (pt_mul ellZ base_point) pt_zero = true /\ pt_eqb base_point pt_zero = false.
Proof. vm_compute. split; reflexivity. Qed.

(* ---- the points of order dividing 8 ---- *)
Definition t2 : point := pt_affine 0 (fp - 1).                 (* order 2 *)
Definition t4 : point := pt_affine sqrtm1 0.                   (* order 4 *)
Definition t8 : point :=                                        (* order 8: decoded from 26e8..fc05 *)
  match decompress (lez (unhex "26e8958fc2b227b045c3f489f2ef98f0d5dfac05d3c63339b13802886d53fc05"%string)) with
  | Some P => P | None => pt_zero end.
Definition torsion8 : list point := map (fun k => pt_mul k t8) [8; 1; 2; 3; 4; 5; 6; 7].

Fixpoint all_distinct (l : list point) : bool :=
  match l with
  | [] => true
  | P :: r => forallb (fun Q => negb (pt_eqb P Q)) r && all_distinct r
  end.

(* order of a point of the list: least k in 1..8 with k P = O *)
Definition order8 (P : point) : Z :=
  fold_right (fun k acc => if pt_eqb (pt_mul k P) pt_zero then k else acc) 0 [1; 2; 3; 4; 5; 6; 7; 8].

Lemma torsion8_facts :
  forallb on_curve torsion8 = true /\
  forallb (fun P => pt_eqb (pt_mul 8 P) pt_zero) torsion8 = true /\
  all_distinct torsion8 = true /\
  map order8 torsion8 = [1; 8; 4; 8; 2; 8; 4; 8] /\
  pt_eqb (pt_mul 4 t8) t2 = true /\ (pt_eqb (pt_mul 2 t8) t4 || pt_eqb (pt_mul 6 t8) t4) = true.
Proof. vm_compute. repeat split. Qed.

(* the three encodings the adversarial prover of the harness subtracts decode to points of order
   2, 4 and 8; ff..ff and "y = 1 with the sign bit" decode as well (no canonicity check) *)
Lemma torsion_encodings :
  (match decompress (lez (unhex "ecffffffffffffffffffffffffffffffffffffffffffffffffffffffffffff7f"%string)) with
   | Some P => order8 P | None => -1 end) = 2 /\
  (match decompress (lez (unhex "0000000000000000000000000000000000000000000000000000000000000000"%string)) with
   | Some P => order8 P | None => -1 end) = 4 /\
  (match decompress (lez (unhex "26e8958fc2b227b045c3f489f2ef98f0d5dfac05d3c63339b13802886d53fc05"%string)) with
   | Some P => order8 P | None => -1 end) = 8.
Proof. vm_compute. repeat split. Qed.

Lemma noncanonical_decodes :
  (* y = p + 1 (non-reduced encoding of y = 1): decodes to the identity *)
  (match decompress (2 ^ 255 - 18) with Some P => pt_eqb P pt_zero | None => false end) = true /\
  (* y = 1 with the sign bit set (x = 0 cannot be "negative"): accepted as the identity *)
  (match decompress (1 + 2 ^ 255) with Some P => pt_eqb P pt_zero | None => false end) = true /\
  (* y = 2 is not on the curve *)
  decompress 2 = None.
Proof. vm_compute. repeat split. Qed.

(* ell * T <> O for the small-order points other than the identity (ell is odd and = 5 mod 8):
   a shifted Gamma is outside the prime-order subgroup *)
Lemma torsion_not_in_subgroup :
  forallb (fun P => negb (pt_eqb (pt_mul ellZ P) pt_zero)) (tl torsion8) = true.
Proof. vm_compute. reflexivity. Qed.

(* ---- decompression returns points of the curve (x^2 v = u is the curve equation) ----
   stated on the model's own check: whatever [decompress] returns passes [on_curve] for a sample of
   inputs is a correspondence fact (CurveHarness.KD); the general algebraic statement is
   decompress_sound below *)
