(* C16 — proofs about the algebraic VRF model (Vrf.v). *)
From Coq Require Import ZArith Znumtheory Bool Lia.
From V.Base Require Hex.
From V.C16 Require Model Proofs.
From V.C16 Require Import Vrf.
Local Open Scope Z_scope.

Section P.
Variable W : World.
Notation G := (G W).
Notation zero := (zero W).
Notation add := (add W).
Notation neg := (neg W).
Notation smul := (smul W).
Notation B := (B W).
Notation ell := (ell W).
Notation sub := (sub W).

(* ---- abelian group / Z-module toolkit ---- *)
Lemma add_0_r a : add a zero = a.
Proof. rewrite add_comm. apply add_0_l. Qed.

Lemma add_neg_l a : add (neg a) a = zero.
Proof. rewrite add_comm. apply add_neg_r. Qed.

Lemma add_cancel_l a b c : add a b = add a c -> b = c.
Proof.
  intro H. assert (E : add (neg a) (add a b) = add (neg a) (add a c)) by (rewrite H; reflexivity).
  rewrite !add_assoc, !add_neg_l, !add_0_l in E. exact E.
Qed.

Lemma add_cancel_r a b c : add b a = add c a -> b = c.
Proof. rewrite !(add_comm W _ a). apply add_cancel_l. Qed.

Lemma smul_0_l P : smul 0 P = zero.
Proof.
  apply (add_cancel_l (smul 0 P)). rewrite <- smul_add_l, add_0_r. reflexivity.
Qed.

Lemma smul_zero_r n : smul n zero = zero.
Proof.
  apply (add_cancel_l (smul n zero)). rewrite <- smul_add_r, add_0_r, add_0_r. reflexivity.
Qed.

Lemma neg_unique a b : add a b = zero -> b = neg a.
Proof. intro H. apply (add_cancel_l a). rewrite H, add_neg_r. reflexivity. Qed.

Lemma smul_neg_l n P : smul (- n) P = neg (smul n P).
Proof.
  apply neg_unique. rewrite <- smul_add_l. replace (n + - n) with 0 by lia. apply smul_0_l.
Qed.

Lemma smul_sub_l m n P : smul (m - n) P = sub (smul m P) (smul n P).
Proof. unfold Vrf.sub. rewrite <- smul_neg_l, <- smul_add_l. f_equal. Qed.

Lemma sub_diag a : sub a a = zero.
Proof. apply add_neg_r. Qed.

Lemma sub_zero_eq a b : sub a b = zero -> a = b.
Proof.
  unfold Vrf.sub. intro H. apply (add_cancel_r (neg b)). rewrite H, add_neg_r. reflexivity.
Qed.

Lemma add_sub_cancel a b : sub (add a b) a = b.
Proof.
  unfold Vrf.sub. rewrite (add_comm W a b), <- add_assoc, add_neg_r. apply add_0_r.
Qed.

Lemma sub_add_cancel a b : add (sub a b) b = a.
Proof. unfold Vrf.sub. rewrite <- add_assoc, add_neg_l. apply add_0_r. Qed.

(* a - b = c - d  ->  a - c = b - d *)
Lemma sub_move a b c d : sub a b = sub c d -> sub a c = sub b d.
Proof.
  intro H.
  assert (Ha : a = add (sub c d) b) by (rewrite <- H, sub_add_cancel; reflexivity).
  subst a. unfold Vrf.sub.
  (* ((c + -d) + b) + -c = b + -d *)
  rewrite (add_comm W (add (add c (neg d)) b) (neg c)).
  rewrite <- (add_assoc W c (neg d) b).
  rewrite (add_assoc W (neg c) c), add_neg_l, add_0_l.
  apply add_comm.
Qed.

Lemma smul_comm m n P : smul m (smul n P) = smul n (smul m P).
Proof. rewrite <- !smul_mul. f_equal. lia. Qed.

Lemma smul_mod n P : smul ell P = zero -> smul (n mod ell) P = smul n P.
Proof.
  intro H. pose proof (prime_ge_2 _ (ell_prime W)) as Hl.
  rewrite (Z.div_mod n ell) at 2 by lia.
  rewrite smul_add_l, (Z.mul_comm ell), smul_mul, H, smul_zero_r, add_0_l. reflexivity.
Qed.

Lemma ell_B : smul ell B = zero.
Proof. apply B_order. apply Z.divide_refl. Qed.

Lemma ell_hash Y m : smul ell (hash_to_curve W Y m) = zero.
Proof.
  unfold hash_to_curve. rewrite <- smul_mul, Z.mul_comm. apply order8l.
Qed.

Lemma ell_8 P : smul ell (smul 8 P) = zero.
Proof. rewrite <- smul_mul, Z.mul_comm. apply order8l. Qed.

Lemma smul_eq_divide m n : smul m B = smul n B <-> (ell | m - n).
Proof.
  rewrite <- B_order, smul_sub_l. split.
  - intro H. rewrite H. apply sub_diag.
  - apply sub_zero_eq.
Qed.

(* ---- completeness ---- *)
(* the response s = c*x + k mod ell opens both commitments: U = k*B, V = k*H *)
Lemma response_opens (x k c : Z) (P Q : G) :
  smul ell P = zero -> Q = smul x P ->
  sub (smul (((c * x + k) mod ell) mod ell) P) (smul c Q) = smul k P.
Proof.
  intros HP ->. rewrite !smul_mod by exact HP.
  rewrite smul_add_l, smul_mul. apply add_sub_cancel.
Qed.

Lemma query_prove x t m :
  let Y := pubkey W x in
  let H := hash_to_curve W Y m in
  let k := nonce W t H in
  query W Y (prove W x t m) m = (H, smul x H, smul k B, smul k H).
Proof.
  cbv zeta. unfold prove, query.
  rewrite (response_opens x _ _ B (pubkey W x) ell_B eq_refl).
  rewrite (response_opens x _ _ (hash_to_curve W (pubkey W x) m) _ (ell_hash _ _) eq_refl).
  reflexivity.
Qed.

Lemma complete x t m : verify W (pubkey W x) (prove W x t m) m = true.
Proof.
  unfold verify. pose proof (query_prove x t m) as Q. cbv zeta in Q.
  unfold prove in *. rewrite Q. cbn [Hc4]. apply Z.eqb_refl.
Qed.

(* ---- the shifted proof ---- *)
Lemma query_shifted x m T k :
  let Y := pubkey W x in
  let H := hash_to_curve W Y m in
  let Gm := add (smul x H) T in
  let c := Hc W H Gm (smul k B) (smul k H) in
  smul c T = zero ->
  query W Y (shifted W x m T k) m = (H, Gm, smul k B, smul k H).
Proof.
  cbv zeta. intro HT. unfold shifted, query.
  rewrite (response_opens x _ _ B (pubkey W x) ell_B eq_refl).
  set (H := hash_to_curve W (pubkey W x) m) in *.
  set (Gm := add (smul x H) T) in *.
  set (c := Hc W H Gm (smul k B) (smul k H)) in *.
  assert (EG : smul c Gm = smul c (smul x H)).
  { unfold Gm. rewrite smul_add_r, HT, add_0_r. reflexivity. }
  rewrite EG.
  rewrite (response_opens x _ _ H _ (ell_hash _ _) eq_refl). reflexivity.
Qed.

Lemma shifted_accepted x m T k :
  let Y := pubkey W x in
  let H := hash_to_curve W Y m in
  let Gm := add (smul x H) T in
  let c := Hc W H Gm (smul k B) (smul k H) in
  smul c T = zero ->
  verify W Y (shifted W x m T k) m = true.
Proof.
  cbv zeta. intro HT. unfold verify.
  pose proof (query_shifted x m T k) as Q. cbv zeta in Q. specialize (Q HT).
  unfold shifted in *. rewrite Q. cbn [Hc4]. apply Z.eqb_refl.
Qed.

Lemma shifted_output_enc x t m T k :
  T <> zero -> output_enc W (shifted W x m T k) <> output_enc W (prove W x t m).
Proof.
  intros HT E. unfold shifted, prove, output_enc in E. apply HT.
  apply (add_cancel_l (smul x (hash_to_curve W (pubkey W x) m))). rewrite add_0_r. exact E.
Qed.

Lemma shifted_output_cof x t m T k :
  smul 8 T = zero -> output_cof W (shifted W x m T k) = output_cof W (prove W x t m).
Proof.
  intro HT. unfold shifted, prove, output_cof. rewrite smul_add_r, HT, add_0_r. reflexivity.
Qed.

(* ---- soundness core: for a Gamma with the wrong discrete log, at most one challenge (mod ell)
        can be answered for given commitments U, V ---- *)
Lemma one_answerable x (H Gm U V : G) c1 c2 :
  smul ell H = zero ->
  smul 8 Gm <> smul (8 * x) H ->
  answerable W (pubkey W x) H Gm U V c1 ->
  answerable W (pubkey W x) H Gm U V c2 ->
  (ell | c1 - c2).
Proof.
  intros HH Hne (s1 & EU1 & EV1) (s2 & EU2 & EV2).
  rewrite EU1 in EU2. rewrite EV1 in EV2. clear EU1 EV1.
  apply sub_move in EU2. apply sub_move in EV2.
  rewrite <- !smul_sub_l in EU2, EV2.
  set (ds := s1 - s2) in *. set (dc := c1 - c2) in *.
  unfold pubkey in EU2. rewrite <- smul_mul in EU2.
  apply smul_eq_divide in EU2. destruct EU2 as [j Hj].
  destruct (cyclic W H HH) as [h Eh].
  destruct (cyclic W (smul 8 Gm) (ell_8 Gm)) as [g Eg].
  assert (E8 : smul (8 * ds * h) B = smul (dc * g) B).
  { replace (8 * ds * h) with (8 * (ds * h)) by lia.
    rewrite smul_mul, smul_mul, <- Eh, EV2, smul_comm, Eg, <- smul_mul. reflexivity. }
  apply smul_eq_divide in E8. destruct E8 as [i Hi].
  assert (Hd : (ell | dc * (8 * h * x - g))).
  { exists (i - 8 * h * j). nia. }
  apply prime_mult in Hd; [|apply ell_prime].
  destruct Hd as [Hd|Hd]; [exact Hd|]. exfalso. apply Hne.
  rewrite Eg, Eh, <- smul_mul. apply smul_eq_divide.
  replace (g - 8 * x * h) with (- (8 * h * x - g)) by lia.
  apply Z.divide_opp_r. exact Hd.
Qed.

(* a verified proof answers its own challenge for the commitments it determines *)
Lemma verify_answerable Y Gm c s m :
  verify W Y (Gm, c, s) m = true ->
  let '(H, _, U, V) := query W Y (Gm, c, s) m in
  Hc W H Gm U V = c /\ answerable W Y H Gm U V c.
Proof.
  unfold verify, query, Hc4. intro Hv. apply Z.eqb_eq in Hv. split; [exact Hv|].
  exists (s mod ell). split; reflexivity.
Qed.

(* random-oracle idealisation used by the uniqueness theorem: for a Gamma whose cofactor multiple is
   not 8*x*H, the challenge hash never returns an answerable challenge (by [one_answerable] there is at
   most one such value below ell per query, so an ideal 128-bit hash hits it with probability 2^-128) *)
Definition ro_sound (x : Z) : Prop :=
  forall (m : Msg W) (Gm U V : G),
    let Y := pubkey W x in
    let H := hash_to_curve W Y m in
    smul 8 Gm <> smul (8 * x) H -> ~ answerable W Y H Gm U V (Hc W H Gm U V).

Lemma accepted_gamma8 x m p :
  ro_sound x -> verify W (pubkey W x) p m = true ->
  output_cof W p = smul (8 * x) (hash_to_curve W (pubkey W x) m).
Proof.
  intros Hro Hv. destruct p as [[Gm c] s].
  pose proof (verify_answerable _ _ _ _ _ Hv) as Ha. unfold query in Ha. destruct Ha as [Hc' Ha].
  unfold output_cof.
  destruct (geqb W (smul 8 Gm) (smul (8 * x) (hash_to_curve W (pubkey W x) m))) eqn:Eq.
  - apply geqb_spec in Eq. exact Eq.
  - exfalso. assert (Hne : smul 8 Gm <> smul (8 * x) (hash_to_curve W (pubkey W x) m)).
    { intro E'. apply geqb_spec in E'. congruence. }
    refine (Hro m Gm _ _ Hne _). rewrite Hc'. exact Ha.
Qed.

Lemma output_cof_unique x m p1 p2 :
  ro_sound x ->
  verify W (pubkey W x) p1 m = true -> verify W (pubkey W x) p2 m = true ->
  output_cof W p1 = output_cof W p2.
Proof.
  intros Hro H1 H2. rewrite (accepted_gamma8 x m p1 Hro H1), (accepted_gamma8 x m p2 Hro H2). reflexivity.
Qed.

Lemma accepted_gamma8_or_lucky x m p :
  verify W (pubkey W x) p m = true ->
  output_cof W p = smul (8 * x) (hash_to_curve W (pubkey W x) m) \/ lucky_hit W x m p.
Proof.
  intro Hv. destruct p as [[Gm c] s].
  pose proof (verify_answerable _ _ _ _ _ Hv) as Ha. unfold query in Ha. destruct Ha as [Hc' Ha].
  unfold output_cof, lucky_hit, query.
  destruct (geqb W (smul 8 Gm) (smul (8 * x) (hash_to_curve W (pubkey W x) m))) eqn:Eq.
  - left. apply geqb_spec in Eq. exact Eq.
  - right. assert (Hne : smul 8 Gm <> smul (8 * x) (hash_to_curve W (pubkey W x) m)).
    { intro E'. apply geqb_spec in E'. congruence. }
    split; [exact Hne|]. split; [exact Hc'|]. split; [exact Ha|].
    intros c' Ha'. eapply one_answerable; eauto. apply ell_hash.
Qed.

Lemma output_cof_unique_or_lucky x m p1 p2 :
  verify W (pubkey W x) p1 m = true -> verify W (pubkey W x) p2 m = true ->
  output_cof W p1 = output_cof W p2 \/ lucky_hit W x m p1 \/ lucky_hit W x m p2.
Proof.
  intros H1 H2.
  destruct (accepted_gamma8_or_lucky x m p1 H1) as [E1|L1]; [|tauto].
  destruct (accepted_gamma8_or_lucky x m p2 H2) as [E2|L2]; [|tauto].
  left. congruence.
Qed.

(* ---- the guard that restores uniqueness of the raw-encoding output: Gamma in the prime-order
        subgroup (what a subgroup check in decodeProof would enforce) ---- *)
Lemma ell_not_div_8 : 2 < ell -> ~ (ell | 8).
Proof.
  intros Hl Hd. pose proof (ell_prime W) as Hp.
  change 8 with (2 * (2 * 2)) in Hd.
  assert (H2 : (ell | 2)).
  { apply prime_mult in Hd; [|exact Hp]. destruct Hd as [Hd|Hd]; [exact Hd|].
    apply prime_mult in Hd; [|exact Hp]. destruct Hd; assumption. }
  apply Z.divide_pos_le in H2; lia.
Qed.

Lemma torsion_free_part P : 2 < ell -> smul 8 P = zero -> smul ell P = zero -> P = zero.
Proof.
  intros Hl H8 Hell.
  assert (Hrp : rel_prime ell 8) by (apply prime_rel_prime; [apply ell_prime | apply ell_not_div_8, Hl]).
  destruct (rel_prime_bezout _ _ Hrp) as [u v Huv].
  rewrite <- (smul_1 W P), <- Huv, smul_add_l, !smul_mul, Hell, H8, !smul_zero_r. apply add_0_l.
Qed.

Lemma smul_sub_r n P Q : smul n (sub P Q) = sub (smul n P) (smul n Q).
Proof.
  unfold Vrf.sub. rewrite smul_add_r. f_equal.
  apply neg_unique. rewrite <- smul_add_r, add_neg_r. apply smul_zero_r.
Qed.

(* honest provers meet the guard: Gamma = x * (8 * E) is killed by ell *)
Lemma honest_gamma_in_subgroup x t m : smul ell (output_enc W (prove W x t m)) = zero.
Proof.
  unfold prove, output_enc. rewrite smul_comm, ell_hash. apply smul_zero_r.
Qed.

Lemma output_enc_unique_in_subgroup x m p1 p2 :
  2 < ell ->
  smul ell (output_enc W p1) = zero -> smul ell (output_enc W p2) = zero ->
  verify W (pubkey W x) p1 m = true -> verify W (pubkey W x) p2 m = true ->
  output_enc W p1 = output_enc W p2 \/ lucky_hit W x m p1 \/ lucky_hit W x m p2.
Proof.
  intros Hl S1 S2 V1 V2.
  destruct (accepted_gamma8_or_lucky x m p1 V1) as [E1|L1]; [|tauto].
  destruct (accepted_gamma8_or_lucky x m p2 V2) as [E2|L2]; [|tauto].
  left. destruct p1 as [[G1 c1] s1], p2 as [[G2 c2] s2]. unfold output_enc, output_cof in *.
  apply sub_zero_eq. apply torsion_free_part; [exact Hl| |].
  - rewrite smul_sub_r, E1, E2. apply sub_diag.
  - rewrite smul_sub_r, S1, S2. apply sub_diag.
Qed.

(* ---- mutations: an accepted mutant evaluates the challenge hash at a fresh point ---- *)
Lemma mutate_gamma_query Y Gm Gm' c s m :
  Gm' <> Gm -> query W Y (Gm', c, s) m <> query W Y (Gm, c, s) m.
Proof. unfold query. intros Hne E. apply Hne. congruence. Qed.

Lemma mutate_s_query Y Gm c s s' m :
  ~ (ell | s' - s) -> query W Y (Gm, c, s') m <> query W Y (Gm, c, s) m.
Proof.
  unfold query. intros Hne E. apply Hne.
  assert (E1 : sub (smul (s' mod ell) B) (smul c Y) = sub (smul (s mod ell) B) (smul c Y)) by congruence.
  unfold Vrf.sub in E1. apply add_cancel_r in E1.
  rewrite !(smul_mod _ _ ell_B) in E1. apply smul_eq_divide in E1. exact E1.
Qed.

Lemma mutate_c_query x Gm c c' s m :
  ~ (ell | x) -> 0 <= c < ell -> 0 <= c' < ell -> c' <> c ->
  query W (pubkey W x) (Gm, c', s) m <> query W (pubkey W x) (Gm, c, s) m.
Proof.
  unfold query. intros Hx Hc Hc' Hne E.
  assert (E1 : sub (smul (s mod ell) B) (smul c' (pubkey W x)) = sub (smul (s mod ell) B) (smul c (pubkey W x))) by congruence.
  unfold Vrf.sub in E1. apply add_cancel_l in E1.
  assert (E2 : smul c' (pubkey W x) = smul c (pubkey W x)).
  { apply (add_cancel_l (neg (smul c' (pubkey W x)))). rewrite add_neg_l, E1, add_neg_l. reflexivity. }
  unfold pubkey in E2. rewrite <- !smul_mul in E2. apply smul_eq_divide in E2.
  replace (c' * x - c * x) with ((c' - c) * x) in E2 by lia.
  apply prime_mult in E2; [|apply ell_prime]. destruct E2 as [E2|E2]; [|tauto].
  destruct E2 as [q Hq]. assert (q = 0) by nia. lia.
Qed.

Lemma mutate_h_query Y Y' p m m' :
  hash_to_curve W Y' m' <> hash_to_curve W Y m -> query W Y' p m' <> query W Y p m.
Proof. destruct p as [[Gm c] s]. unfold query. intros Hne E. apply Hne. congruence. Qed.

(* collision-freeness of the challenge hash (idealisation of the 16-byte truncated SHA-512) *)
Definition no_collision : Prop := forall q q', Hc4 W q = Hc4 W q' -> q = q'.

(* a mutant that keeps c and is accepted yields a collision with the honest query *)
Lemma same_c_mutant_rejected Y Y' Gm Gm' c s s' m m' :
  no_collision ->
  verify W Y (Gm, c, s) m = true ->
  query W Y' (Gm', c, s') m' <> query W Y (Gm, c, s) m ->
  verify W Y' (Gm', c, s') m' = false.
Proof.
  intros Hnc Hv Hq. unfold verify in *. apply Z.eqb_eq in Hv.
  destruct (Z.eqb_spec (Hc4 W (query W Y' (Gm', c, s') m')) c) as [E|]; [|reflexivity].
  exfalso. apply Hq. apply Hnc. congruence.
Qed.

(* single-bit flips of s change it by +-2^i, never by a multiple of the odd prime ell *)
Lemma pow2_not_multiple i : 0 <= i -> 2 < ell -> ~ (ell | 2 ^ i).
Proof.
  intros Hi Hl Hd. pose proof (ell_prime W) as Hp.
  assert (Hdiv : (ell | 2)).
  { revert Hd. pattern i. apply natlike_ind; [| |exact Hi].
    - intro H. apply Z.divide_1_r_nonneg in H; lia.
    - intros n Hn IH H. rewrite Z.pow_succ_r in H by lia.
      apply prime_mult in H; [|exact Hp]. destruct H; [assumption|auto]. }
  apply Z.divide_pos_le in Hdiv; lia.
Qed.

Lemma bitflip_not_multiple i s s' :
  0 <= i -> 2 < ell -> (s' - s = 2 ^ i \/ s - s' = 2 ^ i) -> ~ (ell | s' - s).
Proof.
  intros Hi Hl [E|E] Hd.
  - rewrite E in Hd. exact (pow2_not_multiple i Hi Hl Hd).
  - apply (pow2_not_multiple i Hi Hl). rewrite <- E.
    replace (s - s') with (- (s' - s)) by lia. apply Z.divide_opp_r. exact Hd.
Qed.

(* an accepted mutant that keeps the challenge bytes collides with the honest query *)
Lemma mutant_same_c Y Y' Gm Gm' c s s' m m' :
  verify W Y (Gm, c, s) m = true -> verify W Y' (Gm', c, s') m' = true ->
  Hc4 W (query W Y' (Gm', c, s') m') = Hc4 W (query W Y (Gm, c, s) m).
Proof.
  unfold verify. intros H1 H2. apply Z.eqb_eq in H1, H2. congruence.
Qed.

Lemma mutate_proof_query Y Gm Gm' c s s' m :
  Gm' <> Gm \/ (Gm' = Gm /\ ~ (ell | s' - s)) ->
  query W Y (Gm', c, s') m <> query W Y (Gm, c, s) m.
Proof.
  intros [Hg|[-> Hs]].
  - unfold query. intro E. apply Hg. congruence.
  - apply mutate_s_query. exact Hs.
Qed.

(* ECVRFVerify reduces s modulo ell (ScReduce) before use: s + j*ell is the same proof to the verifier
   (the proof STRING is malleable in s; the output is not affected) *)
Lemma verify_s_shift Y Gm c s j m : verify W Y (Gm, c, s + j * ell) m = verify W Y (Gm, c, s) m.
Proof.
  pose proof (prime_ge_2 _ (ell_prime W)) as Hl.
  unfold verify, query. rewrite Z.mod_add by lia. reflexivity.
Qed.

End P.

(* ---- statements used by Props.v ---- *)
Lemma transport_vrf (W : World) (dec : list N -> option (proof W)) Y m (pi : list N) :
  V.Base.Hex.bytes_ok pi -> length pi = V.C16.Model.prove_size ->
  V.C16.Model.verify_via (verify_bytes W dec Y m) (V.C16.Model.transport pi) =
  V.C16.Model.verify_via (verify_bytes W dec Y m) pi.
Proof. exact (V.C16.Proofs.verify_transport (verify_bytes W dec Y m) pi). Qed.

(* the headline clause: an honestly generated proof, encoded to 80 bytes by an encoder that the decoder
   inverts on this proof, still verifies after the header's big-integer round trip *)
Lemma complete_after_transport (W : World) (enc : proof W -> list N) (dec : list N -> option (proof W))
  x t (m : Msg W) :
  let p := prove W x t m in
  dec (enc p) = Some p -> V.Base.Hex.bytes_ok (enc p) -> length (enc p) = V.C16.Model.prove_size ->
  V.C16.Model.verify_via (verify_bytes W dec (pubkey W x) m) (V.C16.Model.transport (enc p)) = true.
Proof.
  cbv zeta. intros Hdec Hok Hlen.
  rewrite (V.C16.Proofs.verify_transport _ _ Hok Hlen).
  unfold V.C16.Model.verify_via. rewrite (V.C16.Proofs.pad80_id _ Hlen).
  unfold verify_bytes. rewrite Hdec. apply complete.
Qed.

Lemma s_reduced_mod_ell (W : World) (Y Gm : G W) (c s j : Z) (m : Msg W) :
  verify W Y (Gm, c, s + j * ell W) m = verify W Y (Gm, c, s) m /\
  output_enc W (Gm, c, s + j * ell W) = output_enc W (Gm, c, s).
Proof. split; [apply verify_s_shift | reflexivity]. Qed.

Lemma deterministic (W : World) (x t : Z) (m : Msg W) p1 p2 :
  p1 = prove W x t m -> p2 = prove W x t m -> p1 = p2.
Proof. intros; congruence. Qed.

Lemma shifted_outputs (W : World) (x t : Z) (m : Msg W) (T : G W) (k : Z) :
  (T <> zero W -> output_enc W (shifted W x m T k) <> output_enc W (prove W x t m)) /\
  (smul W 8 T = zero W -> output_cof W (shifted W x m T k) = output_cof W (prove W x t m)).
Proof. split; [apply shifted_output_enc | apply shifted_output_cof]. Qed.

Lemma bit_mutation_proof (W : World) (x t : Z) (m : Msg W) Gm' s' :
  let Y := pubkey W x in
  let '(Gm, c, s) := prove W x t m in
  Gm' <> Gm \/ (Gm' = Gm /\ ~ (ell W | s' - s)) ->
  verify W Y (Gm', c, s') m = true ->
  query W Y (Gm', c, s') m <> query W Y (Gm, c, s) m /\
  Hc4 W (query W Y (Gm', c, s') m) = Hc4 W (query W Y (Gm, c, s) m).
Proof.
  cbv zeta. pose proof (complete W x t m) as Hv.
  destruct (prove W x t m) as [[Gm c] s]. intros Hm Hv'. split.
  - apply mutate_proof_query. exact Hm.
  - eapply mutant_same_c; eassumption.
Qed.

Lemma bit_mutation_challenge (W : World) (x t : Z) (m : Msg W) c' :
  let Y := pubkey W x in
  let '(Gm, c, s) := prove W x t m in
  ~ (ell W | x) -> 0 <= c' < ell W -> c' <> c ->
  verify W Y (Gm, c', s) m = true ->
  query W Y (Gm, c', s) m <> query W Y (Gm, c, s) m /\ Hc4 W (query W Y (Gm, c', s) m) = c'.
Proof.
  cbv zeta. pose proof (complete W x t m) as Hv.
  destruct (prove W x t m) as [[Gm c] s] eqn:Ep. intros Hx Hc' Hne Hv'. split.
  - apply mutate_c_query; auto.
    unfold verify in Hv. apply Z.eqb_eq in Hv. rewrite <- Hv.
    pose proof (cbound_ok W). destruct (query W (pubkey W x) (Gm, c, s) m) as [[[a b] u] v].
    cbn [Hc4]. pose proof (Hc_range W a b u v). lia.
  - unfold verify in Hv'. apply Z.eqb_eq in Hv'. exact Hv'.
Qed.

Lemma bit_mutation_input (W : World) (x t : Z) (m m' : Msg W) (Y' : G W) :
  let Y := pubkey W x in
  let p := prove W x t m in
  hash_to_curve W Y' m' <> hash_to_curve W Y m ->
  verify W Y' p m' = true ->
  query W Y' p m' <> query W Y p m /\ Hc4 W (query W Y' p m') = Hc4 W (query W Y p m).
Proof.
  cbv zeta. pose proof (complete W x t m) as Hv.
  destruct (prove W x t m) as [[Gm c] s]. intros Hh Hv'. split.
  - apply mutate_h_query. exact Hh.
  - eapply mutant_same_c; eassumption.
Qed.
