(* C16 — executable model of the curve layer under the VRF (src/common/ed25519/edwards25519):
   the field F_p, p = 2^255 - 19 (integers in [0, p)), the twisted Edwards curve
   -x^2 + y^2 = 1 + d x^2 y^2 in extended coordinates (X : Y : Z : T), x = X/Z, y = Y/Z, T = XY/Z,
   with the formulas of the Go code:
     ExtendedGroupElement.Double + CompletedGroupElement.ToExtended   -> pt_double
     ExtendedGroupElement.ToCached + GeSub/geAdd + ToExtended         -> pt_sub / pt_add
     ExtendedGroupElement.FromBytes (decompression, sqrt via (p-5)/8 and the sqrt(-1) fix-up, no
       canonicity check on y, x = 0 with sign bit 1 accepted)         -> decompress
     ExtendedGroupElement.ToBytes                                     -> compress
   and scalar multiplication by double-and-add (GeScalarMult / GeScalarMultBase use windowed
   algorithms; they are compared with this specification-level function on the resulting point).
   On top of it the equations of ECVRFVerify.  No proofs in this file. *)
From Coq Require Import List NArith ZArith Bool.
From V.Base Require Import Hex BigEndian.
Import ListNotations.
Local Open Scope Z_scope.

Definition fp : Z := 2 ^ 255 - 19.
Definition m255 : Z := 2 ^ 255 - 1.

(* x mod p for 0 <= x < 2^510 by folding the high part twice (2^255 = 19 mod p) *)
Definition fold1 (x : Z) : Z := Z.land x m255 + 19 * Z.shiftr x 255.
Definition fred (x : Z) : Z := let z := fold1 (fold1 x) in if z <? fp then z else z - fp.

Definition fmul (a b : Z) : Z := fred (a * b).
Definition fsq (a : Z) : Z := fmul a a.
Definition fadd (a b : Z) : Z := let s := a + b in if s <? fp then s else s - fp.
Definition fsub (a b : Z) : Z := let s := a - b in if s <? 0 then s + fp else s.
Definition fneg (a : Z) : Z := if a =? 0 then 0 else fp - a.

Fixpoint fpow_pos (z : Z) (e : positive) : Z :=
  match e with
  | xH => z
  | xO e' => fsq (fpow_pos z e')
  | xI e' => fmul z (fsq (fpow_pos z e'))
  end.
Definition fpow (z e : Z) : Z := match e with Zpos e' => fpow_pos z e' | _ => 1 end.
Definition finv (z : Z) : Z := fpow z (fp - 2).

Definition cd : Z := 37095705934669439343138083508754565189542113879843219016388785533085940283555.
Definition cd2 : Z := fadd cd cd.
Definition sqrtm1 : Z := 19681161376707505956807079304988542015446066515923890162744021073123829784752.

Record point := mkpt { pX : Z; pY : Z; pZ : Z; pT : Z }.

Definition pt_zero : point := mkpt 0 1 1 0.
Definition pt_affine (x y : Z) : point := mkpt x y 1 (fmul x y).
Definition pt_neg (P : point) : point := mkpt (fneg (pX P)) (pY P) (pZ P) (fneg (pT P)).

(* completed -> extended *)
Definition of_completed (cx cy cz ct : Z) : point :=
  mkpt (fmul cx ct) (fmul cy cz) (fmul cz ct) (fmul cx cy).

Definition pt_double (P : point) : point :=
  let xx := fsq (pX P) in
  let yy := fsq (pY P) in
  let zz2 := let z2 := fsq (pZ P) in fadd z2 z2 in
  let s := fsq (fadd (pX P) (pY P)) in
  let cy := fadd yy xx in
  let cz := fsub yy xx in
  let cx := fsub s cy in
  let ct := fsub zz2 cz in
  of_completed cx cy cz ct.

(* geAdd(P, ToCached(Q)) *)
Definition pt_add (P Q : point) : point :=
  let a := fmul (fadd (pY P) (pX P)) (fadd (pY Q) (pX Q)) in
  let b := fmul (fsub (pY P) (pX P)) (fsub (pY Q) (pX Q)) in
  let c := fmul (fmul (pT Q) cd2) (pT P) in
  let zz := fmul (pZ P) (pZ Q) in
  let t0 := fadd zz zz in
  of_completed (fsub a b) (fadd a b) (fadd t0 c) (fsub t0 c).

(* GeSub(P, ToCached(Q)) *)
Definition pt_sub (P Q : point) : point :=
  let a := fmul (fadd (pY P) (pX P)) (fsub (pY Q) (pX Q)) in
  let b := fmul (fsub (pY P) (pX P)) (fadd (pY Q) (pX Q)) in
  let c := fmul (fmul (pT Q) cd2) (pT P) in
  let zz := fmul (pZ P) (pZ Q) in
  let t0 := fadd zz zz in
  of_completed (fsub a b) (fadd a b) (fsub t0 c) (fadd t0 c).

Fixpoint pt_mul_pos (k : positive) (P : point) : point :=
  match k with
  | xH => P
  | xO k' => pt_double (pt_mul_pos k' P)
  | xI k' => pt_add (pt_double (pt_mul_pos k' P)) P
  end.
Definition pt_mul (k : Z) (P : point) : point :=
  match k with Zpos k' => pt_mul_pos k' P | _ => pt_zero end.

(* same projective point *)
Definition pt_eqb (P Q : point) : bool :=
  (fmul (pX P) (pZ Q) =? fmul (pX Q) (pZ P)) && (fmul (pY P) (pZ Q) =? fmul (pY Q) (pZ P)).
(* same coordinates *)
Definition pt_same (P Q : point) : bool :=
  (pX P =? pX Q) && (pY P =? pY Q) && (pZ P =? pZ Q) && (pT P =? pT Q).

(* the curve equation, projectively, plus T Z = X Y *)
Definition on_curve (P : point) : bool :=
  let xx := fsq (pX P) in let yy := fsq (pY P) in let zz := fsq (pZ P) in
  (fmul (fsub yy xx) zz =? fadd (fsq zz) (fmul cd (fmul xx yy)))
  && (fmul (pT P) (pZ P) =? fmul (pX P) (pY P)) && negb (pZ P =? 0).

(* ToBytes: affine y (little-endian, 255 bits) with the parity of affine x in bit 255 *)
Definition compress (P : point) : Z :=
  let zi := finv (pZ P) in
  let x := fmul (pX P) zi in
  let y := fmul (pY P) zi in
  y + 2 ^ 255 * (x mod 2).

(* FromBytes on the 256-bit little-endian integer e of the 32 input bytes, in pieces:
   the candidate root u v^3 (u v^7)^((p-5)/8), the two root checks with the sqrt(-1) fix-up, the sign *)
Definition e22523 : Z := (fp - 5) / 8.
Definition sqrt_candidate (u v : Z) : Z :=
  let v3 := fmul (fsq v) v in
  let x0 := fmul (fmul (fsq v3) v) u in                      (* u v^7 *)
  fmul (fmul (fpow x0 e22523) v3) u.                         (* u v^3 (u v^7)^((p-5)/8) *)
Definition choose_root (x1 u v : Z) : option Z :=
  let vxx := fmul (fsq x1) v in
  if fsub vxx u =? 0 then Some x1
  else if fadd vxx u =? 0 then Some (fmul x1 sqrtm1) else None.
Definition fix_sign (x sign : Z) : Z := if (x mod 2) =? sign then x else fneg x.
Definition dec_y (e : Z) : Z := fred (Z.land e m255).   (* FeFromBytes keeps 255 bits; no y < p check anywhere *)
Definition dec_u (y : Z) : Z := fsub (fsq y) 1.
Definition dec_v (y : Z) : Z := fadd (fmul (fsq y) cd) 1.

Definition decompress (e : Z) : option point :=
  let y := dec_y e in
  match choose_root (sqrt_candidate (dec_u y) (dec_v y)) (dec_u y) (dec_v y) with
  | None => None
  | Some x => let x' := fix_sign x (Z.shiftr e 255) in Some (mkpt x' y 1 (fmul x' y))
  end.

Definition base_point : point :=
  pt_affine 15112221349535400772501151409588531511454012693041857206046113283949847762202
            46316835694926478169428394003475163141307993866256225615783033603165251855960.

Definition ellZ : Z := 2 ^ 252 + 27742317777372353535851937790883648493.

Definition lez (l : bytes) : Z := Z.of_N (le_val l).

(* ECVRFVerify after padding, with H = hashToCurve(m, pk) (SHA-512 + Elligator2: not modelled) given
   as its 32 bytes: the two points fed to hashPoints, compressed; None = decode error *)
Definition vrf_uv (pk pi h : bytes) : option (Z * Z) :=
  match decompress (lez pk), decompress (lez (firstn 32 pi)), decompress (lez h) with
  | Some Y, Some Gm, Some H =>
      let c := lez (firstn 16 (skipn 32 pi)) in
      let s := lez (skipn 48 pi) mod ellZ in                  (* ScReduce *)
      let U := pt_sub (pt_mul s base_point) (pt_mul c Y) in
      let V := pt_sub (pt_mul s H) (pt_mul c Gm) in
      Some (compress U, compress V)
  | _, _, _ => None
  end.
