(* C16 — completeness of the addition law of the model: d is not a square modulo p (Euler's criterion
   by computation + Fermat's little theorem), hence for two points of the curve with Z <> 0 the sum
   computed by pt_add / pt_sub has Z <> 0 (Bernstein-Lange argument for a = -1 = sqrtm1^2). *)
From Coq Require Import ZArith Znumtheory Zpow_facts Lia Nsatz Bool.
From Coq Require Import Ncring Cring Integral_domain Morphisms Setoid.
From V.Base Require Import Pocklington.
From V.C16 Require Import Curve CurveProofs FieldMod CurveClosure CurveDecompress CurveAdd.
Local Open Scope Z_scope.

Definition nz (a : Z) : Prop := ~ eqm a 0.

Lemma nz_div a : nz a <-> ~ (fp | a).
Proof. unfold nz. rewrite eqm_div, Z.sub_0_r. reflexivity. Qed.

(* inverses exist (Bezout) *)
Lemma inverse_exists a : nz a -> exists b, eqm (a * b) 1.
Proof.
  intro Ha. apply nz_div in Ha.
  assert (Hr : rel_prime fp a) by (apply prime_rel_prime; [exact fp_prime | exact Ha]).
  destruct (rel_prime_bezout _ _ Hr) as [u v Huv]. exists v.
  apply eqm_div. exists (- u). lia.
Qed.

Lemma nz_mul a b : nz a -> nz b -> nz (a * b).
Proof.
  unfold nz. intros Ha Hb H.
  destruct (@integral_domain_product _ _ _ _ _ _ _ _ _ _ _ Mdi a b H) as [H0|H0]; auto.
Qed.

Lemma nz_mul_inv a b : nz (a * b) -> nz a /\ nz b.
Proof. unfold nz. intro H. split; intro H0; apply H; nsatz. Qed.

(* Euler: d^((p-1)/2) = -1 *)
Lemma cd_euler : (cd ^ ((fp - 1) / 2)) mod fp = fp - 1.
Proof. rewrite <- (fpow_spec cd ((fp - 1) / 2) cd_in) by reflexivity. vm_compute. reflexivity. Qed.

Lemma cd_nz : nz cd.
Proof. unfold nz, eqm. vm_compute. discriminate. Qed.

Theorem d_nonsquare : forall w, ~ eqm (w * w) cd.
Proof.
  intros w Hw.
  assert (Hnw : ~ (fp | w)).
  { intro Hd. apply cd_nz. rewrite <- Hw. apply eqm_div. rewrite Z.sub_0_r.
    apply Z.divide_mul_l. exact Hd. }
  pose proof (fermat_little_Z fp fp_prime w Hnw) as HF.
  assert (Hp : fp - 1 = 2 * ((fp - 1) / 2)) by reflexivity.
  assert (He : 0 <= (fp - 1) / 2) by (vm_compute; discriminate).
  rewrite Hp, Z.pow_mul_r in HF by lia. rewrite Z.pow_2_r in HF.
  rewrite Zpower_mod in HF by exact fp_pos. unfold eqm in Hw. rewrite Hw in HF.
  rewrite <- Zpower_mod in HF by exact fp_pos. rewrite cd_euler in HF. vm_compute in HF. discriminate.
Qed.

(* ---- the affine argument, over variables ---- *)
Lemma bl_identity i x1 y1 x2 y2 d eps s :
  eqm (i * i + 1) 0 -> eqm (s * s) 1 ->
  eqm (y1 * y1 - x1 * x1) (1 + d * (x1 * x1) * (y1 * y1)) ->
  eqm (y2 * y2 - x2 * x2) (1 + d * (x2 * x2) * (y2 * y2)) ->
  eqm eps (d * (x1 * x2) * (y1 * y2)) -> eqm (eps * eps) 1 ->
  eqm ((i * x1 + s * eps * y1) * (i * x1 + s * eps * y1))
      (d * ((x1 * y1) * (i * x2 + s * y2)) * ((x1 * y1) * (i * x2 + s * y2))).
Proof. intros Hi Hs E1 E2 He He2. nsatz. Qed.

Lemma square_quotient a b d : nz b -> eqm (a * a) (d * b * b) -> exists w, eqm (w * w) d.
Proof.
  intros Hb H. destruct (inverse_exists b Hb) as [c Hc]. exists (a * c). nsatz.
Qed.

Lemma both_zero_contra i x2 y2 : eqm (i * x2 + y2) 0 -> eqm (i * x2 + (0 - 1) * y2) 0 -> eqm (i * i + 1) 0 ->
  eqm (y2 + y2) 0 /\ eqm (x2 + x2) 0.
Proof. intros H1 H2 Hi. split; nsatz. Qed.

Lemma two_nz a : eqm (a + a) 0 -> eqm a 0.
Proof.
  intro H. destruct (@integral_domain_product _ _ _ _ _ _ _ _ _ _ _ Mdi (1 + 1) a) as [H0|H0].
  - change (eqm ((1 + 1) * a) 0). transitivity (a + a); [apply eq_eqm; ring | exact H].
  - exfalso. change (eqm (1 + 1) 0) in H0. revert H0. unfold eqm. vm_compute. discriminate.
  - exact H0.
Qed.

(* 1 + d x1 x2 y1 y2 and 1 - d x1 x2 y1 y2 do not vanish on the curve *)
Theorem denominators_nonzero x1 y1 x2 y2 eps :
  eqm (y1 * y1 - x1 * x1) (1 + cd * (x1 * x1) * (y1 * y1)) ->
  eqm (y2 * y2 - x2 * x2) (1 + cd * (x2 * x2) * (y2 * y2)) ->
  eqm eps (cd * (x1 * x2) * (y1 * y2)) -> ~ eqm (eps * eps) 1.
Proof.
  intros E1 E2 He He2.
  assert (Hne : nz eps).
  { intro H0. assert (H : eqm 1 0) by (clear - H0 He2; nsatz).
    revert H. unfold eqm. vm_compute. discriminate. }
  assert (Hxy : nz (x1 * y1)).
  { intro H0. apply Hne. rewrite He. clear - H0. nsatz. }
  assert (Hs1 : eqm (1 * 1) 1) by (apply eq_eqm; ring).
  assert (Hs2 : eqm ((0 - 1) * (0 - 1)) 1) by (apply eq_eqm; ring).
  pose proof (bl_identity sqrtm1 x1 y1 x2 y2 cd eps 1 sqrtm1_sq Hs1 E1 E2 He He2) as B1.
  pose proof (bl_identity sqrtm1 x1 y1 x2 y2 cd eps (0 - 1) sqrtm1_sq Hs2 E1 E2 He He2) as B2.
  destruct (Z.eq_dec ((sqrtm1 * x2 + 1 * y2) mod fp) (0 mod fp)) as [Z1|N1].
  - destruct (Z.eq_dec ((sqrtm1 * x2 + (0 - 1) * y2) mod fp) (0 mod fp)) as [Z2|N2].
    + assert (Z1' : eqm (sqrtm1 * x2 + y2) 0) by (unfold eqm; rewrite <- Z1; f_equal; ring).
      destruct (both_zero_contra sqrtm1 x2 y2 Z1' Z2 sqrtm1_sq) as [Hy Hx].
      apply two_nz in Hy, Hx. apply Hne. rewrite He. clear - Hx. nsatz.
    + destruct (square_quotient _ _ cd (nz_mul _ _ Hxy N2) B2) as [w Hw]. exact (d_nonsquare w Hw).
  - destruct (square_quotient _ _ cd (nz_mul _ _ Hxy N1) B1) as [w Hw]. exact (d_nonsquare w Hw).
Qed.

(* ---- from extended coordinates with Z <> 0 to the affine statement and back ---- *)
Lemma affine_of_extended X Y Z T d zi :
  eqm (Y * Y - X * X) (Z * Z + d * (T * T)) -> eqm (X * Y) (Z * T) -> eqm (Z * zi) 1 ->
  let x := X * zi in let y := Y * zi in
  eqm (y * y - x * x) (1 + d * (x * x) * (y * y)) /\ eqm T (x * y * Z).
Proof. intros C1 C2 Hz. cbv zeta. split; nsatz. Qed.

Lemma z3_form Z3 A B eps : eqm Z3 ((D A + D B) * (D A - D B)) -> eqm B (eps * A) ->
  eqm Z3 (D (D (A * A * (1 - eps * eps)))).
Proof. intros H1 H2. nsatz. Qed.

Lemma b_form d T1 T2 x1 y1 Z1 x2 y2 Z2 :
  eqm T1 (x1 * y1 * Z1) -> eqm T2 (x2 * y2 * Z2) ->
  eqm (d * (T1 * T2)) (d * (x1 * x2) * (y1 * y2) * (Z1 * Z2)).
Proof. intros H1 H2. nsatz. Qed.

Lemma nz_D a : nz a -> nz (D a).
Proof. intros Ha H. apply Ha. apply two_nz. exact H. Qed.

Lemma one_minus_sq_nz eps : ~ eqm (eps * eps) 1 -> nz (1 - eps * eps).
Proof. intros H H0. apply H. nsatz. Qed.

(* the Z coordinate of a sum/difference is 4 (Z1 Z2)^2 (1 - eps^2), eps = d x1 x2 y1 y2: never 0 *)
Lemma sum_z_nonzero X1 Y1 Z1 T1 X2 Y2 Z2 T2 Z3 :
  eqm (Y1 * Y1 - X1 * X1) (Z1 * Z1 + cd * (T1 * T1)) -> eqm (X1 * Y1) (Z1 * T1) ->
  eqm (Y2 * Y2 - X2 * X2) (Z2 * Z2 + cd * (T2 * T2)) -> eqm (X2 * Y2) (Z2 * T2) ->
  nz Z1 -> nz Z2 ->
  eqm Z3 ((D (Z1 * Z2) + D (cd * (T1 * T2))) * (D (Z1 * Z2) - D (cd * (T1 * T2)))) ->
  nz Z3.
Proof.
  intros C1 C2 D1 D2 N1 N2 HZ.
  destruct (inverse_exists Z1 N1) as [i1 I1]. destruct (inverse_exists Z2 N2) as [i2 I2].
  destruct (affine_of_extended _ _ _ _ cd i1 C1 C2 I1) as [A1 F1].
  destruct (affine_of_extended _ _ _ _ cd i2 D1 D2 I2) as [A2 F2].
  set (x1 := X1 * i1) in *. set (y1 := Y1 * i1) in *. set (x2 := X2 * i2) in *. set (y2 := Y2 * i2) in *.
  set (eps := cd * (x1 * x2) * (y1 * y2)).
  assert (He : eqm eps (cd * (x1 * x2) * (y1 * y2))) by reflexivity.
  pose proof (denominators_nonzero x1 y1 x2 y2 eps A1 A2 He) as Hden.
  pose proof (b_form cd T1 T2 x1 y1 Z1 x2 y2 Z2 F1 F2) as HB.
  pose proof (z3_form Z3 (Z1 * Z2) (cd * (T1 * T2)) eps HZ HB) as HF.
  unfold nz. rewrite HF. apply nz_D, nz_D. apply nz_mul; [apply nz_mul; apply nz_mul; assumption|].
  apply one_minus_sq_nz. exact Hden.
Qed.

Lemma inF_nz a : inF a -> a <> 0 -> nz a.
Proof. intros Ha Hne H. apply Hne. apply eqm_0_inF; assumption. Qed.

Lemma nz_ne a : nz a -> a <> 0.
Proof. intros H ->. apply H. reflexivity. Qed.

Theorem add_complete P Q : wf P -> wf Q -> Cv P -> Cv Q -> pZ P <> 0 -> pZ Q <> 0 ->
  pZ (pt_add P Q) <> 0.
Proof.
  destruct P as [X1 Y1 Z1 T1], Q as [X2 Y2 Z2 T2].
  intros (RX1 & RY1 & RZ1 & RT1) (RX2 & RY2 & RZ2 & RT2) [C1 C2] [D1 D2] N1 N2. cbn [pX pY pZ pT] in *.
  apply nz_ne.
  apply (sum_z_nonzero X1 Y1 Z1 T1 X2 Y2 Z2 T2 _ C1 C2 D1 D2 (inF_nz _ RZ1 N1) (inF_nz _ RZ2 N2)).
  unfold pt_add, of_completed. cbn [pX pY pZ pT].
  pose proof cd2_eqm as Ecd2. pose proof cd2_in as Rcd2.
  name_mul td T2 cd2. name_mul c td T1. name_mul zz Z1 Z2. name_add t0 zz zz.
  name_add cz t0 c. name_sub ct t0 c. name_mul Z3 cz ct.
  clearbody td c zz t0 cz ct Z3.
  rewrite EZ3, Ecz, Ect, Et0, Ec, Etd, Ezz, Ecd2. apply eq_eqm. ring.
Qed.

Theorem sub_complete P Q : wf P -> wf Q -> Cv P -> Cv Q -> pZ P <> 0 -> pZ Q <> 0 ->
  pZ (pt_sub P Q) <> 0.
Proof.
  destruct P as [X1 Y1 Z1 T1], Q as [X2 Y2 Z2 T2].
  intros (RX1 & RY1 & RZ1 & RT1) (RX2 & RY2 & RZ2 & RT2) [C1 C2] [D1 D2] N1 N2. cbn [pX pY pZ pT] in *.
  apply nz_ne.
  destruct (neg_point_eqs X2 Y2 Z2 T2 cd D1 D2) as [D1' D2'].
  apply (sum_z_nonzero X1 Y1 Z1 T1 (- X2) Y2 Z2 (- T2) _ C1 C2 D1' D2' (inF_nz _ RZ1 N1) (inF_nz _ RZ2 N2)).
  unfold pt_sub, of_completed. cbn [pX pY pZ pT].
  pose proof cd2_eqm as Ecd2. pose proof cd2_in as Rcd2.
  name_mul td T2 cd2. name_mul c td T1. name_mul zz Z1 Z2. name_add t0 zz zz.
  name_sub cz t0 c. name_add ct t0 c. name_mul Z3 cz ct.
  clearbody td c zz t0 cz ct Z3.
  rewrite EZ3, Ecz, Ect, Et0, Ec, Etd, Ezz, Ecd2. apply eq_eqm. ring.
Qed.

Lemma dbl_z_form Z3 X Y Z zi d :
  eqm (Y * Y - X * X) (Z * Z + d * ((X * Y * zi) * (X * Y * zi))) -> eqm (Z * zi) 1 ->
  eqm Z3 ((Y * Y - X * X) * (D (Z * Z) - (Y * Y - X * X))) ->
  let eps := d * ((X * zi) * (X * zi)) * ((Y * zi) * (Y * zi)) in
  eqm Z3 (Z * Z * (Z * Z) * (1 - eps * eps)).
Proof. intros C1 Hz H3. cbv zeta. nsatz. Qed.

Lemma t_by_inverse X Y Z T zi : eqm (X * Y) (Z * T) -> eqm (Z * zi) 1 -> eqm T (X * Y * zi).
Proof. intros H1 H2. nsatz. Qed.

Theorem double_complete P : wf P -> Cv P -> pZ P <> 0 -> pZ (pt_double P) <> 0.
Proof.
  destruct P as [X Y Z T]. intros (RX & RY & RZ & RT) [C1 C2] N. cbn [pX pY pZ pT] in *.
  apply nz_ne. pose proof (inF_nz _ RZ N) as NZ.
  destruct (inverse_exists Z NZ) as [zi I].
  destruct (affine_of_extended _ _ _ _ cd zi C1 C2 I) as [A1 _].
  pose proof (t_by_inverse _ _ _ _ zi C2 I) as HT.
  assert (C1' : eqm (Y * Y - X * X) (Z * Z + cd * ((X * Y * zi) * (X * Y * zi)))) by (rewrite <- HT; exact C1).
  assert (H3 : eqm (pZ (pt_double (mkpt X Y Z T))) ((Y * Y - X * X) * (D (Z * Z) - (Y * Y - X * X)))).
  { unfold pt_double, of_completed. cbn [pX pY pZ pT].
    name_sq xx X. name_sq yy Y. name_sq z2 Z. name_add zz2 z2 z2.
    name_sub cz yy xx. name_sub ct zz2 cz. name_mul Z3 cz ct.
    clearbody xx yy z2 zz2 cz ct Z3.
    rewrite EZ3, Ect, Ecz, Ezz2, Ez2, Exx, Eyy. reflexivity. }
  pose proof (dbl_z_form _ X Y Z zi cd C1' I H3) as HF. cbv zeta in HF.
  unfold nz. rewrite HF.
  apply nz_mul; [apply nz_mul; apply nz_mul; assumption|].
  apply one_minus_sq_nz.
  apply (denominators_nonzero (X * zi) (Y * zi) (X * zi) (Y * zi)); [exact A1 | exact A1 | reflexivity].
Qed.

(* ---- the invariant: in range, on the extended curve, Z <> 0 ---- *)
Definition good (P : point) : Prop := wf P /\ Cv P /\ pZ P <> 0.

Lemma good_on_curve P : good P -> on_curve P = true.
Proof. intros (Hw & Hc & Hz). apply on_curve_of_Cv; assumption. Qed.

Theorem good_double P : good P -> good (pt_double P).
Proof.
  intros (Hw & Hc & Hz). destruct (double_closed P Hw Hc) as [W C].
  split; [exact W | split; [exact C | apply double_complete; assumption]].
Qed.

Theorem good_add P Q : good P -> good Q -> good (pt_add P Q).
Proof.
  intros (Hw & Hc & Hz) (Hw' & Hc' & Hz'). destruct (add_closed P Q Hw Hw' Hc Hc') as [W C].
  split; [exact W | split; [exact C | apply add_complete; assumption]].
Qed.

Theorem good_sub P Q : good P -> good Q -> good (pt_sub P Q).
Proof.
  intros (Hw & Hc & Hz) (Hw' & Hc' & Hz'). destruct (sub_closed P Q Hw Hw' Hc Hc') as [W C].
  split; [exact W | split; [exact C | apply sub_complete; assumption]].
Qed.

Lemma good_zero : good pt_zero.
Proof. destruct zero_on_curve as [W C]. split; [exact W | split; [exact C | discriminate]]. Qed.

Theorem good_mul k P : good P -> good (pt_mul k P).
Proof.
  intro HP. destruct k; cbn [pt_mul]; try apply good_zero.
  induction p as [q IH|q IH|]; cbn [pt_mul_pos].
  - apply good_add; [apply good_double, IH | exact HP].
  - apply good_double, IH.
  - exact HP.
Qed.

Theorem good_decompress e P : 0 <= e -> decompress e = Some P -> good P.
Proof.
  intros He H. destruct (decompress_sound e P He H) as (Hw & Hc & Hz & _).
  split; [exact Hw | split; [exact Hc | rewrite Hz; discriminate]].
Qed.

Lemma good_base : good base_point.
Proof.
  split; [|split].
  - unfold wf, inF. vm_compute. repeat split; discriminate.
  - unfold Cv, eqm. vm_compute. split; reflexivity.
  - discriminate.
Qed.
