(* C16 — SHA3-256 (golang.org/x/crypto/sha3.Sum256, used by base.Data2CommonHash in genVrfMsg):
   Keccak-f[1600] sponge, rate 136, domain byte 0x06.  Executable; copied from the Keccak-256 model of
   this project (C07/Keccak.v) with the SHA-3 padding; tied to the code by the CM correspondence
   cases and the two standard vectors below. *)
From Coq Require Import String List NArith Bool.
From V.Base Require Import Hex BigEndian.
Import ListNotations.
Local Open Scope N_scope.

Definition mask64 : N := 18446744073709551615.

Definition rotl (x : N) (n : N) : N :=
  if n =? 0 then x
  else N.lor (N.land (N.shiftl x n) mask64) (N.shiftr x (64 - n)).

Definition lane (s : list N) (i : nat) : N := nth i s 0.

Definition RC : list N :=
  [ 0x0000000000000001; 0x0000000000008082; 0x800000000000808A; 0x8000000080008000;
    0x000000000000808B; 0x0000000080000001; 0x8000000080008081; 0x8000000000008009;
    0x000000000000008A; 0x0000000000000088; 0x0000000080008009; 0x000000008000000A;
    0x000000008000808B; 0x800000000000008B; 0x8000000000008089; 0x8000000000008003;
    0x8000000000008002; 0x8000000000000080; 0x000000000000800A; 0x800000008000000A;
    0x8000000080008081; 0x8000000000008080; 0x0000000080000001; 0x8000000080008008 ].

(* rotation offsets r[x + 5y] *)
Definition ROT : list N :=
  [ 0; 1; 62; 28; 27;
    36; 44; 6; 55; 20;
    3; 10; 43; 25; 39;
    41; 45; 15; 21; 8;
    18; 2; 61; 56; 14 ].

Definition idx5 : list nat := [0; 1; 2; 3; 4]%nat.
Definition idx25 : list nat := seq 0 25.

Definition theta (a : list N) : list N :=
  let c := map (fun x : nat => N.lxor (lane a x) (N.lxor (lane a (x + 5)%nat) (N.lxor (lane a (x + 10)%nat)
                          (N.lxor (lane a (x + 15)%nat) (lane a (x + 20)%nat))))) idx5 in
  let d := map (fun x : nat => N.lxor (lane c (Nat.modulo (x + 4) 5)) (rotl (lane c (Nat.modulo (x + 1) 5)) 1)) idx5 in
  map (fun i : nat => N.lxor (lane a i) (lane d (Nat.modulo i 5))) idx25.

(* B[y, 2x+3y] = rot(A[x,y]);  inverse: B[X,Y] with X = y, Y = 2x+3y  =>  x = (X + 3Y) mod 5, y = X *)
Definition rho_pi (a : list N) : list N :=
  map (fun j : nat => let X := Nat.modulo j 5 in let Y := Nat.div j 5 in
                let x := Nat.modulo (X + 3 * Y) 5 in let y := X in
                let i := (x + 5 * y)%nat in
                rotl (lane a i) (nth i ROT 0)) idx25.

Definition chi (b : list N) : list N :=
  map (fun j : nat => let x := Nat.modulo j 5 in let y5 := (5 * Nat.div j 5)%nat in
                N.lxor (lane b j)
                  (N.land (N.lxor (lane b (y5 + Nat.modulo (x + 1) 5)%nat) mask64) (lane b (y5 + Nat.modulo (x + 2) 5)%nat))) idx25.

Definition iota (rc : N) (a : list N) : list N :=
  match a with x :: r => N.lxor x rc :: r | [] => [] end.

Definition round (a : list N) (rc : N) : list N := iota rc (chi (rho_pi (theta a))).

Definition keccak_f (a : list N) : list N := fold_left round RC a.

Definition rate : nat := 136.

(* pad10*1 with the SHA-3 domain bits 01: first padding byte 0x06 *)
Definition pad (m : bytes) : bytes :=
  let r := (rate - Nat.modulo (length m) rate)%nat in   (* 1..136 bytes of padding *)
  match r with
  | 1%nat => m ++ [134]
  | _ => m ++ [6] ++ repeat 0 (r - 2) ++ [128]
  end.

Fixpoint lanes_of (fuel : nat) (b : bytes) : list N :=
  match fuel with
  | O => []
  | S f => le_val (firstn 8 b) :: lanes_of f (skipn 8 b)
  end.

Fixpoint xor_in (s blk : list N) : list N :=
  match s, blk with
  | x :: s', y :: b' => N.lxor x y :: xor_in s' b'
  | _, [] => s
  | [], _ => []
  end.

Fixpoint absorb (fuel : nat) (s : list N) (m : bytes) : list N :=
  match fuel with
  | O => s
  | S f =>
    match m with
    | [] => s
    | _ => absorb f (keccak_f (xor_in s (lanes_of 17 (firstn rate m)))) (skipn rate m)
    end
  end.

Definition lane_bytes (x : N) : bytes :=
  map (fun i : nat => N.land (N.shiftr x (8 * N.of_nat i)) 255) (seq 0 8).

Definition sha3_256 (m : bytes) : bytes :=
  let p := pad m in
  let s := absorb (S (Nat.div (length p) rate)) (repeat 0 25) p in
  concat (map lane_bytes (firstn 4 s)).

Example sha3_256_empty :
  hex (sha3_256 []) = "a7ffc6f8bf1ed76651c14756a061d662f580ff4de43b49fa82d80a4b80f8434a"%string.
Proof. vm_compute. reflexivity. Qed.

Example sha3_256_abc :
  hex (sha3_256 [97; 98; 99]) = "3a985da74fe225b2045c172d6bd390bd855f086e3e9d525b46bfe24511431532"%string.
Proof. vm_compute. reflexivity. Qed.
