(* C16 — the encoding: finv is the field inverse (Fermat), compress reads the affine coordinates, and
   the 32-byte encoding is injective on the points of the curve (a point is determined by y and the
   parity of x, because 1 + d y^2 <> 0 as d is not a square). *)
From Coq Require Import ZArith Znumtheory Zpow_facts Lia Nsatz Bool.
From Coq Require Import Ncring Cring Integral_domain Morphisms Setoid.
From V.Base Require Import Pocklington.
From V.C16 Require Import Curve CurveProofs FieldMod CurveClosure CurveDecompress CurveAdd CurveComplete.
Local Open Scope Z_scope.

Lemma finv_correct z : inF z -> z <> 0 -> inF (finv z) /\ eqm (z * finv z) 1.
Proof.
  intros Hz Hne. split; [apply fpow_in; [exact Hz | reflexivity]|].
  rewrite finv_spec by exact Hz.
  assert (Hnd : ~ (fp | z)).
  { intro Hd. apply Hne. apply eqm_0_inF; [exact Hz|]. apply eqm_div. rewrite Z.sub_0_r. exact Hd. }
  pose proof (fermat_little_Z fp fp_prime z Hnd) as HF.
  unfold eqm. rewrite Z.mul_mod_idemp_r by exact p_nz.
  replace (z * z ^ (fp - 2)) with (z ^ (fp - 1)).
  - rewrite HF. reflexivity.
  - replace (fp - 1) with (1 + (fp - 2)) by lia. rewrite Z.pow_add_r by (unfold fp; lia).
    rewrite Z.pow_1_r. reflexivity.
Qed.

(* affine coordinates read by compress *)
Definition aff_x (P : point) : Z := fmul (pX P) (finv (pZ P)).
Definition aff_y (P : point) : Z := fmul (pY P) (finv (pZ P)).

Lemma compress_affine_form P : compress P = aff_y P + 2 ^ 255 * (aff_x P mod 2).
Proof. reflexivity. Qed.

Lemma affine_curve X Y Z T d zi x y :
  eqm (Y * Y - X * X) (Z * Z + d * (T * T)) -> eqm (X * Y) (Z * T) -> eqm (Z * zi) 1 ->
  eqm x (X * zi) -> eqm y (Y * zi) ->
  eqm (y * y - x * x) (1 + d * (x * x) * (y * y)) /\ eqm (x * Z) X /\ eqm (y * Z) Y.
Proof. intros C1 C2 Hz Hx Hy. repeat split; nsatz. Qed.

Lemma good_affine P : good P ->
  inF (aff_x P) /\ inF (aff_y P) /\
  eqm (aff_y P * aff_y P - aff_x P * aff_x P) (1 + cd * (aff_x P * aff_x P) * (aff_y P * aff_y P)) /\
  eqm (aff_x P * pZ P) (pX P) /\ eqm (aff_y P * pZ P) (pY P).
Proof.
  intros ((RX & RY & RZ & RT) & (C1 & C2) & Hz). destruct (finv_correct _ RZ Hz) as [Ri Ei].
  unfold aff_x, aff_y.
  split; [apply fmul_in; assumption|]. split; [apply fmul_in; assumption|].
  exact (affine_curve _ _ _ _ cd _ _ _ C1 C2 Ei (fmul_eqm _ _ RX Ri) (fmul_eqm _ _ RY Ri)).
Qed.

(* 1 + d y^2 <> 0 *)
Lemma one_plus_dyy_nz y : nz (1 + cd * (y * y)).
Proof.
  intro H.
  assert (Hy : nz y).
  { intro H0. assert (H1 : eqm 1 0) by (clear - H H0; nsatz). revert H1. unfold eqm. vm_compute. discriminate. }
  assert (Hsq : eqm (sqrtm1 * sqrtm1) (cd * y * y)).
  { pose proof sqrtm1_sq as Hi. set (i := sqrtm1) in *. clearbody i. clear - H Hi. nsatz. }
  destruct (square_quotient _ _ cd Hy Hsq) as [w Hw]. exact (d_nonsquare w Hw).
Qed.

Lemma same_y_squares x x' y d :
  eqm (y * y - x * x) (1 + d * (x * x) * (y * y)) -> eqm (y * y - x' * x') (1 + d * (x' * x') * (y * y)) ->
  eqm ((x - x') * (x + x') * (1 + d * (y * y))) 0.
Proof. intros H1 H2. nsatz. Qed.

(* two affine points of the curve with the same y and the same parity of x are equal *)
Theorem affine_encoding_injective x y x' y' :
  inF x -> inF y -> inF x' -> inF y' ->
  eqm (y * y - x * x) (1 + cd * (x * x) * (y * y)) ->
  eqm (y' * y' - x' * x') (1 + cd * (x' * x') * (y' * y')) ->
  y + 2 ^ 255 * (x mod 2) = y' + 2 ^ 255 * (x' mod 2) -> x = x' /\ y = y'.
Proof.
  intros Rx Ry Rx' Ry' E E' H.
  pose proof (Z.mod_pos_bound x 2 ltac:(lia)) as B1. pose proof (Z.mod_pos_bound x' 2 ltac:(lia)) as B2.
  assert (Hp : fp = 2 ^ 255 - 19) by reflexivity. unfold inF in *.
  assert (Hy : y = y') by lia. assert (Hpar : x mod 2 = x' mod 2) by lia. subst y'. split; [|reflexivity].
  pose proof (same_y_squares x x' y cd E E') as Hs.
  destruct (@integral_domain_product _ _ _ _ _ _ _ _ _ _ _ Mdi _ _ Hs) as [H1|H1];
    [|exfalso; exact (one_plus_dyy_nz y H1)].
  destruct (@integral_domain_product _ _ _ _ _ _ _ _ _ _ _ Mdi _ _ H1) as [H2|H2].
  - apply eqm_inF_eq; [exact Rx | exact Rx'|]. change (eqm (x - x') 0) in H2. clear - H2. nsatz.
  - change (eqm (x + x') 0) in H2. apply eqm_div in H2. rewrite Z.sub_0_r in H2. destruct H2 as [k Hk].
    assert (Hk01 : k = 0 \/ k = 1) by nia. destruct Hk01 as [-> | ->]; [lia|].
    exfalso. assert (Hx' : x' = fp - x) by lia. rewrite Hx' in Hpar.
    rewrite Zminus_mod in Hpar. change (fp mod 2) with 1 in Hpar.
    assert (Hc : x mod 2 = 0 \/ x mod 2 = 1) by lia. destruct Hc as [Hc|Hc]; rewrite Hc in Hpar; vm_compute in Hpar; discriminate.
Qed.

(* hence: two good points with the same 32-byte encoding are the same projective point *)
Lemma same_affine_same_point X1 Y1 Z1 X2 Y2 Z2 x y :
  eqm (x * Z1) X1 -> eqm (y * Z1) Y1 -> eqm (x * Z2) X2 -> eqm (y * Z2) Y2 ->
  eqm (X1 * Z2) (X2 * Z1) /\ eqm (Y1 * Z2) (Y2 * Z1).
Proof. intros H1 H2 H3 H4. split; nsatz. Qed.

Theorem compress_injective P Q : good P -> good Q -> compress P = compress Q -> pt_eqb P Q = true.
Proof.
  intros GP GQ H.
  destruct (good_affine P GP) as (Rx & Ry & E & Ex & Ey).
  destruct (good_affine Q GQ) as (Rx' & Ry' & E' & Ex' & Ey').
  rewrite !compress_affine_form in H.
  destruct (affine_encoding_injective _ _ _ _ Rx Ry Rx' Ry' E E' H) as [Hx Hy].
  rewrite <- Hx in Ex'. rewrite <- Hy in Ey'.
  destruct (same_affine_same_point _ _ _ _ _ _ _ _ Ex Ey Ex' Ey') as [S1 S2].
  destruct GP as ((RX & RY & RZ & _) & _ & _). destruct GQ as ((RX' & RY' & RZ' & _) & _ & _).
  unfold pt_eqb. apply andb_true_intro. split; apply Z.eqb_eq; apply eqm_inF_eq;
    try (apply fmul_in; assumption);
    rewrite !fmul_eqm by assumption; assumption.
Qed.

(* the points of a verification are good points: U and V exist and are on the curve for every input
   that decodes *)
Theorem vrf_points_good Y Gm H c s :
  good Y -> good Gm -> good H ->
  good (pt_sub (pt_mul s base_point) (pt_mul c Y)) /\ good (pt_sub (pt_mul s H) (pt_mul c Gm)).
Proof.
  intros GY GG GH. split; apply good_sub; apply good_mul; try assumption. exact good_base.
Qed.

(* ---- two of the group axioms that are cheap: commutativity (same coordinates) and the neutral
        element (same projective point) ---- *)
Lemma fmul_comm a b : fmul a b = fmul b a.
Proof. unfold fmul. rewrite Z.mul_comm. reflexivity. Qed.

Lemma fmul_swap3 a k b : inF a -> inF k -> inF b -> fmul (fmul a k) b = fmul (fmul b k) a.
Proof.
  intros Ha Hk Hb. apply eqm_inF_eq; [apply fmul_in; [apply fmul_in|]; assumption | apply fmul_in; [apply fmul_in|]; assumption|].
  rewrite (fmul_eqm _ _ (fmul_in _ _ Ha Hk) Hb), (fmul_eqm _ _ Ha Hk).
  rewrite (fmul_eqm _ _ (fmul_in _ _ Hb Hk) Ha), (fmul_eqm _ _ Hb Hk). apply eq_eqm. ring.
Qed.

Theorem add_comm_exact P Q : wf P -> wf Q -> pt_add P Q = pt_add Q P.
Proof.
  destruct P as [X1 Y1 Z1 T1], Q as [X2 Y2 Z2 T2].
  intros (RX1 & RY1 & RZ1 & RT1) (RX2 & RY2 & RZ2 & RT2). cbn [pX pY pZ pT] in *.
  unfold pt_add. cbn [pX pY pZ pT].
  rewrite (fmul_comm (fadd Y2 X2) (fadd Y1 X1)), (fmul_comm (fsub Y2 X2) (fsub Y1 X1)), (fmul_comm Z2 Z1).
  rewrite (fmul_swap3 T1 cd2 T2 RT1 cd2_in RT2). reflexivity.
Qed.

Lemma add_zero_shape X Y Z X3 Y3 Z3 :
  eqm X3 (D X * D Z) -> eqm Y3 (D Y * D Z) -> eqm Z3 (D Z * D Z) ->
  eqm (X3 * Z) (X * Z3) /\ eqm (Y3 * Z) (Y * Z3).
Proof. intros H1 H2 H3. split; nsatz. Qed.

Theorem add_zero_r P : wf P -> pt_eqb (pt_add P pt_zero) P = true.
Proof.
  destruct P as [X Y Z T]. intros (RX & RY & RZ & RT). cbn [pX pY pZ pT] in *.
  unfold pt_eqb, pt_add, pt_zero, of_completed. cbn [pX pY pZ pT].
  pose proof cd2_in as Rcd2. pose proof one_in as R1. assert (R0 : inF 0) by (unfold inF, fp; lia).
  name_add s1 Y X. name_add s2 1 0. name_mul a s1 s2.
  name_sub m1 Y X. name_sub m2 1 0. name_mul b m1 m2.
  name_mul td 0 cd2. name_mul c td T. name_mul zz Z 1. name_add t0 zz zz.
  name_sub cx a b. name_add cy a b. name_add cz t0 c. name_sub ct t0 c.
  name_mul X3 cx ct. name_mul Y3 cy cz. name_mul Z3 cz ct.
  destruct (add_zero_shape X Y Z X3 Y3 Z3) as [S1 S2].
  - clearbody s1 s2 a m1 m2 b td c zz t0 cx cy cz ct X3 Y3 Z3.
    rewrite EX3, Ecx, Ect, Ea, Eb, Et0, Ec, Etd, Ezz, Es1, Es2, Em1, Em2. apply eq_eqm. ring.
  - clearbody s1 s2 a m1 m2 b td c zz t0 cx cy cz ct X3 Y3 Z3.
    rewrite EY3, Ecy, Ecz, Ea, Eb, Et0, Ec, Etd, Ezz, Es1, Es2, Em1, Em2. apply eq_eqm. ring.
  - clearbody s1 s2 a m1 m2 b td c zz t0 cx cy cz ct X3 Y3 Z3.
    rewrite EZ3, Ecz, Ect, Et0, Ec, Etd, Ezz. apply eq_eqm. ring.
  - apply andb_true_intro. split; apply Z.eqb_eq; apply eqm_inF_eq; try (apply fmul_in; assumption);
      rewrite !fmul_eqm by assumption; assumption.
Qed.
