(* C16 — decompression (ExtendedGroupElement.FromBytes as modelled in Curve.decompress) is sound for
   every 256-bit input: whatever it returns is a point of the curve with Z = 1, and compressing it
   gives the canonical form of the input — y reduced modulo p, and the sign bit dropped when x = 0.
   The algebraic core is proved over variables with nsatz; the field operations are never unfolded. *)
From Coq Require Import ZArith Znumtheory Lia Nsatz Bool.
From Coq Require Import Ncring Cring Integral_domain Morphisms Setoid.
From V.C16 Require Import Curve CurveProofs FieldMod CurveClosure.
Local Open Scope Z_scope.

Lemma eqm_inF_eq a b : inF a -> inF b -> eqm a b -> a = b.
Proof.
  unfold inF, eqm. intros Ha Hb H. rewrite <- (Z.mod_small a fp), <- (Z.mod_small b fp) by lia. exact H.
Qed.

Lemma eqm_0_inF a : inF a -> eqm a 0 -> a = 0.
Proof. intros Ha H. apply eqm_inF_eq; [exact Ha | unfold inF, fp; lia | exact H]. Qed.

Lemma eq_eqm a b : a = b -> eqm a b.
Proof. intros ->. reflexivity. Qed.

(* ---- algebraic core, over variables ---- *)
Lemma root_direct (xs vxx v u : Z) : eqm vxx (xs * v) -> eqm 0 (vxx - u) -> eqm (xs * v) u.
Proof. intros H1 H2. nsatz. Qed.

Lemma root_fixup (x i xm xs vxx v u : Z) :
  eqm (i * i + 1) 0 -> eqm xm (x * i) -> eqm xs (x * x) -> eqm vxx (xs * v) -> eqm 0 (vxx + u) ->
  eqm (xm * xm * v) u.
Proof. intros H1 H2 H3 H4 H5. nsatz. Qed.

Lemma curve_from_root (x x' y t d u v : Z) :
  eqm (x * x * v) u -> eqm u (y * y - 1) -> eqm v (y * y * d + 1) -> eqm (x' * x') (x * x) ->
  eqm t (x' * y) ->
  eqm (y * y - x' * x') (1 * 1 + d * (t * t)) /\ eqm (x' * y) (1 * t).
Proof. intros H1 H2 H3 H4 H5. split; nsatz. Qed.

Lemma neg_square (x n : Z) : eqm n (- x) -> eqm (n * n) (x * x).
Proof. intro H. nsatz. Qed.

(* ---- the pieces of decompress ---- *)
Lemma dec_y_spec e : 0 <= e -> inF (dec_y e) /\ dec_y e = (e mod 2 ^ 255) mod fp.
Proof.
  intro He. unfold dec_y.
  assert (Hl : Z.land e m255 = e mod 2 ^ 255).
  { unfold m255. change (2 ^ 255 - 1) with (Z.ones 255). apply Z.land_ones. lia. }
  rewrite Hl. pose proof (Z.mod_pos_bound e (2 ^ 255) ltac:(lia)) as Hb.
  rewrite fred_spec by lia. split; [apply Z.mod_pos_bound, fp_pos | reflexivity].
Qed.

Lemma dec_u_spec y : inF y -> inF (dec_u y) /\ eqm (dec_u y) (y * y - 1).
Proof.
  intro Hy. unfold dec_u. pose proof (fsq_in y Hy) as R. pose proof (fsq_eqm y Hy) as E.
  split; [apply fsub_in; [exact R | exact one_in]|].
  rewrite (fsub_eqm _ _ R one_in), E. reflexivity.
Qed.

Lemma dec_v_spec y : inF y -> inF (dec_v y) /\ eqm (dec_v y) (y * y * cd + 1).
Proof.
  intro Hy. unfold dec_v. pose proof (fsq_in y Hy) as R. pose proof (fsq_eqm y Hy) as E.
  pose proof (fmul_in _ _ R cd_in) as R2.
  split; [apply fadd_in; [exact R2 | exact one_in]|].
  rewrite (fadd_eqm _ _ R2 one_in), (fmul_eqm _ _ R cd_in), E. reflexivity.
Qed.

Lemma fpow_in z e : inF z -> 0 < e -> inF (fpow z e).
Proof. intros Hz He. destruct e; try lia. apply fpow_pos_spec, Hz. Qed.

Lemma e22523_pos : 0 < e22523.
Proof. vm_compute. reflexivity. Qed.

Lemma sqrt_candidate_in u v : inF u -> inF v -> inF (sqrt_candidate u v).
Proof.
  intros Hu Hv. unfold sqrt_candidate.
  assert (R3 : inF (fmul (fsq v) v)) by (apply fmul_in; [apply fsq_in|]; assumption).
  assert (R0 : inF (fmul (fmul (fsq (fmul (fsq v) v)) v) u)).
  { apply fmul_in; [|exact Hu]. apply fmul_in; [|exact Hv]. apply fsq_in. exact R3. }
  pose proof (fpow_in _ _ R0 e22523_pos) as Rp.
  apply fmul_in; [|exact Hu]. apply fmul_in; [exact Rp | exact R3].
Qed.

Lemma choose_root_sound x1 u v x :
  inF x1 -> inF u -> inF v -> choose_root x1 u v = Some x -> inF x /\ eqm (x * x * v) u.
Proof.
  intros H1 Hu Hv. unfold choose_root.
  pose proof (fsq_in x1 H1) as Rs. pose proof (fsq_eqm x1 H1) as Es.
  pose proof (fmul_in _ _ Rs Hv) as Rm. pose proof (fmul_eqm _ _ Rs Hv) as Em.
  destruct (Z.eqb_spec (fsub (fmul (fsq x1) v) u) 0) as [E0|_].
  - intro H. injection H as <-. split; [exact H1|].
    pose proof (fsub_eqm _ _ Rm Hu) as E. rewrite E0 in E.
    rewrite <- Es. exact (root_direct _ _ _ _ Em E).
  - destruct (Z.eqb_spec (fadd (fmul (fsq x1) v) u) 0) as [E1|_]; [|discriminate].
    intro H. injection H as <-.
    pose proof (fmul_in _ _ H1 sqrtm1_in) as Rx. pose proof (fmul_eqm _ _ H1 sqrtm1_in) as Ex.
    split; [exact Rx|].
    pose proof (fadd_eqm _ _ Rm Hu) as E. rewrite E1 in E.
    exact (root_fixup _ _ _ _ _ _ _ sqrtm1_sq Ex Es Em E).
Qed.

Lemma fix_sign_spec x s : inF x -> inF (fix_sign x s) /\ eqm (fix_sign x s * fix_sign x s) (x * x).
Proof.
  intro Hx. unfold fix_sign. destruct (x mod 2 =? s).
  - split; [exact Hx | reflexivity].
  - split; [apply fneg_in, Hx | apply neg_square, fneg_eqm, Hx].
Qed.

Lemma fp_odd : fp mod 2 = 1. Proof. reflexivity. Qed.

(* the sign bit is honoured when x <> 0, and ignored when x = 0 *)
Lemma fix_sign_parity x s : inF x -> (s = 0 \/ s = 1) ->
  (x = 0 -> fix_sign x s = 0) /\ (x <> 0 -> fix_sign x s <> 0 /\ fix_sign x s mod 2 = s).
Proof.
  intros Hx Hs. unfold fix_sign, fneg. split.
  - intros ->. destruct (0 mod 2 =? s); reflexivity.
  - intro Hne. destruct (Z.eqb_spec (x mod 2) s) as [E|E]; [split; assumption|].
    destruct (Z.eqb_spec x 0); [contradiction|]. unfold inF in Hx. split; [lia|].
    pose proof (Z.mod_pos_bound x 2 ltac:(lia)) as Hb. pose proof fp_odd as Ho.
    rewrite Zminus_mod, Ho. destruct Hs as [-> | ->].
    + assert (x mod 2 = 1) by lia. rewrite H. reflexivity.
    + assert (x mod 2 = 0) by lia. rewrite H. reflexivity.
Qed.

(* ---- soundness ---- *)
Lemma decompress_sound e P : 0 <= e -> decompress e = Some P ->
  wf P /\ Cv P /\ pZ P = 1 /\ pY P = (e mod 2 ^ 255) mod fp /\
  exists x, inF x /\ pX P = fix_sign x (Z.shiftr e 255).
Proof.
  intros He. unfold decompress.
  destruct (dec_y_spec e He) as [Ry Ey].
  destruct (dec_u_spec _ Ry) as [Ru Eu]. destruct (dec_v_spec _ Ry) as [Rv Ev].
  pose proof (sqrt_candidate_in _ _ Ru Rv) as R1.
  destruct (choose_root _ _ _) as [x|] eqn:Ec; [|discriminate].
  destruct (choose_root_sound _ _ _ _ R1 Ru Rv Ec) as [Rx Ex].
  intro H. injection H as <-.
  destruct (fix_sign_spec x (Z.shiftr e 255) Rx) as [Rx' Ex'].
  pose proof (fmul_in _ _ Rx' Ry) as Rt. pose proof (fmul_eqm _ _ Rx' Ry) as Et.
  split; [unfold wf; cbn [pX pY pZ pT]; repeat split; try apply Rx'; try apply Ry; try apply Rt; try apply one_in|].
  split; [|split; [reflexivity | split; [exact Ey | exists x; split; [exact Rx | reflexivity]]]].
  unfold Cv. cbn [pX pY pZ pT].
  exact (curve_from_root _ _ _ _ _ _ _ Ex Eu Ev Ex' Et).
Qed.

(* ---- the boolean test of the model follows from the congruences ---- *)
Lemma on_curve_of_Cv P : wf P -> Cv P -> pZ P <> 0 -> on_curve P = true.
Proof.
  destruct P as [X Y Z T]. intros (RX & RY & RZ & RT) HC HZ. cbn [pX pY pZ pT] in *.
  pose proof (Cv_projective _ HC) as C1. destruct HC as [_ C2]. cbn [pX pY pZ pT] in *.
  unfold on_curve. cbn [pX pY pZ pT].
  pose proof (fsq_in X RX) as Rxx. pose proof (fsq_eqm X RX) as Exx.
  pose proof (fsq_in Y RY) as Ryy. pose proof (fsq_eqm Y RY) as Eyy.
  pose proof (fsq_in Z RZ) as Rzz. pose proof (fsq_eqm Z RZ) as Ezz.
  assert (E1 : fmul (fsub (fsq Y) (fsq X)) (fsq Z) = fadd (fsq (fsq Z)) (fmul cd (fmul (fsq X) (fsq Y)))).
  { apply eqm_inF_eq.
    - apply fmul_in; [apply fsub_in|]; assumption.
    - apply fadd_in; [apply fsq_in; assumption|]. apply fmul_in; [exact cd_in|]. apply fmul_in; assumption.
    - rewrite (fmul_eqm _ _ (fsub_in _ _ Ryy Rxx) Rzz), (fsub_eqm _ _ Ryy Rxx).
      rewrite (fadd_eqm _ _ (fsq_in _ Rzz) (fmul_in _ _ cd_in (fmul_in _ _ Rxx Ryy))).
      rewrite (fsq_eqm _ Rzz), (fmul_eqm _ _ cd_in (fmul_in _ _ Rxx Ryy)), (fmul_eqm _ _ Rxx Ryy).
      rewrite Exx, Eyy, Ezz. rewrite C1. apply eq_eqm. ring. }
  assert (E2 : fmul T Z = fmul X Y).
  { apply eqm_inF_eq; [apply fmul_in; assumption | apply fmul_in; assumption|].
    rewrite (fmul_eqm _ _ RT RZ), (fmul_eqm _ _ RX RY). rewrite C2. apply eq_eqm. ring. }
  rewrite E1, E2, !Z.eqb_refl. destruct (Z.eqb_spec Z 0); [contradiction | reflexivity].
Qed.

Lemma decompress_on_curve e P : 0 <= e -> decompress e = Some P -> on_curve P = true.
Proof.
  intros He H. destruct (decompress_sound e P He H) as (Hw & Hc & Hz & _).
  apply on_curve_of_Cv; [exact Hw | exact Hc | rewrite Hz; discriminate].
Qed.

(* ---- compressing the result gives the canonical form of the input ---- *)
Lemma fpow_one e : 0 < e -> fpow 1 e = 1.
Proof.
  intro He. rewrite (fpow_spec 1 e one_in He), Z.pow_1_l by lia. apply Z.mod_small. unfold fp; lia.
Qed.

Lemma fmul_1_r x : inF x -> fmul x 1 = x.
Proof. intro Hx. rewrite (fmul_spec _ _ Hx one_in), Z.mul_1_r. apply Z.mod_small. exact Hx. Qed.

Lemma compress_affine x y t : inF x -> inF y -> compress (mkpt x y 1 t) = y + 2 ^ 255 * (x mod 2).
Proof.
  intros Hx Hy. unfold compress, finv. cbn [pX pY pZ].
  rewrite (fpow_one (fp - 2)) by reflexivity. rewrite !fmul_1_r by assumption. reflexivity.
Qed.

(* y is reduced modulo p (an encoding with y >= p decodes like y - p, as 2^255 < 2p); the sign bit is
   kept when x <> 0 and dropped when x = 0 *)
Lemma decompress_compress_canonical e P : 0 <= e < 2 ^ 256 -> decompress e = Some P ->
  compress P = (e mod 2 ^ 255) mod fp + 2 ^ 255 * (if pX P =? 0 then 0 else e / 2 ^ 255).
Proof.
  intros [He Hlt] H. destruct (decompress_sound e P He H) as (Hw & _ & Hz & Hy & x & Rx & Hx).
  destruct P as [X Y Z T]. cbn [pX pY pZ pT] in *. subst Z. destruct Hw as (RX & RY & _ & _).
  cbn [pX pY pZ pT] in *. rewrite compress_affine by assumption. rewrite <- Hy. f_equal. f_equal.
  assert (Hs : Z.shiftr e 255 = e / 2 ^ 255) by (apply Z.shiftr_div_pow2; lia).
  assert (Hs01 : e / 2 ^ 255 = 0 \/ e / 2 ^ 255 = 1).
  { assert (0 <= e / 2 ^ 255) by (apply Z.div_pos; lia).
    assert (e / 2 ^ 255 < 2) by (apply Z.div_lt_upper_bound; lia). lia. }
  rewrite Hs in Hx. destruct (fix_sign_parity x (e / 2 ^ 255) Rx Hs01) as [P0 P1].
  destruct (Z.eq_dec x 0) as [E0|Hne].
  - rewrite Hx, (P0 E0). reflexivity.
  - destruct (P1 Hne) as [Hn Hp]. rewrite <- Hx in Hn, Hp.
    destruct (Z.eqb_spec X 0); [contradiction | exact Hp].
Qed.
