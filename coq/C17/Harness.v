(* Evaluation of the C17 model on harness-written traces (correspondence check).
   One case = one pool life: flags, limits, a table of transactions and a list of operations with the
   implementation's observed results; transactions are referred to by table index. *)
From Coq Require Import List NArith Bool.
From V.C17 Require Import Model.
Import ListNotations.
Local Open Scope N_scope.

Inductive sop :=
| SAdd (i : N) (ok : bool) (err : N)                 (* AddTransaction(tbl[i]) = (ok, err) ; err 0 nil, 1 ErrExist *)
| SMark (txs : list N) (ev : list N)                 (* MarkExecuted(receipts/txs = tbl[txs], evicted = hashes of tbl[ev]) *)
| SUnmark (txs : list N) (ev : list N)               (* UnMarkExecuted(block{tbl[txs], evicted hashes of tbl[ev]}) *)
| SPack (st : list (N * N)) (sorted packed : list N) (* state nonces; sort.Sort(GetReceived()) ; PackForCast *)
| SLookup (i : N) (w : N) (j : N)                    (* GetTransaction(hash tbl[i]): w 0 none, 1 pending, 2 executed; = tbl[j] *)
| SExists (i : N) (r : bool)                         (* IsExisted(hash tbl[i]) *)
| SEvicted (i : N) (r : bool)                        (* evicted-cache probe *)
| SLess (i j : N) (r : N)                            (* Transactions{tbl[i],tbl[j]}.Less(0,1): 0 false, 1 true, 2 panic *)
| STick                                              (* one growRing tick of the pending container *)
| SMarkCall (rc txs ev : list N) (panicked : bool)   (* MarkExecuted(receipts with hashes of tbl[rc], block txs tbl[txs], evicted tbl[ev]) *)
| SMarkEvRange (base count : N)                      (* MarkExecuted(no receipts, evicted = hashes base .. base+count-1) *)
| SEvictedRaw (h : N) (r : bool)                     (* evicted-cache probe of a raw hash *)
| SClear (newlim : N)
| SAddMany (l : list (N * bool)).                    (* AddTransaction(tbl[i]) = (ok, nil / ErrExist) for each (i, ok), in order *)                               (* Clear(); the new pending container has limit newlim *)

Definition T (h s n r : N) : tx := mkTx h s n r.

Definition nth_tx (tbl : list tx) (i : N) : tx := nth (N.to_nat i) tbl (mkTx 0 0 0 0).
Definition sel (tbl : list tx) (is : list N) : list tx := map (nth_tx tbl) is.

Fixpoint list_eqb {A} (eq : A -> A -> bool) (a b : list A) : bool :=
  match a, b with
  | [], [] => true
  | x :: a', y :: b' => eq x y && list_eqb eq a' b'
  | _, _ => false
  end.

Definition txs_eqb := list_eqb tx_eqb.

Fixpoint st_of (l : list (N * N)) (a : N) : N :=
  match l with
  | [] => 0
  | (k, v) :: r => if k =? a then v else st_of r a
  end.

Fixpoint nodupb (l : list N) : bool :=
  match l with [] => true | x :: r => negb (memN x r) && nodupb r end.

(* no inversion w.r.t. Less *)
Fixpoint sortedb (f : flags) (l : list tx) : bool :=
  match l with [] => true | x :: r => forallb (fun y => negb (less f y x)) r && sortedb f r end.
(* strictly ordered: then the sorted permutation is unique *)
Fixpoint strictb (f : flags) (l : list tx) : bool :=
  match l with [] => true | x :: r => forallb (fun y => less f x y) r && strictb f r end.

Definition permb (a b : list tx) : bool :=
  (N.of_nat (length a) =? N.of_nat (length b)) && nodupb (hashes b)
  && forallb (fun t => existsb (tx_eqb t) a) b.

Definition chk_pack (f : flags) (cap : N) (s : pool) (st : list (N * N)) (sorted packed : list tx) : bool :=
  match received s with
  | [] => match packed with [] => true | _ => false end
  | l =>
    permb l sorted &&
    (if p018 f then
       (* the implementation's sort result is a sorted permutation of the model's pending list, the
          nonce walk over it gives the observed batch, and where the order is strict the model's own
          PackForCast gives it too *)
       (sortedb f sorted || negb (p023 f || p021 f || negb (p016 f)))
       && txs_eqb (pack_sorted (st_of st) cap sorted) packed
       && (negb (strictb f sorted) || txs_eqb (pack f (st_of st) cap s) packed)
     else txs_eqb (pack f (st_of st) cap s) packed)
  end.

Fixpoint nrange (base : N) (n : nat) : list N :=
  match n with O => [] | S k => base :: nrange (base + 1) k end.

(* [det] = a Clear has happened: MarkExecuted's records go to the old store (Model.mark_detached) *)
Definition do_mark (det : bool) (s : pool) (txs : list tx) (ev : list N) : pool :=
  if det then mark_detached s txs ev else mark_executed s txs ev.

(* a run of adds evaluated in one step (the per-step invariant / ring bookkeeping of chk_steps is then done
   once for the whole run; no expiry tick can fall in between) *)
Fixpoint add_many (lim : N) (tbl : list tx) (s : pool) (l : list (N * bool)) : bool * pool :=
  match l with
  | [] => (true, s)
  | (i, ok) :: r =>
    let '(s', res) := add lim s (nth_tx tbl i) in
    let good := match res with AOk => ok | AErrExist => negb ok end in
    let '(g, s'') := add_many lim tbl s' r in (good && g, s'')
  end.

Definition chk_step (f : flags) (det : bool) (lim cap : N) (tbl : list tx) (s : pool) (o : sop) : bool * pool :=
  match o with
  | SAdd i ok err =>
    let '(s', r) := add lim s (nth_tx tbl i) in
    (match r with AOk => ok && (err =? 0) | AErrExist => negb ok && (err =? 1) end, s')
  | SMark txs ev => (true, do_mark det s (sel tbl txs) (hashes (sel tbl ev)))
  | SMarkCall rc txs ev panicked =>
    match resolve_from 0 (hashes (sel tbl rc)) (sel tbl txs) with
    | Some l => (negb panicked, do_mark det s l (hashes (sel tbl ev)))
    | None => (panicked, s)
    end
  | SMarkEvRange base count => (true, do_mark det s [] (nrange base (N.to_nat count)))
  | SEvictedRaw h r => (Bool.eqb (memN h (evicted s)) r, s)
  | SClear _ => (true, s)  (* handled by chk_steps *)
  | SAddMany l => add_many lim tbl s l
  | SUnmark txs ev => (true, unmark lim s (sel tbl txs) (hashes (sel tbl ev)))
  | SPack st sorted packed => (chk_pack f cap s st (sel tbl sorted) (sel tbl packed), s)
  | SLookup i w j =>
    (match lookup s (thash (nth_tx tbl i)) with
     | LNone => w =? 0
     | LRecv t => (w =? 1) && tx_eqb t (nth_tx tbl j)
     | LExec t => (w =? 2) && tx_eqb t (nth_tx tbl j)
     end, s)
  | SExists i r => (Bool.eqb (existed s (thash (nth_tx tbl i))) r, s)
  | SEvicted i r => (Bool.eqb (memN (thash (nth_tx tbl i)) (evicted s)) r, s)
  | SLess i j r =>
    let a := nth_tx tbl i in let b := nth_tx tbl j in
    ((if less_panics f a b then r =? 2 else if less f a b then r =? 1 else r =? 0), s)
  | STick => (true, s)   (* handled by chk_steps on the timed state *)
  end.

(* after each step the implementation's GetReceived (if recorded) must be the model's pending list;
   the model's own invariant is evaluated as well *)
Definition invb (s : pool) : bool :=
  nodupb (hashes (received s)) && forallb (fun h => negb (memN h (exec_keys s))) (hashes (received s)).

(* the evaluator runs the timed pool of Model.v: pool methods through [step]'s components + resync of
   the ring counters (= tstep (TOp _)), ticks through tstep TTick *)
Fixpoint chk_steps (f : flags) (det : bool) (lim cap : N) (tbl : list tx) (ts : tpool)
         (steps : list (sop * option (list N))) : bool :=
  match steps with
  | [] => true
  | (o, recv) :: r =>
    let '(ok, ts', det', lim') :=
      match o with
      | STick => (true, tstep lim ts TTick, det, lim)
      | SClear newlim =>
        let s' := xp (xstep lim (mkX (tp ts) det []) (XClear [])) in
        (true, mkT s' (resync (rings ts) s'), true, newlim)
      | _ => let '(ok, s') := chk_step f det lim cap tbl (tp ts) o in
             (ok, mkT s' (resync (rings ts) s'), det, lim)
      end in
    ok && invb (tp ts')
    && match recv with None => true | Some is => txs_eqb (received (tp ts')) (sel tbl is) end
    && chk_steps f det' lim' cap tbl ts' r
  end.

Definition check (c : (bool * bool * bool * bool) * (N * N) * list tx * list (sop * option (list N))) : bool :=
  let '((f16, f18, f21, f23), (lim, cap), tbl, steps) := c in
  chk_steps (mkFlags f16 f18 f21 f23) false lim cap tbl (mkT empty []) steps.

(* ---------- gated schedules on the real pool vs the locked fine-grained semantics ---------- *)
(* One case = one pool life driven through a deterministic schedule of sub-steps (goroutines parked at
   gates inside the executed store: after add's existence check, after MarkExecuted's record write, before
   an UnMarkExecuted delete); after each step at which all goroutines are parked, blocked or finished the
   harness records the pending list (table indices, in order) and which table transactions have an
   executed record. *)
Inductive slop :=
| SLCheck (tid i : N) | SLPush (tid : N)
| SLMarkW (tid : N) (txs ev : list N) | SLMarkR (tid : N)
| SLUnmarkB (tid : N) (txs ev : list N) | SLUnmarkN (tid : N)
| SLAdd (i : N) | SLMark (txs ev : list N) | SLPack | SLTick (hs : list N).

Definition lop_of (tbl : list tx) (o : slop) : lop :=
  match o with
  | SLCheck tid i => LCheck tid (nth_tx tbl i)
  | SLPush tid => LPush tid
  | SLMarkW tid txs ev => LMarkW tid (sel tbl txs) (hashes (sel tbl ev))
  | SLMarkR tid => LMarkR tid
  | SLUnmarkB tid txs ev => LUnmarkB tid (sel tbl txs) (hashes (sel tbl ev))
  | SLUnmarkN tid => LUnmarkN tid
  | SLAdd i => LOp (OAdd (nth_tx tbl i))
  | SLMark txs ev => LOp (OMark (sel tbl txs) (hashes (sel tbl ev)))
  | SLPack => LOp OPack
  | SLTick hs => LOp (OExpire (hashes (sel tbl hs)))
  end.

Fixpoint idxs_from (n : N) (l : list tx) : list (N * tx) :=
  match l with [] => [] | t :: r => (n, t) :: idxs_from (n + 1) r end.

Definition exec_obs_ok (tbl : list tx) (s : pool) (ex : list N) : bool :=
  forallb (fun it => Bool.eqb (memN (thash (snd it)) (exec_keys s)) (memN (fst it) ex)) (idxs_from 0 tbl).

Fixpoint chk_sched (lim : N) (tbl : list tx) (s : lstate) (steps : list (slop * option (list N * list N))) : bool :=
  match steps with
  | [] => true
  | (o, obs) :: r =>
    let s' := lstep lim s (lop_of tbl o) in
    match obs with
    | None => true
    | Some (recv, ex) => txs_eqb (received (lpool s')) (sel tbl recv) && exec_obs_ok tbl (lpool s') ex
    end && chk_sched lim tbl s' r
  end.

Definition check_sched (c : N * list tx * list (slop * option (list N * list N))) : bool :=
  let '(lim, tbl, steps) := c in chk_sched lim tbl linit steps.
