(* C17 model: the transaction pool of src/service/transaction_pool.go + simple_container.go,
   and Transactions.Less of src/middleware/types/transaction.go.

   A transaction is reduced to the four fields the pool looks at:
     thash  = Hash as a 256-bit big-endian number (Less compares big.Int of Hash.Bytes())
     tsrc   = Source as the number big.Int(FromHex(Source)).  ASSUMPTION (stated in props/C17.json):
              sources are canonical strings, i.e. string equality of Source coincides with equality
              of that number (VerifyTransaction only admits Source == Address.GetHexString()).
     tnonce = Nonce, trid = RequestId (0 = JSON-RPC transaction, nonce-checked when packing).
   Pool state: received = gmap.ListMap in insertion order (values), executed = the executed store as an
   association list hash -> stored tx, evicted = the evicted-hash cache (LRU bound of 1000 not modelled).
   Further down: the background expiry (ring counters, growRing) and the fine-grained semantics under the
   pool lock. *)
From Coq Require Import List NArith Lia Bool.
Import ListNotations.
Local Open Scope N_scope.

Record tx := mkTx { thash : N; tsrc : N; tnonce : N; trid : N }.

Definition tx_eqb (a b : tx) : bool :=
  (thash a =? thash b) && (tsrc a =? tsrc b) && (tnonce a =? tnonce b) && (trid a =? trid b).

(* common.IsProposal016/018/021/023 at the current height *)
Record flags := mkFlags { p016 : bool; p018 : bool; p021 : bool; p023 : bool }.

(* ---------- Transactions.Less ---------- *)
Definition less (f : flags) (a b : tx) : bool :=
  if (trid a =? 0) && (trid b =? 0) then
    if p023 f then
      if tsrc a =? tsrc b then
        if negb (tnonce a =? tnonce b) then tnonce a <? tnonce b
        else thash b <? thash a                   (* num1.Cmp(num2) > 0; equal hashes panic, see below *)
      else tsrc b <? tsrc a
    else if p021 f then
      if tsrc a =? tsrc b then tnonce a <? tnonce b else tsrc b <? tsrc a
    else if p016 f && (tsrc a =? tsrc b) then tnonce a <? tnonce b
    else thash b <? thash a
  else trid a <? trid b.

(* the one input on which Less panics ("equal hash") *)
Definition less_panics (f : flags) (a b : tx) : bool :=
  (trid a =? 0) && (trid b =? 0) && p023 f && (tsrc a =? tsrc b) && (tnonce a =? tnonce b)
  && (thash a =? thash b).

(* sort.Sort(txs): any algorithm; the executable model uses insertion sort.  The theorems are stated for
   every sorted permutation, so they do not depend on this choice (Go's pdqsort is not stable). *)
Fixpoint insert (f : flags) (t : tx) (l : list tx) : list tx :=
  match l with
  | [] => [t]
  | x :: r => if less f t x then t :: x :: r else x :: insert f t r
  end.
Definition sort (f : flags) (l : list tx) : list tx := fold_right (insert f) [] l.

(* ---------- pool ---------- *)
Record pool := mkPool { received : list tx; executed : list (N * tx); evicted : list N }.

Definition empty : pool := mkPool [] [] [].

Definition hashes (l : list tx) : list N := map thash l.
Definition exec_keys (s : pool) : list N := map fst (executed s).

Definition memN (h : N) (l : list N) : bool := existsb (N.eqb h) l.

Definition in_received (s : pool) (h : N) : bool := memN h (hashes (received s)).
Definition in_executed (s : pool) (h : N) : bool := memN h (exec_keys s).

(* isTransactionExisted *)
Definition existed (s : pool) (h : N) : bool := in_received s h || in_executed s h.

(* gmap.ListMap.Set: a new key is appended, an existing key keeps its position and gets the new value *)
Fixpoint lm_set (l : list tx) (t : tx) : list tx :=
  match l with
  | [] => [t]
  | x :: r => if thash x =? thash t then t :: r else x :: lm_set r t
  end.

(* simpleContainer.push: silently drops when the container is full *)
Definition push (lim : N) (s : pool) (t : tx) : pool :=
  if N.of_nat (length (received s)) <? lim
  then mkPool (lm_set (received s) t) (executed s) (evicted s)
  else s.

Inductive add_res := AOk | AErrExist.

(* TxPool.add (tx <> nil) *)
Definition add (lim : N) (s : pool) (t : tx) : pool * add_res :=
  if existed s (thash t) then (s, AErrExist) else (push lim s t, AOk).

Definition del_key (h : N) (e : list (N * tx)) : list (N * tx) :=
  filter (fun kv => negb (fst kv =? h)) e.

(* batch.Put(hash, record) + Write: overwrites *)
Definition put_exec (e : list (N * tx)) (t : tx) : list (N * tx) := (thash t, t) :: del_key (thash t) e.

(* pool.evictedTxs: lru.Cache of txCacheSize entries, most recently added first. Add of a present key moves
   it to the front; a new key beyond the capacity drops the oldest; Contains does not touch the order. *)
Definition evict_cap : N := 1000.
Definition lru_add (l : list N) (h : N) : list N :=
  firstn (N.to_nat evict_cap) (h :: filter (fun x => negb (x =? h)) l).
Definition lru_adds (l : list N) (hs : list N) : list N := fold_left lru_add hs l.

(* TxPool.MarkExecuted with one receipt per transaction of [txs] (receipts[i].TxHash = txs[i].Hash) and
   the block's evicted hashes [ev]: executed records written, evicted hashes cached, all of them removed
   from received. *)
Definition mark_executed (s : pool) (txs : list tx) (ev : list N) : pool :=
  let gone := hashes txs ++ ev in
  mkPool (filter (fun t => negb (memN (thash t) gone)) (received s))
         (fold_left put_exec txs (executed s))
         (lru_adds (evicted s) ev).

(* TxPool.UnMarkExecuted(block): nothing at all for a block without transactions *)
Definition unmark1 (lim : N) (s : pool) (t : tx) : pool :=
  fst (add lim (mkPool (received s) (del_key (thash t) (executed s)) (evicted s)) t).

Definition unmark (lim : N) (s : pool) (txs : list tx) (ev : list N) : pool :=
  match txs with
  | [] => s
  | _ => fold_left (unmark1 lim)
           txs (mkPool (received s) (executed s) (filter (fun h => negb (memN h ev)) (evicted s)))
  end.

(* TxPool.GetTransaction *)
Inductive look_res := LRecv (t : tx) | LExec (t : tx) | LNone.

Fixpoint assoc (h : N) (e : list (N * tx)) : option tx :=
  match e with
  | [] => None
  | (k, t) :: r => if k =? h then Some t else assoc h r
  end.

Definition lookup (s : pool) (h : N) : look_res :=
  match find (fun t => thash t =? h) (received s) with
  | Some t => LRecv t
  | None => match assoc h (executed s) with Some t => LExec t | None => LNone end
  end.

(* ---------- packing ---------- *)
(* nonceMap[tx.Source] with lazy seeding from the state *)
Fixpoint nm_get (nm : list (N * N)) (a : N) : option N :=
  match nm with
  | [] => None
  | (k, v) :: r => if k =? a then Some v else nm_get r a
  end.

Definition cur (st : N -> N) (nm : list (N * N)) (a : N) : N :=
  match nm_get nm a with Some v => v | None => st a end.

(* nonces are Go uint64: expectedNonce + 1 wraps around at 2^64 *)
Definition two64 : N := 18446744073709551616.
Definition succ64 (n : N) : N := (n + 1) mod two64.

(* the loop of checkNonce over the sorted list; [n] = len(packedTxs) so far *)
Fixpoint walk (st : N -> N) (cap : N) (l : list tx) (nm : list (N * N)) (n : N) : list tx :=
  match l with
  | [] => []
  | t :: r =>
    if trid t =? 0 then
      let e := cur st nm (tsrc t) in
      let nm1 := match nm_get nm (tsrc t) with Some _ => nm | None => (tsrc t, e) :: nm end in
      if e <? tnonce t then walk st cap r nm1 n                       (* nonce too high: skip *)
      else
        let nm2 := if e =? tnonce t then (tsrc t, succ64 e) :: nm1 else nm1 in
        t :: (if cap <=? n + 1 then [] else walk st cap r nm2 (n + 1)) (* too low / repeated: kept *)
    else t :: (if cap <=? n + 1 then [] else walk st cap r nm (n + 1))
  end.

(* checkNonce applied to an already sorted list, then PackForCast's own cap *)
Definition pack_sorted (st : N -> N) (cap : N) (sorted : list tx) : list tx :=
  firstn (N.to_nat cap) (walk st cap sorted [] 0).

(* TxPool.PackForCast *)
Definition pack (f : flags) (st : N -> N) (cap : N) (s : pool) : list tx :=
  match received s with
  | [] => []
  | l => if p018 f then pack_sorted st cap (sort f l) else firstn (N.to_nat cap) l
  end.

(* simpleContainer.remove(hs) as called by the background expiry (growRing): pending entries only *)
Definition expire (s : pool) (hs : list N) : pool :=
  mkPool (filter (fun t => negb (memN (thash t) hs)) (received s)) (executed s) (evicted s).

(* ---------- operation sequences (sequential semantics: every pool method is atomic) ---------- *)
Inductive op :=
| OAdd (t : tx)
| OMark (txs : list tx) (ev : list N)
| OUnmark (txs : list tx) (ev : list N)
| OPack            (* read-only *)
| OLookup (h : N)  (* read-only *)
| OExpire (hs : list N). (* growRing dropped the pending entries with these hashes (any set: over-approximation) *)

Definition step (lim : N) (s : pool) (o : op) : pool :=
  match o with
  | OAdd t => fst (add lim s t)
  | OMark txs ev => mark_executed s txs ev
  | OUnmark txs ev => unmark lim s txs ev
  | OPack => s
  | OLookup _ => s
  | OExpire hs => expire s hs
  end.

Definition run (lim : N) (s : pool) (ops : list op) : pool := fold_left (step lim) ops s.

(* ---------- fine-grained semantics: add = check ; push, performed by thread [tid] ---------- *)
(* The code BEFORE the fix (/repo commit "fix: TxPool serialises ...") took no pool-level lock:
   isTransactionExisted and received.push are two separately synchronised calls, and AddTransaction runs
   on network goroutines while MarkExecuted runs on the chain goroutine.  These unlocked steps are kept to
   state what the lock excludes (C17_race_refuted); the repaired code is [lstep] below. *)
Inductive fop :=
| FCheck (tid : N) (t : tx)   (* pool.isTransactionExisted(tx.Hash), result kept by the thread *)
| FPush (tid : N)             (* pool.received.push(tx) if the check said "not existed" *)
| FOp (o : op).               (* any other pool method, atomic *)

Record fstate := mkF { fpool : pool; pend : list (N * (tx * bool)) }.

Fixpoint pend_get (p : list (N * (tx * bool))) (tid : N) : option (tx * bool) :=
  match p with
  | [] => None
  | (k, v) :: r => if k =? tid then Some v else pend_get r tid
  end.
Definition pend_del (p : list (N * (tx * bool))) (tid : N) : list (N * (tx * bool)) :=
  filter (fun kv => negb (fst kv =? tid)) p.

Definition fstep (lim : N) (s : fstate) (o : fop) : fstate :=
  match o with
  | FCheck tid t => mkF (fpool s) ((tid, (t, existed (fpool s) (thash t))) :: pend_del (pend s) tid)
  | FPush tid =>
    match pend_get (pend s) tid with
    | Some (t, false) => mkF (push lim (fpool s) t) (pend_del (pend s) tid)
    | Some (_, true) => mkF (fpool s) (pend_del (pend s) tid)
    | None => s
    end
  | FOp o => mkF (step lim (fpool s) o) (pend s)
  end.

Definition frun (lim : N) (s : fstate) (sched : list fop) : fstate := fold_left (fstep lim) sched s.

(* schedules in which every check is immediately followed by the same thread's push *)
Fixpoint collapse (sched : list fop) : option (list op) :=
  match sched with
  | [] => Some []
  | FCheck tid t :: FPush tid' :: r =>
    if tid =? tid' then option_map (cons (OAdd t)) (collapse r) else None
  | FOp o :: r => option_map (cons o) (collapse r)
  | _ => None
  end.

(* ---------- the pool-level lock (TxPool.lock, commit "fix: TxPool serialises ...") ---------- *)
(* AddTransaction, MarkExecuted, UnMarkExecuted hold pool.lock for their whole body; PackForCast,
   GetTransaction, IsExisted and the background expiry (simpleContainer.growRing) do not take it.
   Fine-grained steps of thread [tid] (a step that needs the lock while another thread holds it, or that
   continues a method the thread is not in, leaves the state unchanged -- the thread waits -- so every
   list of steps is a schedule):
     LCheck tid t        : Lock ; isTransactionExisted(t.Hash)
     LPush tid           : received.push(t) if "not existed" ; Unlock
     LMarkW tid txs ev   : Lock ; executed records of txs written ; ev cached as evicted
     LMarkR tid          : received.remove(hashes txs ++ ev) ; Unlock
     LUnmarkB tid txs ev : Lock ; ev dropped from the evicted cache ; first transaction deleted from
                           executed and re-added (nothing at all for an empty block)
     LUnmarkN tid        : next transaction deleted from executed and re-added ; Unlock after the last
     LOp o               : a whole AddTransaction / MarkExecuted / UnMarkExecuted in one step (needs the
                           lock), or a read / an expiry tick (never blocked). *)
Inductive task :=
| KAdd (t : tx) (b : bool)
| KMark (txs : list tx) (ev : list N)
| KUnmark (rest : list tx).

Inductive lop :=
| LCheck (tid : N) (t : tx)
| LPush (tid : N)
| LMarkW (tid : N) (txs : list tx) (ev : list N)
| LMarkR (tid : N)
| LUnmarkB (tid : N) (txs : list tx) (ev : list N)
| LUnmarkN (tid : N)
| LOp (o : op).

Record lstate := mkL { lpool : pool; holder : option (N * task) }.

Definition needs_lock (o : op) : bool :=
  match o with OAdd _ | OMark _ _ | OUnmark _ _ => true | OPack | OLookup _ | OExpire _ => false end.

(* the two halves of MarkExecuted *)
Definition mark_write (s : pool) (txs : list tx) (ev : list N) : pool :=
  mkPool (received s) (fold_left put_exec txs (executed s)) (lru_adds (evicted s) ev).
Definition mark_remove (s : pool) (txs : list tx) (ev : list N) : pool :=
  mkPool (filter (fun t => negb (memN (thash t) (hashes txs ++ ev))) (received s)) (executed s) (evicted s).

Definition release_if_done (tid : N) (rest : list tx) : option (N * task) :=
  match rest with [] => None | _ => Some (tid, KUnmark rest) end.

Definition lstep (lim : N) (s : lstate) (o : lop) : lstate :=
  match o, holder s with
  | LCheck tid t, None => mkL (lpool s) (Some (tid, KAdd t (existed (lpool s) (thash t))))
  | LPush tid, Some (tid', KAdd t b) =>
    if tid =? tid' then mkL (if b then lpool s else push lim (lpool s) t) None else s
  | LMarkW tid txs ev, None => mkL (mark_write (lpool s) txs ev) (Some (tid, KMark txs ev))
  | LMarkR tid, Some (tid', KMark txs ev) =>
    if tid =? tid' then mkL (mark_remove (lpool s) txs ev) None else s
  | LUnmarkB tid (t :: rest) ev, None => mkL (unmark lim (lpool s) [t] ev) (release_if_done tid rest)
  | LUnmarkN tid, Some (tid', KUnmark (t :: rest)) =>
    if tid =? tid' then mkL (unmark lim (lpool s) [t] []) (release_if_done tid rest) else s
  | LOp o, None => mkL (step lim (lpool s) o) None
  | LOp o, Some h => if needs_lock o then s else mkL (step lim (lpool s) o) (Some h)
  | _, _ => s
  end.

Definition lrun (lim : N) (s : lstate) (sched : list lop) : lstate := fold_left (lstep lim) sched s.
Definition linit : lstate := mkL empty None.

(* no MarkExecuted is between its record-write and its remove *)
Definition mark_idle (s : lstate) : Prop :=
  match holder s with Some (_, KMark _ _) => False | _ => True end.

(* ---------- the chain lock (middleware.LockBlockchain, an RW lock) above the pool lock ---------- *)
(* Every caller of MarkExecuted / UnMarkExecuted in the node holds the chain WRITE lock for the whole call
   (blockChain.AddBlockOnChain, blockChainFork.triggerOnChain -> addBlockOnChain / insertBlock /
   removeFromCommonAncestor -> remove; ensureChainConsistency runs single-threaded at start-up), and the
   only caller of PackForCast (blockChain.CastBlock) holds the chain READ lock.  Lock order chain -> pool.
     CW tid / CWU tid : acquire / release the write lock (release only after the pool method returned)
     CR tid / CRU tid : acquire / release a read lock
     CPack tid        : PackForCast by a read-lock holder (an observation point; no state change)
     CL o             : a pool-level step; the first step of a MarkExecuted / UnMarkExecuted is taken only
                        by the write-lock holder, a whole-method LOp (OMark / OUnmark) stands for
                        lock-call-unlock and needs the chain lock free. *)
Inductive clop := CW (tid : N) | CWU (tid : N) | CR (tid : N) | CRU (tid : N) | CPack (tid : N) | CL (o : lop).

Record cstate := mkCS { ls : lstate; cw : option N; cr : list N }.

Definition holder_chain (h : option (N * task)) : option N :=
  match h with
  | Some (tid, KMark _ _) | Some (tid, KUnmark _) => Some tid
  | _ => None
  end.

Definition chain_ok (s : cstate) (o : lop) : bool :=
  match o with
  | LMarkW tid _ _ | LUnmarkB tid _ _ => match cw s with Some w => w =? tid | None => false end
  | LOp (OMark _ _) | LOp (OUnmark _ _) => match cw s, cr s with None, [] => true | _, _ => false end
  | _ => true
  end.

Definition cstep (lim : N) (s : cstate) (o : clop) : cstate :=
  match o with
  | CW tid => match cw s, cr s with None, [] => mkCS (ls s) (Some tid) [] | _, _ => s end
  | CWU tid =>
    match cw s with
    | Some w =>
      if (w =? tid) && negb (match holder_chain (holder (ls s)) with Some h => h =? tid | None => false end)
      then mkCS (ls s) None (cr s) else s
    | None => s
    end
  | CR tid => match cw s with None => mkCS (ls s) None (tid :: cr s) | Some _ => s end
  | CRU tid => mkCS (ls s) (cw s) (remove N.eq_dec tid (cr s))
  | CPack _ => s
  | CL o => if chain_ok s o then mkCS (lstep lim (ls s) o) (cw s) (cr s) else s
  end.

Definition crun (lim : N) (s : cstate) (sched : list clop) : cstate := fold_left (cstep lim) sched s.
Definition cinit : cstate := mkCS linit None [].

(* the same steps WITHOUT the lock discipline (the code before the fix) are [fstep] above. *)

(* ---------- background expiry, exactly: simpleContainer.txAnnualRingMap / growRing ---------- *)
(* Every pending entry carries a ring counter: push stores 0, remove deletes it, each growRing tick
   (one per minute) increments all counters and removes the entries whose counter reached expiredRing. *)
Definition expired_ring : N := 5.

Record tpool := mkT { tp : pool; rings : list (N * N) }.

(* after a pool method: entries that stayed pending keep their counter, new ones start at 0 *)
Definition resync (rg : list (N * N)) (s : pool) : list (N * N) :=
  map (fun t => (thash t, match nm_get rg (thash t) with Some r => r | None => 0 end)) (received s).

Inductive top := TOp (o : op) | TTick.

Definition tick_expired (rg : list (N * N)) : list N :=
  map fst (filter (fun kv => expired_ring <=? snd kv + 1) rg).

Definition tstep (lim : N) (s : tpool) (o : top) : tpool :=
  match o with
  | TOp o => let p := step lim (tp s) o in mkT p (resync (rings s) p)
  | TTick =>
    let hs := tick_expired (rings s) in
    let p := expire (tp s) hs in
    mkT p (resync (map (fun kv => (fst kv, snd kv + 1)) (rings s)) p)
  end.

Definition trun (lim : N) (s : tpool) (ops : list top) : tpool := fold_left (tstep lim) ops s.

(* the untimed operation a timed step amounts to *)
Definition erase1 (s : tpool) (o : top) : op :=
  match o with TOp o => o | TTick => OExpire (tick_expired (rings s)) end.

(* ---------- MarkExecuted's calling convention: receipts vs block transactions ---------- *)
(* findTxInList(txs, receipt.TxHash, i): txs[i] if its hash matches, else the first transaction of the
   block with that hash, else nil -- and a nil transaction makes MarkExecuted panic (refreshGateNonce
   dereferences it).  [resolve_from] = the transactions stored for the receipts, None = panic. *)
Definition find_tx (txs : list tx) (h : N) (i : nat) : option tx :=
  match nth_error txs i with
  | Some t => if thash t =? h then Some t else find (fun t => thash t =? h) txs
  | None => find (fun t => thash t =? h) txs
  end.

Fixpoint resolve_from (i : nat) (rc : list N) (txs : list tx) : option (list tx) :=
  match rc with
  | [] => Some []
  | h :: r =>
    match find_tx txs h i, resolve_from (S i) r txs with
    | Some t, Some l => Some (t :: l)
    | _, _ => None
    end
  end.

(* MarkExecuted(header, receipts with hashes [rc], block transactions [txs], evicted [ev]); transactions of
   the block without a receipt are neither recorded nor removed from pending *)
Definition mark_call (s : pool) (rc : list N) (txs : list tx) (ev : list N) : option pool :=
  match resolve_from 0 rc txs with
  | Some l => Some (mark_executed s l ev)
  | None => None
  end.

(* ---------- TxPool.Clear ---------- *)
(* Clear (chain lock + pool lock held) replaces the pending container by an empty one, resets the batch and
   RE-OPENS the executed store as db.NewDatabase("tx") -- a prefixed view of the node's shared LevelDB,
   which is NOT the dedicated LevelDB "storage/tx" that newTransactionPool opened.  pool.batch still
   belongs to the old store.  So after the first Clear: lookups / existence checks / UnMarkExecuted's
   deletes go to the new store (contents [ns] at that moment; nothing ever writes to it), and
   MarkExecuted's records keep going to the old one, where nobody looks.  The evicted cache is untouched. *)
Record xpool := mkX { xp : pool; detached : bool; oldstore : list (N * tx) }.

Inductive xop := XOp (o : op) | XClear (ns : list (N * tx)).

(* MarkExecuted once the stores are split: pending and evicted cache as usual, visible executed unchanged *)
Definition mark_detached (s : pool) (txs : list tx) (ev : list N) : pool :=
  mkPool (received (mark_executed s txs ev)) (executed s) (evicted (mark_executed s txs ev)).

Definition xstep (lim : N) (s : xpool) (o : xop) : xpool :=
  match o with
  | XClear ns =>
    if detached s then mkX (mkPool [] (executed (xp s)) (evicted (xp s))) true (oldstore s)
    else mkX (mkPool [] ns (evicted (xp s))) true (executed (xp s))
  | XOp (OMark txs ev) =>
    if detached s then mkX (mark_detached (xp s) txs ev) true (fold_left put_exec txs (oldstore s))
    else mkX (mark_executed (xp s) txs ev) false (oldstore s)
  | XOp o => mkX (step lim (xp s) o) (detached s) (oldstore s)
  end.

Definition xrun (lim : N) (s : xpool) (ops : list xop) : xpool := fold_left (xstep lim) ops s.
Definition xinit : xpool := mkX empty false [].
