(* C17, chain <-> pool protocol across process death.
   Product of (a) the persistent chain state as far as C17 needs it -- the canonical chain selected by the
   head record, the add / remove intent marks -- and (b) the pool's persistent executed store.  The writes
   are those of blockChain.insertBlock / blockChain.remove restricted to {marks, head record, executed
   store} (the hash / height / verify-hash index writes do not matter for the pool; the block-store check
   C05 has the full list), in the order of the code; a crash keeps a prefix of them; the restart runs
   ensureChainConsistency (an add mark => remove(block); a remove mark => remove(block)) over a pool object
   with an empty pending list. *)
From Coq Require Import List NArith Lia Bool.
From V.C17 Require Import Model Proofs.
Import ListNotations.
Local Open Scope N_scope.

Record blockT := mkB { bid : N; btxs : list N }.

Record cst := mkCst { chainc : list blockT; (* canonical chain, head first *)
                      addm : option blockT; rmm : option blockT;
                      execs : list N }.      (* keys of the pool's executed store *)

Inductive wr :=
| WAddMark (b : blockT)   (* markAddBlock *)
| WExec (b : blockT)      (* updateTxPool -> MarkExecuted: one batch *)
| WHead (b : blockT)      (* updateLastBlock: head record := b *)
| WDelAddMark             (* eraseAddBlockMark *)
| WRmMark (b : blockT)    (* markRemoveBlock *)
| WPop (b : blockT)       (* head record := parent of b *)
| WUnexec (b : blockT)    (* UnMarkExecuted: executed records of b's transactions deleted *)
| WDelRmMark.             (* eraseRemoveBlockMark *)

Definition exec_del (e l : list N) : list N := filter (fun h => negb (memN h l)) e.

(* head := parent of b: b is popped if it is the head, otherwise (b was not the head yet) nothing moves *)
Definition pop (b : blockT) (c : list blockT) : list blockT :=
  match c with x :: r => if bid x =? bid b then r else c | [] => [] end.

Arguments exec_del : simpl never.
Arguments pop : simpl never.

Definition apply_w (s : cst) (w : wr) : cst :=
  match w with
  | WAddMark b => mkCst (chainc s) (Some b) (rmm s) (execs s)
  | WExec b => mkCst (chainc s) (addm s) (rmm s) (btxs b ++ execs s)
  | WHead b => mkCst (b :: chainc s) (addm s) (rmm s) (execs s)
  | WDelAddMark => mkCst (chainc s) None (rmm s) (execs s)
  | WRmMark b => mkCst (chainc s) (addm s) (Some b) (execs s)
  | WPop b => mkCst (pop b (chainc s)) (addm s) (rmm s) (execs s)
  | WUnexec b => mkCst (chainc s) (addm s) (rmm s) (exec_del (execs s) (btxs b))
  | WDelRmMark => mkCst (chainc s) (addm s) None (execs s)
  end.

Definition run_w (s : cst) (ws : list wr) : cst := fold_left apply_w ws s.

(* the code's order (blockchain_add.go insertBlock, blockchain.go remove) *)
Definition insert_writes (b : blockT) : list wr := [WAddMark b; WExec b; WHead b; WDelAddMark].
Definition remove_writes (b : blockT) : list wr := [WRmMark b; WPop b; WUnexec b; WDelRmMark].
(* the order in which the pool is told only after the mark has been erased *)
Definition insert_writes_late (b : blockT) : list wr := [WAddMark b; WHead b; WDelAddMark; WExec b].

(* ensureChainConsistency at start-up *)
Definition repair (s : cst) : cst :=
  let s1 := match addm s with
            | Some b => apply_w (run_w s (remove_writes b)) WDelAddMark
            | None => s
            end in
  match rmm s1 with Some b => run_w s1 (remove_writes b) | None => s1 end.

(* process death after the first m writes, then restart *)
Definition crash_restart (s : cst) (ws : list wr) (m : nat) : cst := repair (run_w s (firstn m ws)).

Definition on_chain (c : list blockT) (h : N) : Prop := exists b, In b c /\ In h (btxs b).

(* the executed store holds exactly the transactions of the canonical chain, no mark is left *)
Definition good (s : cst) : Prop :=
  (forall h, In h (execs s) <-> on_chain (chainc s) h) /\ addm s = None /\ rmm s = None.

(* the pool object after a restart: empty pending list and evicted cache over the executed store *)
Definition pool_of (s : cst) : pool := mkPool [] (map (fun h => (h, mkTx h 0 0 0)) (execs s)) [].

Lemma exec_del_spec e l h : In h (exec_del e l) <-> In h e /\ ~ In h l.
Proof.
  unfold exec_del. rewrite filter_In. rewrite negb_true_iff. rewrite memN_false. tauto.
Qed.

Lemma on_chain_cons b c h : on_chain (b :: c) h <-> In h (btxs b) \/ on_chain c h.
Proof.
  unfold on_chain. split.
  - intros [x [[<-|Hx] Hh]]; [left; auto | right; eauto].
  - intros [Hh|[x [Hx Hh]]]; [exists b; simpl; auto | exists x; simpl; auto].
Qed.

Lemma pop_other b c : (forall x, In x c -> bid x <> bid b) -> pop b c = c.
Proof.
  intro H. destruct c as [|x r]; [reflexivity|]. cbv [pop].
  destruct (N.eqb_spec (bid x) (bid b)) as [E|_]; [|reflexivity]. exfalso. apply (H x); simpl; auto.
Qed.

Lemma pop_head b c : pop b (b :: c) = c.
Proof. cbv [pop]. rewrite N.eqb_refl. reflexivity. Qed.

(* insertBlock of a block whose transactions are not executed yet (verifyBlock checks that), cut anywhere:
   after the restart the pair is good again -- the block is either fully on or fully off *)
Lemma insert_crash_safe s b m :
  good s -> (forall h, In h (btxs b) -> ~ In h (execs s)) -> (forall x, In x (chainc s) -> bid x <> bid b) ->
  good (crash_restart s (insert_writes b) m).
Proof.
  intros [G [Ha Hr]] Hfresh Hid. destruct s as [c am rm e]. simpl in *. subst am rm.
  unfold crash_restart, insert_writes.
  destruct m as [|[|[|[|m]]]]; cbn [firstn]; try rewrite firstn_nil; simpl; unfold repair; simpl; unfold good; simpl.
  - split; auto.
  - rewrite (pop_other b c Hid). split; auto. intro h. rewrite exec_del_spec. rewrite <- G.
    split; [tauto|]. intro H. split; auto. intro Hb. exact (Hfresh h Hb H).
  - rewrite (pop_other b c Hid). split; auto. intro h. rewrite exec_del_spec, in_app_iff. rewrite <- G.
    split; [tauto|]. intro H. split; auto. intro Hb. exact (Hfresh h Hb H).
  - rewrite pop_head. split; auto. intro h. rewrite exec_del_spec, in_app_iff. rewrite <- G.
    split; [tauto|]. intro H. split; auto. intro Hb. exact (Hfresh h Hb H).
  - split; auto. intro h. rewrite in_app_iff, on_chain_cons, G. tauto.
Qed.

(* remove of the head block (reorg), cut anywhere *)
Lemma remove_crash_safe c b e m :
  let s := mkCst (b :: c) None None e in
  good s -> (forall h, In h (btxs b) -> ~ on_chain c h) -> (forall x, In x c -> bid x <> bid b) ->
  good (crash_restart s (remove_writes b) m).
Proof.
  intros s [G _] Hdis Hid. simpl in G. unfold crash_restart, remove_writes, s.
  assert (Hgoal : forall h, In h (exec_del e (btxs b)) <-> on_chain c h).
  { intro h. rewrite exec_del_spec, G, on_chain_cons. split; [tauto|]. intro H. split; auto.
    intro Hb. exact (Hdis h Hb H). }
  assert (Hgoal2 : forall h, In h (exec_del (exec_del e (btxs b)) (btxs b)) <-> on_chain c h).
  { intro h. rewrite exec_del_spec, Hgoal. split; [tauto|]. intro H. split; auto.
    intro Hb. exact (Hdis h Hb H). }
  destruct m as [|[|[|[|m]]]]; cbn [firstn]; try rewrite firstn_nil; simpl; unfold repair; simpl; unfold good; simpl.
  - split; auto.
  - rewrite pop_head. split; auto.
  - rewrite pop_head. rewrite (pop_other b c Hid). split; auto.
  - rewrite pop_head. rewrite (pop_other b c Hid). split; auto.
  - rewrite pop_head. split; auto.
Qed.

(* what "good" means for the pool after the restart *)
Lemma exec_keys_pool_of s : exec_keys (pool_of s) = execs s.
Proof. unfold exec_keys, pool_of. simpl. rewrite map_map. simpl. apply map_id. Qed.

Lemma good_pool lim s t :
  good s -> 0 < lim ->
  (on_chain (chainc s) (thash t) -> add lim (pool_of s) t = (pool_of s, AErrExist)) /\
  (~ on_chain (chainc s) (thash t) -> snd (add lim (pool_of s) t) = AOk /\ In t (received (fst (add lim (pool_of s) t)))).
Proof.
  intros [G _] Hl. split.
  - intro H. apply no_readmit. rewrite exec_keys_pool_of. apply G. exact H.
  - intro H. unfold add, existed, in_received, in_executed. rewrite exec_keys_pool_of.
    assert (E : memN (thash t) (execs s) = false) by (apply memN_false; rewrite G; exact H).
    rewrite E. simpl. unfold push. simpl. apply N.ltb_lt in Hl. rewrite Hl. simpl. auto.
Qed.

(* the late order: killed after the mark is erased and before MarkExecuted, the block is the canonical
   head, nothing is left to repair, and its transaction is admitted again *)
Lemma late_order_refuted :
  let b := mkB 1 [5] in
  let s0 := mkCst [] None None [] in
  let s := crash_restart s0 (insert_writes_late b) 3 in
  good s0 /\ chainc s = [b] /\ addm s = None /\ rmm s = None /\ on_chain (chainc s) 5 /\ ~ In 5 (execs s) /\
  snd (add 10 (pool_of s) (mkTx 5 1 0 0)) = AOk.
Proof.
  cbv zeta. split.
  - split; [|split; reflexivity]. intro h. split; [intros [] | intros [y [[] _]]].
  - split; [reflexivity|]. split; [reflexivity|]. split; [reflexivity|]. split.
    + exists (mkB 1 [5]). split; simpl; auto.
    + split; [intros [] | reflexivity].
Qed.
