(* C17 proofs: pool invariant over all operation sequences, packing properties for every sorted
   permutation of the pending list, the fine-grained (check ; push) semantics. *)
From Coq Require Import List NArith Lia Bool Permutation Sorted.
From V.C17 Require Import Model.
Import ListNotations.
Local Open Scope N_scope.

(* ---------- small list facts ---------- *)
Lemma memN_In h l : memN h l = true <-> In h l.
Proof.
  unfold memN. rewrite existsb_exists. split.
  - intros [x [Hx E]]. apply N.eqb_eq in E. subst. exact Hx.
  - intro H. exists h. split; [exact H | apply N.eqb_refl].
Qed.

Lemma memN_false h l : memN h l = false <-> ~ In h l.
Proof.
  rewrite <- memN_In. destruct (memN h l); split; intro H; congruence.
Qed.

Lemma NoDup_map_filter {A B} (g : A -> B) (p : A -> bool) l : NoDup (map g l) -> NoDup (map g (filter p l)).
Proof.
  induction l as [|x l IH]; simpl; intro H; [constructor|].
  inversion H as [|? ? Hn Hd]; subst. destruct (p x); simpl; auto.
  constructor; auto. intro Hi. apply Hn. apply in_map_iff in Hi as [y [E Hy]].
  apply filter_In in Hy as [Hy _]. apply in_map_iff. exists y. auto.
Qed.

Lemma in_map_filter {A B} (g : A -> B) (p : A -> bool) l b :
  In b (map g (filter p l)) -> exists x, In x l /\ g x = b /\ p x = true.
Proof.
  intro H. apply in_map_iff in H as [x [E Hx]]. apply filter_In in Hx as [Hx Hp]. exists x. auto.
Qed.

(* ---------- subsequences ---------- *)
Inductive subseq {A : Type} : list A -> list A -> Prop :=
| ss_nil : subseq [] []
| ss_skip x l1 l2 : subseq l1 l2 -> subseq l1 (x :: l2)
| ss_take x l1 l2 : subseq l1 l2 -> subseq (x :: l1) (x :: l2).

Lemma subseq_nil_l {A} (l : list A) : subseq [] l.
Proof. induction l; constructor; auto. Qed.

Lemma subseq_refl {A} (l : list A) : subseq l l.
Proof. induction l; [apply ss_nil | apply ss_take; auto]. Qed.

Lemma subseq_firstn {A} n (l : list A) : subseq (firstn n l) l.
Proof.
  revert n; induction l as [|x l IH]; intros [|n]; simpl.
  - apply ss_nil.
  - apply ss_nil.
  - apply subseq_nil_l.
  - apply ss_take. apply IH.
Qed.

Lemma subseq_trans {A} (a b c : list A) : subseq a b -> subseq b c -> subseq a c.
Proof.
  intros Hab Hbc. revert a Hab. induction Hbc; intros a Hab.
  - exact Hab.
  - apply ss_skip. auto.
  - inversion Hab; subst.
    + apply ss_skip. auto.
    + apply ss_take. auto.
Qed.

Lemma subseq_In {A} (a b : list A) x : subseq a b -> In x a -> In x b.
Proof. induction 1; simpl; intros; auto. destruct H0; auto. Qed.

Lemma subseq_map {A B} (g : A -> B) a b : subseq a b -> subseq (map g a) (map g b).
Proof. induction 1; simpl; [apply ss_nil | apply ss_skip; auto | apply ss_take; auto]. Qed.

Lemma subseq_NoDup {A} (a b : list A) : subseq a b -> NoDup b -> NoDup a.
Proof.
  induction 1; intro Hd; auto.
  - inversion Hd; auto.
  - inversion Hd; subst. constructor; auto. intro Hi. eapply subseq_In in Hi; eauto.
Qed.

Lemma subseq_Forall {A} (P : A -> Prop) a b : subseq a b -> Forall P b -> Forall P a.
Proof. intros Hs Hf. rewrite Forall_forall in *. intros x Hx. apply Hf. eapply subseq_In; eauto. Qed.

Lemma subseq_StronglySorted {A} (R : A -> A -> Prop) a b :
  subseq a b -> StronglySorted R b -> StronglySorted R a.
Proof.
  induction 1; intro Hs; auto.
  - inversion Hs; auto.
  - inversion Hs; subst. constructor; auto. eapply subseq_Forall; eauto.
Qed.

Lemma StronglySorted_impl {A} (R R' : A -> A -> Prop) l :
  (forall a b, R a b -> R' a b) -> StronglySorted R l -> StronglySorted R' l.
Proof.
  intros Hi. induction 1; constructor; auto.
  eapply Forall_impl; [|eassumption]. intros; auto.
Qed.

(* ---------- invariant ---------- *)
Definition inv (s : pool) : Prop :=
  NoDup (hashes (received s)) /\ (forall h, In h (hashes (received s)) -> ~ In h (exec_keys s)).

Lemma inv_empty : inv empty.
Proof. split; simpl; [constructor | tauto]. Qed.

Lemma hashes_lm_set_notin l t : ~ In (thash t) (hashes l) -> lm_set l t = l ++ [t].
Proof.
  induction l as [|x l IH]; simpl; intro H; [reflexivity|].
  destruct (N.eqb_spec (thash x) (thash t)) as [E|E]; [exfalso; apply H; auto|].
  rewrite IH; auto.
Qed.

Lemma hashes_lm_set_in l t : In (thash t) (hashes l) -> hashes (lm_set l t) = hashes l.
Proof.
  induction l as [|x l IH]; simpl; intro H; [tauto|].
  destruct (N.eqb_spec (thash x) (thash t)) as [E|E]; simpl; [congruence|].
  destruct H as [H|H]; [congruence|]. rewrite IH; auto.
Qed.

Lemma in_received_In s h : in_received s h = true <-> In h (hashes (received s)).
Proof. apply memN_In. Qed.
Lemma in_executed_In s h : in_executed s h = true <-> In h (exec_keys s).
Proof. apply memN_In. Qed.

Lemma existed_false s h : existed s h = false -> ~ In h (hashes (received s)) /\ ~ In h (exec_keys s).
Proof.
  unfold existed. intro H. apply orb_false_iff in H as [H1 H2].
  split; [rewrite <- in_received_In | rewrite <- in_executed_In]; congruence.
Qed.

Lemma push_fresh lim s t :
  ~ In (thash t) (hashes (received s)) ->
  push lim s t = s \/
  (N.of_nat (length (received s)) < lim /\
   push lim s t = mkPool (received s ++ [t]) (executed s) (evicted s)).
Proof.
  intro H. unfold push. destruct (N.ltb_spec (N.of_nat (length (received s))) lim); [|left; reflexivity].
  right. split; auto. rewrite hashes_lm_set_notin; auto.
Qed.

Lemma NoDup_snoc {A} (l : list A) x : NoDup l -> ~ In x l -> NoDup (l ++ [x]).
Proof.
  induction l as [|y l IH]; simpl; intros Hd Hn.
  - constructor; [intros []|constructor].
  - inversion Hd; subst. constructor.
    + intro Hi. apply in_app_or in Hi as [Hi|[Hi|[]]]; [tauto|]. apply Hn. auto.
    + apply IH; auto.
Qed.

Lemma add_inv lim s t : inv s -> inv (fst (add lim s t)).
Proof.
  intros [Hd Hx]. unfold add. destruct (existed s (thash t)) eqn:E; simpl; [split; auto|].
  apply existed_false in E as [Er Ee].
  destruct (push_fresh lim s t Er) as [->|[_ ->]]; [split; auto|].
  split; unfold hashes, exec_keys in *; simpl.
  - rewrite map_app. simpl. apply NoDup_snoc; auto.
  - intros h Hh. rewrite map_app in Hh. apply in_app_or in Hh as [Hh|[<-|[]]]; auto.
Qed.

Lemma del_key_keys h e k : In k (map fst (del_key h e)) <-> In k (map fst e) /\ k <> h.
Proof.
  unfold del_key. split.
  - intro H. apply in_map_filter in H as [x [Hx [E Hp]]]. subst. split; [apply in_map; auto|].
    apply negb_true_iff in Hp. apply N.eqb_neq in Hp. exact Hp.
  - intros [H Hn]. apply in_map_iff in H as [x [E Hx]]. apply in_map_iff. exists x. split; auto.
    apply filter_In. split; auto. apply negb_true_iff. apply N.eqb_neq. congruence.
Qed.

Lemma put_exec_keys e t k : In k (map fst (put_exec e t)) <-> k = thash t \/ In k (map fst e).
Proof.
  unfold put_exec. simpl. rewrite del_key_keys. split.
  - intros [H|[H _]]; auto.
  - intros [H|H]; auto. destruct (N.eq_dec k (thash t)); auto.
Qed.

Lemma fold_put_keys txs e k :
  In k (map fst (fold_left put_exec txs e)) <-> In k (hashes txs) \/ In k (map fst e).
Proof.
  revert e; induction txs as [|t txs IH]; intro e; simpl; [tauto|].
  rewrite IH, put_exec_keys. intuition.
Qed.

Lemma mark_inv s txs ev : inv s -> inv (mark_executed s txs ev).
Proof.
  intros [Hd Hx]. split; unfold mark_executed, hashes, exec_keys in *; simpl.
  - apply NoDup_map_filter. exact Hd.
  - intros h Hh. apply in_map_filter in Hh as [x [Hxin [E Hp]]]. subst.
    apply negb_true_iff in Hp. apply memN_false in Hp.
    intro Hk. apply fold_put_keys in Hk as [Hk|Hk].
    + apply Hp. apply in_or_app. left. exact Hk.
    + apply (Hx (thash x)); auto. apply in_map. exact Hxin.
Qed.

Lemma unmark1_inv lim s t : inv s -> inv (unmark1 lim s t).
Proof.
  intros [Hd Hx]. unfold unmark1. apply add_inv. split; simpl; auto.
  intros h Hh Hk. unfold exec_keys in Hk. simpl in Hk. apply del_key_keys in Hk as [Hk _].
  apply (Hx h); auto.
Qed.

Lemma fold_unmark1_inv lim txs s : inv s -> inv (fold_left (unmark1 lim) txs s).
Proof. revert s; induction txs; simpl; intros; auto. apply IHtxs. apply unmark1_inv. auto. Qed.

Lemma unmark_inv lim s txs ev : inv s -> inv (unmark lim s txs ev).
Proof.
  intro H. unfold unmark. destruct txs as [|t txs]; auto.
  apply fold_unmark1_inv. destruct H as [Hd Hx]. split; auto.
Qed.

Lemma expire_inv s hs : inv s -> inv (expire s hs).
Proof.
  intros [Hd Hx]. split; unfold expire, hashes, exec_keys in *; simpl.
  - apply NoDup_map_filter. exact Hd.
  - intros h Hh. apply in_map_filter in Hh as [x [Hxin [E _]]]. subst.
    apply Hx. apply in_map. exact Hxin.
Qed.

Lemma step_inv lim s o : inv s -> inv (step lim s o).
Proof.
  destruct o; simpl; intro H; auto using add_inv, mark_inv, unmark_inv, expire_inv.
Qed.

Lemma run_inv lim ops s : inv s -> inv (run lim s ops).
Proof. unfold run. revert s; induction ops; simpl; intros; auto. apply IHops. apply step_inv. auto. Qed.

Lemma disjoint_all_histories lim ops :
  let s := run lim empty ops in
  NoDup (hashes (received s)) /\ forall t, In t (received s) -> ~ In (thash t) (exec_keys s).
Proof.
  destruct (run_inv lim ops empty inv_empty) as [Hd Hx]. split; auto.
  intros t Ht. apply Hx. apply in_map. exact Ht.
Qed.

(* ---------- executed transactions are refused ---------- *)
Lemma no_readmit lim s t : In (thash t) (exec_keys s) -> add lim s t = (s, AErrExist).
Proof.
  intro H. unfold add, existed. apply in_executed_In in H. rewrite H. rewrite orb_true_r. reflexivity.
Qed.

Lemma marked_is_executed s txs ev t : In t txs -> In (thash t) (exec_keys (mark_executed s txs ev)).
Proof.
  intro H. unfold mark_executed, exec_keys. simpl. apply fold_put_keys. left. apply in_map. exact H.
Qed.

Lemma marked_not_pending s txs ev t : In t txs -> ~ In (thash t) (hashes (received (mark_executed s txs ev))).
Proof.
  intros H Hi. unfold mark_executed in Hi. simpl in Hi. apply in_map_filter in Hi as [x [_ [E Hp]]].
  apply negb_true_iff in Hp. apply memN_false in Hp. apply Hp. apply in_or_app. left.
  rewrite E. apply in_map. exact H.
Qed.

(* executed stays executed (and refused) until an unmark names the hash *)
Definition unmarks (o : op) (h : N) : Prop :=
  match o with OUnmark txs _ => In h (hashes txs) | _ => False end.

Lemma unmark1_keeps lim s t h : thash t <> h -> In h (exec_keys s) -> In h (exec_keys (unmark1 lim s t)).
Proof.
  intros Hn H. unfold unmark1, add. simpl.
  match goal with |- context [existed ?p ?k] => destruct (existed p k) end; simpl.
  - unfold exec_keys. simpl. apply del_key_keys. split; auto.
  - unfold push. simpl. match goal with |- context [if ?c then _ else _] => destruct c end;
      unfold exec_keys; simpl; apply del_key_keys; split; auto.
Qed.

Lemma fold_unmark1_keeps lim txs s h :
  ~ In h (hashes txs) -> In h (exec_keys s) -> In h (exec_keys (fold_left (unmark1 lim) txs s)).
Proof.
  revert s; induction txs as [|t txs IH]; simpl; intros s Hn H; auto.
  apply IH; [tauto|]. apply unmark1_keeps; auto.
Qed.

Lemma step_keeps_executed lim s o h :
  ~ unmarks o h -> In h (exec_keys s) -> In h (exec_keys (step lim s o)).
Proof.
  destruct o as [t|txs ev|txs ev| |h'|hs]; simpl; intros Hn H; auto.
  - unfold add. destruct (existed s (thash t)); simpl; auto.
    unfold push. destruct (_ <? _); auto.
  - unfold mark_executed, exec_keys. simpl. apply fold_put_keys. right. exact H.
  - unfold unmark. destruct txs as [|t txs]; auto.
    apply fold_unmark1_keeps; auto.
Qed.

Lemma executed_until_unmarked lim ops s h :
  (forall o, In o ops -> ~ unmarks o h) -> In h (exec_keys s) -> In h (exec_keys (run lim s ops)).
Proof.
  unfold run. revert s; induction ops as [|o ops IH]; simpl; intros s Hn H; auto.
  apply IH; [intros; apply Hn; auto|]. apply step_keeps_executed; auto.
Qed.

(* ---------- unmark: pending again ---------- *)
Lemma unmark1_received_grows lim s t h :
  In h (hashes (received s)) -> In h (hashes (received (unmark1 lim s t))).
Proof.
  intro H. unfold unmark1, add. simpl.
  match goal with |- context [existed ?p ?k] => destruct (existed p k) eqn:E end; simpl; auto.
  apply existed_false in E as [Er _]. simpl in Er.
  match goal with |- context [push lim ?p t] => destruct (push_fresh lim p t Er) as [->|[_ ->]] end; simpl; auto.
  unfold hashes. rewrite map_app. apply in_or_app. left. exact H.
Qed.

Lemma unmark1_len lim s t :
  (length (received (unmark1 lim s t)) <= S (length (received s)))%nat.
Proof.
  unfold unmark1, add. simpl.
  match goal with |- context [existed ?p ?k] => destruct (existed p k) eqn:E end; simpl; auto.
  apply existed_false in E as [Er _]. simpl in Er.
  match goal with |- context [push lim ?p t] => destruct (push_fresh lim p t Er) as [->|[_ ->]] end; simpl; auto.
  rewrite app_length. simpl. lia.
Qed.

Lemma unmark1_exec_shrinks lim s t h : In h (exec_keys (unmark1 lim s t)) -> In h (exec_keys s) /\ h <> thash t.
Proof.
  unfold unmark1, add. simpl.
  match goal with |- context [existed ?p ?k] => destruct (existed p k) end; simpl.
  - unfold exec_keys. simpl. apply del_key_keys.
  - unfold push. simpl. match goal with |- context [if ?c then _ else _] => destruct c end;
      unfold exec_keys; simpl; apply del_key_keys.
Qed.

Lemma unmark1_pending lim s t :
  N.of_nat (length (received s)) < lim ->
  In (thash t) (hashes (received (unmark1 lim s t))).
Proof.
  intro Hl. unfold unmark1, add. simpl.
  match goal with |- context [existed ?p ?k] => destruct (existed p k) eqn:E end; simpl.
  - unfold existed in E. apply orb_true_iff in E as [E|E].
    + apply in_received_In in E. exact E.
    + apply in_executed_In in E. unfold exec_keys in E. simpl in E. apply del_key_keys in E. tauto.
  - apply existed_false in E as [Er _]. simpl in Er.
    match goal with |- context [push lim ?p t] => destruct (push_fresh lim p t Er) as [Hp|[_ ->]] end.
    + exfalso. unfold push in Hp. simpl in Hp. apply N.ltb_lt in Hl. rewrite Hl in Hp.
      apply (f_equal received) in Hp. simpl in Hp. rewrite hashes_lm_set_notin in Hp by exact Er.
      apply (f_equal (@length tx)) in Hp. rewrite app_length in Hp. simpl in Hp. lia.
    + simpl. unfold hashes. rewrite map_app. apply in_or_app. right. simpl. auto.
Qed.

Lemma fold_unmark1_pending lim txs s t :
  In t txs -> N.of_nat (length (received s) + length txs) <= lim ->
  let s' := fold_left (unmark1 lim) txs s in
  In (thash t) (hashes (received s')) /\ ~ In (thash t) (exec_keys s').
Proof.
  revert s; induction txs as [|x txs IH]; simpl; intros s Hin Hl; [tauto|].
  assert (Hgrow : forall l s0 h, In h (hashes (received s0)) ->
                                 In h (hashes (received (fold_left (unmark1 lim) l s0)))).
  { induction l; simpl; intros; auto. apply IHl. apply unmark1_received_grows. auto. }
  assert (Hshr : forall l s0 h, ~ In h (exec_keys s0) ->
                                ~ In h (exec_keys (fold_left (unmark1 lim) l s0))).
  { induction l; simpl; intros; auto. apply IHl. intro Hk. apply unmark1_exec_shrinks in Hk. tauto. }
  destruct Hin as [->|Hin].
  - split.
    + apply Hgrow. apply unmark1_pending. lia.
    + apply Hshr. intro Hk. apply unmark1_exec_shrinks in Hk. tauto.
  - apply IH; auto. pose proof (unmark1_len lim s x). lia.
Qed.

Lemma unmark_pending lim s txs ev t :
  In t txs -> N.of_nat (length (received s) + length txs) <= lim ->
  let s' := unmark lim s txs ev in
  In (thash t) (hashes (received s')) /\ ~ In (thash t) (exec_keys s').
Proof.
  intros Hin Hl. unfold unmark. destruct txs as [|x txs]; [destruct Hin|].
  apply fold_unmark1_pending; auto.
Qed.

(* at the capacity bound the re-added transaction is dropped: neither pending nor executed *)
Lemma unmark_full_lost :
  let t := mkTx 7 1 0 0 in let a := mkTx 9 2 0 0 in
  let s := run 1 empty [OAdd t; OMark [t] []; OAdd a] in
  let s' := step 1 s (OUnmark [t] []) in
  In (thash t) (exec_keys s) /\ ~ In (thash t) (hashes (received s')) /\ ~ In (thash t) (exec_keys s').
Proof. vm_compute. intuition; discriminate. Qed.

(* ---------- Less ---------- *)
Definition order_ok (f : flags) : bool := p023 f || p021 f || negb (p016 f).

Ltac cmp1 :=
  match goal with
  | H : context [N.eqb ?a ?b] |- _ => destruct (N.eqb_spec a b)
  | |- context [N.eqb ?a ?b] => destruct (N.eqb_spec a b)
  | H : context [N.ltb ?a ?b] |- _ => destruct (N.ltb_spec a b)
  | |- context [N.ltb ?a ?b] => destruct (N.ltb_spec a b)
  end.
Ltac cmp := repeat (cbn [andb orb negb] in *; try discriminate; cmp1);
            cbn [andb orb negb] in *; try discriminate; try reflexivity; try lia.

Lemma less_asym f a b : less f a b = true -> less f b a = false.
Proof.
  destruct a as [ha sa na ra], b as [hb sb nb rb], f as [[] q [] []]; unfold less; cbn; intro H; cmp.
Qed.

Lemma less_trans f a b c : order_ok f = true -> less f a b = true -> less f b c = true -> less f a c = true.
Proof.
  destruct a as [ha sa na ra], b as [hb sb nb rb], c as [hc sc nc rc], f as [[] q [] []];
    unfold order_ok, less; cbn; intros Ho H1 H2; try discriminate; cmp.
Qed.

Lemma less_same_src f a b :
  p016 f || p021 f || p023 f = true -> trid a = 0 -> trid b = 0 -> tsrc a = tsrc b ->
  less f b a = false -> tnonce a <= tnonce b.
Proof.
  destruct a as [ha sa na ra], b as [hb sb nb rb], f as [[] q [] []];
    unfold less; cbn; intros Ho Ha Hb Hs H; subst; try discriminate; cmp.
Qed.

(* Less cannot panic on two entries of a pending list (distinct hashes) *)
Lemma less_no_panic f a b : thash a <> thash b -> less_panics f a b = false.
Proof.
  intro H. unfold less_panics. apply N.eqb_neq in H. rewrite H. rewrite andb_false_r. reflexivity.
Qed.

Definition sorted_by (f : flags) (l : list tx) : Prop :=
  StronglySorted (fun a b => less f b a = false) l.

Lemma insert_perm f t l : Permutation (t :: l) (insert f t l).
Proof.
  induction l as [|x l IH]; simpl; auto.
  destruct (less f t x); auto.
  eapply perm_trans; [apply perm_swap|]. constructor. exact IH.
Qed.

Lemma sort_perm f l : Permutation l (sort f l).
Proof.
  unfold sort. induction l as [|x l IH]; simpl; auto.
  eapply perm_trans; [|apply insert_perm]. constructor. exact IH.
Qed.

Lemma insert_sorted f t l : order_ok f = true -> sorted_by f l -> sorted_by f (insert f t l).
Proof.
  intros Ho. unfold sorted_by. induction 1 as [|x l Hs IH Hf]; simpl.
  - constructor; constructor.
  - destruct (less f t x) eqn:E.
    + constructor; [constructor; auto|]. constructor; [apply less_asym; exact E|].
      rewrite Forall_forall in *. intros b Hb. specialize (Hf b Hb).
      destruct (less f b t) eqn:E2; auto.
      rewrite (less_trans f b t x Ho E2 E) in Hf. discriminate.
    + constructor; auto.
      eapply Permutation_Forall; [apply insert_perm|]. constructor; auto.
Qed.

Lemma sort_sorted f l : order_ok f = true -> sorted_by f (sort f l).
Proof.
  intro Ho. unfold sort. induction l; simpl; [constructor|]. apply insert_sorted; auto.
Qed.

(* ---------- the nonce walk ---------- *)
Lemma walk_subseq st cap l : forall nm n, subseq (walk st cap l nm n) l.
Proof.
  induction l as [|t r IH]; intros nm n; simpl; [constructor|].
  destruct (trid t =? 0).
  - destruct (_ <? tnonce t); [constructor; apply IH|].
    apply ss_take. destruct (cap <=? n + 1); [apply subseq_nil_l | apply IH].
  - apply ss_take. destruct (cap <=? n + 1); [apply subseq_nil_l | apply IH].
Qed.

Lemma pack_sorted_subseq st cap l : subseq (pack_sorted st cap l) l.
Proof. unfold pack_sorted. eapply subseq_trans; [apply subseq_firstn | apply walk_subseq]. Qed.

(* the sender's next expected nonce after a prefix of the packed list has been placed:
   state nonce plus the in-sequence transactions of that sender placed so far *)
Definition nstep (e : N -> N) (t : tx) : N -> N :=
  if (trid t =? 0) && (tnonce t =? e (tsrc t))
  then fun a => if a =? tsrc t then e a + 1 else e a
  else e.

Definition expected (st : N -> N) (pre : list tx) : N -> N := fold_left nstep pre st.

Lemma nstep_ext e e' t : (forall a, e a = e' a) -> forall a, nstep e t a = nstep e' t a.
Proof.
  intros H a. unfold nstep. rewrite (H (tsrc t)).
  destruct ((trid t =? 0) && (tnonce t =? e' (tsrc t))); auto.
  destruct (a =? tsrc t); auto. rewrite H. reflexivity.
Qed.

Lemma expected_ext l : forall e e', (forall a, e a = e' a) -> forall a, fold_left nstep l e a = fold_left nstep l e' a.
Proof.
  induction l as [|t l IH]; simpl; intros e e' H a; auto.
  apply IH. apply nstep_ext. exact H.
Qed.

Lemma cur_seed st nm k a :
  cur st (match nm_get nm k with Some _ => nm | None => (k, cur st nm k) :: nm end) a = cur st nm a.
Proof.
  destruct (nm_get nm k) eqn:E; auto.
  unfold cur at 1. simpl. destruct (N.eqb_spec k a); auto. subst. reflexivity.
Qed.

Lemma cur_cons st k v nm a : cur st ((k, v) :: nm) a = if k =? a then v else cur st nm a.
Proof. unfold cur. simpl. destruct (k =? a); reflexivity. Qed.

Lemma succ64_le n : succ64 n <= n + 1.
Proof. unfold succ64. apply N.mod_le. unfold two64. lia. Qed.

Lemma succ64_small n : n + 1 < two64 -> succ64 n = n + 1.
Proof. intro H. unfold succ64. apply N.mod_small. exact H. Qed.

(* [e] = the mathematical expected nonce (state nonce + in-sequence transactions placed so far); the
   code's uint64 counter never exceeds it (it falls behind only by wrapping around at 2^64) *)
Lemma walk_not_ahead st cap l : forall nm n e,
  (forall a, cur st nm a <= e a) ->
  forall pre t post, walk st cap l nm n = pre ++ t :: post -> trid t = 0 ->
  tnonce t <= fold_left nstep pre e (tsrc t).
Proof.
  induction l as [|x r IH]; intros nm n e He pre t post Hw Ht; simpl in Hw.
  - destruct pre; discriminate.
  - destruct (N.eqb_spec (trid x) 0) as [Hx|Hx].
    + set (nm1 := match nm_get nm (tsrc x) with Some _ => nm | None => (tsrc x, cur st nm (tsrc x)) :: nm end) in *.
      assert (H1 : forall a, cur st nm1 a <= e a) by (intro a; unfold nm1; rewrite cur_seed; apply He).
      destruct (N.ltb_spec (cur st nm (tsrc x)) (tnonce x)) as [Hhi|Hlo].
      * eapply IH; eauto.
      * destruct pre as [|y pre]; simpl in Hw; inversion Hw; subst.
        -- simpl. specialize (He (tsrc t)). lia.
        -- simpl. destruct (cap <=? n + 1); [destruct pre; discriminate|].
           eapply IH; [|eassumption|exact Ht].
           intro a. unfold nstep. rewrite Hx. simpl.
           pose proof (He (tsrc y)) as Hy. pose proof (H1 a) as Ha.
           destruct (N.eqb_spec (cur st nm (tsrc y)) (tnonce y)) as [Eq|Ne].
           ++ rewrite cur_cons.
              destruct (N.eqb_spec (tsrc y) a) as [Ea|Ea].
              ** subst a. pose proof (succ64_le (cur st nm (tsrc y))) as Hs.
                 destruct (N.eqb_spec (tnonce y) (e (tsrc y))); [rewrite N.eqb_refl|]; lia.
              ** destruct (tnonce y =? e (tsrc y)); [|exact Ha].
                 destruct (N.eqb_spec a (tsrc y)); [congruence | exact Ha].
           ++ destruct (tnonce y =? e (tsrc y)); [|exact Ha].
              destruct (N.eqb_spec a (tsrc y)); [subst a|]; lia.
    + destruct pre as [|y pre]; simpl in Hw; inversion Hw; subst; [contradiction|].
      simpl. destruct (cap <=? n + 1); [destruct pre; discriminate|].
      eapply IH; [|eassumption|exact Ht].
      intro a. unfold nstep. apply N.eqb_neq in Hx. rewrite Hx. simpl. apply He.
Qed.

Definition not_ahead (st : N -> N) (p : list tx) : Prop :=
  forall pre t post, p = pre ++ t :: post -> trid t = 0 -> tnonce t <= expected st pre (tsrc t).

(* same-sender nonce-checked transactions are in ascending nonce order *)
Definition asc_rel (a b : tx) : Prop :=
  trid a = 0 -> trid b = 0 -> tsrc a = tsrc b -> tnonce a <= tnonce b.

Lemma pack_sorted_not_ahead st cap l : not_ahead st (pack_sorted st cap l).
Proof.
  intros pre t post Hp Ht. unfold pack_sorted in Hp.
  pose proof (firstn_skipn (N.to_nat cap) (walk st cap l [] 0)) as Hs. rewrite Hp in Hs.
  rewrite <- app_assoc in Hs. simpl in Hs. symmetry in Hs.
  unfold expected. eapply (walk_not_ahead st cap l [] 0 st); eauto.
  intro a. unfold cur. simpl. lia.
Qed.

Lemma pack_sorted_ok f st cap s l :
  inv s -> Permutation (received s) l -> sorted_by f l -> p016 f || p021 f || p023 f = true ->
  let p := pack_sorted st cap l in
  NoDup (hashes p) /\ N.of_nat (length p) <= cap /\ incl p (received s) /\
  (forall t, In t p -> ~ In (thash t) (exec_keys s)) /\
  StronglySorted asc_rel p /\ not_ahead st p.
Proof.
  intros [Hd Hx] Hperm Hs Hf p.
  pose proof (pack_sorted_subseq st cap l) as Hsub. fold p in Hsub.
  assert (Hin : incl p (received s)).
  { intros t Ht. eapply Permutation_in; [apply Permutation_sym; exact Hperm|]. eapply subseq_In; eauto. }
  repeat split.
  - eapply subseq_NoDup; [apply subseq_map; exact Hsub|].
    eapply Permutation_NoDup; [apply Permutation_map; exact Hperm|]. exact Hd.
  - unfold p, pack_sorted. pose proof (firstn_le_length (N.to_nat cap) (walk st cap l [] 0)). lia.
  - exact Hin.
  - intros t Ht. apply Hx. apply in_map. apply Hin. exact Ht.
  - eapply subseq_StronglySorted; [exact Hsub|].
    eapply StronglySorted_impl; [|exact Hs]. intros a b Hab Ha Hb Hsrc. eapply less_same_src; eauto.
  - apply pack_sorted_not_ahead.
Qed.

(* PackForCast of the executable model (insertion sort) *)
Lemma pack_ok f st cap s :
  inv s -> p018 f = true -> p023 f || p021 f = true ->
  let p := pack f st cap s in
  NoDup (hashes p) /\ N.of_nat (length p) <= cap /\ incl p (received s) /\
  (forall t, In t p -> ~ In (thash t) (exec_keys s)) /\
  StronglySorted asc_rel p /\ not_ahead st p.
Proof.
  intros Hi H18 Hf. unfold pack. rewrite H18.
  destruct (received s) as [|x r] eqn:E.
  - simpl. split; [constructor|]. split; [lia|]. split; [intros ? []|]. split; [intros ? []|].
    split; [constructor|]. intros pre t post Hp. destruct pre; discriminate.
  - rewrite <- E. apply (pack_sorted_ok f st cap s (sort f (received s))); auto.
    + apply sort_perm.
    + apply sort_sorted. unfold order_ok. destruct (p023 f), (p021 f); auto; discriminate.
    + destruct (p023 f), (p021 f), (p016 f); auto; discriminate.
Qed.

(* without the nonce check (before proposal 018) only the structural part holds *)
Lemma pack_nocheck_ok f st cap s :
  inv s -> p018 f = false ->
  let p := pack f st cap s in
  NoDup (hashes p) /\ N.of_nat (length p) <= cap /\ incl p (received s) /\
  (forall t, In t p -> ~ In (thash t) (exec_keys s)).
Proof.
  intros [Hd Hx] H18. unfold pack. rewrite H18.
  assert (Hsub : subseq (firstn (N.to_nat cap) (received s)) (received s)) by apply subseq_firstn.
  destruct (received s) as [|x r] eqn:E.
  - simpl. split; [constructor|]. split; [lia|]. split; intros ? [].
  - rewrite <- E in *. repeat split.
    + eapply subseq_NoDup; [apply subseq_map; exact Hsub | exact Hd].
    + pose proof (firstn_le_length (N.to_nat cap) (received s)). lia.
    + intros t Ht. eapply subseq_In; eauto.
    + intros t Ht. apply Hx. apply in_map. eapply subseq_In; eauto.
Qed.

(* ---------- packing: structural part for every flag setting, and completeness ---------- *)
Lemma pack_incl f st cap s : incl (pack f st cap s) (received s).
Proof.
  unfold pack. destruct (received s) as [|x r] eqn:E; [intros ? []|]. rewrite <- E.
  destruct (p018 f).
  - intros t Ht. eapply Permutation_in; [apply Permutation_sym; apply (sort_perm f)|].
    eapply subseq_In; [apply pack_sorted_subseq | exact Ht].
  - intros t Ht. eapply subseq_In; [apply subseq_firstn | exact Ht].
Qed.

Lemma subseq_length {A} (a b : list A) : subseq a b -> (length a <= length b)%nat.
Proof. induction 1; simpl; lia. Qed.

(* a transaction that is not ahead of the state nonce (or is not nonce-checked) is kept by the walk as
   long as the cap is not reached *)
Lemma walk_keeps st cap t : forall l nm n,
  (forall x, In x l -> tnonce x + 1 < two64) ->
  (forall a, st a <= cur st nm a) -> N.of_nat (length l) + n <= cap -> In t l ->
  trid t <> 0 \/ tnonce t <= st (tsrc t) -> In t (walk st cap l nm n).
Proof.
  induction l as [|x r IH]; intros nm n Hw Hm Hc Hin Hok; [destruct Hin|].
  assert (Hwr : forall y, In y r -> tnonce y + 1 < two64) by (intros; apply Hw; right; auto).
  pose proof (Hw x (or_introl eq_refl)) as Hwx.
  assert (Hrest : forall nm', (forall a, st a <= cur st nm' a) -> In t r ->
                  In t (if cap <=? n + 1 then [] else walk st cap r nm' (n + 1))).
  { intros nm' Hm' Hr. destruct (N.leb_spec cap (n + 1)) as [Hle|Hgt].
    - exfalso. destruct r; [destruct Hr|]. simpl length in Hc. lia.
    - apply IH; auto. simpl length in Hc. lia. }
  simpl. destruct (N.eqb_spec (trid x) 0) as [Hx|Hx].
  - set (nm1 := match nm_get nm (tsrc x) with Some _ => nm | None => (tsrc x, cur st nm (tsrc x)) :: nm end).
    assert (H1 : forall a, st a <= cur st nm1 a) by (intro a; unfold nm1; rewrite cur_seed; apply Hm).
    destruct (N.ltb_spec (cur st nm (tsrc x)) (tnonce x)) as [Hhi|Hlo].
    + destruct Hin as [->|Hin].
      * exfalso. destruct Hok as [Hok|Hok]; [contradiction|]. specialize (Hm (tsrc t)). lia.
      * apply IH; auto. simpl length in Hc. lia.
    + destruct Hin as [->|Hin]; [left; reflexivity|]. right. apply Hrest; auto.
      destruct (N.eqb_spec (cur st nm (tsrc x)) (tnonce x)) as [Eq|Ne]; [|exact H1].
      intro a. rewrite cur_cons. destruct (N.eqb_spec (tsrc x) a) as [<-|Na]; [|apply H1].
      specialize (Hm (tsrc x)). rewrite succ64_small; lia.
  - destruct Hin as [->|Hin]; [left; reflexivity|]. right. apply Hrest; auto.
Qed.

Lemma pack_sorted_complete st cap l t :
  (forall x, In x l -> tnonce x + 1 < two64) ->
  N.of_nat (length l) <= cap -> In t l -> trid t <> 0 \/ tnonce t <= st (tsrc t) ->
  In t (pack_sorted st cap l).
Proof.
  intros Hw Hc Hin Hok. unfold pack_sorted. rewrite firstn_all2.
  - apply walk_keeps; auto; [intro a; unfold cur; simpl; lia | lia].
  - pose proof (subseq_length _ _ (walk_subseq st cap l [] 0)). lia.
Qed.

Lemma pack_complete f st cap s t :
  (forall x, In x (received s) -> tnonce x + 1 < two64) ->
  N.of_nat (length (received s)) <= cap -> In t (received s) ->
  trid t <> 0 \/ tnonce t <= st (tsrc t) -> In t (pack f st cap s).
Proof.
  intros Hw Hc Hin Hok. unfold pack. destruct (received s) as [|x r] eqn:E; [destruct Hin|]. rewrite <- E in *.
  destruct (p018 f).
  - apply pack_sorted_complete; auto.
    + intros y Hy. apply Hw. eapply Permutation_in; [apply Permutation_sym; apply sort_perm | exact Hy].
    + rewrite <- (Permutation_length (sort_perm f (received s))). exact Hc.
    + eapply Permutation_in; [apply sort_perm | exact Hin].
  - rewrite firstn_all2; [exact Hin | lia].
Qed.

(* at most once, over histories: after a block containing t is marked executed, and until an unmark names
   its hash, no transaction with that hash is admitted or packed -- for every flag setting *)
Lemma at_most_once lim ops1 txs ev ops2 t :
  In t txs -> (forall o, In o ops2 -> ~ unmarks o (thash t)) ->
  let s := run lim empty (ops1 ++ OMark txs ev :: ops2) in
  (forall t', thash t' = thash t -> add lim s t' = (s, AErrExist)) /\
  (forall f st cap t', In t' (pack f st cap s) -> thash t' <> thash t).
Proof.
  intros Hin Hno s.
  assert (He : In (thash t) (exec_keys s)).
  { unfold s, run. rewrite fold_left_app. simpl fold_left.
    apply (executed_until_unmarked lim ops2); auto. apply marked_is_executed. exact Hin. }
  assert (Hi : inv s) by (apply run_inv; apply inv_empty).
  split.
  - intros t' E. apply no_readmit. rewrite E. exact He.
  - intros f st cap t' Hp E. apply pack_incl in Hp. destruct Hi as [_ Hx].
    apply (Hx (thash t')); [apply in_map; exact Hp | rewrite E; exact He].
Qed.

Lemma reorg_repackable lim s txs ev t f st cap :
  In t txs -> N.of_nat (length (received s) + length txs) <= lim ->
  let s' := unmark lim s txs ev in
  exists t', In t' (received s') /\ thash t' = thash t /\ ~ In (thash t) (exec_keys s') /\
    ((forall x, In x (received s') -> tnonce x + 1 < two64) ->
     N.of_nat (length (received s')) <= cap -> trid t' <> 0 \/ tnonce t' <= st (tsrc t') ->
     In t' (pack f st cap s')).
Proof.
  intros Hin Hroom s'. destruct (unmark_pending lim s txs ev t Hin Hroom) as [Hp He]. fold s' in Hp, He.
  apply in_map_iff in Hp as [t' [E Ht']]. exists t'. repeat split; auto.
  intros Hw Hc Hok. apply pack_complete; auto.
Qed.

(* ---------- fine-grained semantics ---------- *)
Lemma check_push_is_add lim s tid t :
  fstep lim (fstep lim (mkF s []) (FCheck tid t)) (FPush tid) = mkF (fst (add lim s t)) [].
Proof.
  unfold fstep at 2. simpl. unfold fstep. simpl. rewrite N.eqb_refl. simpl.
  unfold add. destruct (existed s (thash t)); reflexivity.
Qed.

Lemma collapse_run lim : forall n sched ops s,
  (length sched <= n)%nat -> collapse sched = Some ops ->
  frun lim (mkF s []) sched = mkF (run lim s ops) [].
Proof.
  induction n as [|n IH]; intros sched ops s Hl Hc.
  - destruct sched; [|simpl in Hl; lia]. simpl in Hc. inversion Hc. reflexivity.
  - destruct sched as [|o sched]; [simpl in Hc; inversion Hc; reflexivity|].
    destruct o as [tid t|tid|o].
    + destruct sched as [|o2 sched]; [discriminate|].
      destruct o2 as [| tid' |]; try discriminate.
      simpl in Hc. destruct (N.eqb_spec tid tid') as [<-|]; [|discriminate].
      destruct (collapse sched) as [ops'|] eqn:Ec; [|discriminate]. simpl in Hc. inversion Hc; subst.
      unfold frun. simpl fold_left at 1.
      change (fold_left (fstep lim) sched (fstep lim (fstep lim (mkF s []) (FCheck tid t)) (FPush tid))
              = mkF (run lim s (OAdd t :: ops')) []).
      rewrite check_push_is_add.
      change (run lim s (OAdd t :: ops')) with (run lim (fst (add lim s t)) ops').
      apply (IH sched ops'); auto. simpl in Hl. lia.
    + discriminate.
    + simpl in Hc. destruct (collapse sched) as [ops'|] eqn:Ec; [|discriminate]. simpl in Hc.
      inversion Hc; subst. unfold frun. simpl fold_left.
      change (run lim s (o :: ops')) with (run lim (step lim s o) ops').
      apply (IH sched ops'); auto. simpl in Hl. lia.
Qed.

Lemma interleaved_atomic_inv lim sched ops :
  collapse sched = Some ops -> inv (fpool (frun lim (mkF empty []) sched)).
Proof.
  intro Hc. rewrite (collapse_run lim (length sched) sched ops empty (le_n _) Hc). simpl.
  apply run_inv. apply inv_empty.
Qed.

(* check ; mark-executed ; push: the executed transaction is pending again and gets packed although the
   sender's state nonce has moved past it (too-low nonces are kept by checkNonce) *)
Lemma race_witness :
  let t := mkTx 5 1 0 0 in
  let sched := [FCheck 1 t; FOp (OMark [t] []); FPush 1] in
  let s := fpool (frun 50000 (mkF empty []) sched) in
  In t (received s) /\ In (thash t) (exec_keys s) /\ ~ inv s /\
  In t (pack (mkFlags true true true true) (fun _ => 1) 200 s).
Proof.
  vm_compute. repeat split; auto.
  intros [_ H]. apply (H 5); auto.
Qed.

(* ---------- the locked fine-grained semantics: every schedule is linearizable ---------- *)
Lemma run_snoc lim s ops o : run lim s (ops ++ [o]) = step lim (run lim s ops) o.
Proof. unfold run. rewrite fold_left_app. reflexivity. Qed.

Lemma existed_expire s hs h : existed s h = false -> existed (expire s hs) h = false.
Proof.
  intro H. apply existed_false in H as [Hr He]. unfold existed. apply orb_false_iff. split.
  - apply memN_false. intro Hi. apply Hr. unfold expire in Hi. simpl in Hi.
    apply in_map_filter in Hi as [x [Hx [E _]]]. subst. apply in_map. exact Hx.
  - apply memN_false. exact He.
Qed.

Lemma push_is_add lim s t : existed s (thash t) = false -> push lim s t = fst (add lim s t).
Proof. intro H. unfold add. rewrite H. reflexivity. Qed.

(* the sub-steps compose to the whole methods *)
Lemma mark_split s txs ev : mark_remove (mark_write s txs ev) txs ev = mark_executed s txs ev.
Proof. reflexivity. Qed.

Lemma filter_all {A} (l : list A) : filter (fun _ => true) l = l.
Proof. induction l; simpl; congruence. Qed.

Lemma unmark_single lim s t : unmark lim s [t] [] = unmark1 lim s t.
Proof.
  unfold unmark. simpl. destruct s as [r e v]. simpl. rewrite filter_all. reflexivity.
Qed.

Lemma fold_unmark_single lim r : forall p,
  fold_left (fun s0 t0 => unmark lim s0 [t0] []) r p = fold_left (unmark1 lim) r p.
Proof. induction r as [|x r IH]; intro p; cbn [fold_left]; [reflexivity|]. rewrite unmark_single. apply IH. Qed.

Lemma unmark_split lim s t r ev :
  unmark lim s (t :: r) ev = fold_left (fun s0 t0 => unmark lim s0 [t0] []) r (unmark lim s [t] ev).
Proof. rewrite fold_unmark_single. reflexivity. Qed.

(* invariant: the pool is a sequentially reachable state, up to the record-write half of a MarkExecuted
   in flight *)
Definition lJ (lim : N) (s : lstate) : Prop :=
  exists ops0,
  match holder s with
  | None => lpool s = run lim empty ops0
  | Some (_, KAdd t b) =>
    lpool s = run lim empty ops0 /\ (b = false -> existed (run lim empty ops0) (thash t) = false)
  | Some (_, KMark txs ev) => lpool s = mark_write (run lim empty ops0) txs ev
  | Some (_, KUnmark _) => lpool s = run lim empty ops0
  end.

Lemma lstep_J lim s o : lJ lim s -> lJ lim (lstep lim s o).
Proof.
  intros [ops0 H]. destruct s as [p h]. unfold lJ in *. simpl in H.
  destruct o as [tid t|tid|tid txs ev|tid|tid txs ev|tid|o];
  destruct h as [[tid' [t' b'|txs' ev'|rest']]|]; simpl;
  try (exists ops0; exact H);
  try (destruct txs as [|t0 rest0]; exists ops0; exact H).
  - (* LCheck, free *)
    exists ops0. split; [exact H|]. rewrite <- H. auto.
  - (* LPush, KAdd *)
    destruct (tid =? tid'); [|exists ops0; exact H]. destruct H as [H Hb]. simpl. destruct b'.
    + exists ops0. exact H.
    + exists (ops0 ++ [OAdd t']). rewrite run_snoc. simpl. rewrite H. apply push_is_add. auto.
  - (* LMarkW, free *)
    exists ops0. rewrite H. reflexivity.
  - (* LMarkR, KMark *)
    destruct (tid =? tid'); [|exists ops0; exact H]. simpl.
    exists (ops0 ++ [OMark txs' ev']). rewrite run_snoc. simpl. rewrite H. reflexivity.
  - (* LUnmarkB, free *)
    destruct txs as [|t rest]; [exists ops0; exact H|]. simpl.
    exists (ops0 ++ [OUnmark [t] ev]). rewrite run_snoc. simpl step. rewrite <- H.
    destruct rest; reflexivity.
  - (* LUnmarkN, KUnmark *)
    destruct rest' as [|t rest]; [exists ops0; exact H|].
    destruct (tid =? tid'); [|exists ops0; exact H]. simpl.
    exists (ops0 ++ [OUnmark [t] []]). rewrite run_snoc. simpl step. rewrite <- H.
    destruct rest; reflexivity.
  - (* LOp, KAdd held *)
    destruct (needs_lock o) eqn:En; [exists ops0; exact H|]. simpl. destruct H as [H Hb].
    exists (ops0 ++ [o]). rewrite run_snoc, <- H. split; [reflexivity|].
    intro Eb. specialize (Hb Eb). rewrite <- H in Hb.
    destruct o; try discriminate; simpl; auto. apply existed_expire. exact Hb.
  - (* LOp, KMark held *)
    destruct (needs_lock o) eqn:En; [exists ops0; exact H|]. simpl.
    exists (ops0 ++ [o]). rewrite run_snoc, H.
    destruct o; try discriminate; reflexivity.
  - (* LOp, KUnmark held *)
    destruct (needs_lock o) eqn:En; [exists ops0; exact H|]. simpl.
    exists (ops0 ++ [o]). rewrite run_snoc, H. reflexivity.
  - (* LOp, free *)
    exists (ops0 ++ [o]). rewrite run_snoc, H. reflexivity.
Qed.

Lemma lrun_J lim sched : forall s, lJ lim s -> lJ lim (lrun lim s sched).
Proof.
  induction sched as [|o sched IH]; intros s H; simpl; auto. apply IH. apply lstep_J. exact H.
Qed.

Lemma locked_schedules lim sched :
  let s := lrun lim linit sched in
  (mark_idle s -> (exists ops, lpool s = run lim empty ops) /\ inv (lpool s)) /\
  NoDup (hashes (received (lpool s))) /\
  (forall h, In h (hashes (received (lpool s))) -> In h (exec_keys (lpool s)) ->
     exists tid txs ev, holder s = Some (tid, KMark txs ev) /\ In h (hashes txs)).
Proof.
  cbv zeta. assert (HJ : lJ lim (lrun lim linit sched)).
  { apply lrun_J. exists []. reflexivity. }
  destruct HJ as [ops0 H]. pose proof (run_inv lim ops0 empty inv_empty) as Hi.
  unfold mark_idle. destruct (lrun lim linit sched) as [p h]. simpl in *.
  assert (Hseq : p = run lim empty ops0 ->
                 ((exists ops, p = run lim empty ops) /\ inv p) /\ NoDup (hashes (received p)) /\
                 (forall x, In x (hashes (received p)) -> In x (exec_keys p) -> False)).
  { intro E. rewrite E. destruct Hi as [Hd Hx].
    split; [split; [eexists; reflexivity | split; assumption]|].
    split; [exact Hd|]. intros x Hp He. exact (Hx x Hp He). }
  destruct h as [[tid [t b|txs ev|rest]]|].
  - destruct H as [H _]. destruct (Hseq H) as [A [B C]]. split; [intros _; exact A|]. split; [exact B|].
    intros x Hp He. destruct (C x Hp He).
  - rewrite H. split; [intros []|]. destruct Hi as [Hd Hx]. split; [exact Hd|].
    intros x Hp He. exists tid, txs, ev. split; [reflexivity|].
    unfold mark_write, exec_keys in He. simpl in He. apply fold_put_keys in He as [He|He]; auto.
    destruct (Hx x Hp He).
  - destruct (Hseq H) as [A [B C]]. split; [intros _; exact A|]. split; [exact B|].
    intros x Hp He. destruct (C x Hp He).
  - destruct (Hseq H) as [A [B C]]. split; [intros _; exact A|]. split; [exact B|].
    intros x Hp He. destruct (C x Hp He).
Qed.

(* the lock turns check ; mark ; push into check ; (mark waits) ; push ; mark *)
Lemma race_schedule_locked :
  let t := mkTx 5 1 0 0 in
  let s := lpool (lrun 50000 linit [LCheck 1 t; LMarkW 2 [t] []; LMarkR 2; LPush 1; LMarkW 2 [t] []; LMarkR 2]) in
  received s = [] /\ In (thash t) (exec_keys s).
Proof. vm_compute. auto. Qed.

(* ---------- the chain lock: PackForCast never runs between the halves of a MarkExecuted ---------- *)
Lemma lstep_holder_chain lim s o tid :
  holder_chain (holder (lstep lim s o)) = Some tid ->
  holder_chain (holder s) = Some tid \/
  (exists txs ev, o = LMarkW tid txs ev) \/ (exists txs ev, o = LUnmarkB tid txs ev).
Proof.
  destruct s as [p h].
  destruct o as [t0 t|t0|t0 txs ev|t0|t0 txs ev|t0|o];
  destruct h as [[tid' [t' b'|txs' ev'|rest']]|]; simpl; intro H;
  try (left; exact H); try discriminate.
  - destruct (t0 =? tid'); simpl in H; [discriminate | discriminate].
  - inversion H; subst. right. left. eauto.
  - destruct (t0 =? tid'); simpl in H; [discriminate | left; exact H].
  - destruct txs as [|x r]; simpl in H; discriminate.
  - destruct txs as [|x r]; simpl in H; [left; exact H | left; exact H].
  - destruct txs as [|x r]; simpl in H; [left; exact H | left; exact H].
  - destruct txs as [|x r]; simpl in H; [discriminate|].
    destruct r; simpl in H; [discriminate|]. inversion H; subst. right. right. eauto.
  - destruct rest' as [|x r]; simpl in H; [left; exact H|].
    destruct (N.eqb_spec t0 tid') as [->|]; simpl in H; [|left; exact H].
    destruct r; simpl in H; [discriminate | left; exact H].
  - destruct (needs_lock o); simpl in H; [discriminate | discriminate].
  - destruct (needs_lock o); simpl in H; left; exact H.
  - destruct (needs_lock o); simpl in H; left; exact H.
Qed.

Definition cK (s : cstate) : Prop :=
  (forall tid, holder_chain (holder (ls s)) = Some tid -> cw s = Some tid) /\
  (cw s <> None -> cr s = []).

Lemma cstep_K lim s o : cK s -> cK (cstep lim s o).
Proof.
  intro HK. destruct o as [tid|tid|tid|tid|tid|o]; simpl.
  - destruct (cw s) eqn:Ew; [exact HK|]. destruct (cr s) eqn:Er; [|exact HK].
    destruct HK as [K1 K2]. split; simpl; auto. intros t Ht. specialize (K1 t Ht). congruence.
  - destruct (cw s) as [w|] eqn:Ew; [|exact HK].
    destruct (N.eqb_spec w tid) as [->|]; simpl; [|exact HK].
    destruct (holder_chain (holder (ls s))) as [h|] eqn:Eh; simpl.
    + destruct (N.eqb_spec h tid) as [->|Hn]; simpl; [exact HK|].
      exfalso. destruct HK as [K1 _]. specialize (K1 h Eh). congruence.
    + split; simpl; [intros t Ht; rewrite Eh in Ht; discriminate | congruence].
  - destruct (cw s) eqn:Ew; [exact HK|]. destruct HK as [K1 K2]. split; simpl; [|congruence].
    intros t Ht. specialize (K1 t Ht). congruence.
  - destruct HK as [K1 K2]. split; simpl; auto. intro Hw. rewrite (K2 Hw). reflexivity.
  - exact HK.
  - destruct (chain_ok s o) eqn:Eo; [|exact HK]. destruct HK as [K1 K2]. split; simpl; auto.
    intros t Ht. apply lstep_holder_chain in Ht as [Ht|[[txs [ev ->]]|[txs [ev ->]]]]; auto.
    + simpl in Eo. destruct (cw s) as [w|]; [|discriminate]. apply N.eqb_eq in Eo. congruence.
    + simpl in Eo. destruct (cw s) as [w|]; [|discriminate]. apply N.eqb_eq in Eo. congruence.
Qed.

Lemma crun_K lim sched : forall s, cK s -> cK (crun lim s sched).
Proof. induction sched; simpl; intros; auto. apply IHsched. apply cstep_K. auto. Qed.

Lemma cinit_K : cK cinit.
Proof. split; simpl; [discriminate | reflexivity]. Qed.

(* the chain-level steps only ever perform pool-level steps *)
Lemma crun_projects lim sched : forall s sched0,
  ls s = lrun lim linit sched0 -> exists sched', ls (crun lim s sched) = lrun lim linit sched'.
Proof.
  induction sched as [|o sched IH]; intros s sched0 H; simpl; [eauto|].
  destruct o as [tid|tid|tid|tid|tid|o]; simpl.
  - destruct (cw s), (cr s); eapply IH; eauto.
  - destruct (cw s); [|eapply IH; eauto]. destruct (_ && _); eapply IH; eauto.
  - destruct (cw s); eapply IH; eauto.
  - eapply IH; eauto.
  - eapply IH; eauto.
  - destruct (chain_ok s o); [|eapply IH; eauto].
    apply (IH _ (sched0 ++ [o])). simpl. unfold lrun. rewrite fold_left_app. simpl.
    fold (lrun lim linit sched0). rewrite <- H. reflexivity.
Qed.

Lemma readers_mark_idle lim sched :
  let s := crun lim cinit sched in cr s <> [] -> mark_idle (ls s).
Proof.
  cbv zeta. intro Hr. destruct (crun_K lim sched cinit cinit_K) as [K1 K2].
  unfold mark_idle. destruct (holder (ls (crun lim cinit sched))) as [[tid [t b|txs ev|rest]]|] eqn:Eh; auto.
  apply Hr. apply K2. rewrite (K1 tid); [discriminate | reflexivity].
Qed.

(* ---------- background expiry: the timed pool refines the untimed one ---------- *)
Lemma tstep_erase lim s o : tp (tstep lim s o) = step lim (tp s) (erase1 s o).
Proof. destruct o; reflexivity. Qed.

Lemma timed_refines lim tops : forall s, exists ops, tp (trun lim s tops) = run lim (tp s) ops.
Proof.
  induction tops as [|o tops IH]; intro s; simpl.
  - exists []. reflexivity.
  - destruct (IH (tstep lim s o)) as [ops H]. exists (erase1 s o :: ops).
    rewrite H. rewrite tstep_erase. reflexivity.
Qed.

Lemma timed_inv lim tops : inv (tp (trun lim (mkT empty []) tops)).
Proof.
  destruct (timed_refines lim tops (mkT empty [])) as [ops H]. rewrite H. apply run_inv. apply inv_empty.
Qed.

(* a pending transaction is never expired before its fifth tick, and is gone after five ticks without
   any other operation *)
Lemma expiry_example :
  let a := mkTx 11 1 0 0 in let b := mkTx 12 1 1 0 in
  let s4 := trun 10 (mkT empty []) [TOp (OAdd a); TTick; TOp (OAdd b); TTick; TTick; TTick] in
  let s5 := tstep 10 s4 TTick in
  received (tp s4) = [a; b] /\ received (tp s5) = [b].
Proof. vm_compute. auto. Qed.

Lemma pack_any_schedule lim sched f st cap :
  p018 f = true -> p023 f || p021 f = true ->
  let s := lrun lim linit sched in
  mark_idle s ->
  let p := pack f st cap (lpool s) in
  NoDup (hashes p) /\ N.of_nat (length p) <= cap /\ incl p (received (lpool s)) /\
  (forall t, In t p -> ~ In (thash t) (exec_keys (lpool s))) /\
  StronglySorted asc_rel p /\ not_ahead st p.
Proof.
  intros H18 Hf s Hidle. apply pack_ok; auto.
  apply (proj1 (locked_schedules lim sched)). exact Hidle.
Qed.

Lemma pack_chain_schedule lim sched f st cap :
  p018 f = true -> p023 f || p021 f = true ->
  let s := crun lim cinit sched in
  cr s <> [] ->
  let p := pack f st cap (lpool (ls s)) in
  NoDup (hashes p) /\ N.of_nat (length p) <= cap /\ incl p (received (lpool (ls s))) /\
  (forall t, In t p -> ~ In (thash t) (exec_keys (lpool (ls s)))) /\
  StronglySorted asc_rel p /\ not_ahead st p.
Proof.
  intros H18 Hf s Hr.
  pose proof (readers_mark_idle lim sched Hr) as Hi. fold s in Hi.
  destruct (crun_projects lim sched cinit [] eq_refl) as [sched' E]. fold s in E.
  rewrite E in *. apply pack_any_schedule; auto.
Qed.

Lemma timed_refines_empty lim tops :
  let s := tp (trun lim (mkT empty []) tops) in (exists ops, s = run lim empty ops) /\ inv s.
Proof.
  cbv zeta. split; [apply (timed_refines lim tops (mkT empty [])) | apply timed_inv].
Qed.

(* ---------- the evicted cache is write-only: nothing the pool decides depends on it ---------- *)
Definition eqre (s s' : pool) : Prop := received s = received s' /\ executed s = executed s'.

Lemma add_eqre lim s s' t : eqre s s' ->
  eqre (fst (add lim s t)) (fst (add lim s' t)) /\ snd (add lim s t) = snd (add lim s' t).
Proof.
  intros [E1 E2]. unfold add, existed, in_received, in_executed, exec_keys, push. rewrite E1, E2.
  destruct (_ || _); simpl; [split; [split|]; auto|].
  destruct (_ <? _); simpl; split; try split; auto.
Qed.

Lemma unmark1_eqre lim s s' t : eqre s s' -> eqre (unmark1 lim s t) (unmark1 lim s' t).
Proof.
  intros [E1 E2]. unfold unmark1. apply add_eqre. split; simpl; congruence.
Qed.

Lemma fold_unmark1_eqre lim txs : forall s s', eqre s s' ->
  eqre (fold_left (unmark1 lim) txs s) (fold_left (unmark1 lim) txs s').
Proof. induction txs; simpl; intros; auto. apply IHtxs. apply unmark1_eqre. auto. Qed.

Lemma step_eqre lim s s' o : eqre s s' -> eqre (step lim s o) (step lim s' o).
Proof.
  intro E. destruct o as [t|txs ev|txs ev| |h|hs]; simpl; auto.
  - apply add_eqre. exact E.
  - destruct E as [E1 E2]. split; simpl; congruence.
  - unfold unmark. destruct txs; auto. apply fold_unmark1_eqre. destruct E as [E1 E2]. split; simpl; auto.
  - destruct E as [E1 E2]. split; simpl; congruence.
Qed.

Lemma run_eqre lim ops : forall s s', eqre s s' -> eqre (run lim s ops) (run lim s' ops).
Proof. unfold run. induction ops; simpl; intros; auto. apply IHops. apply step_eqre. auto. Qed.

Lemma pack_eqre f st cap s s' : eqre s s' -> pack f st cap s = pack f st cap s'.
Proof. intros [E1 _]. unfold pack. rewrite E1. reflexivity. Qed.

Lemma evicted_irrelevant lim ops s ev' t f st cap :
  let s' := mkPool (received s) (executed s) ev' in
  eqre (run lim s ops) (run lim s' ops) /\
  snd (add lim (run lim s ops) t) = snd (add lim (run lim s' ops) t) /\
  pack f st cap (run lim s ops) = pack f st cap (run lim s' ops).
Proof.
  cbv zeta. assert (E : eqre (run lim s ops) (run lim (mkPool (received s) (executed s) ev') ops)).
  { apply run_eqre. split; reflexivity. }
  split; [exact E|]. split; [apply add_eqre; exact E | apply pack_eqre; exact E].
Qed.

Lemma lru_add_bound l h : (length (lru_add l h) <= N.to_nat evict_cap)%nat.
Proof. unfold lru_add. apply firstn_le_length. Qed.

Lemma lru_add_in l h : In h (lru_add l h).
Proof. unfold lru_add. vm_compute N.to_nat. simpl. left. reflexivity. Qed.

(* ---------- MarkExecuted's calling convention ---------- *)
Lemma find_tx_spec txs h i t : find_tx txs h i = Some t -> In t txs /\ thash t = h.
Proof.
  unfold find_tx. intro H.
  assert (Hf : forall t0, find (fun t => thash t =? h) txs = Some t0 -> In t0 txs /\ thash t0 = h).
  { intros t0 E. apply find_some in E as [E1 E2]. apply N.eqb_eq in E2. auto. }
  destruct (nth_error txs i) as [x|] eqn:En; [|auto].
  destruct (N.eqb_spec (thash x) h); [|auto]. inversion H; subst. split; auto. eapply nth_error_In; eauto.
Qed.

Lemma find_tx_none txs h i : find_tx txs h i = None -> ~ In h (hashes txs).
Proof.
  unfold find_tx. intros H Hi. apply in_map_iff in Hi as [x [E Hx]].
  assert (Hf : find (fun t => thash t =? h) txs = None -> False).
  { intro Hn. apply (find_none _ _ Hn) in Hx. rewrite E, N.eqb_refl in Hx. discriminate. }
  destruct (nth_error txs i) as [y|]; [|auto]. destruct (thash y =? h); [discriminate | auto].
Qed.

Lemma resolve_ok rc txs : forall i l,
  resolve_from i rc txs = Some l -> hashes l = rc /\ incl l txs.
Proof.
  induction rc as [|h r IH]; intros i l H; simpl in H.
  - inversion H. split; [reflexivity | intros ? []].
  - destruct (find_tx txs h i) as [t|] eqn:Ef; [|discriminate].
    destruct (resolve_from (S i) r txs) as [l'|] eqn:Er; [|discriminate]. inversion H; subst.
    apply find_tx_spec in Ef as [Hin Hh]. destruct (IH _ _ Er) as [H1 H2]. split.
    + simpl. congruence.
    + intros x [<-|Hx]; auto.
Qed.

Lemma resolve_total rc txs : forall i,
  (forall h, In h rc -> In h (hashes txs)) <-> resolve_from i rc txs <> None.
Proof.
  induction rc as [|h r IH]; intro i; simpl.
  - split; [discriminate | intros _ ? []].
  - split.
    + intros Hall. destruct (find_tx txs h i) eqn:Ef.
      * destruct (resolve_from (S i) r txs) eqn:Er; [discriminate|].
        exfalso. apply (proj1 (IH (S i))); auto.
      * exfalso. apply (find_tx_none _ _ _ Ef). auto.
    + intros Hn x [<-|Hx].
      * destruct (find_tx txs h i) eqn:Ef; [|congruence]. apply find_tx_spec in Ef as [Hin <-].
        apply in_map. exact Hin.
      * apply (proj2 (IH (S i))); auto.
        destruct (find_tx txs h i); [|congruence]. destruct (resolve_from (S i) r txs); congruence.
Qed.

Lemma mark_call_spec s rc txs ev :
  ((forall h, In h rc -> In h (hashes txs)) <-> mark_call s rc txs ev <> None) /\
  (forall s', mark_call s rc txs ev = Some s' ->
     exists l, s' = mark_executed s l ev /\ hashes l = rc /\ incl l txs).
Proof.
  unfold mark_call. split.
  - rewrite (resolve_total rc txs 0). destruct (resolve_from 0 rc txs); split; congruence.
  - intros s' H. destruct (resolve_from 0 rc txs) as [l|] eqn:E; [|discriminate]. inversion H; subst.
    exists l. destruct (resolve_ok _ _ _ _ E). auto.
Qed.

(* a block transaction without a receipt (and not evicted) is untouched: still pending, not executed *)
Lemma mark_call_unreceipted s rc txs ev s' t :
  mark_call s rc txs ev = Some s' -> In t (received s) -> ~ In (thash t) rc -> ~ In (thash t) ev ->
  In t (received s') /\ (In (thash t) (exec_keys s') -> In (thash t) (exec_keys s)).
Proof.
  intros H Hr Hn1 Hn2. apply mark_call_spec in H as [l [-> [Hl _]]]. split.
  - unfold mark_executed. simpl. apply filter_In. split; auto. apply negb_true_iff. apply memN_false.
    intro Hi. apply in_app_or in Hi as [Hi|Hi]; [rewrite Hl in Hi|]; contradiction.
  - unfold mark_executed, exec_keys. simpl. intro Hk. apply fold_put_keys in Hk as [Hk|Hk]; auto.
    rewrite Hl in Hk. contradiction.
Qed.

(* ---------- Clear ---------- *)
Lemma mark_detached_inv s txs ev : inv s -> inv (mark_detached s txs ev).
Proof.
  intros [Hd Hx]. split; unfold mark_detached, mark_executed, hashes, exec_keys in *; simpl.
  - apply NoDup_map_filter. exact Hd.
  - intros h Hh. apply in_map_filter in Hh as [x [Hxin [E _]]]. subst. apply Hx. apply in_map. exact Hxin.
Qed.

Lemma xstep_inv lim s o : inv (xp s) -> inv (xp (xstep lim s o)).
Proof.
  intro H. destruct o as [o|ns]; simpl.
  - destruct o as [t|txs ev|txs ev| |h|hs]; simpl.
    + apply add_inv. exact H.
    + destruct (detached s); simpl; [apply mark_detached_inv | apply mark_inv]; exact H.
    + apply unmark_inv. exact H.
    + exact H.
    + exact H.
    + apply expire_inv. exact H.
  - destruct (detached s); split; simpl; try constructor; intros ? [].
Qed.

Lemma xrun_inv lim ops : forall s, inv (xp s) -> inv (xp (xrun lim s ops)).
Proof. induction ops; simpl; intros; auto. apply IHops. apply xstep_inv. auto. Qed.

(* what Clear does: pending emptied, evicted cache kept, executed store swapped *)
Lemma clear_effect lim s ns :
  let s' := xstep lim s (XClear ns) in
  received (xp s') = [] /\ evicted (xp s') = evicted (xp s) /\ detached s' = true /\
  (detached s = false -> executed (xp s') = ns /\ oldstore s' = executed (xp s)).
Proof. cbv zeta. simpl. destruct (detached s); simpl; repeat split; auto; discriminate. Qed.

(* executed transactions are forgotten by Clear, and blocks marked after a Clear are never seen *)
Lemma clear_forgets :
  let t := mkTx 5 1 0 0 in let u := mkTx 6 1 1 0 in
  let f := mkFlags true true true true in
  let s1 := xrun 10 xinit [XOp (OAdd t); XOp (OMark [t] []); XClear []] in
  let s2 := xrun 10 s1 [XOp (OAdd u); XOp (OMark [u] [])] in
  In (thash t) (map fst (oldstore s1)) /\
  add 10 (xp s1) t = (xp (xstep 10 s1 (XOp (OAdd t))), AOk) /\
  In t (pack f (fun _ => 1) 200 (xp (xstep 10 s1 (XOp (OAdd t))))) /\
  In (thash u) (map fst (oldstore s2)) /\ snd (add 10 (xp s2) u) = AOk.
Proof. vm_compute. repeat split; auto. Qed.

(* ---------- packaged statements used by Props.v ---------- *)
Lemma marked_both s txs ev t : In t txs ->
  In (thash t) (exec_keys (mark_executed s txs ev)) /\
  ~ In (thash t) (hashes (received (mark_executed s txs ev))).
Proof. intros; split; [apply marked_is_executed | apply marked_not_pending]; assumption. Qed.

Lemma unmark_full_refuted_ex : exists lim ops t,
  let s := run lim empty ops in
  let s' := step lim s (OUnmark [t] []) in
  In (thash t) (exec_keys s) /\ ~ In (thash t) (hashes (received s')) /\ ~ In (thash t) (exec_keys s').
Proof.
  exists 1, [OAdd (mkTx 7 1 0 0); OMark [mkTx 7 1 0 0] []; OAdd (mkTx 9 2 0 0)], (mkTx 7 1 0 0).
  exact unmark_full_lost.
Qed.

Lemma pack_reachable lim ops f st cap :
  p018 f = true -> p023 f || p021 f = true ->
  let s := run lim empty ops in
  let p := pack f st cap s in
  NoDup (hashes p) /\ N.of_nat (length p) <= cap /\ incl p (received s) /\
  (forall t, In t p -> ~ In (thash t) (exec_keys s)) /\
  StronglySorted asc_rel p /\ not_ahead st p.
Proof. intros. apply pack_ok; auto. apply run_inv. apply inv_empty. Qed.

Lemma sort_total f :
  order_ok f = true ->
  (forall a b, less f a b = true -> less f b a = false) /\
  (forall a b c, less f a b = true -> less f b c = true -> less f a c = true) /\
  (forall l, Permutation l (sort f l) /\ sorted_by f (sort f l)) /\
  (forall a b, thash a <> thash b -> less_panics f a b = false).
Proof.
  intros Ho. repeat split.
  - apply less_asym.
  - intros a b c. apply less_trans. exact Ho.
  - apply sort_perm.
  - apply sort_sorted. exact Ho.
  - apply less_no_panic.
Qed.

(* in the 016-only regime Less is not transitive *)
Lemma less_016_not_transitive :
  let f := mkFlags true true false false in
  let a := mkTx 5 1 0 0 in let b := mkTx 4 2 0 0 in let c := mkTx 9 1 1 0 in
  less f a b = true /\ less f b c = false /\ less f c b = true /\ less f a c = true /\
  less f c a = false /\ less f b a = false /\
  (exists x y z, less f x y = true /\ less f y z = true /\ less f x z = false).
Proof.
  vm_compute. repeat split; auto.
  exists (mkTx 9 1 1 0), (mkTx 4 2 0 0), (mkTx 3 1 0 0). vm_compute. auto.
Qed.

Lemma race_refuted_ex : exists lim sched t f st cap,
  let s := fpool (frun lim (mkF empty []) sched) in
  In t (received s) /\ In (thash t) (exec_keys s) /\ ~ inv s /\ In t (pack f st cap s).
Proof.
  exists 50000, [FCheck 1 (mkTx 5 1 0 0); FOp (OMark [mkTx 5 1 0 0] []); FPush 1], (mkTx 5 1 0 0),
         (mkFlags true true true true), (fun _ => 1), 200.
  exact race_witness.
Qed.
