(* C17 over transaction IDENTITY.  The pool and the executed store are keyed by the wrapper's Hash field;
   "the same transaction" means the same signed payload.  [ident] = the identity of a transaction (for an
   ETH-wrapped one: its signed payload / the recovered (sender, nonce)), [Hf] = the hash the admission path
   computes from it.  [bound t] -- the wrapper hash IS the hash of the payload -- is what VerifyTransaction
   (verifyTransactionHash: Hash = GenHash(); verifyETHTx/compareTx: Hash = Hash of the converted signed tx)
   must establish for every transaction that reaches AddTransaction or a block.  Under it, at-most-once and
   duplicate-freedom hold per identity; without it they fail. *)
From Coq Require Import List NArith Lia Bool.
From V.C17 Require Import Model Proofs.
Import ListNotations.
Local Open Scope N_scope.

Section Identity.
Variable ident : tx -> N.
Variable Hf : N -> N.

Definition bound (t : tx) : Prop := thash t = Hf (ident t).

Lemma bound_same_hash a b : bound a -> bound b -> ident a = ident b -> thash a = thash b.
Proof. unfold bound. intros Ha Hb E. rewrite Ha, Hb, E. reflexivity. Qed.

Lemma NoDup_map_coarser {A} (f g : A -> N) (l : list A) :
  NoDup (map g l) -> (forall a b, In a l -> In b l -> f a = f b -> g a = g b) -> NoDup (map f l).
Proof.
  induction l as [|x l IH]; simpl; intros Hd Hc; [constructor|].
  inversion Hd as [|? ? Hn Hd']; subst. constructor.
  - intro Hi. apply in_map_iff in Hi as [y [E Hy]]. apply Hn. apply in_map_iff. exists y. split; auto; apply Hc; simpl; auto.
  - apply IH; auto.
Qed.

(* once a block containing t is executed, no transaction with t's identity that passed admission is
   admitted or packed until an unmark names it *)
Lemma at_most_once_ident lim ops1 txs ev ops2 t :
  In t txs -> bound t -> (forall o, In o ops2 -> ~ unmarks o (thash t)) ->
  let s := run lim empty (ops1 ++ OMark txs ev :: ops2) in
  (forall t', ident t' = ident t -> bound t' -> add lim s t' = (s, AErrExist)) /\
  (forall f st cap t', In t' (pack f st cap s) -> bound t' -> ident t' <> ident t).
Proof.
  intros Hin Hb Hno s. destruct (at_most_once lim ops1 txs ev ops2 t Hin Hno) as [A B]. fold s in A, B. split.
  - intros t' E Hb'. apply A. apply bound_same_hash; auto.
  - intros f st cap t' Hp Hb' E. apply (B f st cap t' Hp). apply bound_same_hash; auto.
Qed.

(* a packed batch holds every identity at most once, provided every pending transaction passed admission *)
Lemma pack_nodup_ident lim ops f st cap :
  let s := run lim empty ops in
  (forall t, In t (received s) -> bound t) ->
  NoDup (map ident (pack f st cap s)).
Proof.
  intros s Hb.
  assert (Hi : inv s) by (apply run_inv; apply inv_empty).
  assert (Hd : NoDup (hashes (pack f st cap s))).
  { destruct (p018 f) eqn:E18.
    - unfold pack. rewrite E18. destruct (received s) as [|x r] eqn:Er; [constructor|]. rewrite <- Er.
      eapply subseq_NoDup; [apply subseq_map; apply pack_sorted_subseq|].
      eapply Permutation.Permutation_NoDup; [apply Permutation.Permutation_map; apply sort_perm|]. apply Hi.
    - apply (pack_nocheck_ok f st cap s Hi E18). }
  apply (NoDup_map_coarser ident thash); auto.
  intros a b Ha Hb' E. apply bound_same_hash; auto; apply Hb; apply (pack_incl f st cap s); assumption.
Qed.

End Identity.

(* without the binding: one identity under two wrapper hashes is admitted twice, packed twice, and admitted
   again after its execution *)
Lemma unbound_refuted :
  let ident := fun t => tsrc t * 18446744073709551616 + tnonce t in
  let a := mkTx 100 7 0 0 in let a' := mkTx 101 7 0 0 in let a'' := mkTx 102 7 0 0 in
  let f := mkFlags true true true true in
  let s := run 10 empty [OAdd a; OAdd a'] in
  let s2 := run 10 s [OMark [a; a'] []] in
  ident a = ident a' /\ ident a = ident a'' /\
  pack f (fun _ => 0) 200 s = [a'; a] /\
  snd (add 10 s2 a'') = AOk.
Proof. vm_compute. repeat split; reflexivity. Qed.
