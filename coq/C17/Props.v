(* C17 — property theorems only (statements + [exact]); proofs are in Proofs.v. *)
From Coq Require Import List NArith Bool Permutation Sorted.
From V.C17 Require Import Model Proofs Crash Identity.
Import ListNotations.
Local Open Scope N_scope.

(* After ANY sequence of add / mark-executed (with evictions) / unmark / pack / lookup / background-expiry
   operations on an empty pool, of any length and with arbitrary arguments: pending hashes are pairwise distinct and no
   pending transaction has an executed record. *)
Theorem C17_disjoint : forall lim ops,
  let s := run lim empty ops in
  NoDup (hashes (received s)) /\ forall t, In t (received s) -> ~ In (thash t) (exec_keys s).
Proof. exact disjoint_all_histories. Qed.
Print Assumptions C17_disjoint.

(* A transaction whose hash has an executed record is refused by add and the pool is unchanged ... *)
Theorem C17_no_readmit : forall lim s t, In (thash t) (exec_keys s) -> add lim s t = (s, AErrExist).
Proof. exact no_readmit. Qed.
Print Assumptions C17_no_readmit.

(* ... mark-executed creates that record and removes the transaction from the pending list ... *)
Theorem C17_marked : forall s txs ev t, In t txs ->
  In (thash t) (exec_keys (mark_executed s txs ev)) /\
  ~ In (thash t) (hashes (received (mark_executed s txs ev))).
Proof. exact marked_both. Qed.
Print Assumptions C17_marked.

(* ... and the record survives every later operation sequence that contains no unmark naming the hash. *)
Theorem C17_executed_until_unmarked : forall lim ops s h,
  (forall o, In o ops -> ~ unmarks o h) -> In h (exec_keys s) -> In h (exec_keys (run lim s ops)).
Proof. exact executed_until_unmarked. Qed.
Print Assumptions C17_executed_until_unmarked.

(* AT MOST ONCE, over histories and for every proposal-flag setting: once a block containing t has been
   marked executed -- whatever happened before (ops1) and whatever happens afterwards (ops2: adds, other
   blocks, reorgs of other blocks, expiry, packs) as long as no unmark names t's hash -- a transaction with
   that hash is refused by add (pool unchanged) and is in no packed batch. *)
Theorem C17_at_most_once : forall lim ops1 txs ev ops2 t,
  In t txs -> (forall o, In o ops2 -> ~ unmarks o (thash t)) ->
  let s := run lim empty (ops1 ++ OMark txs ev :: ops2) in
  (forall t', thash t' = thash t -> add lim s t' = (s, AErrExist)) /\
  (forall f st cap t', In t' (pack f st cap s) -> thash t' <> thash t).
Proof. exact at_most_once. Qed.
Print Assumptions C17_at_most_once.

(* Reorg: every transaction of an unmarked block is pending again and no longer executed, provided the
   pending list has room for the block (guard: see C17_unmark_full_refuted). *)
Theorem C17_unmark_pending : forall lim s txs ev t,
  In t txs -> N.of_nat (length (received s) + length txs) <= lim ->
  let s' := unmark lim s txs ev in
  In (thash t) (hashes (received s')) /\ ~ In (thash t) (exec_keys s').
Proof. exact unmark_pending. Qed.
Print Assumptions C17_unmark_pending.

(* ... and it can be packed once more: the pending entry with that hash is in the next batch whenever it
   is not ahead of the sender's state nonce (or is not nonce-checked), the pending list fits the
   per-block limit and no pending nonce is 2^64-1 (there the code's uint64 expected-nonce counter wraps
   to 0 and later transactions of that sender are skipped). *)
Theorem C17_reorg_repackable : forall lim s txs ev t f st cap,
  In t txs -> N.of_nat (length (received s) + length txs) <= lim ->
  let s' := unmark lim s txs ev in
  exists t', In t' (received s') /\ thash t' = thash t /\ ~ In (thash t) (exec_keys s') /\
    ((forall x, In x (received s') -> tnonce x + 1 < two64) ->
     N.of_nat (length (received s')) <= cap -> trid t' <> 0 \/ tnonce t' <= st (tsrc t') ->
     In t' (pack f st cap s')).
Proof. exact reorg_repackable. Qed.
Print Assumptions C17_reorg_repackable.

(* Without the guard the statement is false: with a full pending list the unmarked transaction is
   dropped by simpleContainer.push and is afterwards neither pending nor executed. *)
Theorem C17_unmark_full_refuted : exists lim ops t,
  let s := run lim empty ops in
  let s' := step lim s (OUnmark [t] []) in
  In (thash t) (exec_keys s) /\ ~ In (thash t) (hashes (received s')) /\ ~ In (thash t) (exec_keys s').
Proof. exact unmark_full_refuted_ex. Qed.
Print Assumptions C17_unmark_full_refuted.

(* Packing, for EVERY list the sort may return (any permutation of the pending list without inversions
   w.r.t. Transactions.Less — Go's sort.Sort is not stable): no duplicate hashes, at most [cap]
   transactions, only pending and never executed ones, a sender's nonce-checked (RequestId = 0)
   transactions in ascending nonce order, and none ahead of the sender's next expected nonce
   ([expected st pre] = state nonce + in-sequence transactions of that sender placed before it, as a
   mathematical number; the code's uint64 counter, modelled with its wrap-around at 2^64, never exceeds
   it). *)
Theorem C17_pack : forall f st cap s sorted,
  inv s -> Permutation (received s) sorted -> sorted_by f sorted -> p016 f || p021 f || p023 f = true ->
  let p := pack_sorted st cap sorted in
  NoDup (hashes p) /\ N.of_nat (length p) <= cap /\ incl p (received s) /\
  (forall t, In t p -> ~ In (thash t) (exec_keys s)) /\
  StronglySorted asc_rel p /\ not_ahead st p.
Proof. exact pack_sorted_ok. Qed.
Print Assumptions C17_pack.

(* The same for PackForCast of the executable model, in every reachable state. *)
Theorem C17_pack_reachable : forall lim ops f st cap,
  p018 f = true -> p023 f || p021 f = true ->
  let s := run lim empty ops in
  let p := pack f st cap s in
  NoDup (hashes p) /\ N.of_nat (length p) <= cap /\ incl p (received s) /\
  (forall t, In t p -> ~ In (thash t) (exec_keys s)) /\
  StronglySorted asc_rel p /\ not_ahead st p.
Proof. exact pack_reachable. Qed.
Print Assumptions C17_pack_reachable.

(* Transactions.Less is a strict order whenever proposal 021 or 023 is active or 016 is not (it is not
   transitive in the 016-only regime: same-source pairs by nonce, other pairs by hash), the model's sort
   returns a sorted permutation, and Less cannot reach its panic on a pending list. *)
Theorem C17_sort_total : forall f,
  order_ok f = true ->
  (forall a b, less f a b = true -> less f b a = false) /\
  (forall a b c, less f a b = true -> less f b c = true -> less f a c = true) /\
  (forall l, Permutation l (sort f l) /\ sorted_by f (sort f l)) /\
  (forall a b, thash a <> thash b -> less_panics f a b = false).
Proof. exact sort_total. Qed.
Print Assumptions C17_sort_total.

(* Observation: in the 016-only regime (historic heights) Less is not transitive, so the order of a block
   sorted there depends on the sort algorithm. *)
Theorem C17_less_016_refuted :
  let f := mkFlags true true false false in
  exists x y z, less f x y = true /\ less f y z = true /\ less f x z = false.
Proof. exact (proj2 (proj2 (proj2 (proj2 (proj2 (proj2 less_016_not_transitive)))))). Qed.
Print Assumptions C17_less_016_refuted.

(* Schedules, the repaired code (pool-level lock, /repo commit "fix: TxPool serialises ..."): for EVERY
   schedule of the fine-grained steps of any number of threads -- AddTransaction split into Lock;check and
   push;Unlock, MarkExecuted into Lock;record-writes and remove;Unlock, UnMarkExecuted into one
   delete-and-re-add step per transaction, a step that needs the lock waiting while another thread holds
   it, PackForCast / lookups / background expiry running at any time without the lock --
   (a) whenever no MarkExecuted is between its two halves, the pool is a state that a sequential history
       reaches, so pending and executed are disjoint;
   (b) always, pending hashes are pairwise distinct and a transaction that is both pending and executed is
       one of the block whose MarkExecuted is in flight (its records are written, its removal is next).
   PARTIAL w.r.t. the property's "schedules" quantifier: this is the model's step granularity (an
   UnMarkExecuted step is delete+check+push of one transaction); mutual exclusion of sync.Mutex and the
   internal synchronisation of gmap.ListMap / LevelDB / lru.Cache are trusted; Go data races and
   memory-model effects are outside the model. *)
Theorem C17_locked_schedules_partial : forall lim sched,
  let s := lrun lim linit sched in
  (mark_idle s -> (exists ops, lpool s = run lim empty ops) /\ inv (lpool s)) /\
  NoDup (hashes (received (lpool s))) /\
  (forall h, In h (hashes (received (lpool s))) -> In h (exec_keys (lpool s)) ->
     exists tid txs ev, holder s = Some (tid, KMark txs ev) /\ In h (hashes txs)).
Proof. exact locked_schedules. Qed.
Print Assumptions C17_locked_schedules_partial.

(* The sub-steps are the methods: the two halves of MarkExecuted compose to mark_executed, the
   per-transaction steps of UnMarkExecuted to unmark. *)
Theorem C17_substeps_compose : forall lim s txs ev t r,
  mark_remove (mark_write s txs ev) txs ev = mark_executed s txs ev /\
  unmark lim s (t :: r) ev = fold_left (fun s0 t0 => unmark lim s0 [t0] []) r (unmark lim s [t] ev).
Proof. intros. split; [apply mark_split | apply unmark_split]. Qed.
Print Assumptions C17_substeps_compose.

(* ... and every batch packed under any such schedule while no MarkExecuted is between its halves has the
   packing properties. (A PackForCast that reads the pending list between the halves may return a
   transaction of the block being recorded: the same batch it would have returned just before that block
   arrived.) *)
Theorem C17_pack_any_schedule_partial : forall lim sched f st cap,
  p018 f = true -> p023 f || p021 f = true ->
  let s := lrun lim linit sched in
  mark_idle s ->
  let p := pack f st cap (lpool s) in
  NoDup (hashes p) /\ N.of_nat (length p) <= cap /\ incl p (received (lpool s)) /\
  (forall t, In t p -> ~ In (thash t) (exec_keys (lpool s))) /\
  StronglySorted asc_rel p /\ not_ahead st p.
Proof. exact pack_any_schedule. Qed.
Print Assumptions C17_pack_any_schedule_partial.

(* The same WITHOUT the assumption, for the node's call discipline: MarkExecuted / UnMarkExecuted run only
   under the chain WRITE lock, PackForCast only under the chain READ lock (lock order chain -> pool; [cstep]
   adds the RW lock to the steps above).  For every schedule: while any thread holds the read lock -- in
   particular at every PackForCast -- no MarkExecuted is between its halves ... *)
Theorem C17_chain_lock_excludes : forall lim sched,
  let s := crun lim cinit sched in cr s <> [] -> mark_idle (ls s).
Proof. exact readers_mark_idle. Qed.
Print Assumptions C17_chain_lock_excludes.

(* ... hence every batch packed by a read-lock holder, under any schedule, has the packing properties. *)
Theorem C17_pack_any_schedule : forall lim sched f st cap,
  p018 f = true -> p023 f || p021 f = true ->
  let s := crun lim cinit sched in
  cr s <> [] ->
  let p := pack f st cap (lpool (ls s)) in
  NoDup (hashes p) /\ N.of_nat (length p) <= cap /\ incl p (received (lpool (ls s))) /\
  (forall t, In t p -> ~ In (thash t) (exec_keys (lpool (ls s)))) /\
  StronglySorted asc_rel p /\ not_ahead st p.
Proof. exact pack_chain_schedule. Qed.
Print Assumptions C17_pack_any_schedule.

(* The evicted-hash cache (LRU, 1000 entries, modelled with its bound and recency order) is write-only:
   whatever it contains -- so in particular whatever the LRU has dropped -- every later add result, every
   pending list, every executed store and every packed batch is the same.  Eviction from the cache can
   therefore never make an executed transaction admissible again. *)
Theorem C17_evicted_irrelevant : forall lim ops s ev' t f st cap,
  let s' := mkPool (received s) (executed s) ev' in
  (received (run lim s ops) = received (run lim s' ops) /\
   executed (run lim s ops) = executed (run lim s' ops)) /\
  snd (add lim (run lim s ops) t) = snd (add lim (run lim s' ops) t) /\
  pack f st cap (run lim s ops) = pack f st cap (run lim s' ops).
Proof. exact evicted_irrelevant. Qed.
Print Assumptions C17_evicted_irrelevant.

(* MarkExecuted's calling convention.  The call goes through (does not panic) exactly when every receipt's
   hash is the hash of some block transaction; it is then mark_executed of the transactions found for the
   receipts (so every theorem about mark_executed applies with hashes = the receipt hashes), and a pending
   block transaction without a receipt that is not in the evicted list stays pending and is not recorded. *)
Theorem C17_mark_call : forall s rc txs ev,
  ((forall h, In h rc -> In h (hashes txs)) <-> mark_call s rc txs ev <> None) /\
  (forall s', mark_call s rc txs ev = Some s' ->
     (exists l, s' = mark_executed s l ev /\ hashes l = rc /\ incl l txs) /\
     (forall t, In t (received s) -> ~ In (thash t) rc -> ~ In (thash t) ev ->
        In t (received s') /\ (In (thash t) (exec_keys s') -> In (thash t) (exec_keys s)))).
Proof.
  intros. split; [apply mark_call_spec|]. intros s' H. split; [apply (proj2 (mark_call_spec s rc txs ev)); exact H|].
  intros t. apply (mark_call_unreceipted s rc txs ev s' t H).
Qed.
Print Assumptions C17_mark_call.

(* Clear: pending emptied, evicted cache kept, executed store SWAPPED for another one; the visible state
   keeps the invariant (so the packing theorems hold for it) ... *)
Theorem C17_clear_effect : forall lim ops ns,
  let s := xrun lim xinit ops in
  let s' := xstep lim s (XClear ns) in
  inv (xp s') /\ received (xp s') = [] /\ evicted (xp s') = evicted (xp s) /\
  (detached s = false -> executed (xp s') = ns /\ oldstore s' = executed (xp s)).
Proof.
  intros. split; [apply xstep_inv; apply xrun_inv; apply inv_empty|].
  destruct (clear_effect lim (xrun lim xinit ops) ns) as [A [B [_ C]]]. auto.
Qed.
Print Assumptions C17_clear_effect.

(* ... but at-most-once does not survive it: a transaction executed before a Clear is admitted and packed
   again after it, and a block marked executed after a Clear is recorded where nobody looks, so its
   transactions are admitted again at once.  (Clear has no caller in the node; listed finding.) *)
Theorem C17_clear_refuted : exists lim t u f st cap,
  let s1 := xrun lim xinit [XOp (OAdd t); XOp (OMark [t] []); XClear []] in
  let s2 := xrun lim s1 [XOp (OAdd u); XOp (OMark [u] [])] in
  In (thash t) (map fst (oldstore s1)) /\
  add lim (xp s1) t = (xp (xstep lim s1 (XOp (OAdd t))), AOk) /\
  In t (pack f st cap (xp (xstep lim s1 (XOp (OAdd t))))) /\
  In (thash u) (map fst (oldstore s2)) /\ snd (add lim (xp s2) u) = AOk.
Proof.
  exists 10, (mkTx 5 1 0 0), (mkTx 6 1 1 0), (mkFlags true true true true), (fun _ => 1), 200.
  exact clear_forgets.
Qed.
Print Assumptions C17_clear_refuted.

(* Background expiry modelled exactly (ring counter per pending entry, growRing tick): every timed history
   reaches a state of the untimed semantics (a tick is an OExpire of the entries that reached ring 5), so
   all theorems above cover it. *)
Theorem C17_expiry_refines : forall lim tops,
  let s := tp (trun lim (mkT empty []) tops) in (exists ops, s = run lim empty ops) /\ inv s.
Proof. exact timed_refines_empty. Qed.
Print Assumptions C17_expiry_refines.

(* The same steps without the lock (the code before the fix). PARTIAL: only those interleavings are covered
   in which every add's existence check is immediately followed by its push. *)
Theorem C17_interleaved_partial : forall lim sched ops,
  collapse sched = Some ops -> inv (fpool (frun lim (mkF empty []) sched)).
Proof. exact interleaved_atomic_inv. Qed.
Print Assumptions C17_interleaved_partial.

(* Without that atomicity (no pool lock: the code before the fix) the property fails: check ;
   mark-executed ; push leaves an executed transaction pending, and it is packed again even though the
   sender's nonce has moved past it. *)
Theorem C17_race_refuted : exists lim sched t f st cap,
  let s := fpool (frun lim (mkF empty []) sched) in
  In t (received s) /\ In (thash t) (exec_keys s) /\ ~ inv s /\ In t (pack f st cap s).
Proof. exact race_refuted_ex. Qed.
Print Assumptions C17_race_refuted.

(* Non-vacuity: a concrete history reaching a state with pending and executed transactions, on which the
   hypotheses of C17_pack hold and the pack skips a too-high nonce, keeps a too-low one and is capped. *)
Example C17_example :
  let f := mkFlags true true true true in
  let a0 := mkTx 11 1 0 0 in let a1 := mkTx 12 1 1 0 in let a3 := mkTx 13 1 3 0 in
  let b0 := mkTx 14 2 0 0 in let g := mkTx 15 3 9 4 in
  let s := run 10 empty [OAdd a3; OAdd a1; OAdd b0; OAdd a0; OAdd g; OMark [b0] [99]; OAdd b0;
                         OUnmark [b0] [99]] in
  received s = [a3; a1; a0; g; b0] /\ order_ok f = true /\
  pack f (fun _ => 0) 200 s = [b0; a0; a1; g] /\ pack f (fun _ => 0) 2 s = [b0; a0] /\
  pack f (fun a => if a =? 1 then 1 else 0) 200 s = [b0; a0; a1; g].
Proof. vm_compute. repeat split; reflexivity. Qed.

(* The chain <-> pool protocol across process death (Crash.v: the writes of insertBlock / remove restricted to
   marks, head record and the pool's executed store, in the code's order; a crash keeps any prefix; the
   restart runs ensureChainConsistency over a pool with an empty pending list).  [good] = the executed
   store holds exactly the transactions of the canonical chain and no mark is left.
   Inserting a block whose transactions are not executed yet, killed after ANY number of its writes: good
   again after the restart. *)
Theorem C17_crash_insert_safe : forall s b m,
  good s -> (forall h, In h (btxs b) -> ~ In h (execs s)) -> (forall x, In x (chainc s) -> bid x <> bid b) ->
  good (crash_restart s (insert_writes b) m).
Proof. exact insert_crash_safe. Qed.
Print Assumptions C17_crash_insert_safe.

(* Removing the head block (reorg), killed after any number of its writes: good again after the restart. *)
Theorem C17_crash_remove_safe : forall c b e m,
  let s := mkCst (b :: c) None None e in
  good s -> (forall h, In h (btxs b) -> ~ on_chain c h) -> (forall x, In x c -> bid x <> bid b) ->
  good (crash_restart s (remove_writes b) m).
Proof. exact remove_crash_safe. Qed.
Print Assumptions C17_crash_remove_safe.

(* What good means for the restarted pool: a transaction of a canonical block is refused by add (pool
   unchanged), any other transaction is admitted and pending. *)
Theorem C17_crash_pool : forall lim s t,
  good s -> 0 < lim ->
  (on_chain (chainc s) (thash t) -> add lim (pool_of s) t = (pool_of s, AErrExist)) /\
  (~ on_chain (chainc s) (thash t) ->
     snd (add lim (pool_of s) t) = AOk /\ In t (received (fst (add lim (pool_of s) t)))).
Proof. exact good_pool. Qed.
Print Assumptions C17_crash_pool.

(* The order matters: if the pool is told only after the add mark has been erased, a crash in between
   leaves the block as canonical head, nothing to repair, and its transaction admissible again. *)
Theorem C17_crash_late_order_refuted : exists s0 b m t,
  let s := crash_restart s0 (insert_writes_late b) m in
  good s0 /\ chainc s = [b] /\ addm s = None /\ rmm s = None /\ on_chain (chainc s) (thash t) /\
  ~ In (thash t) (execs s) /\ snd (add 10 (pool_of s) t) = AOk.
Proof.
  exists (mkCst [] None None []), (mkB 1 [5]), 3%nat, (mkTx 5 1 0 0). exact late_order_refuted.
Qed.
Print Assumptions C17_crash_late_order_refuted.

(* At most once per transaction IDENTITY (Identity.v).  The pool is keyed by the wrapper's Hash; the same
   signed payload is the same transaction.  For any identity function [ident] and hash function [Hf], with
   [bound t] := thash t = Hf (ident t) -- the admission predicate that VerifyTransaction must establish before
   AddTransaction (native: Hash = GenHash(); ETH-wrapped: compareTx incl. Hash) -- : after a block containing
   t is executed, no admitted transaction with t's identity is accepted or packed until an unmark names it ... *)
Theorem C17_at_most_once_identity : forall (ident : tx -> N) (Hf : N -> N) lim ops1 txs ev ops2 t,
  In t txs -> bound ident Hf t -> (forall o, In o ops2 -> ~ unmarks o (thash t)) ->
  let s := run lim empty (ops1 ++ OMark txs ev :: ops2) in
  (forall t', ident t' = ident t -> bound ident Hf t' -> add lim s t' = (s, AErrExist)) /\
  (forall f st cap t', In t' (pack f st cap s) -> bound ident Hf t' -> ident t' <> ident t).
Proof. exact at_most_once_ident. Qed.
Print Assumptions C17_at_most_once_identity.

(* ... and a packed batch holds every identity at most once when every pending transaction was admitted. *)
Theorem C17_pack_nodup_identity : forall (ident : tx -> N) (Hf : N -> N) lim ops f st cap,
  let s := run lim empty ops in
  (forall t, In t (received s) -> bound ident Hf t) ->
  NoDup (map ident (pack f st cap s)).
Proof. exact pack_nodup_ident. Qed.
Print Assumptions C17_pack_nodup_identity.

(* Without the binding of the wrapper hash to the payload: one identity (sender, nonce) under two wrapper
   hashes is pending twice and packed twice, and under a third hash is admitted again after its execution. *)
Theorem C17_unbound_refuted : exists (ident : tx -> N) a a' a'' f st cap,
  let s := run 10 empty [OAdd a; OAdd a'] in
  let s2 := run 10 s [OMark [a; a'] []] in
  ident a = ident a' /\ ident a = ident a'' /\
  pack f st cap s = [a'; a] /\ snd (add 10 s2 a'') = AOk.
Proof.
  exists (fun t => tsrc t * 18446744073709551616 + tnonce t), (mkTx 100 7 0 0), (mkTx 101 7 0 0), (mkTx 102 7 0 0),
         (mkFlags true true true true), (fun _ => 0), 200.
  exact unbound_refuted.
Qed.
Print Assumptions C17_unbound_refuted.

(* Non-vacuity of the schedule theorems: on the locked steps the schedule that broke the unlocked code makes
   the MarkExecuted wait (its first LMarkW is a blocked step), and ends executed-only; a mid-MarkExecuted
   state is not mark_idle; an expiry history drops an entry at its fifth tick. *)
Example C17_example_schedule :
  let t := mkTx 5 1 0 0 in
  let sched := [LCheck 1 t; LMarkW 2 [t] []; LMarkR 2; LPush 1; LMarkW 2 [t] []] in
  let mid := lrun 50000 linit sched in
  let fin := lrun 50000 mid [LOp OPack; LMarkR 2] in
  received (lpool mid) = [t] /\ In (thash t) (exec_keys (lpool mid)) /\ ~ mark_idle mid /\
  received (lpool fin) = [] /\ In (thash t) (exec_keys (lpool fin)) /\ mark_idle fin /\
  (let a := mkTx 11 1 0 0 in let b := mkTx 12 1 1 0 in
   let s4 := trun 10 (mkT empty []) [TOp (OAdd a); TTick; TOp (OAdd b); TTick; TTick; TTick] in
   received (tp s4) = [a; b] /\ received (tp (tstep 10 s4 TTick)) = [b]).
Proof. vm_compute. repeat split; auto. Qed.

(* Non-vacuity of the chain-lock theorems: a proposer holding the read lock makes the block writer wait; a
   MarkExecuted in flight makes the proposer wait; and the LRU drops its oldest entry at the bound. *)
Example C17_example_chain :
  let t := mkTx 5 1 0 0 in
  let a := crun 100 cinit [CL (LOp (OAdd t)); CR 7; CW 2; CL (LMarkW 2 [t] [])] in
  let b := crun 100 cinit [CL (LOp (OAdd t)); CW 2; CL (LMarkW 2 [t] []); CR 7; CWU 2; CL (LMarkR 2); CWU 2; CR 7] in
  cr a = [7] /\ cw a = None /\ in_executed (lpool (ls a)) (thash t) = false /\
  cr b = [7] /\ cw b = None /\ received (lpool (ls b)) = [] /\ in_executed (lpool (ls b)) (thash t) = true /\
  length (lru_adds [] (map N.of_nat (seq 0 1001))) = 1000%nat /\
  memN 0 (lru_adds [] (map N.of_nat (seq 0 1001))) = false /\
  memN 1 (lru_adds [] (map N.of_nat (seq 0 1001))) = true.
Proof. vm_compute. repeat split; reflexivity. Qed.
