(* C05 - the volatile half of the pool clause: "transactions of blocks removed by a reorg become pending
   again". The pool is C17's model (coq/C17/Model.v, imported read-only): MarkExecuted / UnMarkExecuted
   act on it exactly where the block store model has its WExec / WUnexec writes. Crash-free runs only
   (the pending list does not survive a restart). *)
From Coq Require Import List NArith Bool Lia Arith.
Require V.C17.Model.
From V.C05 Require Import Model.
Module P := V.C17.Model.
Import ListNotations.
Local Open Scope N_scope.

Definition tx_of (h : N) : P.tx := P.mkTx h 0 0 0.

(* what one store write of the chain means for the pool object (lim = capacity of the pending list).
   [evf ts] = the header's EvictedTxs of the block whose body is ts. Regime: below the Proposal018 height
   the executor keeps a failed transaction in the body AND lists it as evicted (evicted within body);
   from Proposal018 on a transaction that cannot be added is left out of the body and only listed. The
   theorem below is for evicted lists within the body (pre-018, and every block without evictions). *)
Section Evicted.
Variable evf : list N -> list N.
Hypothesis evf_body : forall ts h, existsb (N.eqb h) (evf ts) = true -> existsb (N.eqb h) ts = true.

Definition pstep (lim : N) (p : P.pool) (w : write) : P.pool :=
  match w with
  | WExec ts => P.mark_executed p (map tx_of ts) (evf ts) (* updateTxPool: MarkExecuted(receipts, txs, evicted) *)
  | WUnexec t => P.unmark1 lim p (tx_of t)               (* UnMarkExecuted: executed.Delete + pool.add *)
  | _ => p
  end.

Definition pool_after (lim : N) (ws : list write) (p : P.pool) : P.pool := fold_left (pstep lim) ws p.

Definition R (p : P.pool) (t : N) : bool := P.in_received p t.
Definition X (p : P.pool) (t : N) : bool := P.in_executed p t.

(* ---------- facts about C17's pool functions ---------- *)
Lemma memN_filter_hash : forall (f : N -> bool) l h,
  P.memN h (P.hashes (filter (fun t => f (P.thash t)) l)) = P.memN h (P.hashes l) && f h.
Proof.
  induction l as [|x l IH]; intro h. reflexivity.
  cbn [filter]. destruct (f (P.thash x)) eqn:Ef.
  - unfold P.hashes, P.memN in *. cbn [map existsb]. rewrite IH.
    destruct (N.eqb_spec h (P.thash x)); cbn; auto. subst. now rewrite Ef.
  - rewrite IH. unfold P.hashes, P.memN. cbn [map existsb].
    destruct (N.eqb_spec h (P.thash x)); cbn; auto. subst. rewrite Ef. now rewrite andb_false_r.
Qed.

Lemma hashes_tx_of : forall ts h, P.memN h (P.hashes (map tx_of ts)) = existsb (N.eqb h) ts.
Proof.
  unfold P.memN, P.hashes. induction ts as [|a ts IH]; intro h. reflexivity.
  cbn [map existsb P.thash tx_of]. now rewrite IH.
Qed.

Lemma memN_app : forall h a b, P.memN h (a ++ b) = P.memN h a || P.memN h b.
Proof. intros. unfold P.memN. apply existsb_app. Qed.

Lemma R_mark : forall p ts h, R (P.mark_executed p (map tx_of ts) (evf ts)) h = R p h && negb (existsb (N.eqb h) ts).
Proof.
  intros. unfold R, P.in_received, P.mark_executed. cbn [P.received].
  rewrite (memN_filter_hash (fun k => negb (P.memN k (P.hashes (map tx_of ts) ++ evf ts)))).
  rewrite memN_app, hashes_tx_of. f_equal. f_equal.
  destruct (existsb (N.eqb h) ts) eqn:E1; auto. cbn.
  destruct (P.memN h (evf ts)) eqn:E2; auto. unfold P.memN in E2. apply evf_body in E2. congruence.
Qed.

Lemma keys_del : forall k e h, P.memN h (map fst (P.del_key k e)) = P.memN h (map fst e) && negb (h =? k).
Proof.
  unfold P.memN, P.del_key. induction e as [|[a v] e IH]; intro h. reflexivity.
  cbn [filter fst]. destruct (N.eqb_spec a k) as [e0|ne]; cbn [negb map existsb fst]; rewrite IH.
  - subst a. destruct (N.eqb_spec h k); cbn; auto. now rewrite andb_false_r.
  - destruct (N.eqb_spec h a) as [e1|ne1]; cbn; auto. subst h.
    destruct (N.eqb_spec a k); [contradiction|reflexivity].
Qed.

Lemma X_fold_put : forall txs e h,
  P.memN h (map fst (fold_left P.put_exec txs e)) = P.memN h (map fst e) || P.memN h (P.hashes txs).
Proof.
  induction txs as [|t txs IH]; intros e h. { unfold P.hashes, P.memN. cbn. now rewrite orb_false_r. }
  cbn [fold_left]. rewrite IH. unfold P.put_exec. cbn [map fst].
  change (P.memN h (P.thash t :: map fst (P.del_key (P.thash t) e)))
    with ((h =? P.thash t) || P.memN h (map fst (P.del_key (P.thash t) e))).
  change (P.memN h (P.hashes (t :: txs))) with ((h =? P.thash t) || P.memN h (P.hashes txs)).
  rewrite keys_del.
  destruct (N.eqb_spec h (P.thash t)); cbn. now rewrite orb_true_r. now rewrite andb_true_r.
Qed.

Lemma X_mark : forall p ts h, X (P.mark_executed p (map tx_of ts) (evf ts)) h = X p h || existsb (N.eqb h) ts.
Proof.
  intros. unfold X, P.in_executed, P.exec_keys, P.mark_executed. cbn [P.executed].
  now rewrite X_fold_put, hashes_tx_of.
Qed.

Lemma len_mark : forall p txs ev, (length (P.received (P.mark_executed p txs ev)) <= length (P.received p))%nat.
Proof.
  intros. unfold P.mark_executed. cbn [P.received].
  generalize (P.received p). induction l as [|x l IH]; cbn [filter]. lia.
  destruct (negb _); cbn [length]; lia.
Qed.

Lemma lm_set_mem : forall l t h, P.memN h (P.hashes (P.lm_set l t)) = P.memN h (P.hashes l) || (h =? P.thash t).
Proof.
  unfold P.memN, P.hashes. induction l as [|x l IH]; intros t h. { cbn. now rewrite orb_false_r. }
  cbn [P.lm_set]. destruct (N.eqb_spec (P.thash x) (P.thash t)) as [e|ne]; cbn [map existsb].
  - rewrite e. destruct (h =? P.thash t); cbn; auto. now rewrite orb_false_r.
  - rewrite IH. now rewrite orb_assoc.
Qed.

Lemma lm_set_len : forall l t, (length (P.lm_set l t) <= S (length l))%nat.
Proof.
  induction l as [|x l IH]; intro t; cbn. lia.
  destruct (P.thash x =? P.thash t); cbn. lia. specialize (IH t). lia.
Qed.

(* UnMarkExecuted of one transaction when the pending list has room *)
Lemma unmark1_spec : forall lim p t0, N.of_nat (length (P.received p)) < lim ->
  let p' := P.unmark1 lim p (tx_of t0) in
  (forall h, X p' h = X p h && negb (h =? t0)) /\
  (forall h, R p' h = R p h || (h =? t0)) /\
  (length (P.received p') <= S (length (P.received p)))%nat.
Proof.
  intros lim p t0 Hcap. unfold P.unmark1, P.add. cbn zeta.
  set (p1 := P.mkPool (P.received p) (P.del_key (P.thash (tx_of t0)) (P.executed p)) (P.evicted p)).
  assert (X1 : forall h, X p1 h = X p h && negb (h =? t0)).
  { intro h. unfold X, P.in_executed, P.exec_keys, p1. cbn. apply keys_del. }
  unfold P.existed. change (P.in_received p1 (P.thash (tx_of t0))) with (R p t0).
  change (P.in_executed p1 (P.thash (tx_of t0))) with (X p1 t0). rewrite X1, N.eqb_refl, andb_false_r, orb_false_r.
  destruct (R p t0) eqn:Er; cbn [fst].
  - split; [exact X1|]. split; [|cbn; lia].
    intro h. change (R p1 h) with (R p h). destruct (N.eqb_spec h t0); subst; rewrite ?Er, ?orb_false_r; auto.
  - unfold P.push. cbn [P.received p1]. apply N.ltb_lt in Hcap. rewrite Hcap.
    split; [|split].
    + intro h. rewrite <- X1. reflexivity.
    + intro h. unfold R, P.in_received. cbn. apply lm_set_mem.
    + cbn. apply lm_set_len.
Qed.

(* ---------- the pool along a write list ---------- *)
Definition rel (s : st) (p : P.pool) : Prop := forall t, X p t = exec s t.
Definition dis (p : P.pool) : Prop := forall t, R p t = true -> X p t = false.

Lemma pending_trace : forall lim ws s p,
  rel s p -> dis p -> N.of_nat (length (P.received p) + length ws) <= lim ->
  let s' := apply ws s in let p' := pool_after lim ws p in
  rel s' p' /\ dis p' /\
  forall t, exec s t = true \/ R p t = true -> exec s' t = false -> R p' t = true.
Proof.
  intros lim ws. induction ws as [|w ws IH]; intros s p Hrel Hdis Hcap; cbn zeta.
  { cbn. split; auto. split; auto. intros t [H|H] H'; auto. congruence. }
  change (apply (w :: ws) s) with (apply ws (apply1 s w)).
  change (pool_after lim (w :: ws) p) with (pool_after lim ws (pstep lim p w)).
  cbn [length] in Hcap.
  assert (Step : rel (apply1 s w) (pstep lim p w) /\ dis (pstep lim p w) /\
                 (length (P.received (pstep lim p w)) <= S (length (P.received p)))%nat /\
                 forall t, exec s t = true \/ R p t = true ->
                           exec (apply1 s w) t = true \/ R (pstep lim p w) t = true).
  { destruct w; cbn [pstep apply1 exec]; try (split; [exact Hrel|split; [exact Hdis|split; [lia|auto]]]).
    - (* WExec *)
      split; [|split; [|split]].
      + intro t. rewrite X_mark, Hrel. cbn [exec]. apply orb_comm.
      + intros t Ht. rewrite R_mark in Ht. apply andb_prop in Ht. destruct Ht as [H1 H2].
        rewrite X_mark, (Hdis t H1). apply negb_true_iff in H2. now rewrite H2.
      + pose proof (len_mark p (map tx_of ts) (evf ts)). lia.
      + intros t H. cbn [exec]. destruct (existsb (N.eqb t) ts) eqn:Em; [now left|].
        destruct H as [H|H]. left. exact H. right. now rewrite R_mark, H, Em.
    - (* WUnexec *)
      destruct (unmark1_spec lim p t) as [U1 [U2 U3]]. lia.
      split; [|split; [|split]].
      + intro t0. rewrite U1, Hrel. cbn [exec]. unfold upd. destruct (t0 =? t); cbn [negb]. now rewrite andb_false_r. now rewrite andb_true_r.
      + intros t0 Ht. rewrite U2 in Ht. rewrite U1. destruct (N.eqb_spec t0 t); cbn [negb]. now rewrite andb_false_r.
        rewrite orb_false_r in Ht. rewrite (Hdis t0 Ht). reflexivity.
      + exact U3.
      + intros t0 H. cbn [exec]. unfold upd. destruct (N.eqb_spec t0 t).
        * right. rewrite U2. subst. now rewrite N.eqb_refl, orb_true_r.
        * destruct H as [H|H]; [now left|]. right. rewrite U2, H. reflexivity. }
  destruct Step as [S1 [S2 [S3 S4]]].
  destruct (IH (apply1 s w) (pstep lim p w) S1 S2) as [I1 [I2 I3]]. lia.
  split; [exact I1|]. split; [exact I2|]. intros t Hk Hf. apply I3; auto.
Qed.

End Evicted.
