(* C05 — model of the block store (src/core/blockchain*.go): three indexes + head record + intent
   marks, every update spelled as the LIST OF ATOMIC STORE WRITES the Go statements issue, in order.
   No proofs here.

   Go statement                                              model write
   ---------------------------------------------------------------------------------------------
   insertBlock:  markAddBlock(blockByte)                     WAddMark b
                 saveBlockByHash                              WPutHash b
                 saveBlockByHeight                            WPutHeight b
                 saveStates (state.Commit + trieDB.Commit)    WState (root b)
                 updateVerifyHash                             WPutV (height b) (hash b)
                 updateTxPool (MarkExecuted)                  -- pool store, not modelled (C17)
                 topBlocks.Add                                -- volatile cache
                 updateLastBlock  heightDB["bcurrent"]        WCur b
                 eraseAddBlockMark                            WDelAddMark
   remove:       markRemoveBlock                              WRmMark b
                 hashDB.Delete / heightDB.Delete / verifyHashDB.Delete
                                                              WDelHash, WDelHeight, WDelV
                 preBlock := queryBlockByHash(PreHash); nil => return false   (read, after the deletes)
                 heightDB["bcurrent"] := preHeader            WCur p
                 UnMarkExecuted                               -- pool store
                 eraseRemoveBlockMark                         WDelRmMark
   ensureChainConsistency: addMark => remove(block); eraseAddBlockMark
                           removeMark (re-read) => remove(block); eraseRemoveBlockMark
   The lru caches (topBlocks, verifiedBlocks) are modelled as transparent; futureBlocks (orphans,
   keyed by parent hash, volatile) is the [fut] argument. *)
From Coq Require Import List NArith Bool.
Import ListNotations.
Local Open Scope N_scope.

(* hash = abstract id (order-isomorphic to the real 32-byte hashes); qn = TotalQN (cumulative). *)
Record block := mkB { hash : N; pre : N; height : N; qn : N; pv : N; root : N }.

Record st := mkS {
  byHash   : N -> option block;   (* hashDB: hash -> block *)
  byHeight : N -> option block;   (* heightDB: height -> header *)
  vhash    : N -> option N;       (* verifyHashDB: height -> verify hash (of block id) *)
  cur      : option block;        (* heightDB["bcurrent"] *)
  amark    : option block;        (* hashDB["addBlockMark"] *)
  rmark    : option block;        (* hashDB["removeBlockMark"] *)
  roots    : N -> bool            (* state roots that can be opened from the state store *)
}.

Inductive write :=
| WAddMark (b : block) | WDelAddMark
| WRmMark (b : block)  | WDelRmMark
| WPutHash (b : block) | WDelHash (h : N)
| WPutHeight (b : block) | WDelHeight (n : N)
| WPutV (n h : N) | WDelV (n : N)
| WCur (b : block)
| WState (r : N).

Definition upd {A} (f : N -> A) (k : N) (v : A) : N -> A := fun x => if x =? k then v else f x.

Definition apply1 (s : st) (w : write) : st :=
  match w with
  | WAddMark b   => mkS (byHash s) (byHeight s) (vhash s) (cur s) (Some b) (rmark s) (roots s)
  | WDelAddMark  => mkS (byHash s) (byHeight s) (vhash s) (cur s) None (rmark s) (roots s)
  | WRmMark b    => mkS (byHash s) (byHeight s) (vhash s) (cur s) (amark s) (Some b) (roots s)
  | WDelRmMark   => mkS (byHash s) (byHeight s) (vhash s) (cur s) (amark s) None (roots s)
  | WPutHash b   => mkS (upd (byHash s) (hash b) (Some b)) (byHeight s) (vhash s) (cur s) (amark s) (rmark s) (roots s)
  | WDelHash h   => mkS (upd (byHash s) h None) (byHeight s) (vhash s) (cur s) (amark s) (rmark s) (roots s)
  | WPutHeight b => mkS (byHash s) (upd (byHeight s) (height b) (Some b)) (vhash s) (cur s) (amark s) (rmark s) (roots s)
  | WDelHeight n => mkS (byHash s) (upd (byHeight s) n None) (vhash s) (cur s) (amark s) (rmark s) (roots s)
  | WPutV n h    => mkS (byHash s) (byHeight s) (upd (vhash s) n (Some h)) (cur s) (amark s) (rmark s) (roots s)
  | WDelV n      => mkS (byHash s) (byHeight s) (upd (vhash s) n None) (cur s) (amark s) (rmark s) (roots s)
  | WCur b       => mkS (byHash s) (byHeight s) (vhash s) (Some b) (amark s) (rmark s) (roots s)
  | WState r     => mkS (byHash s) (byHeight s) (vhash s) (cur s) (amark s) (rmark s) (upd (roots s) r true)
  end.

Definition apply (ws : list write) (s : st) : st := fold_left apply1 ws s.

(* process death after the k-th store write of an operation *)
Definition crash (k : nat) (ws : list write) (s : st) : st := apply (firstn k ws) s.

(* ---- insertBlock ---- *)
Definition insert_writes (b : block) : list write :=
  [WAddMark b; WPutHash b; WPutHeight b; WState (root b); WPutV (height b) (hash b); WCur b; WDelAddMark].

(* ---- remove ---- *)
Definition remove_pfx (b : block) : list write :=
  [WRmMark b; WDelHash (hash b); WDelHeight (height b); WDelV (height b)].

Definition remove_writes (s : st) (b : block) : list write :=
  match byHash (apply (remove_pfx b) s) (pre b) with
  | None => remove_pfx b                       (* "Query nil block header ... while removing": return false *)
  | Some p => remove_pfx b ++ [WCur p; WDelRmMark]
  end.

(* ---- ensureChainConsistency (run by initBlockChain when "bcurrent" exists) ---- *)
Definition recover_writes (s : st) : list write :=
  let ws1 := match amark s with Some b => remove_writes s b ++ [WDelAddMark] | None => [] end in
  let s1 := apply ws1 s in
  let ws2 := match rmark s1 with Some b => remove_writes s1 b ++ [WDelRmMark] | None => [] end in
  ws1 ++ ws2.

Definition recover (s : st) : st := apply (recover_writes s) s.

(* initBlockChain then opens the head's state root and panics when it cannot *)
Definition head_openable (s : st) : bool :=
  match cur s with Some h => roots s (root h) | None => false end.

(* a restart that is itself interrupted after j writes of the repair, any number of times *)
Fixpoint faults (js : list nat) (s : st) : st :=
  match js with
  | [] => s
  | j :: r => faults r (crash j (recover_writes s) s)
  end.

(* ---- removeFromCommonAncestor: for height := latest.Height; height > anc.Height; height-- ---- *)
Fixpoint rfca (fuel : nat) (s : st) (anc_h ht : N) : list write :=
  match fuel with
  | O => []
  | S f =>
    if ht <=? anc_h then [] else
    let ws := match byHeight s ht with
              | None => []
              | Some hdr => match byHash s (hash hdr) with
                            | None => []
                            | Some blk => remove_writes s blk
                            end
              end in
    ws ++ rfca f (apply ws s) anc_h (ht - 1)
  end.

(* ---- chainPvGreatThanRemote(localNext, coming) ---- *)
Definition pv_local_greater (x b : block) : bool :=
  (pv b <? pv x) || ((pv x =? pv b) && (hash b <? hash x)).

Inductive result := RSucc | RExisted | RNoPre | RQnLess | RFailed | RFuel.

Definition is_some {A} (o : option A) : bool := match o with Some _ => true | None => false end.

(* ---- addBlockOnChain (recursive: after a reorg, and for a waiting orphan after a success).
   Returns the writes, the result code and "out of fuel somewhere" (the Go recursion is unbounded). *)
Fixpoint add_writes (fuel : nat) (fut : N -> option block) (s : st) (b : block) : list write * result * bool :=
  match fuel with
  | O => ([], RFuel, true)
  | S f =>
    match cur s with
    | None => ([], RFailed, false)                       (* no head: excluded by the invariant *)
    | Some top =>
      if (hash b =? hash top) || is_some (byHash s (hash b)) then ([], RExisted, false) else
      match byHash s (pre b) with
      | None => ([], RFailed, false)                     (* verifyBlock: code 2 *)
      | Some anc =>
        let reorg :=
          let ws := rfca (N.to_nat (height top - height anc)) s (height anc) (height top) in
          let '(ws2, r, ex) := add_writes f fut (apply ws s) b in
          (ws ++ ws2, r, ex) in
        if pre b =? hash top then
          let ws := insert_writes b in
          match fut (hash b) with                        (* successOnChainCallBack *)
          | None => (ws, RSucc, false)
          | Some c => let '(ws2, _, ex) := add_writes f fut (apply ws s) c in (ws ++ ws2, RSucc, ex)
          end
        else if qn b <? qn top then ([], RQnLess, false)
        else if qn top <? qn b then reorg
        else match byHeight s (height anc + 1) with
             | None => ([], RFailed, false)
             | Some x => if pv_local_greater x b then ([], RQnLess, false) else reorg
             end
      end
    end
  end.

(* ---- AddBlockOnChain: consensusVerify (stub helper accepts), then addBlockOnChain ---- *)
Definition deliver (fuel : nat) (fut : N -> option block) (s : st) (b : block)
  : st * (N -> option block) * result :=
  match byHash s (pre b) with
  | None => (s, upd fut (pre b) (Some b), RNoPre)
  | Some _ =>
    if is_some (byHash s (hash b)) then (s, fut, RExisted) else
    let '(ws, r, _) := add_writes fuel fut s b in (apply ws s, fut, r)
  end.

Fixpoint run (fuel : nat) (fut : N -> option block) (s : st) (hist : list block) : st * (N -> option block) :=
  match hist with
  | [] => (s, fut)
  | b :: r => let '(s', fut', _) := deliver fuel fut s b in run fuel fut' s' r
  end.

(* ---- the canonical store for a chain (head first, genesis last) ---- *)
Definition findH (h : N) (l : list block) : option block := find (fun x => hash x =? h) l.
Definition findT (n : N) (l : list block) : option block := find (fun x => height x =? n) l.

Definition st_of (l : list block) : st :=
  mkS (fun h => findH h l) (fun n => findT n l) (fun n => option_map hash (findT n l))
      (hd_error l) None None (fun r => existsb (fun b => root b =? r) l).
