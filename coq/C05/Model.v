(* C05 — model of the block store (src/core/blockchain*.go): three indexes + head record + intent
   marks, every update spelled as the LIST OF ATOMIC STORE WRITES the Go statements issue, in order.
   No proofs here.

   Go statement                                              model write
   ---------------------------------------------------------------------------------------------
   insertBlock:  markAddBlock(blockByte)                     WAddMark b
                 saveBlockByHash                              WPutHash b
                 saveBlockByHeight                            WPutHeight b
                 saveStates (state.Commit + trieDB.Commit)    WState (root b)
                 updateVerifyHash                             WPutV (height b) (hash b)
                 updateTxPool (MarkExecuted: one batch)       WExec (txs b)   (no write when txs = [])
                 topBlocks.Add                                -- volatile cache
                 updateLastBlock  heightDB["bcurrent"]        WCur b
                 eraseAddBlockMark                            WDelAddMark
   remove:       markRemoveBlock                              WRmMark b
                 hashDB.Delete / heightDB.Delete / verifyHashDB.Delete
                                                              WDelHash, WDelHeight, WDelV
                 preBlock := queryBlockByHash(PreHash); nil => return false   (read, after the deletes)
                 heightDB["bcurrent"] := preHeader            WCur p
                 UnMarkExecuted (one Delete per tx)           WUnexec t, for t in txs b
                 eraseRemoveBlockMark                         WDelRmMark
   ensureChainConsistency: addMark => remove(block); eraseAddBlockMark
                           removeMark (re-read) => remove(block); eraseRemoveBlockMark
   verifyBlock: verifiedBlocks hit => accepted without any check; else parent missing => refused;
                a transaction of the block already in the executed store => refused (Proposal008);
                else (checkStates passes for valid blocks) verifiedBlocks.Add.
   The lru cache topBlocks is modelled as transparent; verifiedBlocks (volatile, remove() deletes the
   removed block's entry; capacity 20 not modelled) is the [vf] argument; futureBlocks (orphans, keyed
   by parent hash, volatile) is the [fut] argument. The pool's pending list is volatile and belongs to
   C17's model; here only its durable executed store (key = tx hash) is modelled. *)
From Coq Require Import List NArith Bool.
Import ListNotations.
Local Open Scope N_scope.

(* hash = abstract id (order-isomorphic to the real 32-byte hashes); qn = TotalQN (cumulative). *)
Record block := mkB { hash : N; pre : N; height : N; qn : N; pv : N; root : N; txs : list N }.

Record st := mkS {
  byHash   : N -> option block;   (* hashDB: hash -> block *)
  byHeight : N -> option block;   (* heightDB: height -> header *)
  vhash    : N -> option N;       (* verifyHashDB: height -> verify hash (of block id) *)
  cur      : option block;        (* heightDB["bcurrent"] *)
  amark    : option block;        (* hashDB["addBlockMark"] *)
  rmark    : option block;        (* hashDB["removeBlockMark"] *)
  roots    : N -> bool;           (* state roots that can be opened from the state store *)
  exec     : N -> bool            (* the pool's executed store: tx hash present *)
}.

Inductive write :=
| WAddMark (b : block) | WDelAddMark
| WRmMark (b : block)  | WDelRmMark
| WPutHash (b : block) | WDelHash (h : N)
| WPutHeight (b : block) | WDelHeight (n : N)
| WPutV (n h : N) | WDelV (n : N)
| WCur (b : block)
| WState (r : N)
| WExec (ts : list N) | WUnexec (t : N).

Definition upd {A} (f : N -> A) (k : N) (v : A) : N -> A := fun x => if x =? k then v else f x.

Definition apply1 (s : st) (w : write) : st :=
  match w with
  | WAddMark b   => mkS (byHash s) (byHeight s) (vhash s) (cur s) (Some b) (rmark s) (roots s) (exec s)
  | WDelAddMark  => mkS (byHash s) (byHeight s) (vhash s) (cur s) None (rmark s) (roots s) (exec s)
  | WRmMark b    => mkS (byHash s) (byHeight s) (vhash s) (cur s) (amark s) (Some b) (roots s) (exec s)
  | WDelRmMark   => mkS (byHash s) (byHeight s) (vhash s) (cur s) (amark s) None (roots s) (exec s)
  | WPutHash b   => mkS (upd (byHash s) (hash b) (Some b)) (byHeight s) (vhash s) (cur s) (amark s) (rmark s) (roots s) (exec s)
  | WDelHash h   => mkS (upd (byHash s) h None) (byHeight s) (vhash s) (cur s) (amark s) (rmark s) (roots s) (exec s)
  | WPutHeight b => mkS (byHash s) (upd (byHeight s) (height b) (Some b)) (vhash s) (cur s) (amark s) (rmark s) (roots s) (exec s)
  | WDelHeight n => mkS (byHash s) (upd (byHeight s) n None) (vhash s) (cur s) (amark s) (rmark s) (roots s) (exec s)
  | WPutV n h    => mkS (byHash s) (byHeight s) (upd (vhash s) n (Some h)) (cur s) (amark s) (rmark s) (roots s) (exec s)
  | WDelV n      => mkS (byHash s) (byHeight s) (upd (vhash s) n None) (cur s) (amark s) (rmark s) (roots s) (exec s)
  | WCur b       => mkS (byHash s) (byHeight s) (vhash s) (Some b) (amark s) (rmark s) (roots s) (exec s)
  | WState r     => mkS (byHash s) (byHeight s) (vhash s) (cur s) (amark s) (rmark s) (upd (roots s) r true) (exec s)
  | WExec ts     => mkS (byHash s) (byHeight s) (vhash s) (cur s) (amark s) (rmark s) (roots s)
                        (fun t => existsb (N.eqb t) ts || exec s t)
  | WUnexec t    => mkS (byHash s) (byHeight s) (vhash s) (cur s) (amark s) (rmark s) (roots s) (upd (exec s) t false)
  end.

Definition apply (ws : list write) (s : st) : st := fold_left apply1 ws s.

(* process death after the k-th store write of an operation *)
Definition crash (k : nat) (ws : list write) (s : st) : st := apply (firstn k ws) s.

(* ---- insertBlock ---- *)
Definition insert_writes (b : block) : list write :=
  [WAddMark b; WPutHash b; WPutHeight b; WState (root b); WPutV (height b) (hash b); WExec (txs b);
   WCur b; WDelAddMark].

(* ---- remove ---- *)
Definition remove_pfx (b : block) : list write :=
  [WRmMark b; WDelHash (hash b); WDelHeight (height b); WDelV (height b)].

Definition remove_writes (s : st) (b : block) : list write :=
  match byHash (apply (remove_pfx b) s) (pre b) with
  | None => remove_pfx b                       (* "Query nil block header ... while removing": return false *)
  | Some p => remove_pfx b ++ [WCur p] ++ map WUnexec (txs b) ++ [WDelRmMark]
  end.

(* ---- ensureChainConsistency (run by initBlockChain when "bcurrent" exists) ---- *)
Definition recover_writes (s : st) : list write :=
  let ws1 := match amark s with Some b => remove_writes s b ++ [WDelAddMark] | None => [] end in
  let s1 := apply ws1 s in
  let ws2 := match rmark s1 with Some b => remove_writes s1 b ++ [WDelRmMark] | None => [] end in
  ws1 ++ ws2.

Definition recover (s : st) : st := apply (recover_writes s) s.

(* initBlockChain then opens the head's state root and panics when it cannot *)
Definition head_openable (s : st) : bool :=
  match cur s with Some h => roots s (root h) | None => false end.

(* a restart that is itself interrupted after j writes of the repair, any number of times *)
Fixpoint faults (js : list nat) (s : st) : st :=
  match js with
  | [] => s
  | j :: r => faults r (crash j (recover_writes s) s)
  end.

(* ---- first start. insertGenesisBlock: gen*GenesisBlock commits the genesis state, then hash index,
   height index, verify hash, head record (the head record LAST since /repo 672c8b4; before that the
   verify hash came after it). initBlockChain: no head record => insertGenesisBlock, else
   ensureChainConsistency. ---- *)
Definition genesis_writes (g : block) : list write :=
  [WState (root g); WPutHash g; WPutHeight g; WPutV (height g) (hash g); WCur g].

Definition st0 : st :=
  mkS (fun _ => None) (fun _ => None) (fun _ => None) None None None (fun _ => false) (fun _ => false).

Definition boot (g : block) (s : st) : st :=
  match cur s with None => apply (genesis_writes g) s | Some _ => recover s end.

(* ---- removeFromCommonAncestor: for height := latest.Height; height > anc.Height; height-- ---- *)
Fixpoint rfca (fuel : nat) (s : st) (anc_h ht : N) : list write :=
  match fuel with
  | O => []
  | S f =>
    if ht <=? anc_h then [] else
    let ws := match byHeight s ht with
              | None => []
              | Some hdr => match byHash s (hash hdr) with
                            | None => []
                            | Some blk => remove_writes s blk
                            end
              end in
    ws ++ rfca f (apply ws s) anc_h (ht - 1)
  end.

(* ---- chainPvGreatThanRemote(localNext, coming) ---- *)
Definition pv_local_greater (x b : block) : bool :=
  (pv b <? pv x) || ((pv x =? pv b) && (hash b <? hash x)).

Inductive result := RSucc | RExisted | RNoPre | RQnLess | RFailed | RFuel.

Definition is_some {A} (o : option A) : bool := match o with Some _ => true | None => false end.

(* verifiedBlocks: lru.New(20), most recently used first. Contains does not touch the order; Add puts
   the key in front and evicts the oldest beyond 20; Get moves the key to the front; Remove drops it. *)
Definition VCAP : nat := 20.
Definition vmem (vf : list N) (h : N) : bool := existsb (N.eqb h) vf.
Definition vf_del (h : N) (vf : list N) : list N := filter (fun x => negb (x =? h)) vf.
Definition vf_add (h : N) (vf : list N) : list N := firstn VCAP (h :: vf_del h vf).
Definition vf_get (h : N) (vf : list N) : list N := if vmem vf h then h :: vf_del h vf else vf.

(* remove(): verifiedBlocks.Remove(hash) - once per removed block, i.e. per WDelHash *)
Definition vf_after (ws : list write) (vf : list N) : list N :=
  fold_left (fun v w => match w with WDelHash h => vf_del h v | _ => v end) ws vf.

(* ---- addBlockOnChain (recursive: after a reorg, and for a waiting orphan after a success).
   Returns the writes, the result code, "out of fuel somewhere" (the Go recursion is unbounded) and
   the verifiedBlocks cache afterwards. *)
Fixpoint add_writes (fuel : nat) (fut : N -> option block) (vf : list N) (s : st) (b : block)
  : list write * result * bool * list N :=
  match fuel with
  | O => ([], RFuel, true, vf)
  | S f =>
    match cur s with
    | None => ([], RFailed, false, vf)                   (* no head: excluded by the invariant *)
    | Some top =>
      if (hash b =? hash top) || is_some (byHash s (hash b)) then ([], RExisted, false, vf) else
      match byHash s (pre b) with
      | None =>
        (* verifyBlock: code 2; on a cache hit the checks are skipped and the weight test or the
           failing parent lookup ends the call *)
        ([], if vmem vf (hash b) && (qn b <? qn top) then RQnLess else RFailed, false, vf)
      | Some anc =>
        if negb (vmem vf (hash b)) && existsb (exec s) (txs b) then ([], RFailed, false, vf) (* code -1 *)
        else
        (* cache hit: verifyBlock returns at once; miss: checkStates ends with verifiedBlocks.Add *)
        let vf1 := if vmem vf (hash b) then vf else vf_add (hash b) vf in
        let reorg :=
          let ws := rfca (N.to_nat (height top - height anc)) s (height anc) (height top) in
          let '(ws2, r, ex, vf2) := add_writes f fut (vf_after ws vf1) (apply ws s) b in
          (ws ++ ws2, r, ex, vf2) in
        if pre b =? hash top then
          let ws := insert_writes b in
          let vfi := vf_get (hash b) vf1 in              (* saveStates: verifiedBlocks.Get *)
          match fut (hash b) with                        (* successOnChainCallBack *)
          | None => (ws, RSucc, false, vfi)
          | Some c => let '(ws2, _, ex, vf2) := add_writes f fut vfi (apply ws s) c in (ws ++ ws2, RSucc, ex, vf2)
          end
        else if qn b <? qn top then ([], RQnLess, false, vf1)
        else if qn top <? qn b then reorg
        else match byHeight s (height anc + 1) with
             | None => ([], RFailed, false, vf1)
             | Some x => if pv_local_greater x b then ([], RQnLess, false, vf1) else reorg
             end
      end
    end
  end.

(* volatile node state: waiting orphans and the verified-block cache *)
Definition vol := ((N -> option block) * list N)%type.

(* ---- AddBlockOnChain: consensusVerify (stub helper accepts), then addBlockOnChain ---- *)
Definition deliver (fuel : nat) (v : vol) (s : st) (b : block) : st * vol * result :=
  let '(fut, vf) := v in
  match byHash s (pre b) with
  | None => (s, (upd fut (pre b) (Some b), vf), RNoPre)
  | Some _ =>
    if is_some (byHash s (hash b)) then (s, v, RExisted) else
    let '(ws, r, _, vf') := add_writes fuel fut vf s b in (apply ws s, (fut, vf'), r)
  end.

Fixpoint run (fuel : nat) (v : vol) (s : st) (hist : list block) : st * vol :=
  match hist with
  | [] => (s, v)
  | b :: r => let '(s', v', _) := deliver fuel v s b in run fuel v' s' r
  end.

(* ---- fork switch (fork_block.go): a chain segment fetched by sync, kept by height in the fork DB.
   newBlockChainFork(commonAncestor); addBlockOnFork: verifyOrder (parent = fork's latest) and
   verifyStateAndReceipt, which opens the state of the fork block at height-1 (so a height gap ends the
   segment); triggerOnChain: lighter => done; common-ancestor search by height from [current]; equal QN
   and local prove value greater => done; first call only: removeFromCommonAncestor, current++; then
   tryAddBlockOnChain (consensusVerify + addBlockOnChain) height by height, stopping at the first
   block that is missing or not added. ---- *)
Record fork := mkF { f_header : N; f_current : N; f_blocks : N -> option block; f_latest : block }.

Definition fork_new (a : block) : fork :=
  mkF (height a) (height a) (upd (fun _ => None) (height a) (Some a)) a.

Definition fork_add (fk : fork) (b : block) : fork * bool :=
  if (pre b =? hash (f_latest fk)) && (height (f_latest fk) + 1 =? height b)
  then (mkF (f_header fk) (f_current fk) (upd (f_blocks fk) (height b) (Some b)) b, true)
  else (fk, false).

Fixpoint fork_anc (n : nat) (fk : fork) (s : st) (ht : N) (acc : option block) : option block :=
  match n with
  | O => acc
  | S n' =>
    if height (f_latest fk) <? ht then acc else
    match f_blocks fk ht, byHeight s ht with
    | Some fb, Some cb => if hash cb =? hash fb then fork_anc n' fk s (ht + 1) (Some fb) else acc
    | _, _ => acc
    end
  end.

(* nextPvGreatThanFork *)
Definition next_pv_great (a top : block) (fk : fork) (s : st) : bool :=
  if (height a <? height (f_latest fk)) && (height a <? height top) then
    match f_blocks fk (height a + 1), byHeight s (height a + 1) with
    | Some fb, Some cb => pv_local_greater cb fb
    | _, _ => true
    end
  else true.

(* the add loop; returns writes, "reached the end", current, volatile state, out-of-fuel *)
Fixpoint fork_adds (n fuel : nat) (v : vol) (s : st) (fk : fork) (cur_h : N)
  : list write * bool * N * vol * bool :=
  match n with
  | O => ([], true, cur_h, v, false)
  | S n' =>
    if height (f_latest fk) <? cur_h then ([], true, cur_h, v, false) else
    match f_blocks fk cur_h with
    | None => ([], false, cur_h, v, false)
    | Some b =>
      let '(fut, vf) := v in
      match byHash s (pre b) with
      | None => ([], false, cur_h, (upd fut (pre b) (Some b), vf), false)     (* NoPreOnChain *)
      | Some _ =>
        if is_some (byHash s (hash b)) then ([], false, cur_h, v, false) else (* BlockExisted *)
        let '(ws, r, ex, vf') := add_writes fuel fut vf s b in
        match r with
        | RSucc =>
          let '(ws2, ok, c2, v2, ex2) := fork_adds n' fuel (fut, vf') (apply ws s) fk (cur_h + 1) in
          (ws ++ ws2, ok, c2, v2, ex || ex2)
        | _ => (ws, false, cur_h, (fut, vf'), ex)
        end
      end
    end
  end.

Definition fork_trigger (fuel : nat) (v : vol) (s : st) (fk : fork)
  : list write * bool * fork * vol * bool :=
  match cur s with
  | None => ([], true, fk, v, false)
  | Some top =>
    let lt := f_latest fk in
    if qn lt <? qn top then ([], true, fk, v, false) else
    match fork_anc (S (N.to_nat (height lt - f_current fk))) fk s (f_current fk) None with
    | None => ([], true, fk, v, false)
    | Some a =>
      if (qn lt =? qn top) && next_pv_great a top fk s then ([], true, fk, v, false) else
      let '(ws0, c1) :=
        if f_current fk =? f_header fk
        then (rfca (N.to_nat (height top - height a)) s (height a) (height top), f_current fk + 1)
        else ([], f_current fk) in
      let v1 := (fst v, vf_after ws0 (snd v)) in
      let '(ws1, ok, c2, v2, ex) :=
        fork_adds (S (N.to_nat (height lt - c1))) fuel v1 (apply ws0 s) fk c1 in
      (ws0 ++ ws1, ok, mkF (f_header fk) c2 (f_blocks fk) lt, v2, ex)
    end
  end.

(* ---- the canonical store for a chain (head first, genesis last) ---- *)
Definition findH (h : N) (l : list block) : option block := find (fun x => hash x =? h) l.
Definition findT (n : N) (l : list block) : option block := find (fun x => height x =? n) l.

Definition st_of (l : list block) : st :=
  mkS (fun h => findH h l) (fun n => findT n l) (fun n => option_map hash (findT n l))
      (hd_error l) None None (fun r => existsb (fun b => root b =? r) l)
      (fun t => existsb (fun b => existsb (N.eqb t) (txs b)) l).
