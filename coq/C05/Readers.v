(* C05 - lock-free readers in the schedule. QueryBlockHeaderByHeight(h, true) / GetBlockHash are called
   without the chain lock (RPC, EVM BLOCKHASH): topBlocks.Get(h), on a miss heightDB.Get(h). Their steps
   interleave with the store writes and the topBlocks updates of insertBlock / remove. In the code as it
   is a reader never writes the cache; the variant in which a miss FILLS the cache with the value read
   (event RFill) is refuted below. *)
From Coq Require Import List NArith Bool Lia.
From V.C05 Require Import Model Proofs.
Import ListNotations.
Local Open Scope N_scope.

Inductive ev :=
| EW (w : write)            (* chain goroutine (under the chain lock): one store write *)
| CAdd (b : block)          (* insertBlock: topBlocks.Add(height, header) *)
| CDel (n : N)              (* remove: topBlocks.Remove(height) *)
| RRead (r : nat) (n : N)   (* reader r: topBlocks.Get(n), on a miss heightDB.Get(n); the value stays with r *)
| RFill (r : nat) (n : N).  (* reader r: topBlocks.Add(n, value it read) - not in the code as it is *)

Record cst := mkC { c_st : st; c_tb : N -> option block; c_reg : nat -> option block }.

Definition cached_read (c : cst) (n : N) : option block :=
  match c_tb c n with Some x => Some x | None => byHeight (c_st c) n end.

Definition estep (c : cst) (e : ev) : cst :=
  match e with
  | EW w => mkC (apply1 (c_st c) w) (c_tb c) (c_reg c)
  | CAdd b => mkC (c_st c) (upd (c_tb c) (height b) (Some b)) (c_reg c)
  | CDel n => mkC (c_st c) (upd (c_tb c) n None) (c_reg c)
  | RRead r n => mkC (c_st c) (c_tb c) (fun x => if Nat.eqb x r then cached_read c n else c_reg c x)
  | RFill r n => match c_reg c r with
                 | Some x => mkC (c_st c) (upd (c_tb c) n (Some x)) (c_reg c)
                 | None => c
                 end
  end.

Definition erun (evs : list ev) (c : cst) : cst := fold_left estep evs c.

(* insertBlock: ... updateVerifyHash, updateTxPool, topBlocks.Add, updateLastBlock, eraseAddBlockMark *)
Definition insert_events (b : block) : list ev :=
  map EW [WAddMark b; WPutHash b; WPutHeight b; WState (root b); WPutV (height b) (hash b); WExec (txs b)]
  ++ [CAdd b] ++ map EW [WCur b; WDelAddMark].

(* remove: mark, three deletes, topBlocks.Remove, then (parent found) head record, unmark, erase mark *)
Definition remove_events (s : st) (b : block) : list ev :=
  map EW (remove_pfx b) ++ [CDel (height b)] ++
  match byHash (apply (remove_pfx b) s) (pre b) with
  | None => []
  | Some p => map EW ([WCur p] ++ map WUnexec (txs b) ++ [WDelRmMark])
  end.

Definition writes_of (evs : list ev) : list write :=
  flat_map (fun e => match e with EW w => [w] | _ => [] end) evs.

Lemma writes_of_EW : forall ws, writes_of (map EW ws) = ws.
Proof.
  induction ws as [|w ws IH]. reflexivity.
  change (writes_of (map EW (w :: ws))) with (w :: writes_of (map EW ws)). now rewrite IH.
Qed.

Lemma writes_of_app : forall a b, writes_of (a ++ b) = writes_of a ++ writes_of b.
Proof. intros. unfold writes_of. apply flat_map_app. Qed.

(* the event lists carry exactly the write lists of the store model *)
Lemma insert_events_writes : forall b, writes_of (insert_events b) = insert_writes b.
Proof. reflexivity. Qed.

Lemma remove_events_writes : forall s b, writes_of (remove_events s b) = remove_writes s b.
Proof.
  intros. unfold remove_events, remove_writes. rewrite !writes_of_app, writes_of_EW. cbn [writes_of flat_map app].
  destruct (byHash (apply (remove_pfx b) s) (pre b)). now rewrite writes_of_EW. now rewrite app_nil_r.
Qed.

Definition is_reader (e : ev) : bool := match e with RRead _ _ | RFill _ _ => true | _ => false end.
Definition main_of (evs : list ev) : list ev := filter (fun e => negb (is_reader e)) evs.
Definition no_fill (evs : list ev) : Prop := forall r n, ~ In (RFill r n) evs.

(* readers that do not fill the cache are invisible to the store and to the cache *)
Lemma readers_transparent : forall evs c c', no_fill evs -> c_st c = c_st c' -> c_tb c = c_tb c' ->
  c_st (erun evs c) = c_st (erun (main_of evs) c') /\ c_tb (erun evs c) = c_tb (erun (main_of evs) c').
Proof.
  induction evs as [|e evs IH]; intros c c' Hn Hs Ht. { cbn. auto. }
  assert (Hn' : no_fill evs) by (intros r n Hi; apply (Hn r n); now right).
  destruct e; cbn [main_of filter is_reader negb erun fold_left].
  - apply IH; auto; cbn; congruence.
  - apply IH; auto; cbn; congruence.
  - apply IH; auto; cbn; congruence.
  - apply IH; auto.
  - exfalso. apply (Hn r n). now left.
Qed.

(* whatever the cache holds for a height is what the height store holds *)
Definition cache_ok (c : cst) : Prop := forall n b, c_tb c n = Some b -> byHeight (c_st c) n = Some b.

Lemma cache_ok_read : forall c, cache_ok c -> forall n, cached_read c n = byHeight (c_st c) n.
Proof. intros c H n. unfold cached_read. destruct (c_tb c n) eqn:E0; auto. symmetry. now apply H. Qed.

Lemma erun_EW : forall ws c, erun (map EW ws) c = mkC (apply ws (c_st c)) (c_tb c) (c_reg c).
Proof.
  induction ws as [|w ws IH]; intro c. now destruct c.
  cbn [map erun fold_left]. change (fold_left estep (map EW ws) (estep c (EW w))) with (erun (map EW ws) (estep c (EW w))).
  rewrite IH. reflexivity.
Qed.

Lemma erun_app : forall a b c, erun (a ++ b) c = erun b (erun a c).
Proof. intros. unfold erun. apply fold_left_app. Qed.

Lemma cache_ok_insert : forall c b, cache_ok c -> cache_ok (erun (insert_events b) c).
Proof.
  intros c b H n x. unfold insert_events. rewrite !erun_app, !erun_EW. cbn. unfold upd.
  destruct (n =? height b); auto.
Qed.

Lemma byHeight_unexec : forall ts s, byHeight (apply (map WUnexec ts) s) = byHeight s.
Proof. intros. destruct (unexec_fields ts s) as [_ [H _]]. exact H. Qed.

Lemma cache_ok_remove : forall c b, cache_ok c -> cache_ok (erun (remove_events (c_st c) b) c).
Proof.
  intros c b H n x. unfold remove_events. rewrite !erun_app, erun_EW.
  destruct (byHash (apply (remove_pfx b) (c_st c)) (pre b)) as [p|].
  - rewrite erun_EW. cbn [c_st c_tb erun fold_left estep]. rewrite !apply_app. cbn [apply fold_left apply1 byHeight].
    rewrite byHeight_unexec. cbn. unfold upd. destruct (n =? height b); [discriminate|]. apply H.
  - cbn. unfold upd. destruct (n =? height b); [discriminate|]. apply H.
Qed.

(* the chain goroutine's events: complete insertBlock / remove runs, one after the other *)
Inductive seq_ops : cst -> list ev -> Prop :=
| so_nil : forall c, seq_ops c []
| so_ins : forall c b r, seq_ops (erun (insert_events b) c) r -> seq_ops c (insert_events b ++ r)
| so_rem : forall c b r, seq_ops (erun (remove_events (c_st c) b) c) r -> seq_ops c (remove_events (c_st c) b ++ r).

Lemma seq_ops_cache_ok : forall c evs, seq_ops c evs -> cache_ok c -> cache_ok (erun evs c).
Proof.
  intros c evs H. induction H; intro Hc. exact Hc.
  - rewrite erun_app. apply IHseq_ops. now apply cache_ok_insert.
  - rewrite erun_app. apply IHseq_ops. now apply cache_ok_remove.
Qed.

(* any interleaving of read-only readers with the chain goroutine: at the end (and at every point
   between two operations) a cached read answers what the height store holds *)
Lemma cached_reads_see_store : forall evs c, no_fill evs -> seq_ops c (main_of evs) -> cache_ok c ->
  cache_ok (erun evs c) /\ forall n, cached_read (erun evs c) n = byHeight (c_st (erun evs c)) n.
Proof.
  intros evs c Hn Hs Hc.
  destruct (readers_transparent evs c c Hn eq_refl eq_refl) as [E1 E2].
  pose proof (seq_ops_cache_ok _ _ Hs Hc) as K.
  assert (K' : cache_ok (erun evs c)).
  { intros n b Hb. rewrite E1. apply K. now rewrite <- E2. }
  split; auto. now apply cache_ok_read.
Qed.
