(* Evaluation of the C05 model on harness-written cases (correspondence check).
   One case = one history on the real chain: the block universe, then steps in order.
     Dl i res wcls o      deliver block i through AddBlockOnChain: result code, the (class,arg) list of
                          index-store writes the real call issued, observables afterwards;
     Cr i k js o          the real stores were set to "state before delivering block i + the first k
                          model-level writes of that delivery (+ the first j writes of each interrupted
                          repair in js)", the chain initialisation was run, observables afterwards.
   Cr steps do not advance the model state; they precede the Dl step of the same delivery.
     Gw wcls              the index-store writes the real insertGenesisBlock issued at the first start;
     Gn k o               the stores were set to the first k model-level writes of insertGenesisBlock, the
                          chain initialisation was run, observables afterwards (only prefixes that
                          contain the head record are replayed on the real code). *)
From Coq Require Import List NArith Bool.
From V.C05 Require Import Model.
Import ListNotations.
Local Open Scope N_scope.

Definition B (h p ht q v r : N) (ts : list N) : block := mkB h p ht q v r ts.

(* head id; ids at heights 0,1,2,... (0 = none) from the height index; same via QueryBlock (height index
   then hash index); verify-hash present per height; ids found in the hash index; marks; head state opens;
   transaction ids found in the pool's executed store *)
Record obs := O { o_head : N; o_heights : list N; o_vh : list bool; o_hashes : list N;
                  o_am : bool; o_rm : bool; o_open : bool; o_exec : list N }.

Inductive step :=
| Dl (i : nat) (res : N) (wcls : list (N * N)) (o : obs)
| Cr (i : nat) (k : nat) (js : list nat) (o : obs)
| Gw (wcls : list (N * N))
| Gn (k : nat) (o : obs)
| Fn (i : nat)                                   (* newBlockChainFork on block i of the local chain *)
| Fa (i : nat) (ok : bool)                       (* addBlockOnFork block i: accepted? *)
| Ft (done : bool) (wcls : list (N * N)) (o : obs)   (* one triggerOnChain call: returned value, writes *)
| Cf (k : nat) (js : list nat) (o : obs)         (* crash inside the next triggerOnChain call *)
| Fd.                                            (* destroy *)

Definition res_code (r : result) : N :=
  match r with RSucc => 0 | RExisted => 1 | RQnLess => 2 | RNoPre => 3 | RFailed => 4 | RFuel => 99 end.

Definition wclass (w : write) : option (N * N) :=
  match w with
  | WAddMark b => Some (1, hash b) | WDelAddMark => Some (2, 0)
  | WRmMark b => Some (3, hash b)  | WDelRmMark => Some (4, 0)
  | WPutHash b => Some (5, hash b) | WDelHash h => Some (6, h)
  | WPutHeight b => Some (7, height b) | WDelHeight n => Some (8, n)
  | WPutV n _ => Some (9, n) | WDelV n => Some (10, n)
  | WCur b => Some (11, hash b)
  | WState _ => None
  | WExec [] => None                       (* MarkExecuted with no receipts writes nothing *)
  | WExec ts => Some (13, fold_left (fun a t => a * 32 + t) ts 0)
  | WUnexec t => Some (14, t)
  end.

Fixpoint classes (ws : list write) : list (N * N) :=
  match ws with
  | [] => []
  | w :: r => match wclass w with Some c => c :: classes r | None => classes r end
  end.

Definition pair_eqb (a b : N * N) : bool := (fst a =? fst b) && (snd a =? snd b).
Fixpoint list_eqb {A} (e : A -> A -> bool) (a b : list A) : bool :=
  match a, b with
  | [], [] => true
  | x :: a', y :: b' => e x y && list_eqb e a' b'
  | _, _ => false
  end.

Definition id_of (o : option block) : N := match o with Some b => hash b | None => 0 end.

Fixpoint heights_ok (s : st) (n : N) (l : list N) : bool :=
  match l with
  | [] => true
  | x :: r => (id_of (byHeight s n) =? x) && heights_ok s (n + 1) r
  end.
Fixpoint vh_ok (s : st) (n : N) (l : list bool) : bool :=
  match l with
  | [] => true
  | x :: r => Bool.eqb (is_some (vhash s n)) x && vh_ok s (n + 1) r
  end.

Definition all_txs (blocks : list block) : list N := flat_map txs blocks.

Definition obs_ok (blocks : list block) (s : st) (o : obs) : bool :=
  (id_of (cur s) =? o_head o)
  && heights_ok s 0 (o_heights o)
  && vh_ok s 0 (o_vh o)
  && forallb (fun b => Bool.eqb (is_some (byHash s (hash b))) (existsb (N.eqb (hash b)) (o_hashes o))) blocks
  && Bool.eqb (is_some (amark s)) (o_am o)
  && Bool.eqb (is_some (rmark s)) (o_rm o)
  && Bool.eqb (head_openable s) (o_open o)
  && forallb (fun t => Bool.eqb (exec s t) (existsb (N.eqb t) (o_exec o))) (all_txs blocks).

Definition dummy : block := mkB 0 0 0 0 0 0 [].
Definition FUEL : nat := 40.

(* the writes of the real call as the model predicts them (consensusVerify rejects -> none) *)
Definition deliver_writes (v : vol) (s : st) (b : block) : list write :=
  match byHash s (pre b) with
  | None => []
  | Some _ => if is_some (byHash s (hash b)) then [] else fst (fst (fst (add_writes FUEL (fst v) (snd v) s b)))
  end.

Definition fork0 : fork := fork_new dummy.

Fixpoint steps_ok (blocks : list block) (fut : vol) (fk : fork) (s : st) (l : list step) : bool :=
  match l with
  | [] => true
  | Fn i :: r => steps_ok blocks fut (fork_new (nth i blocks dummy)) s r
  | Fa i ok :: r =>
      let '(fk', a) := fork_add fk (nth i blocks dummy) in
      Bool.eqb a ok && steps_ok blocks fut fk' s r
  | Ft done wcls o :: r =>
      let '(ws, ok, fk', v', _) := fork_trigger FUEL fut s fk in
      Bool.eqb ok done && list_eqb pair_eqb (classes ws) wcls && obs_ok blocks (apply ws s) o
      && steps_ok blocks v' fk' (apply ws s) r
  | Cf k js o :: r =>
      let '(ws, _, _, _, _) := fork_trigger FUEL fut s fk in
      obs_ok blocks (recover (faults js (crash k ws s))) o && steps_ok blocks fut fk s r
  | Fd :: r => steps_ok blocks fut fork0 s r
  | Dl i res wcls o :: r =>
      let b := nth i blocks dummy in
      let ws := deliver_writes fut s b in
      let '(s', fut', rr) := deliver FUEL fut s b in
      (res_code rr =? res) && list_eqb pair_eqb (classes ws) wcls && obs_ok blocks s' o
      && steps_ok blocks fut' fk s' r
  | Cr i k js o :: r =>
      let b := nth i blocks dummy in
      let ws := deliver_writes fut s b in
      obs_ok blocks (recover (faults js (crash k ws s))) o && steps_ok blocks fut fk s r
  | Gw wcls :: r =>
      list_eqb pair_eqb (classes (genesis_writes (nth 0 blocks dummy))) wcls && steps_ok blocks fut fk s r
  | Gn k o :: r =>
      let g := nth 0 blocks dummy in
      obs_ok blocks (boot g (crash k (genesis_writes g) st0)) o && steps_ok blocks fut fk s r
  end.

Definition check (c : list block * list step) : bool :=
  let '(blocks, l) := c in
  match blocks with
  | g :: _ => steps_ok blocks (fun _ => None, []) fork0 (st_of [g]) l
  | [] => false
  end.
