(* C05 — proofs: representation invariant, crash safety of insert/remove/reorg with interrupted
   restarts, invariant preservation over histories, weight monotonicity. *)
From Coq Require Import List NArith Bool Lia Arith.
From V.C05 Require Import Model.
Import ListNotations.
Local Open Scope N_scope.

(* ---------- generic list / write-list facts ---------- *)
Lemma apply_app : forall a b s, apply (a ++ b) s = apply b (apply a s).
Proof. intros. unfold apply. apply fold_left_app. Qed.

Lemma crash_app_l : forall k a b s, (k <= length a)%nat -> crash k (a ++ b) s = crash k a s.
Proof.
  intros. unfold crash. rewrite firstn_app.
  replace (k - length a)%nat with 0%nat by lia. cbn. now rewrite app_nil_r.
Qed.

Lemma crash_app_r : forall k a b s, (length a <= k)%nat ->
  crash k (a ++ b) s = crash (k - length a) b (apply a s).
Proof.
  intros. unfold crash. rewrite firstn_app, apply_app. now rewrite (firstn_all2 a) by lia.
Qed.

Lemma crash_all : forall k ws s, (length ws <= k)%nat -> crash k ws s = apply ws s.
Proof. intros. unfold crash. now rewrite firstn_all2. Qed.

Lemma crash_0 : forall ws s, crash 0 ws s = s.
Proof. reflexivity. Qed.

Definition suffix (a l : list block) : Prop := exists f, l = f ++ a.

Lemma suffix_refl : forall l, suffix l l.
Proof. intros. now exists []. Qed.
Lemma suffix_cons : forall a b l, suffix a l -> suffix a (b :: l).
Proof. intros a b l [f ->]. now exists (b :: f). Qed.
Lemma suffix_trans : forall a b c, suffix a b -> suffix b c -> suffix a c.
Proof. intros a b c [f ->] [g ->]. exists (g ++ f). now rewrite app_assoc. Qed.
Lemma suffix_in : forall a l x, suffix a l -> In x a -> In x l.
Proof. intros a l x [f ->] H. apply in_or_app. now right. Qed.

(* blocks strictly above height n are dropped from the front *)
Fixpoint drop_above (n : N) (l : list block) : list block :=
  match l with
  | [] => []
  | b :: t => if n <? height b then drop_above n t else l
  end.

Lemma drop_above_suffix : forall n l, suffix (drop_above n l) l.
Proof.
  induction l as [|b t IH]; cbn. apply suffix_refl.
  destruct (n <? height b). now apply suffix_cons. apply suffix_refl.
Qed.

Lemma findH_cons : forall h b l, findH h (b :: l) = if hash b =? h then Some b else findH h l.
Proof. reflexivity. Qed.
Lemma findT_cons : forall n b l, findT n (b :: l) = if height b =? n then Some b else findT n l.
Proof. reflexivity. Qed.

Section Universe.
(* The block tree: U is the set of valid blocks; ids are injective on it and a child is higher than
   its parent and carries at least its cumulative QN (TotalQN = parent's + own qn >= 0). *)
Variable U : block -> Prop.
Variable gen : block.
Hypothesis U_inj : forall x y, U x -> U y -> hash x = hash y -> x = y.
Hypothesis U_child : forall p c, U p -> U c -> pre c = hash p -> height p < height c /\ qn p <= qn c.

(* head first, genesis last, each block's parent link names the next one *)
Fixpoint chain_ok (l : list block) : Prop :=
  match l with
  | [] => False
  | b :: t => U b /\ match t with [] => b = gen | p :: _ => pre b = hash p /\ chain_ok t end
  end.

Record rep (s : st) (l : list block) : Prop := {
  r_hash   : forall h, byHash s h = findH h l;
  r_height : forall n, byHeight s n = findT n l;
  r_vhash  : forall n, vhash s n = option_map hash (findT n l);
  r_cur    : cur s = hd_error l;
  r_amark  : amark s = None;
  r_rmark  : rmark s = None;
  r_roots  : forall x, In x l -> roots s (root x) = true
}.

(* The property's invariant: the store is exactly the canonical image of one chain. *)
Definition Inv (s : st) : Prop := exists l, chain_ok l /\ rep s l.

Lemma chain_ok_U : forall l x, chain_ok l -> In x l -> U x.
Proof.
  induction l as [|b t IH]; cbn; intros x H Hin. contradiction.
  destruct H as [Ub H]. destruct Hin as [->|Hin]. exact Ub.
  destruct t as [|p t']. contradiction. destruct H as [_ H]. now apply IH.
Qed.

Lemma chain_ok_tail : forall b p t, chain_ok (b :: p :: t) -> chain_ok (p :: t).
Proof. intros b p t [_ [_ H]]. exact H. Qed.

Lemma chain_ok_lt : forall t b x, chain_ok (b :: t) -> In x t -> height x < height b.
Proof.
  induction t as [|p t IH]; intros b x H Hin. contradiction.
  assert (Hp : height p < height b).
  { destruct H as [Ub [Hpre Hc]]. apply (U_child p b); auto. apply (chain_ok_U (p :: t)); cbn; auto. }
  destruct Hin as [->|Hin]. exact Hp.
  specialize (IH p x (chain_ok_tail _ _ _ H) Hin). lia.
Qed.

Lemma chain_ok_suffix : forall a l, a <> [] -> suffix a l -> chain_ok l -> chain_ok a.
Proof.
  intros a l Ha [f ->]. induction f as [|b f IH]; cbn [app]; intro H. exact H.
  apply IH. destruct (f ++ a) as [|p t] eqn:E.
  - destruct f; cbn in E; congruence.
  - now apply chain_ok_tail in H.
Qed.

Lemma findH_some : forall h l x, findH h l = Some x -> In x l /\ hash x = h.
Proof. intros h l x H. apply find_some in H. destruct H as [Hi He]. split; auto. now apply N.eqb_eq. Qed.

Lemma findT_some : forall n l x, findT n l = Some x -> In x l /\ height x = n.
Proof. intros n l x H. apply find_some in H. destruct H as [Hi He]. split; auto. now apply N.eqb_eq. Qed.

Lemma findT_none_lt : forall n l, (forall x, In x l -> height x < n) -> findT n l = None.
Proof.
  intros n l H. destruct (findT n l) eqn:E; auto.
  apply findT_some in E. destruct E as [Hi He]. apply H in Hi. lia.
Qed.

Lemma findH_none_in : forall h l x, findH h l = None -> In x l -> hash x <> h.
Proof. intros h l x H Hi He. eapply find_none in H; eauto. cbn in H. apply N.eqb_neq in H. auto. Qed.

Lemma findH_suffix_none : forall h a l, suffix a l -> findH h l = None -> findH h a = None.
Proof.
  intros h a l Hs H. destruct (findH h a) eqn:E; auto.
  apply findH_some in E. destruct E as [Hi He].
  exfalso. eapply findH_none_in; eauto. eapply suffix_in; eauto.
Qed.

(* b can be put on top of chain l *)
Record top_ok (l : list block) (b : block) : Prop := {
  t_U : U b;
  t_pre : exists p t, l = p :: t /\ pre b = hash p;
  t_fresh : findH (hash b) l = None
}.

Lemma top_facts : forall l b, chain_ok l -> top_ok l b ->
  exists p t, l = p :: t /\ pre b = hash p /\ hash p <> hash b /\ pre b <> hash b /\
              findT (height b) l = None /\ findH (hash b) l = None /\ chain_ok (b :: l) /\
              (forall x, In x l -> height x < height b).
Proof.
  intros l b Hc [Ub [p [t [-> Hpre]]] Hf].
  assert (Up : U p) by (apply (chain_ok_U (p :: t)); cbn; auto).
  assert (Hne : hash p <> hash b) by (apply (findH_none_in _ (p :: t)); cbn; auto).
  assert (Hlt : forall x, In x (p :: t) -> height x < height b).
  { intros x [<-|Hi]. apply (U_child p b); auto.
    pose proof (chain_ok_lt _ _ _ Hc Hi). pose proof (proj1 (U_child p b Up Ub Hpre)). lia. }
  exists p, t. split; [reflexivity|]. split; [exact Hpre|]. split; [exact Hne|].
  split; [congruence|]. split; [now apply findT_none_lt|]. split; [exact Hf|].
  split; [|exact Hlt]. cbn. auto.
Qed.

Lemma chain_top_ok : forall b p t, chain_ok (b :: p :: t) -> top_ok (p :: t) b.
Proof.
  intros b p t H. pose proof H as [Ub [Hpre Hc]]. constructor; auto.
  - now exists p, t.
  - destruct (findH (hash b) (p :: t)) eqn:E; auto.
    apply findH_some in E. destruct E as [Hi He].
    assert (b0 = b) by (apply U_inj; auto; eapply chain_ok_U; eauto).
    subst b0. pose proof (chain_ok_lt _ _ _ H Hi). lia.
Qed.

(* A half-done insert of b on top of l, or half-done removal of b from b :: l, or a half-done repair
   of either: only b's own keys, the head record and the marks can differ from the image of l. *)
Record mid (s : st) (l : list block) (b : block) : Prop := {
  m_mark   : amark s = Some b \/ rmark s = Some b;
  m_amark  : amark s = None \/ amark s = Some b;
  m_rmark  : rmark s = None \/ rmark s = Some b;
  m_hash   : forall h, h <> hash b -> byHash s h = findH h l;
  m_hashb  : byHash s (hash b) = None \/ byHash s (hash b) = Some b;
  m_height : forall n, n <> height b -> byHeight s n = findT n l;
  m_heightb: byHeight s (height b) = None \/ byHeight s (height b) = Some b;
  m_vhash  : forall n, n <> height b -> vhash s n = option_map hash (findT n l);
  m_vhashb : vhash s (height b) = None \/ vhash s (height b) = Some (hash b);
  m_cur    : cur s = hd_error l \/ cur s = Some b;
  m_roots  : forall x, In x l -> roots s (root x) = true
}.

Definition quasi (s : st) (l : list block) : Prop :=
  rep s l \/ exists b, top_ok l b /\ mid s l b.

Ltac upd_solve :=
  unfold crash; cbn - [findH findT]; unfold upd; intros;
  repeat match goal with
         | |- context [?a =? ?b] => destruct (N.eqb_spec a b); subst
         end; try congruence; auto.

(* ---------- insert: every crash point ---------- *)
Lemma rep_insert : forall s l b, chain_ok l -> top_ok l b -> rep s l ->
  rep (apply (insert_writes b) s) (b :: l).
Proof.
  intros s l b Hc Ht [R1 R2 R3 R4 R5 R6 R7].
  destruct (top_facts l b Hc Ht) as [p [t [-> [Hpre [Hne [Hne2 [HT [HF [Hc' Hlt]]]]]]]]].
  constructor; cbn - [findH findT].
  - intro h. unfold upd. rewrite findH_cons, N.eqb_sym. destruct (hash b =? h); auto.
  - intro n. unfold upd. rewrite findT_cons, N.eqb_sym. destruct (height b =? n); auto.
  - intro n. unfold upd. rewrite findT_cons, N.eqb_sym. destruct (height b =? n); cbn [option_map]; auto.
  - reflexivity.
  - reflexivity.
  - exact R6.
  - intros x [<-|Hi]; unfold upd. now rewrite N.eqb_refl.
    destruct (root x =? root b); auto.
Qed.

Lemma ins_crash : forall s l b, chain_ok l -> top_ok l b -> rep s l ->
  forall k, quasi (crash k (insert_writes b) s) l \/ rep (crash k (insert_writes b) s) (b :: l).
Proof.
  intros s l b Hc Ht R k.
  destruct (le_lt_dec 7 k) as [Hk|Hk].
  { right. rewrite crash_all by (cbn; lia). now apply rep_insert. }
  left. destruct k as [|k]. { left. exact R. }
  right. exists b. split; auto.
  destruct (top_facts l b Hc Ht) as [p [t [-> [Hpre [Hne [Hne2 [HT [HF [Hc' Hlt]]]]]]]]].
  destruct R as [R1 R2 R3 R4 R5 R6 R7].
  assert (HB : byHash s (hash b) = None) by (rewrite R1; auto).
  assert (HH : byHeight s (height b) = None) by (rewrite R2; auto).
  assert (HV : vhash s (height b) = None) by (rewrite R3, HT; auto).
  do 6 (destruct k as [|k]; [constructor; try solve [upd_solve] |]); lia.
Qed.

(* ---------- remove of the head: every crash point ---------- *)
Lemma remove_writes_head : forall s b p t, chain_ok (b :: p :: t) -> rep s (b :: p :: t) ->
  remove_writes s b = remove_pfx b ++ [WCur p; WDelRmMark].
Proof.
  intros s b p t Hc R. pose proof (chain_top_ok _ _ _ Hc) as Ht.
  destruct (top_facts _ b (chain_ok_tail _ _ _ Hc) Ht) as [p' [t' [E [Hpre [Hne [Hne2 _]]]]]].
  inversion E; subst p' t'. unfold remove_writes. cbn [remove_pfx apply fold_left apply1 byHash].
  unfold upd. destruct (N.eqb_spec (pre b) (hash b)); [congruence|].
  rewrite (r_hash _ _ R), !findH_cons.
  destruct (N.eqb_spec (hash b) (pre b)); [congruence|].
  rewrite Hpre, N.eqb_refl. reflexivity.
Qed.

Lemma rep_remove : forall s b p t, chain_ok (b :: p :: t) -> rep s (b :: p :: t) ->
  rep (apply (remove_pfx b ++ [WCur p; WDelRmMark]) s) (p :: t).
Proof.
  intros s b p t Hc R. pose proof (chain_top_ok _ _ _ Hc) as Ht.
  destruct (top_facts _ b (chain_ok_tail _ _ _ Hc) Ht) as [p' [t' [E [Hpre [Hne [Hne2 [HT [HF [_ Hlt]]]]]]]]].
  inversion E; subst p' t'. destruct R as [R1 R2 R3 R4 R5 R6 R7].
  constructor; cbn - [findH findT].
  - intro h. unfold upd. destruct (N.eqb_spec h (hash b)). subst; auto.
    rewrite R1. rewrite findH_cons. destruct (N.eqb_spec (hash b) h); [congruence|reflexivity].
  - intro n. unfold upd. destruct (N.eqb_spec n (height b)). subst; auto.
    rewrite R2. rewrite findT_cons. destruct (N.eqb_spec (height b) n); [congruence|reflexivity].
  - intro n. unfold upd. destruct (N.eqb_spec n (height b)). subst. now rewrite HT.
    rewrite R3. rewrite findT_cons. destruct (N.eqb_spec (height b) n); [congruence|reflexivity].
  - reflexivity.
  - exact R5.
  - reflexivity.
  - intros x Hi. apply R7. now right.
Qed.

Lemma rem_crash : forall s b p t, chain_ok (b :: p :: t) -> rep s (b :: p :: t) ->
  forall k, rep (crash k (remove_writes s b) s) (b :: p :: t) \/ quasi (crash k (remove_writes s b) s) (p :: t).
Proof.
  intros s b p t Hc R k. rewrite (remove_writes_head _ _ _ _ Hc R).
  destruct (le_lt_dec 6 k) as [Hk|Hk].
  { right. left. rewrite crash_all by (cbn; lia). now apply rep_remove. }
  destruct k as [|k]. { left. exact R. }
  right. right. exists b. pose proof (chain_top_ok _ _ _ Hc) as Ht. split; auto.
  destruct (top_facts _ b (chain_ok_tail _ _ _ Hc) Ht) as [p' [t' [E [Hpre [Hne [Hne2 [HT [HF [_ Hlt]]]]]]]]].
  inversion E; subst p' t'. destruct R as [R1 R2 R3 R4 R5 R6 R7].
  assert (HB : byHash s (hash b) = Some b) by (rewrite R1, findH_cons; now rewrite N.eqb_refl).
  assert (HH : byHeight s (height b) = Some b) by (rewrite R2, findT_cons; now rewrite N.eqb_refl).
  assert (HV : vhash s (height b) = Some (hash b)) by (rewrite R3, findT_cons; now rewrite N.eqb_refl).
  assert (R1' : forall h, h <> hash b -> byHash s h = findH h (p :: t)).
  { intros h Hh. rewrite R1. rewrite findH_cons. destruct (N.eqb_spec (hash b) h); [congruence|reflexivity]. }
  assert (R2' : forall n, n <> height b -> byHeight s n = findT n (p :: t)).
  { intros n Hn. rewrite R2. rewrite findT_cons. destruct (N.eqb_spec (height b) n); [congruence|reflexivity]. }
  assert (R3' : forall n, n <> height b -> vhash s n = option_map hash (findT n (p :: t))).
  { intros n Hn. rewrite R3. rewrite findT_cons. destruct (N.eqb_spec (height b) n); [congruence|reflexivity]. }
  assert (R7' : forall x, In x (p :: t) -> roots s (root x) = true) by (intros; apply R7; now right).
  cbn in R4.
  do 5 (destruct k as [|k]; [constructor; try solve [upd_solve] |]); lia.
Qed.
