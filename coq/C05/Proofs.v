(* C05 — proofs: representation invariant, crash safety of insert/remove/reorg with interrupted
   restarts, invariant preservation over histories, weight monotonicity. *)
From Coq Require Import List NArith Bool Lia Arith.
From V.C05 Require Import Model.
Import ListNotations.
Local Open Scope N_scope.

(* ---------- generic list / write-list facts ---------- *)
Lemma apply_app : forall a b s, apply (a ++ b) s = apply b (apply a s).
Proof. intros. unfold apply. apply fold_left_app. Qed.

Lemma crash_app_l : forall k a b s, (k <= length a)%nat -> crash k (a ++ b) s = crash k a s.
Proof.
  intros. unfold crash. rewrite firstn_app.
  replace (k - length a)%nat with 0%nat by lia. cbn. now rewrite app_nil_r.
Qed.

Lemma crash_app_r : forall k a b s, (length a <= k)%nat ->
  crash k (a ++ b) s = crash (k - length a) b (apply a s).
Proof.
  intros. unfold crash. rewrite firstn_app, apply_app. now rewrite (firstn_all2 a) by lia.
Qed.

Lemma crash_all : forall k ws s, (length ws <= k)%nat -> crash k ws s = apply ws s.
Proof. intros. unfold crash. now rewrite firstn_all2. Qed.

Lemma crash_0 : forall ws s, crash 0 ws s = s.
Proof. reflexivity. Qed.

Definition suffix (a l : list block) : Prop := exists f, l = f ++ a.

Lemma suffix_refl : forall l, suffix l l.
Proof. intros. now exists []. Qed.
Lemma suffix_cons : forall a b l, suffix a l -> suffix a (b :: l).
Proof. intros a b l [f ->]. now exists (b :: f). Qed.
Lemma suffix_trans : forall a b c, suffix a b -> suffix b c -> suffix a c.
Proof. intros a b c [f ->] [g ->]. exists (g ++ f). now rewrite app_assoc. Qed.
Lemma suffix_in : forall a l x, suffix a l -> In x a -> In x l.
Proof. intros a l x [f ->] H. apply in_or_app. now right. Qed.

(* blocks strictly above height n are dropped from the front *)
Fixpoint drop_above (n : N) (l : list block) : list block :=
  match l with
  | [] => []
  | b :: t => if n <? height b then drop_above n t else l
  end.

Lemma drop_above_suffix : forall n l, suffix (drop_above n l) l.
Proof.
  induction l as [|b t IH]; cbn. apply suffix_refl.
  destruct (n <? height b). now apply suffix_cons. apply suffix_refl.
Qed.

Lemma findH_cons : forall h b l, findH h (b :: l) = if hash b =? h then Some b else findH h l.
Proof. reflexivity. Qed.
Lemma findT_cons : forall n b l, findT n (b :: l) = if height b =? n then Some b else findT n l.
Proof. reflexivity. Qed.

(* ---------- transactions: membership, executed image of a chain ---------- *)
Definition tmem (t : N) (ts : list N) : bool := existsb (N.eqb t) ts.
Definition E (l : list block) (t : N) : bool := existsb (fun b => tmem t (txs b)) l.
(* no transaction of b is carried by a block of l *)
Definition disj (b : block) (l : list block) : Prop := forall t, tmem t (txs b) = true -> E l t = false.

Lemma tmem_in : forall t ts, tmem t ts = true <-> In t ts.
Proof.
  intros. unfold tmem. rewrite existsb_exists. split.
  - intros [x [Hi He]]. apply N.eqb_eq in He. now subst.
  - intro H. exists t. split; auto. apply N.eqb_refl.
Qed.

Lemma E_cons : forall b l t, E (b :: l) t = tmem t (txs b) || E l t.
Proof. reflexivity. Qed.

Lemma E_app : forall f a t, E (f ++ a) t = E f t || E a t.
Proof. intros. unfold E. apply existsb_app. Qed.

Lemma E_suffix_false : forall a l t, suffix a l -> E l t = false -> E a t = false.
Proof. intros a l t [f ->] H. rewrite E_app in H. now apply orb_false_elim in H. Qed.

Lemma disj_suffix : forall b a l, suffix a l -> disj b l -> disj b a.
Proof. intros b a l Hs H t Ht. eapply E_suffix_false; eauto. Qed.

Lemma tmem_firstn : forall j ts t, tmem t (firstn j ts) = true -> tmem t ts = true.
Proof.
  intros j ts t H. apply tmem_in in H. apply tmem_in. revert H. rewrite <- (firstn_skipn j ts) at 2.
  intro H. apply in_or_app. now left.
Qed.

(* UnMarkExecuted: one delete per transaction - only the executed store changes *)
Lemma unexec_fields : forall ts s,
  byHash (apply (map WUnexec ts) s) = byHash s /\ byHeight (apply (map WUnexec ts) s) = byHeight s /\
  vhash (apply (map WUnexec ts) s) = vhash s /\ cur (apply (map WUnexec ts) s) = cur s /\
  amark (apply (map WUnexec ts) s) = amark s /\ rmark (apply (map WUnexec ts) s) = rmark s /\
  roots (apply (map WUnexec ts) s) = roots s /\
  forall t, exec (apply (map WUnexec ts) s) t = if tmem t ts then false else exec s t.
Proof.
  induction ts as [|a ts IH]; intro s. { cbn. repeat split; auto. }
  cbn [map]. change (apply (WUnexec a :: map WUnexec ts) s) with (apply (map WUnexec ts) (apply1 s (WUnexec a))).
  destruct (IH (apply1 s (WUnexec a))) as [H1 [H2 [H3 [H4 [H5 [H6 [H7 H8]]]]]]].
  rewrite H1, H2, H3, H4, H5, H6, H7. cbn. repeat split; auto.
  intro t. rewrite H8. unfold tmem. cbn [existsb apply1 exec]. unfold upd.
  destruct (existsb (N.eqb t) ts); [now rewrite orb_true_r|]. rewrite orb_false_r. now destruct (t =? a).
Qed.

Lemma vmem_del_le : forall h vf x, vmem (vf_del h vf) x = true -> vmem vf x = true.
Proof.
  unfold vmem, vf_del. intros h vf x H. apply existsb_exists in H. destruct H as [y [Hi He]].
  apply filter_In in Hi. apply existsb_exists. exists y. tauto.
Qed.

Lemma vmem_firstn_le : forall n vf x, vmem (firstn n vf) x = true -> vmem vf x = true.
Proof.
  unfold vmem. intros n vf x H. apply existsb_exists in H. destruct H as [y [Hi He]].
  apply existsb_exists. exists y. split; auto. rewrite <- (firstn_skipn n vf). apply in_or_app. now left.
Qed.

Lemma vmem_add_le : forall h vf x, vmem (vf_add h vf) x = true -> x = h \/ vmem vf x = true.
Proof.
  unfold vf_add. intros h vf x H. apply vmem_firstn_le in H. unfold vmem in H. cbn [existsb] in H.
  apply orb_prop in H. destruct H as [H|H]. left. now apply N.eqb_eq in H. right. eapply vmem_del_le; eauto.
Qed.

Lemma vmem_get_le : forall h vf x, vmem (vf_get h vf) x = true -> vmem vf x = true.
Proof.
  unfold vf_get. intros h vf x H. destruct (vmem vf h) eqn:Eh; auto.
  unfold vmem in H. cbn [existsb] in H. apply orb_prop in H. destruct H as [H|H].
  apply N.eqb_eq in H. now subst. eapply vmem_del_le; eauto.
Qed.

Lemma vf_after_le : forall ws vf h, vmem (vf_after ws vf) h = true -> vmem vf h = true.
Proof.
  unfold vf_after. induction ws as [|w ws IH]; intros vf h H; cbn in H. exact H.
  apply IH in H. destruct w; auto. eapply vmem_del_le; eauto.
Qed.

Section Universe.
(* The block tree: U is the set of valid blocks; ids are injective on it and a child is higher than
   its parent and carries at least its cumulative QN (TotalQN = parent's + own qn >= 0). *)
Variable U : block -> Prop.
Variable gen : block.
Hypothesis U_inj : forall x y, U x -> U y -> hash x = hash y -> x = y.
Hypothesis U_child : forall p c, U p -> U c -> pre c = hash p -> height p < height c /\ qn p <= qn c.

(* head first, genesis last, each block's parent link names the next one *)
Fixpoint chain_ok (l : list block) : Prop :=
  match l with
  | [] => False
  | b :: t => U b /\ match t with [] => b = gen | p :: _ => pre b = hash p /\ disj b t /\ chain_ok t end
  end.

Record rep (s : st) (l : list block) : Prop := {
  r_hash   : forall h, byHash s h = findH h l;
  r_height : forall n, byHeight s n = findT n l;
  r_vhash  : forall n, vhash s n = option_map hash (findT n l);
  r_cur    : cur s = hd_error l;
  r_amark  : amark s = None;
  r_rmark  : rmark s = None;
  r_roots  : forall x, In x l -> roots s (root x) = true;
  r_exec   : forall t, exec s t = E l t
}.

(* The property's invariant: the store is exactly the canonical image of one chain. *)
Definition Inv (s : st) : Prop := exists l, chain_ok l /\ rep s l.

Lemma chain_ok_U : forall l x, chain_ok l -> In x l -> U x.
Proof.
  induction l as [|b t IH]; cbn; intros x H Hin. contradiction.
  destruct H as [Ub H]. destruct Hin as [->|Hin]. exact Ub.
  destruct t as [|p t']. contradiction. destruct H as [_ [_ H]]. now apply IH.
Qed.

Lemma chain_ok_tail : forall b p t, chain_ok (b :: p :: t) -> chain_ok (p :: t).
Proof. intros b p t [_ [_ [_ H]]]. exact H. Qed.

Lemma chain_ok_lt : forall t b x, chain_ok (b :: t) -> In x t -> height x < height b.
Proof.
  induction t as [|p t IH]; intros b x H Hin. contradiction.
  assert (Hp : height p < height b).
  { destruct H as [Ub [Hpre [_ Hc]]]. apply (U_child p b); auto. apply (chain_ok_U (p :: t)); cbn; auto. }
  destruct Hin as [->|Hin]. exact Hp.
  specialize (IH p x (chain_ok_tail _ _ _ H) Hin). lia.
Qed.

Lemma chain_ok_suffix : forall a l, a <> [] -> suffix a l -> chain_ok l -> chain_ok a.
Proof.
  intros a l Ha [f ->]. induction f as [|b f IH]; cbn [app]; intro H. exact H.
  apply IH. destruct (f ++ a) as [|p t] eqn:E.
  - destruct f; cbn in E; congruence.
  - now apply chain_ok_tail in H.
Qed.

Lemma findH_some : forall h l x, findH h l = Some x -> In x l /\ hash x = h.
Proof. intros h l x H. apply find_some in H. destruct H as [Hi He]. split; auto. now apply N.eqb_eq. Qed.

Lemma findT_some : forall n l x, findT n l = Some x -> In x l /\ height x = n.
Proof. intros n l x H. apply find_some in H. destruct H as [Hi He]. split; auto. now apply N.eqb_eq. Qed.

Lemma findT_none_lt : forall n l, (forall x, In x l -> height x < n) -> findT n l = None.
Proof.
  intros n l H. destruct (findT n l) eqn:E; auto.
  apply findT_some in E. destruct E as [Hi He]. apply H in Hi. lia.
Qed.

Lemma findH_none_in : forall h l x, findH h l = None -> In x l -> hash x <> h.
Proof. intros h l x H Hi He. eapply find_none in H; eauto. cbn in H. apply N.eqb_neq in H. auto. Qed.

Lemma findH_suffix_none : forall h a l, suffix a l -> findH h l = None -> findH h a = None.
Proof.
  intros h a l Hs H. destruct (findH h a) eqn:E; auto.
  apply findH_some in E. destruct E as [Hi He].
  exfalso. eapply findH_none_in; eauto. eapply suffix_in; eauto.
Qed.

(* b can be put on top of chain l *)
Record top_ok (l : list block) (b : block) : Prop := {
  t_U : U b;
  t_pre : exists p t, l = p :: t /\ pre b = hash p;
  t_fresh : findH (hash b) l = None;
  t_disj : disj b l
}.

Lemma top_facts : forall l b, chain_ok l -> top_ok l b ->
  exists p t, l = p :: t /\ pre b = hash p /\ hash p <> hash b /\ pre b <> hash b /\
              findT (height b) l = None /\ findH (hash b) l = None /\ chain_ok (b :: l) /\
              (forall x, In x l -> height x < height b).
Proof.
  intros l b Hc [Ub [p [t [-> Hpre]]] Hf Hd].
  assert (Up : U p) by (apply (chain_ok_U (p :: t)); cbn; auto).
  assert (Hne : hash p <> hash b) by (apply (findH_none_in _ (p :: t)); cbn; auto).
  assert (Hlt : forall x, In x (p :: t) -> height x < height b).
  { intros x [<-|Hi]. apply (U_child p b); auto.
    pose proof (chain_ok_lt _ _ _ Hc Hi). pose proof (proj1 (U_child p b Up Ub Hpre)). lia. }
  exists p, t. split; [reflexivity|]. split; [exact Hpre|]. split; [exact Hne|].
  split; [congruence|]. split; [now apply findT_none_lt|]. split; [exact Hf|].
  split; [|exact Hlt]. cbn. auto.
Qed.

Lemma chain_top_ok : forall b p t, chain_ok (b :: p :: t) -> top_ok (p :: t) b.
Proof.
  intros b p t H. pose proof H as [Ub [Hpre [Hd Hc]]]. constructor; auto.
  - now exists p, t.
  - destruct (findH (hash b) (p :: t)) eqn:E0; auto.
    apply findH_some in E0. destruct E0 as [Hi He].
    assert (b0 = b) by (apply U_inj; auto; eapply chain_ok_U; eauto).
    subst b0. pose proof (chain_ok_lt _ _ _ H Hi). lia.
Qed.

(* A half-done insert of b on top of l, or half-done removal of b from b :: l, or a half-done repair
   of either: only b's own keys, the head record and the marks can differ from the image of l. *)
Record mid (s : st) (l : list block) (b : block) : Prop := {
  m_mark   : amark s = Some b \/ rmark s = Some b;
  m_amark  : amark s = None \/ amark s = Some b;
  m_rmark  : rmark s = None \/ rmark s = Some b;
  m_hash   : forall h, h <> hash b -> byHash s h = findH h l;
  m_hashb  : byHash s (hash b) = None \/ byHash s (hash b) = Some b;
  m_height : forall n, n <> height b -> byHeight s n = findT n l;
  m_heightb: byHeight s (height b) = None \/ byHeight s (height b) = Some b;
  m_vhash  : forall n, n <> height b -> vhash s n = option_map hash (findT n l);
  m_vhashb : vhash s (height b) = None \/ vhash s (height b) = Some (hash b);
  m_cur    : cur s = hd_error l \/ cur s = Some b;
  m_roots  : forall x, In x l -> roots s (root x) = true;
  m_exec   : forall t, tmem t (txs b) = false -> exec s t = E l t
}.

Definition quasi (s : st) (l : list block) : Prop :=
  rep s l \/ exists b, top_ok l b /\ mid s l b.

Ltac upd_solve :=
  unfold crash; cbn - [findH findT]; unfold upd; intros;
  repeat match goal with
         | |- context [?a =? ?b] => destruct (N.eqb_spec a b); subst
         end; try congruence; auto.

(* ---------- insert: every crash point ---------- *)
Ltac exec_solve :=
  unfold crash; cbn - [findH findT E]; intros; unfold tmem in *;
  repeat match goal with H : existsb _ _ = false |- _ => rewrite H end; cbn [orb]; auto.

Lemma rep_insert : forall s l b, chain_ok l -> top_ok l b -> rep s l ->
  rep (apply (insert_writes b) s) (b :: l).
Proof.
  intros s l b Hc Ht [R1 R2 R3 R4 R5 R6 R7 R8].
  destruct (top_facts l b Hc Ht) as [p [t [-> [Hpre [Hne [Hne2 [HT [HF [Hc' Hlt]]]]]]]]].
  constructor; cbn - [findH findT E].
  - intro h. unfold upd. rewrite findH_cons, N.eqb_sym. destruct (hash b =? h); auto.
  - intro n. unfold upd. rewrite findT_cons, N.eqb_sym. destruct (height b =? n); auto.
  - intro n. unfold upd. rewrite findT_cons, N.eqb_sym. destruct (height b =? n); cbn [option_map]; auto.
  - reflexivity.
  - reflexivity.
  - exact R6.
  - intros x [<-|Hi]; unfold upd. now rewrite N.eqb_refl.
    destruct (root x =? root b); auto.
  - intro t0. rewrite E_cons, R8. reflexivity.
Qed.

Lemma ins_crash : forall s l b, chain_ok l -> top_ok l b -> rep s l ->
  forall k, quasi (crash k (insert_writes b) s) l \/ rep (crash k (insert_writes b) s) (b :: l).
Proof.
  intros s l b Hc Ht R k.
  destruct (le_lt_dec 8 k) as [Hk|Hk].
  { right. rewrite crash_all by (cbn; lia). now apply rep_insert. }
  left. destruct k as [|k]. { left. exact R. }
  right. exists b. split; auto.
  destruct (top_facts l b Hc Ht) as [p [t [-> [Hpre [Hne [Hne2 [HT [HF [Hc' Hlt]]]]]]]]].
  destruct R as [R1 R2 R3 R4 R5 R6 R7 R8].
  assert (HB : byHash s (hash b) = None) by (rewrite R1; auto).
  assert (HH : byHeight s (height b) = None) by (rewrite R2; auto).
  assert (HV : vhash s (height b) = None) by (rewrite R3, HT; auto).
  do 7 (destruct k as [|k]; [constructor; try solve [upd_solve]; try solve [exec_solve] |]); lia.
Qed.

(* ---------- remove of the head: every crash point ---------- *)
Notation rm_w1 b p := (remove_pfx b ++ [WCur p]).

Lemma remove_writes_head : forall s b p t, chain_ok (b :: p :: t) -> rep s (b :: p :: t) ->
  remove_writes s b = rm_w1 b p ++ map WUnexec (txs b) ++ [WDelRmMark].
Proof.
  intros s b p t Hc R. pose proof (chain_top_ok _ _ _ Hc) as Ht.
  destruct (top_facts _ b (chain_ok_tail _ _ _ Hc) Ht) as [p' [t' [E0 [Hpre [Hne [Hne2 _]]]]]].
  inversion E0; subst p' t'. unfold remove_writes. cbn [remove_pfx apply fold_left apply1 byHash].
  unfold upd. destruct (N.eqb_spec (pre b) (hash b)); [congruence|].
  rewrite (r_hash _ _ R), !findH_cons.
  destruct (N.eqb_spec (hash b) (pre b)); [congruence|].
  rewrite Hpre, N.eqb_refl. reflexivity.
Qed.

(* the state after the deletes and the head move of a removal (or of a repair) of b over l *)
Record del (s : st) (l : list block) (b : block) : Prop := {
  d_mid : mid s l b;
  d_hash : byHash s (hash b) = None;
  d_height : byHeight s (height b) = None;
  d_vhash : vhash s (height b) = None;
  d_cur : cur s = hd_error l;
  d_rmark : rmark s = Some b
}.

Lemma del_unexec : forall s l b ts, del s l b -> (forall t, tmem t ts = true -> tmem t (txs b) = true) ->
  del (apply (map WUnexec ts) s) l b /\
  amark (apply (map WUnexec ts) s) = amark s /\
  forall t, exec (apply (map WUnexec ts) s) t = if tmem t ts then false else exec s t.
Proof.
  intros s l b ts [[M1 M2 M3 M4 M5 M6 M7 M8 M9 M10 M11 M12] D1 D2 D3 D4 D5] Hts.
  destruct (unexec_fields ts s) as [H1 [H2 [H3 [H4 [H5 [H6 [H7 H8]]]]]]].
  split; [|split; auto].
  constructor; [constructor|..]; rewrite ?H1, ?H2, ?H3, ?H4, ?H5, ?H6, ?H7; auto.
  intros t0 Ht0. rewrite H8. destruct (tmem t0 ts) eqn:Et; auto.
  apply Hts in Et. congruence.
Qed.

(* both marks gone, b's keys gone, b's transactions unmarked: the image of l *)
Lemma fin_rep : forall s s' l b, del s l b ->
  findH (hash b) l = None -> findT (height b) l = None -> disj b l ->
  (forall t, tmem t (txs b) = true -> exec s t = false) ->
  byHash s' = byHash s -> byHeight s' = byHeight s -> vhash s' = vhash s -> cur s' = cur s ->
  roots s' = roots s -> exec s' = exec s -> amark s' = None -> rmark s' = None -> rep s' l.
Proof.
  intros s s' l b [[M1 M2 M3 M4 M5 M6 M7 M8 M9 M10 M11 M12] D1 D2 D3 D4 D5] HF HT Hd Hx F1 F2 F3 F4 F5 F6 F7 F8.
  constructor; rewrite ?F1, ?F2, ?F3, ?F4, ?F5, ?F6; auto.
  - intro h. destruct (N.eq_dec h (hash b)) as [->|ne]. now rewrite D1, HF. now apply M4.
  - intro n. destruct (N.eq_dec n (height b)) as [->|ne]. now rewrite D2, HT. now apply M6.
  - intro n. destruct (N.eq_dec n (height b)) as [->|ne]. now rewrite D3, HT. now apply M8.
  - intro t0. destruct (tmem t0 (txs b)) eqn:Et. rewrite Hx by auto. symmetry. now apply Hd. now apply M12.
Qed.

Lemma del_mid_amark : forall s l b, del s l b -> amark s = Some b -> mid (apply1 s WDelRmMark) l b.
Proof.
  intros s l b [[M1 M2 M3 M4 M5 M6 M7 M8 M9 M10 M11 M12] D1 D2 D3 D4 D5] Ha.
  constructor; cbn; auto.
Qed.

Lemma rep_remove : forall s b p t, chain_ok (b :: p :: t) -> rep s (b :: p :: t) ->
  rep (apply (remove_writes s b) s) (p :: t) /\
  forall k, rep (crash k (remove_writes s b) s) (b :: p :: t) \/ quasi (crash k (remove_writes s b) s) (p :: t).
Proof.
  intros s b p t Hc R. rewrite (remove_writes_head _ _ _ _ Hc R).
  pose proof (chain_top_ok _ _ _ Hc) as Ht.
  destruct (top_facts _ b (chain_ok_tail _ _ _ Hc) Ht) as [p' [t' [E0 [Hpre [Hne [Hne2 [HT [HF [_ Hlt]]]]]]]]].
  inversion E0; subst p' t'. pose proof (t_disj _ _ Ht) as Hd.
  pose proof R as [R1 R2 R3 R4 R5 R6 R7 R8].
  assert (HB : byHash s (hash b) = Some b) by (rewrite R1, findH_cons; now rewrite N.eqb_refl).
  assert (HH : byHeight s (height b) = Some b) by (rewrite R2, findT_cons; now rewrite N.eqb_refl).
  assert (HV : vhash s (height b) = Some (hash b)) by (rewrite R3, findT_cons; now rewrite N.eqb_refl).
  assert (R1' : forall h, h <> hash b -> byHash s h = findH h (p :: t)).
  { intros h Hh. rewrite R1. rewrite findH_cons. destruct (N.eqb_spec (hash b) h); [congruence|reflexivity]. }
  assert (R2' : forall n, n <> height b -> byHeight s n = findT n (p :: t)).
  { intros n Hn. rewrite R2. rewrite findT_cons. destruct (N.eqb_spec (height b) n); [congruence|reflexivity]. }
  assert (R3' : forall n, n <> height b -> vhash s n = option_map hash (findT n (p :: t))).
  { intros n Hn. rewrite R3. rewrite findT_cons. destruct (N.eqb_spec (height b) n); [congruence|reflexivity]. }
  assert (R7' : forall x, In x (p :: t) -> roots s (root x) = true) by (intros; apply R7; now right).
  assert (R8' : forall t0, tmem t0 (txs b) = false -> exec s t0 = E (p :: t) t0).
  { intros t0 Ht0. rewrite R8, E_cons, Ht0. reflexivity. }
  cbn in R4.
  set (s5 := apply (rm_w1 b p) s).
  assert (D5 : del s5 (p :: t) b).
  { subst s5. constructor; [constructor|..]; try solve [upd_solve]; try solve [exec_solve]. }
  assert (A5 : amark s5 = None) by (subst s5; cbn; exact R5).
  destruct (del_unexec s5 (p :: t) b (txs b) D5 (fun _ H => H)) as [D6 [A6 X6]]. rewrite A5 in A6.
  assert (Fin : rep (apply [WDelRmMark] (apply (map WUnexec (txs b)) s5)) (p :: t)).
  { eapply (fin_rep _ _ _ b D6); auto.
    intros t0 Ht0. rewrite X6, Ht0. reflexivity. }
  split.
  { rewrite !apply_app. exact Fin. }
  intro k. destruct (le_lt_dec k 5) as [Hk|Hk].
  { rewrite crash_app_l by (cbn; lia).
    destruct k as [|k]. { left. exact R. }
    right. right. exists b. split; auto.
    do 5 (destruct k as [|k]; [constructor; try solve [upd_solve]; try solve [exec_solve] |]); lia. }
  right. rewrite crash_app_r by (cbn; lia). fold s5. cbn [length remove_pfx app].
  destruct (le_lt_dec (k - 5) (length (txs b))) as [Hj|Hj].
  - rewrite crash_app_l by (rewrite map_length; exact Hj). unfold crash. rewrite firstn_map.
    right. exists b. split; auto.
    apply (del_unexec s5 (p :: t) b (firstn (k - 5) (txs b)) D5). intros t0. apply tmem_firstn.
  - left. rewrite crash_all by (rewrite app_length, map_length; cbn; lia). rewrite apply_app. exact Fin.
Qed.

Lemma rem_crash : forall s b p t, chain_ok (b :: p :: t) -> rep s (b :: p :: t) ->
  forall k, rep (crash k (remove_writes s b) s) (b :: p :: t) \/ quasi (crash k (remove_writes s b) s) (p :: t).
Proof. intros. now apply rep_remove. Qed.

(* ---------- restart repair from any half-done state, itself interruptible ---------- *)
Lemma remove_writes_mid : forall s p t b, mid s (p :: t) b -> pre b = hash p -> pre b <> hash b ->
  remove_writes s b = rm_w1 b p ++ map WUnexec (txs b) ++ [WDelRmMark].
Proof.
  intros s p t b M Hpre Hne. unfold remove_writes. cbn [remove_pfx apply fold_left apply1 byHash].
  unfold upd. destruct (N.eqb_spec (pre b) (hash b)); [congruence|].
  rewrite (m_hash _ _ _ M) by auto. rewrite Hpre, findH_cons, N.eqb_refl. reflexivity.
Qed.

Lemma recover_writes_mid : forall s p t b, chain_ok (p :: t) -> top_ok (p :: t) b -> mid s (p :: t) b ->
  recover_writes s = rm_w1 b p ++ map WUnexec (txs b) ++
    [WDelRmMark; match amark s with Some _ => WDelAddMark | None => WDelRmMark end].
Proof.
  intros s p t b Hc Ht M.
  destruct (top_facts _ b Hc Ht) as [p' [t' [E0 [Hpre [Hne [Hne2 _]]]]]]. inversion E0; subst p' t'.
  unfold recover_writes. destruct (m_amark _ _ _ M) as [Ha|Ha]; rewrite Ha.
  - destruct (m_mark _ _ _ M) as [Hx|Hr]; [congruence|].
    cbn [apply fold_left app]. rewrite Hr. rewrite (remove_writes_mid _ _ _ _ M Hpre Hne2).
    rewrite <- !app_assoc. reflexivity.
  - rewrite (remove_writes_mid _ _ _ _ M Hpre Hne2).
    assert (Hr : rmark (apply ((rm_w1 b p ++ map WUnexec (txs b) ++ [WDelRmMark]) ++ [WDelAddMark]) s) = None).
    { rewrite !apply_app. reflexivity. }
    rewrite Hr. rewrite app_nil_r, <- !app_assoc. reflexivity.
Qed.

Lemma recover_mid : forall s l b, chain_ok l -> top_ok l b -> mid s l b ->
  (forall j, quasi (crash j (recover_writes s) s) l) /\ rep (apply (recover_writes s) s) l.
Proof.
  intros s l b Hc Ht M.
  destruct (top_facts l b Hc Ht) as [p [t [-> [Hpre [Hne [Hne2 [HT [HF [Hc' Hlt]]]]]]]]].
  pose proof (t_disj _ _ Ht) as Hd.
  rewrite (recover_writes_mid _ _ _ _ Hc Ht M).
  assert (HV : option_map hash (findT (height b) (p :: t)) = None) by now rewrite HT.
  pose proof M as [M1 M2 M3 M4 M5 M6 M7 M8 M9 M10 M11 M12].
  assert (Q0 : quasi s (p :: t)) by (right; exists b; auto).
  set (s5 := apply (rm_w1 b p) s).
  assert (D5 : del s5 (p :: t) b).
  { subst s5. constructor; [constructor|..]; try solve [upd_solve]; try solve [exec_solve]. }
  assert (A5 : amark s5 = amark s) by (subst s5; reflexivity).
  destruct (del_unexec s5 (p :: t) b (txs b) D5 (fun _ H => H)) as [D6 [A6 X6]]. rewrite A5 in A6.
  set (s6 := apply (map WUnexec (txs b)) s5) in *.
  assert (C6 : forall t0, tmem t0 (txs b) = true -> exec s6 t0 = false).
  { intros t0 Ht0. rewrite X6, Ht0. reflexivity. }
  set (X := match amark s with Some _ => WDelAddMark | None => WDelRmMark end).
  assert (Fin : rep (apply [WDelRmMark; X] s6) (p :: t)).
  { eapply (fin_rep s6 _ _ b D6); auto; subst X; destruct M2 as [Ha|Ha]; rewrite Ha; try reflexivity.
    cbn. exact A6 || (cbn; rewrite A6; exact Ha). }
  split.
  2:{ rewrite !apply_app. exact Fin. }
  intro j. destruct (le_lt_dec j 5) as [Hk|Hk].
  { rewrite crash_app_l by (cbn; lia).
    destruct j as [|j]. { exact Q0. }
    right. exists b. split; [exact Ht|].
    do 5 (destruct j as [|j]; [constructor; try solve [upd_solve]; try solve [exec_solve] |]); lia. }
  rewrite crash_app_r by (cbn; lia). fold s5. cbn [length remove_pfx app].
  destruct (le_lt_dec (j - 5) (length (txs b))) as [Hj|Hj].
  { rewrite crash_app_l by (rewrite map_length; exact Hj). unfold crash. rewrite firstn_map.
    right. exists b. split; auto.
    apply (del_unexec s5 (p :: t) b (firstn (j - 5) (txs b)) D5). intros t0. apply tmem_firstn. }
  rewrite crash_app_r by (rewrite map_length; lia). fold s6. rewrite map_length.
  remember (j - 5 - length (txs b))%nat as i. destruct i as [|i]; [lia|].
  destruct i as [|i].
  { unfold crash. cbn [firstn apply fold_left]. destruct M2 as [Ha|Ha].
    - left. eapply (fin_rep s6 _ _ b D6); auto. cbn. now rewrite A6.
    - right. exists b. split; auto. apply del_mid_amark; auto. now rewrite A6. }
  left. rewrite crash_all by (cbn; lia). exact Fin.
Qed.

Lemma recover_writes_rep : forall s l, rep s l -> recover_writes s = [].
Proof.
  intros s l R. unfold recover_writes. rewrite (r_amark _ _ R). cbn. now rewrite (r_rmark _ _ R).
Qed.

Lemma firstn_nil_crash : forall j s, crash j [] s = s.
Proof. intros. unfold crash. now rewrite firstn_nil. Qed.

Lemma recover_quasi : forall s l, chain_ok l -> quasi s l ->
  (forall j, quasi (crash j (recover_writes s) s) l) /\ rep (recover s) l.
Proof.
  intros s l Hc [R|[b [Ht M]]].
  - rewrite (recover_writes_rep _ _ R). unfold recover. rewrite (recover_writes_rep _ _ R). split.
    + intro j. rewrite firstn_nil_crash. now left.
    + exact R.
  - apply (recover_mid s l b Hc Ht M).
Qed.

(* any number of interrupted restarts, then one that completes *)
Lemma faults_quasi : forall js s l, chain_ok l -> quasi s l -> quasi (faults js s) l.
Proof.
  induction js as [|j r IH]; intros s l Hc Q; cbn. exact Q.
  apply IH; auto. now apply recover_quasi.
Qed.

Lemma faults_recover : forall js s l, chain_ok l -> quasi s l -> rep (recover (faults js s)) l.
Proof. intros. apply recover_quasi; auto. now apply faults_quasi. Qed.

(* ---------- removeFromCommonAncestor ---------- *)
Lemma chain_head_at : forall b t n x, chain_ok (b :: t) -> (forall y, In y (b :: t) -> height y <= n) ->
  findT n (b :: t) = Some x -> x = b.
Proof.
  intros b t n x Hc Hb H. rewrite findT_cons in H. destruct (N.eqb_spec (height b) n). congruence.
  apply findT_some in H. destruct H as [Hi He].
  pose proof (chain_ok_lt _ _ _ Hc Hi). pose proof (Hb b (or_introl eq_refl)). lia.
Qed.

Lemma drop_above_all_le : forall n l, (forall y, In y l -> height y <= n) -> drop_above n l = l.
Proof.
  intros n [|b t] H; cbn; auto. destruct (N.ltb_spec n (height b)); auto.
  pose proof (H b (or_introl eq_refl)). lia.
Qed.

Lemma rfca_ok : forall fuel s l anc_h ht,
  chain_ok l -> rep s l ->
  (exists a, In a l /\ height a = anc_h) ->
  (forall y, In y l -> height y <= ht) ->
  (N.to_nat (ht - anc_h) <= fuel)%nat ->
  let ws := rfca fuel s anc_h ht in
  rep (apply ws s) (drop_above anc_h l) /\
  (forall k, exists l', chain_ok l' /\ quasi (crash k ws s) l' /\ suffix l' l /\ suffix (drop_above anc_h l) l').
Proof.
  induction fuel as [|f IH]; intros s l anc_h ht Hc R Ha Hb Hf; cbn zeta.
  - cbn. assert (ht <= anc_h) by lia.
    rewrite drop_above_all_le by (intros y Hy; apply Hb in Hy; lia). split; auto.
    intro k. exists l. rewrite firstn_nil_crash. split; [exact Hc|split; [now left|split; apply suffix_refl]].
  - cbn [rfca]. destruct (N.leb_spec ht anc_h) as [Hle|Hgt].
    { rewrite drop_above_all_le by (intros y Hy; apply Hb in Hy; lia). split; auto.
      intro k. exists l. rewrite firstn_nil_crash. split; [exact Hc|split; [now left|split; apply suffix_refl]]. }
    rewrite (r_height _ _ R). destruct (findT ht l) as [hdr|] eqn:E.
    + destruct l as [|b t]; [contradiction|].
      assert (hdr = b) by (eapply chain_head_at; eauto). subst hdr.
      assert (Hhb : height b = ht) by (apply findT_some in E; tauto).
      rewrite (r_hash _ _ R), findH_cons, N.eqb_refl.
      destruct Ha as [a [Hia Hha]].
      destruct t as [|p t'].
      { destruct Hia as [<-|[]]. lia. }
      assert (Hia' : In a (p :: t')). { destruct Hia as [<-|]; auto. lia. }
      destruct (rep_remove _ _ _ _ Hc R) as [R' RC0].
      set (rw := remove_writes s b) in *.
      pose proof (chain_ok_tail _ _ _ Hc) as Hc'.
      assert (Hb' : forall y, In y (p :: t') -> height y <= ht - 1).
      { intros y Hy. pose proof (chain_ok_lt _ _ _ Hc Hy). lia. }
      destruct (IH _ _ anc_h (ht - 1) Hc' R' (ex_intro _ a (conj Hia' Hha)) Hb' ltac:(lia)) as [IH1 IH2].
      assert (Hd : drop_above anc_h (b :: p :: t') = drop_above anc_h (p :: t')).
      { cbn [drop_above]. destruct (N.ltb_spec anc_h (height b)); auto. lia. }
      rewrite Hd. split.
      * rewrite apply_app. exact IH1.
      * intro k. destruct (le_lt_dec k (length rw)) as [Hk|Hk].
        -- rewrite crash_app_l by auto.
           destruct (RC0 k) as [RC|RC].
           ++ exists (b :: p :: t'). split; [exact Hc|split; [now left|split; [apply suffix_refl|]]].
              rewrite <- Hd. apply drop_above_suffix.
           ++ exists (p :: t'). split; [exact Hc'|split; [exact RC|split; [apply suffix_cons, suffix_refl|apply drop_above_suffix]]].
        -- rewrite crash_app_r by lia. destruct (IH2 (k - length rw)%nat)
             as [l' [C1 [C2 [C3 C4]]]].
           exists l'. split; [exact C1|split; [exact C2|split; [now apply suffix_cons|exact C4]]].
    + assert (Hb' : forall y, In y l -> height y <= ht - 1).
      { intros y Hy. pose proof (Hb y Hy). destruct (N.eq_dec (height y) ht) as [e|]; [|lia].
        exfalso. eapply find_none in E; eauto. cbn in E. apply N.eqb_neq in E. auto. }
      cbn [app apply fold_left]. apply (IH s l anc_h (ht - 1)); auto. lia.
Qed.

Lemma drop_above_at : forall l a, chain_ok l -> In a l -> exists rest, drop_above (height a) l = a :: rest.
Proof.
  induction l as [|b t IH]; intros a Hc Hi. contradiction.
  destruct Hi as [<-|Hi].
  - exists t. cbn. now rewrite N.ltb_irrefl.
  - pose proof (chain_ok_lt _ _ _ Hc Hi) as Hlt. cbn [drop_above].
    destruct (N.ltb_spec (height a) (height b)); [|lia].
    destruct t as [|p t']; [contradiction|]. apply IH; auto. now apply chain_ok_tail in Hc.
Qed.

(* ---------- chains are unique; the verified-block cache; executed store vs disjointness ---------- *)
Lemma chain_gen_in : forall l, chain_ok l -> In gen l.
Proof.
  induction l as [|b t IH]; cbn; intro H. contradiction.
  destruct H as [Ub H]. destruct t as [|p t']. { left. exact H. }
  destruct H as [_ [_ H]]. right. now apply IH.
Qed.

Lemma chain_uniq : forall l1 l2 a, chain_ok (a :: l1) -> chain_ok (a :: l2) -> l1 = l2.
Proof.
  induction l1 as [|p1 t1 IH]; intros l2 a H1 H2.
  - destruct l2 as [|p2 t2]; auto. exfalso.
    destruct H1 as [_ H1]. subst a.
    pose proof (chain_gen_in _ (chain_ok_tail _ _ _ H2)) as Hi.
    pose proof (chain_ok_lt _ _ _ H2 Hi). lia.
  - destruct l2 as [|p2 t2].
    + exfalso. destruct H2 as [_ H2]. subst a.
      pose proof (chain_gen_in _ (chain_ok_tail _ _ _ H1)) as Hi.
      pose proof (chain_ok_lt _ _ _ H1 Hi). lia.
    + assert (p1 = p2).
      { apply U_inj.
        - apply (chain_ok_U _ _ H1). right. now left.
        - apply (chain_ok_U _ _ H2). right. now left.
        - destruct H1 as [_ [e1 _]], H2 as [_ [e2 _]]. congruence. }
      subst p2. f_equal. apply (IH t2 p1); eapply chain_ok_tail; eauto.
Qed.

(* every cached block is tx-disjoint from the (unique) chain below its parent *)
Definition vf_ok (vf : list N) : Prop :=
  forall b a rest, U b -> vmem vf (hash b) = true -> chain_ok (a :: rest) -> pre b = hash a -> disj b (a :: rest).

Lemma vf_ok_after : forall ws vf, vf_ok vf -> vf_ok (vf_after ws vf).
Proof. intros ws vf H b a rest Ub Hv. apply H; auto. eapply vf_after_le; eauto. Qed.

Lemma vf_ok_get : forall h vf, vf_ok vf -> vf_ok (vf_get h vf).
Proof. intros h vf H b a rest Ub Hv. apply H; auto. eapply vmem_get_le; eauto. Qed.

Lemma vf_ok_upd : forall vf b, vf_ok vf -> U b ->
  (forall a rest, chain_ok (a :: rest) -> pre b = hash a -> disj b (a :: rest)) -> vf_ok (vf_add (hash b) vf).
Proof.
  intros vf b H Ub Hb b' a rest Ub' Hv Hc Hp. apply vmem_add_le in Hv. destruct Hv as [e|Hv].
  - assert (b' = b) by (apply U_inj; auto). subst. now apply Hb.
  - now apply (H b' a rest).
Qed.

Lemma exec_disj : forall s l b, rep s l -> existsb (exec s) (txs b) = false -> disj b l.
Proof.
  intros s l b R H t Ht. apply tmem_in in Ht. rewrite <- (r_exec _ _ R). destruct (exec s t) eqn:e; auto.
  assert (existsb (exec s) (txs b) = true) by (apply existsb_exists; eauto). congruence.
Qed.

Lemma disj_exec : forall s l b, rep s l -> disj b l -> existsb (exec s) (txs b) = false.
Proof.
  intros s l b R H. destruct (existsb (exec s) (txs b)) eqn:e; auto.
  apply existsb_exists in e. destruct e as [t [Hi He]]. rewrite (r_exec _ _ R), H in He. discriminate.
  now apply tmem_in.
Qed.

(* ---------- addBlockOnChain ---------- *)
Definition futs_ok (fut : N -> option block) : Prop := forall h c, fut h = Some c -> U c.
Definition qhd (l : list block) : N := match l with b :: _ => qn b | [] => 0 end.

Lemma is_some_false : forall A (o : option A), is_some o = false -> o = None.
Proof. now destruct o. Qed.

Definition add_post (s : st) (l : list block) (b : block) (ws : list write) (r : result) (ex : bool)
  (vf' : list N) : Prop :=
  (exists l', chain_ok l' /\ rep (apply ws s) l' /\ (ex = false -> qhd l <= qhd l') /\
              (ex = false -> r = RSucc -> qn b <= qhd l')) /\
  (forall top t, l = top :: t -> pre b = hash top -> findH (hash b) l = None -> disj b l -> ex = false -> r = RSucc) /\
  (forall k, exists l'', chain_ok l'' /\ quasi (crash k ws s) l'') /\
  vf_ok vf'.

Lemma add_stay : forall s l b r vf, chain_ok l -> rep s l -> r <> RSucc -> vf_ok vf ->
  (forall top t, l = top :: t -> pre b = hash top -> findH (hash b) l = None -> disj b l -> False) ->
  add_post s l b [] r false vf.
Proof.
  intros s l b r vf Hc R Hr Hv Hx. split; [|split; [|split]]; auto.
  - exists l. cbn. split; auto. split; auto. split. lia. congruence.
  - intros top t E1 E2 E3 E4 _. exfalso. eauto.
  - intro k. exists l. rewrite firstn_nil_crash. split; auto. now left.
Qed.

Lemma add_ok : forall fuel fut vf s l b, futs_ok fut -> vf_ok vf -> chain_ok l -> rep s l -> U b ->
  forall ws r ex vf', add_writes fuel fut vf s b = (ws, r, ex, vf') -> add_post s l b ws r ex vf'.
Proof.
  induction fuel as [|f IH]; intros fut vf s l b Hfut Hvf Hc R Ub ws r ex vf' E0.
  { cbn in E0. inversion E0; subst. split; [|split; [|split]]; auto.
    - exists l. cbn. split; auto. split; auto. split; [lia|discriminate].
    - discriminate.
    - intro k. exists l. rewrite firstn_nil_crash. split; auto. now left. }
  cbn [add_writes] in E0. rewrite (r_cur _ _ R) in E0.
  destruct l as [|top t]; [contradiction|]. cbn [hd_error] in E0.
  rewrite !(r_hash _ _ R) in E0.
  destruct ((hash b =? hash top) || is_some (findH (hash b) (top :: t))) eqn:Eex.
  { inversion E0; subst. apply add_stay; auto. discriminate.
    intros top' t' E1 E2 E3 _. inversion E1; subst top' t'. rewrite E3 in Eex. cbn in Eex.
    rewrite orb_false_r in Eex. apply N.eqb_eq in Eex. rewrite findH_cons, Eex, N.eqb_refl in E3. discriminate. }
  apply orb_false_elim in Eex. destruct Eex as [Ene Efr]. apply is_some_false in Efr. apply N.eqb_neq in Ene.
  destruct (findH (pre b) (top :: t)) as [anc|] eqn:Eanc.
  2:{ inversion E0; subst. apply add_stay; auto. destruct (_ && _); discriminate.
      intros top' t' E1 E2 E3 _. inversion E1; subst top' t'.
      rewrite E2, findH_cons, N.eqb_refl in Eanc. discriminate. }
  pose proof Eanc as Eanc0. apply findH_some in Eanc. destruct Eanc as [Hia Hha].
  assert (Utop : U top) by (eapply chain_ok_U; eauto; now left).
  destruct (negb (vmem vf (hash b)) && existsb (exec s) (txs b)) eqn:Ever.
  { inversion E0; subst. apply add_stay; auto. discriminate.
    intros top' t' E1 E2 E3 Hdj. inversion E1; subst top' t'. apply andb_prop in Ever. destruct Ever as [_ Ex].
    rewrite (disj_exec _ _ _ R Hdj) in Ex. discriminate. }
  (* verification passed: b is tx-disjoint from the chain below its parent and may be cached *)
  destruct (drop_above_at _ _ Hc Hia) as [rest Hd].
  assert (Hs1 : suffix (anc :: rest) (top :: t)) by (rewrite <- Hd; apply drop_above_suffix).
  assert (Hc1 : chain_ok (anc :: rest)) by (eapply chain_ok_suffix; eauto; discriminate).
  assert (Uanc : U anc) by (apply (chain_ok_U _ _ Hc Hia)).
  assert (Dj : disj b (anc :: rest) /\ vf_ok (if vmem vf (hash b) then vf else vf_add (hash b) vf)).
  { destruct (vmem vf (hash b)) eqn:Ehit.
    - split. apply (Hvf b anc rest); auto. exact Hvf.
    - cbn in Ever. assert (D0 : disj b (top :: t)) by (eapply exec_disj; eauto).
      assert (D1 : disj b (anc :: rest)) by (eapply disj_suffix; eauto).
      split; auto. apply vf_ok_upd; auto. intros a' rest' Hc' Hp'.
      assert (a' = anc).
      { apply U_inj; auto. eapply chain_ok_U; eauto. now left. congruence. }
      subst a'. rewrite (chain_uniq _ _ _ Hc' Hc1). exact D1. }
  destruct Dj as [Dj Hvf1]. clear Ever.
  remember (if vmem vf (hash b) then vf else vf_add (hash b) vf) as vf1.
  (* the reorg continuation, used by two branches *)
  assert (Reorg : qn top <= qn b -> pre b <> hash top -> forall ws r ex vf',
    (let ws1 := rfca (N.to_nat (height top - height anc)) s (height anc) (height top) in
     let '(ws2, r2, ex2, vf2) := add_writes f fut (vf_after ws1 vf1) (apply ws1 s) b in (ws1 ++ ws2, r2, ex2, vf2))
      = (ws, r, ex, vf') ->
    add_post s (top :: t) b ws r ex vf').
  { intros Hq Hnp ws0 r0 ex0 vf0 E1. cbn zeta in E1.
    assert (Hb : forall y, In y (top :: t) -> height y <= height top).
    { intros y [<-|Hy]. lia. pose proof (chain_ok_lt _ _ _ Hc Hy). lia. }
    destruct (rfca_ok (N.to_nat (height top - height anc)) s (top :: t) (height anc) (height top) Hc R
                (ex_intro _ anc (conj Hia eq_refl)) Hb (le_n _)) as [R1 C1].
    rewrite Hd in R1, C1.
    set (ws1 := rfca (N.to_nat (height top - height anc)) s (height anc) (height top)) in *.
    destruct (add_writes f fut (vf_after ws1 vf1) (apply ws1 s) b) as [[[ws2 r2] ex2] vf2] eqn:E2.
    inversion E1; subst ws0 r0 ex0 vf0.
    destruct (IH fut _ _ _ b Hfut (vf_ok_after ws1 _ Hvf1) Hc1 R1 Ub _ _ _ _ E2) as [[l' [P1 [P2 [P3 P4]]]] [P5 [P6 P7]]].
    assert (Hfr1 : findH (hash b) (anc :: rest) = None) by (eapply findH_suffix_none; eauto).
    split; [|split; [|split]]; auto.
    - exists l'. rewrite apply_app. split; auto. split; auto.
      assert (Hx : ex2 = false -> qn b <= qhd l').
      { intro He. apply P4; auto. eapply P5; eauto. }
      split; auto. intro He. cbn [qhd]. specialize (Hx He). lia.
    - intros top' t' E1' E2' _ _. inversion E1'; subst. congruence.
    - intro k. destruct (le_lt_dec k (length ws1)) as [Hk|Hk].
      + rewrite crash_app_l by auto. destruct (C1 k) as [l'' [Q1 [Q2 _]]]. eauto.
      + rewrite crash_app_r by lia. apply P6. }
  destruct (N.eqb_spec (pre b) (hash top)) as [Hpt|Hpt].
  - (* extend the head *)
    assert (anc = top).
    { rewrite Hpt, findH_cons, N.eqb_refl in Eanc0. congruence. }
    subst anc. cbn [drop_above] in Hd. rewrite N.ltb_irrefl in Hd. inversion Hd; subst rest.
    assert (Ht : top_ok (top :: t) b) by (constructor; auto; now exists top, t).
    pose proof (rep_insert _ _ _ Hc Ht R) as R'.
    destruct (top_facts _ b Hc Ht) as [p' [t' [E' [_ [_ [_ [_ [_ [Hc' _]]]]]]]]].
    assert (Hq : qn top <= qn b) by (apply (U_child top b); auto).
    destruct (fut (hash b)) as [c|] eqn:Ef.
    + cbn zeta in E0.
      destruct (add_writes f fut (vf_get (hash b) vf1) (apply (insert_writes b) s) c) as [[[ws2 r2] ex2] vf2] eqn:E2.
      assert (Ew : ws = insert_writes b ++ ws2) by congruence.
      assert (Er : r = RSucc) by congruence. assert (Ee : ex = ex2) by congruence.
      assert (Ev : vf' = vf2) by congruence. clear E0. subst ws r ex vf'.
      destruct (IH fut _ _ _ c Hfut (vf_ok_get (hash b) _ Hvf1) Hc' R' (Hfut _ _ Ef) _ _ _ _ E2) as [[l' [P1 [P2 [P3 P4]]]] [P5 [P6 P7]]].
      split; [|split; [|split]]; auto.
      * exists l'. rewrite apply_app. split; auto. split; auto. cbn [qhd] in *.
        split; intros; specialize (P3 H); lia.
      * intro k. destruct (le_lt_dec k (length (insert_writes b))) as [Hk|Hk].
        -- rewrite crash_app_l by auto. destruct (ins_crash _ _ _ Hc Ht R k) as [Q|Q]; eauto.
           exists (b :: top :: t). split; auto. now left.
        -- rewrite crash_app_r by lia. apply P6.
    + assert (Ew : ws = insert_writes b) by congruence.
      assert (Er : r = RSucc) by congruence. assert (Ee : ex = false) by congruence.
      assert (Ev : vf' = vf_get (hash b) vf1) by congruence. clear E0. subst ws r ex vf'.
      split; [|split; [|split]]; auto using vf_ok_get.
      * exists (b :: top :: t). split; auto. split; auto. cbn [qhd]. split; intros; lia.
      * intro k. destruct (ins_crash _ _ _ Hc Ht R k) as [Q|Q]; eauto.
        exists (b :: top :: t). split; auto. now left.
  - destruct (N.ltb_spec (qn b) (qn top)) as [Hlt|Hge].
    { inversion E0; subst. apply add_stay; auto. discriminate.
      intros top' t' E1 E2 _ _. inversion E1; subst. congruence. }
    destruct (N.ltb_spec (qn top) (qn b)) as [Hgt|Heq].
    { apply Reorg; auto. }
    rewrite (r_height _ _ R) in E0.
    destruct (findT (height anc + 1) (top :: t)) as [x|].
    2:{ inversion E0; subst. apply add_stay; auto. discriminate.
        intros top' t' E1 E2 _ _. inversion E1; subst. congruence. }
    destruct (pv_local_greater x b).
    { inversion E0; subst. apply add_stay; auto. discriminate.
      intros top' t' E1 E2 _ _. inversion E1; subst. congruence. }
    apply Reorg; auto.
Qed.

(* ---------- invariant over histories ---------- *)
Lemma upd_futs_ok : forall fut k b, futs_ok fut -> U b -> futs_ok (upd fut k (Some b)).
Proof.
  intros fut k b H Ub h c. unfold upd. destruct (h =? k). intro E; inversion E; now subst. apply H.
Qed.

(* the volatile state is sound: waiting orphans are valid blocks, cached blocks are tx-disjoint *)
Definition vol_ok (v : vol) : Prop := futs_ok (fst v) /\ vf_ok (snd v).

Lemma deliver_inv : forall fuel v s b, vol_ok v -> U b -> Inv s ->
  Inv (fst (fst (deliver fuel v s b))) /\ vol_ok (snd (fst (deliver fuel v s b))).
Proof.
  intros fuel [fut vf] s b [Hf Hv] Ub [l [Hc R]]. unfold deliver. cbn [fst snd] in *.
  destruct (byHash s (pre b)). 2:{ cbn. split. now exists l. split; auto. now apply upd_futs_ok. }
  destruct (is_some (byHash s (hash b))). { cbn. split. now exists l. split; auto. }
  destruct (add_writes fuel fut vf s b) as [[[ws r] ex] vf'] eqn:E0. cbn.
  destruct (add_ok fuel fut vf s l b Hf Hv Hc R Ub _ _ _ _ E0) as [[l' [P1 [P2 _]]] [_ [_ P7]]].
  split. now exists l'. split; auto.
Qed.

Lemma run_inv : forall hist fuel v s, Forall U hist -> vol_ok v -> Inv s ->
  Inv (fst (run fuel v s hist)).
Proof.
  induction hist as [|b r IH]; intros fuel v s HU Hf HI; cbn. exact HI.
  inversion HU; subst. pose proof (deliver_inv fuel v s b Hf H1 HI) as [D1 D2].
  destruct (deliver fuel v s b) as [[s' v'] res]. cbn in *. now apply IH.
Qed.

Lemma inv_observables : forall s, Inv s ->
  exists l hd, chain_ok l /\ cur s = Some hd /\ hd_error l = Some hd /\
    (forall x, In x l -> byHash s (hash x) = Some x /\ byHeight s (height x) = Some x) /\
    (forall h x, byHash s h = Some x -> In x l /\ hash x = h) /\
    (forall n x, byHeight s n = Some x -> In x l /\ height x = n /\ height x <= height hd) /\
    amark s = None /\ rmark s = None /\ head_openable s = true /\
    (forall t, exec s t = true <-> exists x, In x l /\ In t (txs x)).
Proof.
  intros s [l [Hc R]]. destruct l as [|hd t]; [contradiction|]. exists (hd :: t), hd.
  split; auto. split. now rewrite (r_cur _ _ R). split; auto. split; [|split; [|split; [|split; [|split; [|split]]]]].
  - intros x Hx. rewrite (r_hash _ _ R), (r_height _ _ R). split.
    + destruct (findH (hash x) (hd :: t)) as [y|] eqn:E.
      * apply findH_some in E. destruct E as [Hy He]. f_equal. apply U_inj; auto; eapply chain_ok_U; eauto.
      * exfalso. eapply findH_none_in; eauto.
    + destruct (findT (height x) (hd :: t)) as [y|] eqn:E.
      * apply findT_some in E. destruct E as [Hy He]. f_equal.
        clear - Hc Hx Hy He U_child U_inj. revert Hc Hx Hy. generalize (hd :: t). induction l as [|b l IH]; intros Hc Hx Hy. contradiction.
        destruct Hx as [<-|Hx], Hy as [<-|Hy]; auto.
        -- pose proof (chain_ok_lt _ _ _ Hc Hy). lia.
        -- pose proof (chain_ok_lt _ _ _ Hc Hx). lia.
        -- destruct l as [|p l']; [contradiction|]. apply IH; auto. now apply chain_ok_tail in Hc.
      * exfalso. eapply find_none in E; eauto. cbn in E. now rewrite N.eqb_refl in E.
  - intros h x E. rewrite (r_hash _ _ R) in E. now apply findH_some.
  - intros n x E. rewrite (r_height _ _ R) in E. apply findT_some in E. destruct E as [Hi He].
    split; auto. split; auto. destruct Hi as [<-|Hi]. lia. pose proof (chain_ok_lt _ _ _ Hc Hi). lia.
  - exact (r_amark _ _ R).
  - exact (r_rmark _ _ R).
  - unfold head_openable. rewrite (r_cur _ _ R). cbn. apply (r_roots _ _ R). now left.
  - intro t0. rewrite (r_exec _ _ R). unfold E. rewrite existsb_exists. split.
    + intros [x [Hi Hm]]. exists x. split; auto. now apply tmem_in.
    + intros [x [Hi Hm]]. exists x. split; auto. now apply tmem_in.
Qed.

(* no transaction is carried twice by the chain *)
Lemma chain_tx_once : forall l, chain_ok l -> forall f x a t, l = f ++ x :: a -> In t (txs x) -> E a t = false.
Proof.
  intros l Hc f x a t0 -> Hi.
  assert (Hx : chain_ok (x :: a)) by (eapply chain_ok_suffix; eauto; [discriminate|now exists f]).
  destruct a as [|p a']. reflexivity. destruct Hx as [_ [_ [Hd _]]]. apply Hd. now apply tmem_in.
Qed.

(* ---------- crash safety, top level ---------- *)
Lemma insert_crash_safe : forall s l b, chain_ok l -> top_ok l b -> rep s l -> forall k js,
  let s' := recover (faults js (crash k (insert_writes b) s)) in rep s' l \/ rep s' (b :: l).
Proof.
  intros s l b Hc Ht R k js. cbn zeta.
  destruct (top_facts _ b Hc Ht) as [p' [t' [E' [_ [_ [_ [_ [_ [Hc' _]]]]]]]]].
  destruct (ins_crash _ _ _ Hc Ht R k) as [Q|Q].
  - left. now apply faults_recover.
  - right. apply faults_recover; auto. now left.
Qed.

Lemma remove_crash_safe : forall s b p t, chain_ok (b :: p :: t) -> rep s (b :: p :: t) -> forall k js,
  let s' := recover (faults js (crash k (remove_writes s b) s)) in rep s' (b :: p :: t) \/ rep s' (p :: t).
Proof.
  intros s b p t Hc R k js. cbn zeta.
  destruct (rem_crash _ _ _ _ Hc R k) as [Q|Q].
  - left. apply faults_recover; auto. now left.
  - right. apply faults_recover; auto. now apply chain_ok_tail in Hc.
Qed.

Lemma add_crash_safe : forall fuel fut vf s b, futs_ok fut -> vf_ok vf -> U b -> Inv s -> forall k js,
  Inv (recover (faults js (crash k (fst (fst (fst (add_writes fuel fut vf s b)))) s))).
Proof.
  intros fuel fut vf s b Hf Hv Ub [l [Hc R]] k js.
  destruct (add_writes fuel fut vf s b) as [[[ws r] ex] vf'] eqn:E0. cbn [fst].
  destruct (add_ok fuel fut vf s l b Hf Hv Hc R Ub _ _ _ _ E0) as [_ [_ [P _]]].
  destruct (P k) as [l'' [Q1 Q2]]. exists l''. split; auto. now apply faults_recover.
Qed.

(* ---------- one head move: fork choice, weight, recovered head on the path ---------- *)
Definition pvh_lt (x b : block) : Prop := pv x < pv b \/ (pv x = pv b /\ hash x < hash b).

Inductive move (l : list block) (b : block) : list block -> result -> Prop :=
| MStay : forall r, r <> RSucc -> move l b l r
| MExtend : forall top t, l = top :: t -> pre b = hash top -> qn top <= qn b -> move l b (b :: l) RSucc
| MReorg : forall front anc rest, l = front ++ anc :: rest -> front <> [] -> pre b = hash anc ->
    (qhd l < qn b \/ (qhd l = qn b /\ exists x, findT (height anc + 1) l = Some x /\ pvh_lt x b)) ->
    move l b (b :: anc :: rest) RSucc.

Lemma verify_disj : forall vf s l b anc rest, vf_ok vf -> rep s l -> U b -> U anc ->
  suffix (anc :: rest) l -> chain_ok (anc :: rest) -> pre b = hash anc ->
  negb (vmem vf (hash b)) && existsb (exec s) (txs b) = false ->
  disj b (anc :: rest) /\ vf_ok (if vmem vf (hash b) then vf else vf_add (hash b) vf).
Proof.
  intros vf s l b anc rest Hvf R Ub Uanc Hs1 Hc1 Hha Ever.
  destruct (vmem vf (hash b)) eqn:Ehit.
  - split. apply (Hvf b anc rest); auto. exact Hvf.
  - cbn in Ever. assert (D0 : disj b l) by (eapply exec_disj; eauto).
    assert (D1 : disj b (anc :: rest)) by (eapply disj_suffix; eauto).
    split; auto. apply vf_ok_upd; auto. intros a' rest' Hc' Hp'.
    assert (a' = anc).
    { apply U_inj; auto. eapply chain_ok_U; eauto. now left. congruence. }
    subst a'. rewrite (chain_uniq _ _ _ Hc' Hc1). exact D1.
Qed.

Lemma add_extend : forall f fut vf s top t b, rep s (top :: t) -> pre b = hash top ->
  findH (hash b) (top :: t) = None -> fut (hash b) = None -> disj b (top :: t) ->
  add_writes (S f) fut vf s b =
    (insert_writes b, RSucc, false, vf_get (hash b) (if vmem vf (hash b) then vf else vf_add (hash b) vf)).
Proof.
  intros f fut vf s top t b R Hp Hf Hfu Hd. cbn [add_writes]. rewrite (r_cur _ _ R). cbn [hd_error].
  rewrite !(r_hash _ _ R), Hf.
  assert (Hne : hash b <> hash top).
  { intro e. rewrite findH_cons, e, N.eqb_refl in Hf. discriminate. }
  destruct (N.eqb_spec (hash b) (hash top)); [contradiction|]. cbn [orb is_some].
  rewrite Hp, findH_cons, !N.eqb_refl, (disj_exec _ _ _ R Hd), andb_false_r, Hfu. reflexivity.
Qed.

Lemma add_move : forall f fut vf s l b, chain_ok l -> rep s l -> U b -> vf_ok vf -> fut (hash b) = None ->
  forall ws r ex vf', add_writes (S (S f)) fut vf s b = (ws, r, ex, vf') ->
  ex = false /\ exists l', chain_ok l' /\ rep (apply ws s) l' /\ move l b l' r /\
  forall k js, exists l'', chain_ok l'' /\ rep (recover (faults js (crash k ws s))) l'' /\
     (l'' = l' \/ (suffix l'' l /\ (r = RSucc -> findH (pre b) l'' <> None))).
Proof.
  intros f fut vf s l b Hc R Ub Hvf Hfu ws r ex vf' E0.
  assert (Stay : forall r0 vf0, r0 <> RSucc -> ([] : list write, r0, false, vf0) = (ws, r, ex, vf') ->
    ex = false /\ exists l', chain_ok l' /\ rep (apply ws s) l' /\ move l b l' r /\
    forall k js, exists l'', chain_ok l'' /\ rep (recover (faults js (crash k ws s))) l'' /\
     (l'' = l' \/ (suffix l'' l /\ (r = RSucc -> findH (pre b) l'' <> None)))).
  { intros r0 vf0 Hr E1. inversion E1; subst. split; auto. exists l. split; auto. split; auto.
    split. now constructor. intros k js. exists l. rewrite firstn_nil_crash. split; auto. split; auto.
    apply faults_recover; auto. now left. }
  remember (S f) as f1. cbn [add_writes] in E0. rewrite (r_cur _ _ R) in E0.
  destruct l as [|top t]; [contradiction|]. cbn [hd_error] in E0.
  rewrite !(r_hash _ _ R) in E0.
  destruct ((hash b =? hash top) || is_some (findH (hash b) (top :: t))) eqn:Eex.
  { eapply Stay; eauto. discriminate. }
  apply orb_false_elim in Eex. destruct Eex as [Ene Efr]. apply is_some_false in Efr. apply N.eqb_neq in Ene.
  destruct (findH (pre b) (top :: t)) as [anc|] eqn:Eanc.
  2:{ eapply Stay; eauto. destruct (_ && _); discriminate. }
  pose proof Eanc as Eanc0. apply findH_some in Eanc. destruct Eanc as [Hia Hha].
  assert (Utop : U top) by (eapply chain_ok_U; eauto; now left).
  destruct (negb (vmem vf (hash b)) && existsb (exec s) (txs b)) eqn:Ever.
  { eapply Stay; eauto. discriminate. }
  destruct (drop_above_at _ _ Hc Hia) as [rest Hd].
  assert (Hs1 : suffix (anc :: rest) (top :: t)) by (rewrite <- Hd; apply drop_above_suffix).
  assert (Hc1 : chain_ok (anc :: rest)) by (eapply chain_ok_suffix; eauto; discriminate).
  assert (Uanc : U anc) by (apply (chain_ok_U _ _ Hc Hia)).
  destruct (verify_disj vf s _ b anc rest Hvf R Ub Uanc Hs1 Hc1 (eq_sym Hha) Ever) as [Dj Hvf1].
  clear Ever. remember (if vmem vf (hash b) then vf else vf_add (hash b) vf) as vf1.
  assert (Reorg : (qn top < qn b \/ (qn top = qn b /\ exists x, findT (height anc + 1) (top :: t) = Some x /\ pvh_lt x b)) ->
    pre b <> hash top -> forall ws r ex vf',
    (let ws1 := rfca (N.to_nat (height top - height anc)) s (height anc) (height top) in
     let '(ws2, r2, ex2, vf2) := add_writes f1 fut (vf_after ws1 vf1) (apply ws1 s) b in (ws1 ++ ws2, r2, ex2, vf2))
      = (ws, r, ex, vf') ->
    ex = false /\ exists l', chain_ok l' /\ rep (apply ws s) l' /\ move (top :: t) b l' r /\
    forall k js, exists l'', chain_ok l'' /\ rep (recover (faults js (crash k ws s))) l'' /\
     (l'' = l' \/ (suffix l'' (top :: t) /\ (r = RSucc -> findH (pre b) l'' <> None)))).
  { intros Hw Hnp ws0 r0 ex0 vf0 E1. cbn zeta in E1.
    assert (Hb : forall y, In y (top :: t) -> height y <= height top).
    { intros y [<-|Hy]. lia. pose proof (chain_ok_lt _ _ _ Hc Hy). lia. }
    destruct (rfca_ok (N.to_nat (height top - height anc)) s (top :: t) (height anc) (height top) Hc R
                (ex_intro _ anc (conj Hia eq_refl)) Hb (le_n _)) as [R1 C1].
    rewrite Hd in R1, C1.
    set (ws1 := rfca (N.to_nat (height top - height anc)) s (height anc) (height top)) in *.
    assert (Hfr1 : findH (hash b) (anc :: rest) = None) by (eapply findH_suffix_none; eauto).
    subst f1. rewrite (add_extend f fut _ _ anc rest b R1 (eq_sym Hha) Hfr1 Hfu Dj) in E1.
    assert (Ew : ws0 = ws1 ++ insert_writes b) by congruence.
    assert (Er : r0 = RSucc) by congruence. assert (Ee : ex0 = false) by congruence. clear E1. subst ws0 r0 ex0.
    assert (Ht1 : top_ok (anc :: rest) b) by (constructor; auto; now exists anc, rest).
    destruct (top_facts _ b Hc1 Ht1) as [p' [t' [E' [_ [_ [_ [_ [_ [Hc' _]]]]]]]]].
    split; auto. exists (b :: anc :: rest). split; auto. split.
    { rewrite apply_app. now apply rep_insert. }
    split.
    { destruct Hs1 as [front Hfront]. apply (MReorg _ _ front anc rest); auto.
      - intro e. subst front. cbn in Hfront. inversion Hfront; subst. congruence. }
    intros k js. destruct (le_lt_dec k (length ws1)) as [Hk|Hk].
    - rewrite crash_app_l by auto. destruct (C1 k) as [l'' [Q1 [Q2 [Q3 Q4]]]].
      exists l''. split; auto. split. now apply faults_recover. right. split; auto.
      intros _ e. apply (findH_none_in _ _ anc e); auto.
      eapply suffix_in; eauto. now left.
    - rewrite crash_app_r by lia. destruct (ins_crash _ _ _ Hc1 Ht1 R1 (k - length ws1)%nat) as [Q|Q].
      + exists (anc :: rest). split; auto. split. now apply faults_recover. right. split; auto.
        intros _. rewrite <- Hha, findH_cons, N.eqb_refl. discriminate.
      + exists (b :: anc :: rest). split; auto. split; auto. apply faults_recover; auto. now left. }
  destruct (N.eqb_spec (pre b) (hash top)) as [Hpt|Hpt].
  - subst f1. clear Reorg Stay.
    assert (anc = top).
    { rewrite Hpt, findH_cons, N.eqb_refl in Eanc0. congruence. }
    subst anc. cbn [drop_above] in Hd. rewrite N.ltb_irrefl in Hd. inversion Hd; subst rest.
    assert (Ht : top_ok (top :: t) b) by (constructor; auto; now exists top, t).
    destruct (top_facts _ b Hc Ht) as [p' [t' [E' [_ [_ [_ [_ [_ [Hc' _]]]]]]]]].
    rewrite Hfu in E0. assert (Ew : ws = insert_writes b) by congruence.
    assert (Er : r = RSucc) by congruence. assert (Ee : ex = false) by congruence. clear E0. subst ws r ex.
    split; auto. exists (b :: top :: t). split; auto. split. now apply rep_insert.
    split. { apply (MExtend _ _ top t); auto. apply (U_child top b); auto. }
    intros k js. destruct (insert_crash_safe _ _ _ Hc Ht R k js) as [Q|Q].
    + exists (top :: t). split; auto. split; auto. right. split. apply suffix_refl.
      intros _. rewrite Hpt, findH_cons, N.eqb_refl. discriminate.
    + exists (b :: top :: t). auto.
  - destruct (N.ltb_spec (qn b) (qn top)) as [Hlt|Hge].
    { eapply Stay; eauto. discriminate. }
    destruct (N.ltb_spec (qn top) (qn b)) as [Hgt|Heq].
    { eapply Reorg; eauto. }
    rewrite (r_height _ _ R) in E0.
    destruct (findT (height anc + 1) (top :: t)) as [x|] eqn:Ex.
    2:{ eapply Stay; eauto. discriminate. }
    destruct (pv_local_greater x b) eqn:Epv.
    { eapply Stay; eauto. discriminate. }
    eapply Reorg; eauto. right. split. lia. exists x. split; auto.
    unfold pv_local_greater in Epv. apply orb_false_elim in Epv. destruct Epv as [E1 E2].
    apply N.ltb_ge in E1. unfold pvh_lt.
    destruct (N.eq_dec (pv x) (pv b)) as [e|ne]; [|left; lia].
    right. split; auto. rewrite e, N.eqb_refl in E2. cbn in E2. apply N.ltb_ge in E2.
    apply findT_some in Ex. destruct Ex as [Hix _].
    pose proof (findH_none_in _ _ _ Efr Hix). lia.
Qed.

(* ---------- cumulative QN of the head never decreases (any futures, any recursion) ---------- *)
Lemma add_qn_mono : forall fuel fut vf s b, futs_ok fut -> vf_ok vf -> U b -> Inv s ->
  forall ws r ex vf', add_writes fuel fut vf s b = (ws, r, ex, vf') -> ex = false ->
  forall hd hd', cur s = Some hd -> cur (apply ws s) = Some hd' -> qn hd <= qn hd'.
Proof.
  intros fuel fut vf s b Hf Hv Ub [l [Hc R]] ws r ex vf' E0 He hd hd' H1 H2.
  destruct (add_ok fuel fut vf s l b Hf Hv Hc R Ub _ _ _ _ E0) as [[l' [P1 [P2 [P3 _]]]] _].
  specialize (P3 He). rewrite (r_cur _ _ R) in H1. rewrite (r_cur _ _ P2) in H2.
  destruct l as [|x l0]; [discriminate|]. destruct l' as [|x' l0']; [discriminate|].
  cbn in H1, H2. inversion H1; inversion H2; subst. exact P3.
Qed.

(* ---------- fork switch (triggerOnChain) ---------- *)
(* after the writes the store is the image of a chain, and so is every crash state up to a repair *)
Definition q_post (s : st) (ws : list write) : Prop :=
  (exists l', chain_ok l' /\ rep (apply ws s) l') /\
  (forall k, exists l'', chain_ok l'' /\ quasi (crash k ws s) l'').

Lemma q_nil : forall s l, chain_ok l -> rep s l -> q_post s [].
Proof.
  intros s l Hc R. split. now exists l.
  intro k. exists l. rewrite firstn_nil_crash. split; auto. now left.
Qed.

Lemma q_app : forall s ws1 ws2, q_post s ws1 ->
  (forall l1, chain_ok l1 -> rep (apply ws1 s) l1 -> q_post (apply ws1 s) ws2) -> q_post s (ws1 ++ ws2).
Proof.
  intros s ws1 ws2 [[l1 [C1 R1]] K1] H2. destruct (H2 l1 C1 R1) as [[l2 [C2 R2]] K2]. split.
  - exists l2. rewrite apply_app. auto.
  - intro k. destruct (le_lt_dec k (length ws1)) as [Hk|Hk].
    + rewrite crash_app_l by auto. apply K1.
    + rewrite crash_app_r by lia. apply K2.
Qed.

Definition fork_ok (fk : fork) : Prop := forall h b, f_blocks fk h = Some b -> U b.

Lemma fork_adds_ok : forall n fuel v s fk c l, vol_ok v -> fork_ok fk -> chain_ok l -> rep s l ->
  forall ws ok c2 v2 ex, fork_adds n fuel v s fk c = (ws, ok, c2, v2, ex) -> q_post s ws /\ vol_ok v2.
Proof.
  induction n as [|n IH]; intros fuel v s fk c l Hv Hfk Hc R ws ok c2 v2 ex E0.
  { cbn in E0. inversion E0; subst. split; auto. eapply q_nil; eauto. }
  cbn [fork_adds] in E0.
  destruct (height (f_latest fk) <? c). { inversion E0; subst. split; auto. eapply q_nil; eauto. }
  destruct (f_blocks fk c) as [b|] eqn:Eb. 2:{ inversion E0; subst. split; auto. eapply q_nil; eauto. }
  assert (Ub : U b) by (eapply Hfk; eauto).
  destruct v as [fut vf]. destruct Hv as [Hf Hvf]. cbn [fst snd] in *.
  destruct (byHash s (pre b)).
  2:{ inversion E0; subst. split. eapply q_nil; eauto. split; cbn; auto. now apply upd_futs_ok. }
  destruct (is_some (byHash s (hash b))).
  { inversion E0; subst. split. eapply q_nil; eauto. split; auto. }
  destruct (add_writes fuel fut vf s b) as [[[ws1 r1] ex1] vf1] eqn:E1.
  destruct (add_ok fuel fut vf s l b Hf Hvf Hc R Ub _ _ _ _ E1) as [[l1 [P1 [P2 _]]] [_ [P6 P7]]].
  assert (Q1 : q_post s ws1) by (split; [now exists l1|exact P6]).
  destruct r1; try (inversion E0; subst; split; [exact Q1|split; auto]).
  destruct (fork_adds n fuel (fut, vf1) (apply ws1 s) fk (c + 1)) as [[[[ws2 ok2] c3] v3] ex2] eqn:E2.
  inversion E0; subst.
  split.
  - apply q_app; auto. intros l' C' R'.
    exact (proj1 (IH fuel (fut, vf1) (apply ws1 s) fk (c + 1) l' (conj Hf P7) Hfk C' R' _ _ _ _ _ E2)).
  - exact (proj2 (IH fuel (fut, vf1) (apply ws1 s) fk (c + 1) l1 (conj Hf P7) Hfk P1 P2 _ _ _ _ _ E2)).
Qed.

Lemma fork_anc_in : forall n fk s l ht acc a, fork_ok fk -> chain_ok l -> rep s l ->
  (forall x, acc = Some x -> In x l) -> fork_anc n fk s ht acc = Some a -> In a l.
Proof.
  induction n as [|n IH]; intros fk s l ht acc a Hfk Hc R Hacc E0; cbn in E0. now apply Hacc.
  destruct (height (f_latest fk) <? ht). now apply Hacc.
  destruct (f_blocks fk ht) as [fb|] eqn:Ef; [|now apply Hacc].
  rewrite (r_height _ _ R) in E0.
  destruct (findT ht l) as [cb|] eqn:Ec; [|now apply Hacc].
  destruct (N.eqb_spec (hash cb) (hash fb)) as [e|ne]; [|now apply Hacc].
  apply findT_some in Ec. destruct Ec as [Hi _].
  assert (cb = fb) by (apply U_inj; auto; [eapply chain_ok_U; eauto|eapply Hfk; eauto]). subst cb.
  apply (IH fk s l (ht + 1) (Some fb) a Hfk Hc R); [|exact E0]. intros x Hx. inversion Hx; now subst.
Qed.

Lemma fork_trigger_ok : forall fuel v s fk l, vol_ok v -> fork_ok fk -> chain_ok l -> rep s l ->
  forall ws ok fk' v2 ex, fork_trigger fuel v s fk = (ws, ok, fk', v2, ex) -> q_post s ws /\ vol_ok v2.
Proof.
  intros fuel v s fk l Hv Hfk Hc R ws ok fk' v2 ex E0. unfold fork_trigger in E0.
  rewrite (r_cur _ _ R) in E0. destruct l as [|top t]; [contradiction|]. cbn [hd_error] in E0.
  destruct (qn (f_latest fk) <? qn top). { inversion E0; subst. split; auto. eapply q_nil; eauto. }
  destruct (fork_anc _ fk s (f_current fk) None) as [a|] eqn:Ea.
  2:{ inversion E0; subst. split; auto. eapply q_nil; eauto. }
  destruct ((qn (f_latest fk) =? qn top) && next_pv_great a top fk s).
  { inversion E0; subst. split; auto. eapply q_nil; eauto. }
  assert (Hia : In a (top :: t)) by (eapply fork_anc_in; eauto; discriminate).
  assert (Hb : forall y, In y (top :: t) -> height y <= height top).
  { intros y [<-|Hy]. lia. pose proof (chain_ok_lt _ _ _ Hc Hy). lia. }
  destruct (rfca_ok (N.to_nat (height top - height a)) s (top :: t) (height a) (height top) Hc R
              (ex_intro _ a (conj Hia eq_refl)) Hb (le_n _)) as [R1 C1].
  destruct (drop_above_at _ _ Hc Hia) as [rest Hd]. rewrite Hd in R1, C1.
  assert (Hs1 : suffix (a :: rest) (top :: t)) by (rewrite <- Hd; apply drop_above_suffix).
  assert (Hc1 : chain_ok (a :: rest)) by (eapply chain_ok_suffix; eauto; discriminate).
  destruct v as [fut vf]. destruct Hv as [Hf Hvf]. cbn [fst snd] in *.
  destruct (f_current fk =? f_header fk).
  - set (ws0 := rfca (N.to_nat (height top - height a)) s (height a) (height top)) in *.
    destruct (fork_adds _ fuel (fut, vf_after ws0 vf) (apply ws0 s) fk (f_current fk + 1))
      as [[[[ws1 ok1] c2] v3] ex1] eqn:E1.
    inversion E0; subst.
    assert (Q0 : q_post s ws0).
    { split. now exists (a :: rest). intro k. destruct (C1 k) as [l'' [X1 [X2 _]]]. eauto. }
    assert (Hv1 : vol_ok (fut, vf_after ws0 vf)) by (split; cbn; auto using vf_ok_after).
    split.
    + apply q_app; auto. intros l1 X1 X2.
      exact (proj1 (fork_adds_ok _ fuel _ _ fk _ l1 Hv1 Hfk X1 X2 _ _ _ _ _ E1)).
    + exact (proj2 (fork_adds_ok _ fuel _ _ fk _ _ Hv1 Hfk Hc1 R1 _ _ _ _ _ E1)).
  - cbn [app apply fold_left vf_after] in E0.
    destruct (fork_adds _ fuel (fut, vf) s fk (f_current fk)) as [[[[ws1 ok1] c2] v3] ex1] eqn:E1.
    inversion E0; subst. cbn [app].
    assert (Hv1 : vol_ok (fut, vf)) by (split; auto).
    exact (fork_adds_ok _ fuel _ _ fk _ _ Hv1 Hfk Hc R _ _ _ _ _ E1).
Qed.

(* weight: a switch that runs to the end (every block of the fork from [c] up added) ends on a chain at
   least as heavy as the fork's tip *)
Lemma fork_adds_weight : forall n fuel v s fk c l, vol_ok v -> fork_ok fk -> chain_ok l -> rep s l ->
  f_blocks fk (height (f_latest fk)) = Some (f_latest fk) -> c <= height (f_latest fk) ->
  (N.to_nat (height (f_latest fk) - c) < n)%nat ->
  forall ws c2 v2, fork_adds n fuel v s fk c = (ws, true, c2, v2, false) ->
  exists l', chain_ok l' /\ rep (apply ws s) l' /\ qn (f_latest fk) <= qhd l'.
Proof.
  induction n as [|n IH]; intros fuel v s fk c l Hv Hfk Hc R Hlt Hle Hn ws c2 v2 E0. lia.
  cbn [fork_adds] in E0.
  destruct (N.ltb_spec (height (f_latest fk)) c) as [Hx|_]; [lia|].
  destruct (f_blocks fk c) as [b|] eqn:Eb; [|discriminate].
  assert (Ub : U b) by (eapply Hfk; eauto).
  destruct v as [fut vf]. destruct Hv as [Hf Hvf]. cbn [fst snd] in *.
  destruct (byHash s (pre b)); [|discriminate].
  destruct (is_some (byHash s (hash b))); [discriminate|].
  destruct (add_writes fuel fut vf s b) as [[[ws1 r1] ex1] vf1] eqn:E1.
  destruct (add_ok fuel fut vf s l b Hf Hvf Hc R Ub _ _ _ _ E1) as [[l1 [P1 [P2 [_ P4]]]] [_ [_ P7]]].
  destruct r1; try discriminate.
  destruct (fork_adds n fuel (fut, vf1) (apply ws1 s) fk (c + 1)) as [[[[ws2 ok2] c3] v3] ex2] eqn:E2.
  inversion E0; subst. apply orb_false_elim in H4. destruct H4 as [He1 He2]. subst ex1 ex2.
  assert (Hv1 : vol_ok (fut, vf1)) by (split; auto).
  destruct (N.eq_dec c (height (f_latest fk))) as [e|ne].
  - (* b is the fork's tip; nothing is left to add *)
    assert (b = f_latest fk) by congruence. subst b.
    assert (ws2 = []).
    { destruct n; cbn [fork_adds] in E2. now inversion E2.
      destruct (N.ltb_spec (height (f_latest fk)) (c + 1)); [now inversion E2|lia]. }
    subst ws2. rewrite app_nil_r. exists l1. split; auto.
  - destruct (IH fuel (fut, vf1) (apply ws1 s) fk (c + 1) l1 Hv1 Hfk P1 P2 Hlt ltac:(lia) ltac:(lia) _ _ _ E2)
      as [l' [Q1 [Q2 Q3]]].
    exists l'. rewrite apply_app. auto.
Qed.

Lemma fork_trigger_weight : forall fuel v s fk l, vol_ok v -> fork_ok fk -> chain_ok l -> rep s l ->
  f_blocks fk (height (f_latest fk)) = Some (f_latest fk) ->
  (if f_current fk =? f_header fk then f_current fk + 1 else f_current fk) <= height (f_latest fk) ->
  forall ws fk' v2, fork_trigger fuel v s fk = (ws, true, fk', v2, false) ->
  exists l', chain_ok l' /\ rep (apply ws s) l' /\ qhd l <= qhd l'.
Proof.
  intros fuel v s fk l Hv Hfk Hc R Hlt Hle ws fk' v2 E0. unfold fork_trigger in E0.
  rewrite (r_cur _ _ R) in E0. destruct l as [|top t]; [contradiction|]. cbn [hd_error] in E0.
  assert (Stay : exists l', chain_ok l' /\ rep (apply [] s) l' /\ qhd (top :: t) <= qhd l').
  { exists (top :: t). cbn. split; auto. split; auto. lia. }
  destruct (N.ltb_spec (qn (f_latest fk)) (qn top)) as [_|Hq]. { inversion E0; subst. exact Stay. }
  destruct (fork_anc _ fk s (f_current fk) None) as [a|] eqn:Ea.
  2:{ inversion E0; subst. exact Stay. }
  destruct ((qn (f_latest fk) =? qn top) && next_pv_great a top fk s).
  { inversion E0; subst. exact Stay. }
  assert (Hia : In a (top :: t)) by (eapply fork_anc_in; eauto; discriminate).
  assert (Hb : forall y, In y (top :: t) -> height y <= height top).
  { intros y [<-|Hy]. lia. pose proof (chain_ok_lt _ _ _ Hc Hy). lia. }
  destruct (rfca_ok (N.to_nat (height top - height a)) s (top :: t) (height a) (height top) Hc R
              (ex_intro _ a (conj Hia eq_refl)) Hb (le_n _)) as [R1 _].
  destruct (drop_above_at _ _ Hc Hia) as [rest Hd]. rewrite Hd in R1.
  assert (Hs1 : suffix (a :: rest) (top :: t)) by (rewrite <- Hd; apply drop_above_suffix).
  assert (Hc1 : chain_ok (a :: rest)) by (eapply chain_ok_suffix; eauto; discriminate).
  destruct v as [fut vf]. destruct Hv as [Hf Hvf]. cbn [fst snd] in *.
  destruct (f_current fk =? f_header fk); cbv iota in Hle.
  - set (ws0 := rfca (N.to_nat (height top - height a)) s (height a) (height top)) in *.
    destruct (fork_adds _ fuel (fut, vf_after ws0 vf) (apply ws0 s) fk (f_current fk + 1))
      as [[[[ws1 ok1] c2] v3] ex1] eqn:E1.
    inversion E0; subst.
    assert (Hv1 : vol_ok (fut, vf_after ws0 vf)) by (split; cbn; auto using vf_ok_after).
    destruct (fork_adds_weight _ fuel _ _ fk _ _ Hv1 Hfk Hc1 R1 Hlt Hle (Nat.lt_succ_diag_r _) _ _ _ E1) as [l' [Q1 [Q2 Q3]]].
    exists l'. rewrite apply_app. split; auto. split; auto. cbn [qhd]. lia.
  - cbn [app apply fold_left vf_after] in E0.
    destruct (fork_adds _ fuel (fut, vf) s fk (f_current fk)) as [[[[ws1 ok1] c2] v3] ex1] eqn:E1.
    inversion E0; subst. cbn [app].
    assert (Hv1 : vol_ok (fut, vf)) by (split; auto).
    destruct (fork_adds_weight _ fuel _ _ fk _ _ Hv1 Hfk Hc R Hlt Hle (Nat.lt_succ_diag_r _) _ _ _ E1) as [l' [Q1 [Q2 Q3]]].
    exists l'. split; auto. split; auto. cbn [qhd]. lia.
Qed.

(* one triggerOnChain call, cut anywhere, interrupted restarts, one complete restart: Inv *)
Lemma fork_crash_safe : forall fuel v s fk, vol_ok v -> fork_ok fk -> Inv s -> forall k js,
  Inv (apply (fst (fst (fst (fst (fork_trigger fuel v s fk))))) s) /\
  Inv (recover (faults js (crash k (fst (fst (fst (fst (fork_trigger fuel v s fk))))) s))).
Proof.
  intros fuel v s fk Hv Hfk [l [Hc R]] k js.
  destruct (fork_trigger fuel v s fk) as [[[[ws ok] fk'] v2] ex] eqn:E0. cbn [fst].
  destruct (fork_trigger_ok fuel v s fk l Hv Hfk Hc R _ _ _ _ _ E0) as [[[l' [C' R']] K] _]. split.
  - now exists l'.
  - destruct (K k) as [l'' [Q1 Q2]]. exists l''. split; auto. now apply faults_recover.
Qed.

Lemma fork_new_ok : forall a, U a -> fork_ok (fork_new a).
Proof.
  intros a Ua h b. unfold fork_new, upd. cbn. destruct (h =? height a); [|discriminate]. intro E0. inversion E0. now subst.
Qed.

Lemma fork_add_ok : forall fk b, fork_ok fk -> U b -> fork_ok (fst (fork_add fk b)).
Proof.
  intros fk b Hfk Ub. unfold fork_add. destruct (_ && _); cbn; auto.
  intros h x. cbn. unfold upd. destruct (h =? height b); [|now apply Hfk]. intro E0. inversion E0. now subst.
Qed.

(* ---------- first start: insertGenesisBlock cut anywhere, then a restart ---------- *)
Ltac gen_solve :=
  cbn; unfold upd, tmem; intros;
  try (match goal with H : txs gen = [] |- _ => rewrite H end);
  try (match goal with H : _ \/ False |- _ => destruct H as [<-|[]] end);
  repeat match goal with |- context [?a =? ?b] => destruct (N.eqb_spec a b) end;
  cbn; try congruence; try reflexivity.

Lemma genesis_crash_safe : txs gen = [] -> forall k, rep (boot gen (crash k (genesis_writes gen) st0)) [gen].
Proof.
  intro Htx.
  assert (Full : rep (apply (genesis_writes gen) st0) [gen]) by (constructor; gen_solve).
  intro k. destruct (le_lt_dec 5 k) as [Hk|Hk].
  { rewrite crash_all by (cbn; lia). unfold boot.
    assert (Hcur : cur (apply (genesis_writes gen) st0) = Some gen) by reflexivity. rewrite Hcur.
    unfold recover. rewrite (recover_writes_rep _ _ Full). exact Full. }
  assert (Hn : cur (crash k (genesis_writes gen) st0) = None).
  { do 5 (destruct k as [|k]; [reflexivity|]). lia. }
  unfold boot. rewrite Hn.
  do 5 (destruct k as [|k]; [unfold crash; constructor; gen_solve|]). lia.
Qed.

Lemma rep_st_of : forall l, rep (st_of l) l.
Proof.
  intro l. constructor; cbn; auto.
  intros x Hx. apply existsb_exists. exists x. split; auto. apply N.eqb_refl.
Qed.

End Universe.
