(* C05 — property theorems only (statements + [exact]); proofs are in Proofs.v.
   U is any set of valid blocks (the "block tree"): ids injective, a child is higher than its parent and
   carries at least the parent's cumulative QN. [rep s l] says the store s is exactly the image of the
   chain l (head first, genesis last): hash index = l, height index = l (gaps where l has none, nothing
   above the head), verify-hash index = l, head record = head of l, no marks, every root openable. *)
From Coq Require Import List NArith Bool Lia.
From V.C05 Require Import Model Proofs.
Import ListNotations.
Local Open Scope N_scope.

Definition tree_ok (U : block -> Prop) : Prop :=
  (forall x y, U x -> U y -> hash x = hash y -> x = y) /\
  (forall p c, U p -> U c -> pre c = hash p -> height p < height c /\ qn p <= qn c).

(* What the invariant gives in the property's words: the recorded head is the top of a parent-linked
   chain ending in genesis; every block of it is returned by the hash index and by the height index at
   its height; both indexes hold nothing else (so nothing above the head); no marks; head state opens. *)
Theorem C05_inv_meaning : forall U gen, tree_ok U -> forall s, Inv U gen s ->
  exists l hd, chain_ok U gen l /\ cur s = Some hd /\ hd_error l = Some hd /\
    (forall x, In x l -> byHash s (hash x) = Some x /\ byHeight s (height x) = Some x) /\
    (forall h x, byHash s h = Some x -> In x l /\ hash x = h) /\
    (forall n x, byHeight s n = Some x -> In x l /\ height x = n /\ height x <= height hd) /\
    amark s = None /\ rmark s = None /\ head_openable s = true.
Proof. intros U gen [H1 H2]. exact (inv_observables U gen H1 H2). Qed.
Print Assumptions C05_inv_meaning.

(* Any tree of valid blocks delivered in any order (duplicates, orphans before parents, forks of
   lower/equal/higher weight), any recursion budget, any waiting orphans: the invariant is kept. *)
Theorem C05_inv_history : forall U gen, tree_ok U -> forall hist fuel fut s,
  Forall U hist -> futs_ok U fut -> Inv U gen s -> Inv U gen (fst (run fuel fut s hist)).
Proof. intros U gen [H1 H2]. exact (run_inv U gen H1 H2). Qed.
Print Assumptions C05_inv_history.

(* Process death after ANY number k of store writes of insertBlock, then any number of restarts that
   are themselves cut after js[i] writes of the repair, then one restart that completes: the store is
   the image of the old chain or of the new chain. *)
Theorem C05_crash_safe_insert : forall U gen, tree_ok U -> forall s l b,
  chain_ok U gen l -> top_ok U l b -> rep s l -> forall k js,
  let s' := recover (faults js (crash k (insert_writes b) s)) in rep s' l \/ rep s' (b :: l).
Proof. intros U gen [H1 H2]. exact (insert_crash_safe U gen H1 H2). Qed.
Print Assumptions C05_crash_safe_insert.

Theorem C05_crash_safe_remove : forall U gen, tree_ok U -> forall s b p t,
  chain_ok U gen (b :: p :: t) -> rep s (b :: p :: t) -> forall k js,
  let s' := recover (faults js (crash k (remove_writes s b) s)) in rep s' (b :: p :: t) \/ rep s' (p :: t).
Proof. intros U gen [H1 H2]. exact (remove_crash_safe U gen H1 H2). Qed.
Print Assumptions C05_crash_safe_remove.

(* The whole add-block entry point (fork choice, multi-block reorg, chained orphans): a crash after any
   write prefix and any interrupted restarts still ends in a state satisfying the invariant. *)
Theorem C05_crash_safe_add : forall U gen, tree_ok U -> forall fuel fut s b,
  futs_ok U fut -> U b -> Inv U gen s -> forall k js,
  Inv U gen (recover (faults js (crash k (fst (fst (add_writes fuel fut s b))) s))).
Proof. intros U gen [H1 H2]. exact (add_crash_safe U gen H1 H2). Qed.
Print Assumptions C05_crash_safe_add.

(* One head move (no orphan waiting for b): the chain stays, or b extends the head, or the chain is cut
   back to b's parent and b put on it - the latter only if b's cumulative QN is higher, or equal with
   (prove value, hash) above the local block at the fork point. After a crash anywhere inside, the
   recovered chain is the new chain or a suffix of the old chain that still contains b's parent:
   old head, new head, or a block between the old head and the fork point. *)
Theorem C05_head_move : forall U gen, tree_ok U -> forall f fut s l b,
  chain_ok U gen l -> rep s l -> U b -> fut (hash b) = None ->
  forall ws r ex, add_writes (S (S f)) fut s b = (ws, r, ex) ->
  ex = false /\ exists l', chain_ok U gen l' /\ rep (apply ws s) l' /\ move l b l' r /\
  forall k js, exists l'', chain_ok U gen l'' /\ rep (recover (faults js (crash k ws s))) l'' /\
     (l'' = l' \/ (suffix l'' l /\ (r = RSucc -> findH (pre b) l'' <> None))).
Proof. intros U gen [H1 H2]. exact (add_move U gen H1 H2). Qed.
Print Assumptions C05_head_move.

(* Without crashes the head's cumulative QN never decreases, whatever recursion the call performs
   (re-add after a reorg, chained orphans), provided the recursion budget was not exhausted. *)
Theorem C05_weight_monotone : forall U gen, tree_ok U -> forall fuel fut s b,
  futs_ok U fut -> U b -> Inv U gen s ->
  forall ws r ex, add_writes fuel fut s b = (ws, r, ex) -> ex = false ->
  forall hd hd', cur s = Some hd -> cur (apply ws s) = Some hd' -> qn hd <= qn hd'.
Proof. intros U gen [H1 H2]. exact (add_qn_mono U gen H1 H2). Qed.
Print Assumptions C05_weight_monotone.

(* ---- non-vacuity and order-sensitivity on a concrete tree ---- *)
Definition g0 := mkB 1 0 0 0 0 100.
Definition a1 := mkB 2 1 1 1 5 101.
Definition a2 := mkB 3 2 2 2 5 102.
Definition b1 := mkB 4 1 1 3 4 103.   (* sibling of a1, heavier than a2 *)
Definition U0 (x : block) : Prop := In x [g0; a1; a2; b1].

Lemma U0_tree : tree_ok U0.
Proof.
  split.
  - intros x y Hx Hy. unfold U0 in *. cbn in Hx, Hy.
    repeat (destruct Hx as [<-|Hx]; [|]); try contradiction;
    repeat (destruct Hy as [<-|Hy]; [|]); try contradiction; cbn; intros; try reflexivity; discriminate.
  - intros p c Hp Hq. unfold U0 in *. cbn in Hp, Hq.
    repeat (destruct Hp as [<-|Hp]; [|]); try contradiction;
    repeat (destruct Hq as [<-|Hq]; [|]); try contradiction; cbn; intros; try discriminate; lia.
Qed.

(* The hypotheses are satisfiable: the image of [genesis] satisfies Inv; delivering a2 (orphan), a1
   (pulls a2 in), b1 (heavier fork: two removals and an insert) ends with head b1. *)
Example C05_example :
  Inv U0 g0 (st_of [g0]) /\
  let s := fst (run 10 (fun _ => None) (st_of [g0]) [a2; a1; b1]) in
  option_map hash (cur s) = Some 4 /\ is_some (byHeight s 2) = false /\ is_some (byHash s 2) = false.
Proof.
  split.
  - exists [g0]. split. cbn. split; [left|]; reflexivity. apply rep_st_of.
  - vm_compute. repeat split; reflexivity.
Qed.

(* The proof depends on the write order: with the add mark erased BEFORE the head record is written
   (last two writes of insertBlock swapped), a crash between them leaves a1 indexed above the head and
   no mark for the restart to act on - the invariant is lost. *)
Definition insert_writes_swapped (b : block) : list write :=
  [WAddMark b; WPutHash b; WPutHeight b; WState (root b); WPutV (height b) (hash b); WDelAddMark; WCur b].

Example C05_order_matters :
  ~ Inv U0 g0 (recover (crash 6 (insert_writes_swapped a1) (st_of [g0]))).
Proof.
  intro H. destruct (C05_inv_meaning U0 g0 U0_tree _ H) as [l [hd [_ [Hc [_ [_ [_ [Hh _]]]]]]]].
  vm_compute in Hc. inversion Hc; subst hd.
  destruct (Hh 1 a1 eq_refl) as [_ [_ Hle]]. vm_compute in Hle. apply Hle. reflexivity.
Qed.
