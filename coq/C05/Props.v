(* C05 — property theorems only (statements + [exact]); proofs are in Proofs.v.
   U is any set of valid blocks (the "block tree"): ids injective, a child is higher than its parent and
   carries at least the parent's cumulative QN. [chain_ok U gen l]: l (head first, genesis last) is linked
   by parent hashes, its blocks are in U and no transaction is carried by two of them. [rep s l] says the
   store s is exactly the image of the chain l: hash index = l, height index = l (gaps where l has none,
   nothing above the head), verify-hash index = l, head record = head of l, no marks, every root
   openable, executed-transaction store = the transactions of l. *)
From Coq Require Import List NArith Bool Lia.
From V.C05 Require Import Model Proofs Pending Readers.
Import ListNotations.
Local Open Scope N_scope.

Definition tree_ok (U : block -> Prop) : Prop :=
  (forall x y, U x -> U y -> hash x = hash y -> x = y) /\
  (forall p c, U p -> U c -> pre c = hash p -> height p < height c /\ qn p <= qn c).

(* What the invariant gives in the property's words: the recorded head is the top of a parent-linked
   chain ending in genesis; every block of it is returned by the hash index and by the height index at
   its height; both indexes hold nothing else (so nothing above the head); no marks; head state opens. *)
Theorem C05_inv_meaning : forall U gen, tree_ok U -> forall s, Inv U gen s ->
  exists l hd, chain_ok U gen l /\ cur s = Some hd /\ hd_error l = Some hd /\
    (forall x, In x l -> byHash s (hash x) = Some x /\ byHeight s (height x) = Some x) /\
    (forall h x, byHash s h = Some x -> In x l /\ hash x = h) /\
    (forall n x, byHeight s n = Some x -> In x l /\ height x = n /\ height x <= height hd) /\
    amark s = None /\ rmark s = None /\ head_openable s = true /\
    (forall t, exec s t = true <-> exists x, In x l /\ In t (txs x)).
Proof. intros U gen [H1 H2]. exact (inv_observables U gen H1 H2). Qed.
Print Assumptions C05_inv_meaning.

(* Any tree of valid blocks delivered in any order (duplicates, orphans before parents, forks of
   lower/equal/higher weight), any recursion budget, any waiting orphans: the invariant is kept. *)
Theorem C05_inv_history : forall U gen, tree_ok U -> forall hist fuel v s,
  Forall U hist -> vol_ok U gen v -> Inv U gen s -> Inv U gen (fst (run fuel v s hist)).
Proof. intros U gen [H1 H2]. exact (run_inv U gen H1 H2). Qed.
Print Assumptions C05_inv_history.

(* Process death after ANY number k of store writes of insertBlock, then any number of restarts that
   are themselves cut after js[i] writes of the repair, then one restart that completes: the store is
   the image of the old chain or of the new chain. *)
Theorem C05_crash_safe_insert : forall U gen, tree_ok U -> forall s l b,
  chain_ok U gen l -> top_ok U l b -> rep s l -> forall k js,
  let s' := recover (faults js (crash k (insert_writes b) s)) in rep s' l \/ rep s' (b :: l).
Proof. intros U gen [H1 H2]. exact (insert_crash_safe U gen H1 H2). Qed.
Print Assumptions C05_crash_safe_insert.

Theorem C05_crash_safe_remove : forall U gen, tree_ok U -> forall s b p t,
  chain_ok U gen (b :: p :: t) -> rep s (b :: p :: t) -> forall k js,
  let s' := recover (faults js (crash k (remove_writes s b) s)) in rep s' (b :: p :: t) \/ rep s' (p :: t).
Proof. intros U gen [H1 H2]. exact (remove_crash_safe U gen H1 H2). Qed.
Print Assumptions C05_crash_safe_remove.

(* The whole add-block entry point (fork choice, multi-block reorg, chained orphans): a crash after any
   write prefix and any interrupted restarts still ends in a state satisfying the invariant. *)
Theorem C05_crash_safe_add : forall U gen, tree_ok U -> forall fuel fut vf s b,
  futs_ok U fut -> vf_ok U gen vf -> U b -> Inv U gen s -> forall k js,
  Inv U gen (recover (faults js (crash k (fst (fst (fst (add_writes fuel fut vf s b)))) s))).
Proof. intros U gen [H1 H2]. exact (add_crash_safe U gen H1 H2). Qed.
Print Assumptions C05_crash_safe_add.

(* One head move (no orphan waiting for b): the chain stays, or b extends the head, or the chain is cut
   back to b's parent and b put on it - the latter only if b's cumulative QN is higher, or equal with
   (prove value, hash) above the local block at the fork point. After a crash anywhere inside, the
   recovered chain is the new chain or a suffix of the old chain that still contains b's parent:
   old head, new head, or a block between the old head and the fork point. *)
Theorem C05_head_move : forall U gen, tree_ok U -> forall f fut vf s l b,
  chain_ok U gen l -> rep s l -> U b -> vf_ok U gen vf -> fut (hash b) = None ->
  forall ws r ex vf', add_writes (S (S f)) fut vf s b = (ws, r, ex, vf') ->
  ex = false /\ exists l', chain_ok U gen l' /\ rep (apply ws s) l' /\ move l b l' r /\
  forall k js, exists l'', chain_ok U gen l'' /\ rep (recover (faults js (crash k ws s))) l'' /\
     (l'' = l' \/ (suffix l'' l /\ (r = RSucc -> findH (pre b) l'' <> None))).
Proof. intros U gen [H1 H2]. exact (add_move U gen H1 H2). Qed.
Print Assumptions C05_head_move.

(* Without crashes the head's cumulative QN never decreases, whatever recursion the call performs
   (re-add after a reorg, chained orphans), provided the recursion budget was not exhausted. *)
Theorem C05_weight_monotone : forall U gen, tree_ok U -> forall fuel fut vf s b,
  futs_ok U fut -> vf_ok U gen vf -> U b -> Inv U gen s ->
  forall ws r ex vf', add_writes fuel fut vf s b = (ws, r, ex, vf') -> ex = false ->
  forall hd hd', cur s = Some hd -> cur (apply ws s) = Some hd' -> qn hd <= qn hd'.
Proof. intros U gen [H1 H2]. exact (add_qn_mono U gen H1 H2). Qed.
Print Assumptions C05_weight_monotone.

(* Pool clause. Whenever the store is the image of a chain l - by the theorems above: after every
   delivery, and after the restart that follows a crash at any write of any delivery - the executed
   store holds exactly the transactions of l's blocks, each carried by one block only. Hence after a
   reorg the transactions of the removed blocks are unmarked unless the new chain carries them, and
   those of the new chain are marked. (The volatile pending list is C17's model; the harness checks on
   the real pool that unmarked transactions are pending again.) *)
Theorem C05_pool_sync : forall U gen, tree_ok U -> forall s l, chain_ok U gen l -> rep s l ->
  (forall t, exec s t = true <-> exists x, In x l /\ In t (txs x)) /\
  (forall f x a t, l = f ++ x :: a -> In t (txs x) -> forall y, In y a -> ~ In t (txs y)).
Proof.
  intros U gen [H1 H2] s l Hc R. split.
  - intro t. rewrite (r_exec _ _ R). unfold E. rewrite existsb_exists. split.
    + intros [x [Hi Hm]]. exists x. split; auto. now apply tmem_in.
    + intros [x [Hi Hm]]. exists x. split; auto. now apply tmem_in.
  - intros f x a t El Hi y Hy Hty.
    pose proof (chain_tx_once U gen l Hc f x a t El Hi) as Hf.
    assert (E a t = true); [|congruence].
    unfold E. apply existsb_exists. exists y. split; auto. now apply tmem_in.
Qed.
Print Assumptions C05_pool_sync.

(* Fork switch of the sync path (fork_block.go triggerOnChain): lighter-fork test, common-ancestor
   search by height, prove-value tie test, removeFromCommonAncestor on the first call, then the fork's
   blocks height by height through consensusVerify + addBlockOnChain, stopping at the first block that
   is missing, already there or not added. Whatever the fork holds (any blocks of U at any heights, a
   stale header, a segment that stops half way), whatever orphans wait: after the call the store is the
   image of a chain; cut after ANY write prefix, with interrupted restarts, one complete restart gives
   such a state again; the volatile state stays sound. *)
Theorem C05_fork_switch_safe : forall U gen, tree_ok U -> forall fuel v s fk,
  vol_ok U gen v -> fork_ok U fk -> Inv U gen s ->
  let '(ws, _, _, v', _) := fork_trigger fuel v s fk in
  Inv U gen (apply ws s) /\ vol_ok U gen v' /\
  forall k js, Inv U gen (recover (faults js (crash k ws s))).
Proof.
  intros U gen [H1 H2] fuel v s fk Hv Hf HI.
  pose proof (fork_crash_safe U gen H1 H2 fuel v s fk Hv Hf HI) as K.
  destruct HI as [l [Hc R]].
  destruct (fork_trigger fuel v s fk) as [[[[ws ok] fk'] v2] ex] eqn:E0. cbn [fst] in K.
  destruct (fork_trigger_ok U gen H1 H2 fuel v s fk l Hv Hf Hc R _ _ _ _ _ E0) as [_ V].
  split. exact (proj1 (K 0%nat [])). split. exact V. intros k js. exact (proj2 (K k js)).
Qed.
Print Assumptions C05_fork_switch_safe.

(* Weight across a fork switch, under the guard that excludes the defect: a call that runs to the end
   (returns true, recursion budget not exhausted) on a fork that still has a block to add ends on a
   chain at least as heavy as the old head's. Without "runs to the end" this is false:
   C05_fork_switch_weight_refuted. *)
Theorem C05_fork_switch_weight_done : forall U gen, tree_ok U -> forall fuel v s fk l,
  vol_ok U gen v -> fork_ok U fk -> chain_ok U gen l -> rep s l ->
  f_blocks fk (height (f_latest fk)) = Some (f_latest fk) ->
  (if f_current fk =? f_header fk then f_current fk + 1 else f_current fk) <= height (f_latest fk) ->
  forall ws fk' v2, fork_trigger fuel v s fk = (ws, true, fk', v2, false) ->
  exists l', chain_ok U gen l' /\ rep (apply ws s) l' /\ qhd l <= qhd l'.
Proof. intros U gen [H1 H2]. exact (fork_trigger_weight U gen H1 H2). Qed.
Print Assumptions C05_fork_switch_weight_done.

(* the fork object itself: created on a chain block, fed blocks of U *)
Theorem C05_fork_wellformed : forall (U : block -> Prop) a, U a -> fork_ok U (fork_new a) /\
  forall fk b, fork_ok U fk -> U b -> fork_ok U (fst (fork_add fk b)).
Proof. intros U a Ua. split. now apply fork_new_ok. intros. now apply fork_add_ok. Qed.

(* verifiedBlocks is an lru of 20: the 21st verification evicts the oldest entry (replayed on the real
   code by the harness's scripted history: a cached, weight-refused block is refused by weight while
   cached and by the executed-transaction check once evicted). All theorems above hold for every cache
   content that is sound (vf_ok), which every operation of the model preserves. *)
Example C05_cache_capacity :
  let vf := fold_left (fun v h => vf_add h v) (map N.of_nat (seq 1 21)) [] in
  length vf = 20%nat /\ vmem vf 1 = false /\ vmem vf 2 = true /\ vmem vf 21 = true /\
  vmem (vf_get 2 vf) 2 = true /\ vmem (vf_add 22 (vf_get 2 vf)) 2 = true /\ vmem (vf_add 22 vf) 2 = false.
Proof. vm_compute. repeat split; reflexivity. Qed.

(* First start. insertGenesisBlock cut after ANY number k of its store writes (state commit, hash index,
   height index, verify hash, head record), then a start that completes: the store is the image of
   [genesis]. (Genesis carries no transactions.) This holds for the write order of /repo 672c8b4; with
   the earlier order - head record before verify hash - it is false, see C05_genesis_old_order_refuted. *)
Theorem C05_genesis_crash_safe : forall U gen, tree_ok U -> txs gen = [] -> forall k,
  rep (boot gen (crash k (genesis_writes gen) st0)) [gen].
Proof. intros U gen _. exact (genesis_crash_safe gen). Qed.
Print Assumptions C05_genesis_crash_safe.

(* Pool clause, volatile half (crash-free): the pool object is C17's model (coq/C17/Model.v), driven by
   the chain's WExec / WUnexec writes (pstep). For ANY write list ws that takes the store from the image
   of chain l to the image of chain l' - one delivery with its reorg and chained orphans, one fork
   switch call, complete or stopped half way - starting from a pool whose executed store agrees with
   the chain's and whose pending list is disjoint from it and has room: every transaction of a block
   of l that no block of l' carries is pending afterwards; every transaction of l' is executed and not
   pending. [evf ts] is the header's evicted list of the block with body ts; the theorem is for evicted
   lists within the body - the regime below the Proposal018 height, where a failed transaction stays in
   the body and is listed as evicted (and every block without evictions in any regime). From 018 on an
   evicted transaction is not in the body and is dropped from the pool by design. *)
Theorem C05_pending_again : forall (evf : list N -> list N),
  (forall ts h, existsb (N.eqb h) (evf ts) = true -> existsb (N.eqb h) ts = true) ->
  forall lim ws s l l' p,
  rep s l -> rep (apply ws s) l' -> rel s p -> dis p ->
  N.of_nat (length (V.C17.Model.received p) + length ws) <= lim ->
  let p' := pool_after evf lim ws p in
  (forall t, E l t = true -> E l' t = false -> Pending.R p' t = true) /\
  (forall t, E l' t = true -> Pending.X p' t = true /\ Pending.R p' t = false) /\
  rel (apply ws s) p' /\ dis p'.
Proof.
  intros evf Hev lim ws s l l' p R0 R1 Hrel Hdis Hcap. cbn zeta.
  destruct (pending_trace evf Hev lim ws s p Hrel Hdis Hcap) as [T1 [T2 T3]].
  split; [|split; [|split]]; auto.
  - intros t H0 H1. apply T3. left. now rewrite (r_exec _ _ R0). now rewrite (r_exec _ _ R1).
  - intros t H1. assert (Hx : Pending.X (pool_after evf lim ws p) t = true) by (rewrite T1, (r_exec _ _ R1); exact H1).
    split; auto. destruct (Pending.R (pool_after evf lim ws p) t) eqn:Er; auto. rewrite (T2 t Er) in Hx. discriminate.
Qed.
Print Assumptions C05_pending_again.

(* ---- non-vacuity and order-sensitivity on a concrete tree ---- *)
Definition g0 := mkB 1 0 0 0 0 100 [].
Definition a1 := mkB 2 1 1 1 5 101 [7].
Definition a2 := mkB 3 2 2 2 5 102 [8].
Definition b1 := mkB 4 1 1 3 4 103 [9].      (* sibling of a1, heavier than a2 *)
Definition c1 := mkB 5 1 1 9 4 104 [7].      (* heaviest sibling, carries a1's transaction *)
Definition U0 (x : block) : Prop := In x [g0; a1; a2; b1].

Lemma U0_tree : tree_ok U0.
Proof.
  split.
  - intros x y Hx Hy. unfold U0 in *. cbn in Hx, Hy.
    repeat (destruct Hx as [<-|Hx]; [|]); try contradiction;
    repeat (destruct Hy as [<-|Hy]; [|]); try contradiction; cbn; intros; try reflexivity; discriminate.
  - intros p c Hp Hq. unfold U0 in *. cbn in Hp, Hq.
    repeat (destruct Hp as [<-|Hp]; [|]); try contradiction;
    repeat (destruct Hq as [<-|Hq]; [|]); try contradiction; cbn; intros; try discriminate; lia.
Qed.

(* The hypotheses are satisfiable: the image of [genesis] satisfies Inv; delivering a2 (orphan), a1
   (pulls a2 in), b1 (heavier fork: two removals and an insert) ends with head b1. *)
Example C05_example :
  Inv U0 g0 (st_of [g0]) /\ vol_ok U0 g0 (fun _ => None, []) /\
  let s := fst (run 10 (fun _ => None, []) (st_of [g0]) [a2; a1; b1]) in
  option_map hash (cur s) = Some 4 /\ is_some (byHeight s 2) = false /\ is_some (byHash s 2) = false /\
  map (exec s) [7; 8; 9] = [false; false; true].
Proof.
  split; [|split].
  - exists [g0]. split. cbn. split; [left|]; reflexivity. apply rep_st_of.
  - split. intros h c; discriminate. intros b a rest _; discriminate.
  - vm_compute. repeat split; reflexivity.
Qed.

(* What the code does with a heavier sibling that carries a transaction of the local branch: verifyBlock
   finds the transaction in the executed store and refuses the block (AddBlockFailed) before the fork
   choice is reached; the head stays. (Safe for this property; such forks are left to the sync path.) *)
Example C05_example_shared_tx_refused :
  let '(s, _, r) := deliver 10 (fun _ => None, []) (fst (run 10 (fun _ => None, []) (st_of [g0]) [a1])) c1 in
  r = RFailed /\ option_map hash (cur s) = Some 2.
Proof. vm_compute. split; reflexivity. Qed.

(* The proof depends on the write order: with the add mark erased BEFORE the head record is written
   (last two writes of insertBlock swapped), a crash between them leaves a1 indexed above the head and
   no mark for the restart to act on - the invariant is lost. *)
Definition insert_writes_swapped (b : block) : list write :=
  [WAddMark b; WPutHash b; WPutHeight b; WState (root b); WPutV (height b) (hash b); WExec (txs b);
   WDelAddMark; WCur b].

Example C05_order_matters :
  ~ Inv U0 g0 (recover (crash 7 (insert_writes_swapped a1) (st_of [g0]))).
Proof.
  intro H. destruct (C05_inv_meaning U0 g0 U0_tree _ H) as [l [hd [_ [Hc [_ [_ [_ [Hh _]]]]]]]].
  vm_compute in Hc. inversion Hc; subst hd.
  destruct (Hh 1 a1 eq_refl) as [_ [_ Hle]]. vm_compute in Hle. apply Hle. reflexivity.
Qed.

(* insertGenesisBlock as it was before /repo 672c8b4: head record, THEN verify hash. A first start cut
   between the two (k = 4) is never repaired: the restart finds the head record, runs
   ensureChainConsistency (no marks) and leaves height 0 without verify hash. Replayed on the real
   code by the harness (key C05/inv-verify-hash:genesis-crash-putHead) before the repair. *)
Definition genesis_writes_old (g : block) : list write :=
  [WState (root g); WPutHash g; WPutHeight g; WCur g; WPutV (height g) (hash g)].

Example C05_genesis_old_order_refuted :
  exists k, let s := boot g0 (crash k (genesis_writes_old g0) st0) in
    option_map hash (cur s) = Some 1 /\ vhash s 0 = None /\ ~ rep s [g0].
Proof.
  exists 4%nat. cbn zeta. split; [reflexivity|]. split; [reflexivity|].
  intro R. pose proof (r_vhash _ _ R 0) as H. vm_compute in H. discriminate.
Qed.


(* Weight clause across a fork switch: REFUTED for the code as it is. Local chain g0 - x1 (QN 3). The
   peer's chain g0 - f1 - f2 - f3 (QN 1, 2, 5) is heavier. f2 had arrived by broadcast before and waits
   as an orphan. triggerOnChain removes x1, adds f1 - whose on-chain callback pulls the waiting f2 in -
   and then finds f2 "already existing", which tryAddBlockOnChain counts as a failure: the switch stops
   with head f2, QN 2 < 3, and no retry changes that. The same happens when the fork's header lies
   below the real common ancestor (the local chain moved along the fork meanwhile). Both replayed on
   the real code by the harness (keys C05/weight:qn-decreased-fork-switch:<cause>). The store stays the image
   of a chain (C05_fork_switch_safe). *)
Definition x1 := mkB 6 1 1 3 1 110 [].
Definition f1 := mkB 7 1 1 1 1 111 [].
Definition f2 := mkB 8 7 2 2 1 112 [].
Definition f3 := mkB 9 8 3 5 1 113 [].

Example C05_fork_switch_weight_refuted :
  let v0 : vol := (fun _ => None, []) in
  let '(s1, v1) := run 10 v0 (st_of [g0]) [f2; x1] in
  let fk := fst (fork_add (fst (fork_add (fst (fork_add (fork_new g0) f1)) f2)) f3) in
  let '(ws, done, fk', v2, _) := fork_trigger 10 v1 s1 fk in
  option_map qn (cur s1) = Some 3 /\ qn (f_latest fk) = 5 /\
  done = false /\ option_map qn (cur (apply ws s1)) = Some 2 /\
  (let '(ws', done', _, _, _) := fork_trigger 10 v2 (apply ws s1) fk' in ws' = [] /\ done' = false).
Proof. vm_compute. repeat split; reflexivity. Qed.


(* hypotheses of C05_pending_again are satisfiable, and the conclusion is not vacuous: after [a2; a1; b1]
   (reorg from g0-a1-a2 to g0-b1) transactions 7 and 8 are pending, 9 is executed. *)
Example C05_pending_example :
  let v0 : vol := (fun _ => None, []) in
  let s0 := fst (run 10 v0 (st_of [g0]) [a2; a1]) in
  let ws := fst (fst (fst (add_writes 10 (fun _ => None) [] s0 b1))) in
  let evf := fun ts : list N => filter (fun t => t =? 8) ts in   (* 8 failed in its block: evicted and in the body *)
  let p0 := pool_after evf 100 (insert_writes a1 ++ insert_writes a2) V.C17.Model.empty in
  let p1 := pool_after evf 100 ws p0 in
  map (Pending.X p0) [7; 8; 9] = [true; true; false] /\
  map (Pending.R p1) [7; 8; 9] = [true; true; false] /\ map (Pending.X p1) [7; 8; 9] = [false; false; true].
Proof. vm_compute. repeat split; reflexivity. Qed.

(* Lock-free readers (QueryBlockHeaderByHeight(h,true), GetBlockHash: topBlocks first, then the height
   store) interleaved step by step with the store writes and the topBlocks updates of complete
   insertBlock / remove runs of the chain goroutine. The event lists carry exactly the model's write
   lists. In the code as it is a reader never writes the cache: for ANY interleaving, whatever the cache
   holds for a height is what the height store holds, so a cached read answers like the store - and the
   store is the image of the chain (C05_inv_meaning). *)
Theorem C05_cached_reads_see_chain : forall evs c,
  no_fill evs -> seq_ops c (main_of evs) -> cache_ok c ->
  cache_ok (erun evs c) /\ forall n, cached_read (erun evs c) n = byHeight (c_st (erun evs c)) n.
Proof. exact cached_reads_see_store. Qed.
Print Assumptions C05_cached_reads_see_chain.

Theorem C05_reader_events_faithful : forall s b,
  writes_of (insert_events b) = insert_writes b /\ writes_of (remove_events s b) = remove_writes s b.
Proof. intros. split. apply insert_events_writes. apply remove_events_writes. Qed.

(* The variant in which a reader that missed the cache puts the value it read into it (seeded change
   C05-5): reader 0 reads height 1 from the store (a1) on a cold cache, the chain removes a1 and inserts
   the sibling b1, the reader fills the cache - from then on cached reads of height 1 answer the removed
   a1 while the store holds b1. Replayed on the real code by the harness's gated schedules (key
   C05/inv-height-index:cached-read-stale). *)
Example C05_read_fills_cache_refuted :
  let c0 := mkC (st_of [a1; g0]) (fun _ => None) (fun _ => None) in
  let evs := [RRead 0 1] ++ remove_events (c_st c0) a1 ++ insert_events b1 ++ [RFill 0 1] in
  let c := erun evs c0 in
  seq_ops c0 (main_of evs) /\ cache_ok c0 /\
  option_map hash (byHeight (c_st c) 1) = Some 4 /\ option_map hash (cached_read c 1) = Some 2 /\ ~ cache_ok c.
Proof.
  cbn zeta. split; [|split; [discriminate|]].
  - change (main_of ([RRead 0 1] ++ remove_events (st_of [a1; g0]) a1 ++ insert_events b1 ++ [RFill 0 1]))
      with (remove_events (st_of [a1; g0]) a1 ++ insert_events b1 ++ []).
    apply (so_rem (mkC (st_of [a1; g0]) (fun _ => None) (fun _ => None)) a1). apply so_ins. apply so_nil.
  - split; [reflexivity|]. split; [reflexivity|].
    intro H. specialize (H 1 a1 eq_refl). vm_compute in H. discriminate.
Qed.
